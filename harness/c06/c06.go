// Package c06: conservation of value over chains of blocks executed by the real application stack (account transfers,
// token transfers, account->confidential, confidential->confidential, confidential->account, tampered and replayed
// variants), with the native RingCT primitives replaced by the ideal functionality of the stub library.
package c06

import (
	"fmt"
	"math/big"
	"strings"

	"lvharness/appsim"
	"lvharness/hx"
)

type P struct{}

func (P) Rule() string {
	return "each case is a chain of 3..8 blocks on the real LinkApplication (trie or kv mode) built from random ops over 3 accounts and 2 confidential wallets: " +
		"xfer, xfertok, ain (A->U), uu (U->U), ua (U->A) with correct, stale and future nonces, replays, spends of spent outputs, tampered confidential txs " +
		"(outpk, pseudo-out, fee, range proof, key image, ring signature) and lies about the spent amount (claim); after every block the balances of every account, " +
		"the foundation, the zero address, the pool as its owners see it and the total supply are printed and compared with the ledger model; " +
		"a second stream forces blocks a Byzantine proposer can assemble that carry VALUE-UNDERFUNDED account transfers (xfer / xfertok whose gas is funded but whose value is not): alone, mixed with valid " +
		"transactions in both orders, followed in the same block by the sender's next nonce, twice the same, then replayed through the mempool and forced again, also after a restart, and GAS-underfunded ones " +
		"(block invalid): the real Process commits the former with a FAILED receipt (status 0, gas 0, nonce bumped, nothing moves) — balances, foundation, supply, nonces and the receipts are compared with the " +
		"receipt-accurate ledger model (Model.LedgerR); " +
		"a third stream (`chain ... code=2 rec=1`) runs contract CREATIONS (init code returning code / nothing / REVERT / invalid opcode / oversize / maximal code / JSON payload, with and without " +
		"endowment, at the gas boundaries), a value-MOVING contract (keep, CALL-forward, forward half, forward-then-revert, forward-then-invalid, TRANSFERTOKEN, sweep, SELFDESTRUCT to an account / a fresh " +
		"address / itself), token-carrying calls, transfers to addresses that do not exist, and confidential transactions of the shapes the semantic check refuses; it observes every address a contract can pay (`balx`) " +
		"and the application's OWN audit log of balance movements (`recs`): state change per bucket over a block = net of that block's balance records; the only accepted destruction is a contract destroying itself in its own favour, by exactly its holdings; " +
		"monitors: total native and token supply constant, tampered txs never admitted, fees debited = fees credited, a failed receipt charges nothing; " +
		"non-trivial = at least two blocks with a transaction and at least one confidential transaction committed; distinct = distinct op sequence"
}

type exec struct{ c appsim.ChainExec }

func (P) NewExec() hx.Executor { return &exec{} }

func (e *exec) Exec(op string) string { return e.c.ExecLedger(op) }

func (P) Monitor(c *hx.CaseRun) []hx.Failure {
	var fs []hx.Failure
	supply, toks := "", ""
	claim := false
	allFailed, prevBal := false, ""
	xm := newXMon()
	sm := &sysMon{}
	badFee := map[string]string{}                // tx id -> the confidential op whose fee is not a whole number of gas prices
	tokCase, tokUnit, tokSupply := false, "", "" // a chain with token confidential transactions: the token supply includes the token pool (`tbal`)
	subUnit := map[string]string{}               // tx id -> the `ain` op whose account input is zero or not a whole number of units
	for i, op := range c.Ops {
		ans := c.Impl[i]
		toks_ := hx.Tokens(op)
		fs = append(fs, xm.step(op, toks_, ans)...)
		switch toks_[0] {
		case "case", "chain":
			tokCase, tokUnit, tokSupply = false, "", ""
		case "tokchain":
			tokCase, tokSupply = true, ""
			d, _ := hx.Arg(toks_, "tokdec")
			var di int
			fmt.Sscan(d, &di)
			tokUnit = appsim.TokenUnit(di).String()
		case "tain", "tua", "tuu":
			admitted := strings.Contains(ans, "admit=ok")
			if r, ok := hx.Arg(toks_, "rem"); ok && admitted {
				rv, _ := new(big.Int).SetString(r, 10)
				u, _ := new(big.Int).SetString(tokUnit, 10)
				if rv != nil && u != nil && new(big.Int).Mod(rv, u).Sign() != 0 {
					fs = append(fs, hx.Failure{Monitor: "amount_range_enforced", Class: "sub-unit-token-amount-admitted", Site: "types/tx_utxo.go:checkTxSemantic",
						Msg: "a token confidential transaction whose account-side amount is not a whole number of the TOKEN's commitment units (" + tokUnit + ") was admitted: " + op})
				}
			}
			if l, _ := hx.Arg(toks_, "lie"); l == "1" && admitted && tokUnit != "10000000000" {
				fs = append(fs, hx.Failure{Monitor: "token_unit_enforced", Class: "token-unit-mismatch-admitted", Site: "types/tx_utxo.go:checkCommitEqual",
					Msg: "a withdrawal from the token pool whose account output is written in the NATIVE unit (hidden units x 1e10) while the token's unit is " + tokUnit + " was admitted: it pays out 1e10/unit times what was hidden: " + op})
			}
		case "tbal":
			if strings.HasPrefix(ans, "t=") {
				ts, _ := hx.Arg(hx.Tokens(ans), "toksupply")
				if tokSupply != "" && ts != tokSupply {
					fs = append(fs, hx.Failure{Monitor: "token_supply_conserved", Class: "token-supply-changed", Site: "types/tx_utxo.go:checkCommitEqual",
						Msg: fmt.Sprintf("the token supply — account balances plus the token pool as its owners see it, hidden units x the unit the chain was built with (%s) — changed from %s to %s (units of 1e10 base units)", tokUnit, tokSupply, ts)})
				}
				tokSupply = ts
			}
		}
		fs = append(fs, sm.step(op, toks_, ans)...)
		if v, ok := hx.Arg(toks_, "claim"); ok && v != "" {
			claim = true
		}
		if t, ok := hx.Arg(toks_, "tamper"); ok && strings.Contains(ans, "admit=ok") {
			fs = append(fs, hx.Failure{Monitor: "tampered_tx_rejected", Class: "tampered-admitted:" + t, Site: "types/tx_utxo.go:CheckBasic",
				Msg: "a confidential transaction altered after construction (" + t + ") was admitted: " + op})
		}
		if d, ok := hx.Arg(toks_, "gpd"); ok && d != "0" && strings.Contains(ans, "admit=ok") {
			fs = append(fs, hx.Failure{Monitor: "fees_debited_equal_fees_credited", Class: "off-par-gas-price-admitted", Site: "types/transaction.go:IllegalGasLimitOrGasPrice",
				Msg: "a transaction whose gas price is not the chain's fixed price was admitted (the sender pays gas*price, the collector is credited gas*par): " + op})
		}
		if r, ok := hx.Arg(toks_, "rem"); ok && r != "0" && toks_[0] == "ua" && strings.Contains(ans, "admit=ok") {
			fs = append(fs, hx.Failure{Monitor: "amount_range_enforced", Class: "sub-unit-account-output-admitted", Site: "types/tx_utxo.go:checkTxSemantic",
				Msg: "an account output that is not a whole number of commitment units was admitted (its commitment covers amount/unit, the remainder is credited out of nothing): " + op})
		}
		if toks_[0] == "ain" || toks_[0] == "uu" || toks_[0] == "ua" {
			if fu, ok := hx.Arg(toks_, "feeu"); ok && fu != "" {
				var f int64
				fmt.Sscan(fu, &f)
				if f%10 != 0 {
					if id, ok := hx.Arg(hx.Tokens(ans), "id"); ok {
						badFee[id] = op
					}
					if strings.Contains(ans, "admit=ok") {
						fs = append(fs, hx.Failure{Monitor: "fees_debited_equal_fees_credited", Class: "fee-not-whole-gas-prices-admitted", Site: "types/tx_utxo.go:checkTxSemantic",
							Msg: "a confidential transaction whose fee is not a whole number of gas prices (10 units) was admitted (the commitment covers fee/unit, the collector is credited gas x price: fee mod price is destroyed): " + op})
					}
				}
			}
		}
		if (toks_[0] == "block" || toks_[0] == "forceblock") && strings.HasPrefix(ans, "h=") {
			ids, _ := hx.Arg(hx.Tokens(ans), "txs")
			for _, id := range hx.SplitComma(ids) {
				if bad, ok := badFee[id]; ok {
					fs = append(fs, hx.Failure{Monitor: "fees_debited_equal_fees_credited", Class: "fee-not-whole-gas-prices-committed", Site: "types/tx_utxo.go:checkTxSemantic",
						Msg: "a block was committed that holds a confidential transaction whose fee is not a whole number of gas prices: " + bad})
				}
			}
		}
		if toks_[0] == "ain" {
			rem, _ := hx.Arg(toks_, "rem")
			am, _ := hx.Arg(toks_, "amount")
			fu, _ := hx.Arg(toks_, "feeu")
			if (rem != "" && rem != "0") || (am == "0" && fu == "0") {
				if id, ok := hx.Arg(hx.Tokens(ans), "id"); ok {
					subUnit[id] = op
				}
				if strings.Contains(ans, "admit=ok") {
					fs = append(fs, hx.Failure{Monitor: "amount_range_enforced", Class: "sub-unit-account-input-admitted", Site: "types/tx_utxo.go:checkTxSemantic",
						Msg: "a confidential transaction whose account input is zero or not a whole number of commitment units was admitted (its commitment is built from floor(amount/unit): the remainder is destroyed): " + op})
				}
			}
		}
		if (toks_[0] == "block" || toks_[0] == "forceblock") && strings.HasPrefix(ans, "h=") {
			ids, _ := hx.Arg(hx.Tokens(ans), "txs")
			for _, id := range hx.SplitComma(ids) {
				if bad, ok := subUnit[id]; ok {
					fs = append(fs, hx.Failure{Monitor: "amount_range_enforced", Class: "sub-unit-account-input-committed", Site: "types/tx_utxo.go:checkTxSemantic",
						Msg: "a block was committed that holds a confidential transaction whose account input is zero or not a whole number of commitment units: " + bad})
				}
			}
		}
		if _, ok := hx.Arg(toks_, "hi"); ok && (strings.Contains(ans, "admit=ok") || strings.HasPrefix(ans, "id=")) {
			fs = append(fs, hx.Failure{Monitor: "amount_range_enforced", Class: "oversize-amount-accepted", Site: "types/tx_utxo.go:BigInt2Hash",
				Msg: "an account-side amount of 2^64 units or more was turned into a commitment scalar (it is reduced modulo the scalar's byte width while the full amount is credited): " + op + " -> " + ans})
		}
		// (a forced block that does not execute is refused with propose=panic: that is the expected fate of an invalid Byzantine block)
		if strings.HasPrefix(ans, "panic") || (strings.Contains(ans, "=panic") && toks_[0] != "forceblock") {
			fs = append(fs, hx.Failure{Monitor: "no_panic", Class: "panic:" + ans, Site: "app", Msg: op + " -> " + ans})
		}
		if toks_[0] == "receipts" {
			// the op line carries what the implementation recorded; a block all of whose receipts failed must move nothing
			if v, ok := hx.Arg(toks_, "st"); ok && v != "" {
				allFailed = true
				for _, st := range hx.SplitComma(v) {
					if st != "0" {
						allFailed = false
					}
				}
				// (a reverted contract call also has status 0 but pays the gas it burnt: only gas-0 failures move nothing)
				gv, _ := hx.Arg(toks_, "gas")
				for _, gs := range hx.SplitComma(gv) {
					if gs != "0" {
						allFailed = false
					}
				}
			}
		}
		if toks_[0] == "bal" {
			if allFailed && prevBal != "" && ans != prevBal {
				fs = append(fs, hx.Failure{Monitor: "failed_receipt_charges_nothing", Class: "failed-receipt-moved-value", Site: "app/state_transition.go:refundGas",
					Msg: "a block whose receipts all failed changed balances: " + prevBal + " -> " + ans})
			}
			allFailed = false
			prevBal = ans
			a := hx.Tokens(ans)
			s, _ := hx.Arg(a, "supply")
			t, _ := hx.Arg(a, "toksupply")
			if supply == "" {
				supply, toks = s, t
				continue
			}
			if s != supply {
				cls := "native-supply-changed"
				if claim {
					cls = "short-ring-pseudoout-unbound"
				}
				fs = append(fs, hx.Failure{Monitor: "native_supply_conserved", Class: cls, Site: "types/tx_utxo.go:checkRingctSignatures",
					Msg: fmt.Sprintf("total native supply (accounts + foundation + zero address + coinbase + confidential pool) changed from %s to %s units", supply, s)})
				supply = s
			}
			if t != toks && !tokCase {
				fs = append(fs, hx.Failure{Monitor: "token_supply_conserved", Class: "token-supply-changed", Site: "app/state_transition.go",
					Msg: fmt.Sprintf("total token supply changed from %s to %s units", toks, t)})
				toks = t
			}
		}
	}
	return fs
}

// Inflation is the minimised witness of the known finding (ring size 1: the pseudo-output commitment is unconstrained).
var Inflation = []string{
	"case tags=claim",
	"chain trie=1 accts=2 wallets=2 seed=7",
	"bal",
	"ain from=0 w=0 amount=100000000000 nonce=0",
	"block",
	"bal",
	"uu w=0 in=0 to=1 amount=90000000000000 claim=100000000000000",
	"block",
	"bal",
	"ua w=1 in=0 to=1 amount=80000000000000",
	"block",
	"bal",
}

// Underfunded is the witness of the failed-receipt rule: a forced block with a transfer whose value is not funded (fee
// funded), a token transfer whose token value is not funded, and a funded transfer: the block commits, two receipts fail,
// all three nonces advance, only the third transaction moves value and pays a fee; the failed ones are dead afterwards.
var Underfunded = []string{
	"case tags=underfunded",
	"chain trie=1 accts=3 wallets=2 seed=7 bal=100000000 tbal=1000",
	"bal",
	"xfer from=0 to=1 amount=2000000000 nonce=0",
	"xfertok from=1 to=2 amount=5000 nonce=0",
	"xfer from=2 to=1 amount=7 nonce=0",
	"forceblock ids=0,1,2",
	"bal",
	"nonces",
	"forceblock ids=0",
	"replay id=0",
	"block",
	"forceblock ids=1,1",
	"bal",
	"nonces",
}

// UnderfundedCase builds a chain with small balances (10^8 units, 1000 token units) in which forced blocks carry
// value-underfunded account transfers in every arrangement the property lists.  Ids are exact: every xfer / xfertok op
// registers a transaction, admitted or not.
func UnderfundedCase(g *hx.Gen) []string {
	r := g.Rng
	ops := []string{hx.CaseOp("underfunded"), fmt.Sprintf("chain trie=%d accts=4 wallets=2 seed=%d bal=100000000 tbal=1000", r.Intn(2), 1+r.Intn(1000)), "bal"}
	nonce := []int{0, 0, 0, 0}
	drained := false // account 3 receives nothing and is used once: swept down to 1 unit, then it cannot even pay gas
	id := 0
	add := func(f string, a ...interface{}) { ops = append(ops, fmt.Sprintf(f, a...)) }
	under := func(from int, n int) int { // value not funded, gas funded (balance stays >= 5*10^6 units in this stream)
		if r.Intn(3) == 0 {
			add("xfertok from=%d to=%d amount=%d nonce=%d", from, r.Intn(3), 1001+r.Intn(100000), n)
		} else {
			add("xfer from=%d to=%d amount=%d nonce=%d", from, r.Intn(3), 100000000+r.Intn(2000000000), n)
		}
		id++
		return id - 1
	}
	valid := func(from int, n int) int {
		add("xfer from=%d to=%d amount=%d nonce=%d", from, r.Intn(3), 1+r.Intn(1000), n)
		id++
		return id - 1
	}
	var dead []int
	rounds := 2 + r.Intn(g.Pick(3, 5))
	for k := 0; k < rounds; k++ {
		a := r.Intn(3)
		switch v := r.Intn(7); v {
		case 0: // alone
			g.Count("underfunded:alone")
			u := under(a, nonce[a])
			add("forceblock ids=%d", u)
			nonce[a]++
			dead = append(dead, u)
		case 1: // mixed with a valid transaction of another sender, both orders
			g.Count("underfunded:mixed")
			c := (a + 1 + r.Intn(2)) % 3
			u := under(a, nonce[a])
			w := valid(c, nonce[c])
			if r.Intn(2) == 0 {
				add("forceblock ids=%d,%d", u, w)
			} else {
				add("forceblock ids=%d,%d", w, u)
			}
			nonce[a]++
			nonce[c]++
			dead = append(dead, u)
		case 2: // the sender's next nonce in the same block: it runs because the failed receipt consumed the nonce
			g.Count("underfunded:then-next-nonce")
			u := under(a, nonce[a])
			w := valid(a, nonce[a]+1)
			if r.Intn(3) == 0 {
				add("forceblock ids=%d,%d", w, u) // wrong order: invalid
			}
			add("forceblock ids=%d,%d", u, w)
			nonce[a] += 2
			dead = append(dead, u)
		case 3: // twice the same in one block (invalid), then once
			g.Count("underfunded:twice")
			u := under(a, nonce[a])
			add("forceblock ids=%d,%d", u, u)
			add("forceblock ids=%d", u)
			nonce[a]++
			dead = append(dead, u)
		case 4: // two different underfunded transactions of one sender with the same nonce: only one can be consumed
			g.Count("underfunded:same-nonce-pair")
			u1 := under(a, nonce[a])
			u2 := under(a, nonce[a])
			add("forceblock ids=%d,%d", u1, u2)
			add("forceblock ids=%d", u2)
			add("forceblock ids=%d", u1)
			nonce[a]++
			dead = append(dead, u1, u2)
		case 5: // gas not funded: sweep account 3 down to 1 unit, then force a transfer of it: the block is INVALID (buyGas), no failed receipt
			if drained {
				continue
			}
			drained = true
			g.Count("underfunded:gas")
			add("xfer from=3 to=%d amount=94999999 nonce=0", r.Intn(3)) // cost 94999999 + fee 5000000 = 99999999
			id++
			add("block")
			nonce[3] = 1
			u := under(3, 1)
			add("forceblock ids=%d", u)
			w := valid(3, 1)
			add("forceblock ids=%d", w)
			_ = u
		default: // replay the dead ones through the mempool and force them again, possibly after a restart
			if len(dead) > 0 {
				g.Count("underfunded:replay-dead")
				if r.Intn(3) == 0 {
					add("restart")
				}
				d := dead[r.Intn(len(dead))]
				add("replay id=%d", d)
				add("block")
				add("forceblock ids=%d", d)
				if len(dead) > 1 {
					add("forceblock ids=%d,%d", dead[r.Intn(len(dead))], d)
				}
			}
		}
		add("bal")
		add("nonces")
	}
	return ops
}

func (P) Generate(g *hx.Gen) {
	g.Case("corpus: short-ring inflation", WithReceipts(Inflation), true)
	g.Case("corpus: forced block with value-underfunded transfers (failed receipts)", WithReceipts(Underfunded), true)
	for k, nu := 0, g.Pick(40, 400); k < nu; k++ {
		g.Case("underfunded forced blocks", WithReceipts(UnderfundedCase(g)), true)
	}
	for k, ns := 0, g.Pick(30, 200); k < ns; k++ {
		g.Case("account inputs that are not a whole number of commitment units", WithReceipts(SubUnitCase(g)), true)
	}
	for k, ns := 0, g.Pick(25, 200); k < ns; k++ {
		g.Case("confidential fees that are not a whole number of gas prices, below and above the required fee", WithReceipts(FeeCase(g)), true)
	}
	for k, ns := 0, g.Pick(24, 160); k < ns; k++ {
		g.Case("token confidential transactions, token units 1 / 1e6 / 1e10 / 1e18", WithReceipts(TokCase(g, k)), true)
	}
	for k, ns := 0, g.Pick(15, 100); k < ns; k++ {
		g.Case("forced blocks with off-nonce transactions of every nonce-consuming kind", WithReceipts(NonceGapCase(g)), true)
	}
	for k, ns := 0, g.Pick(4, 16); k < ns; k++ {
		g.Case("real genesis: system contracts, elections, awards", WithReceipts(SysCase(g)), true)
	}
	g.Case("corpus: creations, value-moving contract, token calls, refused shapes", WithReceipts(ContractCorpus), true)
	for k, nc := 0, g.Pick(50, 400); k < nc; k++ {
		g.Case("contracts: creation / value moved by contracts / token value / refused shapes", WithReceipts(ContractCase(g)), true)
	}
	n := g.Pick(200, 1200)
	for k := 0; k < n; k++ {
		trie := g.Rng.Intn(2)
		ops := []string{hx.CaseOp(), fmt.Sprintf("chain trie=%d accts=3 wallets=2 seed=%d code=1", trie, 1+g.Rng.Intn(1000)), "bal"}
		nonce := []int{0, 0, 0}
		owned := []int{0, 0} // number of outputs each wallet has ever received (index space for in=)
		blocks := 3 + g.Rng.Intn(g.Pick(4, 6))
		conf := 0
		txBlocks := 0
		calls, priced, vcalls := 0, 0, 0
		for b := 0; b < blocks; b++ {
			ntx := g.Rng.Intn(5)
			pendingOuts := []int{0, 0}
			for t := 0; t < ntx; t++ {
				from := g.Rng.Intn(3)
				switch r := g.Rng.Intn(19); {
				case r < 3:
					ops = append(ops, fmt.Sprintf("xfer from=%d to=%d amount=%d nonce=%d", from, g.Rng.Intn(3), 1+g.Rng.Intn(100000), nonce[from]))
					nonce[from]++
				case r == 3:
					ops = append(ops, fmt.Sprintf("xfertok from=%d to=%d amount=%d nonce=%d", from, g.Rng.Intn(3), 1+g.Rng.Intn(1000), nonce[from]))
					nonce[from]++
				case r == 4: // stale or future nonce
					d := []int{-1, 2, 5}[g.Rng.Intn(3)]
					if nonce[from]+d >= 0 {
						ops = append(ops, fmt.Sprintf("xfer from=%d to=%d amount=%d nonce=%d", from, g.Rng.Intn(3), 1+g.Rng.Intn(1000), nonce[from]+d))
					}
				case r < 8:
					w := g.Rng.Intn(2)
					ops = append(ops, fmt.Sprintf("ain from=%d w=%d amount=%d nonce=%d", from, w, 20000000000+g.Rng.Intn(1000000)*10000, nonce[from]))
					nonce[from]++
					pendingOuts[w]++
					conf++
				case r < 11:
					w := g.Rng.Intn(2)
					if owned[w] > 0 {
						in := g.Rng.Intn(owned[w])
						ops = append(ops, fmt.Sprintf("uu w=%d in=%d to=%d amount=%d", w, in, g.Rng.Intn(2), 1+g.Rng.Intn(5000000000)))
						conf++
						pendingOuts[0]++ // at most: recipients are learnt after the scan; over-approximate the index space
						pendingOuts[1]++
					}
				case r < 13:
					w := g.Rng.Intn(2)
					if owned[w] > 0 {
						ops = append(ops, fmt.Sprintf("ua w=%d in=%d to=%d amount=%d", w, g.Rng.Intn(owned[w]), g.Rng.Intn(3), 1+g.Rng.Intn(5000000000)))
						conf++
					}
				case r == 13:
					w := g.Rng.Intn(2)
					if owned[w] > 0 {
						ops = append(ops, fmt.Sprintf("uu w=%d in=%d to=%d amount=%d tamper=%s", w, g.Rng.Intn(owned[w]), g.Rng.Intn(2), 1+g.Rng.Intn(1000000),
							[]string{"outpk", "pseudo", "fee", "proof", "image", "sig"}[g.Rng.Intn(6)]))
					}
				case r == 14:
					if tot := strings.Count(strings.Join(ops, "\n"), "\nxfer") + conf; tot > 0 {
						ops = append(ops, fmt.Sprintf("replay id=%d", g.Rng.Intn(tot)))
					}
				case r == 15 && g.Rng.Intn(2) == 0:
					ops = append(ops, "nonces")
				default:
					switch g.Rng.Intn(7) {
					case 0, 1: // contract call that succeeds (storage writes, log) or reverts (c=255)
						c := g.Rng.Intn(40)
						if g.Rng.Intn(3) == 0 {
							c = 255
						}
						op := fmt.Sprintf("call from=%d c=%d nonce=%d", from, c, nonce[from])
						if g.Rng.Intn(3) == 0 {
							// a call that carries value: the value stays with the contract when it succeeds and with the sender when it
							// fails; half of them with a gas limit that covers the value-proportional transfer gas (so the
							// transaction is admitted) but not transfer gas + intrinsic gas (so it fails before anything runs)
							v := int64(1 + g.Rng.Intn(5000))
							op += fmt.Sprintf(" value=%d", v)
							if g.Rng.Intn(2) == 0 {
								op += fmt.Sprintf(" gas=%d", appsim.CallTransferGas(v)+uint64(g.Rng.Int63n(int64(appsim.CallIntrinsicGas()))))
							}
							vcalls++
						}
						ops = append(ops, op)
						nonce[from]++
						calls++
					case 2: // a gas price other than the fixed one must be refused (sender would pay gas*price, the collector get gas*par)
						d := []int64{1, -1, 100000000000, 200000000000, -100000000000}[g.Rng.Intn(5)]
						if g.Rng.Intn(2) == 0 {
							ops = append(ops, fmt.Sprintf("xfer from=%d to=%d amount=%d nonce=%d gpd=%d", from, g.Rng.Intn(3), 1+g.Rng.Intn(1000), nonce[from], d))
						} else {
							ops = append(ops, fmt.Sprintf("call from=%d c=%d nonce=%d gpd=%d", from, g.Rng.Intn(40), nonce[from], d))
						}
						priced++
					case 3: // account-side amount beyond the 8 bytes of units the amount->scalar conversion supports
						w := g.Rng.Intn(2)
						if owned[w] > 0 {
							ops = append(ops, fmt.Sprintf("ua w=%d in=%d to=%d amount=%d hi=%d claim=300000000000", w, g.Rng.Intn(owned[w]), g.Rng.Intn(3), 1+g.Rng.Intn(100000),
								[]int{64, 65, 71, 72, 73, 80, 100}[g.Rng.Intn(7)]))
						}
					case 4: // an account output that is not a whole number of commitment units (the commitment covers amount/unit)
						w := g.Rng.Intn(2)
						if owned[w] > 0 {
							ops = append(ops, fmt.Sprintf("ua w=%d in=%d to=%d amount=%d rem=%d", w, g.Rng.Intn(owned[w]), g.Rng.Intn(3), 1+g.Rng.Intn(100000),
								[]int64{1, 5, 9999999999, 5000000000}[g.Rng.Intn(4)]))
						}
					default: // spend a whole output to an account: a transaction without any confidential output
						w := g.Rng.Intn(2)
						if owned[w] > 0 {
							ops = append(ops, fmt.Sprintf("ua w=%d in=%d to=%d all=1", w, g.Rng.Intn(owned[w]), g.Rng.Intn(3)))
							conf++
						}
					}
				}
			}
			ops = append(ops, "block")
			if ntx > 0 {
				txBlocks++
			}
			owned[0] += pendingOuts[0]
			owned[1] += pendingOuts[1]
			ops = append(ops, "bal")
		}
		g.Count(fmt.Sprintf("mode:trie=%d", trie))
		if vcalls > 0 {
			g.Count("with-value-carrying-calls")
		}
		if calls > 0 {
			g.Count("with-contract-calls")
		}
		if priced > 0 {
			g.Count("with-off-par-gas-price")
		}
		g.Case(fmt.Sprintf("chain trie=%d blocks=%d", trie, blocks), WithReceipts(ops), txBlocks >= 2 && conf > 0)
	}
}

// WithReceipts dry-runs the ops on a private executor and inserts after every block the `receipts` op carrying the gas
// used and status the implementation recorded (the ledger model takes them as given and checks its own prediction); contract
// calls are annotated with the gas the dry run charged them (used=, st=): the ledger model does not execute contracts, it
// takes the metered gas as an input and predicts balances, nonces and fees from it.
func WithReceipts(ops []string) []string {
	var ex appsim.ChainExec
	var out []string
	opOf := map[string]int{} // tx id -> index in out of the op that built it
	for _, op := range ops {
		ans := hx.SafeExec(execOf(&ex), op)
		out = append(out, op)
		at := hx.Tokens(ans)
		if id, ok := hx.Arg(at, "id"); ok && (strings.HasPrefix(op, "call") || strings.HasPrefix(op, "create") || strings.HasPrefix(op, "mcall") || strings.HasPrefix(op, "xferx")) {
			opOf[id] = len(out) - 1
		}
		if (strings.HasPrefix(op, "block") || strings.HasPrefix(op, "forceblock") || strings.HasPrefix(op, "sblk")) && strings.HasPrefix(ans, "h=") {
			h, _ := hx.Arg(at, "h")
			var hh uint64
			fmt.Sscan(h, &hh)
			rop := ex.ReceiptOp(hh)
			out = append(out, rop)
			ids, _ := hx.Arg(at, "txs")
			rt := hx.Tokens(rop)
			gas, _ := hx.Arg(rt, "gas")
			st, _ := hx.Arg(rt, "st")
			gs, ss := strings.Split(gas, ","), strings.Split(st, ",")
			for i, id := range strings.Split(ids, ",") {
				if k, ok := opOf[id]; ok && i < len(gs) && i < len(ss) && !strings.Contains(out[k], " used=") {
					out[k] += fmt.Sprintf(" used=%s st=%s", gs[i], ss[i])
				}
			}
			if strings.HasPrefix(op, "sblk") {
				// what the block paid the award payees travels in the op (the model does not execute the foundation contract)
				out = append(out, ex.AwardsOp())
			}
		}
	}
	hx.SafeExec(execOf(&ex), "case")
	return out
}

type execRef struct{ c *appsim.ChainExec }

func (e execRef) Exec(op string) string      { return e.c.ExecLedger(op) }
func execOf(c *appsim.ChainExec) hx.Executor { return execRef{c} }

// PayDeadContractInSameBlock switches on the cases in which a transaction pays a contract that an EARLIER transaction of the same
// block destroyed (SELFDESTRUCT): on the unchanged tree that value vanishes (known finding pay-selfdestructed-same-block; the
// monitors give exactly that situation, by exactly that amount, its own class; the model mirrors it: Model.LedgerX.endBlock).
const PayDeadContractInSameBlock = true

// ContractCorpus: one hand-made chain through every new op.
var ContractCorpus = []string{
	"case tags=contracts",
	"chain trie=1 accts=3 wallets=2 seed=7 code=2 rec=1",
	"balx",
	"create from=0 kind=ok nonce=0 value=100 gas=3000000",
	"create from=1 kind=ok nonce=0 value=0 gas=3000000",
	"create from=2 kind=json nonce=0 value=5 gas=500000",
	"ain from=2 w=0 amount=30000000000 nonce=1",
	"block", "balx", "recs h=1",
	"mcall from=0 nonce=1 m=2 to=c0 at=0 value=40 gas=3000000",
	"mcall from=1 nonce=1 m=2 to=b1 at=1 value=6 gas=3000000",
	"xferx from=2 nonce=2 to=b0 amount=123",
	"block", "balx", "recs h=2",
	"uxbad shape=ainaout from=0 w=0 to=1 amount=20000000000 nonce=2",
	"uxbad shape=aout2 w=0 in=0 amount=1000",
	"uxbad shape=cout w=0 in=0 amount=1000",
	"xferx from=2 nonce=3 to=b0 amount=123 gas=600000",
	"mcall from=0 nonce=2 m=3 to=b1 value=10 gas=3000000",
	"mcall from=1 nonce=2 m=5 to=a2 value=40 gas=3000000",
	"mcall from=2 nonce=3 m=6 to=a0 value=78 gas=3000000",
	"block", "balx", "recs h=3",
	"mcall from=0 nonce=3 m=7 to=a1 value=10 gas=3000000",
	"mcall from=1 nonce=3 m=8 to=b0 value=3 gas=3000000",
	"mcall from=2 nonce=4 m=1 to=b0 value=1000 gas=1000000",
	"block", "balx", "recs h=4",
	"mcall from=0 nonce=4 m=0 to=a1 value=10 tok=1",
	"mcall from=1 nonce=4 m=4 to=b0 value=30 tok=1",
	"calltok from=2 nonce=5 c=3 value=5",
	"calltok from=0 nonce=5 c=255 value=6",
	"block", "balx", "recs h=5",
	"create from=0 kind=ok nonce=6 value=0 gas=90000",
	"create from=1 kind=ok nonce=5 value=0 gas=64000",
	"create from=2 kind=max nonce=6 value=0 gas=6000000",
	"forceblock ids=21,22,23", "balx", "recs h=6", "nonces",
}

// ContractCase: chains over the extended contract set.  Ids are exact (every op that builds a transaction registers it).
func ContractCase(g *hx.Gen) []string {
	r := g.Rng
	ops := []string{hx.CaseOp("contracts"), fmt.Sprintf("chain trie=%d accts=3 wallets=2 seed=%d code=2 rec=1", r.Intn(2), 1+r.Intn(1000)), "balx"}
	add := func(f string, a ...interface{}) { ops = append(ops, fmt.Sprintf(f, a...)) }
	nonce := []int{0, 0, 0}
	ncreate := 0
	ckey := map[string]int{} // (sender, nonce, kind) -> index of the observed creation address (a function of these three)
	created := func(from, n int, kind string) int {
		k := fmt.Sprintf("%d/%d/%s", from, n, kind)
		if j, ok := ckey[k]; ok {
			return j
		}
		ckey[k] = ncreate
		ncreate++
		return ncreate - 1
	}
	var alive []int // created Mover instances (index among the creates) that exist and have not destroyed themselves
	funded := false // wallet 0 owns output 0
	height := 0
	values := []int64{0, 0, 2, 10, 500, 77770, 100000000, 100000002, 250000000} // units; 10^8 units = the first step of the value-proportional gas
	target := func() string {
		if r.Intn(2) == 0 {
			return fmt.Sprintf("a%d", r.Intn(3))
		}
		return fmt.Sprintf("b%d", r.Intn(2))
	}
	blocks := 3 + r.Intn(g.Pick(3, 5))
	for b := 0; b < blocks; b++ {
		var born []int
		touched := map[int]bool{}
		ntx := 1 + r.Intn(4)
		if b == 0 { // some instances to work with, a confidential output for the refused shapes
			for i := 0; i < 2; i++ {
				add("create from=%d kind=ok nonce=%d value=%d gas=3000000", i, nonce[i], values[r.Intn(5)])
				born = append(born, created(i, nonce[i], "ok"))
				nonce[i]++
			}
			add("ain from=2 w=0 amount=30000000000 nonce=%d", nonce[2])
			nonce[2]++
			funded = true
			g.Count("contracts:create:ok")
		}
		for t := 0; t < ntx; t++ {
			from := r.Intn(3)
			v := values[r.Intn(len(values))]
			switch k := r.Intn(16); {
			case k < 3: // creation: every kind, with and without value, ample gas
				kind := []string{"ok", "empty", "revert", "invalid", "big", "max", "json"}[r.Intn(7)]
				gas := uint64(3000000)
				switch kind {
				case "max":
					gas = 6000000
				case "json": // not "contract data" for the gas rule: the exact plain-transfer gas is demanded
					gas = appsim.PlainTransferGas(v)
				}
				add("create from=%d kind=%s nonce=%d value=%d gas=%d", from, kind, nonce[from], v, gas)
				j := created(from, nonce[from], kind)
				nonce[from]++
				if kind == "ok" {
					born = append(born, j)
				}
				g.Count("contracts:create:" + kind)
			case k == 3: // creation at the gas boundaries: intrinsic gas exactly / one less (refused), code deposit not affordable
				kind := []string{"ok", "max", "empty"}[r.Intn(3)]
				tg := uint64(0)
				if v > 0 {
					tg = appsim.CallTransferGas(v)
				}
				intr := appsim.CreateIntrinsicGas(kind)
				gas := []uint64{intr - 1, intr, intr + tg, intr + tg + appsim.CreateDepositGas(kind)/2, intr + tg + appsim.CreateDepositGas(kind) + 100}[r.Intn(5)]
				add("create from=%d kind=%s nonce=%d value=%d gas=%d", from, kind, nonce[from], v, gas)
				// (below the intrinsic gas, or below the admission rule's value gas, the transaction is refused and the nonce is not used:
				// the next op of this sender re-uses it; the dry run decides)
				created(from, nonce[from], kind)
				if gas >= intr && (v == 0 || gas >= appsim.PlainTransferGas(v)) {
					nonce[from]++
				}
				g.Count("contracts:create:gas-boundary")
			case k < 8: // the genesis Mover: keep / forward / transfer-opcode / forward-then-revert / forward-then-invalid / half / sweep
				m := []int{appsim.MvKeep, appsim.MvForward, appsim.MvTransfer, appsim.MvFwdRevert, appsim.MvFwdInvalid, appsim.MvHalf, appsim.MvSweep}[r.Intn(7)]
				if m == appsim.MvHalf {
					v -= v % 2
				}
				gas := 3000000
				if r.Intn(5) == 0 {
					gas = 1000000 // not enough for the value-proportional charge of the inner transfer: the call fails
				}
				add("mcall from=%d nonce=%d m=%d to=%s value=%d gas=%d", from, nonce[from], m, target(), v, gas)
				nonce[from]++
				g.Count(fmt.Sprintf("contracts:mover:m=%d", m))
			case k < 10: // SELFDESTRUCT of a created instance: to an account, to a fresh address, to itself (designed destruction)
				if len(alive) == 0 {
					continue
				}
				j := alive[r.Intn(len(alive))]
				if touched[j] && !PayDeadContractInSameBlock {
					continue
				}
				to := target()
				if r.Intn(3) == 0 {
					to = fmt.Sprintf("c%d", j)
					g.Count("contracts:selfdestruct:to-itself")
				} else {
					g.Count("contracts:selfdestruct:to-other")
				}
				add("mcall from=%d nonce=%d m=2 to=%s at=%d value=%d gas=3000000", from, nonce[from], to, j, v)
				nonce[from]++
				touched[j] = true
				for i, x := range alive {
					if x == j {
						alive = append(alive[:i], alive[i+1:]...)
						break
					}
				}
				if PayDeadContractInSameBlock && r.Intn(2) == 0 {
					f2 := (from + 1) % 3
					add("mcall from=%d nonce=%d m=0 to=a0 at=%d value=%d gas=3000000", f2, nonce[f2], j, 1+v)
					nonce[f2]++
				}
			case k == 10: // a created instance keeps / forwards value
				if len(alive) == 0 {
					continue
				}
				j := alive[r.Intn(len(alive))]
				m := []int{appsim.MvKeep, appsim.MvForward, appsim.MvSweep}[r.Intn(3)]
				add("mcall from=%d nonce=%d m=%d to=%s at=%d value=%d gas=3000000", from, nonce[from], m, target(), j, v)
				nonce[from]++
				touched[j] = true
				g.Count("contracts:instance-call")
			case k == 11: // token value into the Mover: kept, or passed on with the token-transfer opcode
				m := []int{appsim.MvKeep, appsim.MvTransferTk}[r.Intn(2)]
				add("mcall from=%d nonce=%d m=%d to=%s value=%d tok=1", from, nonce[from], m, target(), 1+r.Intn(1000))
				nonce[from]++
				g.Count("contracts:token-value-to-mover")
			case k == 12: // token value into the test contract (stays on success, returns on revert)
				c := r.Intn(40)
				if r.Intn(3) == 0 {
					c = 255
				}
				add("calltok from=%d nonce=%d c=%d value=%d", from, nonce[from], c, r.Intn(1000))
				nonce[from]++
				g.Count("contracts:token-value-to-contract")
			case k == 13: // plain transfer to an address that does not exist yet; with a gas limit that is not the exact one: refused
				if r.Intn(4) == 0 {
					add("xferx from=%d nonce=%d to=b%d amount=%d gas=%d", from, nonce[from], r.Intn(2), 1+v, appsim.PlainTransferGas(1+v)+uint64(1+r.Intn(1000)))
				} else {
					add("xferx from=%d nonce=%d to=b%d amount=%d", from, nonce[from], r.Intn(2), 1+v)
					nonce[from]++
				}
				g.Count("contracts:transfer-to-new-address")
			case k == 14: // confidential transactions of refused shapes
				switch r.Intn(3) {
				case 0:
					add("uxbad shape=ainaout from=%d w=0 to=%d amount=%d nonce=%d", from, r.Intn(3), 20000000000+r.Intn(1000), nonce[from])
				case 1:
					if funded {
						add("uxbad shape=aout2 w=0 in=0 amount=%d", 1+r.Intn(100000))
					}
				default:
					if funded {
						add("uxbad shape=cout w=0 in=0 amount=%d", 1+r.Intn(100000))
					}
				}
				g.Count("contracts:refused-shape")
			default:
				add("xfer from=%d to=%d amount=%d nonce=%d", from, r.Intn(3), 1+r.Intn(100000), nonce[from])
				nonce[from]++
			}
		}
		add("block")
		height++
		alive = append(alive, born...)
		add("balx")
		add("recs h=%d", height)
		if r.Intn(3) == 0 {
			add("nonces")
		}
	}
	return ops
}

// xMon: monitors over the extended observation (`balx`, `recs`) of the contract streams.
type xMon struct {
	prev     map[string][]int64 // bucket vectors of the previous balx
	cur      map[string][]int64
	have     bool
	opOf     map[string][]string // tx id -> tokens of the op that built it
	burn     int64               // designed destruction expected in the block just committed (units)
	burnAt   map[int]int64       // per created index: what its self-destruction in favour of itself destroyed
	lastRecs bool
	ckey     map[string]int // (sender, nonce, kind) of a `create` op -> index of the creation address it aims at
	deadPaid int64          // what the block just committed paid (and left) to instances AFTER their destruction in that block (units)
	deadAt   map[int]int64  // the same per created index
}

func newXMon() *xMon {
	return &xMon{opOf: map[string][]string{}, burnAt: map[int]int64{}, ckey: map[string]int{}, deadAt: map[int]int64{}}
}

const deadPayClass = "payment-to-contract-destroyed-earlier-in-block"
const deadPaySite = "app/state_processor.go:Process"

func parseVec(s string) []int64 {
	var out []int64
	if s == "" {
		return out
	}
	for _, x := range strings.Split(s, ",") {
		for _, y := range strings.Split(x, "/") {
			var v int64
			fmt.Sscan(y, &v)
			out = append(out, v)
		}
	}
	return out
}

func parseBuckets(ans string, keys []string) map[string][]int64 {
	a := hx.Tokens(ans)
	m := map[string][]int64{}
	for _, k := range keys {
		v, _ := hx.Arg(a, k)
		m[k] = parseVec(v)
	}
	return m
}

var xKeys = []string{"a", "t", "f", "z", "zt", "m", "b", "c", "pool", "supply", "toksupply"}
var rKeys = []string{"a", "t", "f", "z", "zt", "m", "b", "c", "p", "mint", "burn", "unk"}

func at(v []int64, i int) int64 {
	if i < len(v) {
		return v[i]
	}
	return 0
}

func (x *xMon) step(op string, toks []string, ans string) []hx.Failure {
	var fs []hx.Failure
	a := hx.Tokens(ans)
	if id, ok := hx.Arg(a, "id"); ok {
		x.opOf[id] = toks
	}
	switch toks[0] {
	case "case":
		*x = *newXMon()
	case "uxbad":
		if strings.Contains(ans, "admit=ok") {
			fs = append(fs, hx.Failure{Monitor: "confidential_shape_enforced", Class: "refused-shape-admitted", Site: "types/tx_utxo.go:checkTxSemantic",
				Msg: "a confidential transaction with an account input AND an account output, with two account outputs, or with an account output to a contract was admitted " +
					"(transitOutputs / payIntrinsicGas / refundGas handle at most one account-side output correctly): " + op})
		}
	case "create":
		f, _ := hx.Arg(toks, "from")
		n, _ := hx.Arg(toks, "nonce")
		k, _ := hx.Arg(toks, "kind")
		if _, ok := x.ckey[f+"/"+n+"/"+k]; !ok && ans != "bad-kind" {
			x.ckey[f+"/"+n+"/"+k] = len(x.ckey)
		}
	case "block", "forceblock":
		x.burn, x.deadPaid = 0, 0
		x.burnAt, x.deadAt = map[int]int64{}, map[int]int64{}
		if !strings.HasPrefix(ans, "h=") || !x.have {
			return fs
		}
		// From the op lines alone (receipt statuses from the dry run, st=): follow what every created instance holds through the
		// block.  A SELFDESTRUCT in favour of the instance itself destroys its holdings by design; a SELFDESTRUCT marks the instance
		// destroyed, and what a LATER transaction of the same block leaves with it is the known finding's amount.
		cb := append([]int64{}, x.cur["c"]...)
		grow := func(j int) {
			for len(cb) <= j {
				cb = append(cb, 0)
			}
		}
		dead := map[int]bool{}
		num := func(t []string, k string) int64 {
			v, _ := hx.Arg(t, k)
			var n int64
			fmt.Sscan(v, &n)
			return n
		}
		ids, _ := hx.Arg(a, "txs")
		for _, id := range hx.SplitComma(ids) {
			t := x.opOf[id]
			if len(t) == 0 {
				continue
			}
			if st, _ := hx.Arg(t, "st"); st != "1" {
				continue
			}
			switch t[0] {
			case "create":
				f, _ := hx.Arg(t, "from")
				n, _ := hx.Arg(t, "nonce")
				k, _ := hx.Arg(t, "kind")
				if j, ok := x.ckey[f+"/"+n+"/"+k]; ok {
					grow(j)
					cb[j] += num(t, "value")
				}
			case "xferx":
				if to, _ := hx.Arg(t, "to"); strings.HasPrefix(to, "c") {
					var j int
					fmt.Sscan(to[1:], &j)
					grow(j)
					cb[j] += num(t, "amount")
				}
			case "mcall":
				js, ok := hx.Arg(t, "at")
				if tk, _ := hx.Arg(t, "tok"); !ok || js == "" || tk == "1" {
					continue
				}
				var j int
				fmt.Sscan(js, &j)
				grow(j)
				v := num(t, "value")
				to, _ := hx.Arg(t, "to")
				switch num(t, "m") {
				case 0:
					cb[j] += v
				case 7:
					cb[j] += v - v/2
				case 8:
					if to != "c"+js {
						cb[j] = 0
					} else {
						cb[j] += v
					}
				case 2:
					if to == "c"+js && !dead[j] {
						x.burn += cb[j] + v
						x.burnAt[j] += cb[j] + v
					}
					cb[j] = 0
					dead[j] = true
				}
			}
		}
		for j := range dead {
			if cb[j] > 0 {
				x.deadPaid += cb[j]
				x.deadAt[j] = cb[j]
			}
		}
	case "balx":
		cur := parseBuckets(ans, xKeys)
		if x.have {
			if got, want := at(cur["supply"], 0), at(x.cur["supply"], 0)-x.burn; got != want && x.deadPaid > 0 && got == want-x.deadPaid {
				fs = append(fs, hx.Failure{Monitor: "native_supply_conserved", Class: deadPayClass, Site: deadPaySite,
					Msg: fmt.Sprintf("total native supply dropped by %d units: exactly what transactions of this block paid to instances that an earlier transaction of the SAME block had destroyed (both receipts status 1)", x.deadPaid)})
			} else if got != want {
				fs = append(fs, hx.Failure{Monitor: "native_supply_conserved", Class: "native-supply-changed", Site: "app/state_transition.go:transitOutputs",
					Msg: fmt.Sprintf("total native supply over every observed address (accounts, foundation, zero address, coinbase, test contracts, beneficiaries, created contracts, pool) is %d units, expected %d (designed destruction in this block: %d)", got, want, x.burn)})
			}
			if got, want := at(cur["toksupply"], 0), at(x.cur["toksupply"], 0); got != want {
				fs = append(fs, hx.Failure{Monitor: "token_supply_conserved", Class: "token-supply-changed", Site: "app/state_transition.go:transitOutputs",
					Msg: fmt.Sprintf("total token supply over every observed address changed from %d to %d units", want, got)})
			}
		}
		x.prev, x.cur, x.have = x.cur, cur, true
		x.lastRecs = false
	case "recs":
		if !strings.HasPrefix(ans, "a=") || x.prev == nil {
			return fs
		}
		rec := parseBuckets(ans, rKeys)
		if at(rec["unk"], 0) != 0 || at(rec["mint"], 0) != 0 || at(rec["burn"], 0) != 0 {
			fs = append(fs, hx.Failure{Monitor: "audit_log_matches_state", Class: "record-names-unobserved-address", Site: "types/balance_record.go",
				Msg: "the block's balance records name an address / token outside the observed set, or value from / to nowhere: " + ans})
		}
		for _, k := range []string{"a", "t", "f", "z", "zt", "m", "b", "c"} {
			n := len(x.cur[k])
			for i := 0; i < n; i++ {
				diff := at(x.cur[k], i) - at(x.prev[k], i)
				want := at(rec[k], i)
				if k == "c" {
					want -= x.burnAt[i]
				}
				if k == "c" && diff != want && x.deadAt[i] > 0 && diff == want-x.deadAt[i] {
					fs = append(fs, hx.Failure{Monitor: "audit_log_matches_state", Class: deadPayClass, Site: deadPaySite,
						Msg: fmt.Sprintf("created instance %d: the block's balance records credit it %d units more than the state shows: exactly what was paid to it after an earlier transaction of the same block destroyed it", i, x.deadAt[i])})
				} else if diff != want {
					fs = append(fs, hx.Failure{Monitor: "audit_log_matches_state", Class: "state-change-differs-from-records", Site: "app/state_transition.go:genTransitTxRecord",
						Msg: fmt.Sprintf("bucket %s[%d] changed by %d units over the block, the application's own balance records of that block say %d (a record the state does not reflect, or a movement without a record): %s", k, i, diff, want, ans)})
				}
			}
		}
		if diff, want := at(x.cur["pool"], 0)-at(x.prev["pool"], 0), at(rec["p"], 0); diff != want {
			fs = append(fs, hx.Failure{Monitor: "audit_log_matches_state", Class: "pool-change-differs-from-records", Site: "app/state_transition.go:genTransitTxRecord",
				Msg: fmt.Sprintf("the confidential pool as its owners see it changed by %d units, the balance records say %d", diff, want)})
		}
	}
	return fs
}

// SubUnitCase: account -> confidential transactions whose ACCOUNT INPUT is not a whole number of commitment units (k units + rem
// wei, k = 0, 1, many, rem = 1, half a unit, one unit - 1) or is zero: both halves of the semantic check's test
// (`Amount >= one unit` and `Amount mod unit == 0`).  Every one must be refused by admission and must never be committed,
// also when a Byzantine proposer forces it into a block (alone, before and after a valid transaction).  Ids are exact.
func SubUnitCase(g *hx.Gen) []string {
	r := g.Rng
	ops := []string{hx.CaseOp("subunit"), fmt.Sprintf("chain trie=%d accts=3 wallets=2 seed=%d", r.Intn(2), 1+r.Intn(1000)), "bal"}
	add := func(f string, a ...interface{}) { ops = append(ops, fmt.Sprintf(f, a...)) }
	nonce := []int{0, 0, 0}
	id := 0
	rems := []int64{1, 5000000000, 9999999999}
	for k, n := 0, 2+r.Intn(4); k < n; k++ {
		from := r.Intn(3)
		rem := rems[r.Intn(3)]
		switch r.Intn(5) {
		case 0: // many units + rem; at an exact step of the value-proportional fee the remainder also makes the fee too low inside a block
			amount := 20000000000 + int64(r.Intn(1000000))*10000
			if r.Intn(3) == 0 {
				amount = int64(1+r.Intn(300)) * 100000000
			}
			add("ain from=%d w=%d amount=%d nonce=%d rem=%d", from, r.Intn(2), amount, nonce[from], rem)
			g.Count("subunit:many+rem")
		case 1:
			add("ain from=%d w=%d amount=1 nonce=%d feeu=0 rem=%d", from, r.Intn(2), nonce[from], rem)
			g.Count("subunit:one+rem")
		case 2:
			add("ain from=%d w=%d amount=0 nonce=%d feeu=0 rem=%d", from, r.Intn(2), nonce[from], rem)
			g.Count("subunit:below-one-unit")
		case 3:
			add("ain from=%d w=%d amount=0 nonce=%d feeu=0", from, r.Intn(2), nonce[from])
			g.Count("subunit:zero-input")
		default: // one whole unit more than the fee... with a remainder on a fee-paying input
			add("ain from=%d w=%d amount=1 nonce=%d feeu=5000000 rem=%d", from, r.Intn(2), nonce[from], rem)
			g.Count("subunit:one+rem+fee")
		}
		bad := id
		id++
		switch r.Intn(4) {
		case 0:
			add("forceblock ids=%d", bad)
		case 1, 2: // with a valid transfer of another sender, before or after
			o := (from + 1 + r.Intn(2)) % 3
			add("xfer from=%d to=%d amount=%d nonce=%d", o, r.Intn(3), 1+r.Intn(1000), nonce[o])
			ok := id
			id++
			if r.Intn(2) == 0 {
				add("forceblock ids=%d,%d", bad, ok)
			} else {
				add("forceblock ids=%d,%d", ok, bad)
			}
			add("block") // the valid one is still pending: it commits now
			nonce[o]++
		default:
			add("replay id=%d", bad)
			add("block")
		}
		add("bal")
		add("nonces")
	}
	// a whole-unit input of the same sender still works
	add("ain from=0 w=0 amount=20000000000 nonce=%d", nonce[0])
	add("block")
	add("bal")
	return ops
}

// SysCase: a chain of 22..26 blocks on the REAL genesis (eight WASM system contracts, four candidates with pledges and
// supporters, vote period 1: an election every block, awards at heights 10 and 20; the application has the node's
// SetPoceeds / AllocAward handles), every block proposed with a candidate's coinbase and carrying fee-paying transactions of
// every kind the other streams generate: transfers, token transfers, account->confidential, confidential->confidential,
// confidential->account, contract creations, calls of the test contracts (value kept, forwarded, transferred, reverted),
// token-carrying calls.  Observed after every block: the WHOLE-STATE supply (every account of the state + the pool), the
// foundation, the award payees, the block's balance records.  (No SELFDESTRUCT here: the supply must be exactly constant.)
func SysCase(g *hx.Gen) []string {
	r := g.Rng
	ops := []string{hx.CaseOp("sys"), fmt.Sprintf("syschain trie=1 accts=3 wallets=2 seed=%d code=2 rec=1 cands=4 vp=1", 1+r.Intn(1000)), "sbal"}
	add := func(f string, a ...interface{}) { ops = append(ops, fmt.Sprintf(f, a...)) }
	nonce := []int{0, 0, 0}
	owned := 0 // outputs wallet 0 has received (funding goes to wallet 0; spends pay wallet 1 / accounts; change returns to wallet 0)
	spent := map[int]bool{}
	blocks := 22 + r.Intn(5)
	for h := 1; h <= blocks; h++ {
		ntx := 1 + r.Intn(3) // every block carries fees (an award block without fees of its own still pays out the earlier ones)
		newOuts := 0
		for t := 0; t < ntx; t++ {
			from := r.Intn(3)
			switch k := r.Intn(12); {
			case k < 2:
				add("xfer from=%d to=%d amount=%d nonce=%d", from, r.Intn(3), 1+r.Intn(100000), nonce[from])
				nonce[from]++
			case k == 2:
				add("xfertok from=%d to=%d amount=%d nonce=%d", from, r.Intn(3), 1+r.Intn(1000), nonce[from])
				nonce[from]++
			case k == 3 || (k < 6 && owned == 0):
				add("ain from=%d w=0 amount=%d nonce=%d", from, 30000000000+r.Intn(100000)*10000, nonce[from])
				nonce[from]++
				newOuts++
				g.Count("sys:ain")
			case k == 4:
				in := r.Intn(owned)
				if !spent[in] {
					add("uu w=0 in=%d to=1 amount=%d", in, 1+r.Intn(5000000000))
					spent[in] = true
					newOuts++ // the change
					g.Count("sys:uu")
				}
			case k == 5:
				in := r.Intn(owned)
				if !spent[in] {
					add("ua w=0 in=%d to=%d amount=%d", in, r.Intn(3), 1+r.Intn(5000000000))
					spent[in] = true
					newOuts++
					g.Count("sys:ua")
				}
			case k == 6:
				kind := []string{"ok", "empty", "revert", "invalid"}[r.Intn(4)]
				add("create from=%d kind=%s nonce=%d value=%d gas=3000000", from, kind, nonce[from], []int{0, 10, 500}[r.Intn(3)])
				nonce[from]++
				g.Count("sys:create")
			case k < 9:
				m := []int{appsim.MvKeep, appsim.MvForward, appsim.MvTransfer, appsim.MvFwdRevert, appsim.MvHalf, appsim.MvSweep}[r.Intn(6)]
				add("mcall from=%d nonce=%d m=%d to=a%d value=%d gas=3000000", from, nonce[from], m, r.Intn(3), 2*r.Intn(5000))
				nonce[from]++
				g.Count("sys:mover")
			case k == 9:
				add("calltok from=%d nonce=%d c=%d value=%d", from, nonce[from], []int{3, 255}[r.Intn(2)], r.Intn(1000))
				nonce[from]++
				g.Count("sys:token-call")
			default:
				c := r.Intn(40)
				if r.Intn(3) == 0 {
					c = 255
				}
				add("call from=%d c=%d nonce=%d", from, c, nonce[from])
				nonce[from]++
				g.Count("sys:call")
			}
		}
		add("sblk cb=%d", r.Intn(4))
		owned += newOuts
		add("sbal")
		add("srecs h=%d", h)
		if h%10 == 0 {
			g.Count("sys:award-block")
		}
	}
	add("nonces")
	return ops
}

// sysMon: monitors of the real-genesis stream, on the implementation's answers (all amounts in wei unless said otherwise).
type sysMon struct {
	have                   bool
	supply, tok            string
	fw                     *big.Int
	cb, sup, accts         []*big.Int
	prevFw                 *big.Int
	prevCb, prevSup, prevA []*big.Int
	fees                   *big.Int // what the transactions of the block last committed paid: sum of receipt gas x price
	awards                 *big.Int // what that block paid the award payees
	awardBlock             bool
}

func bigs(s string, scale int64) []*big.Int {
	var out []*big.Int
	for _, x := range hx.SplitComma(s) {
		v, ok := new(big.Int).SetString(x, 10)
		if !ok {
			v = new(big.Int)
		}
		out = append(out, v.Mul(v, big.NewInt(scale)))
	}
	return out
}

func sumBig(xs []*big.Int) *big.Int {
	t := new(big.Int)
	for _, x := range xs {
		t.Add(t, x)
	}
	return t
}

func (m *sysMon) step(op string, toks []string, ans string) []hx.Failure {
	var fs []hx.Failure
	a := hx.Tokens(ans)
	switch toks[0] {
	case "case":
		*m = sysMon{}
	case "receipts":
		m.fees = new(big.Int)
		if ans == "ok" { // the implementation confirms the receipts the line carries
			gv, _ := hx.Arg(toks, "gas")
			m.fees = sumBig(bigs(gv, 100000000000))
		}
	case "awards":
		m.awards = new(big.Int)
		m.awardBlock = false
		if ans == "ok" {
			c, _ := hx.Arg(toks, "cb")
			s, _ := hx.Arg(toks, "sup")
			m.awards = new(big.Int).Add(sumBig(bigs(c, 1)), sumBig(bigs(s, 1)))
			m.awardBlock = m.awards.Sign() != 0
		}
	case "sblk":
		m.fees, m.awards, m.awardBlock = nil, nil, false
	case "sbal":
		if !strings.HasPrefix(ans, "a=") {
			return fs
		}
		s, _ := hx.Arg(a, "supply")
		t, _ := hx.Arg(a, "toksupply")
		fwS, _ := hx.Arg(a, "fw")
		cbS, _ := hx.Arg(a, "cb")
		supS, _ := hx.Arg(a, "sup")
		aS, _ := hx.Arg(a, "a")
		fw, _ := new(big.Int).SetString(fwS, 10)
		if fw == nil {
			fw = new(big.Int)
		}
		m.prevFw, m.prevCb, m.prevSup, m.prevA = m.fw, m.cb, m.sup, m.accts
		m.fw, m.cb, m.sup, m.accts = fw, bigs(cbS, 1), bigs(supS, 1), bigs(aS, 10000000000)
		if m.have {
			if s != m.supply {
				cls := "native-supply-changed"
				if m.awardBlock {
					cls = "award-changes-supply"
				}
				fs = append(fs, hx.Failure{Monitor: "native_supply_conserved", Class: cls, Site: "app/app.go:processBlock",
					Msg: fmt.Sprintf("the native supply over EVERY account of the committed state plus the confidential pool changed from %s to %s wei (award block: %v; awards are to be paid out of the foundation contract's balance)", m.supply, s, m.awardBlock)})
			}
			if t != m.tok {
				fs = append(fs, hx.Failure{Monitor: "token_supply_conserved", Class: "token-supply-changed", Site: "app/state_transition.go:transitOutputs",
					Msg: fmt.Sprintf("the token supply over every account of the committed state changed from %s to %s units", m.tok, t)})
			}
			if m.fees != nil && m.awards != nil && m.prevFw != nil {
				// what the block's transactions paid = what the foundation contract received: its balance change + what it paid out
				got := new(big.Int).Add(new(big.Int).Sub(m.fw, m.prevFw), m.awards)
				if got.Cmp(m.fees) != 0 {
					fs = append(fs, hx.Failure{Monitor: "fees_debited_equal_fees_credited", Class: "fees-paid-differ-from-foundation-credit", Site: "app/app.go:processBlock",
						Msg: fmt.Sprintf("the block's receipts amount to %s wei of fees; the foundation contract's balance changed by %s and it paid %s in awards: it received %s", m.fees, new(big.Int).Sub(m.fw, m.prevFw), m.awards, got)})
				}
			}
		}
		m.supply, m.tok, m.have = s, t, true
	case "srecs":
		if !strings.HasPrefix(ans, "a=") || m.prevFw == nil {
			return fs
		}
		chk := func(name string, rec string, now, old []*big.Int) {
			rs := bigs(rec, 1)
			for i := range now {
				d := new(big.Int).Set(now[i])
				if i < len(old) {
					d.Sub(d, old[i])
				}
				r := new(big.Int)
				if i < len(rs) {
					r = rs[i]
				}
				if d.Cmp(r) != 0 {
					fs = append(fs, hx.Failure{Monitor: "audit_log_matches_state", Class: "state-change-differs-from-records", Site: "app/app.go:AllocAward",
						Msg: fmt.Sprintf("%s[%d] changed by %s wei over the block, the block's balance records net to %s", name, i, d, r)})
				}
			}
		}
		fS, _ := hx.Arg(a, "f")
		cS, _ := hx.Arg(a, "cb")
		sS, _ := hx.Arg(a, "sup")
		aS, _ := hx.Arg(a, "a")
		chk("foundation", fS, []*big.Int{m.fw}, []*big.Int{m.prevFw})
		chk("coinbase", cS, m.cb, m.prevCb)
		chk("supporter", sS, m.sup, m.prevSup)
		chk("account", aS, m.accts, m.prevA)
		if u, _ := hx.Arg(a, "unk"); u != "0" {
			fs = append(fs, hx.Failure{Monitor: "audit_log_matches_state", Class: "record-names-unobserved-address", Site: "types/balance_record.go", Msg: "records of an unobserved token: " + ans})
		}
		if mi, _ := hx.Arg(a, "mint"); mi != "0" {
			fs = append(fs, hx.Failure{Monitor: "audit_log_matches_state", Class: "record-names-unobserved-address", Site: "types/balance_record.go", Msg: "value from / to nowhere in the records: " + ans})
		}
	}
	return fs
}

// NonceGapCase: forced blocks (what a Byzantine proposer can assemble) carrying transactions of EVERY nonce-consuming kind —
// account->confidential (`ain`), token transfer, contract call, creation, value-moving call, plain transfer — whose nonce is
// the sender's state nonce + 1, + 2 or - 1: alone (invalid), BEHIND the transaction that closes the gap in the same block
// (legal), before it (invalid), twice in one block, re-forced in a later block and after a restart.  Ids are exact.  After every
// block: `bal` and `nonces`.
func NonceGapCase(g *hx.Gen) []string {
	r := g.Rng
	ops := []string{hx.CaseOp("noncegap"), fmt.Sprintf("chain trie=%d accts=3 wallets=2 seed=%d code=2", r.Intn(2), 1+r.Intn(1000)), "bal"}
	add := func(f string, a ...interface{}) { ops = append(ops, fmt.Sprintf(f, a...)) }
	nonce := []int{0, 0, 0}
	id := 0
	build := func(kind string, from, n int) int {
		switch kind {
		case "ain":
			add("ain from=%d w=%d amount=%d nonce=%d", from, r.Intn(2), 30000000000+r.Intn(1000)*10000, n)
		case "xfertok":
			add("xfertok from=%d to=%d amount=%d nonce=%d", from, r.Intn(3), 1+r.Intn(100), n)
		case "call":
			add("call from=%d c=%d nonce=%d", from, []int{3, 255}[r.Intn(2)], n)
		case "create":
			// (no endowment, no value kept by a contract: this stream observes with `bal`, which sums accounts, foundation, zero address and pool)
			add("create from=%d kind=%s nonce=%d value=0 gas=3000000", from, []string{"ok", "revert", "empty"}[r.Intn(3)], n)
		case "mcall":
			add("mcall from=%d nonce=%d m=%d to=a%d value=%d gas=3000000", from, n, []int{1, 5}[r.Intn(2)], r.Intn(3), 2*r.Intn(100))
		default:
			add("xfer from=%d to=%d amount=%d nonce=%d", from, r.Intn(3), 1+r.Intn(1000), n)
		}
		id++
		return id - 1
	}
	kinds := []string{"ain", "ain", "ain", "xfertok", "call", "create", "mcall", "xfer"}
	var stale []int // committed, or left behind the state nonce: must never be committed (again)
	after := func() { add("bal"); add("nonces") }
	for k, n := 0, 3+r.Intn(g.Pick(3, 5)); k < n; k++ {
		from := r.Intn(3)
		kind := kinds[r.Intn(len(kinds))]
		g.Count("noncegap:" + kind)
		switch r.Intn(6) {
		case 0: // state nonce + 1 alone: invalid; then the gap is closed in the same block, in the legal order
			a := build(kind, from, nonce[from]+1)
			add("forceblock ids=%d", a)
			after()
			c := build(kinds[r.Intn(len(kinds))], from, nonce[from])
			if r.Intn(2) == 0 {
				add("forceblock ids=%d,%d", a, c) // the wrong order: invalid
			}
			add("forceblock ids=%d,%d", c, a)
			nonce[from] += 2
			stale = append(stale, a, c)
		case 1: // + 2 alone, then behind only ONE of the two missing: still a gap
			a := build(kind, from, nonce[from]+2)
			add("forceblock ids=%d", a)
			c := build("xfer", from, nonce[from])
			add("forceblock ids=%d,%d", c, a)
			add("forceblock ids=%d", c)
			nonce[from]++
			stale = append(stale, c)
			add("forceblock ids=%d", a) // now it is state nonce + 1: invalid
		case 2: // - 1 (a nonce already used)
			c := build("xfer", from, nonce[from])
			add("forceblock ids=%d", c)
			nonce[from]++
			stale = append(stale, c)
			a := build(kind, from, nonce[from]-1)
			add("forceblock ids=%d", a)
			stale = append(stale, a)
		case 3: // the exact nonce twice in one block, then once, then again
			a := build(kind, from, nonce[from])
			add("forceblock ids=%d,%d", a, a)
			add("forceblock ids=%d", a)
			nonce[from]++
			add("forceblock ids=%d", a)
			stale = append(stale, a)
		case 4: // + 1 forced, the gap closed by a block of its own, then the + 1 transaction forced: legal now; then re-forced
			a := build(kind, from, nonce[from]+1)
			add("forceblock ids=%d", a)
			c := build("xfer", from, nonce[from])
			add("forceblock ids=%d", c)
			add("forceblock ids=%d", a)
			nonce[from] += 2
			stale = append(stale, a, c)
			add("forceblock ids=%d", a)
		default: // something that must stay dead: re-forced, replayed, after a restart
			if len(stale) == 0 {
				continue
			}
			d := stale[r.Intn(len(stale))]
			if r.Intn(2) == 0 {
				add("restart")
			}
			add("forceblock ids=%d", d)
			add("replay id=%d", d)
			add("block")
			if len(stale) > 1 {
				add("forceblock ids=%d,%d", stale[r.Intn(len(stale))], d)
			}
		}
		after()
	}
	return ops
}

// TokCase: confidential transactions OF A TOKEN whose commitment unit the node derives from the token contract's decimals():
// 1 (8 decimals), 1e6 (14), 1e10 (18, the native unit) or 1e18 (26) — below, equal to and above the native one.  account ->
// token pool (`tain`), pool -> pool (`tuu`), pool -> account (`tua`, also whole outputs), amounts that are not a whole number
// of the TOKEN's unit (`rem=`), a withdrawal whose account output is written in the NATIVE unit (`lie=1`), a second spend of a
// spent token output, mixed with native confidential transactions and token transfers in the same blocks.  Amounts are
// multiples of 1e10/unit token units where the unit is below 1e10, so that the account side stays whole in the printed unit.
func TokCase(g *hx.Gen, seq int) []string {
	r := g.Rng
	d := []int{8, 14, 18, 26}[seq%4]
	unit := appsim.TokenUnit(d)
	k := int64(1)
	if unit.Cmp(big.NewInt(10000000000)) < 0 {
		k = new(big.Int).Div(big.NewInt(10000000000), unit).Int64()
	}
	g.Count(fmt.Sprintf("tok:unit=%s", unit))
	ops := []string{hx.CaseOp("tok"), fmt.Sprintf("tokchain trie=%d accts=3 wallets=2 seed=%d code=1 tokdec=%d tbal=100000000000000", r.Intn(2), 1+r.Intn(1000), d), "bal", "tbal"}
	add := func(f string, a ...interface{}) { ops = append(ops, fmt.Sprintf(f, a...)) }
	nonce := []int{0, 0, 0}
	type out struct {
		amt  int64
		used bool
	}
	tw := [][]*out{nil, nil} // token wallets as they will look after the next block
	var pendingOuts [][2]int64
	natOwned, natSpent := 0, map[int]bool{}
	rems := func() int64 {
		u := unit.Int64()
		return []int64{1, u / 2, u - 1}[r.Intn(3)]
	}
	id := 0
	var spends []int
	for b, nb := 0, 4+r.Intn(g.Pick(3, 5)); b < nb; b++ {
		natNew := 0
		for t, nt := 0, 1+r.Intn(3); t < nt; t++ {
			from := r.Intn(3)
			pick := func() (int, int) { // an unspent token output
				w := r.Intn(2)
				for _, ww := range []int{w, 1 - w} {
					for i, o := range tw[ww] {
						if !o.used {
							return ww, i
						}
					}
				}
				return -1, -1
			}
			part := func(o *out) int64 { // a part of the output, a multiple of k
				am := (1 + r.Int63n(o.amt/k)) * k
				if am > o.amt {
					am = o.amt
				}
				return am
			}
			switch c := r.Intn(14); {
			case c < 3 || (c < 7 && len(tw[0])+len(tw[1]) == 0):
				w := r.Intn(2)
				am := int64(100+r.Intn(900)) * k
				add("tain from=%d w=%d amount=%d nonce=%d", from, w, am, nonce[from])
				nonce[from]++
				id++
				pendingOuts = append(pendingOuts, [2]int64{int64(w), am})
			case c == 3:
				if unit.Cmp(big.NewInt(1)) > 0 { // not a whole number of the token's units: refused
					add("tain from=%d w=%d amount=%d nonce=%d rem=%d", from, r.Intn(2), int64(100+r.Intn(900))*k, nonce[from], rems())
					id++
					g.Count("tok:tain-rem")
				}
			case c < 6:
				if w, i := pick(); w >= 0 {
					o := tw[w][i]
					am := part(o)
					to := r.Intn(2)
					add("tuu w=%d in=%d to=%d amount=%d payer=%d", w, i, to, am, from)
					spends = append(spends, id)
					id++
					o.used = true
					pendingOuts = append(pendingOuts, [2]int64{int64(to), am})
					if o.amt-am > 0 {
						pendingOuts = append(pendingOuts, [2]int64{int64(w), o.amt - am})
					}
					g.Count("tok:tuu")
				}
			case c < 9:
				if w, i := pick(); w >= 0 {
					o := tw[w][i]
					if r.Intn(3) == 0 {
						add("tua w=%d in=%d to=%d all=1 payer=%d", w, i, r.Intn(3), from)
						g.Count("tok:tua-all")
					} else {
						am := part(o)
						add("tua w=%d in=%d to=%d amount=%d payer=%d", w, i, r.Intn(3), am, from)
						if o.amt-am > 0 {
							pendingOuts = append(pendingOuts, [2]int64{int64(w), o.amt - am})
						}
						g.Count("tok:tua")
					}
					spends = append(spends, id)
					id++
					o.used = true
				}
			case c == 9 || c == 13: // the account output written in the native unit: refused unless the token's unit IS the native one
				if w, i := pick(); w >= 0 {
					o := tw[w][i]
					am := part(o)
					add("tua w=%d in=%d to=%d amount=%d payer=%d lie=1", w, i, r.Intn(3), am, from)
					if d == 18 { // the honest transaction
						spends = append(spends, id)
						o.used = true
						if o.amt-am > 0 {
							pendingOuts = append(pendingOuts, [2]int64{int64(w), o.amt - am})
						}
					}
					id++
					g.Count("tok:tua-native-unit")
				}
			case c == 10: // an account output that is not a whole number of the token's units (the change gives the remainder up)
				if w, i := pick(); w >= 0 && unit.Cmp(big.NewInt(1)) > 0 && tw[w][i].amt > k {
					add("tua w=%d in=%d to=%d amount=%d payer=%d rem=%d", w, i, r.Intn(3), k, from, rems())
					id++
					g.Count("tok:tua-rem")
				}
			case c == 11: // a second spend of a token output already used by a pending or committed transaction
			second:
				for w := 0; w < 2; w++ {
					for i, o := range tw[w] {
						if o.used {
							add("tuu w=%d in=%d to=%d amount=%d payer=%d", w, i, r.Intn(2), k, from)
							id++
							g.Count("tok:second-spend")
							break second
						}
					}
				}
			case c == 12: // native confidential transactions in the same block
				if natOwned > 0 && !natSpent[natOwned-1] {
					add("uu w=0 in=%d to=1 amount=%d", natOwned-1, 1+r.Intn(1000000))
					natSpent[natOwned-1] = true
					id++
					natNew++
				} else {
					add("ain from=%d w=0 amount=%d nonce=%d", from, 30000000000+r.Intn(1000)*10000, nonce[from])
					nonce[from]++
					id++
					natNew++
				}
				g.Count("tok:native-confidential-mixed")
			default:
				add("xfertok from=%d to=%d amount=%d nonce=%d", from, r.Intn(3), 1+r.Intn(1000), nonce[from])
				nonce[from]++
				id++
			}
		}
		add("block")
		for _, po := range pendingOuts {
			tw[po[0]] = append(tw[po[0]], &out{amt: po[1]})
		}
		pendingOuts = nil
		natOwned += natNew
		add("bal")
		add("tbal")
	}
	if len(spends) > 0 { // a committed token spend offered again: the key-image set is ONE set for all tokens
		s := spends[r.Intn(len(spends))]
		add("replay id=%d", s)
		add("forceblock ids=%d", s)
		add("block")
		add("tbal")
	}
	add("nonces")
	return ops
}

// FeeCase: confidential transactions with an explicit fee (`feeu=`, units of 1e10 wei; the gas price is 10 units): fees that are
// NOT a whole number of gas prices (required +-1, +-5, and 1, 9, 11), whole ones below the required fee (fee-low) and above
// it (legal: a fee may be more), on account->confidential (`ain`) and confidential->confidential (`uu`) transactions; submitted,
// and forced into blocks alone and next to a valid transfer.  Ids are exact.  After every round: `bal`, `nonces`.
func FeeCase(g *hx.Gen) []string {
	r := g.Rng
	ops := []string{hx.CaseOp("fee"), fmt.Sprintf("chain trie=%d accts=3 wallets=2 seed=%d code=1", r.Intn(2), 1+r.Intn(1000)), "bal"}
	add := func(f string, a ...interface{}) { ops = append(ops, fmt.Sprintf(f, a...)) }
	nonce := []int{0, 0, 0}
	id := 0
	F := 4 + r.Intn(3)
	for i := 0; i < F; i++ {
		add("ain from=%d w=0 amount=%d nonce=%d", i%3, 30000000000+r.Intn(1000)*10000, nonce[i%3])
		nonce[i%3]++
		id++
	}
	add("block")
	add("bal")
	free := r.Perm(F)
	pickFee := func(need int64) (int64, bool) { // the fee, and whether the transaction is valid
		switch r.Intn(10) {
		case 0:
			return need + 1, false
		case 1:
			return need - 1, false
		case 2:
			return need + 5, false
		case 3:
			return need - 5, false
		case 4:
			return []int64{1, 9, 11}[r.Intn(3)], false
		case 5:
			return need - 10, false // whole, below the required fee
		case 6:
			return need / 2 / 10 * 10, false
		case 7:
			return need + 10, true // whole, above: legal
		case 8:
			return need * 2, true
		}
		return need, true
	}
	for k, n := 0, 3+r.Intn(g.Pick(3, 5)); k < n; k++ {
		var a int
		valid := false
		if r.Intn(2) == 0 || len(free) == 0 {
			from := r.Intn(3)
			amount := int64(20000000000 + r.Intn(100000)*10000)
			fee, ok := pickFee(int64(appsim.PlainTransferGas(amount)) * 10)
			add("ain from=%d w=1 amount=%d nonce=%d feeu=%d", from, amount, nonce[from], fee)
			if ok {
				nonce[from]++
			}
			valid = ok
			g.Count("fee:ain")
		} else {
			in := free[0]
			fee, ok := pickFee(5000000000)
			add("uu w=0 in=%d to=1 amount=%d feeu=%d", in, 1+r.Intn(1000000), fee)
			if ok {
				free = free[1:]
			}
			valid = ok
			g.Count("fee:uu")
		}
		a = id
		id++
		if valid {
			g.Count("fee:valid")
		} else {
			g.Count("fee:refused")
		}
		switch r.Intn(3) {
		case 0:
			add("forceblock ids=%d", a)
			add("block")
		case 1:
			o := r.Intn(3)
			add("xfer from=%d to=%d amount=%d nonce=%d", o, r.Intn(3), 1+r.Intn(1000), nonce[o])
			b := id
			id++
			if valid && false {
				_ = b
			}
			if r.Intn(2) == 0 {
				add("forceblock ids=%d,%d", a, b)
			} else {
				add("forceblock ids=%d,%d", b, a)
			}
			add("block")
			nonce[o]++
		default:
			add("block")
			add("forceblock ids=%d", a)
		}
		add("bal")
		add("nonces")
	}
	return ops
}
