package c04

// Coverage-guided widening: the other methods of the signing interface and the load paths.
//   signheartbeat / signdata   other signing domains: their sign-bytes must never equal a vote's or a proposal's
//   reset / updatekey          FilePV.Reset (CLI unsafe_reset_priv_validator), FilePV.UpdatePrikey
//   loadbad                    LoadOrGenFilePV on damaged key files, each in its own child process (cmn.Exit ends the process)
//   domains                    cross-check of every heartbeat / data payload against every vote / proposal payload of the case

import (
	"bytes"
	"fmt"
	"os"
	osexec "os/exec"
	"path/filepath"
	"strconv"
	"strings"
	"sync"

	"github.com/lianxiangcloud/linkchain/libs/crypto"
	"github.com/lianxiangcloud/linkchain/types"

	"lvharness/hx"
)

// clashWith: index of the vote/proposal payload of this case that equals b, and of the one sig verifies against
func (e *exec) clashWith(b []byte, sig crypto.Signature) (string, string) {
	clash, sigclash := "none", "none"
	for i, d := range e.table {
		if bytes.Equal(e.bytesOf[d], b) && clash == "none" {
			clash = strconv.Itoa(i)
		}
		if sig != nil && sigclash == "none" {
			for _, pk := range e.pubs {
				if pk.VerifyBytes(e.bytesOf[d], sig) {
					sigclash = strconv.Itoa(i)
				}
			}
		}
	}
	return clash, sigclash
}

func firstClass(b []byte) string {
	if len(b) == 0 {
		return "empty"
	}
	switch {
	case b[0] == '{':
		return "brace"
	case b[0] >= 0xc0:
		return "rlplist"
	}
	return "other"
}

func (e *exec) execExtra(toks []string) (string, bool) {
	switch toks[0] {
	case "signheartbeat":
		if e.pv == nil {
			return "dead", true
		}
		hs, _ := hx.Arg(toks, "h")
		h, _ := strconv.ParseUint(hs, 10, 64)
		c, _ := hx.Arg(toks, "chain")
		chain := string(hx.UnHex(c))
		hb := &types.Heartbeat{ValidatorAddress: e.pv.GetAddress(), ValidatorIndex: atoi(toks, "vidx"), Height: h, Round: atoi(toks, "r"), Sequence: atoi(toks, "seq")}
		if err := e.pv.SignHeartbeat(chain, hb); err != nil {
			return "err=" + canonErr(err.Error()), true
		}
		sb := hb.SignBytes(chain)
		e.others = append(e.others, sb)
		clash, sigclash := e.clashWith(sb, hb.Signature)
		valid := e.pv.GetPubKey().VerifyBytes(sb, hb.Signature)
		return fmt.Sprintf("ok first=%s valid=%v clash=%s sigclash=%s mem=%s disk=%s", firstClass(sb), valid, clash, sigclash, e.memStr(), e.diskStr()), true
	case "signdata":
		if e.pv == nil {
			return "dead", true
		}
		var data []byte
		if raw, ok := hx.Arg(toks, "raw"); ok {
			data = hx.UnHex(raw)
			if d, _ := hx.Arg(toks, "d"); d != digest(data) {
				return "bad-op d-mismatch", true
			}
		} else {
			ns, _ := hx.Arg(toks, "nonce")
			nonce, _ := strconv.ParseUint(ns, 10, 64)
			info := types.MultiSignMainInfo{AccountNonce: nonce, SupportTxType: types.SupportType(atoi(toks, "type")),
				SignersInfo: types.SignersInfo{MinSignerPower: int32(atoi(toks, "min"))}}
			for i := 0; i < atoi(toks, "signers"); i++ {
				var se types.SignerEntry
				se.Power = int32(1 + i)
				copy(se.Addr[:], []byte{byte(i + 1), 0x33})
				info.Signers = append(info.Signers, &se)
			}
			bz, err := types.GenMultiSignBytes(info)
			if err != nil {
				return "err=" + canonErr(err.Error()), true
			}
			data = bz
		}
		sigb, err := e.pv.SignData(data)
		if err != nil {
			return "err=" + canonErr(err.Error()), true
		}
		sig, err := crypto.SignatureFromBytes(sigb)
		if err != nil {
			return "ok sig=undecodable", true
		}
		if _, raw := hx.Arg(toks, "raw"); raw {
			if fc, _ := hx.Arg(toks, "fc"); fc != firstClass(data) {
				return "bad-op fc-mismatch", true
			}
			e.learn(data) // caller-chosen bytes: compared like a payload, kept out of the `domains` cross-check
		} else {
			e.others = append(e.others, data)
		}
		clash, sigclash := e.clashWith(data, sig)
		valid := e.pv.GetPubKey().VerifyBytes(data, sig)
		return fmt.Sprintf("ok first=%s valid=%v clash=%s sigclash=%s mem=%s disk=%s", firstClass(data), valid, clash, sigclash, e.memStr(), e.diskStr()), true
	case "domains":
		for _, o := range e.others {
			if c, _ := e.clashWith(o, nil); c != "none" {
				return "clash=" + c, true
			}
		}
		return "clash=none", true
	case "reset":
		if e.pv == nil {
			return "dead", true
		}
		e.pv.Reset()
		return "mem=" + e.memStr() + " disk=" + e.diskStr(), true
	case "updatekey":
		if e.pv == nil {
			return "dead", true
		}
		k, _ := hx.Arg(toks, "k")
		old := e.pub // the key the file was generated with
		priv := crypto.GenPrivKeyEd25519FromSecret([]byte("lv-c04-key-" + k))
		e.pv.UpdatePrikey(priv)
		e.pubs = append(e.pubs, priv.PubKey())
		fileKey := "unreadable"
		if b, err := os.ReadFile(e.path); err == nil {
			if fpv, err := types.LoadPVFromBytes(b); err == nil {
				switch {
				case fpv.GetPubKey().Equals(old):
					fileKey = "old"
				case fpv.GetPubKey().Equals(priv.PubKey()):
					fileKey = "new"
				default:
					fileKey = "other"
				}
			}
		}
		return fmt.Sprintf("ok objkey=%v filekey=%s mem=%s disk=%s", e.pv.GetPubKey().Equals(priv.PubKey()), fileKey, e.memStr(), e.diskStr()), true
	case "loadbad":
		return e.loadBad(), true
	}
	return "", false
}

// ---- damaged key files -----------------------------------------------------------------------------------------

var badVariants = []string{"good", "empty", "truncated", "cuttail", "garbage", "nokey", "badsig", "norecord", "dir", "foreign"}

// loadBad: for every variant a copy of the current key file is damaged and LoadOrGenFilePV runs on it in a child process.
// Answer per variant: refused (the process ended without a validator) | loaded:<record>:<same|other> key | regenerated.
func (e *exec) loadBad() string {
	base, err := os.ReadFile(e.path)
	if err != nil || e.pv == nil {
		return "dead"
	}
	orig := e.pv.GetAddress().String()
	res := make([]string, len(badVariants))
	var wg sync.WaitGroup
	for i, v := range badVariants {
		dir := filepath.Join(e.dir, "bad-"+v)
		os.MkdirAll(dir, 0o755)
		p := filepath.Join(dir, "priv_validator.json")
		switch v {
		case "good":
			os.WriteFile(p, base, 0o600)
		case "empty":
			os.WriteFile(p, nil, 0o600)
		case "truncated":
			os.WriteFile(p, base[:len(base)/2], 0o600)
		case "cuttail":
			os.WriteFile(p, base[:len(base)-2], 0o600)
		case "garbage":
			os.WriteFile(p, bytes.Repeat([]byte{0}, len(base)), 0o600)
		case "nokey":
			// valid JSON, but the private key is gone
			s := string(base)
			if k := strings.Index(s, `"priv_key"`); k > 0 {
				s = strings.TrimRight(strings.TrimSpace(s[:k]), ",") + "\n}"
			}
			os.WriteFile(p, []byte(s), 0o600)
		case "badsig":
			os.WriteFile(p, []byte(strings.Replace(string(base), `"SignEd25519"`, `"SignNothing"`, 1)), 0o600)
		case "norecord":
			// valid JSON of the same key with the last-signed fields removed: indistinguishable from a fresh key
			os.WriteFile(p, []byte(stripRecord(string(base))), 0o600)
		case "dir":
			os.MkdirAll(filepath.Join(p, "x"), 0o755)
		case "foreign":
			other := types.GenFilePV(p)
			other.Save()
		}
		wg.Add(1)
		go func(i int, v, p string) {
			defer wg.Done()
			cmd := osexec.Command(self(), "C04-load", p)
			var out bytes.Buffer
			cmd.Stdout = &out
			cmd.Run()
			res[i] = v + "=refused"
			for _, l := range strings.Split(out.String(), "\n") {
				if strings.HasPrefix(l, "L ") {
					f := strings.Fields(l)
					key := "other"
					if f[2] == orig {
						key = "same"
					}
					res[i] = v + "=loaded:" + f[1] + ":" + key
				}
			}
		}(i, v, p)
	}
	wg.Wait()
	return strings.Join(res, " ")
}

func stripRecord(s string) string {
	var out []string
	skip := 0
	for _, l := range strings.Split(s, "\n") {
		t := strings.TrimSpace(l)
		if skip > 0 {
			if strings.HasPrefix(t, "}") {
				skip = 0
			}
			continue
		}
		switch {
		case strings.HasPrefix(t, `"last_height"`), strings.HasPrefix(t, `"last_round"`), strings.HasPrefix(t, `"last_step"`), strings.HasPrefix(t, `"last_signbytes"`):
			continue
		case strings.HasPrefix(t, `"last_signature"`):
			skip = 1
			continue
		}
		out = append(out, l)
	}
	return strings.Join(out, "\n")
}

// LoadMain is the hidden sub-command: lvharness C04-load <keyfile>
func LoadMain(args []string) {
	quiet()
	if len(args) < 1 {
		os.Exit(3)
	}
	pv := types.LoadOrGenFilePV(args[0])
	fmt.Printf("L %d/%d/%d/%v/%v %s\n", pv.LastHeight, pv.LastRound, pv.LastStep, pv.LastSignBytes != nil, pv.LastSignature != nil, pv.GetAddress().String())
	os.Exit(0)
}
