package c04

// Crash INSIDE a signing call: the call runs in a child process (this binary re-executed with the hidden
// sub-command "C04-child") under
//     strace -f -e trace=<sys> -e inject=<sys>:signal=KILL:when=<base+n>
// which kills the child at the ENTRY of the n-th <sys> system call the call performs.  <base> (how many such
// calls the child makes before the signing call starts: runtime start-up, LoadFilePV) is measured once per
// harness process by a calibration run of the same child under `strace -o log` (no injection); the same run
// yields the system-call sequence of a fresh signing call of the code under test, from which the generator
// draws its kill points.

import (
	"bufio"
	"bytes"
	"encoding/hex"
	"fmt"
	"os"
	osexec "os/exec"
	"os/signal"
	"path/filepath"
	"regexp"
	"runtime"
	"strconv"
	"strings"
	"sync"
	"syscall"

	"github.com/lianxiangcloud/linkchain/types"

	"lvharness/hx"
)

const (
	markBegin = "LV-C04-OP-BEGIN"
	markEnd   = "LV-C04-OP-END"
)

var tracedSyscalls = []string{"openat", "open", "creat", "write", "pwrite64", "writev", "close", "rename", "renameat", "renameat2", "unlink", "unlinkat", "fsync", "fdatasync", "ftruncate", "link", "linkat"}

// ChildMain is the hidden sub-command: lvharness C04-child <keyfile> <op line>
func ChildMain(args []string) {
	runtime.LockOSThread() // every system call of the signing call is issued by one thread (strace counts per thread)
	quiet()
	if len(args) < 2 {
		os.Exit(3)
	}
	path, op := args[0], args[1]
	q := parseReq(hx.Tokens(op))
	if q.fail != "" && q.fail != "nofile" {
		limit, ok := failLimit(path, q)
		if ok {
			// writes to regular files beyond `limit` bytes fail with EFBIG (SIGXFSZ ignored): a full disk / quota
			signal.Ignore(syscall.SIGXFSZ)
			var rl syscall.Rlimit
			if err := syscall.Getrlimit(syscall.RLIMIT_FSIZE, &rl); err != nil {
				os.Exit(4)
			}
			rl.Cur = limit
			if err := syscall.Setrlimit(syscall.RLIMIT_FSIZE, &rl); err != nil {
				os.Exit(4)
			}
		}
	}
	pv := types.LoadFilePV(path)
	if q.fail == "nofile" {
		// no new file descriptor: creating the temp file fails with EMFILE
		var rl syscall.Rlimit
		if err := syscall.Getrlimit(syscall.RLIMIT_NOFILE, &rl); err != nil {
			os.Exit(4)
		}
		rl.Cur = 0
		if err := syscall.Setrlimit(syscall.RLIMIT_NOFILE, &rl); err != nil {
			os.Exit(4)
		}
	}
	if f, err := os.Open(markBegin); err == nil {
		f.Close()
	}
	res := doSign(pv, q)
	var line string
	switch {
	case res.panicked:
		line = "R panic\n"
	case res.err != "":
		line = "R err " + res.err + "\n"
	default:
		line = fmt.Sprintf("R ok %s %s %s\n", res.ts, hx.Hex(res.sig), hx.Hex(res.post))
	}
	os.Stdout.Write([]byte(line)) // one write: the result is handed to the caller
	if f, err := os.Open(markEnd); err == nil {
		f.Close()
	}
	os.Exit(0)
}

// failLimit: the file-size limit of a `fail=` op.  "fsize:<n>" = n bytes; "short:<k>" = the length of the record this
// call would write minus k (learned by a dry run of the same call on a copy of the key file; no record written = no limit).
func failLimit(path string, q *req) (uint64, bool) {
	parts := strings.Split(q.fail, ":")
	if len(parts) != 2 {
		os.Exit(5)
	}
	n, err := strconv.ParseUint(parts[1], 10, 63)
	if err != nil {
		os.Exit(5)
	}
	switch parts[0] {
	case "fsize":
		return n, true
	case "short":
		b, err := os.ReadFile(path)
		if err != nil {
			os.Exit(5)
		}
		dry := path + ".dry"
		if err := os.WriteFile(dry, b, 0o600); err != nil {
			os.Exit(5)
		}
		defer os.Remove(dry)
		before, _ := os.Stat(dry)
		pv := types.LoadFilePV(dry)
		doSign(pv, q)
		after, err := os.Stat(dry)
		if err != nil || os.SameFile(before, after) {
			return 0, false // the call writes no record (refusal, replay, panic before the save)
		}
		l := uint64(after.Size())
		if n >= l {
			return 0, true
		}
		return l - n, true
	}
	os.Exit(5)
	return 0, false
}

type calibration struct {
	base    map[string]int // per system call: how many the child issues before the signing call
	opSeq   []string       // system calls of a fresh signing call incl. the final result write
	synced  bool           // the new content is opened O_SYNC/O_DSYNC or fsync'ed before the rename
	renamed bool           // the key file is replaced by a rename
	err     error
}

var (
	calOnce sync.Once
	cal     calibration
)

var straceLine = regexp.MustCompile(`^(\d+)\s+([a-z0-9_]+)\((.*)$`)

func self() string {
	p, err := os.Executable()
	if err != nil {
		return os.Args[0]
	}
	return p
}

func calibrate() calibration {
	calOnce.Do(func() {
		// the start-up count must be stable: measure twice; a loaded machine gets three attempts
		for attempt := 0; attempt < 3; attempt++ {
			cal = calibrateOnce()
			if cal.err == nil {
				c2 := calibrateOnce()
				if c2.err != nil {
					cal.err = c2.err
				} else if fmt.Sprint(c2.base) != fmt.Sprint(cal.base) || strings.Join(c2.opSeq, ",") != strings.Join(cal.opSeq, ",") {
					cal.err = fmt.Errorf("calibration unstable: %v %v vs %v %v", cal.base, cal.opSeq, c2.base, c2.opSeq)
				}
			}
			if cal.err == nil {
				return
			}
			fmt.Fprintln(os.Stderr, "c04: calibration attempt failed:", cal.err)
		}
	})
	return cal
}

func calibrateOnce() calibration {
	dir := filepath.Join("c04-work", fmt.Sprintf("cal-%d", os.Getpid()))
	os.RemoveAll(dir)
	os.MkdirAll(dir, 0o755)
	defer os.RemoveAll(dir)
	path := filepath.Join(dir, "priv_validator.json")
	quiet()
	types.LoadOrGenFilePV(path)
	q := &req{kind: "signvote", chain: "c", h: 1, r: 0, typ: 1, ts: "2020-01-01T00:00:00.000Z"}
	logf := filepath.Join(dir, "strace.log")
	cmd := osexec.Command("strace", "-f", "-qq", "-o", logf, "-e", "trace="+strings.Join(tracedSyscalls, ","), self(), "C04-child", path, q.line())
	var out bytes.Buffer
	cmd.Stdout = &out
	cmd.Stderr = &out
	if err := cmd.Run(); err != nil {
		return calibration{err: fmt.Errorf("calibration run failed: %v: %s", err, out.String())}
	}
	if !strings.HasPrefix(out.String(), "R ok ") {
		return calibration{err: fmt.Errorf("calibration child answered %q", out.String())}
	}
	f, err := os.Open(logf)
	if err != nil {
		return calibration{err: err}
	}
	defer f.Close()
	type ent struct{ pid, name, rest string }
	var ents []ent
	sc := bufio.NewScanner(f)
	sc.Buffer(make([]byte, 1<<20), 1<<24)
	for sc.Scan() {
		m := straceLine.FindStringSubmatch(sc.Text())
		if m == nil {
			continue // "<... x resumed>", exit lines, signals
		}
		ents = append(ents, ent{m[1], m[2], m[3]})
	}
	mainPid := ""
	for _, e := range ents {
		if strings.Contains(e.rest, markBegin) {
			mainPid = e.pid
		}
	}
	if mainPid == "" {
		return calibration{err: fmt.Errorf("calibration: marker not found in strace log")}
	}
	c := calibration{base: map[string]int{}}
	phase := 0
	for _, e := range ents {
		if e.pid != mainPid {
			if phase == 1 {
				return calibration{err: fmt.Errorf("calibration: system call %s of the signing call issued by another thread", e.name)}
			}
			continue
		}
		if strings.Contains(e.rest, markBegin) {
			c.base[e.name]++
			phase = 1
			continue
		}
		if strings.Contains(e.rest, markEnd) {
			phase = 2
			continue
		}
		switch phase {
		case 0:
			c.base[e.name]++
		case 1:
			c.opSeq = append(c.opSeq, e.name)
			switch {
			case strings.HasPrefix(e.name, "rename"):
				c.renamed = true
			case c.renamed:
			case e.name == "fsync" || e.name == "fdatasync":
				c.synced = true
			case (e.name == "openat" || e.name == "open" || e.name == "creat") && (strings.Contains(e.rest, "O_SYNC") || strings.Contains(e.rest, "O_DSYNC")):
				c.synced = true
			}
		}
	}
	if phase != 2 || len(c.opSeq) == 0 {
		return calibration{err: fmt.Errorf("calibration: incomplete log (phase %d)", phase)}
	}
	return c
}

// killPoints: (syscall, ordinal) for every system call of a fresh signing call, from the calibration
func killPoints() []string {
	c := calibrate()
	if c.err != nil {
		panic("harness: " + c.err.Error())
	}
	seen := map[string]int{}
	var out []string
	for _, n := range c.opSeq {
		seen[n]++
		out = append(out, fmt.Sprintf("%s:%d", n, seen[n]))
	}
	return out
}

// runChild executes one signing op in a child process that is killed at the entry of the n-th <sys> call of the op.
func runChild(path, op, kill string) (signResult, bool, error) {
	if kill == "" {
		// write-error injection only: the child limits its own file size, no tracer needed
		cmd := osexec.Command(self(), "C04-child", path, op)
		var out, errb bytes.Buffer
		cmd.Stdout = &out
		cmd.Stderr = &errb
		if err := cmd.Run(); err != nil {
			return signResult{}, false, fmt.Errorf("child failed: %v %q %q", err, out.String(), errb.String())
		}
		return parseChild(out.String())
	}
	c := calibrate()
	if c.err != nil {
		return signResult{}, false, c.err
	}
	parts := strings.Split(kill, ":")
	if len(parts) != 2 {
		return signResult{}, false, fmt.Errorf("bad kill spec %q", kill)
	}
	name := parts[0]
	n, err := strconv.Atoi(parts[1])
	if err != nil || n < 1 {
		return signResult{}, false, fmt.Errorf("bad kill spec %q", kill)
	}
	ok := false
	for _, t := range tracedSyscalls {
		if t == name {
			ok = true
		}
	}
	if !ok {
		return signResult{}, false, fmt.Errorf("kill spec names an untraced system call %q", name)
	}
	when := c.base[name] + n
	cmd := osexec.Command("strace", "-f", "-qq", "-o", "/dev/null", "-e", "trace="+name,
		"-e", fmt.Sprintf("inject=%s:signal=KILL:when=%d", name, when), self(), "C04-child", path, op)
	var out, errb bytes.Buffer
	cmd.Stdout = &out
	cmd.Stderr = &errb
	runErr := cmd.Run()
	s := out.String()
	if !strings.HasPrefix(s, "R ") || !strings.HasSuffix(s, "\n") {
		if runErr == nil {
			return signResult{}, false, fmt.Errorf("child exited normally without a result: %q %q", s, errb.String())
		}
		if ee, isExit := runErr.(*osexec.ExitError); isExit && ee.ExitCode() > 0 {
			return signResult{}, false, fmt.Errorf("child failed rc=%d: %q %q", ee.ExitCode(), s, errb.String())
		}
		return signResult{}, true, nil // killed: nothing was handed to the caller
	}
	return parseChild(s)
}

func parseChild(s string) (signResult, bool, error) {
	if !strings.HasPrefix(s, "R ") || !strings.HasSuffix(s, "\n") {
		return signResult{}, false, fmt.Errorf("child answered %q", s)
	}
	f := strings.Fields(strings.TrimSpace(s))
	switch f[1] {
	case "panic":
		return signResult{panicked: true}, false, nil
	case "err":
		return signResult{err: f[2]}, false, nil
	case "ok":
		sig, _ := hex.DecodeString(strings.Replace(f[3], "-", "", 1))
		post, _ := hex.DecodeString(strings.Replace(f[4], "-", "", 1))
		return signResult{ts: f[2], sig: sig, post: post}, false, nil
	}
	return signResult{}, false, fmt.Errorf("child answered %q", s)
}
