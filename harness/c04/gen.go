package c04

import (
	"crypto/sha256"
	"fmt"
	"math"
	"strings"
	"time"

	"github.com/lianxiangcloud/linkchain/types"

	"lvharness/hx"
)

func tsOf(ms int) string {
	return time.Unix(1577836800, 0).Add(time.Duration(ms) * time.Millisecond).UTC().Format(types.TimeFormat)
}

// block k: 0 = nil block (zero BlockID), k>0 = a block id derived from k
func setBlock(q *req, k int) {
	if k == 0 {
		q.bh, q.ph, q.pt = nil, nil, 0
		return
	}
	h := sha256.Sum256([]byte{byte(k), byte(k >> 8), 0x42})
	q.bh = append([]byte{}, h[:]...)
	q.ph = append([]byte{}, h[4:24]...)
	q.pt = 1 + k%5
}

func mkReq(at hrs, block int, tsms int, chain string) *req {
	q := &req{chain: chain, h: at.h, r: at.r, ts: tsOf(tsms), polr: -1}
	switch at.s {
	case 1:
		q.kind = "signprop"
		setBlock(q, block)
		if block == 0 { // a proposal always names a part set
			setBlock(q, 1)
		}
		q.bh = nil // no POL
	case 2:
		q.kind, q.typ = "signvote", 1
		setBlock(q, block)
	default:
		q.kind, q.typ = "signvote", 2
		setBlock(q, block)
	}
	return q
}

type seqGen struct {
	g        *hx.Gen
	cur      hrs  // highest HRS requested so far (it was accepted if it was above the previous one)
	last     *req // the request that established cur
	lastBlk  int
	lastTs   int
	nontriv  bool
	haveLast bool
}

func (s *seqGen) up() hrs {
	g := s.g
	a := s.cur
	switch g.Rng.Intn(8) {
	case 0:
		a.h, a.r, a.s = a.h+1, 0, 1+g.Rng.Intn(3)
	case 1:
		a.h, a.r, a.s = a.h+uint64(1+g.Rng.Intn(1000)), g.Rng.Intn(3), 1+g.Rng.Intn(3)
	case 2, 3:
		a.r, a.s = a.r+1+g.Rng.Intn(2), 1+g.Rng.Intn(3)
	default:
		if a.s < 3 {
			a.s = a.s + 1 + g.Rng.Intn(3-a.s)
		} else {
			a.r, a.s = a.r+1, 1+g.Rng.Intn(3)
		}
	}
	return a
}

func (s *seqGen) down() hrs {
	g := s.g
	a := s.cur
	switch g.Rng.Intn(4) {
	case 0:
		if a.h > 0 {
			a.h -= uint64(1 + g.Rng.Intn(int(minU(a.h, 3))))
			a.r, a.s = a.r+g.Rng.Intn(3), 1+g.Rng.Intn(3) // higher round/step do not rescue a lower height
			return a
		}
		fallthrough
	case 1:
		a.r -= 1 + g.Rng.Intn(2)
		a.s = 1 + g.Rng.Intn(3)
	default:
		if a.s > 1 {
			a.s = 1 + g.Rng.Intn(a.s-1)
		} else {
			a.r--
		}
	}
	return a
}

func minU(a uint64, b uint64) uint64 {
	if a < b {
		return a
	}
	return b
}

// next signing request relative to the history; kind of relation is counted
func (s *seqGen) next() *req {
	g := s.g
	r := g.Rng.Intn(100)
	switch {
	case !s.haveLast || r < 45:
		at := s.up()
		blk := g.Rng.Intn(4)
		ts := s.lastTs + 1 + g.Rng.Intn(5000)
		q := mkReq(at, blk, ts, "c")
		s.cur, s.last, s.lastBlk, s.lastTs, s.haveLast = at, q, blk, ts, true
		g.Count("rel:up")
		return q
	case r < 80:
		s.nontriv = true
		switch v := g.Rng.Intn(10); {
		case v < 3:
			g.Count("rel:same-identical")
			q := *s.last
			return &q
		case v < 6:
			g.Count("rel:same-timestamp-only")
			return mkReq(s.cur, s.lastBlk, s.lastTs+1+g.Rng.Intn(100000), "c")
		case v < 9:
			g.Count("rel:same-other-block")
			return mkReq(s.cur, s.lastBlk+1+g.Rng.Intn(3), s.lastTs+g.Rng.Intn(2)*g.Rng.Intn(1000), "c")
		default:
			g.Count("rel:same-other-chain")
			return mkReq(s.cur, s.lastBlk, s.lastTs, "d")
		}
	default:
		s.nontriv = true
		g.Count("rel:down")
		return mkReq(s.down(), g.Rng.Intn(4), s.lastTs+g.Rng.Intn(1000), "c")
	}
}

func setrecLine(lh uint64, lr, ls int, hasb, hassig bool, blk int) string {
	s := fmt.Sprintf("setrec lh=%d lr=%d ls=%d", lh, lr, ls)
	if hasb {
		st := ls
		if st != 1 {
			st = 2
		}
		q := mkReq(hrs{lh, lr, st}, blk, 777, "c")
		if ls == 3 {
			q.typ = 2
		}
		s += " " + strings.TrimPrefix(q.line(), q.kind+" ")
		if hassig {
			s += " hassig=1"
		} else {
			s += " hassig=0"
		}
	}
	return s
}

func (P) Generate(g *hx.Gen) {
	quiet()
	kps := killPoints()
	c := calibrate()
	g.Stats["calibration:fresh-call-syscalls:"+strings.Join(c.opSeq, ",")] = 1
	beyond := []string{"write:3", "renameat:2", "openat:2"}

	// ---- corpus: the two non-vacuity traces of Props.C04 -------------------------------------
	a := mkReq(hrs{5, 0, 2}, 1, 1000, "c")
	b := mkReq(hrs{5, 0, 2}, 2, 1000, "c")
	for _, kp := range []string{"renameat:1", "unlinkat:1", "write:2"} {
		k := *a
		k.kill = kp
		g.Case("corpus crash at "+kp+" then a different block at the same HRS", []string{"case", "init", k.line(), b.line(), a.line(), "show"}, true)
	}
	g.Case("durability of the temp file", []string{"case", "durability"}, false)

	// ---- (A) in-process request sequences with restarts ---------------------------------------
	nA := g.Pick(700, 6000)
	for k := 0; k < nA; k++ {
		s := &seqGen{g: g}
		if g.Rng.Intn(4) == 0 {
			s.cur = hrs{uint64(g.Rng.Intn(3)), 0, 0}
		}
		ops := []string{"case", "init"}
		n := 4 + g.Rng.Intn(g.Pick(26, 40))
		for i := 0; i < n; i++ {
			switch r := g.Rng.Intn(100); {
			case r < 12:
				ops = append(ops, "crash")
				s.nontriv = true
				g.Count("op:restart")
			case r < 18:
				ops = append(ops, "show")
			default:
				ops = append(ops, s.next().line())
				g.Count("op:sign")
			}
		}
		g.Case("seq", ops, s.nontriv)
	}

	// ---- (B) restarts inside a call (child process killed at a system call) -------------------
	nB := g.Pick(60, 400)
	for k := 0; k < nB; k++ {
		s := &seqGen{g: g}
		ops := []string{"case", "init"}
		for i := g.Rng.Intn(3); i > 0; i-- {
			ops = append(ops, s.next().line())
		}
		rounds := 1 + g.Rng.Intn(3)
		if g.Thorough() && k%4 == 0 {
			rounds = len(kps) + 1
		}
		for j := 0; j < rounds; j++ {
			q := s.next()
			kq := *q
			switch {
			case g.Thorough() && k%4 == 0 && j < len(kps):
				kq.kill = kps[j]
			case g.Rng.Intn(8) == 0:
				kq.kill = beyond[g.Rng.Intn(len(beyond))]
			default:
				kq.kill = kps[g.Rng.Intn(len(kps))]
			}
			g.Count("kill:" + kq.kill)
			ops = append(ops, kq.line())
			// afterwards: a different block at the same HRS, the original again, a timestamp-only variant
			at := hrs{q.h, q.r, q.step()}
			other := mkReq(at, 7+g.Rng.Intn(3), 5, "c")
			tsv := *q
			tsv.ts = tsOf(9999999 + g.Rng.Intn(1000))
			follow := []string{other.line(), q.line(), tsv.line(), "show"}
			g.Rng.Shuffle(3, func(x, y int) { follow[x], follow[y] = follow[y], follow[x] })
			ops = append(ops, follow[:2+g.Rng.Intn(3)]...)
		}
		g.Case("kill-seq", ops, true)
	}

	// ---- (F) write ERRORS inside a call: the child limits its file size (RLIMIT_FSIZE, SIGXFSZ ignored), so the write of
	// the record is cut short / fails with EFBIG like on a full disk ---------------------------------------------------
	{
		a := mkReq(hrs{5, 0, 2}, 1, 1000, "c")
		b := mkReq(hrs{5, 0, 2}, 2, 1000, "c")
		c6 := mkReq(hrs{6, 0, 2}, 3, 2000, "c")
		for _, spec := range []string{"fsize:0", "fsize:200", "short:1"} {
			f := *c6
			f.fail = spec
			g.Case("corpus failed save "+spec, []string{"case", "init", a.line(), f.line(), "show", b.line(), a.line(), c6.line(), "show"}, true)
		}
	}
	failSpec := func() string {
		switch g.Rng.Intn(7) {
		case 0:
			return "fsize:0"
		case 1:
			return "fsize:1"
		case 2:
			return fmt.Sprintf("fsize:%d", 2+g.Rng.Intn(300))
		case 3:
			return "short:1"
		case 4:
			return "short:0" // exactly the record length: the write fits, nothing fails
		case 5:
			return "nofile" // no file descriptor left: the temp file cannot be created (EMFILE)
		default:
			return fmt.Sprintf("short:%d", 1+g.Rng.Intn(1200))
		}
	}
	nF := g.Pick(40, 300)
	for k := 0; k < nF; k++ {
		s := &seqGen{g: g}
		ops := []string{"case", "init"}
		for i := g.Rng.Intn(3); i > 0; i-- {
			ops = append(ops, s.next().line())
		}
		for j := 1 + g.Rng.Intn(2); j > 0; j-- {
			q := s.next()
			fq := *q
			fq.fail = failSpec()
			g.Count("fail:" + strings.Split(fq.fail, ":")[0])
			ops = append(ops, fq.line())
			at := hrs{q.h, q.r, q.step()}
			other := mkReq(at, 7+g.Rng.Intn(3), 5, "c")
			follow := []string{other.line(), q.line(), "show"}
			g.Rng.Shuffle(3, func(x, y int) { follow[x], follow[y] = follow[y], follow[x] })
			ops = append(ops, follow[:1+g.Rng.Intn(3)]...)
		}
		g.Case("fail-seq", ops, true)
	}
	if g.Thorough() {
		// every cut point of the record: limit = record length - k for k = 0 .. beyond the record length
		for base := 0; base <= 1400; base += 50 {
			ops := []string{"case", "init"}
			for k := base; k < base+50; k++ {
				q := mkReq(hrs{uint64(1 + k), 0, 2}, 1, 10, "c")
				q.fail = fmt.Sprintf("short:%d", k)
				ops = append(ops, q.line())
			}
			ops = append(ops, "show")
			g.Count("fail:sweep-cases")
			g.Case(fmt.Sprintf("failed save sweep short:%d..", base), ops, true)
		}
	}

	// ---- (G) the other methods of the signing interface: heartbeats, SignData, Reset, UpdatePrikey; hostile chain ids -----
	chains := []string{"c", "", "c\",\"@type\":\"vote", "{\"@chain_id\":\"c\"}", "\\", "\u00e9\n<&>"}
	hbLine := func(chain string, h uint64, r, seq, vidx int) string {
		return fmt.Sprintf("signheartbeat chain=%s h=%d r=%d seq=%d vidx=%d", hx.Hex([]byte(chain)), h, r, seq, vidx)
	}
	for k := 0; k < g.Pick(30, 300); k++ {
		s := &seqGen{g: g}
		chain := chains[g.Rng.Intn(len(chains))]
		ops := []string{"case", "init"}
		n := 5 + g.Rng.Intn(8)
		for i := 0; i < n; i++ {
			switch r := g.Rng.Intn(10); {
			case r < 4:
				q := s.next()
				q.chain = chain
				ops = append(ops, q.line())
			case r < 7:
				hc := chain
				if g.Rng.Intn(3) == 0 {
					hc = chains[g.Rng.Intn(len(chains))]
				}
				ops = append(ops, hbLine(hc, []uint64{0, 1, s.cur.h, math.MaxUint64}[g.Rng.Intn(4)], []int{0, s.cur.r, -1, math.MaxInt32}[g.Rng.Intn(4)], g.Rng.Intn(3), []int{0, -1, 7}[g.Rng.Intn(3)]))
				g.Count("op:heartbeat")
			case r < 9:
				ops = append(ops, fmt.Sprintf("signdata nonce=%d type=%d min=%d signers=%d", []uint64{0, 1, 1 << 40}[g.Rng.Intn(3)], g.Rng.Intn(4), g.Rng.Intn(100), g.Rng.Intn(4)))
				g.Count("op:signdata-multisign")
			default:
				ops = append(ops, "crash")
			}
		}
		ops = append(ops, "domains")
		g.Count("chain:" + hx.Hex([]byte(chain)))
		g.Case("other-domains", ops, true)
	}
	// SignData is an unrestricted signing oracle for an in-process caller (tag oracle: shown, not alarmed; oracle-strict alarms)
	{
		a := mkReq(hrs{5, 0, 2}, 1, 1000, "c")
		b := mkReq(hrs{5, 0, 2}, 2, 1000, "c")
		bsb := b.signBytes()
		g.Case("signdata oracle", []string{hx.CaseOp("oracle"), "init", a.line(),
			fmt.Sprintf("signdata raw=%s d=%s fc=brace", hx.Hex(bsb), digest(bsb)), b.line(), "show"}, true)
	}
	// Reset (CLI unsafe_reset_priv_validator) and UpdatePrikey
	for k := 0; k < g.Pick(10, 100); k++ {
		s := &seqGen{g: g}
		ops := []string{"case", "init"}
		for i := 0; i < 4+g.Rng.Intn(10); i++ {
			switch r := g.Rng.Intn(12); {
			case r == 0 || (r == 4 && i > 2):
				ops = append(ops, "reset")
				g.Count("op:reset")
			case r == 1 || r == 2:
				ops = append(ops, fmt.Sprintf("updatekey k=%d", g.Rng.Intn(3)))
				g.Count("op:updatekey")
			case r == 3:
				ops = append(ops, "crash")
			default:
				ops = append(ops, s.next().line())
			}
		}
		ops = append(ops, "show")
		g.Case("reset-updatekey", ops, true)
	}
	// damaged key files: LoadOrGenFilePV in child processes (cmn.Exit sleeps 2.3 s: few cases)
	for k := 0; k < g.Pick(2, 5); k++ {
		ops := []string{"case", "init"}
		if k != 1 { // k == 1: a validator that has not signed anything yet
			ops = append(ops, mkReq(hrs{uint64(3 + k), 1, 1 + k%3}, 1, 100, "c").line())
		}
		ops = append(ops, "loadbad")
		g.Count("op:loadbad")
		g.Case("damaged key files", ops, true)
	}
	// records whose sign-bytes are not canonical JSON (damaged / hand-edited file): the same-HRS rule must not sign
	rawRecords := [][]byte{[]byte("not json at all"), {}, []byte(`{"@chain_id":"c","@type":"vote","block_id":{},"height":"4","round":"1"`),
		[]byte(`{"@chain_id":"c","@type":"vote","block_id":{},"height":"4","round":"1","timestamp":"yesterday","type":1}`),
		[]byte(`{"@chain_id":"c","@type":"proposal","block_parts_header":{},"height":"4","pol_block_id":{},"pol_round":"-1","round":"1","timestamp":"12:00"}`)}
	for i, raw := range rawRecords {
		for st := 1; st <= 3; st++ {
			if len(raw) == 0 {
				continue
			}
			rec := fmt.Sprintf("setrec lh=4 lr=1 ls=%d rawsb=%s sb=%s core=%s ts=- bad=1", st, hx.Hex(raw), digest(raw), digest([]byte("unparsable")))
			g.Count("op:setrec-raw-signbytes")
			g.Case(fmt.Sprintf("non-canonical stored sign-bytes #%d step %d", i, st), []string{hx.CaseOp("badrecord"), "init", rec,
				mkReq(hrs{4, 1, st}, 1, 777, "c").line(), "show", mkReq(hrs{4, 0, st}, 1, 777, "c").line(), mkReq(hrs{4, 2, st}, 1, 777, "c").line(), "show"}, true)
		}
	}

	// ---- (C) checkHRS through the exported API, exhaustive over small values -------------------
	for ls := 0; ls <= 3; ls++ {
		for _, hasb := range []bool{false, true} {
			ops := []string{"case", "init"}
			for lh := uint64(0); lh < 3; lh++ {
				for lr := -1; lr <= 1; lr++ {
					for h := uint64(0); h < 3; h++ {
						for r := -1; r <= 1; r++ {
							for st := 1; st <= 3; st++ {
								ops = append(ops, setrecLine(lh, lr, ls, hasb, true, 1), mkReq(hrs{h, r, st}, 2, 888, "c").line())
							}
						}
					}
				}
			}
			g.Count("sweep:checkhrs-cases")
			g.Case(fmt.Sprintf("checkHRS sweep ls=%d hasbytes=%v", ls, hasb), ops, true)
		}
	}
	// same-HRS rule on a given record: identical / timestamp-only / other block, all three steps
	for st := 1; st <= 3; st++ {
		at := hrs{4, 1, st}
		ops := []string{"case", "init"}
		for _, v := range []*req{mkReq(at, 1, 777, "c"), mkReq(at, 1, 778, "c"), mkReq(at, 2, 777, "c"), mkReq(at, 1, 777, "d")} {
			ops = append(ops, setrecLine(4, 1, st, true, true, 1), v.line())
		}
		g.Case(fmt.Sprintf("same-HRS rule step=%d", st), ops, true)
	}

	// ---- (D) SignVoteWithoutSave (bypasses the record; no non-test caller in the tree) ----------
	for k := 0; k < g.Pick(6, 60); k++ {
		at := hrs{uint64(1 + g.Rng.Intn(5)), g.Rng.Intn(2), 2 + g.Rng.Intn(2)}
		x, y := mkReq(at, 1, 100, "c"), mkReq(at, 2, 100, "c")
		x.nosave = true
		if g.Rng.Intn(2) == 0 {
			y.nosave = true
		}
		lower := mkReq(hrs{at.h - 1, 0, 2}, 3, 100, "c")
		ops := []string{hx.CaseOp("nosave"), "init"}
		if g.Rng.Intn(2) == 0 {
			ops = append(ops, mkReq(hrs{0, 0, 2}, 1, 50, "c").line())
		}
		ops = append(ops, x.line(), "show", y.line())
		if g.Rng.Intn(2) == 0 {
			ops = append(ops, lower.line())
		}
		g.Count("op:sign-without-save")
		g.Case("nosave", ops, true)
	}

	// ---- (E) malformed stream --------------------------------------------------------------------
	for _, typ := range []int{0, 3, 4, 255} {
		q := mkReq(hrs{3, 0, 2}, 1, 10, "c")
		q.typ = typ
		g.Case(fmt.Sprintf("unknown vote type %d", typ), []string{"case", "init", mkReq(hrs{2, 0, 3}, 1, 5, "c").line(), q.line(), "show", mkReq(hrs{3, 0, 2}, 1, 10, "c").line()}, false)
	}
	for st := 1; st <= 3; st++ {
		g.Case("record with sign-bytes but no signature", []string{hx.CaseOp("badrecord"), "init", setrecLine(2, 0, st, true, false, 1),
			mkReq(hrs{2, 0, st}, 1, 777, "c").line(), "show", mkReq(hrs{2, 1, st}, 1, 777, "c").line(), mkReq(hrs{1, 1, st}, 1, 777, "c").line()}, false)
	}
	extremeH := []uint64{0, 1, math.MaxUint64, math.MaxUint64 - 1, 1 << 63, 1<<63 - 1, 1 << 32}
	extremeR := []int{0, -1, 1, math.MaxInt32, math.MinInt32, math.MaxInt64, math.MinInt64, 1 << 40}
	for k := 0; k < g.Pick(40, 600); k++ {
		ops := []string{"case", "init"}
		for i := 0; i < 8; i++ {
			at := hrs{extremeH[g.Rng.Intn(len(extremeH))], extremeR[g.Rng.Intn(len(extremeR))], 1 + g.Rng.Intn(3)}
			ops = append(ops, mkReq(at, g.Rng.Intn(3), g.Rng.Intn(100), "c").line())
			if g.Rng.Intn(5) == 0 {
				ops = append(ops, "crash")
			}
		}
		g.Count("malformed:extreme-hrs")
		g.Case("extreme heights/rounds", ops, true)
	}
}
