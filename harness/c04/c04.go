// Package c04: correspondence + monitors for the double-sign protection of types.FilePV
// (SignVote / SignProposal / SignVoteWithoutSave, checkHRS, saveSigned -> WriteFileAtomic, LoadFilePV),
// including process crashes INSIDE a signing call (child process killed by strace fault injection at
// the entry of a chosen system call).
package c04

import (
	"crypto/sha256"
	"encoding/hex"
	"fmt"
	"os"
	"path/filepath"
	"strconv"
	"strings"
	"sync/atomic"
	"time"

	cmn "github.com/lianxiangcloud/linkchain/libs/common"
	"github.com/lianxiangcloud/linkchain/libs/crypto"
	"github.com/lianxiangcloud/linkchain/libs/log"
	"github.com/lianxiangcloud/linkchain/libs/ser"
	"github.com/lianxiangcloud/linkchain/types"

	"lvharness/hx"
)

type P struct{}

func (P) Rule() string {
	return "cases: a real FilePV on a key file under the process cwd; sequences of SignVote/SignProposal requests whose (height,round,step) moves up / stays / moves down " +
		"relative to the last request, with same / timestamp-only-different / different block ids and chain ids, in-process restarts (drop the object, LoadFilePV) at random points, " +
		"and restarts INSIDE a call (the call runs in a child process killed by strace at the entry of the k-th openat/write/close/renameat/unlinkat of the call or at the write that " +
		"hands the result to the caller), write ERRORS inside a call (child process with RLIMIT_FSIZE below the record length: the temp-file write is cut short or fails with EFBIG, from 0 bytes to the full length); plus an exhaustive small-value sweep of checkHRS through the exported API, SignVoteWithoutSave cases (tag nosave) and a malformed stream " +
		"(unknown vote types, records with sign-bytes but no signature, extreme heights/rounds). " +
		"non-trivial = the case contains a same-HRS request after a successful signature, or a lower-HRS request, or a restart; distinct = distinct op sequence"
}

// ---- requests ------------------------------------------------------------------------------

type req struct {
	kind   string // "signvote" | "signprop"
	chain  string
	h      uint64
	r      int
	typ    int // vote type byte (signvote)
	ts     string
	bh     []byte // block hash (vote) / POL block hash (proposal)
	ph     []byte // parts hash
	pt     int    // parts total
	polr   int
	pph    []byte // POL parts hash (proposal)
	ppt    int
	nosave bool
	kill   string // "<syscall>:<n>" or ""
	fail   string // "fsize:<n>" | "short:<k>" or "": the write of the record fails beyond that many bytes
}

func hexOrDash(b []byte) string { return hx.Hex(b) }

func unhexNil(s string) []byte {
	if s == "-" || s == "" {
		return nil
	}
	return hx.UnHex(s)
}

func (q *req) vote() *types.Vote {
	t, _ := time.Parse(types.TimeFormat, q.ts)
	return &types.Vote{Height: q.h, Round: q.r, Type: byte(q.typ), Timestamp: t,
		BlockID: types.BlockID{Hash: cmn.BytesToHash(q.bh), PartsHeader: types.PartSetHeader{Total: q.pt, Hash: q.ph}}}
}

func (q *req) prop() *types.Proposal {
	t, _ := time.Parse(types.TimeFormat, q.ts)
	return &types.Proposal{Height: q.h, Round: q.r, Timestamp: t, BlockPartsHeader: types.PartSetHeader{Total: q.pt, Hash: q.ph},
		POLRound: q.polr, POLBlockID: types.BlockID{Hash: cmn.BytesToHash(q.bh), PartsHeader: types.PartSetHeader{Total: q.ppt, Hash: q.pph}}}
}

func (q *req) step() int {
	if q.kind == "signprop" {
		return 1
	}
	switch q.typ {
	case 1:
		return 2
	case 2:
		return 3
	}
	return -1
}

// signBytes of the request as submitted (the repo's own canonical JSON)
func (q *req) signBytes() []byte {
	if q.kind == "signprop" {
		return q.prop().SignBytes(q.chain)
	}
	return q.vote().SignBytes(q.chain)
}

// coreOf: the canonical form with the timestamp blanked, after one unmarshal/marshal round trip
// (what "differ only by timestamp" compares).
func coreOf(kind string, sb []byte) []byte {
	if kind == "signprop" {
		var p types.CanonicalJSONProposal
		if err := ser.UnmarshalJSON(sb, &p); err != nil {
			return []byte("unparsable")
		}
		p.Timestamp = ""
		bz, _ := ser.MarshalJSON(p)
		return bz
	}
	var v types.CanonicalJSONVote
	if err := ser.UnmarshalJSON(sb, &v); err != nil {
		return []byte("unparsable")
	}
	v.Timestamp = ""
	bz, _ := ser.MarshalJSON(v)
	return bz
}

// digest: payload identities cross the boundary as the first 8 bytes of SHA-256 of the real bytes
// (injectivity on each case's payload table is asserted by the executor).
func digest(b []byte) string {
	s := sha256.Sum256(b)
	return hex.EncodeToString(s[:8])
}

func (q *req) line() string {
	sb := q.signBytes()
	s := fmt.Sprintf("%s h=%d r=%d", q.kind, q.h, q.r)
	if q.kind == "signvote" {
		s += fmt.Sprintf(" type=%d", q.typ)
	} else {
		s += fmt.Sprintf(" polr=%d pph=%s ppt=%d", q.polr, hexOrDash(q.pph), q.ppt)
	}
	s += fmt.Sprintf(" ts=%s chain=%s bh=%s ph=%s pt=%d sb=%s core=%s", q.ts, hx.Hex([]byte(q.chain)), hexOrDash(q.bh), hexOrDash(q.ph), q.pt,
		digest(sb), digest(coreOf(q.kind, sb)))
	if q.nosave {
		s += " nosave=1"
	}
	if q.fail != "" {
		s += " fail=" + q.fail
	}
	if q.kill != "" {
		s += " kill=" + q.kill
	}
	return s
}

func atoi(toks []string, key string) int {
	v, _ := hx.Arg(toks, key)
	n, _ := strconv.Atoi(v)
	return n
}

func parseReq(toks []string) *req {
	q := &req{kind: toks[0]}
	hs, _ := hx.Arg(toks, "h")
	q.h, _ = strconv.ParseUint(hs, 10, 64)
	q.r = atoi(toks, "r")
	q.typ = atoi(toks, "type")
	q.ts, _ = hx.Arg(toks, "ts")
	c, _ := hx.Arg(toks, "chain")
	q.chain = string(hx.UnHex(c))
	v, _ := hx.Arg(toks, "bh")
	q.bh = unhexNil(v)
	v, _ = hx.Arg(toks, "ph")
	q.ph = unhexNil(v)
	q.pt = atoi(toks, "pt")
	q.polr = atoi(toks, "polr")
	v, _ = hx.Arg(toks, "pph")
	q.pph = unhexNil(v)
	q.ppt = atoi(toks, "ppt")
	if v, ok := hx.Arg(toks, "nosave"); ok && v == "1" {
		q.nosave = true
	}
	q.kill, _ = hx.Arg(toks, "kill")
	q.fail, _ = hx.Arg(toks, "fail")
	return q
}

// ---- executor ------------------------------------------------------------------------------

var execSeq int64

type exec struct {
	dir      string
	path     string
	pv       *types.FilePV
	pub      crypto.PubKey
	table    []string          // payload digests in order of first appearance in op lines
	bytesOf  map[string][]byte // digest -> real bytes
	sigCache map[string]string // signature bytes -> payload index / "invalid"
	pubs     []crypto.PubKey   // every key the object ever had in this case (UpdatePrikey)
	others   [][]byte          // sign-bytes of heartbeats and SignData calls
	started  bool
}

func quiet() { log.Root().SetHandler(log.DiscardHandler()) }

func (P) NewExec() hx.Executor {
	quiet()
	return &exec{}
}

func (e *exec) reset() {
	if e.dir != "" {
		os.RemoveAll(e.dir)
	}
	n := atomic.AddInt64(&execSeq, 1)
	e.dir = filepath.Join("c04-work", fmt.Sprintf("%d-%d", os.Getpid(), n))
	os.MkdirAll(e.dir, 0o755)
	e.path = filepath.Join(e.dir, "priv_validator.json")
	e.pv = nil
	e.started = false
	e.table = nil
	e.bytesOf = map[string][]byte{}
	e.sigCache = map[string]string{}
}

func (e *exec) learn(b []byte) {
	d := digest(b)
	if old, ok := e.bytesOf[d]; ok {
		if string(old) != string(b) {
			panic("harness: payload digest collision")
		}
		return
	}
	e.bytesOf[d] = append([]byte{}, b...)
	e.table = append(e.table, d)
}

func (e *exec) idx(b []byte) string {
	if b == nil {
		return "nil"
	}
	d := digest(b)
	for i, t := range e.table {
		if t == d && string(e.bytesOf[d]) == string(b) {
			return strconv.Itoa(i)
		}
	}
	return "unknown"
}

// sigIdx: index of the known payload this signature verifies against under the validator's key
func (e *exec) sigIdx(sig crypto.Signature, hint []byte) string {
	if sig == nil {
		return "nil"
	}
	key := string(sig.Bytes())
	if v, ok := e.sigCache[key]; ok {
		return v
	}
	ans := "invalid"
	for _, pk := range e.pubs {
		if ans != "invalid" {
			break
		}
		if hint != nil && pk.VerifyBytes(hint, sig) {
			ans = e.idx(hint)
			break
		}
		for i, d := range e.table {
			if pk.VerifyBytes(e.bytesOf[d], sig) {
				ans = strconv.Itoa(i)
				break
			}
		}
	}
	if ans != "invalid" && ans != "unknown" {
		e.sigCache[key] = ans
	}
	return ans
}

func (e *exec) recStr(pv *types.FilePV) string {
	return fmt.Sprintf("%d/%d/%d/%s/%s", pv.LastHeight, pv.LastRound, pv.LastStep, e.idx(pv.LastSignBytes), e.sigIdx(pv.LastSignature, pv.LastSignBytes))
}

func (e *exec) diskStr() string {
	b, err := os.ReadFile(e.path)
	if err != nil {
		return "missing"
	}
	pv, err := types.LoadPVFromBytes(b)
	if err != nil {
		return "corrupt"
	}
	return e.recStr(pv)
}

func (e *exec) memStr() string {
	if e.pv == nil {
		return "none"
	}
	return e.recStr(e.pv)
}

// reload = process restart: the object is dropped and the key file is read again
func (e *exec) reload() bool {
	e.pv = nil
	b, err := os.ReadFile(e.path)
	if err != nil {
		return false
	}
	if _, err := types.LoadPVFromBytes(b); err != nil {
		return false // LoadFilePV would exit the process
	}
	e.pv = types.LoadFilePV(e.path)
	return true
}

func errName(err error) string {
	s := err.Error()
	s = strings.TrimPrefix(s, "Error signing vote: ")
	s = strings.TrimPrefix(s, "Error signing proposal: ")
	return canonErr(s)
}

func canonErr(s string) string {
	s = strings.ToLower(strings.TrimSpace(s))
	var sb strings.Builder
	for _, c := range s {
		if (c >= 'a' && c <= 'z') || (c >= '0' && c <= '9') {
			sb.WriteRune(c)
		} else {
			sb.WriteByte('-')
		}
	}
	return sb.String()
}

// signResult is what a signing call handed to its caller
type signResult struct {
	panicked bool
	err      string
	ts       string
	sig      []byte
	post     []byte
}

// doSign performs the request on pv (the real exported API).
func doSign(pv *types.FilePV, q *req) (res signResult) {
	defer func() {
		if r := recover(); r != nil {
			res = signResult{panicked: true}
		}
	}()
	if q.kind == "signprop" {
		p := q.prop()
		if err := pv.SignProposal(q.chain, p); err != nil {
			return signResult{err: errName(err)}
		}
		return signResult{ts: types.CanonicalTime(p.Timestamp), sig: sigBytes(p.Signature), post: p.SignBytes(q.chain)}
	}
	v := q.vote()
	var err error
	if q.nosave {
		err = pv.SignVoteWithoutSave(q.chain, v)
	} else {
		err = pv.SignVote(q.chain, v)
	}
	if err != nil {
		return signResult{err: errName(err)}
	}
	return signResult{ts: types.CanonicalTime(v.Timestamp), sig: sigBytes(v.Signature), post: v.SignBytes(q.chain)}
}

func sigBytes(s crypto.Signature) []byte {
	if s == nil {
		return nil
	}
	return s.Bytes()
}

func (e *exec) answer(res signResult) string {
	if res.panicked {
		return "panic"
	}
	if res.err != "" {
		return "err=" + res.err + " disk=" + e.diskStr()
	}
	var sig crypto.Signature
	if res.sig != nil {
		s, err := crypto.SignatureFromBytes(res.sig)
		if err != nil {
			return "ok sig=undecodable"
		}
		sig = s
	}
	return fmt.Sprintf("ok sig=%s post=%s ts=%s disk=%s", e.sigIdx(sig, res.post), e.idx(res.post), res.ts, e.diskStr())
}

func (e *exec) Exec(op string) string {
	toks := hx.Tokens(op)
	switch toks[0] {
	case "case":
		e.reset()
		return "ok"
	case "init":
		if e.dir == "" {
			e.reset()
		}
		e.started = true
		os.Remove(e.path)
		e.pv = types.LoadOrGenFilePV(e.path)
		e.pub = e.pv.GetPubKey()
		e.pubs = []crypto.PubKey{e.pub}
		e.others = nil
		return "mem=" + e.memStr() + " disk=" + e.diskStr()
	case "durability":
		// observed on the real system calls of a fresh signing call (calibration run under strace)
		c := calibrate()
		if c.err != nil {
			panic("harness: " + c.err.Error())
		}
		return fmt.Sprintf("atomic=%v synced=%v", c.renamed, c.synced)
	}
	if !e.started {
		return "bad-op no-init"
	}
	if ans, ok := e.execExtra(toks); ok {
		return ans
	}
	switch toks[0] {
	case "show":
		return "mem=" + e.memStr() + " disk=" + e.diskStr()
	case "crash":
		if !e.reload() {
			return "dead disk=" + e.diskStr()
		}
		return "mem=" + e.memStr() + " disk=" + e.diskStr()
	case "setrec":
		// both the object and the file get this record (exported fields + Save)
		if e.pv == nil {
			return "dead"
		}
		hs, _ := hx.Arg(toks, "lh")
		lh, _ := strconv.ParseUint(hs, 10, 64)
		e.pv.LastHeight, e.pv.LastRound, e.pv.LastStep = lh, atoi(toks, "lr"), int8(atoi(toks, "ls"))
		e.pv.LastSignBytes, e.pv.LastSignature = nil, nil
		if raw, ok := hx.Arg(toks, "rawsb"); ok {
			// a record whose sign-bytes are NOT the canonical JSON of a vote/proposal (damaged or hand-edited file)
			sb := hx.UnHex(raw)
			if d, _ := hx.Arg(toks, "sb"); d != digest(sb) {
				return "bad-op sb-mismatch"
			}
			e.learn(sb)
			e.pv.LastSignBytes = sb
			sig, _ := e.pv.GetPrikey().Sign(sb)
			e.pv.LastSignature = sig
		} else if _, ok := hx.Arg(toks, "sb"); ok {
			// the record's payload is the sign-bytes of the request described by the remaining fields
			q := parseReq(toks)
			if atoi(toks, "ls") == 1 {
				q.kind = "signprop"
			} else {
				q.kind = "signvote"
			}
			sb := q.signBytes()
			if d, _ := hx.Arg(toks, "sb"); d != digest(sb) {
				return "bad-op sb-mismatch"
			}
			e.learn(sb)
			e.pv.LastSignBytes = sb
			if v, _ := hx.Arg(toks, "hassig"); v != "0" {
				sig, _ := e.pv.GetPrikey().Sign(sb)
				e.pv.LastSignature = sig
			}
		}
		e.pv.Save()
		if !e.reload() {
			return "dead disk=" + e.diskStr()
		}
		return "mem=" + e.memStr() + " disk=" + e.diskStr()
	case "signvote", "signprop":
		q := parseReq(toks)
		sb := q.signBytes()
		if d, _ := hx.Arg(toks, "sb"); d != digest(sb) {
			return "bad-op sb-mismatch"
		}
		if d, _ := hx.Arg(toks, "core"); d != digest(coreOf(q.kind, sb)) {
			return "bad-op core-mismatch"
		}
		e.learn(sb)
		if e.pv == nil {
			return "dead"
		}
		if q.kill == "" && q.fail == "" {
			return e.answer(doSign(e.pv, q))
		}
		// the call runs in a child process; whatever happens, this "process" ends afterwards
		e.pv = nil
		res, killed, err := runChild(e.path, op, q.kill)
		if err != nil {
			panic("harness: child: " + err.Error())
		}
		var ans string
		if killed {
			ans = "killed disk=" + e.diskStr()
		} else if q.fail != "" && res.panicked {
			ans = "failed disk=" + e.diskStr() // the signing call panicked under write-error injection
		} else {
			ans = e.answer(res)
		}
		e.reload()
		return ans
	}
	return "bad-op"
}

// ---- monitors ------------------------------------------------------------------------------

type hrs struct {
	h    uint64
	r, s int
}

func (a hrs) less(b hrs) bool {
	if a.h != b.h {
		return a.h < b.h
	}
	if a.r != b.r {
		return a.r < b.r
	}
	return a.s < b.s
}

type release struct {
	at     hrs
	sig    string
	ts     string
	reqSB  string
	reqTS  string
	nosave bool
	op     int
}

func parseDisk(ans string) (hrs, string, string, bool) {
	d, ok := hx.Arg(hx.Tokens(ans), "disk")
	if !ok {
		return hrs{}, "", "", false
	}
	f := strings.Split(d, "/")
	if len(f) != 5 {
		return hrs{}, "", "", false
	}
	h, _ := strconv.ParseUint(f[0], 10, 64)
	r, _ := strconv.Atoi(f[1])
	s, _ := strconv.Atoi(f[2])
	return hrs{h, r, s}, f[3], f[4], true
}

const site = "types/priv_validator.go:FilePV"

// Monitor evaluates the property on what the implementation handed out:
// at most one signed payload per HRS, no signature below an HRS already signed, a replay returns the original
// signature (with the request's or the original timestamp), the record is on disk when a signature is handed out,
// the key file is always loadable, a request above the recorded HRS is served, no panic on well-formed requests.
func (P) Monitor(c *hx.CaseRun) []hx.Failure {
	var fs []hx.Failure
	fail := func(mon, class, msg string) {
		fs = append(fs, hx.Failure{Monitor: mon, Class: class, Site: site, Msg: msg})
	}
	var rels []release
	var lastDisk *hrs
	prevDisk := "" // the key file record reported by the previous answer
	for i, op := range c.Ops {
		ans := c.Impl[i]
		toks := hx.Tokens(op)
		atoks := hx.Tokens(ans)
		before := prevDisk
		prevDisk, _ = hx.Arg(atoks, "disk")
		if strings.HasPrefix(ans, "failed") && before != "" && prevDisk != before {
			// a save that reported an error must leave the previous content of the key file in place
			fail("failed_save_keeps_key_file", "key-file-write-not-atomic-or-not-synced",
				fmt.Sprintf("op %d %q: the signing call failed under write-error injection but the key file changed from %s to %s", i, clipStr(op), before, prevDisk))
		}
		if d, ok := hx.Arg(atoks, "disk"); ok && (d == "corrupt" || d == "missing") && toks[0] != "case" {
			fail("key_file_loadable", "key-file-"+d, fmt.Sprintf("op %d %q: the key file is %s", i, clipStr(op), d))
		}
		if strings.HasPrefix(ans, "dead") && toks[0] == "crash" {
			fail("key_file_loadable", "restart-impossible", fmt.Sprintf("op %d: the key file cannot be loaded after a restart", i))
		}
		if toks[0] == "durability" && ans != "atomic=true synced=true" {
			fail("persist_before_release", "key-file-write-not-atomic-or-not-synced", "system calls of a signing call: "+ans)
		}
		switch toks[0] {
		case "signheartbeat", "signdata", "domains":
			cl, _ := hx.Arg(atoks, "clash")
			scl, _ := hx.Arg(atoks, "sigclash")
			_, raw := hx.Arg(toks, "raw")
			if !raw && strings.HasPrefix(ans, "ok ") || toks[0] == "domains" {
				if cl != "none" || (scl != "none" && scl != "") {
					fail("signing_domains_disjoint", "signing-domains-collide", fmt.Sprintf("op %d %q: sign-bytes of another signing domain equal / its signature verifies for vote or proposal payload (%s)", i, clipStr(op), ans))
				}
				if v, ok := hx.Arg(atoks, "valid"); ok && v != "true" {
					fail("released_signature_valid", "released-invalid-signature", fmt.Sprintf("op %d %q: %s", i, clipStr(op), ans))
				}
				if before != "" && prevDisk != "" && prevDisk != before {
					fail("signing_domains_disjoint", "unrecorded-call-changed-record", fmt.Sprintf("op %d %q changed the key file from %s to %s", i, clipStr(op), before, prevDisk))
				}
			}
			if raw && c.Tags["oracle-strict"] && strings.Contains(ans, "first=brace") && strings.Contains(ans, "valid=true") {
				fail("one_payload_per_hrs", "signdata-signing-oracle", fmt.Sprintf("op %d: SignData signed bytes that are the sign-bytes of a vote/proposal (%s)", i, ans))
			}
		case "loadbad":
			// only a file that lost or corrupted a NON-EMPTY last-signed record matters: with nothing signed yet there is
			// nothing a fresh start could sign twice
			nonEmpty := false
			for _, f := range atoks {
				if strings.HasPrefix(f, "good=loaded:") && strings.Contains(f, "/true/true:") {
					nonEmpty = true
				}
			}
			for _, f := range atoks {
				if !nonEmpty && !strings.HasPrefix(f, "good=") {
					continue
				}
				kv := strings.SplitN(f, "=", 2)
				if len(kv) != 2 {
					continue
				}
				switch kv[0] {
				case "empty", "truncated", "cuttail", "garbage", "nokey", "badsig", "dir":
					if kv[1] != "refused" {
						fail("key_file_loadable", "started-with-damaged-key-file", fmt.Sprintf("op %d: LoadOrGenFilePV on a %s key file answered %s (a validator without its last-signed record re-signs everything)", i, kv[0], kv[1]))
					}
				case "good":
					if !strings.HasPrefix(kv[1], "loaded:") || !strings.HasSuffix(kv[1], ":same") {
						fail("key_file_loadable", "restart-impossible", fmt.Sprintf("op %d: the intact key file did not load: %s", i, kv[1]))
					}
				}
			}
		}
		if toks[0] == "setrec" || toks[0] == "init" || toks[0] == "reset" {
			rels = nil // the harness rewrote the record by hand (like FilePV.Reset): history starts again
		}
		if toks[0] != "signvote" && toks[0] != "signprop" {
			if dh, _, _, ok := parseDisk(ans); ok {
				lastDisk = &dh
			} else {
				lastDisk = nil
			}
			continue
		}
		q := parseReq(toks)
		at := hrs{q.h, q.r, q.step()}
		wellformed := at.s > 0
		if strings.HasPrefix(ans, "panic") {
			if wellformed && !c.Tags["badrecord"] {
				fail("no_panic_wellformed", "panic-on-wellformed-request", fmt.Sprintf("op %d %q panicked (%s)", i, clipStr(op), ans))
			}
			lastDisk = nil
			continue
		}
		dh, dsb, dsig, haveDisk := parseDisk(ans)
		if q.fail != "" && before != "" && prevDisk != before {
			// under write-error injection the key file may change only into the COMPLETE new record
			sigTok, _ := hx.Arg(atoks, "sig")
			complete := strings.HasPrefix(ans, "ok ") && haveDisk && dh == at && dsig == sigTok && dsb == sigTok
			if !complete && !strings.HasPrefix(ans, "failed") {
				fail("failed_save_keeps_key_file", "key-file-write-not-atomic-or-not-synced",
					fmt.Sprintf("op %d %q: write errors were injected and the key file changed from %s to %s, which is not the complete new record (answer %q)", i, clipStr(op), before, prevDisk, clipStr(ans)))
			}
		}
		if strings.HasPrefix(ans, "ok ") {
			sig, _ := hx.Arg(atoks, "sig")
			ts, _ := hx.Arg(atoks, "ts")
			sbd, _ := hx.Arg(toks, "sb")
			rel := release{at: at, sig: sig, ts: ts, reqSB: sbd, reqTS: q.ts, nosave: q.nosave, op: i}
			if sig == "invalid" || sig == "nil" || sig == "unknown" || sig == "undecodable" {
				fail("released_signature_valid", "released-invalid-signature", fmt.Sprintf("op %d %q: the signature handed out verifies against no payload of this case (%s)", i, clipStr(op), sig))
			}
			if post, ok := hx.Arg(atoks, "post"); ok && post != sig && sig != "invalid" && sig != "nil" {
				fail("released_signature_signs_returned_vote", "released-signature-not-over-returned-vote",
					fmt.Sprintf("op %d %q: the vote handed back has sign-bytes #%s but carries a signature over payload #%s", i, clipStr(op), post, sig))
			}
			for _, p := range rels {
				bypass := p.nosave || rel.nosave
				if p.at == rel.at && p.sig != rel.sig {
					class := "two-payloads-same-hrs"
					if bypass {
						class = "signvote-without-save-bypass"
						if !c.Tags["nosave-strict"] {
							continue // SignVoteWithoutSave is outside the claim (no non-test caller: extracted fact); see Props.C04.C04_full_interface_counterexample
						}
					}
					fail("one_payload_per_hrs", class, fmt.Sprintf("HRS %d/%d/%d: op %d released a signature over payload #%s, op %d over payload #%s", at.h, at.r, at.s, p.op, p.sig, i, rel.sig))
					break
				}
				if rel.at.less(p.at) {
					class := "signed-below-signed-hrs"
					if bypass {
						class = "signvote-without-save-bypass"
						if !c.Tags["nosave-strict"] {
							continue
						}
					}
					fail("no_regression", class, fmt.Sprintf("op %d signed at %d/%d/%d after op %d had signed at %d/%d/%d", i, at.h, at.r, at.s, p.op, p.at.h, p.at.r, p.at.s))
					break
				}
			}
			// replay returns the original: same signature (above) and the request's timestamp (identical request)
			// or the original timestamp
			for _, p := range rels {
				if p.at == rel.at && p.sig == rel.sig && !(p.nosave || rel.nosave) {
					first := p
					if !(rel.ts == first.ts || (rel.reqSB == first.reqSB && rel.ts == rel.reqTS)) {
						fail("replay_returns_original", "replay-not-original", fmt.Sprintf("op %d: replay at %d/%d/%d returned timestamp %s, original %s", i, at.h, at.r, at.s, rel.ts, first.ts))
					}
					break
				}
			}
			// persist before release
			if !q.nosave {
				if !haveDisk || dh != at || dsig != sig || dsb != sig {
					fail("persist_before_release", "released-before-persisted", fmt.Sprintf("op %d %q: signature over payload #%s handed out while the key file records %v", i, clipStr(op), sig, ans[strings.Index(ans, "disk="):]))
				}
			}
			rels = append(rels, rel)
		} else if strings.HasPrefix(ans, "err=") {
			// progress: a request strictly above the recorded HRS must be served
			if lastDisk != nil && lastDisk.less(at) && wellformed {
				fail("fresh_request_served", "fresh-request-refused", fmt.Sprintf("op %d %q refused (%s) although the record is at %d/%d/%d", i, clipStr(op), ans, lastDisk.h, lastDisk.r, lastDisk.s))
			}
		}
		if haveDisk {
			lastDisk = &dh
		} else {
			lastDisk = nil
		}
	}
	return fs
}

func clipStr(s string) string {
	if len(s) > 90 {
		return s[:90] + "..."
	}
	return s
}
