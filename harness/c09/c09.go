// Package c09: correspondence + monitors for "state snapshots revert exactly / state copies are
// independent" against the real state.StateDB (journal, Copy, IntermediateRoot, Commit).
package c09

import (
	"bytes"
	"crypto/sha256"
	"fmt"
	"math/big"
	"os"
	"reflect"
	"sort"
	"strconv"
	"strings"
	"sync"
	"unsafe"

	"github.com/lianxiangcloud/linkchain/libs/common"
	"github.com/lianxiangcloud/linkchain/libs/crypto"
	dbm "github.com/lianxiangcloud/linkchain/libs/db"
	"github.com/lianxiangcloud/linkchain/libs/log"
	"github.com/lianxiangcloud/linkchain/state"
	"github.com/lianxiangcloud/linkchain/types"

	"lvharness/hx"
)

type P struct{}

// caseWithDump: whether the answer of the `case` op carries " | <dump>" (spec: `-> "ok"`, i.e. bare).
const caseWithDump = false

// kvGhostStorage: the flat kv backend keys storage by addrHash||keyhash without a root indirection, so the storage of a
// deleted/overwritten account survives and a re-created account reads the OLD storage (monitor fresh_account_clean, class
// kv-storage-ghost).  When false the generator avoids the situation in mode 3: del=0 for the whole case, `setstate` only on
// the "storage addresses" 0,1,2 and never `suicide`/`create` on them.  When true mode 3 is unrestricted.
const kvGhostStorage = false

const (
	nAddr = 6
	nTok  = 4
	nKey  = 4
	nTx   = 3
	nPre  = 3
	site  = "state/statedb.go"
)

func (P) Rule() string {
	return "cases: op sequences against real state.StateDB values over a fixed universe (6 addresses, native balance + 3 tokens, 4 storage keys, 3 tx ids), " +
		"3 preimage keys; backend mode 0 (trie) / 1 (kv wrapper over trie, cache 128) / 2 (plain kv) / 3 (plain kv with the undo log kvState.wal in a temp dir), " +
		"weights 40/20/15 for the kinds below and 1|3 50/50 for `blocks`; 2..6 addresses, 1..3 tokens, 10..60 ops; kinds: " +
		"blocks 25% (modes 1,3; handle 0; 2..5(+2) blocks of 3..12 ops on 2..4 addresses, each ended by [root,] commit and then reopen or reset to that commit; rollback (sometimes twice, sometimes at height 0) " +
		"at 50% of the block boundaries, re-creation of accounts suicided before the previous commit), and of the rest: " +
		"journal 35% (handle 0, nested snapshots, revert to a random OPEN id, root/commit sprinkled in modes 0,1), " +
		"copies 35% (up to 4 live handles, copy-of-copy, copies taken while the source holds dirty token accounts, later token ops on the same (addr,token) on either side), " +
		"twin 20% (mode 0: journal case on handle 0, then the effective op list - reverted ops and snap/revert removed - re-issued on a fresh handle 9, then root on both), " +
		"malformed 10% (invalid/invalidated revert ids, subrefund above the counter, unknown handles, copy onto a live handle, optionally negative balances); " +
		"reset (to an earlier commit of the same database / the empty root / 5% a bad root) 2% of ops in modes 0,1; after reset/reopen/rollback occasionally a revert to an id issued before it (expected panic, tag malformed); " +
		"mutator mix setcredits 3 addpreimage 3 addbal 10 subbal 5 setbal 4 addtok 14 subtok 6 settok 6 setnonce 6 setcode 5 setstate 10 create 4 suicide 4 addlog 4 addrefund 3 subrefund 1 prepare 2 snap 10 revert 6; " +
		"amounts 0 / 1..9 / 100..999 / 2^64+small; every answer carries the getter dump of ALL live handles; " +
		"layered values: for one storage slot / token / code / preimage / whole account the classes {absent, cleared, non-empty} are crossed over the layers {committed or origin-cached, dirty before the snapshot, dirty after it}, then snapshot-write-revert and a root (all modes; mode 2 commits only with a single handle); " +
		"non-trivial = (a successful revert after a mutation, or a copy followed by a mutation, or (blocks) a rollback at a height > 0 that can roll back) AND at least one revert crossed an empty-over-non-empty layering; distinct = distinct op sequence"
}

// ---- universe ------------------------------------------------------------------------------

var (
	uAddr [nAddr]common.Address
	uTok  [nTok]common.Address
	uKey  [nKey]common.Hash
	uTx   [nTx]common.Hash
	uPre  [nPre]common.Hash
	uBad  common.Hash
	quiet sync.Once
)

func init() {
	for i := 0; i < nAddr; i++ {
		h := sha256.Sum256([]byte("c09-addr-" + strconv.Itoa(i)))
		uAddr[i] = common.BytesToAddress(h[:20])
	}
	uTok[0] = common.EmptyAddress
	for t := 1; t < nTok; t++ {
		h := sha256.Sum256([]byte("c09-tok-" + strconv.Itoa(t)))
		uTok[t] = common.BytesToAddress(h[:20])
	}
	for k := 0; k < nKey; k++ {
		h := sha256.Sum256([]byte("c09-key-" + strconv.Itoa(k)))
		uKey[k] = common.BytesToHash(h[:])
	}
	uTx[0] = common.Hash{}
	for x := 1; x < nTx; x++ {
		h := sha256.Sum256([]byte("c09-tx-" + strconv.Itoa(x)))
		uTx[x] = common.BytesToHash(h[:])
	}
	for p := 0; p < nPre; p++ {
		h := sha256.Sum256([]byte("c09-pre-" + strconv.Itoa(p)))
		uPre[p] = common.BytesToHash(h[:])
	}
	hb := sha256.Sum256([]byte("c09-bad-root"))
	uBad = common.BytesToHash(hb[:])
}

// ---- executor ------------------------------------------------------------------------------

// dirDB gives a MemDB a directory (mode 3: the undo log kvState.wal lives in db.Dir()).
type dirDB struct {
	*dbm.MemDB
	dir string
}

func (d dirDB) Dir() string { return d.dir }

var _ dbm.DB = dirDB{}

// dbInfo is the per-database bookkeeping shared by a handle and its copies.
type dbInfo struct {
	raw    dbm.DB
	height uint64 // block store height
	rootAt map[uint64]common.Hash
	// mode 3: byte-level ground truth for the undo log: digest of the underlying MemDB right after the commit that made height k
	digestAt map[uint64][32]byte
}

var codeBlobKeys = func() map[string]bool {
	m := map[string]bool{}
	for _, c := range codes {
		m[string(crypto.Keccak256(hx.UnHex(c)))] = true
	}
	return m
}()

// dbDigest: sha256 over the sorted (key,value) pairs of the MemDB, excluding the stored kv height ("kvh") and the code
// blobs (written with InsertBlob outside the undo log).
func dbDigest(raw dbm.DB) [32]byte {
	var m *dbm.MemDB
	switch d := raw.(type) {
	case dirDB:
		m = d.MemDB
	case *dbm.MemDB:
		m = d
	}
	var keys []string
	if m != nil {
		for _, k := range m.Keys() {
			if string(k) == "kvh" || codeBlobKeys[string(k)] {
				continue
			}
			keys = append(keys, string(k))
		}
	}
	sort.Strings(keys)
	h := sha256.New()
	var n [8]byte
	put := func(b []byte) {
		for i := 0; i < 8; i++ {
			n[i] = byte(len(b) >> (8 * uint(i)))
		}
		h.Write(n[:])
		h.Write(b)
	}
	for _, k := range keys {
		put([]byte(k))
		put(m.Get([]byte(k)))
	}
	var out [32]byte
	copy(out[:], h.Sum(nil))
	return out
}

type exec struct {
	started bool
	mode    int
	h       map[int]*state.StateDB
	dbs     map[int]*dbInfo
	classes []common.Hash
	commits []common.Hash // roots of the successful commit ops of the case, in order of execution
}

// Temp directories and Database objects of the running case (package level: hx makes one executor per
// case); removed/closed at the next `case` op or NewExec.
var (
	tmpDirs []string
	openDBs []state.Database
)

func cleanupTemp() {
	for _, db := range openDBs {
		closeWAL(db)
	}
	openDBs = nil
	for _, d := range tmpDirs {
		os.RemoveAll(d)
	}
	tmpDirs = nil
}

// closeWAL closes the (unexported) wal file of a kv Database, if it has one.
func closeWAL(db state.Database) {
	defer func() { recover() }()
	v := reflect.ValueOf(db)
	if v.Kind() != reflect.Ptr || v.Elem().Kind() != reflect.Struct {
		return
	}
	f := v.Elem().FieldByName("wal")
	if !f.IsValid() || !f.CanAddr() {
		return
	}
	if fp, ok := reflect.NewAt(f.Type(), unsafe.Pointer(f.UnsafeAddr())).Elem().Interface().(*os.File); ok && fp != nil {
		fp.Close()
	}
}

func (P) NewExec() hx.Executor {
	quiet.Do(func() { log.Root().SetHandler(log.DiscardHandler()) })
	cleanupTemp()
	return &exec{}
}

func (e *exec) newRaw() *dbInfo {
	var raw dbm.DB = dbm.NewMemDB()
	if e.mode == 3 {
		dir, err := os.MkdirTemp(".", "c09kv")
		if err != nil {
			panic("harness: MkdirTemp: " + err.Error())
		}
		tmpDirs = append(tmpDirs, dir)
		raw = dirDB{dbm.NewMemDB(), dir}
	}
	info := &dbInfo{raw: raw, rootAt: map[uint64]common.Hash{}, digestAt: map[uint64][32]byte{}}
	if e.mode == 3 {
		info.digestAt[0] = dbDigest(raw)
	}
	return info
}

// openDB builds a new Database object of the case's mode over the underlying db at its current height.
func (e *exec) openDB(info *dbInfo) state.Database {
	var db state.Database
	switch e.mode {
	case 0:
		db = state.NewDatabase(info.raw)
	case 1:
		db = state.NewKeyValueDBWithCache(info.raw, 128, true, info.height)
	case 2:
		db = state.NewKeyValueDBWithCache(info.raw, 0, false, info.height)
	default:
		db = state.NewKeyValueDBWithCache(info.raw, 128, false, info.height)
	}
	openDBs = append(openDBs, db)
	return db
}

// openState: a new StateDB over a new Database object at the current height of the underlying db.
func (e *exec) openState(info *dbInfo) (*state.StateDB, error) {
	root := common.EmptyHash
	if e.mode <= 1 {
		root = info.rootAt[info.height]
	}
	return state.New(root, e.openDB(info))
}

func (e *exec) newState() (*state.StateDB, *dbInfo) {
	info := e.newRaw()
	s, err := e.openState(info)
	if err != nil {
		panic("harness: state.New: " + err.Error())
	}
	return s, info
}

func argInt(toks []string, key string, lo, hi int) (int, bool) {
	v, ok := hx.Arg(toks, key)
	if !ok {
		return 0, false
	}
	n, err := strconv.Atoi(v)
	if err != nil || n < lo || n > hi {
		return 0, false
	}
	return n, true
}

func argBig(toks []string, key string) (*big.Int, bool) {
	v, ok := hx.Arg(toks, key)
	if !ok || v == "" {
		return nil, false
	}
	return new(big.Int).SetString(v, 10)
}

func argHex(toks []string, key string) ([]byte, bool) {
	v, ok := hx.Arg(toks, key)
	if !ok || v == "" {
		return nil, false
	}
	if v == "-" {
		return []byte{}, true
	}
	if len(v)%2 != 0 {
		return nil, false
	}
	for _, c := range v {
		if !(c >= '0' && c <= '9' || c >= 'a' && c <= 'f' || c >= 'A' && c <= 'F') {
			return nil, false
		}
	}
	return hx.UnHex(v), true
}

const maxInt = int(^uint(0) >> 1)

// flushMaxMode: after a successful Commit the harness calls TrieDB().Commit(root,false) in modes <= this
// (mode 0 and the trie-backed kv wrapper of mode 1, as app.go does; without it a `reopen` cannot find the root).
const flushMaxMode = 1

func (e *exec) class(r common.Hash) string {
	if e.mode != 0 {
		return "class=na"
	}
	for i, c := range e.classes {
		if c == r {
			return fmt.Sprintf("class=%d", i)
		}
	}
	e.classes = append(e.classes, r)
	return fmt.Sprintf("class=%d", len(e.classes)-1)
}

func (e *exec) Exec(op string) string {
	toks := hx.Tokens(op)
	if len(toks) == 0 {
		return "bad-op"
	}
	if toks[0] == "case" {
		m, ok := argInt(toks, "mode", 0, 3)
		if !ok {
			return "bad-op"
		}
		cleanupTemp()
		e.started = true
		e.mode = m
		e.classes = nil
		e.commits = nil
		e.h = map[int]*state.StateDB{}
		e.dbs = map[int]*dbInfo{}
		e.h[0], e.dbs[0] = e.newState()
		if caseWithDump {
			return "ok | " + e.dumpAll(nil)
		}
		return "ok"
	}
	if !e.started {
		return "bad-op"
	}
	res := e.step(toks)
	if res == "bad-op" {
		return res
	}
	return res + " | " + e.dumpAll(toks)
}

// step performs one op (not `case`) and returns <res> or "bad-op".  All arguments are validated before
// anything is touched; a panic of the implementation propagates to hx.SafeExec.
func (e *exec) step(toks []string) string {
	const bad = "bad-op"
	hid, ok := argInt(toks, "h", 0, maxInt)
	if !ok {
		return bad
	}
	name := toks[0]
	if name == "new" {
		if _, used := e.h[hid]; used {
			return bad
		}
		e.h[hid], e.dbs[hid] = e.newState()
		return "ok"
	}
	s, live := e.h[hid]
	if !live {
		return bad
	}
	info := e.dbs[hid]
	needA := func() (common.Address, bool) {
		a, ok := argInt(toks, "a", 0, nAddr-1)
		if !ok {
			return common.Address{}, false
		}
		return uAddr[a], true
	}
	needT := func() (common.Address, bool) {
		t, ok := argInt(toks, "t", 0, nTok-1)
		if !ok {
			return common.Address{}, false
		}
		return uTok[t], true
	}
	switch name {
	case "addbal", "subbal", "subbalx", "setbal":
		a, ok1 := needA()
		v, ok2 := argBig(toks, "v")
		if !ok1 || !ok2 {
			return bad
		}
		switch name {
		case "addbal":
			s.AddBalance(a, v)
		case "subbal":
			if s.GetBalance(a).Cmp(v) < 0 {
				return "skip"
			}
			s.SubBalance(a, v)
		case "subbalx":
			s.SubBalance(a, v)
		case "setbal":
			s.SetBalance(a, v)
		}
		return "ok"
	case "addtok", "subtok", "subtokx", "settok":
		a, ok1 := needA()
		t, ok2 := needT()
		v, ok3 := argBig(toks, "v")
		if !ok1 || !ok2 || !ok3 {
			return bad
		}
		switch name {
		case "addtok":
			s.AddTokenBalance(a, t, v)
		case "subtok":
			if s.GetTokenBalance(a, t).Cmp(v) < 0 {
				return "skip"
			}
			s.SubTokenBalance(a, t, v)
		case "subtokx":
			s.SubTokenBalance(a, t, v)
		case "settok":
			s.SetTokenBalance(a, t, v)
		}
		return "ok"
	case "setnonce":
		a, ok1 := needA()
		nv, ok2 := hx.Arg(toks, "n")
		n, err := strconv.ParseUint(nv, 10, 64)
		if !ok1 || !ok2 || err != nil {
			return bad
		}
		s.SetNonce(a, n)
		return "ok"
	case "setcode":
		a, ok1 := needA()
		code, ok2 := argHex(toks, "code")
		if !ok1 || !ok2 {
			return bad
		}
		s.SetCode(a, code)
		return "ok"
	case "setstate":
		a, ok1 := needA()
		k, ok2 := argInt(toks, "k", 0, nKey-1)
		v, ok3 := argHex(toks, "v")
		if !ok1 || !ok2 || !ok3 {
			return bad
		}
		s.SetState(a, uKey[k], v)
		return "ok"
	case "create":
		a, ok1 := needA()
		if !ok1 {
			return bad
		}
		s.CreateAccount(a)
		return "ok"
	case "suicide":
		a, ok1 := needA()
		if !ok1 {
			return bad
		}
		return fmt.Sprintf("ret=%v", s.Suicide(a))
	case "addlog":
		d, ok1 := argInt(toks, "d", 0, 255)
		if !ok1 {
			return bad
		}
		s.AddLog(&types.Log{Address: uAddr[0], Data: []byte{byte(d)}})
		return "ok"
	case "addrefund", "subrefund":
		gv, ok1 := hx.Arg(toks, "g")
		g, err := strconv.ParseUint(gv, 10, 64)
		if !ok1 || err != nil {
			return bad
		}
		if name == "addrefund" {
			s.AddRefund(g)
		} else {
			s.SubRefund(g)
		}
		return "ok"
	case "prepare":
		x, ok1 := argInt(toks, "x", 0, nTx-1)
		i, ok2 := argInt(toks, "i", 0, maxInt)
		if !ok1 || !ok2 {
			return bad
		}
		s.Prepare(uTx[x], common.Hash{}, i)
		return "ok"
	case "snap":
		return fmt.Sprintf("id=%d", s.Snapshot())
	case "revert":
		id, ok1 := argInt(toks, "id", -maxInt, maxInt)
		if !ok1 {
			return bad
		}
		s.RevertToSnapshot(id)
		return "ok"
	case "copy":
		to, ok1 := argInt(toks, "to", 0, maxInt)
		if !ok1 {
			return bad
		}
		if _, used := e.h[to]; used {
			return bad
		}
		e.h[to] = s.Copy()
		e.dbs[to] = info
		return "ok"
	case "root":
		del, ok1 := argInt(toks, "del", 0, 1)
		if !ok1 {
			return bad
		}
		r := s.IntermediateRoot(del == 1)
		return e.class(r)
	case "commit":
		del, ok1 := argInt(toks, "del", 0, 1)
		if !ok1 {
			return bad
		}
		r, err := s.Commit(del == 1, info.height+1)
		if err != nil {
			return "err"
		}
		info.height++
		info.rootAt[info.height] = r
		e.commits = append(e.commits, r)
		if e.mode == 3 {
			info.digestAt[info.height] = dbDigest(info.raw)
		}
		if e.mode <= flushMaxMode {
			_ = s.Database().TrieDB().Commit(r, false)
		}
		return e.class(r)
	case "setcredits":
		a, ok1 := needA()
		nv, ok2 := hx.Arg(toks, "n")
		n, err := strconv.ParseUint(nv, 10, 64)
		if !ok1 || !ok2 || err != nil {
			return bad
		}
		s.SetCredits(a, n)
		return "ok"
	case "addpreimage":
		p, ok1 := argInt(toks, "p", 0, nPre-1)
		d, ok2 := argHex(toks, "d")
		if !ok1 || !ok2 {
			return bad
		}
		s.AddPreimage(uPre[p], d)
		return "ok"
	case "reset":
		tv, ok1 := hx.Arg(toks, "to")
		if !ok1 {
			return bad
		}
		var root common.Hash
		switch tv {
		case "-":
			root = common.EmptyHash
		case "bad":
			root = uBad
		default:
			j, err := strconv.Atoi(tv)
			if err != nil || j < 0 || j >= len(e.commits) {
				return bad
			}
			root = e.commits[j]
		}
		if err := s.Reset(root); err != nil {
			return "err"
		}
		return "ok"
	case "reopen", "rollback":
		res := "ok"
		if name == "rollback" {
			rolled := false
			if state.CanRollBackOneBlock(info.raw, info.height) {
				info.height--
				rolled = true
			}
			res = fmt.Sprintf("rolled=%v", rolled)
		}
		ns, err := e.openState(info)
		if err != nil {
			return "err"
		}
		e.h[hid] = ns
		if name == "rollback" {
			switch want, known := info.digestAt[info.height]; {
			case e.mode != 3:
				res += " db=na"
			case known && want == dbDigest(info.raw):
				res += " db=same"
			default:
				res += " db=diff"
			}
		}
		return res
	}
	return bad
}

// ---- dump ----------------------------------------------------------------------------------

// dumpAll dumps every live handle.  The extra getter sanity check of a NON-existing account (which costs ~30
// trie lookups and never changes the output unless it fails) is made on the handles the op acted on (h=, to=),
// and there for the op's own address (a=) or, for ops without an address that can change accounts
// (revert, root, commit, reset, reopen, rollback, copy, new), for all addresses.
func (e *exec) dumpAll(toks []string) string {
	acting := map[int]bool{}
	addr := -1
	if toks == nil {
		for id := range e.h {
			acting[id] = true
		}
	} else {
		if h, ok := argInt(toks, "h", 0, maxInt); ok {
			acting[h] = true
		}
		if toks[0] == "copy" {
			if t, ok := argInt(toks, "to", 0, maxInt); ok {
				acting[t] = true
			}
		}
		if a, ok := argInt(toks, "a", 0, nAddr-1); ok {
			addr = a
		} else {
			switch toks[0] {
			case "snap", "addlog", "addrefund", "subrefund", "prepare", "addpreimage":
				addr = nAddr // ops that do not touch accounts: no full check at all
			}
		}
	}
	ids := make([]int, 0, len(e.h))
	for id := range e.h {
		ids = append(ids, id)
	}
	sort.Ints(ids)
	parts := make([]string, len(ids))
	for i, id := range ids {
		parts[i] = dumpState(id, e.h[id], acting[id], addr)
	}
	return strings.Join(parts, " ")
}

func dumpState(id int, s *state.StateDB, acting bool, addr int) string {
	var b strings.Builder
	fmt.Fprintf(&b, "h%d[r=%d;L=", id, s.GetRefund())
	for x := 0; x < nTx; x++ {
		if x > 0 {
			b.WriteByte('|')
		}
		for i, l := range s.GetLogs(uTx[x]) {
			if i > 0 {
				b.WriteByte(',')
			}
			d := -1
			if len(l.Data) > 0 {
				d = int(l.Data[0])
			}
			fmt.Fprintf(&b, "%d.%d.%d", d, l.Index, l.TxIndex)
		}
	}
	fmt.Fprintf(&b, ";n=%d;P=", len(s.Logs()))
	pre := s.Preimages()
	known := 0
	for p := 0; p < nPre; p++ {
		if p > 0 {
			b.WriteByte('|')
		}
		if v, ok := pre[uPre[p]]; ok {
			known++
			b.WriteString(hx.Hex(v))
		} else {
			b.WriteByte('.')
		}
	}
	if len(pre) != known {
		b.WriteByte('!')
	}
	b.WriteByte(';')
	for a := 0; a < nAddr; a++ {
		if a > 0 {
			b.WriteByte('/')
		}
		b.WriteString(dumpAcct(s, uAddr[a], acting && (addr < 0 || addr == a)))
	}
	b.WriteByte(']')
	return b.String()
}

func tokIdx(t common.Address) int {
	for i := 0; i < nTok; i++ {
		if uTok[i] == t {
			return i
		}
	}
	return -1
}

func dumpAcct(s *state.StateDB, a common.Address, fullCheck bool) string {
	if !s.Exist(a) {
		if !fullCheck {
			return "-"
		}
		ok := s.GetBalance(a).Sign() == 0
		for t := 0; t < nTok; t++ {
			ok = ok && s.GetTokenBalance(a, uTok[t]).Sign() == 0
		}
		ok = ok && s.GetNonce(a) == 0 && s.GetCredits(a) == 0 && len(s.GetCode(a)) == 0 && s.GetCodeSize(a) == 0
		ok = ok && s.GetCodeHash(a) == (common.Hash{}) && s.Empty(a) && !s.HasSuicided(a) && len(s.GetTokenBalances(a)) == 0
		for k := 0; k < nKey; k++ {
			ok = ok && len(s.GetState(a, uKey[k])) == 0
		}
		for k := 0; k < nKey; k++ {
			ok = ok && len(s.GetCommittedState(a, uKey[k])) == 0
		}
		ok = ok && !s.IsContract(a) && len(s.GetContractCode(a[:])) == 0 && s.GetAccount(a) == nil
		if !ok {
			return "-!"
		}
		return "-"
	}
	bal := s.GetBalance(a)
	balS := bal.String()
	if s.GetTokenBalance(a, uTok[0]).Cmp(bal) != 0 {
		balS += "!"
	}
	tb := make([]string, 0, 3)
	for t := 1; t < nTok; t++ {
		tb = append(tb, s.GetTokenBalance(a, uTok[t]).String())
	}
	tvs := s.GetTokenBalances(a)
	type ent struct {
		idx int
		s   string
	}
	ents := make([]ent, 0, len(tvs))
	for _, tv := range tvs {
		i := tokIdx(tv.TokenAddr)
		if i < 0 {
			ents = append(ents, ent{nTok, "?=" + tv.Value.String()})
		} else {
			ents = append(ents, ent{i, fmt.Sprintf("%d=%s", i, tv.Value.String())})
		}
	}
	sort.SliceStable(ents, func(i, j int) bool { return ents[i].idx < ents[j].idx })
	TB := "-"
	if len(ents) > 0 {
		ss := make([]string, len(ents))
		for i, en := range ents {
			ss[i] = en.s
		}
		TB = strings.Join(ss, "+")
	}
	code := s.GetCode(a)
	ch := "X"
	if s.GetCodeHash(a) == crypto.Keccak256Hash(code) {
		ch = "K"
	}
	size := s.GetCodeSize(a)
	st := make([]string, nKey)
	for k := 0; k < nKey; k++ {
		st[k] = hx.Hex(s.GetState(a, uKey[k]))
	}
	f := ""
	if s.HasSuicided(a) {
		f += "S"
	}
	if s.Empty(a) {
		f += "E"
	}
	if f == "" {
		f = "-"
	}
	nonce, credits := s.GetNonce(a), s.GetCredits(a)
	cst := make([]string, nKey)
	for k := 0; k < nKey; k++ {
		cst[k] = hx.Hex(s.GetCommittedState(a, uKey[k]))
	}
	x := "-"
	if s.IsContract(a) {
		x = "I"
	}
	cc := s.GetContractCode(a[:])
	if !bytes.Equal(cc, code) || s.GetAccount(a) == nil {
		x += "!"
	}
	return fmt.Sprintf("%d,%d,%s,%s,%s,%s,%s,%d,%s,%s,%s,%s", nonce, credits, balS, strings.Join(tb, ":"), TB,
		hx.Hex(code), ch, size, strings.Join(st, ":"), f, strings.Join(cst, ":"), x)
}

// ---- monitors ------------------------------------------------------------------------------

// splitAnswer returns the result part and the per-handle dumps (id -> dump body without the "h<id>" prefix).
func splitAnswer(ans string) (res string, dumps map[int]string, ok bool) {
	if ans == "bad-op" || strings.HasPrefix(ans, "panic") {
		return ans, nil, false
	}
	i := strings.Index(ans, " | ")
	if i < 0 {
		return ans, nil, false
	}
	res = ans[:i]
	dumps = map[int]string{}
	for _, part := range strings.Fields(ans[i+3:]) {
		j := strings.Index(part, "[")
		if !strings.HasPrefix(part, "h") || j < 2 {
			continue
		}
		id, err := strconv.Atoi(part[1:j])
		if err != nil {
			continue
		}
		dumps[id] = part[j:]
	}
	return res, dumps, true
}

var acctFieldNames = []string{"nonce", "credits", "bal", "tb", "TB", "code", "CH", "size", "st", "F", "cst", "X"}

// diffDump lists the differing fields of two handle dump bodies ("[r=..;L=..;a0/../a5]") as
// "name: old -> new" strings; the name of an account field is "a<i>.<field>".
func diffDump(x, y string) (names []string, msgs []string) {
	add := func(n, a, b string) {
		names = append(names, n)
		msgs = append(msgs, fmt.Sprintf("%s: %s -> %s", n, a, b))
	}
	if x == y {
		return
	}
	px := strings.Split(strings.Trim(x, "[]"), ";")
	py := strings.Split(strings.Trim(y, "[]"), ";")
	if len(px) != 5 || len(py) != 5 {
		add("dump", x, y)
		return
	}
	for k, n := range []string{"r", "L", "n", "P"} {
		if px[k] != py[k] {
			add(n, px[k], py[k])
		}
	}
	ax, ay := strings.Split(px[4], "/"), strings.Split(py[4], "/")
	if len(ax) != len(ay) {
		add("accts", px[4], py[4])
		return
	}
	for i := range ax {
		if ax[i] == ay[i] {
			continue
		}
		fx, fy := strings.Split(ax[i], ","), strings.Split(ay[i], ",")
		if len(fx) != len(acctFieldNames) || len(fy) != len(acctFieldNames) {
			add(fmt.Sprintf("a%d", i), ax[i], ay[i])
			continue
		}
		for k := range fx {
			if fx[k] != fy[k] {
				add(fmt.Sprintf("a%d.%s", i, acctFieldNames[k]), fx[k], fy[k])
			}
		}
	}
	return
}

func tokenOnly(names []string) bool {
	if len(names) == 0 {
		return false
	}
	for _, n := range names {
		if !strings.HasSuffix(n, ".tb") && !strings.HasSuffix(n, ".TB") {
			return false
		}
	}
	return true
}

type snapKey struct{ h, id int }

// resetObjectOnly: non-token account fields differ, and every account with a differing non-token field
// had an earlier successful `create` on the source handle h (the copy misses the reset object).
func resetObjectOnly(names []string, h int, created map[snapKey]bool) bool {
	found := false
	for _, n := range names {
		if strings.HasSuffix(n, ".tb") || strings.HasSuffix(n, ".TB") {
			continue
		}
		if len(n) < 2 || n[0] != 'a' || n[1] < '0' || n[1] > '9' {
			return false
		}
		if !created[snapKey{h, int(n[1] - '0')}] {
			return false
		}
		found = true
	}
	return found
}

// zeroEntryShape decides FROM THE OP LINES (and the ops' own result words) whether a twin case contains the defining shape of the
// recorded finding revert-leaves-zero-token-entry on handle 0: a RevertToSnapshot whose reverted region contains
//
//	(1) a token credit / SetTokenBalance (addtok v!=0, settok; token != native) to an (account, token) pair that had no entry when
//	    it was written (SetTokenBalance inserts Tokens[t]=0 before journalling; the undo writes the 0 back), or
//	(2) a successful suicide of an account holding token entries (suicideChange.revert re-installs only the positive ones: the
//	    mirror image of the same un-journalled zero entries).
//
// "has an entry" is tracked conservatively where the op lines cannot tell: towards ABSENT for (1) (after suicide/create of the account,
// after a root/commit with deleteEmptyObjects or of a suicided account, after reset/reopen), towards PRESENT for (2) (the account ever
// received a token write).  Returns "" if the shape is absent.
func zeroEntryShape(ops, impl []string) string {
	type ev struct {
		kind   int // 0 token write, 1 map cleared (suicide / create)
		a, t   int
		absent bool
		held   bool // kind 1: the account held entries
	}
	type frame struct {
		id      int
		start   int
		present map[pair]bool
	}
	present := map[pair]bool{}
	var evs []ev
	var frames []frame
	suicided := map[int]bool{}
	everTok := map[int]bool{} // accounts that ever received a token write: for shape (2) presence is over-approximated
	clearAcct := func(a int) {
		for p := range present {
			if p.a == a {
				delete(present, p)
			}
		}
	}
	holds := func(a int) bool {
		for p := range present {
			if p.a == a {
				return true
			}
		}
		return false
	}
	shape := ""
	for i, op := range ops {
		if i >= len(impl) {
			break
		}
		toks := hx.Tokens(op)
		if len(toks) == 0 {
			continue
		}
		name := toks[0]
		if name == "new" {
			break // the twin's replay starts here
		}
		if h, ok := argInt(toks, "h", 0, maxInt); !ok || h != 0 {
			continue
		}
		res, _, ok := splitAnswer(impl[i])
		if !ok {
			continue // panic / bad-op: nothing happened
		}
		a, _ := argInt(toks, "a", 0, nAddr-1)
		switch name {
		case "snap":
			id, err := strconv.Atoi(strings.TrimPrefix(res, "id="))
			if err != nil {
				continue
			}
			cp := make(map[pair]bool, len(present))
			for p := range present {
				cp[p] = true
			}
			frames = append(frames, frame{id, len(evs), cp})
		case "revert":
			id, _ := argInt(toks, "id", 0, maxInt)
			j := -1
			for k := range frames {
				if frames[k].id == id {
					j = k
				}
			}
			if j < 0 || res != "ok" {
				continue
			}
			region := evs[frames[j].start:]
			present = frames[j].present
			for _, e := range region {
				if e.kind == 1 {
					if e.held && shape == "" {
						shape = fmt.Sprintf("op %d reverts a suicide/create of token holder a%d", i, e.a)
					}
					clearAcct(e.a)
				}
			}
			for _, e := range region {
				if e.kind == 0 {
					if e.absent {
						shape = fmt.Sprintf("op %d reverts a token credit to (a%d, t%d), which had no entry", i, e.a, e.t)
					}
					present[pair{e.a, e.t}] = true
				}
			}
			evs = evs[:frames[j].start]
			frames = frames[:j]
		case "addtok", "settok", "subtok":
			t, _ := argInt(toks, "t", 0, nTok-1)
			v, _ := hx.Arg(toks, "v")
			if t == 0 || res != "ok" || (name != "settok" && v == "0") {
				continue
			}
			p := pair{a, t}
			evs = append(evs, ev{kind: 0, a: a, t: t, absent: !present[p] && name != "subtok"})
			present[p] = true
			everTok[a] = true
		case "suicide":
			if res != "ret=true" {
				continue
			}
			evs = append(evs, ev{kind: 1, a: a, held: holds(a) || everTok[a]})
			clearAcct(a)
			suicided[a] = true
		case "create":
			// a reset object starts with a fresh map; reverting it brings the old map back as it was: no zero-entry effect
			evs = append(evs, ev{kind: 1, a: a, held: false})
			clearAcct(a)
		case "root", "commit":
			d, _ := argInt(toks, "del", 0, 1)
			if d == 1 {
				present = map[pair]bool{}
			}
			for x := range suicided {
				clearAcct(x)
			}
			suicided = map[int]bool{}
			evs, frames = nil, nil
		case "reset", "reopen", "rollback":
			present = map[pair]bool{}
			suicided = map[int]bool{}
			evs, frames = nil, nil
		}
	}
	return shape
}

const cleanHeader = "r=0;L=||;n=0;P=.|.|."

// splitDump splits a handle dump body "[r=..;L=..;n=..;P=..;a0/../a5]" into the header part and the account part.
func splitDump(d string) (header, accts string, ok bool) {
	d = strings.TrimSuffix(strings.TrimPrefix(d, "["), "]")
	i := strings.LastIndex(d, ";")
	if i < 0 {
		return "", "", false
	}
	return d[:i], d[i+1:], true
}

// diffAccts diffs two account parts with diffDump's field names.
func diffAccts(x, y string) (names []string, msgs []string) {
	return diffDump("["+cleanHeader+";"+x+"]", "["+cleanHeader+";"+y+"]")
}

// allCreated: every differing field belongs to an account that had an earlier successful `create` on handle h.
func allCreated(names []string, h int, created map[snapKey]bool) bool {
	for _, n := range names {
		if len(n) < 2 || n[0] != 'a' || n[1] < '0' || n[1] > '9' || !created[snapKey{h, int(n[1] - '0')}] {
			return false
		}
	}
	return len(names) > 0
}

func (P) Monitor(c *hx.CaseRun) []hx.Failure {
	var fs []hx.Failure
	seen := map[string]bool{} // at most one failure per (monitor, class) per case
	failAt := func(mon, class, at, msg string) {
		if seen[mon+"/"+class] {
			return
		}
		seen[mon+"/"+class] = true
		fs = append(fs, hx.Failure{Monitor: mon, Class: class, Site: at, Msg: msg})
	}
	fail := func(mon, class, msg string) { failAt(mon, class, site, msg) }
	mode := -1
	snaps := map[snapKey]string{}
	copied := map[int]bool{}      // handles that were the source or the target of an earlier successful copy
	created := map[snapKey]bool{} // (handle, address) of earlier successful `create` ops over an existing account, not dirtied again since
	openSnaps := map[int]int{}    // snapshots taken on a handle since its last root/commit/reset (a later mutator might still be reverted)
	// M8: snapshot ids issued before / since the latest successful reset/reopen/rollback of a handle
	issuedBefore, issuedSince := map[snapKey]bool{}, map[snapKey]bool{}
	// M6/M7 (tag blocks, handle 0)
	noAccts := strings.TrimSuffix(strings.Repeat("-/", nAddr), "/")
	committed := map[int]string{0: noAccts}
	height, nCommits := 0, 0
	lastCommitAt, lastCommitAccts := -1, "" // op index / account part of the latest successful commit of handle 0
	var prev map[int]string
	for i, op := range c.Ops {
		if i >= len(c.Impl) {
			break
		}
		ans := c.Impl[i]
		toks := hx.Tokens(op)
		if len(toks) == 0 {
			continue
		}
		name := toks[0]
		if name == "case" {
			mode, _ = argInt(toks, "mode", 0, 3)
			snaps = map[snapKey]string{}
			copied = map[int]bool{}
			created = map[snapKey]bool{}
			issuedBefore, issuedSince = map[snapKey]bool{}, map[snapKey]bool{}
			committed = map[int]string{0: noAccts}
			height, nCommits = 0, 0
			lastCommitAt, lastCommitAccts = -1, ""
			prev = nil
			if _, d, ok := splitAnswer(ans); ok {
				prev = d
			}
			continue
		}
		// M5
		if strings.HasPrefix(ans, "panic") && !c.Tags["malformed"] {
			ps := strings.TrimSpace(strings.TrimPrefix(ans, "panic"))
			fail("no_panic", "panic:"+ps, fmt.Sprintf("op %d %q panicked in a well-formed case: %s", i, op, ans))
		}
		res, cur, ok := splitAnswer(ans)
		if !ok {
			continue
		}
		h, hasH := argInt(toks, "h", 0, maxInt)
		if !hasH {
			prev = cur
			continue
		}
		acting := map[int]bool{h: true}
		to := -1
		if name == "copy" {
			if t, ok := argInt(toks, "to", 0, maxInt); ok {
				to = t
				acting[t] = true
			}
		}
		// M2
		ids := make([]int, 0, len(cur))
		for id := range cur {
			ids = append(ids, id)
		}
		sort.Ints(ids)
		for _, id := range ids {
			if acting[id] || prev == nil {
				continue
			}
			p, was := prev[id]
			if !was || p == cur[id] {
				continue
			}
			names, msgs := diffDump(p, cur[id])
			class := "copy-not-independent"
			if tokenOnly(names) {
				class = "copy-shares-token-map"
			}
			fail("copy_independent", class, fmt.Sprintf("op %d %q changed handle %d: %s", i, op, id, strings.Join(msgs, "; ")))
		}
		// M3
		if name == "copy" && res == "ok" && to >= 0 {
			if cur[to] != cur[h] {
				names, msgs := diffDump(cur[h], cur[to])
				class := "copy-not-faithful"
				if tokenOnly(names) && (copied[h] || copied[to]) {
					class = "copy-shares-token-map"
				} else if resetObjectOnly(names, h, created) {
					class = "copy-misses-reset-object"
				}
				fail("copy_faithful", class, fmt.Sprintf("op %d %q: copy differs from source: %s", i, op, strings.Join(msgs, "; ")))
			}
		}
		if name == "copy" && res == "ok" && to >= 0 {
			copied[h], copied[to] = true, true
		}
		// copy-misses-reset-object applies only to its defining shape: `create` over an account that EXISTED (resetObjectChange is the
		// entry that is not counted dirty; a createObjectChange is) and that no later un-revertable mutator dirtied again.
		if name == "snap" && strings.HasPrefix(res, "id=") {
			openSnaps[h]++
		}
		if name == "root" || name == "commit" || name == "reset" || name == "reopen" || name == "rollback" {
			openSnaps[h] = 0
		}
		if a, ok := argInt(toks, "a", 0, nAddr-1); ok && name != "create" && openSnaps[h] == 0 && prev != nil {
			// the op visibly changed the account (so it journalled a change) and no snapshot is open that could undo it: dirty for good
			if pd, was := prev[h]; was {
				_, pa, ok1 := splitDump(pd)
				_, ca, ok2 := splitDump(cur[h])
				if ok1 && ok2 {
					x, y := strings.Split(pa, "/"), strings.Split(ca, "/")
					if a < len(x) && a < len(y) && x[a] != y[a] {
						delete(created, snapKey{h, a})
					}
				}
			}
		}
		if name == "create" && res == "ok" {
			if a, ok := argInt(toks, "a", 0, nAddr-1); ok {
				existed := false
				if prev != nil {
					if pd, was := prev[h]; was {
						if _, pa, ok1 := splitDump(pd); ok1 {
							if accts := strings.Split(pa, "/"); a < len(accts) && accts[a] != "-" {
								existed = true
							}
						}
					}
				}
				if existed {
					created[snapKey{h, a}] = true
				}
			}
		}
		// M10
		if name != "reset" && name != "reopen" && name != "rollback" && prev != nil {
			if pd, was := prev[h]; was {
				_, pa, ok1 := splitDump(pd)
				_, ca, ok2 := splitDump(cur[h])
				pas, cas := strings.Split(pa, "/"), strings.Split(ca, "/")
				if ok1 && ok2 && len(pas) == nAddr && len(cas) == nAddr {
					opA, hasA := argInt(toks, "a", 0, nAddr-1)
					for a := 0; a < nAddr; a++ {
						f := strings.Split(cas[a], ",")
						if len(f) != len(acctFieldNames) {
							continue
						}
						appeared := strings.HasPrefix(pas[a], "-")
						if !appeared && !(name == "create" && res == "ok" && hasA && opA == a) {
							continue
						}
						st, cst := strings.Split(f[8], ":"), strings.Split(f[10], ":")
						if name == "setstate" && hasA && opA == a {
							if k, ok := argInt(toks, "k", 0, nKey-1); ok && k < len(st) {
								st[k] = "-" // the op's own write
							}
						}
						if strings.Trim(strings.Join(st, ""), "-") != "" || strings.Trim(strings.Join(cst, ""), "-") != "" {
							failAt("fresh_account_clean", "kv-storage-ghost", "state/keyvalue.go:TryGet", fmt.Sprintf("op %d %q: account %d of handle %d is new but has storage st=%s cst=%s", i, op, a, h, f[8], f[10]))
						}
					}
				}
			}
		}
		// a successful reset / reopen / rollback gives H a fresh journal (and, except reset, a new StateDB)
		fresh := (name == "reset" && res == "ok") || (name == "reopen" && res == "ok") || (name == "rollback" && strings.HasPrefix(res, "rolled="))
		// M8
		switch {
		case fresh:
			for k := range issuedSince {
				if k.h == h {
					issuedBefore[k] = true
					delete(issuedSince, k)
				}
			}
		case name == "new" || name == "copy":
			n := h
			if name == "copy" {
				n = to
			}
			for k := range issuedSince {
				if k.h == n {
					delete(issuedSince, k)
				}
			}
			for k := range issuedBefore {
				if k.h == n {
					delete(issuedBefore, k)
				}
			}
		case name == "snap" && strings.HasPrefix(res, "id="):
			if id, err := strconv.Atoi(res[3:]); err == nil {
				issuedSince[snapKey{h, id}] = true
			}
		case name == "revert" && res == "ok":
			if id, ok := argInt(toks, "id", -maxInt, maxInt); ok && issuedBefore[snapKey{h, id}] && !issuedSince[snapKey{h, id}] {
				fail("reset_invalidates", "revert-across-reset", fmt.Sprintf("op %d %q: snapshot id %d was issued before the latest reset/reopen/rollback of handle %d but the revert was accepted", i, op, id, h))
			}
		}
		// M6 / M7
		if c.Tags["blocks"] && h == 0 {
			hdr, accts, okD := splitDump(cur[0])
			switch {
			case name == "commit" && strings.HasPrefix(res, "class="):
				height++
				nCommits++
				lastCommitAt, lastCommitAccts = i, accts
				delete(committed, height)
			case okD && fresh && name != "rollback":
				direct := lastCommitAt == i-1
				if name == "reset" {
					tv, _ := hx.Arg(toks, "to")
					direct = direct && tv == strconv.Itoa(nCommits-1)
				}
				if direct {
					committed[height] = accts
					if accts != lastCommitAccts {
						names, msgs := diffAccts(lastCommitAccts, accts)
						class := "commit-not-faithful"
						if allCreated(names, 0, created) {
							class = "copy-misses-reset-object"
						}
						fail("commit_faithful", class, fmt.Sprintf("op %d %q: state read back after the commit differs from the live state right after Commit: %s", i, op, strings.Join(msgs, "; ")))
					}
				}
				if hdr != cleanHeader {
					fail("commit_faithful", "reset-not-clean", fmt.Sprintf("op %d %q: header after reset/reopen is %s", i, op, hdr))
				}
			case okD && fresh && name == "rollback":
				if strings.HasPrefix(res, "rolled=true") {
					height--
				}
				if strings.HasSuffix(res, "db=diff") {
					fail("rollback_exact", "rollback-db-not-exact", fmt.Sprintf("op %d %q (%s, height now %d): the underlying db differs byte-wise from the db right after the commit of that height", i, op, res, height))
				}
				if want, known := committed[height]; known && want != accts {
					_, msgs := diffAccts(want, accts)
					fail("rollback_exact", "rollback-not-exact", fmt.Sprintf("op %d %q (%s, height now %d): state differs from the state committed at that height: %s", i, op, res, height, strings.Join(msgs, "; ")))
				}
				if hdr != cleanHeader {
					fail("rollback_exact", "reset-not-clean", fmt.Sprintf("op %d %q: header after rollback is %s", i, op, hdr))
				}
			}
		}
		// M1
		switch name {
		case "new":
			for k := range snaps {
				if k.h == h {
					delete(snaps, k)
				}
			}
		case "copy":
			for k := range snaps {
				if k.h == to {
					delete(snaps, k)
				}
			}
		case "root", "commit", "reset", "reopen", "rollback":
			if name == "root" || name == "commit" || fresh {
				for k := range snaps {
					if k.h == h {
						delete(snaps, k)
					}
				}
			}
		case "snap":
			if strings.HasPrefix(res, "id=") {
				if id, err := strconv.Atoi(res[3:]); err == nil {
					snaps[snapKey{h, id}] = cur[h]
				}
			}
		case "revert":
			if res == "ok" && !c.Tags["neg"] {
				if id, ok := argInt(toks, "id", -maxInt, maxInt); ok {
					if want, known := snaps[snapKey{h, id}]; known && want != cur[h] {
						names, msgs := diffDump(want, cur[h])
						first := ""
						if len(msgs) > 0 {
							first = msgs[0]
						}
						class := "revert-not-exact"
						if tokenOnly(names) && copied[h] {
							class = "copy-shares-token-map"
						}
						fail("revert_exact", class, fmt.Sprintf("op %d %q: state after revert differs from the state at the snapshot: %s", i, op, first))
					}
				}
			}
		}
		prev = cur
	}
	// M4
	if c.Tags["twin"] && mode == 0 && len(c.Ops) >= 2 && len(c.Impl) >= len(c.Ops) {
		n := len(c.Ops)
		t1, t2 := hx.Tokens(c.Ops[n-2]), hx.Tokens(c.Ops[n-1])
		if len(t1) > 0 && len(t2) > 0 && t1[0] == "root" && t2[0] == "root" {
			h1, ok1 := argInt(t1, "h", 0, maxInt)
			h2, ok2 := argInt(t2, "h", 0, maxInt)
			r1, _, okA := splitAnswer(c.Impl[n-2])
			r2, d2, okB := splitAnswer(c.Impl[n-1])
			if ok1 && ok2 && okA && okB && strings.HasPrefix(r1, "class=") && strings.HasPrefix(r2, "class=") && r1 != r2 {
				if d2[h1] == d2[h2] {
					// a root-only difference is the recorded finding ONLY when the op lines show its defining shape
					if shape := zeroEntryShape(c.Ops, c.Impl); shape != "" {
						fail("twin_root", "revert-leaves-zero-token-entry", fmt.Sprintf("handles %d and %d answer every getter identically but their roots differ (%s vs %s); shape: %s", h1, h2, r1, r2, shape))
					} else {
						fail("twin_root", "twin-root-differs", fmt.Sprintf("handles %d and %d answer every getter identically but their roots differ (%s vs %s), and no reverted token credit to a pair without an entry (nor a reverted suicide of a token holder) explains it", h1, h2, r1, r2))
					}
				} else {
					_, msgs := diffDump(d2[h1], d2[h2])
					fail("twin_root", "twin-differs", fmt.Sprintf("handles %d and %d differ after the effective op list: %s", h1, h2, strings.Join(msgs, "; ")))
				}
			}
		}
	}
	return capKnown(fs)
}

// reported counts the failures already reported per (monitor, class) in this process.  The listed findings fire in about a
// third of all copy cases; hx attaches the whole case to every failure, so beyond maxPerClass per class a run only counts them
// (stat-free, deterministic: the first maxPerClass in generation order are kept).  Classes that are NOT listed findings are never capped.
var reported = map[string]int{}

const maxPerClass = 60

var cappedClasses = map[string]bool{"copy-shares-token-map": true, "revert-leaves-zero-token-entry": true, "copy-misses-reset-object": true}

func capKnown(fs []hx.Failure) []hx.Failure {
	var out []hx.Failure
	for _, f := range fs {
		if cappedClasses[f.Class] {
			k := f.Monitor + "/" + f.Class
			reported[k]++
			if reported[k] > maxPerClass {
				continue
			}
		}
		out = append(out, f)
	}
	return out
}

// ---- generator -----------------------------------------------------------------------------

type pair struct{ a, t int }

type caseGen struct {
	g     *hx.Gen
	kind  string
	mode  int
	neg   bool
	addrs []int
	toks  []int // subset of 1..3
	ops   []string
	max   int // op budget
	del   int // deleteEmptyObjects flag of every root/commit of the case body (fixed per case)

	live    []int
	nextH   int
	open    map[int][]int // open snapshot ids per handle (a stack)
	openMut map[int][]int // mutation counter of the handle at the time of the snapshot
	nextID  map[int]int
	dead    map[int][]int // ids invalidated (by a revert or a root/commit)
	mut     map[int]int   // mutation counter per handle
	hot     map[int][]pair
	shared  map[int][]pair
	touched map[pair]bool // (addr,token) pairs written by a token op (twin: handle 0)
	exists  map[int]bool  // addresses touched by any op (probably existing)

	copied  bool
	nontriv bool
	layered bool // a revert crossed an empty-over-non-empty layering of one slot-like value (layerPattern)
	stale   bool // a deliberately stale revert was emitted (expected panic): the case carries tag malformed

	dbOf    map[int]int // database group of a handle (copies share it)
	commits []int       // database group of every commit op emitted so far (index = `reset to=` index)
	height  int         // blocks: the generator's idea of the block-store height
	kvh     int         // blocks, mode 3: height stored by the last commit (CanRollBackOneBlock needs kvh == height)
	carry   []int       // blocks: addresses suicided in the running block (re-created in the next one)

	// twin bookkeeping: effective ops of handle 0 and the positions of the open snapshots in it
	eff   []string
	marks []int
}

var big64 = new(big.Int).Lsh(big.NewInt(1), 64)

func (c *caseGen) rn(n int) int { return c.g.Rng.Intn(n) }

func (c *caseGen) amount() string {
	switch r := c.rn(100); {
	case r < 10:
		return "0"
	case r < 70:
		return strconv.Itoa(1 + c.rn(9))
	case r < 90:
		return strconv.Itoa(100 + c.rn(900))
	default:
		return new(big.Int).Add(big64, big.NewInt(int64(c.rn(5)))).String()
	}
}

func (c *caseGen) posAmount() string {
	for {
		if v := c.amount(); v != "0" {
			return v
		}
	}
}

func (c *caseGen) setAmount() string {
	if c.neg && c.rn(100) < 40 {
		return "-" + strconv.Itoa(1+c.rn(9))
	}
	return c.amount()
}

func (c *caseGen) addr() int { return c.addrs[c.rn(len(c.addrs))] }

func (c *caseGen) restricted() bool {
	return (c.mode == 3 || (c.mode == 2 && c.kind == "journal")) && !kvGhostStorage
}

// addrFor picks the address of a setstate / suicide / create op; -1 if the case's restriction leaves none.
func (c *caseGen) addrFor(name string) int {
	if !c.restricted() {
		return c.addr()
	}
	var cand []int
	for _, a := range c.addrs {
		if (name == "setstate") == (a <= 2) {
			cand = append(cand, a)
		}
	}
	if len(cand) == 0 {
		return -1
	}
	return cand[c.rn(len(cand))]
}

func (c *caseGen) tok() int {
	if c.rn(10) == 0 {
		return 0
	}
	return c.toks[c.rn(len(c.toks))]
}

// tokPair picks the (addr, token) of a token op: preferably one that was dirty when a copy was taken.
func (c *caseGen) tokPair(h int) pair {
	if s := c.shared[h]; len(s) > 0 && c.rn(100) < 50 {
		return s[c.rn(len(s))]
	}
	if s := c.hot[h]; len(s) > 0 && c.rn(100) < 20 {
		return s[c.rn(len(s))]
	}
	return pair{c.addr(), c.tok()}
}

func opName(op string) string {
	if i := strings.IndexByte(op, ' '); i > 0 {
		return op[:i]
	}
	return op
}

func (c *caseGen) emit(op string) {
	c.ops = append(c.ops, op)
	c.g.Count("op:" + opName(op))
}

// emitH emits an op of handle h and keeps the twin bookkeeping (effective list) for handle 0.
func (c *caseGen) emitH(h int, op string) {
	c.emit(op)
	if c.kind == "twin" && h == 0 {
		c.eff = append(c.eff, op)
	}
}

func (c *caseGen) mutated(h int) {
	c.mut[h]++
	if c.copied {
		c.nontriv = true
	}
}

type wop struct {
	name string
	w    int
}

var mixValid = []wop{{"addbal", 10}, {"subbal", 5}, {"setbal", 4}, {"addtok", 14}, {"subtok", 6}, {"settok", 6}, {"setnonce", 6}, {"setcode", 5},
	{"setstate", 10}, {"create", 4}, {"suicide", 4}, {"addlog", 4}, {"addrefund", 3}, {"prepare", 2}, {"setcredits", 3}, {"addpreimage", 3}, {"snap", 10}, {"revert", 6}}

var mixNeg = []wop{{"addbal", 10}, {"subbal", 5}, {"setbal", 6}, {"addtok", 14}, {"subtok", 6}, {"settok", 8}, {"setnonce", 6}, {"setcode", 5},
	{"setstate", 10}, {"create", 4}, {"subbalx", 5}, {"subtokx", 6}, {"addlog", 4}, {"addrefund", 3}, {"prepare", 2}, {"setcredits", 3}, {"addpreimage", 3}, {"snap", 10}, {"revert", 6}}

func (c *caseGen) pickOp(noSnap bool) string {
	mix := mixValid
	if c.neg {
		mix = mixNeg
	}
	for {
		tot := 0
		for _, m := range mix {
			tot += m.w
		}
		r := c.rn(tot)
		for _, m := range mix {
			if r < m.w {
				if noSnap && (m.name == "snap" || m.name == "revert") {
					break
				}
				return m.name
			}
			r -= m.w
		}
	}
}

var codes = []string{"-", "60", "6001", "00", "fe"}
var svals = []string{"-", "01", "02ff", "abcdef"}

// mutator emits one mutating op (never snap/revert/root/commit/copy) called `name` on handle h.
func (c *caseGen) mutator(h int, name string) {
	fa := -1
	if name == "setstate" || name == "suicide" || name == "create" {
		if fa = c.addrFor(name); fa < 0 {
			name = "addbal"
		}
	}
	switch name {
	case "addbal", "subbal", "subbalx":
		a := c.addr()
		c.emitH(h, fmt.Sprintf("%s h=%d a=%d v=%s", name, h, a, c.amount()))
		c.exists[a] = true
	case "setbal":
		a := c.addr()
		c.emitH(h, fmt.Sprintf("setbal h=%d a=%d v=%s", h, a, c.setAmount()))
		c.exists[a] = true
	case "addtok", "subtok", "subtokx", "settok":
		p := c.tokPair(h)
		v := c.amount()
		if name == "settok" {
			v = c.setAmount()
		}
		c.emitH(h, fmt.Sprintf("%s h=%d a=%d t=%d v=%s", name, h, p.a, p.t, v))
		c.exists[p.a] = true
		c.touched[p] = true
		if p.t > 0 && (name == "addtok" || name == "settok") {
			c.hot[h] = append(c.hot[h], p)
		}
	case "setnonce":
		a := c.addr()
		c.emitH(h, fmt.Sprintf("setnonce h=%d a=%d n=%d", h, a, c.rn(6)))
		c.exists[a] = true
	case "setcode":
		a := c.addr()
		c.emitH(h, fmt.Sprintf("setcode h=%d a=%d code=%s", h, a, codes[c.rn(len(codes))]))
		c.exists[a] = true
	case "setstate":
		a := fa
		c.emitH(h, fmt.Sprintf("setstate h=%d a=%d k=%d v=%s", h, a, c.rn(nKey), svals[c.rn(len(svals))]))
		c.exists[a] = true
	case "create":
		a := fa
		c.emitH(h, fmt.Sprintf("create h=%d a=%d", h, a))
		c.exists[a] = true
	case "suicide":
		c.emitH(h, fmt.Sprintf("suicide h=%d a=%d", h, fa))
		if c.kind == "blocks" {
			c.carry = append(c.carry, fa)
		}
	case "addlog":
		c.emitH(h, fmt.Sprintf("addlog h=%d d=%d", h, c.rn(256)))
	case "addrefund":
		gas := 1 + c.rn(50)
		c.emitH(h, fmt.Sprintf("addrefund h=%d g=%d", h, gas))
		if c.rn(3) == 0 {
			c.emitH(h, fmt.Sprintf("subrefund h=%d g=%d", h, c.rn(gas+1)))
		}
	case "prepare":
		c.emitH(h, fmt.Sprintf("prepare h=%d x=%d i=%d", h, c.rn(nTx), c.rn(4)))
	case "setcredits":
		a := c.addr()
		c.emitH(h, fmt.Sprintf("setcredits h=%d a=%d n=%d", h, a, c.rn(6)))
		c.exists[a] = true
	case "addpreimage":
		c.emitH(h, fmt.Sprintf("addpreimage h=%d p=%d d=%s", h, c.rn(nPre), []string{"-", "01", "abcd"}[c.rn(3)]))
	default:
		panic("harness: unknown mutator " + name)
	}
	c.mutated(h)
}

func (c *caseGen) snap(h int) {
	c.emit(fmt.Sprintf("snap h=%d", h))
	c.open[h] = append(c.open[h], c.nextID[h])
	c.openMut[h] = append(c.openMut[h], c.mut[h])
	c.nextID[h]++
	if c.kind == "twin" && h == 0 {
		c.marks = append(c.marks, len(c.eff))
	}
}

// revert reverts handle h to the open snapshot at stack position j.
func (c *caseGen) revertAt(h, j int) {
	id := c.open[h][j]
	c.emit(fmt.Sprintf("revert h=%d id=%d", h, id))
	if c.mut[h] > c.openMut[h][j] {
		c.nontriv = true
	}
	c.dead[h] = append(c.dead[h], c.open[h][j:]...)
	c.open[h] = c.open[h][:j]
	c.openMut[h] = c.openMut[h][:j]
	if c.kind == "twin" && h == 0 {
		// Prepare is not journalled (thash/txIndex survive a revert): keep those ops in the effective list.
		cut := c.marks[j]
		var keep []string
		for _, op := range c.eff[cut:] {
			if opName(op) == "prepare" {
				keep = append(keep, op)
			}
		}
		c.eff = append(c.eff[:cut:cut], keep...)
		c.marks = c.marks[:j]
	}
}

func (c *caseGen) rootOrCommit(h int, name string) {
	c.emitH(h, fmt.Sprintf("%s h=%d del=%d", name, h, c.del))
	if name == "commit" {
		c.commits = append(c.commits, c.dbOf[h])
	}
	c.journalCleared(h)
}

// journalCleared: root/commit/reset/reopen/rollback invalidate every open snapshot id of the handle.
func (c *caseGen) journalCleared(h int) {
	c.dead[h] = append(c.dead[h], c.open[h]...)
	c.open[h], c.openMut[h] = nil, nil
	c.hot[h] = nil
	if c.kind == "twin" && h == 0 {
		c.marks = nil
	}
}

// staleRevert: occasionally, directly after a reset/reopen/rollback, revert to an id issued before it (must panic).
func (c *caseGen) staleRevert(h, pct int) {
	if c.nextID[h] > 0 && c.rn(100) < pct {
		c.emit(fmt.Sprintf("revert h=%d id=%d", h, c.rn(c.nextID[h])))
		c.stale = true
		c.g.Count("stale-revert")
	}
}

// reset emits `reset h to=<earlier commit of the same database | - | bad>`.
func (c *caseGen) reset(h int) {
	var cand []int
	for j, grp := range c.commits {
		if grp == c.dbOf[h] {
			cand = append(cand, j)
		}
	}
	to := "-"
	switch r := c.rn(100); {
	case r < 5:
		to = "bad"
	case r < 75 && len(cand) > 0:
		to = strconv.Itoa(cand[c.rn(len(cand))])
	}
	c.emitH(h, fmt.Sprintf("reset h=%d to=%s", h, to))
	c.journalCleared(h)
	c.mutated(h)
	if to != "bad" {
		c.staleRevert(h, 10)
	}
}

func (c *caseGen) copyTo(h int) {
	n := c.nextH
	c.nextH++
	c.emit(fmt.Sprintf("copy h=%d to=%d", h, n))
	c.live = append(c.live, n)
	c.shared[h] = append(c.shared[h], c.hot[h]...)
	c.shared[n] = append([]pair{}, c.shared[h]...)
	c.hot[n] = append([]pair{}, c.hot[h]...)
	c.mut[n] = 0
	c.nextID[n] = 0
	c.dbOf[n] = c.dbOf[h]
	c.copied = true
}

func (c *caseGen) newHandle() {
	n := c.nextH
	c.nextH++
	c.emit(fmt.Sprintf("new h=%d", n))
	c.live = append(c.live, n)
	c.dbOf[n] = n
}

func (c *caseGen) rootsAllowed() bool { return c.mode != 2 && !c.neg }

// step emits one generic step (mutator / snap / revert / root / commit) on handle h.
func (c *caseGen) step(h int) {
	if !c.neg && c.kind != "malformed" && c.rn(100) < 9 {
		// mode 2, single handle: the flat database may be committed (commit only, never a bare root)
		c.layerPattern(h, c.rootsAllowed() || (c.mode == 2 && c.kind == "journal"))
		return
	}
	if c.rootsAllowed() {
		switch r := c.rn(100); {
		case r < 5:
			c.rootOrCommit(h, "root")
			return
		case r < 10:
			c.rootOrCommit(h, "commit")
			return
		}
	}
	if c.mode <= 1 && c.rn(100) < 2 {
		c.reset(h)
		return
	}
	name := c.pickOp(false)
	switch name {
	case "snap":
		c.snap(h)
	case "revert":
		if len(c.open[h]) == 0 {
			c.mutator(h, c.pickOp(true))
			return
		}
		c.revertAt(h, c.rn(len(c.open[h])))
	default:
		c.mutator(h, name)
	}
}

// zeroEntryPattern: snap; token op on an (addr, token) pair never written before, on an address that
// (probably) exists; a few more ops; revert.
func (c *caseGen) zeroEntryPattern(h int) {
	var cand []pair
	for _, a := range c.addrs {
		for _, t := range c.toks {
			if !c.touched[pair{a, t}] {
				cand = append(cand, pair{a, t})
			}
		}
	}
	if len(cand) == 0 {
		return
	}
	var pref []pair
	for _, p := range cand {
		if c.exists[p.a] {
			pref = append(pref, p)
		}
	}
	if len(pref) > 0 {
		cand = pref
	}
	p := cand[c.rn(len(cand))]
	if !c.exists[p.a] {
		c.emitH(h, fmt.Sprintf("addbal h=%d a=%d v=%s", h, p.a, c.posAmount()))
		c.exists[p.a] = true
		c.mutated(h)
	}
	c.snap(h)
	j := len(c.open[h]) - 1
	name := []string{"addtok", "addtok", "settok", "settok", "subtok"}[c.rn(5)]
	v := c.amount()
	c.emitH(h, fmt.Sprintf("%s h=%d a=%d t=%d v=%s", name, h, p.a, p.t, v))
	c.touched[p] = true
	c.mutated(h)
	for k := c.rn(3); k > 0; k-- {
		c.mutator(h, c.pickOp(true))
	}
	c.revertAt(h, j)
}

// ---- layered values ------------------------------------------------------------------------------
//
// Everything the journal undoes per slot has an "empty means absent" encoding somewhere: storage (SetState(k, empty) = delete),
// token balances (zero entry vs absent), code (empty code = no code), preimages (empty value vs absent key), whole accounts
// (empty account / touched / deleted / re-created).  layerPattern crosses, for ONE such slot, the value classes
// {absent, cleared (empty), non-empty} over the three layers {committed or origin-cached, dirty before the snapshot, dirty after the
// snapshot}: write layer 1 and persist it (root or commit), write layer 2, snapshot, write layer 3 (+ a few random ops), revert;
// the dump after the revert is compared with the one at the snapshot (M1) and with the model, and a root (and, in twin cases, the
// twin's root) follows.  Class 0 = absent (no write), 1 = cleared, 2 = non-empty.
var layerFamilies = []string{"state", "state", "state", "tok", "tok", "code", "pre", "acct"}

func (c *caseGen) layerWrite(h int, fam string, a, x, class, layer int) {
	if class == 0 {
		return
	}
	var op string
	switch fam {
	case "state":
		v := "-"
		if class == 2 {
			v = svals[1+(layer+x)%3] // a different non-empty value per layer
		}
		op = fmt.Sprintf("setstate h=%d a=%d k=%d v=%s", h, a, x, v)
	case "tok":
		if class == 1 {
			op = fmt.Sprintf("settok h=%d a=%d t=%d v=0", h, a, x)
		} else if c.rn(2) == 0 {
			op = fmt.Sprintf("settok h=%d a=%d t=%d v=%d", h, a, x, 3+layer)
		} else {
			op = fmt.Sprintf("addtok h=%d a=%d t=%d v=%d", h, a, x, 3+layer)
		}
		c.touched[pair{a, x}] = true
	case "code":
		v := "-"
		if class == 2 {
			v = codes[1+(layer+x)%4]
		}
		op = fmt.Sprintf("setcode h=%d a=%d code=%s", h, a, v)
	case "pre":
		v := "-"
		if class == 2 {
			v = []string{"01", "abcd", "ff00"}[layer%3]
		}
		op = fmt.Sprintf("addpreimage h=%d p=%d d=%s", h, x, v)
	case "acct":
		// cleared = an empty (touched) account or a destroyed one; non-empty = funded / re-created
		if class == 1 {
			op = []string{fmt.Sprintf("addbal h=%d a=%d v=0", h, a), fmt.Sprintf("suicide h=%d a=%d", h, a), fmt.Sprintf("addtok h=%d a=%d t=%d v=0", h, a, c.toks[0])}[c.rn(3)]
		} else {
			op = []string{fmt.Sprintf("addbal h=%d a=%d v=%d", h, a, 5+layer), fmt.Sprintf("create h=%d a=%d", h, a), fmt.Sprintf("setnonce h=%d a=%d n=%d", h, a, 1+layer)}[c.rn(3)]
		}
	}
	c.emitH(h, op)
	c.exists[a] = true
	c.mutated(h)
}

// layerPattern: see above.  persist = the caller allows root/commit ops here (not in mode 2, not inside a block).
func (c *caseGen) layerPattern(h int, persist bool) {
	fam := layerFamilies[c.rn(len(layerFamilies))]
	a, x := c.addr(), 0
	switch fam {
	case "state":
		if a = c.addrFor("setstate"); a < 0 {
			fam, a = "tok", c.addr()
		}
		x = c.rn(2) // two slots only: the patterns of one case keep hitting them
	case "acct":
		if a = c.addrFor("suicide"); a < 0 {
			fam, a = "tok", c.addr()
		}
	}
	switch fam {
	case "tok":
		x = c.toks[c.rn(len(c.toks))]
	case "pre":
		x = c.rn(nPre)
	}
	l1, l2, l3 := c.rn(3), c.rn(3), c.rn(3)
	if fam == "pre" || !persist {
		l1 = 0 // preimages are never persisted; without persistence layer 1 is whatever earlier blocks left
	}
	c.g.Count("layer:" + fam)
	c.g.Count(fmt.Sprintf("layers:%d%d%d", l1, l2, l3))
	persistOp := func() {
		name := "root"
		if c.mode >= 2 || c.rn(2) == 0 {
			name = "commit"
		}
		c.rootOrCommit(h, name)
	}
	if l1 != 0 {
		if l1 == 1 {
			// cleared at the committed layer: first a non-empty committed value, then the clear is committed (origin-cached empty)
			c.layerWrite(h, fam, a, x, 2, 0)
			persistOp()
		}
		c.layerWrite(h, fam, a, x, l1, 0)
		persistOp()
	}
	c.layerWrite(h, fam, a, x, l2, 1)
	c.snap(h)
	j := len(c.open[h]) - 1
	c.layerWrite(h, fam, a, x, l3, 2)
	for k := c.rn(3); k > 0; k-- {
		name := c.pickOp(true)
		c.mutator(h, name)
	}
	if c.rn(100) < 25 {
		// a nested snapshot with a further write of the same slot, reverted first
		c.snap(h)
		c.layerWrite(h, fam, a, x, 1+c.rn(2), 1)
		c.revertAt(h, len(c.open[h])-1)
	}
	c.revertAt(h, j)
	// empty over non-empty (in either direction of the revert): the shapes an "empty = absent" shortcut gets wrong
	if (l2 == 1 && l1 == 2 && l3 != 0) || (l3 == 1 && (l2 == 2 || (l2 == 0 && l1 == 2))) || (l2 == 1 && l3 == 2) {
		c.layered = true
		c.g.Count("layer:empty-over-nonempty")
	}
	if persist && c.rn(2) == 0 {
		if c.mode >= 2 {
			c.rootOrCommit(h, "commit")
		} else {
			c.rootOrCommit(h, "root") // the root right after the revert (mode 0: compared with the model's content class)
		}
	}
}

func (c *caseGen) badOp(h int) {
	switch c.rn(8) {
	case 0: // id never issued
		c.emit(fmt.Sprintf("revert h=%d id=%d", h, c.nextID[h]+c.rn(3)))
	case 1: // id already invalidated
		if d := c.dead[h]; len(d) > 0 {
			c.emit(fmt.Sprintf("revert h=%d id=%d", h, d[c.rn(len(d))]))
		} else {
			c.emit(fmt.Sprintf("revert h=%d id=%d", h, 99))
		}
	case 2: // above the refund counter (the refunds added in a case stay far below this)
		c.emit(fmt.Sprintf("subrefund h=%d g=%d", h, 1000000+c.rn(10)))
	case 3:
		c.emit(fmt.Sprintf("addbal h=7 a=%d v=%s", c.addr(), c.amount()))
	case 4:
		c.emit(fmt.Sprintf("snap h=%d", 7+c.rn(2)))
	case 5:
		c.emit(fmt.Sprintf("copy h=%d to=%d", h, c.live[c.rn(len(c.live))]))
	case 6:
		c.emit(fmt.Sprintf("new h=%d", c.live[c.rn(len(c.live))]))
	default:
		c.emit([]string{"frob h=0", fmt.Sprintf("addbal h=%d a=%d", h, c.addr()), fmt.Sprintf("settok h=%d a=%d v=1", h, c.addr())}[c.rn(3)])
	}
	c.g.Count("bad-op-injected")
}

// freshState: reopen/rollback replace the handle by a new StateDB (snapshot ids start at 0 again).
func (c *caseGen) freshState(h int) {
	c.journalCleared(h)
	c.dead[h] = nil
	prev := c.nextID[h]
	if prev > 0 && c.rn(100) < 6 {
		c.emit(fmt.Sprintf("revert h=%d id=%d", h, c.rn(prev)))
		c.stale = true
		c.g.Count("stale-revert")
	}
	c.nextID[h] = 0
}

func (c *caseGen) rollback(h int) {
	c.emit(fmt.Sprintf("rollback h=%d", h))
	if c.height > 0 && (c.mode != 3 || c.kvh == c.height) {
		c.height--
		if c.mut[h] > 0 {
			c.nontriv = true
		}
		c.g.Count("blocks:rollback-expected-true")
	} else {
		c.g.Count("blocks:rollback-expected-false")
	}
	c.freshState(h)
}

// blockStep: one op inside a block (mutators, nested snap/revert; never root/commit/reset).
func (c *caseGen) blockStep(h int) {
	if len(c.carry) > 0 && c.rn(100) < 30 {
		// re-create an account that was suicided before the last commit
		a := c.carry[0]
		c.carry = c.carry[1:]
		re := []string{fmt.Sprintf("addbal h=%d a=%d v=%s", h, a, c.posAmount()), fmt.Sprintf("create h=%d a=%d", h, a),
			fmt.Sprintf("setstate h=%d a=%d k=%d v=%s", h, a, c.rn(nKey), svals[1+c.rn(3)])}
		if c.restricted() {
			re = re[:2] // a suicided address is not a storage address
		}
		c.emit(re[c.rn(len(re))])
		c.exists[a] = true
		c.mutated(h)
		return
	}
	if c.rn(100) < 12 {
		c.layerPattern(h, false) // layer 1 = what the earlier blocks committed on the same two slots
		return
	}
	name := c.pickOp(false)
	switch name {
	case "snap":
		c.snap(h)
	case "revert":
		if len(c.open[h]) == 0 {
			c.mutator(h, c.pickOp(true))
			return
		}
		c.revertAt(h, c.rn(len(c.open[h])))
	default:
		c.mutator(h, name)
	}
}

func (c *caseGen) genBlocks() {
	nBlocks := 2 + c.rn(4)
	if c.rn(100) < 8 {
		c.rollback(0) // a rollback before any commit (height 0)
	}
	extra := 0
	for b := 0; b < nBlocks; b++ {
		for k := 3 + c.rn(10); k > 0; k-- {
			c.blockStep(0)
		}
		if c.rn(100) < 30 {
			c.rootOrCommit(0, "root")
		}
		c.rootOrCommit(0, "commit")
		c.height++
		c.kvh = c.height
		if c.rn(2) == 0 {
			c.emit("reopen h=0")
			c.freshState(0)
		} else {
			c.emit(fmt.Sprintf("reset h=0 to=%d", len(c.commits)-1))
			c.journalCleared(0)
			c.staleRevert(0, 6)
		}
		if c.rn(2) == 0 {
			c.rollback(0)
			if c.rn(100) < 25 {
				c.rollback(0)
			}
			if b == nBlocks-1 && extra < 2 && c.rn(2) == 0 {
				nBlocks++ // continue with a further block after the rollback
				extra++
			}
		}
	}
	c.g.Count(fmt.Sprintf("blocks:n=%d", nBlocks))
}

func (P) Generate(g *hx.Gen) {
	n := g.Pick(2500, 40000)
	for k := 0; k < n; k++ {
		genCase(g)
	}
}

func genCase(g *hx.Gen) {
	c := &caseGen{g: g, open: map[int][]int{}, openMut: map[int][]int{}, nextID: map[int]int{}, dead: map[int][]int{}, mut: map[int]int{},
		hot: map[int][]pair{}, shared: map[int][]pair{}, touched: map[pair]bool{}, exists: map[int]bool{}, live: []int{0}, nextH: 1, dbOf: map[int]int{0: 0}}
	// modes 0:40% 1:20% 2:15% among the kinds that allow them; mode 3 only in `blocks`
	switch r := c.rn(75); {
	case r < 40:
		c.mode = 0
	case r < 60:
		c.mode = 1
	default:
		c.mode = 2
	}
	if c.rn(100) < 25 {
		c.kind = "blocks"
		c.mode = 1 + 2*c.rn(2)
	} else {
		switch r := c.rn(100); {
		case r < 35:
			c.kind = "journal"
		case r < 70:
			c.kind = "copies"
		case r < 90:
			c.kind = "twin"
			c.mode = 0
		default:
			c.kind = "malformed"
			c.neg = c.rn(2) == 0
		}
	}
	nA := 2 + c.rn(5)
	if c.kind == "blocks" {
		nA = 2 + c.rn(3) // few addresses: the blocks keep hitting the same accounts / tokens / storage keys
	}
	c.addrs = g.Rng.Perm(nAddr)[:nA]
	sort.Ints(c.addrs)
	tp := g.Rng.Perm(3)[:1+c.rn(3)]
	for _, t := range tp {
		c.toks = append(c.toks, t+1)
	}
	sort.Ints(c.toks)
	c.max = 10 + c.rn(51)
	if c.rn(100) >= 70 {
		c.del = 1
	}
	if c.restricted() {
		c.del = 0
	}
	c.ops = append(c.ops, "") // the case op is written last (a stale revert adds tag malformed)
	g.Count(fmt.Sprintf("mode:%d", c.mode))
	g.Count("kind:" + c.kind)
	g.Count(fmt.Sprintf("del:%d", c.del))
	g.Count(fmt.Sprintf("addrs:%d", len(c.addrs)))
	g.Count(fmt.Sprintf("toks:%d", len(c.toks)))

	switch c.kind {
	case "journal":
		for len(c.ops) < c.max {
			c.step(0)
		}
	case "copies":
		// prelude (60%): a dirty account holding a token, then a copy
		if c.rn(100) < 60 {
			p := pair{c.addr(), c.toks[c.rn(len(c.toks))]}
			c.emit(fmt.Sprintf("addtok h=0 a=%d t=%d v=%s", p.a, p.t, c.posAmount()))
			c.hot[0] = append(c.hot[0], p)
			c.touched[p], c.exists[p.a] = true, true
			c.mutated(0)
			for k := c.rn(3); k > 0; k-- {
				c.mutator(0, c.pickOp(true))
			}
			c.copyTo(0)
		}
		for len(c.ops) < c.max {
			h := c.live[c.rn(len(c.live))]
			if len(c.live) < 4 {
				pc := 3
				if len(c.hot[h]) > 0 {
					pc = 12
				}
				if c.rn(100) < pc {
					c.copyTo(h)
					continue
				}
				if c.mode != 2 && c.rn(100) < 2 {
					c.newHandle()
					continue
				}
			}
			c.step(h)
		}
	case "twin":
		patAt := -1
		if c.rn(100) < 60 {
			patAt = 3 + c.rn(c.max-2)
		}
		for len(c.ops) < c.max {
			if patAt >= 0 && len(c.ops) >= patAt {
				c.zeroEntryPattern(0)
				g.Count("twin:zero-entry-pattern")
				patAt = -1
				continue
			}
			c.step(0)
		}
		if patAt >= 0 {
			c.zeroEntryPattern(0)
			g.Count("twin:zero-entry-pattern")
		}
		c.emit("new h=9")
		nC := len(c.commits) // all by handle 0; its k-th commit corresponds to commit nC+k of handle 9
		for _, op := range c.eff {
			op = strings.Replace(op, " h=0", " h=9", 1)
			if opName(op) == "reset" {
				if tv, _ := hx.Arg(hx.Tokens(op), "to"); tv != "-" && tv != "bad" {
					j, _ := strconv.Atoi(tv)
					op = fmt.Sprintf("reset h=9 to=%d", j+nC)
				}
			}
			c.emit(op)
		}
		d := c.rn(2)
		c.emit(fmt.Sprintf("root h=0 del=%d", d))
		c.emit(fmt.Sprintf("root h=9 del=%d", d))
	case "malformed":
		for len(c.ops) < c.max {
			h := c.live[c.rn(len(c.live))]
			if c.rn(100) < 20 {
				c.badOp(h)
				continue
			}
			if len(c.live) < 4 && c.rn(100) < 6 {
				c.copyTo(h)
				continue
			}
			c.step(h)
		}
	case "blocks":
		c.genBlocks()
	}
	tags := []string{c.kind}
	if c.neg {
		tags = append(tags, "neg")
	}
	if c.stale && c.kind != "malformed" {
		tags = append(tags, "malformed")
	}
	c.ops[0] = fmt.Sprintf("%s mode=%d", hx.CaseOp(tags...), c.mode)
	nontriv := c.nontriv && (c.layered || c.kind == "malformed")
	if nontriv {
		g.Count("nontrivial")
	}
	g.Count(fmt.Sprintf("handles:%d", len(c.live)))
	g.Case(fmt.Sprintf("%s mode=%d", c.kind, c.mode), c.ops, nontriv)
}
