// Package hx is the shared plumbing of the verification harness: one seeded PRNG, the op/answer
// streams, monitor failures, input-distribution counters.
package hx

import (
	"strconv"
	"bufio"
	"encoding/hex"
	"encoding/json"
	"fmt"
	"math/rand"
	"os"
	"path/filepath"
	"runtime/debug"
	"sort"
	"strings"
)

// Failure is a property-monitor failure observed on the IMPLEMENTATION's own trace.
type Failure struct {
	Monitor string   `json:"monitor"`
	Class   string   `json:"class"` // classification key matched against known_findings.json
	Site    string   `json:"site"`
	Msg     string   `json:"msg"`
	Case    int      `json:"case"`
	Header  string   `json:"case_header"`
	Ops     []string `json:"ops"`
	Impl    []string `json:"impl"`
}

// Executor runs op lines against the real code. Exec never panics (it recovers and answers "panic ...").
type Executor interface {
	Exec(op string) string
}

// Prop is one property's harness.
type Prop interface {
	// Generate emits cases through g.Case.
	Generate(g *Gen)
	// NewExec returns a fresh executor (one per case).
	NewExec() Executor
	// Monitor evaluates the property's monitors on the implementation's answers of one case.
	Monitor(c *CaseRun) []Failure
	// Rule describes generation and what makes a case non-trivial.
	Rule() string
}

type CaseRun struct {
	N      int
	Header string
	Ops    []string
	Impl   []string
	Tags   map[string]bool // set by the generator: what the case exercises
}

type Gen struct {
	Seed     int64
	Tier     string
	Rng      *rand.Rand
	prop     Prop
	ops      *bufio.Writer
	impl     *bufio.Writer
	n        int
	Failures []Failure
	Stats    map[string]int
	distinct map[string]bool
	nontriv  int
	samples  []interface{}
	opCount  int
}

func (g *Gen) Thorough() bool { return g.Tier == "thorough" }

// Pick returns q in quick tier and t in thorough tier.
func (g *Gen) Pick(q, t int) int {
	if g.Thorough() {
		return t
	}
	return q
}

func (g *Gen) Count(key string) { g.Stats[key]++ }

// Case executes one generated case on the implementation, runs the monitors, and appends the
// op and answer lines to the streams.  nontrivial is the generator's own verdict by the stated rule.
func (g *Gen) Case(header string, ops []string, nontrivial bool) *CaseRun {
	g.n++
	cr := &CaseRun{N: g.n, Header: header, Ops: ops, Tags: TagsOf(ops)}
	for t := range cr.Tags {
		g.Stats["tag:"+t]++
	}
	ex := g.prop.NewExec()
	fmt.Fprintf(g.ops, "# case %d seed %d %s\n", g.n, g.Seed, header)
	for _, op := range ops {
		ans := SafeExec(ex, op)
		cr.Impl = append(cr.Impl, ans)
		fmt.Fprintln(g.ops, op)
		fmt.Fprintln(g.impl, ans)
		g.opCount++
		if strings.HasPrefix(ans, "panic") {
			g.Stats["answer:panic"]++
		}
	}
	for _, f := range g.prop.Monitor(cr) {
		f.Case, f.Header, f.Ops, f.Impl = cr.N, header, ops, cr.Impl
		g.Failures = append(g.Failures, f)
	}
	key := strings.Join(ops, "\n")
	if !g.distinct[key] {
		g.distinct[key] = true
		if nontrivial {
			g.nontriv++
		}
	}
	if len(g.samples) < 3 || (nontrivial && len(g.samples) < 6 && g.Rng.Intn(50) == 0) {
		g.samples = append(g.samples, map[string]interface{}{"case": g.n, "header": header, "ops": clip(ops, 12), "impl": clip(cr.Impl, 12)})
	}
	return cr
}

func clip(xs []string, n int) []string {
	if len(xs) <= n {
		return xs
	}
	out := append([]string{}, xs[:n]...)
	return append(out, fmt.Sprintf("... (%d more)", len(xs)-n))
}

// SafeExec runs one op, converting a Go panic into the answer "panic <top repo frame>".
func SafeExec(ex Executor, op string) (ans string) {
	defer func() {
		if r := recover(); r != nil {
			ans = "panic " + PanicSite(debug.Stack())
		}
	}()
	return ex.Exec(op)
}

// PanicSite extracts the first stack frame inside the repository (file:function), for classification.
func PanicSite(stack []byte) string {
	lines := strings.Split(string(stack), "\n")
	for i := 0; i+1 < len(lines); i++ {
		l := lines[i]
		if strings.Contains(l, "github.com/lianxiangcloud/linkchain/") && !strings.Contains(l, "verif") {
			fn := l
			if j := strings.LastIndex(fn, "/"); j >= 0 {
				fn = fn[j+1:]
			}
			if j := strings.Index(fn, "("); j > 0 && !strings.HasPrefix(fn, "(") {
				// strip argument list of the final call
				if k := strings.LastIndex(fn, "("); k > 0 {
					fn = fn[:k]
				}
			}
			return strings.TrimSpace(fn)
		}
	}
	return "unknown"
}

type Report struct {
	Property           string         `json:"property"`
	Seed               int64          `json:"seed"`
	Tier               string         `json:"tier"`
	Evaluations        int            `json:"evaluations"`
	Ops                int            `json:"ops"`
	DistinctNontrivial int            `json:"distinct_nontrivial"`
	Rule               string         `json:"rule"`
	Samples            []interface{}  `json:"samples"`
	Stats              map[string]int `json:"stats"`
	Failures           []Failure      `json:"failures"`
}

// Run generates, executes and monitors; writes ops.txt, impl.txt, report.json into outDir.
func Run(name string, p Prop, seed int64, tier, outDir string) error {
	if err := os.MkdirAll(outDir, 0o755); err != nil {
		return err
	}
	fo, err := os.Create(filepath.Join(outDir, "ops.txt"))
	if err != nil {
		return err
	}
	fi, err := os.Create(filepath.Join(outDir, "impl.txt"))
	if err != nil {
		return err
	}
	g := &Gen{Seed: seed, Tier: tier, Rng: rand.New(rand.NewSource(seed)), prop: p,
		ops: bufio.NewWriterSize(fo, 1<<20), impl: bufio.NewWriterSize(fi, 1<<20),
		Stats: map[string]int{}, distinct: map[string]bool{}}
	p.Generate(g)
	g.ops.Flush()
	g.impl.Flush()
	fo.Close()
	fi.Close()
	if g.Failures == nil {
		g.Failures = []Failure{}
	}
	rep := Report{Property: name, Seed: seed, Tier: tier, Evaluations: g.n, Ops: g.opCount, DistinctNontrivial: g.nontriv,
		Rule: p.Rule(), Samples: g.samples, Stats: g.Stats, Failures: g.Failures}
	b, _ := json.MarshalIndent(rep, "", " ")
	return os.WriteFile(filepath.Join(outDir, "report.json"), b, 0o644)
}

// Replay executes the op lines of a file (comment lines skipped) on a fresh executor per `# case`
// header and prints the implementation's answers, then the monitor verdicts.
func Replay(p Prop, ops []string) ([]string, []Failure) {
	ex := p.NewExec()
	cr := &CaseRun{N: 1, Header: "replay"}
	for _, op := range ops {
		if strings.HasPrefix(op, "#") || strings.TrimSpace(op) == "" {
			continue
		}
		cr.Ops = append(cr.Ops, op)
		cr.Impl = append(cr.Impl, SafeExec(ex, op))
	}
	cr.Tags = TagsOf(cr.Ops)
	fs := p.Monitor(cr)
	for i := range fs {
		fs[i].Ops, fs[i].Impl = cr.Ops, cr.Impl
	}
	return cr.Impl, fs
}

// CaseOp is the first op of every case: "case" or "case tags=a,b".  The tags tell the monitors what
// the case exercises; they travel inside the op stream so that a replay evaluates the same monitors.
func CaseOp(tags ...string) string {
	if len(tags) == 0 {
		return "case"
	}
	return "case tags=" + strings.Join(tags, ",")
}

func TagsOf(ops []string) map[string]bool {
	m := map[string]bool{}
	for _, op := range ops {
		if strings.HasPrefix(op, "case") {
			if v, ok := Arg(Tokens(op), "tags"); ok {
				for _, t := range SplitComma(v) {
					m[t] = true
				}
			}
		}
	}
	return m
}

// ---- token helpers -------------------------------------------------------------------------

func Tokens(line string) []string { return strings.Fields(line) }

func Arg(toks []string, key string) (string, bool) {
	p := key + "="
	for _, t := range toks {
		if strings.HasPrefix(t, p) {
			return t[len(p):], true
		}
	}
	return "", false
}

// ArgI returns the integer value of key=<n>, or def.
func ArgI(toks []string, key string, def int64) int64 {
	if v, ok := Arg(toks, key); ok {
		if n, err := strconv.ParseInt(v, 10, 64); err == nil {
			return n
		}
	}
	return def
}

func Hex(b []byte) string {
	if len(b) == 0 {
		return "-"
	}
	return hex.EncodeToString(b)
}

func UnHex(s string) []byte {
	if s == "-" || s == "" {
		return []byte{}
	}
	b, err := hex.DecodeString(s)
	if err != nil {
		panic("harness: bad hex " + s)
	}
	return b
}

func SplitComma(s string) []string {
	if s == "" || s == "-" {
		return nil
	}
	return strings.Split(s, ",")
}

func JoinInts(xs []int64) string {
	if len(xs) == 0 {
		return "-"
	}
	ss := make([]string, len(xs))
	for i, x := range xs {
		ss[i] = fmt.Sprint(x)
	}
	return strings.Join(ss, ",")
}

func SortedKeys(m map[string]int) []string {
	ks := make([]string, 0, len(m))
	for k := range m {
		ks = append(ks, k)
	}
	sort.Strings(ks)
	return ks
}
