// Package c15: the REAL mempool.Mempool wired to the REAL LinkApplication (CheckTx on its speculative checkTxState),
// driven through exported API only: AddTx, Reap, Stats, sizes, GetTxFromCache; blocks through CreateBlock + PreRunBlock +
// CheckBlock + CommitBlock (which calls Mempool.Update under Mempool.Lock).
//
// Time is kept out: the pool's tickers (stats 5 s — a no-op while futureTxsCount is exact, which it is with
// RemoveFutureTx=false —, eviction 10 s — disabled by RemoveFutureTx=false —, rebroadcast 30 s — disabled by
// Broadcast=false), GoodTxDropTime (exported var, set to 10^4 h), config.Lifetime (10^4 h) and the 30 s delayed cache
// deletion never fire inside a case (a case lasts milliseconds and owns a fresh pool).
package c15

import (
	"fmt"
	"math/big"
	"sort"
	"strconv"
	"strings"
	"sync"
	"time"

	"github.com/lianxiangcloud/linkchain/app"
	cfg "github.com/lianxiangcloud/linkchain/config"
	"github.com/lianxiangcloud/linkchain/libs/common"
	lktypes "github.com/lianxiangcloud/linkchain/libs/cryptonote/types"
	"github.com/lianxiangcloud/linkchain/mempool"
	"github.com/lianxiangcloud/linkchain/types"

	"github.com/lianxiangcloud/linkchain/libs/log"
	"github.com/lianxiangcloud/linkchain/libs/ser"

	"lvharness/appsim"
	"lvharness/csim"
	"lvharness/hx"
)

var registerMsgs sync.Once

func init() {
	mempool.GoodTxDropTime = 10000 * time.Hour
	mempool.GoodTxRebroadcastTime = 10000 * time.Hour
}

type txInfo struct {
	kind  string
	from  int // account index, -1 for pure confidential-input txs
	nonce uint64
	img   int // image class (id of the first tx with that key image), -1 if none
}

type exec struct {
	s         *appsim.Stack
	mp        *mempool.Mempool
	cfg       *cfg.MempoolConfig
	accts     []*appsim.Account
	wallets   []*appsim.Wallet
	txs       []types.Tx
	info      []txInfo
	byHash    map[common.Hash]int
	imgs      map[lktypes.Key]int
	committed map[int]bool
	tok, coin common.Address
	sink      bool
	gate      *gateApp
	rep       *appsim.Stack // cold replica: same chain, a mempool that never saw a submission (pool ... replica=1)
	sw        *csim.FakeSwitch
	react     *mempool.MempoolReactor
	peer      *csim.FakePeer
	avail     bool
	privs     []types.PrivValidator // validators whose signatures make a MultiSignAccountTx (pool ... vals=n)
}

// gateApp is the application as the mempool sees it (mempool.App): the real LinkApplication, except that the BASIC check of
// one designated transaction pauses before it starts until the harness releases it.  That fixes one interleaving of
// Mempool.AddTx (cache.Put done, CheckTx(BasicCheck) not finished) with the consensus goroutine's CheckBlock.
type gateApp struct {
	*app.LinkApplication
	mu      sync.Mutex
	armed   bool
	hash    common.Hash
	entered chan struct{}
	release chan struct{}
}

func (g *gateApp) arm(h common.Hash) {
	g.mu.Lock()
	g.armed, g.hash, g.entered, g.release = true, h, make(chan struct{}), make(chan struct{})
	g.mu.Unlock()
}

func (g *gateApp) disarm() {
	g.mu.Lock()
	g.armed = false
	g.mu.Unlock()
}

func (g *gateApp) CheckTx(tx types.Tx, checkBasic bool) error {
	if checkBasic {
		g.mu.Lock()
		hit := g.armed && tx.Hash() == g.hash
		if hit {
			g.armed = false
		}
		entered, release := g.entered, g.release
		g.mu.Unlock()
		if hit {
			close(entered)
			<-release
		}
	}
	return g.LinkApplication.CheckTx(tx, checkBasic)
}

func argI(toks []string, k string, def int64) int64 {
	if v, ok := hx.Arg(toks, k); ok {
		if n, err := strconv.ParseInt(v, 10, 64); err == nil {
			return n
		}
	}
	return def
}

func units(n int64) *big.Int { return new(big.Int).Mul(big.NewInt(n), appsim.Unit) }

func (e *exec) fee(gas uint64) *big.Int {
	return new(big.Int).Mul(new(big.Int).SetUint64(gas), big.NewInt(types.ParGasPrice))
}

func addClass(err error) string {
	switch err {
	case nil:
		return "ok"
	case types.ErrTxDuplicate:
		return "dup"
	case types.ErrMempoolIsFull:
		return "full"
	case types.ErrOversizedData:
		return "oversized"
	case types.ErrParams:
		return "params"
	case types.ErrBlacklistAddress:
		return "blacklist"
	}
	return appsim.ErrClass(err)
}

func (e *exec) close() {
	if e.mp != nil {
		e.mp.Stop()
	}
	if e.s != nil {
		e.s.Close()
	}
	if e.rep != nil {
		e.rep.Close()
	}
}

// register returns the id of tx: the index of the first transaction of this case with the same hash.
func (e *exec) register(kind string, from int, nonce uint64, tx types.Tx) int {
	h := tx.Hash()
	if id, ok := e.byHash[h]; ok {
		return id
	}
	id := len(e.txs)
	e.byHash[h] = id
	img := -1
	if u, ok := tx.(*types.UTXOTransaction); ok {
		for _, in := range u.Inputs {
			if ui, ok := in.(*types.UTXOInput); ok {
				if k, seen := e.imgs[ui.KeyImage]; seen {
					img = k
				} else {
					e.imgs[ui.KeyImage] = id
					img = id
				}
			}
		}
	}
	e.txs = append(e.txs, tx)
	e.info = append(e.info, txInfo{kind: kind, from: from, nonce: nonce, img: img})
	return id
}

func ids(xs []int) string {
	if len(xs) == 0 {
		return "-"
	}
	ss := make([]string, len(xs))
	for i, x := range xs {
		ss[i] = strconv.Itoa(x)
	}
	return strings.Join(ss, ",")
}

// all pending transactions in list order (good ++ utxo ++ spec), uncapped: the config the pool holds by pointer is
// widened for the duration of this one call.
func (e *exec) pendingAll() []int {
	mr, us, ss := e.cfg.MaxReapSize, e.cfg.UTXOSize, e.cfg.SpecSize
	e.cfg.MaxReapSize, e.cfg.UTXOSize, e.cfg.SpecSize = 1<<30, 1<<30, 1<<30
	all := e.mp.Reap(1 << 30)
	e.cfg.MaxReapSize, e.cfg.UTXOSize, e.cfg.SpecSize = mr, us, ss
	out := make([]int, 0, len(all))
	for _, tx := range all {
		id, ok := e.byHash[tx.Hash()]
		if !ok {
			id = -1
		}
		out = append(out, id)
	}
	return out
}

type view struct {
	good, utxo, spec, queued []int
	qn                       int
}

func (e *exec) view() view {
	all := e.pendingAll()
	ng, nu := e.mp.GoodTxsSize(), e.mp.UTXOTxsSize()
	var v view
	if ng+nu > len(all) {
		// cannot happen sequentially; keep the dump total
		ng, nu = len(all), 0
	}
	v.good, v.utxo, v.spec = all[:ng], all[ng:ng+nu], all[ng+nu:]
	in := map[int]bool{}
	for _, id := range all {
		in[id] = true
	}
	for id, tx := range e.txs {
		if in[id] || e.committed[id] {
			continue
		}
		if e.mp.GetTxFromCache(tx.Hash()) != nil {
			v.queued = append(v.queued, id)
		}
	}
	_, _, v.qn = e.mp.Stats()
	return v
}

func (e *exec) specLine() string {
	st := e.s.App.GetPendingStateDB()
	var ns, bs, ts []string
	for _, a := range e.accts {
		ns = append(ns, fmt.Sprint(st.GetNonce(a.Addr)))
		bs = append(bs, appsim.ToUnits(st.GetBalance(a.Addr)))
		ts = append(ts, appsim.ToUnits(st.GetTokenBalance(a.Addr, e.tok)))
	}
	return fmt.Sprintf("sn=%s sb=%s st=%s", strings.Join(ns, ","), strings.Join(bs, ","), strings.Join(ts, ","))
}

func (e *exec) committedLine() string {
	st := e.s.App.GetLatestStateDB()
	var ns, bs, ts []string
	for _, a := range e.accts {
		ns = append(ns, fmt.Sprint(st.GetNonce(a.Addr)))
		bs = append(bs, appsim.ToUnits(st.GetBalance(a.Addr)))
		ts = append(ts, appsim.ToUnits(st.GetTokenBalance(a.Addr, e.tok)))
	}
	return fmt.Sprintf("cn=%s cb=%s ct=%s", strings.Join(ns, ","), strings.Join(bs, ","), strings.Join(ts, ","))
}

func (e *exec) dump() string {
	v := e.view()
	return fmt.Sprintf("g=%s u=%s q=%s qn=%d %s s=%s mn=%d,%d ki=%s av=%d", ids(v.good), ids(v.utxo), ids(v.queued), v.qn, e.specLine(),
		ids(v.spec), e.s.App.GetNonce(types.MultiSignNonceAddr), e.s.App.GetLatestStateDB().GetNonce(types.MultiSignNonceAddr), e.keyImageIndex(v), e.drainAvailable())
}

// keyImageIndex compares the pool's key-image index (KeyImageExists) with the images of the transactions in utxoTxs, over
// every key image this case has ever built: "ok", or how many are stale (indexed, no pooled spend) / missing (pooled spend, not indexed).
func (e *exec) keyImageIndex(v view) string {
	pooled := map[lktypes.Key]bool{}
	for _, id := range v.utxo {
		if id < 0 || id >= len(e.txs) {
			continue
		}
		if u, ok := e.txs[id].(*types.UTXOTransaction); ok {
			for _, in := range u.Inputs {
				if ui, ok := in.(*types.UTXOInput); ok {
					pooled[ui.KeyImage] = true
				}
			}
		}
	}
	stale, missing := 0, 0
	for img := range e.imgs {
		has := e.mp.KeyImageExists(img)
		if has && !pooled[img] {
			stale++
		}
		if !has && pooled[img] {
			missing++
		}
	}
	if stale == 0 && missing == 0 {
		return "ok"
	}
	return fmt.Sprintf("stale:%d,missing:%d", stale, missing)
}

// drainAvailable: 1 if the TxsAvailable channel held a notification (it is taken out), else 0
func (e *exec) drainAvailable() int {
	ch := e.mp.TxsAvailable()
	if ch == nil {
		return 0
	}
	select {
	case <-ch:
		return 1
	default:
		return 0
	}
}

func (e *exec) submit(kind string, from int, nonce uint64, tx types.Tx, err error, toks []string) string {
	if err != nil {
		return "build=" + appsim.ErrClass(err)
	}
	id := e.register(kind, from, nonce, tx)
	if argI(toks, "sub", 1) == 0 {
		return fmt.Sprintf("id=%d img=%d built", id, e.info[id].img)
	}
	cls := addClass(e.mp.AddTx("", e.txs[id]))
	return fmt.Sprintf("id=%d img=%d add=%s %s", id, e.info[id].img, cls, e.dump())
}

func (e *exec) Exec(op string) string {
	toks := hx.Tokens(op)
	switch toks[0] {
	case "case":
		e.close()
		*e = exec{}
		return "ok"
	case "pool":
		appsim.SeedCrypto(uint64(argI(toks, "seed", 1)))
		appsim.SetVerify(1, 1)
		e.tok = common.HexToAddress("0xc7c22a8e08d3b0643a55e7c087a416171b45922f")
		e.coin = common.HexToAddress("0xc01b")
		e.byHash, e.imgs, e.committed = map[common.Hash]int{}, map[lktypes.Key]int{}, map[int]bool{}
		for i := 0; i < int(argI(toks, "accts", 3)); i++ {
			e.accts = append(e.accts, appsim.NewAccount(i))
		}
		for i := 0; i < int(argI(toks, "wallets", 2)); i++ {
			e.wallets = append(e.wallets, appsim.NewWallet(i))
		}
		c := cfg.DefaultMempoolConfig()
		// bcast=1: AddTx hands every admitted tx to the broadcast routine (channel of size 1: also its "full" branch); the
		// fake switch swallows the announcements
		c.Broadcast = argI(toks, "bcast", 0) == 1
		c.BroadcastChanSize = 1
		// rmfuture=1: promoteExecutables caps every sender's queue at acctq entries (highest nonces dropped) and the 10 s
		// eviction tick drops queues idle for Lifetime (lifens=: Lifetime in ns; default 10^4 h = never)
		c.RemoveFutureTx = argI(toks, "rmfuture", 0) == 1
		c.AccountQueue = int(argI(toks, "acctq", 1000))
		c.Lifetime = 10000 * time.Hour
		if ns := argI(toks, "lifens", 0); ns > 0 {
			c.Lifetime = time.Duration(ns)
		}
		c.ReceiveP2pTx = argI(toks, "p2ptx", 1) == 1
		c.SpecSize = int(argI(toks, "specsize", 100))
		// droptime=0: every pending tx is older than GoodTxDropTime at the next Update (filterTxs drops what the block did not take)
		mempool.GoodTxDropTime = 10000 * time.Hour
		if argI(toks, "droptime", -1) == 0 {
			mempool.GoodTxDropTime = 0
		}
		c.Size = int(argI(toks, "size", 3000))
		c.FutureSize = int(argI(toks, "future", 100000))
		c.UTXOSize = int(argI(toks, "utxosize", 1000))
		c.MaxReapSize = int(argI(toks, "maxreap", 10000))
		e.cfg = c
		o := appsim.Opts{IsTrie: argI(toks, "trie", 1) == 1, Accounts: e.accts, Balance: units(argI(toks, "bal", 1000000000)),
			Tokens: map[common.Address]*big.Int{e.tok: units(argI(toks, "tbal", 1000))}}
		if argI(toks, "code", 0) == 1 {
			o.Code = map[common.Address][]byte{appsim.ContractAddr: appsim.TestContract}
		}
		e.avail = argI(toks, "avail", 0) == 1
		o.Mempool = func(a *app.LinkApplication) types.Mempool {
			e.sw = csim.NewFakeSwitch()
			mp := mempool.NewMempool(c, 0, e.sw)
			e.gate = &gateApp{LinkApplication: a}
			mp.SetApp(e.gate)
			if e.avail {
				mp.EnableTxsAvailable()
			}
			e.mp = mp
			registerMsgs.Do(mempool.RegisterMempoolMessages)
			e.react = mempool.NewMempoolReactor(c, mp)
			e.react.SetLogger(log.NewNopLogger())
			e.peer = csim.NewFakePeer("peer-1")
			return mp
		}
		s, err := appsim.NewStack(o)
		if err != nil {
			return "err " + err.Error()
		}
		e.s = s
		if n := int(argI(toks, "vals", 0)); n > 0 {
			var vals []*types.Validator
			for i := 0; i < n; i++ {
				v, pv := types.RandValidator(false, 1)
				vals = append(vals, v)
				e.privs = append(e.privs, pv)
			}
			s.App.SetLastChangedVals(0, vals)
		}
		if argI(toks, "replica", 0) == 1 {
			ro := o
			ro.Mempool = nil
			r, err := appsim.NewStack(ro)
			if err != nil {
				return "err replica " + err.Error()
			}
			e.rep = r
		}
		return "ok " + e.committedLine()
	}
	if e.s == nil {
		return "nopool"
	}
	if e.sink {
		return "skip"
	}
	switch toks[0] {
	case "xfer":
		from, to := int(argI(toks, "from", 0)), int(argI(toks, "to", 1))
		amount := units(argI(toks, "amount", 1))
		gas := types.CalNewAmountGas(amount, types.EverLiankeFee)
		nonce := uint64(argI(toks, "nonce", 0))
		var data []byte
		if n := argI(toks, "pad", 0); n > 0 {
			data = make([]byte, n) // oversized payload (zero bytes)
			gas += uint64(n) * 100
		}
		// admission filters (IllegalGasLimitOrGasPrice / IntrinsicGas / CheckBasicWithState): explicit gas limit, nz non-zero
		// and z zero data bytes, recipient = the genesis contract (tocode=1) or none (create=1)
		if g := argI(toks, "gas", -1); g >= 0 {
			gas = uint64(g)
		}
		if nz, z := argI(toks, "nz", 0), argI(toks, "z", 0); nz+z > 0 {
			data = make([]byte, nz+z)
			for i := int64(0); i < nz; i++ {
				data[i] = 0x11
			}
		}
		toAddr := e.accts[to].Addr
		if argI(toks, "tocode", 0) == 1 {
			toAddr = appsim.ContractAddr
		}
		var tx *types.Transaction
		if argI(toks, "create", 0) == 1 {
			tx = types.NewContractCreation(nonce, amount, gas, big.NewInt(types.ParGasPrice), data)
		} else {
			tx = types.NewTransaction(nonce, toAddr, amount, gas, big.NewInt(types.ParGasPrice), data)
		}
		err := tx.Sign(types.GlobalSTDSigner, e.accts[from].Key)
		return e.submit("xfer", from, nonce, tx, err, toks)
	case "xfertok":
		from, to := int(argI(toks, "from", 0)), int(argI(toks, "to", 1))
		amount := units(argI(toks, "amount", 1))
		gas := types.CalNewAmountGas(big.NewInt(0), types.EverLiankeFee)
		nonce := uint64(argI(toks, "nonce", 0))
		tx := types.NewTokenTransaction(e.tok, nonce, e.accts[to].Addr, amount, gas, big.NewInt(types.ParGasPrice), nil)
		err := tx.Sign(types.GlobalSTDSigner, e.accts[from].Key)
		return e.submit("xfertok", from, nonce, tx, err, toks)
	case "ain":
		from, w := int(argI(toks, "from", 0)), e.wallets[argI(toks, "w", 0)]
		amount := units(argI(toks, "amount", 1))
		fee := e.fee(types.CalNewAmountGas(amount, types.EverLiankeFee))
		if f := argI(toks, "feeu", -1); f >= 0 {
			fee = units(f)
		}
		nonce := uint64(argI(toks, "nonce", 0))
		tx, err := appsim.BuildAin(e.accts[from], nonce, new(big.Int).Add(amount, fee), []types.DestEntry{w.Dest(amount)}, common.EmptyAddress)
		return e.submit("ain", from, nonce, tx, err, toks)
	case "uu", "ua":
		w := e.wallets[argI(toks, "w", 0)]
		k := int(argI(toks, "in", 0))
		if k < 0 || k >= len(w.Outs) {
			return "noinput"
		}
		in := *w.Outs[k]
		ufee := e.fee(e.s.App.GetUTXOGas())
		var dests []types.DestEntry
		amount := units(argI(toks, "amount", 1))
		if toks[0] == "uu" {
			change := new(big.Int).Sub(new(big.Int).Sub(in.Amount, amount), ufee)
			if change.Sign() < 0 {
				return "build=funds"
			}
			dests = append(dests, e.wallets[argI(toks, "to", 1)].Dest(amount))
			if change.Sign() > 0 {
				dests = append(dests, w.Dest(change))
			}
		} else {
			afee := e.fee(types.CalNewAmountGas(amount, types.EverLiankeFee))
			change := new(big.Int).Sub(new(big.Int).Sub(in.Amount, amount), afee)
			if change.Sign() < 0 {
				return "build=funds"
			}
			dests = append(dests, &types.AccountDestEntry{To: e.accts[argI(toks, "to", 0)].Addr, Amount: amount})
			if change.Sign() > 0 {
				change.Sub(change, ufee)
				if change.Sign() <= 0 {
					return "build=funds"
				}
				dests = append(dests, w.Dest(change))
			}
		}
		tx, err := appsim.BuildUin(w, []*appsim.OwnedOut{&in}, dests, common.EmptyAddress, common.EmptyAddress)
		if err == nil {
			// alterations after construction (as appsim.ChainExec does): the basic check must refuse every one of them
			switch t, _ := hx.Arg(toks, "tamper"); t {
			case "outpk":
				tx.RCTSig.OutPk[0].Mask[5] ^= 1
			case "pseudo":
				tx.RCTSig.P.PseudoOuts[0][5] ^= 1
			case "fee":
				tx.Fee = new(big.Int).Sub(tx.Fee, e.fee(1))
			case "proof":
				tx.RCTSig.P.Bulletproofs[0].T[3] ^= 1
			case "sig":
				tx.RCTSig.P.Ss[0].C[3] ^= 1
			}
		}
		return e.submit(toks[0], -1, 0, tx, err, toks)
	case "msig": // a MultiSignAccountTx (special lane): nonce of the fixed multi-sign address, signed by the first `sigs` validators
		nonce := uint64(argI(toks, "nonce", 0))
		info := &types.MultiSignMainInfo{AccountNonce: nonce, SupportTxType: types.TxUpdateValidatorsType,
			SignersInfo: types.SignersInfo{MinSignerPower: int32(20 + argI(toks, "variant", 0)), Signers: []*types.SignerEntry{
				{Power: 10, Addr: common.HexToAddress("0x1")}, {Power: 10, Addr: common.HexToAddress("0x2")}, {Power: 10, Addr: common.HexToAddress("0x3")}}}}
		tx := types.NewMultiSignAccountTx(info, nil)
		var err error
		for i := 0; i < int(argI(toks, "sigs", int64(len(e.privs)))) && i < len(e.privs) && err == nil; i++ {
			err = tx.Sign(e.privs[i])
		}
		return e.submit("msig", -1, nonce, tx, err, toks)
	case "resub": // the same transaction object again
		id := int(argI(toks, "id", 0))
		if id < 0 || id >= len(e.txs) {
			return "notx"
		}
		cls := addClass(e.mp.AddTx("", e.txs[id]))
		return fmt.Sprintf("add=%s %s", cls, e.dump())
	case "reap":
		max := int(argI(toks, "max", 1000))
		txs := e.mp.Reap(max)
		var out []int
		for _, tx := range txs {
			id, ok := e.byHash[tx.Hash()]
			if !ok {
				id = -1
			}
			out = append(out, id)
		}
		ex := "ok"
		if _, err := e.s.BlockOf(e.coin, txs); err != nil {
			ex = appsim.ErrClass(err)
		}
		return fmt.Sprintf("txs=%s exec=%s %s", ids(out), ex, e.committedLine())
	case "commit", "force":
		before := e.view()
		var b *types.Block
		var err error
		if toks[0] == "commit" {
			b, err = e.s.Propose(e.coin, int(argI(toks, "max", 1000)))
		} else {
			var txs types.Txs
			v, _ := hx.Arg(toks, "ids")
			for _, s := range hx.SplitComma(v) {
				id, err := strconv.Atoi(s)
				if err == nil && id >= 0 && id < len(e.txs) {
					txs = append(txs, e.txs[id])
				}
			}
			b, err = e.s.BlockOf(e.coin, txs)
		}
		if err != nil {
			return "propose=" + appsim.ErrClass(err)
		}
		ans := e.finish(b)
		if strings.HasPrefix(ans, "h=") && e.touched(before) >= 2 {
			e.sink = true
			return "nondet"
		}
		return ans
	case "conc":
		return e.conc(toks)
	case "evictwait":
		// wait for the pool's own 10 s eviction tick (rmfuture=1 and a tiny Lifetime): every queued transaction goes
		deadline := time.Now().Add(13 * time.Second)
		for time.Now().Before(deadline) {
			if _, _, q := e.mp.Stats(); q == 0 {
				break
			}
			time.Sleep(50 * time.Millisecond)
		}
		return "evicted " + e.dump()
	case "recv":
		return e.recv(toks)
	case "window":
		// AddTx(tx) is started on its own goroutine and paused between cache.Put and the basic check; in that window the
		// consensus goroutine validates a (foreign) block holding exactly that transaction, on this stack and on the cold replica
		id := int(argI(toks, "id", 0))
		if id < 0 || id >= len(e.txs) {
			return "notx"
		}
		tx := e.txs[id]
		e.gate.arm(tx.Hash())
		done := make(chan error, 1)
		go func() { done <- e.mp.AddTx("", tx) }()
		var err error
		var during, cold string
		select {
		case <-e.gate.entered:
			during, cold = e.verdicts(tx)
			close(e.gate.release)
			err = <-done
		case err = <-done: // refused before the basic check (duplicate): no window
			e.gate.disarm()
			during, cold = e.verdicts(tx)
		}
		return fmt.Sprintf("during=%s cold=%s add=%s %s", during, cold, addClass(err), e.dump())
	}
	return "bad-op"
}

// touched: promoteExecutables(nil) ranges over the futureTxs MAP, so when the queues of two or more senders are touched by
// one Update the order of the promoted entries in goodTxs (and who gets the remaining room) is not determined.  The number
// of touched senders is computed from the observable views before and after by the same rule the model driver uses:
// senders of entries queued before that are now in good, or gone, or still queued at exactly the speculative nonce.
func (e *exec) touched(before view) int {
	after := e.view()
	inG, inQ := map[int]bool{}, map[int]bool{}
	for _, id := range after.good {
		inG[id] = true
	}
	for _, id := range after.queued {
		inQ[id] = true
	}
	senders := map[int]bool{}
	for _, id := range before.queued {
		if inG[id] || !inQ[id] {
			senders[e.info[id].from] = true
		}
	}
	for _, id := range after.queued {
		from := e.info[id].from
		if from >= 0 && e.info[id].nonce == e.s.App.GetNonce(e.accts[from].Addr) {
			senders[from] = true
		}
	}
	return len(senders)
}

// verdicts: CheckBlock on a block holding exactly tx, on this stack (whose mempool cache is what it is right now) and on
// the cold replica.  Nothing is committed.
func (e *exec) verdicts(tx types.Tx) (string, string) {
	b, err := e.s.BlockOf(e.coin, types.Txs{tx})
	if err != nil {
		return "propose-" + appsim.ErrClass(err), "-"
	}
	ok, err := e.s.Validate(b)
	during := fmt.Sprint(ok)
	if err != nil {
		during = appsim.ErrClass(err)
	}
	cold := "-"
	if e.rep != nil {
		if rb, err := appsim.Rewire(b); err == nil {
			okr, err := e.rep.Validate(rb)
			cold = fmt.Sprint(okr)
			if err != nil {
				cold = appsim.ErrClass(err)
			}
		}
	}
	return during, cold
}

// replicaSees runs the block through the cold replica: its verdict must be the one of this stack; an accepted block is
// committed there too so that the two chains stay equal.
func (e *exec) replicaSees(b *types.Block, accepted bool) string {
	if e.rep == nil {
		return ""
	}
	rb, err := appsim.Rewire(b)
	if err != nil {
		return " acceptance=rewire-failed"
	}
	okr, err := e.rep.Validate(rb)
	if err != nil || okr != accepted {
		return fmt.Sprintf(" acceptance=differs:warm=%v,cold=%v", accepted, okr)
	}
	if accepted {
		if err := e.rep.Commit(rb); err != nil {
			return " acceptance=cold-commit-failed"
		}
	}
	return ""
}

func (e *exec) finish(b *types.Block) string {
	ok, err := e.s.Validate(b)
	if err != nil {
		return "validate=" + appsim.ErrClass(err)
	}
	if !ok {
		return "validate=false" + e.replicaSees(b, false)
	}
	if err := e.s.Commit(b); err != nil {
		return "commit=" + appsim.ErrClass(err)
	}
	repl := e.replicaSees(b, true)
	var out []int
	for _, tx := range b.Data.Txs {
		id, ok := e.byHash[tx.Hash()]
		if !ok {
			id = -1
		} else {
			e.committed[id] = true
		}
		out = append(out, id)
		if u, ok := tx.(*types.UTXOTransaction); ok {
			for _, in := range u.Inputs {
				if ui, ok := in.(*types.UTXOInput); ok {
					e.markSpent(ui.KeyImage)
				}
			}
			for _, w := range e.wallets {
				w.Scan(u, e.s.GlobalIndexer(u.TokenID))
			}
		}
	}
	return fmt.Sprintf("h=%d txs=%s %s %s%s", b.Height, ids(out), e.committedLine(), e.dump(), repl)
}

func (e *exec) markSpent(img lktypes.Key) {
	for _, w := range e.wallets {
		for _, o := range w.Outs {
			if o.Spent {
				continue
			}
			ephs, err := types.GenerateKeyImage(&w.Key, w.Idx, []*types.UTXOSourceEntry{o.Source()})
			if err == nil && len(ephs) == 1 && ephs[0].KeyImage == img {
				o.Spent = true
			}
		}
	}
}

// ---- invariants evaluated on the real pool (used by the concurrent stream) ---------------------------------------

// checkReap evaluates the property on one Reap result against the committed state; returns violation classes.
func (e *exec) checkReap(txs types.Txs) []string {
	var viol []string
	seen := map[common.Hash]bool{}
	imgs := map[lktypes.Key]bool{}
	st := e.s.App.GetLatestStateDB()
	next := map[common.Address]uint64{}
	for _, tx := range txs {
		h := tx.Hash()
		if seen[h] {
			viol = append(viol, "reap-duplicate")
		}
		seen[h] = true
		if id, ok := e.byHash[h]; ok && e.committed[id] {
			viol = append(viol, "reap-committed")
		}
		hasAccountInput := true
		if u, ok := tx.(*types.UTXOTransaction); ok {
			hasAccountInput = (u.UTXOKind() & types.Ain) == types.Ain
			for _, in := range u.Inputs {
				if ui, ok := in.(*types.UTXOInput); ok {
					if imgs[ui.KeyImage] {
						viol = append(viol, "reap-shared-image")
					}
					imgs[ui.KeyImage] = true
					if e.s.Utxo.HaveTxKeyimgAsSpent(&ui.KeyImage) {
						viol = append(viol, "reap-committed-image")
					}
				}
			}
		}
		if hasAccountInput {
			from, err := tx.From()
			if err != nil {
				viol = append(viol, "reap-bad-sender")
				continue
			}
			if _, ok := next[from]; !ok {
				next[from] = st.GetNonce(from)
			}
			var nonce uint64
			if rt, ok := tx.(types.RegularTx); ok {
				nonce = rt.Nonce()
			}
			if nonce != next[from] {
				viol = append(viol, "reap-nonce-gap")
			}
			next[from] = nonce + 1
		}
	}
	return viol
}

func (e *exec) conc(toks []string) string {
	// lists of prebuilt transaction ids, one list per goroutine: lists=1,2,3|4,5|...
	v, _ := hx.Arg(toks, "lists")
	var lists [][]int
	for _, l := range strings.Split(v, "|") {
		var xs []int
		for _, s := range hx.SplitComma(l) {
			if id, err := strconv.Atoi(s); err == nil && id >= 0 && id < len(e.txs) {
				xs = append(xs, id)
			}
		}
		lists = append(lists, xs)
	}
	rounds := int(argI(toks, "commits", 3))
	max := int(argI(toks, "max", 1000))
	var wg sync.WaitGroup
	for _, l := range lists {
		wg.Add(1)
		go func(l []int) {
			defer wg.Done()
			for _, id := range l {
				e.mp.AddTx("", e.txs[id])
			}
		}(l)
	}
	violSet := map[string]bool{}
	round := func() {
		// the consensus goroutine: reap (monitored), then build, validate and commit a block
		for _, c := range e.checkReap(e.mp.Reap(max)) {
			violSet[c] = true
		}
		b, err := e.s.Propose(e.coin, max)
		if err != nil {
			violSet["propose-"+appsim.ErrClass(err)] = true
			return
		}
		ok, err := e.s.Validate(b)
		if err != nil || !ok {
			violSet["own-block-rejected"] = true
			return
		}
		if err := e.s.Commit(b); err != nil {
			violSet["commit-failed"] = true
			return
		}
		for _, tx := range b.Data.Txs {
			if id, ok := e.byHash[tx.Hash()]; ok {
				if e.committed[id] {
					violSet["committed-twice"] = true
				}
				e.committed[id] = true
			}
		}
	}
	for r := 0; r < rounds; r++ {
		round()
	}
	wg.Wait()
	// quiescence: drain
	drained := 0
	for r := 0; r < 50; r++ {
		g, u := e.mp.GoodTxsSize(), e.mp.UTXOTxsSize()
		if g+u == 0 {
			break
		}
		round()
		drained++
	}
	for _, c := range e.checkReap(e.mp.Reap(max)) {
		violSet[c] = true
	}
	if e.mp.GoodTxsSize()+e.mp.UTXOTxsSize() != 0 {
		violSet["not-drained"] = true
	}
	var vs []string
	for c := range violSet {
		vs = append(vs, c)
	}
	sort.Strings(vs)
	e.sink = true
	if len(vs) == 0 {
		return "conc viol=none"
	}
	return "conc viol=" + strings.Join(vs, ",")
}

// recv: a peer's message through MempoolReactor.Receive (decodeMsg + the message handler).  The reactor's own routines are
// not started: what Receive queued in the receive cache is handed to Mempool.AddTx here, in order, exactly as
// handleReceiveTx -> Mempool.add does, so that the outcome is deterministic.
func (e *exec) recv(toks []string) string {
	kind, _ := hx.Arg(toks, "kind")
	id := int(argI(toks, "id", 0))
	var bz []byte
	var err error
	switch kind {
	case "garbage":
		bz = []byte{0xde, 0xad, 0xbe, 0xef, byte(id)}
	case "empty":
		bz = []byte{}
	case "niltx":
		bz, err = ser.EncodeToBytesWithType(&mempool.TxMessage{})
	case "notify", "request":
		if id < 0 || id >= len(e.txs) {
			return "notx"
		}
		k := mempool.TxHashNotify
		if kind == "request" {
			k = mempool.TxHashRequest
		}
		bz, err = ser.EncodeToBytesWithType(&mempool.TxHashMessage{Hashs: []common.Hash{e.txs[id].Hash()}, Kind: k})
	default: // a transaction
		if id < 0 || id >= len(e.txs) {
			return "notx"
		}
		bz, err = ser.EncodeToBytesWithType(&mempool.TxMessage{Tx: e.txs[id]})
	}
	if err != nil {
		return "encode=" + appsim.ErrClass(err)
	}
	stoppedBefore := len(e.sw.Stopped)
	e.react.Receive(mempool.MempoolChannel, e.peer, bz)
	var classes []string
	l := e.react.GetRecvCache()
	for el := l.Front(); el != nil; el = l.Front() {
		l.Remove(el)
		el.DetachPrev()
		if m, ok := el.Value.(*mempool.RecieveMessage); ok {
			classes = append(classes, addClass(e.mp.AddTx(m.PeerID, m.Tx)))
		}
	}
	add := "-"
	if len(classes) > 0 {
		add = strings.Join(classes, ",")
	}
	return fmt.Sprintf("queued=%d stopped=%d add=%s %s", len(classes), len(e.sw.Stopped)-stoppedBefore, add, e.dump())
}
