package c15

import (
	"fmt"
	"math/big"
	"strconv"
	"strings"

	"github.com/lianxiangcloud/linkchain/types"

	"lvharness/appsim"
	"lvharness/hx"
)

type P struct{}

// KnownClass is the classification of every failure that follows a fee-too-low account-input confidential transaction
// whose rejection left the speculative state debited (types/tx_utxo.go checkState: fee test after the debit).
// Fixed in the repository by commit 6dc6087; the class stays so that a regression is reported under the same name.
const KnownClass = "ain-fee-low-dirties-checkstate"

func (P) Rule() string {
	return "each case builds the real LinkApplication on MemDBs with the REAL mempool.Mempool (pool sizes 1,2,3,5,3000; future sizes 1,2,4,10^5; UTXOSize 1,2,1000; MaxReapSize 1,3,10^4) and runs a " +
		"history of submissions through Mempool.AddTx (valid next-nonce xfer / token xfer / account->confidential, duplicates of earlier objects and equal-content re-signs, future nonces, stale nonces, " +
		"underfunded, oversized payload, fee-too-low account->confidential, confidential spends incl. two spends of one output), Reap(max) for several max (each reaped set is executed by the real " +
		"CreateBlock-equivalent + PreRunBlock), commits of blocks built by CreateBlock+PreRunBlock+CheckBlock+CommitBlock (Mempool.Update inside) and of forced blocks holding arbitrary earlier " +
		"transactions (what another or a Byzantine proposer commits), printing after every op the order of goodTxs and utxoTxs, the queued set, Stats, the speculative and committed nonces/balances; " +
		"a survivor stream (90 quick / 300 thorough cases) makes pending transactions SURVIVE a commit that does not contain them (forced block of an unrelated tx, empty forced block, own block cut by the UTXOSize/max cap, " +
		"foreign block holding a CONFLICTING spend or a same-nonce competitor) with goodTxs and utxoTxs each empty or not at that Update (every recheck path), then submits a second spend of the same output / the same nonce and reaps and commits; " +
		"a middle stream (60 quick / 200 thorough) lets a forced block invalidate a MIDDLE transaction of a sender's pending run — a never-submitted competitor with the first nonce drains the balance so that the second one is " +
		"underfunded while the ones behind it become nonce-too-high (recheckTxs must move them to the future queue AND out of goodTxs), or the block carries the first one plus a competitor of the second — then refills the gap and reaps / commits; " +
		"a cache-window stream (50 quick / 150 thorough, with a COLD REPLICA stack that never sees a submission and must give the same verdict on every block) submits confidential transactions ALTERED after construction " +
		"(outpk, pseudo-out, range proof, ring signature) and oversize ones — admission refuses them — and forces foreign blocks holding them, immediately, after other ops, and INSIDE the window of a paused AddTx " +
		"(op window: cache.Put done, basic check not finished — the interleaving in which only CheckAndGet protects the validator path), also for valid transactions and for spends of spent outputs; " +
		"coverage-guided streams: LANES (40/150: validators installed with SetLastChangedVals, MultiSignAccountTx with enough / too few signatures, due / stale / future nonce, same nonce in two variants, SpecSize 1/2/100 incl. the refusal after the state check, " +
		"Reap caps 0/1/2/1000 against the lane order good ++ utxo ++ special, forced blocks with a competitor / an under-signed one), QCAP (45/150: RemoveFutureTx with AccountQueue 1/2/3 and queues of cap-1 / cap / cap+1 / cap+2 entries per sender, " +
		"GoodTxDropTime=0 so that filterTxs drops every pending tx the block did not take, Broadcast on with a one-slot channel, TxsAvailable enabled), one EVICT case that waits for the pool's own 10 s eviction tick, " +
		"FILTERS (35/120, no commits: explicit gas limits at rule-1 / rule / rule+1 and intrinsic-1 / intrinsic, 0..7045 non-zero and zero data bytes, recipient with code / without / none, and the same transactions as PEER MESSAGES through " +
		"MempoolReactor.Receive — valid, duplicate, stale, oversize, illegal gas, undecodable bytes, empty, hash notify / request, with ReceiveP2pTx on and off); every dump also carries the key-image index verdict and the TxsAvailable signal; " +
		"a concurrent stream submits prebuilt transactions from 8 goroutines while the consensus goroutine reaps and commits, invariants checked on every reap and after quiescence; " +
		"non-trivial = at least one commit with a transaction AND at least one of: queued transaction promoted, rejection (dup/stale/funds/double-spend/full/oversized), forced block; distinct = distinct op sequence"
}

func (P) NewExec() hx.Executor { return &exec{} }

type minfo struct {
	tampered bool
	kind   string
	from   int
	nonce  int64
	img    int
	amount int64
}

func parseIDs(s string) []int {
	var out []int
	for _, x := range hx.SplitComma(s) {
		if n, err := strconv.Atoi(x); err == nil {
			out = append(out, n)
		}
	}
	return out
}

func parseInts(s string) []int64 {
	var out []int64
	for _, x := range hx.SplitComma(s) {
		n, _ := strconv.ParseInt(x, 10, 64)
		out = append(out, n)
	}
	return out
}

// cost of an account-input transaction in units of 10^10 wei, from the op line that built it
func costOf(m minfo, toks []string) (native int64, tok int64) {
	fee := func(amountUnits int64) int64 {
		g := types.CalNewAmountGas(new(big.Int).Mul(big.NewInt(amountUnits), appsim.Unit), types.EverLiankeFee)
		return int64(g) * (types.ParGasPrice / 1e10)
	}
	switch m.kind {
	case "xfer":
		if g := argI(toks, "gas", -1); g >= 0 {
			return m.amount + g*(types.ParGasPrice/1e10), 0
		}
		return m.amount + fee(m.amount), 0
	case "xfertok":
		return fee(0), m.amount
	case "ain":
		if f := argI(toks, "feeu", -1); f >= 0 {
			return m.amount + f, 0
		}
		return m.amount + fee(m.amount), 0
	}
	return 0, 0
}

func (P) Monitor(c *hx.CaseRun) []hx.Failure {
	var fs []hx.Failure
	info := map[int]minfo{}
	optoks := map[int][]string{}
	committed := map[int]bool{}
	committedImg := map[int]bool{}
	var cn, cb, ct []int64
	size := 3000
	availOn, notified, acctQ, evictAll, dropAll := false, false, 0, false, false
	pendingBefore := map[int]bool{}
	dirty := false
	prevSpec := ""
	fail := func(mon, class, site, msg string, dirtyRelated bool) {
		if dirtyRelated && dirty {
			class = KnownClass
			site = "types/tx_utxo.go:checkState"
		}
		for _, f := range fs {
			if f.Monitor == mon && f.Class == class {
				return
			}
		}
		fs = append(fs, hx.Failure{Monitor: mon, Class: class, Site: site, Msg: msg})
	}
	// the property on a list of offered transactions (in offer order) against the committed state
	mnComm := int64(0) // committed nonce of the multi-sign address (from the last dump)
	checkOffered := func(where string, ids []int, funded bool) {
		nextMsig := mnComm
		seenAccountOrSpend, laneOrder := false, true
		_ = seenAccountOrSpend
		seen := map[int]bool{}
		imgs := map[int]bool{}
		next := map[int]int64{}
		spent := map[int]int64{}
		spentTok := map[int]int64{}
		for _, id := range ids {
			if seen[id] {
				fail("offered_distinct", "offered-duplicate", "mempool/mempool.go:Reap", fmt.Sprintf("%s: tx %d offered twice", where, id), false)
			}
			seen[id] = true
			if committed[id] {
				fail("offered_not_committed", "offered-committed", "mempool/mempool.go:filterTxs", fmt.Sprintf("%s: tx %d is already committed", where, id), false)
			}
			m, ok := info[id]
			if !ok {
				continue
			}
			if m.kind == "msig" {
				// the special lane is offered last and carries the nonces of the multi-sign address without a gap
				laneOrder = false
				if m.nonce != nextMsig {
					fail("offered_gapfree", "offered-special-lane-nonce-gap", "mempool/mempool.go:addLocalSpecTx",
						fmt.Sprintf("%s: multi-sign tx %d carries nonce %d where %d is due", where, id, m.nonce, nextMsig), false)
				}
				nextMsig = m.nonce + 1
				continue
			}
			if !laneOrder {
				fail("lane_order", "offered-lane-order", "mempool/mempool.go:Reap", fmt.Sprintf("%s: tx %d of an ordinary lane is offered after a special-lane transaction", where, id), false)
			}
			if m.img >= 0 {
				if imgs[m.img] {
					fail("offered_no_shared_image", "offered-shared-image", "types/tx_utxo.go:checkState", fmt.Sprintf("%s: two offered txs spend key image class %d", where, m.img), false)
				}
				imgs[m.img] = true
				if committedImg[m.img] {
					fail("offered_no_committed_image", "offered-committed-image", "mempool/mempool.go:recheckUtxoTxs", fmt.Sprintf("%s: tx %d spends an already committed key image", where, id), false)
				}
			}
			if m.from >= 0 && m.from < len(cn) {
				if _, ok := next[m.from]; !ok {
					next[m.from] = cn[m.from]
				}
				if m.nonce != next[m.from] {
					fail("offered_gapfree", "offered-nonce-gap", "mempool/mempool.go:addGoodTx", fmt.Sprintf("%s: sender %d offers nonce %d where %d is due (committed nonce %d)", where, m.from, m.nonce, next[m.from], cn[m.from]), true)
				}
				next[m.from] = m.nonce + 1
				n, t := costOf(m, optoks[id])
				spent[m.from] += n
				spentTok[m.from] += t
				if funded && m.from < len(cb) && (spent[m.from] > cb[m.from] || spentTok[m.from] > ct[m.from]) {
					fail("offered_funded", "offered-underfunded", "mempool/mempool.go:recheckTxs", fmt.Sprintf("%s: cumulative cost of sender %d exceeds its committed balance", where, m.from), true)
				}
			}
		}
	}
	for i, op := range c.Ops {
		ans := c.Impl[i]
		toks := hx.Tokens(op)
		a := hx.Tokens(ans)
		if strings.HasPrefix(ans, "panic") {
			fail("no_panic", "panic:"+ans, "mempool", op+" -> "+ans, true)
			continue
		}
		if toks[0] == "pool" {
			size = int(argI(toks, "size", 3000))
			availOn = argI(toks, "avail", 0) == 1
			if argI(toks, "rmfuture", 0) == 1 {
				acctQ = int(argI(toks, "acctq", 1000))
				evictAll = argI(toks, "lifens", 0) > 0
			}
			dropAll = argI(toks, "droptime", -1) == 0
		}
		if v, ok := hx.Arg(a, "cn"); ok {
			cn = parseInts(v)
			v, _ = hx.Arg(a, "cb")
			cb = parseInts(v)
			v, _ = hx.Arg(a, "ct")
			ct = parseInts(v)
			if toks[0] == "pool" {
				cnv, _ := hx.Arg(a, "cn")
				cbv, _ := hx.Arg(a, "cb")
				prevSpec = cnv + " " + cbv + " " + v
			}
		}
		if v, ok := hx.Arg(a, "id"); ok {
			id, _ := strconv.Atoi(v)
			if _, have := info[id]; !have {
				from := -1
				if toks[0] != "uu" && toks[0] != "ua" && toks[0] != "msig" {
					from = int(argI(toks, "from", 0))
				}
				_, tampered := hx.Arg(toks, "tamper")
				info[id] = minfo{tampered: tampered, kind: toks[0], from: from, nonce: argI(toks, "nonce", 0), img: int(argI(a, "img", -1)), amount: argI(toks, "amount", 1)}
				optoks[id] = toks
			}
		}
		if strings.Contains(ans, " acceptance=") {
			fail("block_acceptance_cache_independent", "block-acceptance-depends-on-mempool", "app/app.go:verifyTxsOnProcess",
				"the node that saw the submissions and the cold replica disagree on a block: "+op+" -> "+ans, false)
		}
		switch toks[0] {
		case "window":
			during, _ := hx.Arg(a, "during")
			cold, _ := hx.Arg(a, "cold")
			if cold != "-" && cold != "" && during != cold {
				fail("block_acceptance_cache_independent", "block-acceptance-depends-on-mempool", "mempool/mempool.go:GetTxFromCache",
					"while AddTx is between cache.Put and the end of the basic check, CheckBlock of a block holding that transaction says "+during+" on this node and "+cold+" on a node with a cold cache: "+op, false)
			}
			if m, ok := info[int(argI(toks, "id", -1))]; ok && m.tampered && during == "true" {
				fail("invalid_confidential_tx_refused", "invalid-confidential-tx-accepted", "app/app.go:verifyTxsOnProcess",
					"a block holding a confidential transaction altered after construction passed CheckBlock: "+op+" -> "+ans, false)
			}
		case "reap":
			v, _ := hx.Arg(a, "txs")
			ids := parseIDs(v)
			checkOffered("reap", ids, true)
			if ex, has := hx.Arg(a, "exec"); has && ex != "ok" {
				fail("reaped_block_executes", "reaped-block-does-not-execute", "app/app.go:PreRunBlock", "the block built from "+op+" does not execute: "+ans, true)
			}
			if max := int(argI(toks, "max", 1000)); max <= 0 && len(ids) > 0 {
				fail("reap_cap", "reap-ignores-zero-cap", "mempool/mempool.go:Reap", ans, false)
			}
		case "commit", "force":
			if toks[0] == "commit" && (strings.HasPrefix(ans, "propose=") || strings.HasPrefix(ans, "validate=") || strings.HasPrefix(ans, "commit=")) {
				fail("own_block_executes", "own-block-fails:"+strings.SplitN(ans, " ", 2)[0], "app/app.go:PreRunBlock", "a block built from the mempool by CreateBlock fails: "+ans, true)
			}
			if strings.HasPrefix(ans, "h=") {
				v, _ := hx.Arg(a, "txs")
				for _, id := range parseIDs(v) {
					if m, ok := info[id]; ok && m.tampered {
						fail("invalid_confidential_tx_refused", "invalid-confidential-tx-accepted", "app/app.go:verifyTxsOnProcess",
							fmt.Sprintf("tx %d, a confidential transaction altered after construction, was committed: %s", id, op), false)
					}
					if committed[id] {
						fail("committed_once", "tx-committed-twice", "app/app.go:CommitBlock", fmt.Sprintf("tx %d committed twice", id), false)
					}
					committed[id] = true
					if m, ok := info[id]; ok && m.img >= 0 {
						committedImg[m.img] = true
					}
				}
			}
		case "conc":
			if v, _ := hx.Arg(a, "viol"); v != "none" && v != "" {
				for _, cl := range hx.SplitComma(v) {
					fail("concurrent_invariants", "conc:"+cl, "mempool/mempool.go", "concurrent submissions with reaps/commits: "+cl, true)
				}
			}
		}
		// pool dump present?
		gv, hasDump := hx.Arg(a, "g")
		if !hasDump {
			continue
		}
		uv, _ := hx.Arg(a, "u")
		qv, _ := hx.Arg(a, "q")
		g, u, q := parseIDs(gv), parseIDs(uv), parseIDs(qv)
		snv, _ := hx.Arg(a, "sn")
		sn := parseInts(snv)
		sbv, _ := hx.Arg(a, "sb")
		stv, _ := hx.Arg(a, "st")
		spec := snv + " " + sbv + " " + stv
		// (while goodTxs is full a transaction that passed the state check is parked or refused with the speculative state
		// already advanced; nothing can enter goodTxs before the next Update resets it, so only the roomy case is a defect)
		if add, ok := hx.Arg(a, "add"); ok && add != "ok" && prevSpec != "" && spec != prevSpec && len(g) < size {
			if add == "fee-low" {
				dirty = true
			}
			fail("rejected_admission_is_stateless", "rejected-"+add+"-changes-speculative-state", "types/tx_utxo.go:checkState",
				fmt.Sprintf("%s was rejected (%s) but the speculative state changed from [%s] to [%s]", op, add, prevSpec, spec), true)
		}
		prevSpec = spec
		sv, _ := hx.Arg(a, "s")
		specIDs := parseIDs(sv)
		if mv, ok := hx.Arg(a, "mn"); ok {
			if p := parseInts(mv); len(p) == 2 {
				mnComm = p[1]
			}
		}
		checkOffered("pending after "+toks[0], append(append(append([]int{}, g...), u...), specIDs...), false)
		// the key-image index must be exactly the images of the pooled confidential spends
		if ki, ok := hx.Arg(a, "ki"); ok && ki != "ok" {
			cls := "keyimage-index-stale"
			if !strings.Contains(ki, "missing:0") {
				cls = "keyimage-index-missing"
			}
			fail("keyimage_index_exact", cls, "mempool/mempool.go:KeyImagePush",
				"after "+op+": the pool's key-image index differs from the images of the transactions in utxoTxs ("+ki+"): a stale image refuses a valid spend forever, a missing one lets two spends of one output in", false)
		}
		// TxsAvailable (liveness, outside the property's safety clauses): a non-empty pool must have notified since the last commit
		if av, ok := hx.Arg(a, "av"); ok && availOn {
			if strings.HasPrefix(ans, "h=") {
				notified = av == "1"
			} else if av == "1" {
				notified = true
			}
			if len(g)+len(u)+len(specIDs) > 0 && !notified {
				fail("txs_available_notified", "txs-available-notification-missed", "mempool/mempool.go:notifyTxsAvailable",
					"after "+op+": the pool offers transactions but no TxsAvailable notification has fired since the last commit (the proposer would wait)", false)
			}
		}
		// per-account queue cap (RemoveFutureTx): after an Update no sender keeps more than AccountQueue queued transactions
		if acctQ > 0 && strings.HasPrefix(ans, "h=") {
			cnt := map[int]int{}
			for _, id := range q {
				if m, ok := info[id]; ok && m.from >= 0 {
					cnt[m.from]++
					if cnt[m.from] > acctQ {
						fail("queue_cap", "account-queue-over-cap", "mempool/tx_list.go:Cap", fmt.Sprintf("after %s: sender %d keeps more than %d queued transactions", op, m.from, acctQ), false)
					}
				}
			}
		}
		if toks[0] == "evictwait" && evictAll && len(q) > 0 {
			fail("queue_eviction", "idle-queue-not-evicted", "mempool/mempool.go:loop", "the eviction tick left queued transactions of queues idle for longer than Lifetime: "+ans, false)
		}
		// GoodTxDropTime = 0: whatever was pending before the Update and was not committed must be gone
		if dropAll && strings.HasPrefix(ans, "h=") {
			for _, id := range append(append(append([]int{}, g...), u...), specIDs...) {
				if pendingBefore[id] {
					fail("timeout_drop", "timed-out-pending-kept", "mempool/mempool.go:filterTxs", fmt.Sprintf("after %s: tx %d is older than GoodTxDropTime and still pending", op, id), false)
				}
			}
		}
		pendingBefore = map[int]bool{}
		for _, id := range append(append(append([]int{}, g...), u...), specIDs...) {
			pendingBefore[id] = true
		}
		// peer messages: undecodable bytes cost the peer its connection, anything else does not; the admission answer of a peer's
		// transaction is the one of a local submission (checked by the correspondence); admission filters on the gas limit
		if toks[0] == "recv" {
			k, _ := hx.Arg(toks, "kind")
			st := argI(a, "stopped", 0)
			if (k == "garbage" || k == "empty") != (st == 1) {
				fail("peer_message_handling", "peer-punishment-wrong", "mempool/reactor.go:Receive", op+" -> "+ans, false)
			}
		}
		if toks[0] == "xfer" && argI(toks, "tocode", 0) == 0 && argI(toks, "pad", 0) == 0 {
			if add, ok := hx.Arg(a, "add"); ok {
				amount := argI(toks, "amount", 1)
				want := int64(types.CalNewAmountGas(new(big.Int).Mul(big.NewInt(amount), appsim.Unit), types.EverLiankeFee))
				gas := argI(toks, "gas", want)
				intr := int64(21000)
				if argI(toks, "create", 0) == 1 {
					intr = 53000
				}
				intr += 68*argI(toks, "nz", 0) + 4*argI(toks, "z", 0)
				legal := gas == want && gas >= intr
				if argI(toks, "create", 0) == 1 && argI(toks, "nz", 0)+argI(toks, "z", 0) > 0 {
					// no recipient and a payload that is not a JSON object: a contract creation may carry any gas that covers the rule
					legal = gas >= intr && (amount == 0 || gas >= want)
				}
				refused := add == "other:illegal_gasLimit_or_gasPrice"
				if legal == refused {
					fail("gas_limit_filter", "gas-limit-filter-wrong", "types/transaction.go:IllegalGasLimitOrGasPrice",
						fmt.Sprintf("%s: gas %d, fee-rule gas %d, intrinsic gas %d -> %s", op, gas, want, intr, add), false)
				}
			}
		}
		if qn := int(argI(a, "qn", -1)); qn != len(q) {
			fail("queue_count", "queued-count-mismatch", "mempool/mempool.go:stats", fmt.Sprintf("Stats() says %d queued, cache membership says %d", qn, len(q)), false)
		}
		for _, id := range q {
			m, ok := info[id]
			if !ok || m.from < 0 || m.from >= len(sn) {
				continue
			}
			if len(g) < size && m.nonce == sn[m.from] {
				fail("promotion_complete", "queued-tx-executable", "mempool/mempool.go:promoteExecutables",
					fmt.Sprintf("after %s: queued tx %d of sender %d has the speculative nonce %d and goodTxs has room", op, id, m.from, m.nonce), true)
			}
			if (toks[0] == "commit" || toks[0] == "force") && m.from < len(cn) && m.nonce < cn[m.from] {
				fail("stale_removed", "stale-queued-after-commit", "mempool/mempool.go:promoteExecutables",
					fmt.Sprintf("after %s: queued tx %d has nonce %d below the committed nonce %d", op, id, m.nonce, cn[m.from]), false)
			}
		}
	}
	return fs
}

// Witness is the minimised witness of the finding fixed by 6dc6087: the rejected fee-too-low transaction must leave sn/sb
// unchanged, nonce 1 must wait in the future queue, nonce 0 must be accepted and the block must execute.
var Witness = []string{
	"case tags=feelow",
	"pool accts=2 wallets=1 bal=100000000 size=10 future=10",
	"ain from=1 w=0 amount=20000000 nonce=0 feeu=0",
	"xfer from=1 to=0 amount=9 nonce=1",
	"reap max=100",
	"xfer from=1 to=0 amount=9 nonce=0",
	"reap max=100",
	"commit max=100",
}

type gen struct {
	g      *hx.Gen
	ops    []string
	next   []int // the generator's estimate of each sender's next nonce
	nIDs   int   // upper bound on ids handed out
	owned  []int
	accts  int
	bigBal bool
	gapper int
	tbal   int64
}

func (s *gen) add(f string, a ...interface{}) { s.ops = append(s.ops, fmt.Sprintf(f, a...)) }

func (s *gen) amount() int64 {
	if s.bigBal {
		return 1 + int64(s.g.Rng.Intn(1000000))
	}
	return 1 + int64(s.g.Rng.Intn(3000000))
}

func (s *gen) submitOne(tags map[string]bool) {
	r := s.g.Rng
	from := r.Intn(s.accts)
	to := r.Intn(s.accts)
	switch k := r.Intn(100); {
	case k < 34: // valid next nonce
		s.g.Count("sub:valid")
		if r.Intn(5) == 0 {
			s.add("xfertok from=%d to=%d amount=%d nonce=%d", from, to, 1+r.Intn(400), s.next[from])
		} else {
			s.add("xfer from=%d to=%d amount=%d nonce=%d", from, to, s.amount(), s.next[from])
		}
		s.next[from]++
		s.nIDs++
	case k < 44: // duplicate: the same object again, or an equal-content re-sign
		if s.nIDs > 0 {
			s.g.Count("sub:duplicate")
			tags["reject"] = true
			s.add("resub id=%d", r.Intn(s.nIDs))
		}
	case k < 58: // future nonce
		s.g.Count("sub:future")
		if r.Intn(5) != 0 {
			from = s.gapper
		}
		d := 1 + r.Intn(3)
		s.add("xfer from=%d to=%d amount=%d nonce=%d", from, to, s.amount(), s.next[from]+d)
		s.nIDs++
		tags["future"] = true
	case k < 64: // fill the gap: the due nonce of the gapper
		s.g.Count("sub:gapfill")
		from = s.gapper
		s.add("xfer from=%d to=%d amount=%d nonce=%d", from, to, s.amount(), s.next[from])
		s.next[from]++
		s.nIDs++
	case k < 70: // stale nonce
		if s.next[from] > 0 {
			s.g.Count("sub:stale")
			tags["reject"] = true
			s.add("xfer from=%d to=%d amount=%d nonce=%d", from, to, s.amount(), s.next[from]-1-r.Intn(s.next[from]))
			s.nIDs++
		}
	case k < 77: // underfunded
		s.g.Count("sub:underfunded")
		tags["reject"] = true
		if r.Intn(3) == 0 {
			s.add("xfertok from=%d to=%d amount=%d nonce=%d", from, to, s.tbal+1+int64(r.Intn(50)), s.next[from])
		} else if s.bigBal {
			s.add("xfer from=%d to=%d amount=%d nonce=%d", from, to, 999999000000+int64(r.Intn(1000000)), s.next[from])
		} else {
			s.add("xfer from=%d to=%d amount=%d nonce=%d", from, to, 20000000+int64(r.Intn(30000000)), s.next[from])
		}
		s.nIDs++
	case k < 80: // oversized
		s.g.Count("sub:oversized")
		tags["reject"] = true
		s.add("xfer from=%d to=%d amount=%d nonce=%d pad=%d", from, to, s.amount(), s.next[from], 33000+r.Intn(3000))
		s.nIDs++
	case k < 90: // account -> confidential
		if s.bigBal {
			s.g.Count("sub:ain")
			w := r.Intn(len(s.owned))
			s.add("ain from=%d w=%d amount=%d nonce=%d", from, w, 20000000000+int64(r.Intn(1000000))*10000, s.next[from])
			s.next[from]++
			s.nIDs++
		}
	default: // confidential spends (conflicts arise because `in` is drawn from few outputs)
		w := r.Intn(len(s.owned))
		if s.owned[w] > 0 {
			in := r.Intn(s.owned[w])
			if r.Intn(2) == 0 {
				s.g.Count("sub:uu")
				s.add("uu w=%d in=%d to=%d amount=%d", w, in, r.Intn(len(s.owned)), 1+r.Intn(5000000))
			} else {
				s.g.Count("sub:ua")
				s.add("ua w=%d in=%d to=%d amount=%d", w, in, to, 1+r.Intn(5000000))
			}
			s.nIDs++
			tags["conf"] = true
		}
	}
}

func pick(r interface{ Intn(int) int }, xs []int, defaultWeight int) int {
	if r.Intn(100) < defaultWeight {
		return xs[len(xs)-1]
	}
	return xs[r.Intn(len(xs))]
}

func (P) Generate(g *hx.Gen) {
	g.Case("corpus: a rejected fee-too-low account-input tx leaves the speculative state untouched (fixed by 6dc6087)", Witness, true)
	r := g.Rng
	n := g.Pick(220, 800) // every pool leaks ~2 MB (the 4 txHeap goroutines of mempool.newTxHeapManager never exit)
	for k := 0; k < n; k++ {
		tags := map[string]bool{}
		s := &gen{g: g, accts: 3, owned: []int{0, 0}}
		s.bigBal = r.Intn(2) == 0
		s.next = make([]int, s.accts)
		s.gapper = r.Intn(s.accts)
		s.tbal = 1000
		size := pick(r, []int{1, 2, 3, 5, 3000}, 40)
		future := pick(r, []int{1, 2, 4, 100000}, 50)
		utxosize := pick(r, []int{1, 2, 1000}, 60)
		maxreap := pick(r, []int{1, 3, 10000}, 70)
		bal := int64(30000000 + r.Intn(40000000))
		if s.bigBal {
			bal = 1000000000000
		}
		g.Count(fmt.Sprintf("cfg:size=%d", size))
		g.Count(fmt.Sprintf("cfg:future=%d", future))
		feelow := r.Intn(5) == 0
		s.ops = []string{"", fmt.Sprintf("pool accts=%d wallets=2 bal=%d tbal=%d size=%d future=%d utxosize=%d maxreap=%d trie=%d seed=%d",
			s.accts, bal, s.tbal, size, future, utxosize, maxreap, r.Intn(2), 1+r.Intn(1000))}
		if s.bigBal {
			// seed the confidential pool: a few account->confidential txs, committed (several rounds when the pool is tiny)
			m := 2 + r.Intn(3)
			for i := 0; i < m; i++ {
				from, w := r.Intn(s.accts), r.Intn(2)
				s.add("ain from=%d w=%d amount=%d nonce=%d", from, w, 20000000000+int64(r.Intn(1000000))*10000, s.next[from])
				s.next[from]++
				s.nIDs++
				s.owned[w]++
				if size < 3000 || maxreap < 10000 || utxosize < 1000 {
					s.add("commit max=1000")
				}
			}
			s.add("commit max=1000")
			s.add("commit max=1000")
		}
		steps := 8 + r.Intn(g.Pick(30, 45))
		commits, forced := 0, 0
		for i := 0; i < steps; i++ {
			switch x := r.Intn(100); {
			case x < 66:
				s.submitOne(tags)
			case x < 70 && feelow && s.bigBal:
				g.Count("sub:ain-fee-low")
				tags["feelow"] = true
				from := r.Intn(s.accts)
				// at the due nonce (rejected by AddTx) or one ahead (queued, rejected at promotion)
				s.add("ain from=%d w=0 amount=%d nonce=%d feeu=%d", from, 20000000000+int64(r.Intn(1000))*10000, s.next[from]+r.Intn(2), []int{0, 10, 1000}[r.Intn(3)])
				s.nIDs++
			case x < 78:
				g.Count("op:reap")
				s.add("reap max=%d", []int{0, 1, 2, 3, 1000, 1000}[r.Intn(6)])
			case x < 92:
				g.Count("op:commit")
				s.add("commit max=%d", []int{1, 2, 1000, 1000, 1000}[r.Intn(5)])
				commits++
			default:
				if s.nIDs > 0 {
					g.Count("op:force")
					// build (not submit) a competing tx now and then, and force a block of arbitrary earlier txs
					if r.Intn(2) == 0 {
						from := r.Intn(s.accts)
						s.add("xfer from=%d to=%d amount=%d nonce=%d sub=0", from, r.Intn(s.accts), s.amount(), s.next[from])
						s.nIDs++
					} else if w := r.Intn(2); s.owned[w] > 0 {
						s.add("uu w=%d in=%d to=%d amount=%d sub=0", w, r.Intn(s.owned[w]), r.Intn(2), 1+r.Intn(1000))
						s.nIDs++
					}
					m := 1 + r.Intn(3)
					var idl []string
					for j := 0; j < m; j++ {
						idl = append(idl, fmt.Sprint(r.Intn(s.nIDs)))
					}
					s.add("force ids=%s", strings.Join(idl, ","))
					forced++
					tags["force"] = true
				}
			}
		}
		s.add("reap max=1000")
		s.add("commit max=1000")
		s.add("commit max=1000")
		s.add("reap max=1000")
		var tl []string
		for _, t := range []string{"conf", "feelow", "force", "future", "reject"} {
			if tags[t] {
				tl = append(tl, t)
			}
		}
		s.ops[0] = hx.CaseOp(tl...)
		g.Case(fmt.Sprintf("history size=%d future=%d utxosize=%d maxreap=%d big=%v", size, future, utxosize, maxreap, s.bigBal), s.ops,
			commits > 0 && (tags["future"] || tags["reject"] || tags["force"]))
	}
	// survivor stream: pending transactions that SURVIVE a commit (every recheck path of Update), then a conflicting
	// submission and a reap / commit
	ns := g.Pick(90, 300)
	for k := 0; k < ns; k++ {
		ops, label := survivorCase(g)
		g.Case("survivor "+label, ops, true)
	}
	// middle stream: a commit invalidates a MIDDLE transaction of a sender's pending run (recheck: funds / nonce-low for the
	// middle one, nonce-too-high for the ones behind it, which must move to the future queue and leave goodTxs)
	nm := g.Pick(60, 200)
	for k := 0; k < nm; k++ {
		ops, label := middleCase(g)
		g.Case("middle "+label, ops, true)
	}
	// cache-window stream: rejected (tampered / oversize) transactions and the validator path of foreign blocks holding them,
	// inside and outside the window of a non-atomic AddTx, compared with a cold replica
	nw := g.Pick(50, 150)
	for k := 0; k < nw; k++ {
		ops, label := cacheWindowCase(g)
		g.Case("cachewin "+label, ops, true)
	}
	// coverage-guided streams: the special lane, queue caps / eviction / timeouts, admission filters and peer messages
	for k, n := 0, g.Pick(40, 150); k < n; k++ {
		ops, label := lanesCase(g)
		g.Case("lanes "+label, ops, true)
	}
	for k, n := 0, g.Pick(45, 150); k < n; k++ {
		ops, label := queueCapCase(g)
		g.Case("qcap "+label, ops, true)
	}
	g.Case("evict: the 10 s eviction tick with a Lifetime every queue has outlived", []string{
		hx.CaseOp("evict"), "pool accts=3 wallets=2 bal=100000000 tbal=1000 rmfuture=1 acctq=1000 lifens=1 avail=1",
		"xfer from=0 to=1 amount=5 nonce=0", "xfer from=0 to=1 amount=6 nonce=2", "xfer from=0 to=1 amount=7 nonce=3", "xfer from=1 to=2 amount=8 nonce=4",
		"evictwait", "xfer from=0 to=1 amount=9 nonce=1", "xfer from=1 to=2 amount=10 nonce=1", "reap max=1000", "commit max=1000"}, true)
	for k, n := 0, g.Pick(35, 120); k < n; k++ {
		ops, label := filtersCase(g)
		g.Case("filters "+label, ops, true)
	}
	// concurrent stream: 8 submitting goroutines against the reaping/committing consensus goroutine
	nc := g.Pick(25, 50)
	for k := 0; k < nc; k++ {
		accts := 3
		size := pick(r, []int{2, 5, 3000}, 50)
		ops := []string{hx.CaseOp("conc"), fmt.Sprintf("pool accts=%d wallets=2 bal=%d tbal=1000 size=%d future=%d seed=%d", accts,
			int64(60000000+r.Intn(100000000)), size, pick(r, []int{4, 100000}, 60), 1+r.Intn(1000))}
		lists := make([][]string, 8)
		id := 0
		for a := 0; a < accts; a++ {
			m := 3 + r.Intn(8)
			for nn := 0; nn < m; nn++ {
				ops = append(ops, fmt.Sprintf("xfer from=%d to=%d amount=%d nonce=%d sub=0", a, r.Intn(accts), 1+r.Intn(4000000), nn))
				l := r.Intn(8)
				lists[l] = append(lists[l], fmt.Sprint(id))
				if r.Intn(4) == 0 { // a duplicate from another goroutine
					l2 := r.Intn(8)
					lists[l2] = append(lists[l2], fmt.Sprint(id))
				}
				id++
			}
		}
		var ls []string
		for _, l := range lists {
			ls = append(ls, strings.Join(l, ","))
		}
		ops = append(ops, fmt.Sprintf("conc lists=%s commits=%d max=%d", strings.Join(ls, "|"), 2+r.Intn(4), []int{2, 5, 1000}[r.Intn(3)]))
		g.Count("conc:cases")
		g.Case(fmt.Sprintf("concurrent size=%d", size), ops, true)
	}
}

// survivorCase builds a history in which pending transactions survive a commit that does not contain them — a forced block
// of other transactions, an empty forced block, a block that the UTXOSize / max cap cut short, a foreign block holding a
// CONFLICTING transaction — with goodTxs and utxoTxs empty or not at that moment (all combinations of the recheck paths of
// Mempool.Update), followed by a conflicting submission (second spend of the same output / same nonce), reaps and commits.
// Ids are tracked exactly: every op of this stream builds a fresh transaction (distinct amounts, always buildable).
func survivorCase(g *hx.Gen) ([]string, string) {
	r := g.Rng
	utxosize := pick(r, []int{1, 2, 1000}, 55)
	size := pick(r, []int{5, 3000}, 80)
	ops := []string{hx.CaseOp("survivor"), fmt.Sprintf("pool accts=3 wallets=2 bal=1000000000000 tbal=1000 size=%d future=100000 utxosize=%d maxreap=10000 trie=%d seed=%d",
		size, utxosize, r.Intn(2), 1+r.Intn(1000))}
	id := 0
	next := []int{0, 0, 0}
	amt := 1000
	add := func(f string, a ...interface{}) { ops = append(ops, fmt.Sprintf(f, a...)) }
	newAmt := func() int { amt += 1 + r.Intn(50); return amt }
	// seed wallet 0 with m outputs (indices 0..m-1 whatever the commit order) and drain the pool
	m := 3 + r.Intn(3)
	for i := 0; i < m; i++ {
		from := r.Intn(3)
		add("ain from=%d w=0 amount=%d nonce=%d", from, 20000000000+int64(r.Intn(1000000))*10000, next[from])
		next[from]++
		id++
	}
	for i := 0; i < m+1; i++ {
		add("commit max=1000")
	}
	free := []int{} // outputs of wallet 0 not yet used by this generator
	for i := 0; i < m; i++ {
		free = append(free, i)
	}
	takeOut := func() int {
		if len(free) == 0 {
			return -1
		}
		i := r.Intn(len(free))
		o := free[i]
		free = append(free[:i], free[i+1:]...)
		return o
	}
	spend := func(out int, sub bool) int { // a fresh confidential spend of output `out`; returns its id
		suffix := ""
		if !sub {
			suffix = " sub=0"
		}
		if r.Intn(2) == 0 {
			add("uu w=0 in=%d to=%d amount=%d%s", out, r.Intn(2), newAmt(), suffix)
		} else {
			add("ua w=0 in=%d to=%d amount=%d%s", out, r.Intn(3), newAmt(), suffix)
		}
		id++
		return id - 1
	}
	xfer := func(from int, sub bool) int {
		suffix := ""
		if !sub {
			suffix = " sub=0"
		}
		add("xfer from=%d to=%d amount=%d nonce=%d%s", from, r.Intn(3), newAmt(), next[from], suffix)
		id++
		return id - 1
	}
	var labels []string
	rounds := 1 + r.Intn(2)
	for round := 0; round < rounds; round++ {
		// account transactions pending at the same time? (0: goodTxs empty at the Update)
		nAcct := []int{0, 0, 1, 2}[r.Intn(4)]
		acctFrom := r.Intn(2)
		for i := 0; i < nAcct; i++ {
			xfer(acctFrom, true)
			next[acctFrom]++
		}
		variant := r.Intn(6)
		out := takeOut()
		if out < 0 {
			variant = 5
		}
		switch variant {
		case 0: // a forced block of an unrelated, never submitted transaction: everything pending survives
			labels = append(labels, fmt.Sprintf("force-other/acct=%d", nAcct))
			g.Count("survivor:force-other")
			spend(out, true)
			x := xfer(2, false)
			add("force ids=%d", x)
			next[2]++
		case 1: // an empty foreign block
			labels = append(labels, fmt.Sprintf("force-empty/acct=%d", nAcct))
			g.Count("survivor:force-empty")
			spend(out, true)
			add("force ids=-")
		case 2: // the own block is cut short: a second pending spend is left behind by the UTXOSize cap (or by nothing, if the cap is wide)
			labels = append(labels, fmt.Sprintf("cap/acct=%d/utxosize=%d", nAcct, utxosize))
			g.Count("survivor:cap")
			if o2 := takeOut(); o2 >= 0 {
				spend(o2, true)
			}
			spend(out, true)
			add("commit max=%d", []int{1, 1000}[r.Intn(2)])
		case 3: // a foreign block holding a CONFLICTING spend of the same output: the pending one must go
			labels = append(labels, fmt.Sprintf("force-conflict/acct=%d", nAcct))
			g.Count("survivor:force-conflict")
			c := spend(out, false)
			spend(out, true)
			add("force ids=%d", c)
		case 4: // pending spend survives a forced block that commits the pending ACCOUNT transactions' competitor
			labels = append(labels, fmt.Sprintf("force-acct-competitor/acct=%d", nAcct))
			g.Count("survivor:force-acct-competitor")
			spend(out, true)
			from := 2
			a := xfer(from, true) // pending
			_ = a
			c := xfer(from, false) // same nonce, different content, never submitted
			next[from]++
			xfer(from, true) // the follower nonce, pending
			next[from]++
			add("force ids=%d", c)
		default: // mirror: only account transactions pending, utxo list empty; own block cut by max, or a competitor forced
			labels = append(labels, fmt.Sprintf("acct-only/acct=%d", nAcct))
			g.Count("survivor:acct-only")
			from := 2
			xfer(from, true)
			next[from]++
			c := xfer(from, false) // competitor of the next one
			xfer(from, true)
			next[from]++
			xfer(from, true)
			next[from]++
			if r.Intn(2) == 0 {
				add("commit max=1")
			} else {
				add("force ids=%d", c)
			}
		}
		if r.Intn(3) == 0 {
			add("reap max=1000")
		}
		// the conflicting submissions after the commit
		if out >= 0 {
			spend(out, true) // second spend of the same output: must be refused while the first is pending or committed
			if r.Intn(2) == 0 {
				spend(out, true)
			}
		}
		if r.Intn(2) == 0 && id > 0 {
			add("resub id=%d", r.Intn(id))
		}
		add("reap max=%d", []int{2, 1000, 1000}[r.Intn(3)])
		add("commit max=1000")
		if r.Intn(2) == 0 {
			// once more after the commit: the output is now spent on chain (or its spend still pending)
			if out >= 0 {
				spend(out, true)
			}
			add("reap max=1000")
		}
		add("commit max=1000")
	}
	add("commit max=1000")
	add("reap max=1000")
	return ops, strings.Join(labels, "+")
}

// middleCase: sender a (fresh, 10^8 units, receives nothing) has a pending run A_n, A_n+1 (expensive), A_n+2, ...; a forced
// block then invalidates the MIDDLE one while transactions behind it survive:
//   drain:  the block holds a never-submitted competitor with nonce n that leaves less than A_n+1 costs: A_n is stale, A_n+1
//           underfunded (dropped), A_n+2.. nonce-too-high (must move to the future queue and out of goodTxs); if the
//           competitor leaves 10^7 units a fresh cheap nonce n+1 refills the gap and promotes the queued ones;
//   middle: the block holds A_n itself and a competitor of A_n+1: A_n+2.. stay executable in goodTxs.
// Other senders may have pending transactions at the same time.  Ids are exact (every op builds a fresh transaction).
func middleCase(g *hx.Gen) ([]string, string) {
	r := g.Rng
	size := pick(r, []int{5, 3000}, 70)
	ops := []string{hx.CaseOp("middle"), fmt.Sprintf("pool accts=3 wallets=2 bal=100000000 tbal=1000 size=%d future=%d trie=%d seed=%d",
		size, pick(r, []int{4, 100000}, 80), r.Intn(2), 1+r.Intn(1000))}
	id := 0
	amt := 100
	add := func(f string, a ...interface{}) { ops = append(ops, fmt.Sprintf(f, a...)) }
	a := r.Intn(3)
	to := (a + 1) % 3 // never a: its balance is exactly what this generator computes
	b := (a + 2) % 3
	xfer := func(from, nonce, amount int, sub bool) int {
		suffix := ""
		if !sub {
			suffix = " sub=0"
		}
		amt += 1 + r.Intn(20)
		add("xfer from=%d to=%d amount=%d nonce=%d%s", from, to, amount+amt, nonce, suffix)
		id++
		return id - 1
	}
	n := 0
	if r.Intn(2) == 0 { // a committed prefix: the run does not start at nonce 0
		xfer(a, 0, 0, true)
		add("commit max=1000")
		n = 1
	}
	spent := n * 5001000 // upper bound of what the prefix cost (fee 5*10^6 + amount < 1000)
	for i := 0; i < r.Intn(3); i++ { // other sender's pending transactions
		xfer(b, i, 0, true)
	}
	m := 2 + r.Intn(2) // transactions behind the middle one (size 5 holds 1 + 1 + m <= 5 of this sender when b is quiet)
	first := xfer(a, n, 0, true)
	xfer(a, n+1, 20000000, true) // the middle one costs 2.5*10^7
	for i := 0; i < m; i++ {
		xfer(a, n+2+i, 0, true)
	}
	label := "middle"
	if r.Intn(3) != 0 {
		leave := []int{1, 10000000}[r.Intn(2)]
		label = fmt.Sprintf("drain/leave=%d", leave)
		g.Count("middle:drain")
		// competitor with nonce n: amount + fee 5*10^6 leaves `leave` (+ what the prefix bound over-estimated)
		c := xfer(a, n, 100000000-spent-5000000-leave-2000, false)
		add("force ids=%d", c)
		add("reap max=1000")
		if leave > 1 {
			xfer(a, n+1, 0, true) // a cheap nonce n+1 refills the gap: the queued ones behind it are promoted as far as funds last
		}
	} else {
		g.Count("middle:competitor")
		c := xfer(a, n+1, 0, false)
		add("force ids=%d,%d", first, c)
	}
	add("reap max=1000")
	add("commit max=%d", []int{1, 1000}[r.Intn(2)])
	add("reap max=1000")
	add("commit max=1000")
	add("commit max=1000")
	add("reap max=1000")
	return ops, label
}

// cacheWindowCase: see Rule().  Ids are exact (every uu / ua / xfer op of this stream builds a fresh transaction).
func cacheWindowCase(g *hx.Gen) ([]string, string) {
	r := g.Rng
	ops := []string{hx.CaseOp("cachewin"), fmt.Sprintf("pool accts=3 wallets=2 bal=1000000000000 tbal=1000 replica=1 trie=%d seed=%d", r.Intn(2), 1+r.Intn(1000))}
	add := func(f string, a ...interface{}) { ops = append(ops, fmt.Sprintf(f, a...)) }
	id := 0
	next := []int{0, 0, 0}
	amt := 1000
	m := 2 + r.Intn(3)
	for i := 0; i < m; i++ {
		from := r.Intn(3)
		add("ain from=%d w=0 amount=%d nonce=%d", from, 20000000000+int64(r.Intn(1000000))*10000, next[from])
		next[from]++
		id++
	}
	add("commit max=1000")
	add("commit max=1000")
	tampers := []string{"outpk", "pseudo", "proof", "sig"}
	spend := func(out int, tamper string, sub bool) int {
		amt += 1 + r.Intn(40)
		sfx := ""
		if tamper != "" {
			sfx += " tamper=" + tamper
		}
		if !sub {
			sfx += " sub=0"
		}
		if r.Intn(2) == 0 {
			add("uu w=0 in=%d to=%d amount=%d%s", out, r.Intn(2), amt, sfx)
		} else {
			add("ua w=0 in=%d to=%d amount=%d%s", out, r.Intn(3), amt, sfx)
		}
		id++
		return id - 1
	}
	var labels []string
	var rejected []int
	for k, rounds := 0, 2+r.Intn(3); k < rounds; k++ {
		out := r.Intn(m)
		t := tampers[r.Intn(len(tampers))]
		switch v := r.Intn(6); v {
		case 0: // submitted, refused, forced at once
			labels = append(labels, "submit-force")
			g.Count("cachewin:submit-force")
			x := spend(out, t, true)
			add("force ids=%d", x)
			rejected = append(rejected, x)
		case 1: // inside the window of its own AddTx, then again outside
			labels = append(labels, "window-tampered")
			g.Count("cachewin:window-tampered")
			x := spend(out, t, false)
			add("window id=%d", x)
			add("force ids=%d", x)
			rejected = append(rejected, x)
		case 2: // a valid transaction inside its window: accepted on both nodes, then pooled and committed
			labels = append(labels, "window-valid")
			g.Count("cachewin:window-valid")
			x := spend(out, "", false)
			add("window id=%d", x)
			add("reap max=1000")
			if r.Intn(2) == 0 {
				add("window id=%d", x) // again: a duplicate stops at cache.Put, the entry is checked
			}
			add("commit max=1000")
		case 3: // oversize plain transfer: refused at admission, and a block holding it does not even execute
			labels = append(labels, "oversize")
			g.Count("cachewin:oversize")
			from := r.Intn(3)
			amt += 1 + r.Intn(40)
			add("xfer from=%d to=%d amount=%d nonce=%d pad=%d", from, r.Intn(3), amt, next[from], 33000+r.Intn(2000))
			id++
			add("force ids=%d", id-1)
		case 4: // a tampered and a valid spend of one output: the valid one is pooled, the window is the tampered one's
			labels = append(labels, "window-beside-valid")
			g.Count("cachewin:window-beside-valid")
			spend(out, "", true)
			x := spend(out, t, false)
			add("window id=%d", x)
			add("force ids=%d", x)
			add("commit max=1000")
			rejected = append(rejected, x)
		default: // an earlier refused one, forced again after other ops, alone and beside a valid transfer
			if len(rejected) > 0 {
				labels = append(labels, "force-later")
				g.Count("cachewin:force-later")
				from := r.Intn(3)
				amt += 1 + r.Intn(40)
				add("xfer from=%d to=%d amount=%d nonce=%d", from, r.Intn(3), amt, next[from])
				next[from]++
				id++
				x := rejected[r.Intn(len(rejected))]
				add("force ids=%d", x)
				add("window id=%d", x)
				add("force ids=%d,%d", id-1, x)
				add("commit max=1000")
			}
		}
	}
	add("reap max=1000")
	add("commit max=1000")
	return ops, strings.Join(labels, "+")
}

// lanesCase: the special lane beside the ordinary ones.  Every msig op carries a fresh variant unless it repeats an earlier
// line on purpose, so ids are exact.
func lanesCase(g *hx.Gen) ([]string, string) {
	r := g.Rng
	specsize := pick(r, []int{1, 2, 100}, 40)
	vals := 3 + r.Intn(3)
	ops := []string{hx.CaseOp("lanes"), fmt.Sprintf("pool accts=3 wallets=2 bal=100000000 tbal=1000 vals=%d specsize=%d avail=1 size=%d maxreap=%d trie=%d seed=%d",
		vals, specsize, pick(r, []int{2, 3000}, 70), pick(r, []int{1, 2, 10000}, 70), r.Intn(2), 1+r.Intn(1000))}
	add := func(f string, a ...interface{}) { ops = append(ops, fmt.Sprintf(f, a...)) }
	id, variant := 0, 0
	mnext := 0 // the generator's estimate of the lane's next nonce
	next := []int{0, 0, 0}
	enough := vals*2/3 + 1
	var msigLines []string
	var built []int
	amt := 10
	for i, steps := 0, 10+r.Intn(14); i < steps; i++ {
		switch x := r.Intn(100); {
		case x < 30: // due nonce, enough signatures
			variant++
			l := fmt.Sprintf("msig nonce=%d sigs=%d variant=%d", mnext, enough+r.Intn(vals-enough+1), variant)
			add("%s", l)
			msigLines = append(msigLines, l)
			mnext++
			id++
		case x < 38: // too few signatures (boundary: exactly two thirds)
			variant++
			add("msig nonce=%d sigs=%d variant=%d", mnext, r.Intn(enough), variant)
			id++
		case x < 46: // stale / future nonce, a second variant of a used nonce
			variant++
			n := mnext + []int{-1, 1, 2}[r.Intn(3)]
			if n < 0 {
				n = 0
			}
			add("msig nonce=%d sigs=%d variant=%d", n, vals, variant)
			id++
		case x < 52: // the same line again: a duplicate
			if len(msigLines) > 0 {
				add("%s", msigLines[r.Intn(len(msigLines))])
			}
		case x < 70: // ordinary transactions at the same time
			from := r.Intn(3)
			amt += 1 + r.Intn(9)
			d := 0
			if r.Intn(5) == 0 {
				d = 1 + r.Intn(2)
			}
			add("xfer from=%d to=%d amount=%d nonce=%d", from, r.Intn(3), amt, next[from]+d)
			if d == 0 {
				next[from]++
			}
			id++
		case x < 82:
			add("reap max=%d", []int{0, 1, 2, 3, 1000}[r.Intn(5)])
		case x < 92:
			add("commit max=%d", []int{1, 2, 1000, 1000}[r.Intn(4)])
		default: // a foreign block with a competitor of the lane's next nonce, or an under-signed one
			variant++
			sigs := vals
			if r.Intn(3) == 0 {
				sigs = r.Intn(enough)
			}
			add("msig nonce=%d sigs=%d variant=%d sub=0", []int{0, mnext, mnext + 1}[r.Intn(3)], sigs, variant)
			built = append(built, id)
			id++
			add("force ids=%d", built[r.Intn(len(built))])
		}
	}
	add("reap max=1000")
	add("commit max=1000")
	add("commit max=1000")
	add("reap max=1000")
	return ops, fmt.Sprintf("vals=%d specsize=%d", vals, specsize)
}

// queueCapCase: per-account queue cap, timeout drop, broadcast channel, notifications.
func queueCapCase(g *hx.Gen) ([]string, string) {
	r := g.Rng
	acctq := 1 + r.Intn(3)
	drop := r.Intn(4) == 0
	ops := []string{hx.CaseOp("qcap"), fmt.Sprintf("pool accts=3 wallets=2 bal=100000000 tbal=1000 rmfuture=1 acctq=%d future=%d size=%d bcast=%d avail=1 trie=%d seed=%d%s",
		acctq, pick(r, []int{3, 100000}, 70), pick(r, []int{3, 3000}, 70), r.Intn(2), r.Intn(2), 1+r.Intn(1000), map[bool]string{true: " droptime=0", false: ""}[drop])}
	add := func(f string, a ...interface{}) { ops = append(ops, fmt.Sprintf(f, a...)) }
	next := []int{0, 0, 0}
	amt := 10
	x := func(from, nonce int) {
		amt += 1 + r.Intn(9)
		add("xfer from=%d to=%d amount=%d nonce=%d", from, r.Intn(3), amt, nonce)
	}
	gapper := r.Intn(3) // one sender queues (a second one would make the Update's map order matter)
	for round, rounds := 0, 2+r.Intn(3); round < rounds; round++ {
		// a queue of cap-1 .. cap+2 entries behind a gap
		k := acctq - 1 + r.Intn(4)
		for i := 0; i < k; i++ {
			x(gapper, next[gapper]+1+i)
		}
		for j := 0; j < r.Intn(3); j++ { // other senders: executable transactions
			o := (gapper + 1 + r.Intn(2)) % 3
			x(o, next[o])
			next[o]++
		}
		if r.Intn(2) == 0 {
			add("reap max=1000")
		}
		add("commit max=%d", []int{1, 1000, 1000}[r.Intn(3)]) // the Update caps the queue
		// close the gap: the promotion takes what the cap left
		x(gapper, next[gapper])
		next[gapper]++
		add("reap max=1000")
		add("commit max=1000")
		add("commit max=1000")
		// the generator cannot know how far the promotion went: re-synchronise on a fresh sender estimate by forcing nothing;
		// the next round starts above every nonce used so far
		next[gapper] += k
	}
	return ops, fmt.Sprintf("acctq=%d drop=%v", acctq, drop)
}

// filtersCase: admission filters on the gas limit and the data, locally and as peer messages.  No commits.
func filtersCase(g *hx.Gen) ([]string, string) {
	r := g.Rng
	p2p := 1
	if r.Intn(4) == 0 {
		p2p = 0
	}
	ops := []string{hx.CaseOp("filters"), fmt.Sprintf("pool accts=3 wallets=2 bal=100000000000 tbal=1000 code=1 p2ptx=%d bcast=%d trie=%d seed=%d", p2p, r.Intn(2), r.Intn(2), 1+r.Intn(1000))}
	add := func(f string, a ...interface{}) { ops = append(ops, fmt.Sprintf(f, a...)) }
	id := 0
	next := []int{0, 0, 0}
	amt := 10
	for i, steps := 0, 10+r.Intn(12); i < steps; i++ {
		from := r.Intn(3)
		amt += 1 + r.Intn(9)
		switch x := r.Intn(100); {
		case x < 18: // gas limit around the fee rule's gas (5*10^5 for small amounts; 5*10^4 per started 10^8 units above 10^9)
			a := []int{amt, 1000000000 + amt, 1100000000, 0}[r.Intn(4)]
			base := 500000
			if a > 1000000000 {
				base = 50000 * ((a + 99999999) / 100000000)
			}
			add("xfer from=%d to=%d amount=%d nonce=%d gas=%d", from, r.Intn(3), a, next[from], base+[]int{-1, 0, 1, 100000}[r.Intn(4)])
			id++
		case x < 34: // data bytes against the intrinsic gas: 21000 + 68 nz + 4 z <= 500000
			nz := []int{0, 1, 100, 7044, 7045, 7100}[r.Intn(6)]
			z := []int{0, 1, 17, 1000}[r.Intn(4)]
			if nz >= 7044 {
				z = []int{0, 1}[r.Intn(2)]
			}
			add("xfer from=%d to=%d amount=%d nonce=%d nz=%d z=%d", from, r.Intn(3), amt, next[from], nz, z)
			id++
		case x < 46: // recipient with code: any gas >= intrinsic (value 0), >= contract fee gas (value > 0)
			a := []int{0, 0, amt}[r.Intn(3)]
			add("xfer from=%d to=0 amount=%d nonce=%d tocode=1 gas=%d nz=%d", from, a, next[from], []int{20999, 21000, 21067, 21068, 499999, 500000, 900000}[r.Intn(7)], r.Intn(2))
			id++
		case x < 54: // no recipient: contract creation (53000 + data)
			nz := r.Intn(12)
			add("xfer from=%d to=0 amount=%d nonce=%d create=1 nz=%d gas=%d", from, amt, next[from], nz, []int{53000 + 68*nz - 1, 53000 + 68*nz, 500000, 500001}[r.Intn(4)])
			id++
		case x < 62: // oversize
			add("xfer from=%d to=%d amount=%d nonce=%d pad=%d", from, r.Intn(3), amt, next[from], 32768+r.Intn(900))
			id++
		case x < 80: // a peer sends a transaction: built here, not submitted locally
			d := []int{0, 0, 0, 1, -1}[r.Intn(5)]
			if next[from]+d < 0 {
				d = 0
			}
			add("xfer from=%d to=%d amount=%d nonce=%d sub=0", from, r.Intn(3), amt, next[from]+d)
			add("recv id=%d kind=tx", id)
			if r.Intn(3) == 0 {
				add("recv id=%d kind=tx", id) // again: duplicate
			}
			if d == 0 && p2p == 1 {
				next[from]++
			}
			id++
		case x < 88:
			add("recv id=%d kind=%s", r.Intn(200), []string{"garbage", "empty"}[r.Intn(2)])
		case x < 94:
			if id > 0 {
				add("recv id=%d kind=%s", r.Intn(id), []string{"notify", "request"}[r.Intn(2)])
			}
		default:
			if id > 0 {
				add("recv id=%d kind=tx", r.Intn(id)) // any earlier transaction, refused or not, comes back from a peer
			}
		}
	}
	add("reap max=1000")
	return ops, fmt.Sprintf("p2ptx=%d", p2p)
}
