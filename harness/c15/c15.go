package c15

import (
	"fmt"
	"math/big"
	"strconv"
	"strings"

	"github.com/lianxiangcloud/linkchain/types"

	"lvharness/appsim"
	"lvharness/hx"
)

type P struct{}

// KnownClass is the classification of every failure that follows a fee-too-low account-input confidential transaction
// whose rejection left the speculative state debited (types/tx_utxo.go checkState: fee test after the debit).
// Fixed in the repository by commit 6dc6087; the class stays so that a regression is reported under the same name.
const KnownClass = "ain-fee-low-dirties-checkstate"

func (P) Rule() string {
	return "each case builds the real LinkApplication on MemDBs with the REAL mempool.Mempool (pool sizes 1,2,3,5,3000; future sizes 1,2,4,10^5; UTXOSize 1,2,1000; MaxReapSize 1,3,10^4) and runs a " +
		"history of submissions through Mempool.AddTx (valid next-nonce xfer / token xfer / account->confidential, duplicates of earlier objects and equal-content re-signs, future nonces, stale nonces, " +
		"underfunded, oversized payload, fee-too-low account->confidential, confidential spends incl. two spends of one output), Reap(max) for several max (each reaped set is executed by the real " +
		"CreateBlock-equivalent + PreRunBlock), commits of blocks built by CreateBlock+PreRunBlock+CheckBlock+CommitBlock (Mempool.Update inside) and of forced blocks holding arbitrary earlier " +
		"transactions (what another or a Byzantine proposer commits), printing after every op the order of goodTxs and utxoTxs, the queued set, Stats, the speculative and committed nonces/balances; " +
		"a survivor stream (90 quick / 300 thorough cases) makes pending transactions SURVIVE a commit that does not contain them (forced block of an unrelated tx, empty forced block, own block cut by the UTXOSize/max cap, " +
		"foreign block holding a CONFLICTING spend or a same-nonce competitor) with goodTxs and utxoTxs each empty or not at that Update (every recheck path), then submits a second spend of the same output / the same nonce and reaps and commits; " +
		"a middle stream (60 quick / 200 thorough) lets a forced block invalidate a MIDDLE transaction of a sender's pending run — a never-submitted competitor with the first nonce drains the balance so that the second one is " +
		"underfunded while the ones behind it become nonce-too-high (recheckTxs must move them to the future queue AND out of goodTxs), or the block carries the first one plus a competitor of the second — then refills the gap and reaps / commits; " +
		"a cache-window stream (50 quick / 150 thorough, with a COLD REPLICA stack that never sees a submission and must give the same verdict on every block) submits confidential transactions ALTERED after construction " +
		"(outpk, pseudo-out, range proof, ring signature) and oversize ones — admission refuses them — and forces foreign blocks holding them, immediately, after other ops, and INSIDE the window of a paused AddTx " +
		"(op window: cache.Put done, basic check not finished — the interleaving in which only CheckAndGet protects the validator path), also for valid transactions and for spends of spent outputs; " +
		"a concurrent stream submits prebuilt transactions from 8 goroutines while the consensus goroutine reaps and commits, invariants checked on every reap and after quiescence; " +
		"non-trivial = at least one commit with a transaction AND at least one of: queued transaction promoted, rejection (dup/stale/funds/double-spend/full/oversized), forced block; distinct = distinct op sequence"
}

func (P) NewExec() hx.Executor { return &exec{} }

type minfo struct {
	tampered bool
	kind   string
	from   int
	nonce  int64
	img    int
	amount int64
}

func parseIDs(s string) []int {
	var out []int
	for _, x := range hx.SplitComma(s) {
		if n, err := strconv.Atoi(x); err == nil {
			out = append(out, n)
		}
	}
	return out
}

func parseInts(s string) []int64 {
	var out []int64
	for _, x := range hx.SplitComma(s) {
		n, _ := strconv.ParseInt(x, 10, 64)
		out = append(out, n)
	}
	return out
}

// cost of an account-input transaction in units of 10^10 wei, from the op line that built it
func costOf(m minfo, toks []string) (native int64, tok int64) {
	fee := func(amountUnits int64) int64 {
		g := types.CalNewAmountGas(new(big.Int).Mul(big.NewInt(amountUnits), appsim.Unit), types.EverLiankeFee)
		return int64(g) * (types.ParGasPrice / 1e10)
	}
	switch m.kind {
	case "xfer":
		return m.amount + fee(m.amount), 0
	case "xfertok":
		return fee(0), m.amount
	case "ain":
		if f := argI(toks, "feeu", -1); f >= 0 {
			return m.amount + f, 0
		}
		return m.amount + fee(m.amount), 0
	}
	return 0, 0
}

func (P) Monitor(c *hx.CaseRun) []hx.Failure {
	var fs []hx.Failure
	info := map[int]minfo{}
	optoks := map[int][]string{}
	committed := map[int]bool{}
	committedImg := map[int]bool{}
	var cn, cb, ct []int64
	size := 3000
	dirty := false
	prevSpec := ""
	fail := func(mon, class, site, msg string, dirtyRelated bool) {
		if dirtyRelated && dirty {
			class = KnownClass
			site = "types/tx_utxo.go:checkState"
		}
		for _, f := range fs {
			if f.Monitor == mon && f.Class == class {
				return
			}
		}
		fs = append(fs, hx.Failure{Monitor: mon, Class: class, Site: site, Msg: msg})
	}
	// the property on a list of offered transactions (in offer order) against the committed state
	checkOffered := func(where string, ids []int, funded bool) {
		seen := map[int]bool{}
		imgs := map[int]bool{}
		next := map[int]int64{}
		spent := map[int]int64{}
		spentTok := map[int]int64{}
		for _, id := range ids {
			if seen[id] {
				fail("offered_distinct", "offered-duplicate", "mempool/mempool.go:Reap", fmt.Sprintf("%s: tx %d offered twice", where, id), false)
			}
			seen[id] = true
			if committed[id] {
				fail("offered_not_committed", "offered-committed", "mempool/mempool.go:filterTxs", fmt.Sprintf("%s: tx %d is already committed", where, id), false)
			}
			m, ok := info[id]
			if !ok {
				continue
			}
			if m.img >= 0 {
				if imgs[m.img] {
					fail("offered_no_shared_image", "offered-shared-image", "types/tx_utxo.go:checkState", fmt.Sprintf("%s: two offered txs spend key image class %d", where, m.img), false)
				}
				imgs[m.img] = true
				if committedImg[m.img] {
					fail("offered_no_committed_image", "offered-committed-image", "mempool/mempool.go:recheckUtxoTxs", fmt.Sprintf("%s: tx %d spends an already committed key image", where, id), false)
				}
			}
			if m.from >= 0 && m.from < len(cn) {
				if _, ok := next[m.from]; !ok {
					next[m.from] = cn[m.from]
				}
				if m.nonce != next[m.from] {
					fail("offered_gapfree", "offered-nonce-gap", "mempool/mempool.go:addGoodTx", fmt.Sprintf("%s: sender %d offers nonce %d where %d is due (committed nonce %d)", where, m.from, m.nonce, next[m.from], cn[m.from]), true)
				}
				next[m.from] = m.nonce + 1
				n, t := costOf(m, optoks[id])
				spent[m.from] += n
				spentTok[m.from] += t
				if funded && m.from < len(cb) && (spent[m.from] > cb[m.from] || spentTok[m.from] > ct[m.from]) {
					fail("offered_funded", "offered-underfunded", "mempool/mempool.go:recheckTxs", fmt.Sprintf("%s: cumulative cost of sender %d exceeds its committed balance", where, m.from), true)
				}
			}
		}
	}
	for i, op := range c.Ops {
		ans := c.Impl[i]
		toks := hx.Tokens(op)
		a := hx.Tokens(ans)
		if strings.HasPrefix(ans, "panic") {
			fail("no_panic", "panic:"+ans, "mempool", op+" -> "+ans, true)
			continue
		}
		if toks[0] == "pool" {
			size = int(argI(toks, "size", 3000))
		}
		if v, ok := hx.Arg(a, "cn"); ok {
			cn = parseInts(v)
			v, _ = hx.Arg(a, "cb")
			cb = parseInts(v)
			v, _ = hx.Arg(a, "ct")
			ct = parseInts(v)
			if toks[0] == "pool" {
				cnv, _ := hx.Arg(a, "cn")
				cbv, _ := hx.Arg(a, "cb")
				prevSpec = cnv + " " + cbv + " " + v
			}
		}
		if v, ok := hx.Arg(a, "id"); ok {
			id, _ := strconv.Atoi(v)
			if _, have := info[id]; !have {
				from := -1
				if toks[0] != "uu" && toks[0] != "ua" {
					from = int(argI(toks, "from", 0))
				}
				_, tampered := hx.Arg(toks, "tamper")
				info[id] = minfo{tampered: tampered, kind: toks[0], from: from, nonce: argI(toks, "nonce", 0), img: int(argI(a, "img", -1)), amount: argI(toks, "amount", 1)}
				optoks[id] = toks
			}
		}
		if strings.Contains(ans, " acceptance=") {
			fail("block_acceptance_cache_independent", "block-acceptance-depends-on-mempool", "app/app.go:verifyTxsOnProcess",
				"the node that saw the submissions and the cold replica disagree on a block: "+op+" -> "+ans, false)
		}
		switch toks[0] {
		case "window":
			during, _ := hx.Arg(a, "during")
			cold, _ := hx.Arg(a, "cold")
			if cold != "-" && cold != "" && during != cold {
				fail("block_acceptance_cache_independent", "block-acceptance-depends-on-mempool", "mempool/mempool.go:GetTxFromCache",
					"while AddTx is between cache.Put and the end of the basic check, CheckBlock of a block holding that transaction says "+during+" on this node and "+cold+" on a node with a cold cache: "+op, false)
			}
			if m, ok := info[int(argI(toks, "id", -1))]; ok && m.tampered && during == "true" {
				fail("invalid_confidential_tx_refused", "invalid-confidential-tx-accepted", "app/app.go:verifyTxsOnProcess",
					"a block holding a confidential transaction altered after construction passed CheckBlock: "+op+" -> "+ans, false)
			}
		case "reap":
			v, _ := hx.Arg(a, "txs")
			ids := parseIDs(v)
			checkOffered("reap", ids, true)
			if ex, has := hx.Arg(a, "exec"); has && ex != "ok" {
				fail("reaped_block_executes", "reaped-block-does-not-execute", "app/app.go:PreRunBlock", "the block built from "+op+" does not execute: "+ans, true)
			}
			if max := int(argI(toks, "max", 1000)); max <= 0 && len(ids) > 0 {
				fail("reap_cap", "reap-ignores-zero-cap", "mempool/mempool.go:Reap", ans, false)
			}
		case "commit", "force":
			if toks[0] == "commit" && (strings.HasPrefix(ans, "propose=") || strings.HasPrefix(ans, "validate=") || strings.HasPrefix(ans, "commit=")) {
				fail("own_block_executes", "own-block-fails:"+strings.SplitN(ans, " ", 2)[0], "app/app.go:PreRunBlock", "a block built from the mempool by CreateBlock fails: "+ans, true)
			}
			if strings.HasPrefix(ans, "h=") {
				v, _ := hx.Arg(a, "txs")
				for _, id := range parseIDs(v) {
					if m, ok := info[id]; ok && m.tampered {
						fail("invalid_confidential_tx_refused", "invalid-confidential-tx-accepted", "app/app.go:verifyTxsOnProcess",
							fmt.Sprintf("tx %d, a confidential transaction altered after construction, was committed: %s", id, op), false)
					}
					if committed[id] {
						fail("committed_once", "tx-committed-twice", "app/app.go:CommitBlock", fmt.Sprintf("tx %d committed twice", id), false)
					}
					committed[id] = true
					if m, ok := info[id]; ok && m.img >= 0 {
						committedImg[m.img] = true
					}
				}
			}
		case "conc":
			if v, _ := hx.Arg(a, "viol"); v != "none" && v != "" {
				for _, cl := range hx.SplitComma(v) {
					fail("concurrent_invariants", "conc:"+cl, "mempool/mempool.go", "concurrent submissions with reaps/commits: "+cl, true)
				}
			}
		}
		// pool dump present?
		gv, hasDump := hx.Arg(a, "g")
		if !hasDump {
			continue
		}
		uv, _ := hx.Arg(a, "u")
		qv, _ := hx.Arg(a, "q")
		g, u, q := parseIDs(gv), parseIDs(uv), parseIDs(qv)
		snv, _ := hx.Arg(a, "sn")
		sn := parseInts(snv)
		sbv, _ := hx.Arg(a, "sb")
		stv, _ := hx.Arg(a, "st")
		spec := snv + " " + sbv + " " + stv
		// (while goodTxs is full a transaction that passed the state check is parked or refused with the speculative state
		// already advanced; nothing can enter goodTxs before the next Update resets it, so only the roomy case is a defect)
		if add, ok := hx.Arg(a, "add"); ok && add != "ok" && prevSpec != "" && spec != prevSpec && len(g) < size {
			if add == "fee-low" {
				dirty = true
			}
			fail("rejected_admission_is_stateless", "rejected-"+add+"-changes-speculative-state", "types/tx_utxo.go:checkState",
				fmt.Sprintf("%s was rejected (%s) but the speculative state changed from [%s] to [%s]", op, add, prevSpec, spec), true)
		}
		prevSpec = spec
		checkOffered("pending after "+toks[0], append(append([]int{}, g...), u...), false)
		if qn := int(argI(a, "qn", -1)); qn != len(q) {
			fail("queue_count", "queued-count-mismatch", "mempool/mempool.go:stats", fmt.Sprintf("Stats() says %d queued, cache membership says %d", qn, len(q)), false)
		}
		for _, id := range q {
			m, ok := info[id]
			if !ok || m.from < 0 || m.from >= len(sn) {
				continue
			}
			if len(g) < size && m.nonce == sn[m.from] {
				fail("promotion_complete", "queued-tx-executable", "mempool/mempool.go:promoteExecutables",
					fmt.Sprintf("after %s: queued tx %d of sender %d has the speculative nonce %d and goodTxs has room", op, id, m.from, m.nonce), true)
			}
			if (toks[0] == "commit" || toks[0] == "force") && m.from < len(cn) && m.nonce < cn[m.from] {
				fail("stale_removed", "stale-queued-after-commit", "mempool/mempool.go:promoteExecutables",
					fmt.Sprintf("after %s: queued tx %d has nonce %d below the committed nonce %d", op, id, m.nonce, cn[m.from]), false)
			}
		}
	}
	return fs
}

// Witness is the minimised witness of the finding fixed by 6dc6087: the rejected fee-too-low transaction must leave sn/sb
// unchanged, nonce 1 must wait in the future queue, nonce 0 must be accepted and the block must execute.
var Witness = []string{
	"case tags=feelow",
	"pool accts=2 wallets=1 bal=100000000 size=10 future=10",
	"ain from=1 w=0 amount=20000000 nonce=0 feeu=0",
	"xfer from=1 to=0 amount=9 nonce=1",
	"reap max=100",
	"xfer from=1 to=0 amount=9 nonce=0",
	"reap max=100",
	"commit max=100",
}

type gen struct {
	g      *hx.Gen
	ops    []string
	next   []int // the generator's estimate of each sender's next nonce
	nIDs   int   // upper bound on ids handed out
	owned  []int
	accts  int
	bigBal bool
	gapper int
	tbal   int64
}

func (s *gen) add(f string, a ...interface{}) { s.ops = append(s.ops, fmt.Sprintf(f, a...)) }

func (s *gen) amount() int64 {
	if s.bigBal {
		return 1 + int64(s.g.Rng.Intn(1000000))
	}
	return 1 + int64(s.g.Rng.Intn(3000000))
}

func (s *gen) submitOne(tags map[string]bool) {
	r := s.g.Rng
	from := r.Intn(s.accts)
	to := r.Intn(s.accts)
	switch k := r.Intn(100); {
	case k < 34: // valid next nonce
		s.g.Count("sub:valid")
		if r.Intn(5) == 0 {
			s.add("xfertok from=%d to=%d amount=%d nonce=%d", from, to, 1+r.Intn(400), s.next[from])
		} else {
			s.add("xfer from=%d to=%d amount=%d nonce=%d", from, to, s.amount(), s.next[from])
		}
		s.next[from]++
		s.nIDs++
	case k < 44: // duplicate: the same object again, or an equal-content re-sign
		if s.nIDs > 0 {
			s.g.Count("sub:duplicate")
			tags["reject"] = true
			s.add("resub id=%d", r.Intn(s.nIDs))
		}
	case k < 58: // future nonce
		s.g.Count("sub:future")
		if r.Intn(5) != 0 {
			from = s.gapper
		}
		d := 1 + r.Intn(3)
		s.add("xfer from=%d to=%d amount=%d nonce=%d", from, to, s.amount(), s.next[from]+d)
		s.nIDs++
		tags["future"] = true
	case k < 64: // fill the gap: the due nonce of the gapper
		s.g.Count("sub:gapfill")
		from = s.gapper
		s.add("xfer from=%d to=%d amount=%d nonce=%d", from, to, s.amount(), s.next[from])
		s.next[from]++
		s.nIDs++
	case k < 70: // stale nonce
		if s.next[from] > 0 {
			s.g.Count("sub:stale")
			tags["reject"] = true
			s.add("xfer from=%d to=%d amount=%d nonce=%d", from, to, s.amount(), s.next[from]-1-r.Intn(s.next[from]))
			s.nIDs++
		}
	case k < 77: // underfunded
		s.g.Count("sub:underfunded")
		tags["reject"] = true
		if r.Intn(3) == 0 {
			s.add("xfertok from=%d to=%d amount=%d nonce=%d", from, to, s.tbal+1+int64(r.Intn(50)), s.next[from])
		} else if s.bigBal {
			s.add("xfer from=%d to=%d amount=%d nonce=%d", from, to, 999999000000+int64(r.Intn(1000000)), s.next[from])
		} else {
			s.add("xfer from=%d to=%d amount=%d nonce=%d", from, to, 20000000+int64(r.Intn(30000000)), s.next[from])
		}
		s.nIDs++
	case k < 80: // oversized
		s.g.Count("sub:oversized")
		tags["reject"] = true
		s.add("xfer from=%d to=%d amount=%d nonce=%d pad=%d", from, to, s.amount(), s.next[from], 33000+r.Intn(3000))
		s.nIDs++
	case k < 90: // account -> confidential
		if s.bigBal {
			s.g.Count("sub:ain")
			w := r.Intn(len(s.owned))
			s.add("ain from=%d w=%d amount=%d nonce=%d", from, w, 20000000000+int64(r.Intn(1000000))*10000, s.next[from])
			s.next[from]++
			s.nIDs++
		}
	default: // confidential spends (conflicts arise because `in` is drawn from few outputs)
		w := r.Intn(len(s.owned))
		if s.owned[w] > 0 {
			in := r.Intn(s.owned[w])
			if r.Intn(2) == 0 {
				s.g.Count("sub:uu")
				s.add("uu w=%d in=%d to=%d amount=%d", w, in, r.Intn(len(s.owned)), 1+r.Intn(5000000))
			} else {
				s.g.Count("sub:ua")
				s.add("ua w=%d in=%d to=%d amount=%d", w, in, to, 1+r.Intn(5000000))
			}
			s.nIDs++
			tags["conf"] = true
		}
	}
}

func pick(r interface{ Intn(int) int }, xs []int, defaultWeight int) int {
	if r.Intn(100) < defaultWeight {
		return xs[len(xs)-1]
	}
	return xs[r.Intn(len(xs))]
}

func (P) Generate(g *hx.Gen) {
	g.Case("corpus: a rejected fee-too-low account-input tx leaves the speculative state untouched (fixed by 6dc6087)", Witness, true)
	r := g.Rng
	n := g.Pick(220, 800) // every pool leaks ~2 MB (the 4 txHeap goroutines of mempool.newTxHeapManager never exit)
	for k := 0; k < n; k++ {
		tags := map[string]bool{}
		s := &gen{g: g, accts: 3, owned: []int{0, 0}}
		s.bigBal = r.Intn(2) == 0
		s.next = make([]int, s.accts)
		s.gapper = r.Intn(s.accts)
		s.tbal = 1000
		size := pick(r, []int{1, 2, 3, 5, 3000}, 40)
		future := pick(r, []int{1, 2, 4, 100000}, 50)
		utxosize := pick(r, []int{1, 2, 1000}, 60)
		maxreap := pick(r, []int{1, 3, 10000}, 70)
		bal := int64(30000000 + r.Intn(40000000))
		if s.bigBal {
			bal = 1000000000000
		}
		g.Count(fmt.Sprintf("cfg:size=%d", size))
		g.Count(fmt.Sprintf("cfg:future=%d", future))
		feelow := r.Intn(5) == 0
		s.ops = []string{"", fmt.Sprintf("pool accts=%d wallets=2 bal=%d tbal=%d size=%d future=%d utxosize=%d maxreap=%d trie=%d seed=%d",
			s.accts, bal, s.tbal, size, future, utxosize, maxreap, r.Intn(2), 1+r.Intn(1000))}
		if s.bigBal {
			// seed the confidential pool: a few account->confidential txs, committed (several rounds when the pool is tiny)
			m := 2 + r.Intn(3)
			for i := 0; i < m; i++ {
				from, w := r.Intn(s.accts), r.Intn(2)
				s.add("ain from=%d w=%d amount=%d nonce=%d", from, w, 20000000000+int64(r.Intn(1000000))*10000, s.next[from])
				s.next[from]++
				s.nIDs++
				s.owned[w]++
				if size < 3000 || maxreap < 10000 || utxosize < 1000 {
					s.add("commit max=1000")
				}
			}
			s.add("commit max=1000")
			s.add("commit max=1000")
		}
		steps := 8 + r.Intn(g.Pick(30, 45))
		commits, forced := 0, 0
		for i := 0; i < steps; i++ {
			switch x := r.Intn(100); {
			case x < 66:
				s.submitOne(tags)
			case x < 70 && feelow && s.bigBal:
				g.Count("sub:ain-fee-low")
				tags["feelow"] = true
				from := r.Intn(s.accts)
				// at the due nonce (rejected by AddTx) or one ahead (queued, rejected at promotion)
				s.add("ain from=%d w=0 amount=%d nonce=%d feeu=%d", from, 20000000000+int64(r.Intn(1000))*10000, s.next[from]+r.Intn(2), []int{0, 10, 1000}[r.Intn(3)])
				s.nIDs++
			case x < 78:
				g.Count("op:reap")
				s.add("reap max=%d", []int{0, 1, 2, 3, 1000, 1000}[r.Intn(6)])
			case x < 92:
				g.Count("op:commit")
				s.add("commit max=%d", []int{1, 2, 1000, 1000, 1000}[r.Intn(5)])
				commits++
			default:
				if s.nIDs > 0 {
					g.Count("op:force")
					// build (not submit) a competing tx now and then, and force a block of arbitrary earlier txs
					if r.Intn(2) == 0 {
						from := r.Intn(s.accts)
						s.add("xfer from=%d to=%d amount=%d nonce=%d sub=0", from, r.Intn(s.accts), s.amount(), s.next[from])
						s.nIDs++
					} else if w := r.Intn(2); s.owned[w] > 0 {
						s.add("uu w=%d in=%d to=%d amount=%d sub=0", w, r.Intn(s.owned[w]), r.Intn(2), 1+r.Intn(1000))
						s.nIDs++
					}
					m := 1 + r.Intn(3)
					var idl []string
					for j := 0; j < m; j++ {
						idl = append(idl, fmt.Sprint(r.Intn(s.nIDs)))
					}
					s.add("force ids=%s", strings.Join(idl, ","))
					forced++
					tags["force"] = true
				}
			}
		}
		s.add("reap max=1000")
		s.add("commit max=1000")
		s.add("commit max=1000")
		s.add("reap max=1000")
		var tl []string
		for _, t := range []string{"conf", "feelow", "force", "future", "reject"} {
			if tags[t] {
				tl = append(tl, t)
			}
		}
		s.ops[0] = hx.CaseOp(tl...)
		g.Case(fmt.Sprintf("history size=%d future=%d utxosize=%d maxreap=%d big=%v", size, future, utxosize, maxreap, s.bigBal), s.ops,
			commits > 0 && (tags["future"] || tags["reject"] || tags["force"]))
	}
	// survivor stream: pending transactions that SURVIVE a commit (every recheck path of Update), then a conflicting
	// submission and a reap / commit
	ns := g.Pick(90, 300)
	for k := 0; k < ns; k++ {
		ops, label := survivorCase(g)
		g.Case("survivor "+label, ops, true)
	}
	// middle stream: a commit invalidates a MIDDLE transaction of a sender's pending run (recheck: funds / nonce-low for the
	// middle one, nonce-too-high for the ones behind it, which must move to the future queue and leave goodTxs)
	nm := g.Pick(60, 200)
	for k := 0; k < nm; k++ {
		ops, label := middleCase(g)
		g.Case("middle "+label, ops, true)
	}
	// cache-window stream: rejected (tampered / oversize) transactions and the validator path of foreign blocks holding them,
	// inside and outside the window of a non-atomic AddTx, compared with a cold replica
	nw := g.Pick(50, 150)
	for k := 0; k < nw; k++ {
		ops, label := cacheWindowCase(g)
		g.Case("cachewin "+label, ops, true)
	}
	// concurrent stream: 8 submitting goroutines against the reaping/committing consensus goroutine
	nc := g.Pick(25, 50)
	for k := 0; k < nc; k++ {
		accts := 3
		size := pick(r, []int{2, 5, 3000}, 50)
		ops := []string{hx.CaseOp("conc"), fmt.Sprintf("pool accts=%d wallets=2 bal=%d tbal=1000 size=%d future=%d seed=%d", accts,
			int64(60000000+r.Intn(100000000)), size, pick(r, []int{4, 100000}, 60), 1+r.Intn(1000))}
		lists := make([][]string, 8)
		id := 0
		for a := 0; a < accts; a++ {
			m := 3 + r.Intn(8)
			for nn := 0; nn < m; nn++ {
				ops = append(ops, fmt.Sprintf("xfer from=%d to=%d amount=%d nonce=%d sub=0", a, r.Intn(accts), 1+r.Intn(4000000), nn))
				l := r.Intn(8)
				lists[l] = append(lists[l], fmt.Sprint(id))
				if r.Intn(4) == 0 { // a duplicate from another goroutine
					l2 := r.Intn(8)
					lists[l2] = append(lists[l2], fmt.Sprint(id))
				}
				id++
			}
		}
		var ls []string
		for _, l := range lists {
			ls = append(ls, strings.Join(l, ","))
		}
		ops = append(ops, fmt.Sprintf("conc lists=%s commits=%d max=%d", strings.Join(ls, "|"), 2+r.Intn(4), []int{2, 5, 1000}[r.Intn(3)]))
		g.Count("conc:cases")
		g.Case(fmt.Sprintf("concurrent size=%d", size), ops, true)
	}
}

// survivorCase builds a history in which pending transactions survive a commit that does not contain them — a forced block
// of other transactions, an empty forced block, a block that the UTXOSize / max cap cut short, a foreign block holding a
// CONFLICTING transaction — with goodTxs and utxoTxs empty or not at that moment (all combinations of the recheck paths of
// Mempool.Update), followed by a conflicting submission (second spend of the same output / same nonce), reaps and commits.
// Ids are tracked exactly: every op of this stream builds a fresh transaction (distinct amounts, always buildable).
func survivorCase(g *hx.Gen) ([]string, string) {
	r := g.Rng
	utxosize := pick(r, []int{1, 2, 1000}, 55)
	size := pick(r, []int{5, 3000}, 80)
	ops := []string{hx.CaseOp("survivor"), fmt.Sprintf("pool accts=3 wallets=2 bal=1000000000000 tbal=1000 size=%d future=100000 utxosize=%d maxreap=10000 trie=%d seed=%d",
		size, utxosize, r.Intn(2), 1+r.Intn(1000))}
	id := 0
	next := []int{0, 0, 0}
	amt := 1000
	add := func(f string, a ...interface{}) { ops = append(ops, fmt.Sprintf(f, a...)) }
	newAmt := func() int { amt += 1 + r.Intn(50); return amt }
	// seed wallet 0 with m outputs (indices 0..m-1 whatever the commit order) and drain the pool
	m := 3 + r.Intn(3)
	for i := 0; i < m; i++ {
		from := r.Intn(3)
		add("ain from=%d w=0 amount=%d nonce=%d", from, 20000000000+int64(r.Intn(1000000))*10000, next[from])
		next[from]++
		id++
	}
	for i := 0; i < m+1; i++ {
		add("commit max=1000")
	}
	free := []int{} // outputs of wallet 0 not yet used by this generator
	for i := 0; i < m; i++ {
		free = append(free, i)
	}
	takeOut := func() int {
		if len(free) == 0 {
			return -1
		}
		i := r.Intn(len(free))
		o := free[i]
		free = append(free[:i], free[i+1:]...)
		return o
	}
	spend := func(out int, sub bool) int { // a fresh confidential spend of output `out`; returns its id
		suffix := ""
		if !sub {
			suffix = " sub=0"
		}
		if r.Intn(2) == 0 {
			add("uu w=0 in=%d to=%d amount=%d%s", out, r.Intn(2), newAmt(), suffix)
		} else {
			add("ua w=0 in=%d to=%d amount=%d%s", out, r.Intn(3), newAmt(), suffix)
		}
		id++
		return id - 1
	}
	xfer := func(from int, sub bool) int {
		suffix := ""
		if !sub {
			suffix = " sub=0"
		}
		add("xfer from=%d to=%d amount=%d nonce=%d%s", from, r.Intn(3), newAmt(), next[from], suffix)
		id++
		return id - 1
	}
	var labels []string
	rounds := 1 + r.Intn(2)
	for round := 0; round < rounds; round++ {
		// account transactions pending at the same time? (0: goodTxs empty at the Update)
		nAcct := []int{0, 0, 1, 2}[r.Intn(4)]
		acctFrom := r.Intn(2)
		for i := 0; i < nAcct; i++ {
			xfer(acctFrom, true)
			next[acctFrom]++
		}
		variant := r.Intn(6)
		out := takeOut()
		if out < 0 {
			variant = 5
		}
		switch variant {
		case 0: // a forced block of an unrelated, never submitted transaction: everything pending survives
			labels = append(labels, fmt.Sprintf("force-other/acct=%d", nAcct))
			g.Count("survivor:force-other")
			spend(out, true)
			x := xfer(2, false)
			add("force ids=%d", x)
			next[2]++
		case 1: // an empty foreign block
			labels = append(labels, fmt.Sprintf("force-empty/acct=%d", nAcct))
			g.Count("survivor:force-empty")
			spend(out, true)
			add("force ids=-")
		case 2: // the own block is cut short: a second pending spend is left behind by the UTXOSize cap (or by nothing, if the cap is wide)
			labels = append(labels, fmt.Sprintf("cap/acct=%d/utxosize=%d", nAcct, utxosize))
			g.Count("survivor:cap")
			if o2 := takeOut(); o2 >= 0 {
				spend(o2, true)
			}
			spend(out, true)
			add("commit max=%d", []int{1, 1000}[r.Intn(2)])
		case 3: // a foreign block holding a CONFLICTING spend of the same output: the pending one must go
			labels = append(labels, fmt.Sprintf("force-conflict/acct=%d", nAcct))
			g.Count("survivor:force-conflict")
			c := spend(out, false)
			spend(out, true)
			add("force ids=%d", c)
		case 4: // pending spend survives a forced block that commits the pending ACCOUNT transactions' competitor
			labels = append(labels, fmt.Sprintf("force-acct-competitor/acct=%d", nAcct))
			g.Count("survivor:force-acct-competitor")
			spend(out, true)
			from := 2
			a := xfer(from, true) // pending
			_ = a
			c := xfer(from, false) // same nonce, different content, never submitted
			next[from]++
			xfer(from, true) // the follower nonce, pending
			next[from]++
			add("force ids=%d", c)
		default: // mirror: only account transactions pending, utxo list empty; own block cut by max, or a competitor forced
			labels = append(labels, fmt.Sprintf("acct-only/acct=%d", nAcct))
			g.Count("survivor:acct-only")
			from := 2
			xfer(from, true)
			next[from]++
			c := xfer(from, false) // competitor of the next one
			xfer(from, true)
			next[from]++
			xfer(from, true)
			next[from]++
			if r.Intn(2) == 0 {
				add("commit max=1")
			} else {
				add("force ids=%d", c)
			}
		}
		if r.Intn(3) == 0 {
			add("reap max=1000")
		}
		// the conflicting submissions after the commit
		if out >= 0 {
			spend(out, true) // second spend of the same output: must be refused while the first is pending or committed
			if r.Intn(2) == 0 {
				spend(out, true)
			}
		}
		if r.Intn(2) == 0 && id > 0 {
			add("resub id=%d", r.Intn(id))
		}
		add("reap max=%d", []int{2, 1000, 1000}[r.Intn(3)])
		add("commit max=1000")
		if r.Intn(2) == 0 {
			// once more after the commit: the output is now spent on chain (or its spend still pending)
			if out >= 0 {
				spend(out, true)
			}
			add("reap max=1000")
		}
		add("commit max=1000")
	}
	add("commit max=1000")
	add("reap max=1000")
	return ops, strings.Join(labels, "+")
}

// middleCase: sender a (fresh, 10^8 units, receives nothing) has a pending run A_n, A_n+1 (expensive), A_n+2, ...; a forced
// block then invalidates the MIDDLE one while transactions behind it survive:
//   drain:  the block holds a never-submitted competitor with nonce n that leaves less than A_n+1 costs: A_n is stale, A_n+1
//           underfunded (dropped), A_n+2.. nonce-too-high (must move to the future queue and out of goodTxs); if the
//           competitor leaves 10^7 units a fresh cheap nonce n+1 refills the gap and promotes the queued ones;
//   middle: the block holds A_n itself and a competitor of A_n+1: A_n+2.. stay executable in goodTxs.
// Other senders may have pending transactions at the same time.  Ids are exact (every op builds a fresh transaction).
func middleCase(g *hx.Gen) ([]string, string) {
	r := g.Rng
	size := pick(r, []int{5, 3000}, 70)
	ops := []string{hx.CaseOp("middle"), fmt.Sprintf("pool accts=3 wallets=2 bal=100000000 tbal=1000 size=%d future=%d trie=%d seed=%d",
		size, pick(r, []int{4, 100000}, 80), r.Intn(2), 1+r.Intn(1000))}
	id := 0
	amt := 100
	add := func(f string, a ...interface{}) { ops = append(ops, fmt.Sprintf(f, a...)) }
	a := r.Intn(3)
	to := (a + 1) % 3 // never a: its balance is exactly what this generator computes
	b := (a + 2) % 3
	xfer := func(from, nonce, amount int, sub bool) int {
		suffix := ""
		if !sub {
			suffix = " sub=0"
		}
		amt += 1 + r.Intn(20)
		add("xfer from=%d to=%d amount=%d nonce=%d%s", from, to, amount+amt, nonce, suffix)
		id++
		return id - 1
	}
	n := 0
	if r.Intn(2) == 0 { // a committed prefix: the run does not start at nonce 0
		xfer(a, 0, 0, true)
		add("commit max=1000")
		n = 1
	}
	spent := n * 5001000 // upper bound of what the prefix cost (fee 5*10^6 + amount < 1000)
	for i := 0; i < r.Intn(3); i++ { // other sender's pending transactions
		xfer(b, i, 0, true)
	}
	m := 2 + r.Intn(2) // transactions behind the middle one (size 5 holds 1 + 1 + m <= 5 of this sender when b is quiet)
	first := xfer(a, n, 0, true)
	xfer(a, n+1, 20000000, true) // the middle one costs 2.5*10^7
	for i := 0; i < m; i++ {
		xfer(a, n+2+i, 0, true)
	}
	label := "middle"
	if r.Intn(3) != 0 {
		leave := []int{1, 10000000}[r.Intn(2)]
		label = fmt.Sprintf("drain/leave=%d", leave)
		g.Count("middle:drain")
		// competitor with nonce n: amount + fee 5*10^6 leaves `leave` (+ what the prefix bound over-estimated)
		c := xfer(a, n, 100000000-spent-5000000-leave-2000, false)
		add("force ids=%d", c)
		add("reap max=1000")
		if leave > 1 {
			xfer(a, n+1, 0, true) // a cheap nonce n+1 refills the gap: the queued ones behind it are promoted as far as funds last
		}
	} else {
		g.Count("middle:competitor")
		c := xfer(a, n+1, 0, false)
		add("force ids=%d,%d", first, c)
	}
	add("reap max=1000")
	add("commit max=%d", []int{1, 1000}[r.Intn(2)])
	add("reap max=1000")
	add("commit max=1000")
	add("commit max=1000")
	add("reap max=1000")
	return ops, label
}

// cacheWindowCase: see Rule().  Ids are exact (every uu / ua / xfer op of this stream builds a fresh transaction).
func cacheWindowCase(g *hx.Gen) ([]string, string) {
	r := g.Rng
	ops := []string{hx.CaseOp("cachewin"), fmt.Sprintf("pool accts=3 wallets=2 bal=1000000000000 tbal=1000 replica=1 trie=%d seed=%d", r.Intn(2), 1+r.Intn(1000))}
	add := func(f string, a ...interface{}) { ops = append(ops, fmt.Sprintf(f, a...)) }
	id := 0
	next := []int{0, 0, 0}
	amt := 1000
	m := 2 + r.Intn(3)
	for i := 0; i < m; i++ {
		from := r.Intn(3)
		add("ain from=%d w=0 amount=%d nonce=%d", from, 20000000000+int64(r.Intn(1000000))*10000, next[from])
		next[from]++
		id++
	}
	add("commit max=1000")
	add("commit max=1000")
	tampers := []string{"outpk", "pseudo", "proof", "sig"}
	spend := func(out int, tamper string, sub bool) int {
		amt += 1 + r.Intn(40)
		sfx := ""
		if tamper != "" {
			sfx += " tamper=" + tamper
		}
		if !sub {
			sfx += " sub=0"
		}
		if r.Intn(2) == 0 {
			add("uu w=0 in=%d to=%d amount=%d%s", out, r.Intn(2), amt, sfx)
		} else {
			add("ua w=0 in=%d to=%d amount=%d%s", out, r.Intn(3), amt, sfx)
		}
		id++
		return id - 1
	}
	var labels []string
	var rejected []int
	for k, rounds := 0, 2+r.Intn(3); k < rounds; k++ {
		out := r.Intn(m)
		t := tampers[r.Intn(len(tampers))]
		switch v := r.Intn(6); v {
		case 0: // submitted, refused, forced at once
			labels = append(labels, "submit-force")
			g.Count("cachewin:submit-force")
			x := spend(out, t, true)
			add("force ids=%d", x)
			rejected = append(rejected, x)
		case 1: // inside the window of its own AddTx, then again outside
			labels = append(labels, "window-tampered")
			g.Count("cachewin:window-tampered")
			x := spend(out, t, false)
			add("window id=%d", x)
			add("force ids=%d", x)
			rejected = append(rejected, x)
		case 2: // a valid transaction inside its window: accepted on both nodes, then pooled and committed
			labels = append(labels, "window-valid")
			g.Count("cachewin:window-valid")
			x := spend(out, "", false)
			add("window id=%d", x)
			add("reap max=1000")
			if r.Intn(2) == 0 {
				add("window id=%d", x) // again: a duplicate stops at cache.Put, the entry is checked
			}
			add("commit max=1000")
		case 3: // oversize plain transfer: refused at admission, and a block holding it does not even execute
			labels = append(labels, "oversize")
			g.Count("cachewin:oversize")
			from := r.Intn(3)
			amt += 1 + r.Intn(40)
			add("xfer from=%d to=%d amount=%d nonce=%d pad=%d", from, r.Intn(3), amt, next[from], 33000+r.Intn(2000))
			id++
			add("force ids=%d", id-1)
		case 4: // a tampered and a valid spend of one output: the valid one is pooled, the window is the tampered one's
			labels = append(labels, "window-beside-valid")
			g.Count("cachewin:window-beside-valid")
			spend(out, "", true)
			x := spend(out, t, false)
			add("window id=%d", x)
			add("force ids=%d", x)
			add("commit max=1000")
			rejected = append(rejected, x)
		default: // an earlier refused one, forced again after other ops, alone and beside a valid transfer
			if len(rejected) > 0 {
				labels = append(labels, "force-later")
				g.Count("cachewin:force-later")
				from := r.Intn(3)
				amt += 1 + r.Intn(40)
				add("xfer from=%d to=%d amount=%d nonce=%d", from, r.Intn(3), amt, next[from])
				next[from]++
				id++
				x := rejected[r.Intn(len(rejected))]
				add("force ids=%d", x)
				add("window id=%d", x)
				add("force ids=%d,%d", id-1, x)
				add("commit max=1000")
			}
		}
	}
	add("reap max=1000")
	add("commit max=1000")
	return ops, strings.Join(labels, "+")
}
