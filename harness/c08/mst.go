package c08

// MultiSignAccountTx: the validators' multi-signature over the main info (types/tx_type_mst.go).
// Ops (prefix m.): validators are deterministic ed25519 keys; signatures are symbolic in the op stream
// (ok<j>@<cid> = validator j's real signature over the main info registered as content cid).

import (
	"fmt"
	"math/big"
	"strconv"
	"strings"

	"github.com/lianxiangcloud/linkchain/libs/common"
	"github.com/lianxiangcloud/linkchain/libs/crypto"
	"github.com/lianxiangcloud/linkchain/types"

	"lvharness/hx"
)

type mstPV struct {
	types.PrivValidator
	key crypto.PrivKeyEd25519
}

func (p mstPV) GetAddress() crypto.Address { return p.key.PubKey().Address() }
func (p mstPV) SignData(data []byte) ([]byte, error) {
	sig, err := p.key.Sign(data)
	if err != nil {
		return nil, err
	}
	return sig.Bytes(), nil
}

func valKey(i int) crypto.PrivKeyEd25519 {
	return crypto.GenPrivKeyEd25519FromSecret([]byte(fmt.Sprintf("lv-c08-val-%d", i)))
}

type mstState struct {
	vals     []*types.Validator // by index
	valset   *types.ValidatorSet
	contents map[int]*types.MultiSignMainInfo
	txs      map[int]*types.MultiSignAccountTx
	hashes   [][]byte
}

func newMst() *mstState {
	return &mstState{contents: map[int]*types.MultiSignMainInfo{}, txs: map[int]*types.MultiSignAccountTx{}}
}

func parseContent(toks []string) (*types.MultiSignMainInfo, bool) {
	n, _ := hx.Arg(toks, "nonce")
	t, _ := hx.Arg(toks, "type")
	m, _ := hx.Arg(toks, "min")
	sg, _ := hx.Arg(toks, "signers")
	nonce, e1 := strconv.ParseUint(n, 10, 64)
	typ, e2 := strconv.ParseInt(t, 10, 64)
	min, e3 := strconv.ParseInt(m, 10, 32)
	if e1 != nil || e2 != nil || e3 != nil {
		return nil, false
	}
	mi := &types.MultiSignMainInfo{AccountNonce: nonce, SupportTxType: types.SupportType(typ)}
	mi.MinSignerPower = int32(min)
	for _, p := range hx.SplitComma(sg) {
		kv := strings.Split(p, ":")
		if len(kv) != 2 {
			return nil, false
		}
		w, err := strconv.ParseInt(kv[1], 10, 32)
		if err != nil {
			return nil, false
		}
		mi.Signers = append(mi.Signers, &types.SignerEntry{Power: int32(w), Addr: common.BytesToAddress(hx.UnHex(kv[0]))})
	}
	return mi, true
}

func mstErrClass(err error) string {
	if err == nil {
		return "ok"
	}
	s := err.Error()
	switch {
	case strings.HasPrefix(s, "validators is nil"):
		return "fail:novals"
	case strings.HasPrefix(s, "duplicate signature"):
		return "fail:dup"
	case strings.HasPrefix(s, "invalid validator"):
		return "fail:invalid-validator"
	case strings.HasPrefix(s, "insufficient voting power"):
		return "fail:insufficient"
	}
	return "fail:sigbytes"
}

func (m *mstState) sigBytes(kind string) ([]byte, bool) {
	switch {
	case kind == "bad":
		var s crypto.SignatureEd25519
		for i := range s {
			s[i] = byte(i*7 + 1)
		}
		return s.Bytes(), true
	case kind == "unparse":
		return []byte{0x01, 0x02, 0x03}, true
	case kind == "empty":
		return nil, true
	case strings.HasPrefix(kind, "ok"):
		p := strings.Split(kind[2:], "@")
		if len(p) != 2 {
			return nil, false
		}
		j, e1 := strconv.Atoi(p[0])
		c, e2 := strconv.Atoi(p[1])
		mi := m.contents[c]
		if e1 != nil || e2 != nil || mi == nil {
			return nil, false
		}
		bz, err := types.GenMultiSignBytes(*mi)
		if err != nil {
			return nil, false
		}
		sig, err := valKey(j).Sign(bz)
		if err != nil {
			return nil, false
		}
		return sig.Bytes(), true
	}
	return nil, false
}

func (m *mstState) exec(toks []string) string {
	switch toks[0] {
	case "m.vals":
		ps, _ := hx.Arg(toks, "powers")
		m.vals = nil
		for i, p := range hx.SplitComma(ps) {
			w, _ := strconv.ParseInt(p, 10, 64)
			pk := valKey(i).PubKey()
			m.vals = append(m.vals, &types.Validator{Address: pk.Address(), PubKey: pk, VotingPower: w})
		}
		m.valset = types.NewValidatorSet(m.vals)
		return fmt.Sprintf("ok total=%d", m.valset.TotalVotingPower())
	case "m.content":
		c, _ := intArg(toks, "cid")
		mi, ok := parseContent(toks)
		if !ok {
			return "bad-op"
		}
		m.contents[c] = mi
		bz, err := types.GenMultiSignBytes(*mi)
		if err != nil {
			return "enc-error"
		}
		return "ok bytes=" + hx.Hex(bz)
	case "m.mk":
		i, _ := intArg(toks, "slot")
		c, _ := intArg(toks, "cid")
		mi := m.contents[c]
		if mi == nil {
			return "bad-op"
		}
		st, _ := hx.Arg(toks, "sigs")
		var sigs []types.ValidatorSign
		for _, e := range hx.SplitComma(st) {
			p := strings.SplitN(e, ":", 2)
			if len(p) != 2 || len(p[0]) < 2 {
				return "bad-op"
			}
			k, err := strconv.Atoi(p[0][1:])
			if err != nil {
				return "bad-op"
			}
			var addr []byte
			if p[0][0] == 'v' {
				addr = valKey(k).PubKey().Address()
			} else {
				addr = crypto.Keccak256([]byte(fmt.Sprintf("foreign-%d", k)))[:20]
			}
			sb, ok := m.sigBytes(p[1])
			if !ok {
				return "bad-op"
			}
			sigs = append(sigs, types.ValidatorSign{Addr: addr, Signature: sb})
		}
		cp := *mi
		m.txs[i] = types.NewMultiSignAccountTx(&cp, sigs)
		return "ok"
	}
	i, ok := intArg(toks, "slot")
	tx := m.txs[i]
	if !ok || tx == nil {
		return "no-slot"
	}
	switch toks[0] {
	case "m.sign":
		v, _ := intArg(toks, "val")
		if err := tx.Sign(mstPV{key: valKey(v)}); err != nil {
			return "sign-error"
		}
		return fmt.Sprintf("ok n=%d", len(tx.Signatures))
	case "m.verify":
		if nv, _ := hx.Arg(toks, "vals"); nv == "nil" {
			return mstErrClass(tx.VerifySign(nil))
		}
		return mstErrClass(tx.VerifySign(m.valset))
	case "m.info":
		from, err := tx.From()
		return fmt.Sprintf("from=%s err=%v to=%v nonce=%d type=%s token=%s", hx.Hex(from[:]), err != nil, tx.To() != nil, tx.Nonce(), tx.TypeName(), hx.Hex(tx.TokenAddress().Bytes()))
	case "m.hash":
		h := tx.Hash().Bytes()
		for k, c := range m.hashes {
			if string(c) == string(h) {
				return fmt.Sprintf("class=%d", k)
			}
		}
		m.hashes = append(m.hashes, h)
		return fmt.Sprintf("class=%d", len(m.hashes)-1)
	}
	return "bad-op"
}

// ---- monitor (ground truth from the op tokens alone) --------------------------------------------

type mstMon struct {
	powers   []*big.Int
	contents map[int]string
	txs      map[int]*mstTx
	hashes   map[string]string
}

type mstTx struct {
	content string
	entries []string
}

func contentKey(toks []string) string {
	n, _ := hx.Arg(toks, "nonce")
	t, _ := hx.Arg(toks, "type")
	m, _ := hx.Arg(toks, "min")
	s, _ := hx.Arg(toks, "signers")
	return "nonce=" + n + " type=" + t + " min=" + m + " signers=" + s
}

func (mm *mstMon) step(i int, toks []string, ans string, fail func(mon, class, msg string)) {
	switch toks[0] {
	case "m.vals":
		ps, _ := hx.Arg(toks, "powers")
		mm.powers = nil
		for _, p := range hx.SplitComma(ps) {
			w, _ := new(big.Int).SetString(p, 10)
			mm.powers = append(mm.powers, w)
		}
	case "m.content":
		c, _ := intArg(toks, "cid")
		mm.contents[c] = contentKey(toks)
	case "m.mk":
		s, _ := intArg(toks, "slot")
		delete(mm.txs, s)
		if ans != "ok" {
			return
		}
		c, _ := intArg(toks, "cid")
		st, _ := hx.Arg(toks, "sigs")
		mm.txs[s] = &mstTx{content: mm.contents[c], entries: hx.SplitComma(st)}
	case "m.sign":
		s, _ := intArg(toks, "slot")
		v, _ := intArg(toks, "val")
		if tx := mm.txs[s]; tx != nil && strings.HasPrefix(ans, "ok") {
			// the API signs the CURRENT main info
			cid := -1
			for c, k := range mm.contents {
				if k == tx.content && (cid < 0 || c < cid) {
					cid = c
				}
			}
			tx.entries = append(tx.entries, fmt.Sprintf("v%d:ok%d@%d", v, v, cid))
		}
	case "m.verify":
		s, _ := intArg(toks, "slot")
		tx := mm.txs[s]
		if tx == nil || ans != "ok" {
			return
		}
		if nv, _ := hx.Arg(toks, "vals"); nv == "nil" {
			fail("mst_quorum", "mst-accepted-without-validators", fmt.Sprintf("op %d", i))
			return
		}
		// accepted: the distinct validators whose own signature over exactly this main info is present must hold > 2/3
		total, good := new(big.Int), new(big.Int)
		for _, p := range mm.powers {
			total.Add(total, p)
		}
		counted := map[int]bool{}
		for _, e := range tx.entries {
			p := strings.SplitN(e, ":", 2)
			if len(p) != 2 || p[0][0] != 'v' || !strings.HasPrefix(p[1], "ok") {
				continue
			}
			vi, _ := strconv.Atoi(p[0][1:])
			jc := strings.Split(p[1][2:], "@")
			j, _ := strconv.Atoi(jc[0])
			c, _ := strconv.Atoi(jc[1])
			if j != vi || vi >= len(mm.powers) || counted[vi] || mm.contents[c] != tx.content {
				continue
			}
			counted[vi] = true
			good.Add(good, mm.powers[vi])
		}
		// good > total*2/3  <=>  3*good > 2*total (total*2/3 truncates; good integer)
		thr := new(big.Int).Div(new(big.Int).Mul(total, big.NewInt(2)), big.NewInt(3))
		if good.Cmp(thr) <= 0 {
			fail("mst_quorum", "mst-accepted-without-quorum", fmt.Sprintf("op %d: valid distinct signers hold %s of %s (need > %s): entries %v over %q", i, good, total, thr, tx.entries, tx.content))
		}
	case "m.hash":
		s, _ := intArg(toks, "slot")
		if tx := mm.txs[s]; tx != nil && strings.HasPrefix(ans, "class=") {
			k := tx.content + " | " + strings.Join(tx.entries, ",")
			if p, ok := mm.hashes[ans]; ok && p != k {
				fail("hash_covers_all", "tx-hash-not-binding", fmt.Sprintf("op %d: equal Hash() for %q and %q", i, p, k))
			}
			mm.hashes[ans] = k
		}
	}
}

// ---- generator ---------------------------------------------------------------------------------

func altMin(m int) int {
	if m == 2147483647 {
		return m - 1
	}
	return m + 1
}

func signerAddr(k int) string { return hx.Hex(crypto.Keccak256([]byte(fmt.Sprintf("lv-c08-signer-%d", k)))[:20]) }

func genMst(g *hx.Gen) {
	n := 1 + g.Rng.Intn(6)
	var ps []string
	var pw []int64
	kind := g.Rng.Intn(4)
	for i := 0; i < n; i++ {
		var p int64
		switch kind {
		case 0:
			p = 1
		case 1:
			p = int64(1 + g.Rng.Intn(4))
		case 2:
			p = int64(g.Rng.Intn(3)) // zero powers too
		default:
			p = int64(1) << uint(20+g.Rng.Intn(20))
		}
		pw = append(pw, p)
		ps = append(ps, fmt.Sprint(p))
	}
	ops := []string{caseOp(29153, "mst"), "m.vals powers=" + strings.Join(ps, ",")}
	content := func(cid int, nonce uint64, typ, min int, ns int) string {
		var sg []string
		for k := 0; k < ns; k++ {
			sg = append(sg, fmt.Sprintf("%s:%d", signerAddr(k), 1+(k*7+min)%5))
		}
		s := "-"
		if len(sg) > 0 {
			s = strings.Join(sg, ",")
		}
		return fmt.Sprintf("m.content cid=%d nonce=%d type=%d min=%d signers=%s", cid, nonce, typ, min, s)
	}
	nonce := []uint64{0, 1, 127, 128, 1 << 40}[g.Rng.Intn(5)]
	typ, min, ns := g.Rng.Intn(2), []int{0, 1, 5, 100, -1, 2147483647}[g.Rng.Intn(6)], g.Rng.Intn(4)
	ops = append(ops, content(0, nonce, typ, min, ns))
	// variants: one field changed each
	ops = append(ops, content(1, nonce+1, typ, min, ns), content(2, nonce, 1-typ, min, ns), content(3, nonce, typ, altMin(min), ns), content(4, nonce, typ, min, ns+1))
	// a random subset of validators signs
	perm := g.Rng.Perm(n)
	k := g.Rng.Intn(n + 1)
	var es []string
	for _, v := range perm[:k] {
		es = append(es, fmt.Sprintf("v%d:ok%d@0", v, v))
	}
	sigs := func(e []string) string {
		if len(e) == 0 {
			return "-"
		}
		return strings.Join(e, ",")
	}
	ops = append(ops, fmt.Sprintf("m.mk slot=0 cid=0 sigs=%s", sigs(es)), "m.verify slot=0", "m.info slot=0", "m.hash slot=0")
	next := 1
	mk := func(cid int, e []string) {
		ops = append(ops, fmt.Sprintf("m.mk slot=%d cid=%d sigs=%s", next, cid, sigs(e)), fmt.Sprintf("m.verify slot=%d", next), fmt.Sprintf("m.hash slot=%d", next))
		next++
	}
	for step := 0; step < 4+g.Rng.Intn(5); step++ {
		switch r := g.Rng.Intn(12); {
		case r < 3: // the same signatures under a main info that differs in one field
			cid := 1 + g.Rng.Intn(4)
			mk(cid, es)
			g.Count(fmt.Sprintf("mst:mutated-content-%d", cid))
		case r == 3 && len(es) > 0: // one signer repeated (before / after)
			e := append([]string{}, es...)
			d := es[g.Rng.Intn(len(es))]
			if g.Rng.Intn(2) == 0 {
				e = append([]string{d}, e...)
			} else {
				e = append(e, d)
			}
			mk(0, e)
			g.Count("mst:duplicate-signer")
		case r == 4: // a validator's signature under another validator's address
			a, b := g.Rng.Intn(n), g.Rng.Intn(n)
			e := append(append([]string{}, es...), fmt.Sprintf("v%d:ok%d@0", a, b))
			g.Rng.Shuffle(len(e), func(x, y int) { e[x], e[y] = e[y], e[x] })
			mk(0, e)
			g.Count("mst:transplanted-signature")
		case r == 5: // bad / unparsable / empty signature first, then the good ones
			bad := []string{"bad", "unparse", "empty"}[g.Rng.Intn(3)]
			v := g.Rng.Intn(n)
			e := append([]string{fmt.Sprintf("v%d:%s", v, bad)}, es...)
			if g.Rng.Intn(2) == 0 {
				e = append(es, fmt.Sprintf("v%d:%s", v, bad))
			}
			mk(0, e)
			g.Count("mst:sig-" + bad)
		case r == 6: // a non-validator signs
			e := append(append([]string{}, es...), fmt.Sprintf("f%d:bad", g.Rng.Intn(3)))
			g.Rng.Shuffle(len(e), func(x, y int) { e[x], e[y] = e[y], e[x] })
			mk(0, e)
			g.Count("mst:foreign-signer")
		case r == 7: // signed through the API one validator at a time until (and past) the threshold
			ops = append(ops, fmt.Sprintf("m.mk slot=%d cid=0 sigs=-", next))
			for _, v := range g.Rng.Perm(n) {
				ops = append(ops, fmt.Sprintf("m.sign slot=%d val=%d", next, v), fmt.Sprintf("m.verify slot=%d", next))
			}
			ops = append(ops, fmt.Sprintf("m.hash slot=%d", next))
			next++
			g.Count("mst:api-sign")
		case r == 8: // signatures made over another main info
			cid := 1 + g.Rng.Intn(4)
			var e []string
			for _, v := range perm {
				e = append(e, fmt.Sprintf("v%d:ok%d@%d", v, v, cid))
			}
			mk(0, e)
			mk(cid, e)
			g.Count("mst:signed-other-content")
		case r == 9: // every subset size in order: the threshold boundary
			var e []string
			for _, v := range g.Rng.Perm(n) {
				e = append(e, fmt.Sprintf("v%d:ok%d@0", v, v))
				mk(0, e)
			}
			g.Count("mst:threshold-sweep")
		case r == 10:
			ops = append(ops, "m.verify slot=0 vals=nil")
			g.Count("mst:nil-validators")
		default: // no validators at all
			ops = append(ops, "m.vals powers=-", "m.verify slot=0", "m.vals powers="+strings.Join(ps, ","))
			g.Count("mst:empty-validators")
		}
	}
	_ = pw
	g.Case(fmt.Sprintf("mst n=%d signed=%d", n, k), ops, true)
}
