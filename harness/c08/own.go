package c08

// Confidential outputs (second half of C08): recognised, decoded and spendable only with the destination's keys; the ring
// signature message covers the whole prefix.  Real constructors (NewAinTransaction → GenerateOneTimeAddress,
// GenerateAdditionalKeys, ecdh encode, commitments), real wallet-side functions (IsOutputBelongToAccount, GenerateKeyImage)
// on the stub library's real ed25519 arithmetic; the ring part through the real application stack (appsim).
// Ops (prefix u.).  Ground truth of the monitors = the destination list of the u.tx op.

import (
	"fmt"
	"math/big"
	"strconv"
	"strings"

	"github.com/lianxiangcloud/linkchain/libs/common"
	lktypes "github.com/lianxiangcloud/linkchain/libs/cryptonote/types"
	"github.com/lianxiangcloud/linkchain/libs/cryptonote/ringct"
	"github.com/lianxiangcloud/linkchain/libs/cryptonote/xcrypto"
	"github.com/lianxiangcloud/linkchain/libs/ser"
	"github.com/lianxiangcloud/linkchain/types"

	"lvharness/appsim"
	"lvharness/hx"
)

type ownState struct {
	wallets []*appsim.Wallet
	txs     map[int]*types.UTXOTransaction
	images  [][]byte
}

func newOwn() *ownState { return &ownState{txs: map[int]*types.UTXOTransaction{}} }

type destTok struct {
	w, sub int
	amount int64
}

func parseDests(s string) ([]destTok, bool) {
	var out []destTok
	for _, d := range hx.SplitComma(s) {
		p := strings.Split(d, ":")
		ws := strings.Split(p[0], ".")
		if len(p) != 2 || len(ws) != 2 {
			return nil, false
		}
		w, e1 := strconv.Atoi(ws[0])
		sub, e2 := strconv.Atoi(ws[1])
		a, e3 := strconv.ParseInt(p[1], 10, 64)
		if e1 != nil || e2 != nil || e3 != nil {
			return nil, false
		}
		out = append(out, destTok{w, sub, a})
	}
	return out, true
}

// the sub-address (C, D) of index idx: D = B + m*G with m = GetSubaddressSecretKey(view, idx), C = a*D
// (the stub's tlv_get_subaddress is not implemented; these are the same real primitives generateKeyImage uses)
func subaddress(w *appsim.Wallet, idx uint32) (lktypes.AccountAddress, bool) {
	m := xcrypto.GetSubaddressSecretKey(w.Key.ViewSKey, idx)
	M, err := xcrypto.SecretKeyToPublicKey(m)
	if err != nil {
		return lktypes.AccountAddress{}, false
	}
	D, err := ringct.AddKeys(lktypes.Key(w.Key.Addr.SpendPublicKey), lktypes.Key(M))
	if err != nil {
		return lktypes.AccountAddress{}, false
	}
	C, err := xcrypto.ScalarmultKey(D, lktypes.Key(w.Key.ViewSKey))
	if err != nil {
		return lktypes.AccountAddress{}, false
	}
	return lktypes.AccountAddress{ViewPublicKey: lktypes.PublicKey(C), SpendPublicKey: lktypes.PublicKey(D)}, true
}

func unitsOf(n int64) *big.Int { return new(big.Int).Mul(big.NewInt(n), appsim.Unit) }

// the derivations a wallet tries for output k: the transaction key and the additional key of that output
func derivations(tx *types.UTXOTransaction, view lktypes.SecretKey, k int) []lktypes.KeyDerivation {
	var ds []lktypes.KeyDerivation
	if d, err := xcrypto.GenerateKeyDerivation(tx.RKey, view); err == nil {
		ds = append(ds, d)
	}
	if k < len(tx.AddKeys) {
		if d, err := xcrypto.GenerateKeyDerivation(tx.AddKeys[k], view); err == nil {
			ds = append(ds, d)
		}
	}
	return ds
}

func confOutputs(tx *types.UTXOTransaction) []*types.UTXOOutput {
	var out []*types.UTXOOutput
	for _, o := range tx.Outputs {
		if u, ok := o.(*types.UTXOOutput); ok {
			out = append(out, u)
		}
	}
	return out
}

// decode the amount of output k with a derivation; does the decoded (mask, amount) open the output's commitment?
func decodeAmount(tx *types.UTXOTransaction, der lktypes.KeyDerivation, k int) (*big.Int, bool) {
	scalar, err := xcrypto.DerivationToScalar(der, k)
	if err != nil || k >= len(tx.RCTSig.EcdhInfo) || k >= len(tx.RCTSig.OutPk) {
		return nil, false
	}
	ecdh := tx.RCTSig.EcdhInfo[k]
	if !xcrypto.EcdhDecode(&ecdh, lktypes.Key(scalar), false) {
		return nil, false
	}
	am := types.Hash2BigInt(ecdh.Amount)
	opens := types.AmountCommit(am, ecdh.Mask) == tx.RCTSig.OutPk[k].Mask
	rate, _ := types.GetUtxoCommitmentChangeRate(tx.TokenID)
	return new(big.Int).Mul(am, big.NewInt(rate)), opens
}

func (o *ownState) exec(toks []string) string {
	switch toks[0] {
	case "u.setup":
		setupApp()
		n, _ := intArg(toks, "wallets")
		subs, _ := intArg(toks, "subs")
		seed, _ := intArg(toks, "seed")
		appsim.SeedCrypto(uint64(seed))
		appsim.SetVerify(1, 1)
		o.wallets, o.txs, o.images = nil, map[int]*types.UTXOTransaction{}, nil
		for i := 0; i < n; i++ {
			w := appsim.NewWallet(i)
			for s := 1; s <= subs; s++ {
				a, ok := subaddress(w, uint32(s))
				if !ok {
					return "subaddress-error"
				}
				w.Idx[a.SpendPublicKey] = uint64(s)
			}
			o.wallets = append(o.wallets, w)
		}
		return "ok"
	case "u.tx":
		id, _ := intArg(toks, "id")
		ds, _ := hx.Arg(toks, "dests")
		dests, ok := parseDests(ds)
		if !ok {
			return "bad-op"
		}
		var de []types.DestEntry
		total := new(big.Int)
		for _, d := range dests {
			if d.w >= len(o.wallets) {
				return "bad-op"
			}
			w := o.wallets[d.w]
			addr := w.Key.Addr
			if d.sub > 0 {
				addr, _ = subaddress(w, uint32(d.sub))
			}
			de = append(de, &types.UTXODestEntry{Addr: addr, Amount: unitsOf(d.amount), IsSubaddress: d.sub > 0})
			total.Add(total, unitsOf(d.amount))
		}
		tx, err := appsim.BuildAin(appsim.NewAccount(0), 0, total, de, common.EmptyAddress)
		if err != nil {
			return "build-error"
		}
		// as a receiver sees it: decoded from the wire
		b, err := ser.EncodeToBytes(tx)
		if err != nil {
			return "enc-error"
		}
		rt := new(types.UTXOTransaction)
		if err := ser.DecodeBytes(b, rt); err != nil {
			return "dec-error"
		}
		o.txs[id] = rt
		ots := map[lktypes.Key]bool{}
		for _, u := range confOutputs(rt) {
			ots[u.OTAddr] = true
		}
		return fmt.Sprintf("ok outs=%d distinct=%d addkeys=%d", len(confOutputs(rt)), len(ots), len(rt.AddKeys))
	}
	id, _ := intArg(toks, "tx")
	tx := o.txs[id]
	if tx == nil {
		return "no-tx"
	}
	outs := confOutputs(tx)
	switch toks[0] {
	case "u.scan":
		wi, _ := intArg(toks, "w")
		if wi >= len(o.wallets) {
			return "bad-op"
		}
		w := o.wallets[wi]
		var found []string
		for k, u := range outs {
			der, sub, err := types.IsOutputBelongToAccount(&w.Key, w.Idx, u.OTAddr, derivations(tx, w.Key.ViewSKey, k), uint64(k))
			if err != nil {
				continue
			}
			am, opens := decodeAmount(tx, der, k)
			if am == nil || !opens {
				found = append(found, fmt.Sprintf("%d:%d:undecodable", k, sub))
				continue
			}
			found = append(found, fmt.Sprintf("%d:%d:%s", k, sub, new(big.Int).Div(am, appsim.Unit)))
		}
		if len(found) == 0 {
			return "-"
		}
		return strings.Join(found, ",")
	case "u.force":
		// a wallet that does NOT recognise the output decodes it anyway with each of its derivations
		wi, _ := intArg(toks, "w")
		k, _ := intArg(toks, "out")
		if wi >= len(o.wallets) || k >= len(outs) {
			return "bad-op"
		}
		for _, der := range derivations(tx, o.wallets[wi].Key.ViewSKey, k) {
			if _, opens := decodeAmount(tx, der, k); opens {
				return "opens=true"
			}
		}
		return "opens=false"
	case "u.image":
		vi, _ := intArg(toks, "view")
		si, _ := intArg(toks, "spend")
		k, _ := intArg(toks, "out")
		if vi >= len(o.wallets) || si >= len(o.wallets) || k >= len(outs) {
			return "bad-op"
		}
		v, s := o.wallets[vi], o.wallets[si]
		acc := lktypes.AccountKey{Addr: v.Key.Addr, ViewSKey: v.Key.ViewSKey, SpendSKey: s.Key.SpendSKey}
		// the sender's key the wallet would use: whichever derivation recognises the output
		for _, rk := range append([]lktypes.PublicKey{tx.RKey}, tx.AddKeys...) {
			src := &types.UTXOSourceEntry{Ring: []types.UTXORingEntry{{OTAddr: outs[k].OTAddr}}, RingIndex: 0, RKey: rk, OutIndex: uint64(k)}
			ephs, err := types.GenerateKeyImage(&acc, v.Idx, []*types.UTXOSourceEntry{src})
			if err != nil || len(ephs) != 1 {
				continue
			}
			pub, err := xcrypto.SecretKeyToPublicKey(ephs[0].SKey)
			opens := err == nil && lktypes.Key(pub) == outs[k].OTAddr
			c := -1
			for i, im := range o.images {
				if string(im) == string(ephs[0].KeyImage[:]) {
					c = i
				}
			}
			if c < 0 {
				o.images = append(o.images, append([]byte{}, ephs[0].KeyImage[:]...))
				c = len(o.images) - 1
			}
			return fmt.Sprintf("img=%d opens=%v", c, opens)
		}
		return "err"
	}
	return "bad-op"
}

// ---- the ring signature message (through the real application) -------------------------------------

var ringFields = []string{"none", "otaddr", "remark", "outamount", "token", "rkey", "addkeys", "fee", "extra", "sigv", "sigr", "keyimage", "aoutto", "aoutamount"}

// u.ring field=<f> seed=<n>: account -> wallet 0 (block), then wallet 0 spends to wallet 1 (+ an account output for the
// aout* fields); the built transaction passes CheckBasic; the same bytes with ONE component changed must not.
func ringOp(toks []string) string {
	setupApp()
	f, _ := hx.Arg(toks, "field")
	seed, _ := intArg(toks, "seed")
	c := &appsim.ChainExec{}
	if a := c.Exec(fmt.Sprintf("chain accts=2 wallets=2 seed=%d", seed)); a != "ok" {
		return "setup=" + a
	}
	defer c.S.Close()
	c.Exec("ain from=0 w=0 amount=100000000000 nonce=0")
	if a := c.Exec("block"); !strings.HasPrefix(a, "h=") {
		return "setup-block=" + a
	}
	w := c.Wallets[0]
	if len(w.Outs) == 0 {
		return "setup=no-output"
	}
	in := *w.Outs[0]
	gasU := big.NewInt(0).SetUint64(c.S.App.GetUTXOGas())
	var dests []types.DestEntry
	spend := unitsOf(20000000000)
	fee := new(big.Int).Mul(gasU, big.NewInt(types.ParGasPrice))
	if strings.HasPrefix(f, "aout") {
		dests = append(dests, &types.AccountDestEntry{To: c.Accts[1].Addr, Amount: unitsOf(5000000000)})
		fee.Add(fee, new(big.Int).Mul(new(big.Int).SetUint64(types.CalNewAmountGas(unitsOf(5000000000), types.EverLiankeFee)), big.NewInt(types.ParGasPrice)))
		spend = unitsOf(15000000000)
	}
	dests = append(dests, c.Wallets[1].Dest(spend))
	change := new(big.Int).Sub(in.Amount, unitsOf(20000000000))
	change.Sub(change, fee)
	if change.Sign() <= 0 {
		return fmt.Sprintf("setup=funds in=%s fee=%s gas=%s", in.Amount, fee, gasU)
	}
	dests = append(dests, w.Dest(change))
	tx, err := appsim.BuildUin(w, []*appsim.OwnedOut{&in}, dests, common.EmptyAddress, common.EmptyAddress)
	if err != nil {
		return "setup=build:" + appsim.ErrClass(err)
	}
	reload := func() *types.UTXOTransaction {
		b, _ := ser.EncodeToBytes(tx)
		rt := new(types.UTXOTransaction)
		if ser.DecodeBytes(b, rt) != nil {
			return nil
		}
		return rt
	}
	base := reload()
	if base == nil {
		return "setup=codec"
	}
	res := func(err error) string {
		if err == nil {
			return "ok"
		}
		return "rej"
	}
	b := res(c.S.App.CheckTx(base, true))
	t := reload()
	firstU := func() *types.UTXOOutput {
		for _, o := range t.Outputs {
			if u, ok := o.(*types.UTXOOutput); ok {
				return u
			}
		}
		return nil
	}
	firstA := func() *types.AccountOutput {
		for _, o := range t.Outputs {
			if u, ok := o.(*types.AccountOutput); ok {
				return u
			}
		}
		return nil
	}
	switch f {
	case "none":
	case "otaddr":
		// another valid point: the second confidential output's address
		us := confOutputs(t)
		if len(us) < 2 {
			return "setup=outs"
		}
		us[0].OTAddr, us[1].OTAddr = us[1].OTAddr, us[0].OTAddr
	case "remark":
		firstU().Remark[3] ^= 1
	case "outamount":
		firstU().Amount = big.NewInt(1)
	case "token":
		t.TokenID = c.Tok
	case "rkey":
		t.RKey = c.Wallets[1].Key.Addr.SpendPublicKey
	case "addkeys":
		t.AddKeys = append(t.AddKeys, c.Wallets[1].Key.Addr.ViewPublicKey)
	case "fee":
		t.Fee = new(big.Int).Add(t.Fee, big.NewInt(types.ParGasPrice))
	case "extra":
		t.Extra = append(t.Extra, 1)
	case "sigv":
		t.Sigs.V = big.NewInt(27)
	case "sigr":
		t.Sigs.R = big.NewInt(5)
	case "keyimage":
		// another wallet's valid key image point cannot be produced here; a changed image changes the message and II
		t.Inputs[0].(*types.UTXOInput).KeyImage = lktypes.Key(c.Wallets[1].Key.Addr.SpendPublicKey)
	case "aoutto":
		firstA().To = c.Accts[0].Addr
	case "aoutamount":
		firstA().Amount = new(big.Int).Add(firstA().Amount, appsim.Unit)
	default:
		return "bad-op"
	}
	return fmt.Sprintf("base=%s tampered=%s", b, res(c.S.App.CheckTx(t, true)))
}

// ---- monitor ---------------------------------------------------------------------------------------

type ownMon struct {
	dests  map[int][]destTok
	images map[string]string // true-owner image class -> "tx/out"
}

func (om *ownMon) step(i int, toks []string, ans string, fail func(mon, class, msg string)) {
	switch toks[0] {
	case "u.tx":
		id, _ := intArg(toks, "id")
		ds, _ := hx.Arg(toks, "dests")
		d, _ := parseDests(ds)
		delete(om.dests, id)
		if strings.HasPrefix(ans, "ok") {
			om.dests[id] = d
			at := hx.Tokens(ans)
			n, _ := hx.Arg(at, "outs")
			dd, _ := hx.Arg(at, "distinct")
			if n != dd {
				fail("ownership", "one-time-address-reused", fmt.Sprintf("op %d: %s outputs, %s distinct one-time addresses", i, n, dd))
			}
		}
	case "u.scan":
		id, _ := intArg(toks, "tx")
		w, _ := intArg(toks, "w")
		d, ok := om.dests[id]
		if !ok || strings.HasPrefix(ans, "bad") || strings.HasPrefix(ans, "no-") {
			return
		}
		want := map[int]string{}
		for k, x := range d {
			if x.w == w {
				want[k] = fmt.Sprintf("%d:%d:%d", k, x.sub, x.amount)
			}
		}
		got := map[int]string{}
		for _, e := range hx.SplitComma(ans) {
			k, _ := strconv.Atoi(strings.SplitN(e, ":", 2)[0])
			got[k] = e
		}
		for k, e := range got {
			if _, mine := want[k]; !mine {
				fail("ownership", "output-recognised-by-non-owner", fmt.Sprintf("op %d: wallet %d recognises output %d (%s) addressed to wallet %d", i, w, k, e, d[k].w))
			} else if want[k] != e {
				fail("ownership", "owner-decodes-wrong-output-data", fmt.Sprintf("op %d: wallet %d sees %s, sent %s", i, w, e, want[k]))
			}
		}
		for k, e := range want {
			if _, ok := got[k]; !ok {
				fail("ownership", "owner-misses-output", fmt.Sprintf("op %d: wallet %d does not recognise its output %s", i, w, e))
			}
		}
	case "u.force":
		id, _ := intArg(toks, "tx")
		w, _ := intArg(toks, "w")
		k, _ := intArg(toks, "out")
		if d, ok := om.dests[id]; ok && k < len(d) && d[k].w != w && ans == "opens=true" {
			fail("ownership", "amount-opened-with-wrong-view-key", fmt.Sprintf("op %d: wallet %d opens output %d of wallet %d", i, w, k, d[k].w))
		}
	case "u.image":
		id, _ := intArg(toks, "tx")
		v, _ := intArg(toks, "view")
		s, _ := intArg(toks, "spend")
		k, _ := intArg(toks, "out")
		d, ok := om.dests[id]
		if !ok || k >= len(d) {
			return
		}
		owner := d[k].w == v && d[k].w == s
		at := hx.Tokens(ans)
		op, _ := hx.Arg(at, "opens")
		img, _ := hx.Arg(at, "img")
		switch {
		case !owner && op == "true":
			fail("ownership", "output-spendable-without-owner-keys", fmt.Sprintf("op %d: view %d spend %d derive the secret of output %d of wallet %d", i, v, s, k, d[k].w))
		case owner && op != "true":
			fail("ownership", "owner-cannot-spend", fmt.Sprintf("op %d: %s", i, ans))
		case owner:
			key := fmt.Sprintf("%d/%d", id, k)
			if p, ok := om.images[img]; ok && p != key {
				fail("ownership", "key-image-collision", fmt.Sprintf("op %d: outputs %s and %s have the same key image", i, p, key))
			}
			om.images[img] = key
		case d[k].w != v && ans != "err":
			fail("ownership", "output-recognised-by-non-owner", fmt.Sprintf("op %d: GenerateKeyImage succeeds for view key %d on an output of wallet %d", i, v, d[k].w))
		}
	case "u.ring":
		f, _ := hx.Arg(toks, "field")
		if strings.HasPrefix(ans, "setup") {
			fail("ring_message_binds", "ring-scenario-not-built", fmt.Sprintf("op %d: %s", i, ans))
			return
		}
		if !strings.HasPrefix(ans, "base=ok") {
			fail("ring_message_binds", "ring-baseline-rejected", fmt.Sprintf("op %d: %s", i, ans))
			return
		}
		if f == "none" && !strings.HasSuffix(ans, "tampered=ok") {
			fail("ring_message_binds", "ring-baseline-rejected", fmt.Sprintf("op %d: re-decoded bytes rejected: %s", i, ans))
		}
		if f != "none" && strings.HasSuffix(ans, "tampered=ok") {
			fail("ring_message_binds", "ring-signature-does-not-bind", fmt.Sprintf("op %d: component %q changed after signing and CheckBasic still accepts", i, f))
		}
	}
}

// ---- generator -------------------------------------------------------------------------------------

func genOwn(g *hx.Gen) {
	nw := 2 + g.Rng.Intn(3)
	subs := g.Rng.Intn(3)
	ops := []string{caseOp(29153, "own"), fmt.Sprintf("u.setup wallets=%d subs=%d seed=%d", nw, subs, 1+g.Rng.Intn(1000))}
	ntx := 1 + g.Rng.Intn(2)
	for t := 0; t < ntx; t++ {
		nd := 1 + g.Rng.Intn(3)
		var ds []string
		var dd []destTok
		for k := 0; k < nd; k++ {
			d := destTok{g.Rng.Intn(nw), 0, int64(1 + g.Rng.Intn(1000))}
			if subs > 0 && g.Rng.Intn(2) == 0 {
				d.sub = 1 + g.Rng.Intn(subs)
			}
			if k > 0 && g.Rng.Intn(4) == 0 {
				d = dd[k-1] // the same destination twice: the one-time addresses must still differ
			}
			dd = append(dd, d)
			ds = append(ds, fmt.Sprintf("%d.%d:%d", d.w, d.sub, d.amount))
		}
		ops = append(ops, fmt.Sprintf("u.tx id=%d dests=%s", t, strings.Join(ds, ",")))
		for w := 0; w < nw; w++ {
			ops = append(ops, fmt.Sprintf("u.scan tx=%d w=%d", t, w))
		}
		for k := range dd {
			for w := 0; w < nw; w++ {
				if w != dd[k].w {
					ops = append(ops, fmt.Sprintf("u.force tx=%d out=%d w=%d", t, k, w))
				}
			}
			// every (view, spend) key combination
			for v := 0; v < nw; v++ {
				for s := 0; s < nw; s++ {
					if v == dd[k].w || s == dd[k].w || g.Rng.Intn(3) == 0 {
						ops = append(ops, fmt.Sprintf("u.image tx=%d out=%d view=%d spend=%d", t, k, v, s))
					}
				}
			}
			g.Count(fmt.Sprintf("own:dest-sub-%v", dd[k].sub > 0))
		}
	}
	g.Case(fmt.Sprintf("ownership wallets=%d subs=%d", nw, subs), ops, true)
}

func genRing(g *hx.Gen) {
	for _, f := range ringFields {
		if !g.Thorough() && f != "none" && g.Rng.Intn(2) == 0 && false {
			continue
		}
		g.Count("ring:" + f)
		g.Case("ring message component "+f, []string{caseOp(29153, "ring"), fmt.Sprintf("u.ring field=%s seed=%d", f, 1+g.Rng.Intn(1000))}, true)
	}
}
