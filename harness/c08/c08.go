// Package c08: correspondence + monitors for "only the key holder can move funds; signatures bind every field"
// against the real types.Transaction / TokenTransaction / ContractUpgradeTx / UTXOTransaction (account signature),
// the three STDSigners, the sender caches and crypto.ValidateSignatureValues.
package c08

import (
	"crypto/ecdsa"
	"fmt"
	"math/big"
	"strconv"
	"strings"
	"sync"

	"github.com/lianxiangcloud/linkchain/libs/common"
	"github.com/lianxiangcloud/linkchain/libs/crypto"
	lktypes "github.com/lianxiangcloud/linkchain/libs/cryptonote/types"
	"github.com/lianxiangcloud/linkchain/libs/log"
	"github.com/lianxiangcloud/linkchain/libs/ser"
	"github.com/lianxiangcloud/linkchain/types"

	"lvharness/appsim"
	"lvharness/hx"
)

type P struct{}

func (P) Rule() string {
	return "cases: a transaction of every account-signed kind (Transaction incl. contract creation, TokenTransaction, ContractUpgradeTx with 1-3 signatures, " +
		"UTXOTransaction with an account input) with random fields, signed with real secp256k1 keys through the API (Sign) or over the signer's hash directly " +
		"(EIP155 with several chain parameters, homestead V=27/28, frontier); then every single-field and sampled multi-field mutation on a fresh object, " +
		"r/s/v boundary encodings (0,1,N-1,N,N/2,N/2+1, high-s twin, flipped recovery id, V of the other chain, V>8 bits, V>64 bits, negative V), " +
		"wrong chain parameter, cross-kind signature transplant, and the cache states cold / warm by From / warm by StoreFrom from a hash-identical twin / " +
		"mutated or re-signed in place; plus a grid of direct ValidateSignatureValues / Protected / SignParam calls and a stream of random signatures. " +
		"non-trivial = at least one signature recovered a known key and at least one mutation or foreign signer was then evaluated; distinct = distinct op sequence"
}

var once sync.Once

// the application stack (appsim) registers the UTXO types itself, once; both setups must not register twice
func setupApp() { setup() }

func setup() {
	once.Do(func() {
		log.Root().SetHandler(log.DiscardHandler())
		types.GetLogger().SetHandler(log.DiscardHandler())
		// appsim's one-time initialisation registers the UTXO types with libs/ser (a second registration would panic)
		if s, err := appsim.NewStack(appsim.Opts{}); err == nil {
			s.Close()
		} else {
			types.RegisterUTXOTxData()
		}
	})
}

var (
	curveN = crypto.S256().Params().N
	halfN  = new(big.Int).Div(curveN, big.NewInt(2))
)

// ---- typed value tokens ----------------------------------------------------------------------

func tokU(n *big.Int) string { return "u:" + n.String() }
func tokU64(n uint64) string { return "u:" + strconv.FormatUint(n, 10) }
func tokX(b []byte) string   { return "x:" + hx.Hex(b) }
func tokR(b []byte) string   { return "r:" + hx.Hex(b) }
func tokA(a *common.Address) string {
	if a == nil {
		return "a:nil"
	}
	return "a:" + hx.Hex(a[:])
}

func mustEnc(v interface{}) []byte {
	b, err := ser.EncodeToBytes(v)
	if err != nil {
		panic("harness: ser encode: " + err.Error())
	}
	return b
}

// the libs/ser item of a typed token, produced by the real encoder
func itemOf(tok string) []byte {
	switch {
	case strings.HasPrefix(tok, "u:"):
		n, ok := new(big.Int).SetString(tok[2:], 10)
		if !ok {
			panic("harness: bad uint token " + tok)
		}
		return mustEnc(n)
	case strings.HasPrefix(tok, "x:"):
		return mustEnc(hx.UnHex(tok[2:]))
	case tok == "a:nil":
		return []byte{0x80}
	case strings.HasPrefix(tok, "a:"):
		return mustEnc(hx.UnHex(tok[2:]))
	case strings.HasPrefix(tok, "r:"):
		return hx.UnHex(tok[2:])
	}
	panic("harness: bad token " + tok)
}

func encodeList(items [][]byte) []byte {
	vals := make([]interface{}, len(items))
	for i, it := range items {
		vals[i] = ser.RawValue(it)
	}
	return mustEnc(vals)
}

func tokBig(tok string) *big.Int {
	n, _ := new(big.Int).SetString(tok[2:], 10)
	return n
}
func tokBytes(tok string) []byte { return hx.UnHex(tok[2:]) }
func tokAddr(tok string) *common.Address {
	if tok == "a:nil" {
		return nil
	}
	a := common.BytesToAddress(hx.UnHex(tok[2:]))
	return &a
}

// ---- kinds -----------------------------------------------------------------------------------

type kindDesc struct {
	wire   []string // payload fields in wire (struct) order
	signed []string // the fields the property says the account signature must bind
}

var kinds = map[string]kindDesc{
	"tx":   {[]string{"AccountNonce", "Price", "GasLimit", "Recipient", "Amount", "Payload"}, []string{"AccountNonce", "Price", "GasLimit", "Recipient", "Amount", "Payload"}},
	"tok":  {[]string{"TokenAddress", "AccountNonce", "Price", "GasLimit", "Recipient", "Amount", "Payload"}, []string{"TokenAddress", "AccountNonce", "Price", "GasLimit", "Recipient", "Amount", "Payload"}},
	"cut":  {[]string{"FromAddr", "Recipient", "AccountNonce", "Payload"}, []string{"FromAddr", "Recipient", "AccountNonce", "Payload"}},
	"utxo": {[]string{"Inputs", "Outputs", "TokenID", "RKey", "AddKeys", "Fee", "Extra", "RCTSig"}, []string{"Inputs", "Outputs", "TokenID", "RKey", "AddKeys", "Fee", "Extra"}},
}

type sigv struct{ v, r, s *big.Int }

func (s sigv) String() string {
	return fmt.Sprintf("%s:%s:%s", s.v.String(), hx.Hex(s.r.Bytes()), hx.Hex(s.s.Bytes()))
}

func parseSig(t string) (sigv, bool) {
	p := strings.Split(t, ":")
	if len(p) != 3 {
		return sigv{}, false
	}
	v, ok := new(big.Int).SetString(p[0], 10)
	if !ok {
		return sigv{}, false
	}
	return sigv{v, new(big.Int).SetBytes(hx.UnHex(p[1])), new(big.Int).SetBytes(hx.UnHex(p[2]))}, true
}

func sigsToken(ss []sigv) string {
	if len(ss) == 0 {
		return "-"
	}
	var out []string
	for _, s := range ss {
		out = append(out, s.String())
	}
	return strings.Join(out, ",")
}

func parseSigs(tok string) ([]sigv, bool) {
	var out []sigv
	for _, t := range hx.SplitComma(tok) {
		s, ok := parseSig(t)
		if !ok {
			return nil, false
		}
		out = append(out, s)
	}
	return out, true
}

type slot struct {
	kind   string
	fields map[string]string
	sigs   []sigv
	obj    interface{}
}

func sigItems(s sigv) [][]byte { return [][]byte{mustEnc(s.v), mustEnc(s.r), mustEnc(s.s)} }

func (s *slot) sig0() sigv {
	if len(s.sigs) == 0 {
		return sigv{new(big.Int), new(big.Int), new(big.Int)}
	}
	return s.sigs[0]
}

// wire encoding of tx / tok
func (s *slot) wire() []byte {
	var items [][]byte
	for _, f := range kinds[s.kind].wire {
		items = append(items, itemOf(s.fields[f]))
	}
	if s.kind == "tx" {
		items = append(items, sigItems(s.sig0())...)
	} else {
		items = append(items, encodeList(sigItems(s.sig0())))
	}
	return encodeList(items)
}

func (s *slot) mainInfo() types.ContractUpgradeMainInfo {
	return types.ContractUpgradeMainInfo{
		FromAddr:     *tokAddr(s.fields["FromAddr"]),
		Recipient:    *tokAddr(s.fields["Recipient"]),
		AccountNonce: tokBig(s.fields["AccountNonce"]).Uint64(),
		Payload:      tokBytes(s.fields["Payload"]),
	}
}

func (s *slot) assignUTXO(tx *types.UTXOTransaction, withSig bool) error {
	var ins []types.Input
	if err := ser.DecodeBytes(tokBytes(s.fields["Inputs"]), &ins); err != nil {
		return err
	}
	var outs []types.Output
	if err := ser.DecodeBytes(tokBytes(s.fields["Outputs"]), &outs); err != nil {
		return err
	}
	var add []lktypes.PublicKey
	if err := ser.DecodeBytes(tokBytes(s.fields["AddKeys"]), &add); err != nil {
		return err
	}
	tx.Inputs, tx.Outputs, tx.AddKeys = ins, outs, add
	tx.TokenID = *tokAddr(s.fields["TokenID"])
	var rk lktypes.PublicKey
	copy(rk[:], tokBytes(s.fields["RKey"]))
	tx.RKey = rk
	tx.Fee = tokBig(s.fields["Fee"])
	tx.Extra = tokBytes(s.fields["Extra"])
	if withSig {
		g := s.sig0()
		tx.Sigs.V, tx.Sigs.R, tx.Sigs.S = g.v, g.r, g.s
	}
	return nil
}

// build a fresh object (cold caches), as a decoder would
func (s *slot) build() error {
	s.obj = nil
	switch s.kind {
	case "tx":
		tx := new(types.Transaction)
		if err := ser.DecodeBytes(s.wire(), tx); err != nil {
			return err
		}
		s.obj = tx
	case "tok":
		tx := new(types.TokenTransaction)
		if err := ser.DecodeBytes(s.wire(), tx); err != nil {
			return err
		}
		s.obj = tx
	case "cut":
		mi := s.mainInfo()
		var sd [][]byte
		for _, g := range s.sigs {
			sd = append(sd, encodeList(sigItems(g)))
		}
		tx := types.UpgradeContractTx(&mi, sd)
		if tx == nil {
			return fmt.Errorf("UpgradeContractTx returned nil")
		}
		s.obj = tx
	case "utxo":
		tx := &types.UTXOTransaction{}
		if err := s.assignUTXO(tx, true); err != nil {
			return err
		}
		s.obj = tx
	default:
		return fmt.Errorf("kind")
	}
	return nil
}

// write the current fields/signature into the SAME object (caches are whatever the code leaves)
func (s *slot) inplace() error {
	switch tx := s.obj.(type) {
	case *types.Transaction:
		return ser.DecodeBytes(s.wire(), tx)
	case *types.TokenTransaction:
		return ser.DecodeBytes(s.wire(), tx)
	case *types.ContractUpgradeTx:
		tx.ContractUpgradeMainInfo = s.mainInfo()
		return nil
	case *types.UTXOTransaction:
		return s.assignUTXO(tx, true)
	}
	return fmt.Errorf("no object")
}

// ---- executor --------------------------------------------------------------------------------

type exec struct {
	chain int64
	keys  []common.Address
	slots map[int]*slot
	mst   *mstState
	own   *ownState
}

func (P) NewExec() hx.Executor { setup(); return &exec{chain: 29153, slots: map[int]*slot{}} }

func parseSigner(t string) types.STDSigner {
	switch {
	case t == "home":
		return types.STDHomesteadSigner{}
	case t == "front":
		return types.STDFrontierSigner{}
	case strings.HasPrefix(t, "eip:"):
		n, ok := new(big.Int).SetString(t[4:], 10)
		if ok {
			return types.NewSTDEIP155Signer(n)
		}
	}
	return nil
}

func (e *exec) who(a common.Address, err error) string {
	if err != nil {
		switch err {
		case types.ErrInvalidSig:
			return "rej:sig"
		case types.ErrInvalidSignParam:
			return "rej:param"
		}
		return "other" // Ecrecover failed: no key holder either
	}
	if a == common.EmptyAddress {
		return "zero"
	}
	for i, k := range e.keys {
		if k == a {
			return fmt.Sprintf("key=%d", i)
		}
	}
	return "other"
}

func intArg(toks []string, k string) (int, bool) {
	v, ok := hx.Arg(toks, k)
	if !ok {
		return 0, false
	}
	n, err := strconv.Atoi(v)
	return n, err == nil
}

func fieldArgs(toks []string) map[string]string {
	m := map[string]string{}
	for _, t := range toks {
		if strings.HasPrefix(t, "f.") {
			if i := strings.Index(t, "="); i > 0 {
				m[t[2:i]] = t[i+1:]
			}
		}
	}
	return m
}

func hex32(n *big.Int) string { return fmt.Sprintf("%064x", n) }

func (e *exec) Exec(op string) string {
	toks := hx.Tokens(op)
	if strings.HasPrefix(toks[0], "m.") {
		if e.mst == nil {
			e.mst = newMst()
		}
		return e.mst.exec(toks)
	}
	if toks[0] == "u.ring" {
		return ringOp(toks)
	}
	if strings.HasPrefix(toks[0], "u.") {
		if e.own == nil {
			e.own = newOwn()
		}
		return e.own.exec(toks)
	}
	switch toks[0] {
	case "case":
		e.chain = 29153
		if c, ok := hx.Arg(toks, "chain"); ok {
			e.chain, _ = strconv.ParseInt(c, 10, 64)
		}
		types.SignParam = big.NewInt(e.chain)
		types.GlobalSTDSigner = types.MakeSTDSigner(nil)
		e.keys, e.slots = nil, map[int]*slot{}
		e.mst = newMst()
		e.own = newOwn()
		return "ok"
	case "keys":
		a, _ := hx.Arg(toks, "addrs")
		e.keys = nil
		for _, h := range hx.SplitComma(a) {
			e.keys = append(e.keys, common.BytesToAddress(hx.UnHex(h)))
		}
		return "ok"
	case "oracle":
		// the declaration "(r,s,recid) is key k's signature over digest" is checked with the real Ecrecover
		k, _ := intArg(toks, "key")
		d, _ := hx.Arg(toks, "digest")
		r, _ := hx.Arg(toks, "r")
		s, _ := hx.Arg(toks, "s")
		v, _ := intArg(toks, "recid")
		sig := make([]byte, 65)
		rb, sb := hx.UnHex(r), hx.UnHex(s)
		if len(rb) > 32 || len(sb) > 32 || k >= len(e.keys) {
			return "bad-oracle"
		}
		copy(sig[32-len(rb):32], rb)
		copy(sig[64-len(sb):64], sb)
		sig[64] = byte(v)
		pub, err := crypto.Ecrecover(hx.UnHex(d), sig)
		if err != nil || len(pub) == 0 {
			return "bad-oracle"
		}
		if common.BytesToAddress(crypto.Keccak256(pub[1:])[12:]) != e.keys[k] {
			return "bad-oracle"
		}
		return "ok"
	case "vrs":
		v, _ := intArg(toks, "v")
		r, _ := hx.Arg(toks, "r")
		s, _ := hx.Arg(toks, "s")
		hs, _ := hx.Arg(toks, "hs")
		return fmt.Sprint(crypto.ValidateSignatureValues(byte(v), new(big.Int).SetBytes(hx.UnHex(r)), new(big.Int).SetBytes(hx.UnHex(s)), hs == "true"))
	case "vinfo":
		vs, _ := hx.Arg(toks, "v")
		v, _ := new(big.Int).SetString(vs, 10)
		if vs == "nil" {
			v = nil
		}
		tx := &types.UTXOTransaction{}
		tx.Sigs.V = v
		return fmt.Sprintf("protected=%v param=%s", tx.Sigs.Protected(), tx.Sigs.SignParam().String())
	case "cutapi":
		// types.SignContractUpgradeTx per key (global signer), then types.UpgradeContractTx
		i, _ := intArg(toks, "slot")
		ps, _ := hx.Arg(toks, "privs")
		s := &slot{kind: "cut", fields: fieldArgs(toks)}
		delete(e.slots, i)
		mi := s.mainInfo()
		var sd [][]byte
		for _, ph := range hx.SplitComma(ps) {
			prv, err := crypto.ToECDSA(hx.UnHex(ph))
			if err != nil {
				return "bad-op"
			}
			b, err := types.SignContractUpgradeTx(prv, &mi)
			if err != nil {
				return "sign-error"
			}
			sd = append(sd, b)
		}
		if _, err := types.SignContractUpgradeTx(nil, &mi); err == nil {
			return "nil-key-accepted"
		}
		tx := types.UpgradeContractTx(&mi, sd)
		if tx == nil || types.UpgradeContractTx(nil, sd) != nil {
			return "bad"
		}
		for _, g := range tx.Signatures {
			s.sigs = append(s.sigs, sigv{g.V, g.R, g.S})
		}
		s.obj = tx
		e.slots[i] = s
		return fmt.Sprintf("ok sigs=%s", sigsToken(s.sigs))
	case "mk":
		i, _ := intArg(toks, "slot")
		k, _ := hx.Arg(toks, "kind")
		st, _ := hx.Arg(toks, "sigs")
		sigs, ok := parseSigs(st)
		if _, known := kinds[k]; !known || !ok {
			return "bad-op"
		}
		s := &slot{kind: k, fields: fieldArgs(toks), sigs: sigs}
		delete(e.slots, i)
		if err := s.build(); err != nil {
			return "bad"
		}
		e.slots[i] = s
		return "ok"
	}
	// ops on a slot
	i, ok := intArg(toks, "slot")
	if toks[0] == "storefrom" {
		i, ok = intArg(toks, "src")
	}
	if !ok {
		return "bad-op"
	}
	s := e.slots[i]
	if s == nil || s.obj == nil {
		return "no-slot"
	}
	switch toks[0] {
	case "set":
		for f, v := range fieldArgs(toks) {
			if _, has := s.fields[f]; has {
				s.fields[f] = v
			}
		}
		newSigs := false
		if st, ok := hx.Arg(toks, "sigs"); ok {
			sigs, ok := parseSigs(st)
			if !ok {
				return "bad-op"
			}
			s.sigs, newSigs = sigs, true
		}
		ip, _ := hx.Arg(toks, "inplace")
		var err error
		if ip == "1" && !(s.kind == "cut" && newSigs) {
			err = s.inplace()
		} else {
			err = s.build()
		}
		if err != nil {
			delete(e.slots, i)
			return "bad"
		}
		return "ok"
	case "sign":
		sg, _ := hx.Arg(toks, "signer")
		signer := parseSigner(sg)
		ph, _ := hx.Arg(toks, "priv")
		prv, err := crypto.ToECDSA(hx.UnHex(ph))
		if signer == nil || err != nil {
			return "bad-op"
		}
		var g sigv
		switch tx := s.obj.(type) {
		case *types.Transaction:
			err = tx.Sign(signer, prv)
			g.v, g.r, g.s = tx.RawSignatureValues()
			s.sigs = []sigv{g}
		case *types.TokenTransaction:
			err = tx.Sign(signer, prv)
			g.v, g.r, g.s = tx.RawSignatureValues()
			s.sigs = []sigv{g}
		case *types.UTXOTransaction:
			err = tx.Sign(signer, prv)
			g = sigv{tx.Sigs.V, tx.Sigs.R, tx.Sigs.S}
			s.sigs = []sigv{g}
		case *types.ContractUpgradeTx:
			err = tx.Sign(signer, prv)
			if err == nil {
				l := tx.Signatures[len(tx.Signatures)-1]
				g = sigv{l.V, l.R, l.S}
				s.sigs = append(s.sigs, g)
			}
		}
		if err != nil {
			return "sign-error"
		}
		return fmt.Sprintf("v=%s r=%s s=%s", g.v.String(), hex32(g.r), hex32(g.s))
	case "sender":
		sg, _ := hx.Arg(toks, "signer")
		signer := parseSigner(sg)
		if signer == nil {
			return "bad-op"
		}
		switch tx := s.obj.(type) {
		case *types.Transaction:
			return e.who(tx.Sender(signer))
		case *types.TokenTransaction:
			return e.who(tx.Sender(signer))
		case *types.UTXOTransaction:
			return e.who(tx.Sender(signer))
		}
		return "bad-op"
	case "from":
		switch tx := s.obj.(type) {
		case *types.Transaction:
			return e.who(tx.From())
		case *types.TokenTransaction:
			return e.who(tx.From())
		case *types.UTXOTransaction:
			return e.who(tx.From())
		}
		return "bad-op"
	case "senders":
		tx, ok := s.obj.(*types.ContractUpgradeTx)
		if !ok {
			return "bad-op"
		}
		as, err := tx.Senders()
		if err != nil {
			return e.who(common.EmptyAddress, err)
		}
		if len(as) == 0 {
			return "-"
		}
		var out []string
		for _, a := range as {
			w := e.who(a, nil)
			if w == "other" {
				return "other" // an unknown address and a failed Ecrecover are one class (the model cannot tell them apart)
			}
			out = append(out, w)
		}
		return strings.Join(out, ",")
	case "verifysign": // (fills the per-signature caches like senders)
		tx, ok := s.obj.(*types.ContractUpgradeTx)
		if !ok {
			return "bad-op"
		}
		sp, _ := hx.Arg(toks, "signers")
		if sp == "nil" {
			if tx.VerifySign(nil) == nil {
				return "ok"
			}
			return "fail"
		}
		mn, _ := intArg(toks, "min")
		info := &types.SignersInfo{MinSignerPower: int32(mn)}
		for _, p := range hx.SplitComma(sp) {
			kv := strings.Split(p, ":")
			k, _ := strconv.Atoi(kv[0])
			w, _ := strconv.Atoi(kv[1])
			if k >= len(e.keys) {
				return "bad-op"
			}
			info.Signers = append(info.Signers, &types.SignerEntry{Power: int32(w), Addr: e.keys[k]})
		}
		if tx.VerifySign(info) == nil {
			return "ok"
		}
		return "fail"
	case "cutfrom":
		tx, ok := s.obj.(*types.ContractUpgradeTx)
		if !ok {
			return "bad-op"
		}
		from, err := tx.From()
		return fmt.Sprintf("from=%s err=%v to=%s nonce=%d type=%s", hx.Hex(from[:]), err != nil, hx.Hex(tx.To()[:]), tx.Nonce(), tx.TypeName())
	case "hash":
		return "h=" + hx.Hex(s.obj.(types.Tx).Hash().Bytes())
	case "sighash":
		switch tx := s.obj.(type) {
		case *types.Transaction:
			return "h=" + hx.Hex(tx.SignHash().Bytes())
		case *types.TokenTransaction:
			return "h=" + hx.Hex(tx.SignHash().Bytes())
		}
		return "bad-op"
	case "prefixhash":
		if tx, ok := s.obj.(*types.UTXOTransaction); ok {
			h := tx.PrefixHash()
			return "h=" + hx.Hex(h[:])
		}
		return "bad-op"
	case "storefrom":
		j, _ := intArg(toks, "dst")
		d := e.slots[j]
		if d == nil || d.obj == nil {
			return "no-slot"
		}
		// app/app.go verifyTxsOnProcess: cacheTx := mempool.GetTxFromCache(tx.Hash()); from, err = cacheTx.From(); tx.StoreFrom(from)
		hs := s.obj.(types.Tx).Hash()
		if d.obj.(types.Tx).Hash() != hs {
			return "miss"
		}
		from, err := s.obj.(types.Tx).From()
		switch tx := d.obj.(type) {
		case *types.Transaction:
			tx.StoreFrom(from)
		case *types.TokenTransaction:
			tx.StoreFrom(from)
		case *types.UTXOTransaction:
			tx.StoreFrom(from)
		default:
			return "bad-op"
		}
		return "hit " + e.who(from, err)
	}
	return "bad-op"
}

// ---- monitors --------------------------------------------------------------------------------

type obs struct {
	op      int
	kind    string
	content string // the fields the signature must bind, as tokens
	sig     string
	signer  string
	key     string
	dirty   bool
	v       *big.Int
}

type mslot struct {
	kind   string
	fields map[string]string
	sigs   []string
	last   string // the last clean answer of Senders() on exactly this content
	warm   bool // a sender cache of this object may have been filled
	dirty  bool // an in-place write or an API re-sign happened on this object after its cache was filled
}

func (m *mslot) content() string {
	var p []string
	for _, f := range kinds[m.kind].signed {
		p = append(p, f+"="+m.fields[f])
	}
	return m.kind + " " + strings.Join(p, " ")
}

func (m *mslot) all() string {
	var p []string
	for _, f := range kinds[m.kind].wire {
		p = append(p, f+"="+m.fields[f])
	}
	return m.kind + " " + strings.Join(p, " ") + " " + strings.Join(m.sigs, ",")
}

func specValid(v int, r, s *big.Int, homestead bool) bool {
	one := big.NewInt(1)
	if r.Cmp(one) < 0 || r.Cmp(curveN) >= 0 || s.Cmp(one) < 0 || s.Cmp(curveN) >= 0 {
		return false
	}
	if homestead && s.Cmp(halfN) > 0 {
		return false
	}
	return v == 0 || v == 1
}

// Monitor evaluates the property on the implementation's own answers:
//   binding   : two accepting answers (same key) for the same (v,r,s) must be about the same kind, the same signed fields and,
//               for EIP155 signers, the same chain parameter
//   range     : an accepted signature has r,s in [1,N-1], low s unless the frontier signer was asked, canonical |V|
//   storefrom : a cache-copy hit happens only between transactions with identical content
//   vrs       : ValidateSignatureValues agrees with the range specification
// Observations on objects that were written in place / re-signed after use are classified separately (API-level cache staleness).
func (P) Monitor(c *hx.CaseRun) []hx.Failure {
	var fs []hx.Failure
	fail := func(mon, class, msg string) {
		for _, f := range fs {
			if f.Class == class {
				return
			}
		}
		fs = append(fs, hx.Failure{Monitor: mon, Class: class, Site: "types/sign.go", Msg: msg})
	}
	chain := "29153"
	slots := map[int]*mslot{}
	var keyAddrs []string
	var seen []obs
	type hobs struct {
		content string
		dirty   bool
		op      int
	}
	hashes := map[string]hobs{}
	bindHash := func(opi int, what, class, ans, content string, dirty bool) {
		if !strings.HasPrefix(ans, "h=") {
			return
		}
		k := what + ans
		if p, ok := hashes[k]; ok && p.content != content {
			if p.dirty || dirty {
				fail("cache_sound", "stale-sender-cache-after-inplace-write", fmt.Sprintf("ops %d,%d: cached %s of an object written in place", p.op, opi, what))
			} else {
				fail("hash_covers_all", class, fmt.Sprintf("ops %d,%d: equal %s for %q and %q", p.op, opi, what, p.content, content))
			}
			return
		}
		hashes[k] = hobs{content, dirty, opi}
	}
	observe := func(opi int, m *mslot, sigIdx int, signer, ans string) {
		if !strings.HasPrefix(ans, "key=") || sigIdx >= len(m.sigs) {
			return
		}
		g, ok := parseSig(m.sigs[sigIdx])
		if !ok {
			return
		}
		o := obs{op: opi, kind: m.kind, content: m.content(), sig: m.sigs[sigIdx], signer: signer, key: ans, dirty: m.dirty, v: g.v}
		if !m.dirty {
			// range
			if !specValid(0, g.r, g.s, signer != "front") {
				cl := "out-of-range-signature-accepted"
				if g.s.Cmp(halfN) > 0 && g.s.Cmp(curveN) < 0 {
					cl = "malleable-twin-accepted"
				}
				fail("range_checks", cl, fmt.Sprintf("op %d: signer %s answered %s for r=%x s=%x", opi, signer, ans, g.r, g.s))
			}
			av := new(big.Int).Abs(g.v)
			canon := av.Cmp(big.NewInt(27)) == 0 || av.Cmp(big.NewInt(28)) == 0
			if strings.HasPrefix(signer, "eip:") {
				p, _ := new(big.Int).SetString(signer[4:], 10)
				b := new(big.Int).Add(new(big.Int).Mul(p, big.NewInt(2)), big.NewInt(35))
				canon = canon || g.v.Cmp(b) == 0 || g.v.Cmp(new(big.Int).Add(b, big.NewInt(1))) == 0
			}
			if !canon {
				fail("range_checks", "noncanonical-v-accepted", fmt.Sprintf("op %d: signer %s answered %s for V=%s", opi, signer, ans, g.v))
			}
		}
		for _, p := range seen {
			if p.sig != o.sig {
				continue
			}
			stale := p.dirty || o.dirty
			if p.key != o.key {
				// the same signature over the same content under the same signer must give the same sender
				if p.kind == o.kind && p.content == o.content && p.signer == o.signer {
					if stale {
						fail("cache_sound", "stale-sender-cache-after-inplace-write", fmt.Sprintf("ops %d,%d: %s from a used object but %s from a fresh object with the same bytes", p.op, o.op, p.key, o.key))
					} else {
						fail("cache_sound", "sender-not-a-function-of-content", fmt.Sprintf("ops %d,%d: %s vs %s", p.op, o.op, p.key, o.key))
					}
				}
				continue
			}
			switch {
			case p.kind != o.kind || p.content != o.content:
				if stale {
					fail("cache_sound", "stale-sender-cache-after-inplace-write", fmt.Sprintf("ops %d,%d: %s for the same signature over different content after an in-place write / re-sign: %q vs %q", p.op, o.op, o.key, p.content, o.content))
				} else {
					fail("mutation_changes_sender", "signed-field-not-bound", fmt.Sprintf("ops %d,%d: the same signature yields %s for different content: %q vs %q", p.op, o.op, o.key, p.content, o.content))
				}
			case strings.HasPrefix(p.signer, "eip:") && strings.HasPrefix(o.signer, "eip:") && p.signer != o.signer:
				av := new(big.Int).Abs(o.v)
				if stale {
					fail("cache_sound", "stale-sender-cache-after-inplace-write", fmt.Sprintf("ops %d,%d", p.op, o.op))
				} else if av.Cmp(big.NewInt(27)) == 0 || av.Cmp(big.NewInt(28)) == 0 {
					fail("chain_param_binds", "unprotected-signature-chain-independent", fmt.Sprintf("ops %d,%d: V=%s signature yields %s under %s and under %s", p.op, o.op, o.v, o.key, p.signer, o.signer))
				} else {
					fail("chain_param_binds", "wrong-chain-accepted", fmt.Sprintf("ops %d,%d: V=%s signature yields %s under %s and under %s", p.op, o.op, o.v, o.key, p.signer, o.signer))
				}
			}
		}
		seen = append(seen, o)
	}
	om := &ownMon{dests: map[int][]destTok{}, images: map[string]string{}}
	mm := &mstMon{contents: map[int]string{}, txs: map[int]*mstTx{}, hashes: map[string]string{}}
	for i, op := range c.Ops {
		if i >= len(c.Impl) {
			break
		}
		ans := c.Impl[i]
		toks := hx.Tokens(op)
		if strings.HasPrefix(toks[0], "m.") {
			mm.step(i, toks, ans, fail)
			continue
		}
		if strings.HasPrefix(toks[0], "u.") {
			om.step(i, toks, ans, fail)
			continue
		}
		switch toks[0] {
		case "case":
			if v, ok := hx.Arg(toks, "chain"); ok {
				chain = v
			}
		case "keys":
			a, _ := hx.Arg(toks, "addrs")
			keyAddrs = hx.SplitComma(a)
		case "cutapi":
			si, _ := intArg(toks, "slot")
			delete(slots, si)
			if strings.HasPrefix(ans, "ok sigs=") {
				slots[si] = &mslot{kind: "cut", fields: fieldArgs(toks), sigs: hx.SplitComma(strings.TrimPrefix(ans, "ok sigs="))}
			}
		case "vrs":
			v, _ := intArg(toks, "v")
			r, _ := hx.Arg(toks, "r")
			s, _ := hx.Arg(toks, "s")
			hs, _ := hx.Arg(toks, "hs")
			want := specValid(v, new(big.Int).SetBytes(hx.UnHex(r)), new(big.Int).SetBytes(hx.UnHex(s)), hs == "true")
			if ans == "true" && !want {
				fail("range_checks", "out-of-range-signature-accepted", "ValidateSignatureValues accepts "+op)
			}
			if ans == "false" && want {
				fail("range_checks", "valid-range-rejected", "ValidateSignatureValues rejects "+op)
			}
		case "mk":
			si, _ := intArg(toks, "slot")
			delete(slots, si)
			if ans == "ok" {
				k, _ := hx.Arg(toks, "kind")
				st, _ := hx.Arg(toks, "sigs")
				slots[si] = &mslot{kind: k, fields: fieldArgs(toks), sigs: hx.SplitComma(st)}
			}
		case "set":
			si, _ := intArg(toks, "slot")
			m := slots[si]
			if m == nil {
				continue
			}
			if ans != "ok" {
				delete(slots, si)
				continue
			}
			m.last = ""
			for f, v := range fieldArgs(toks) {
				if _, has := m.fields[f]; has {
					m.fields[f] = v
				}
			}
			st, hasSigs := hx.Arg(toks, "sigs")
			if hasSigs {
				m.sigs = hx.SplitComma(st)
			}
			if ip, _ := hx.Arg(toks, "inplace"); ip == "1" && !(m.kind == "cut" && hasSigs) {
				m.dirty = m.dirty || m.warm
			} else {
				m.dirty, m.warm = false, false
			}
		case "sign":
			si, _ := intArg(toks, "slot")
			m := slots[si]
			if m == nil || !strings.HasPrefix(ans, "v=") {
				continue
			}
			at := hx.Tokens(ans)
			v, _ := hx.Arg(at, "v")
			r, _ := hx.Arg(at, "r")
			s, _ := hx.Arg(at, "s")
			g := sigv{new(big.Int), new(big.Int).SetBytes(hx.UnHex(r)), new(big.Int).SetBytes(hx.UnHex(s))}
			g.v.SetString(v, 10)
			m.last = ""
			if m.kind == "cut" {
				m.sigs = append(m.sigs, g.String())
				m.dirty, m.warm = false, false // Sign builds fresh signature objects
			} else {
				m.sigs = []string{g.String()}
				m.dirty = m.dirty || m.warm // the sender cache travels with the copied data
			}
		case "sender", "from":
			si, _ := intArg(toks, "slot")
			if m := slots[si]; m != nil {
				sg := "eip:" + chain
				if toks[0] == "sender" {
					sg, _ = hx.Arg(toks, "signer")
				}
				observe(i, m, 0, sg, ans)
				if !strings.HasPrefix(ans, "rej") {
					m.warm = true
				}
			}
		case "senders":
			si, _ := intArg(toks, "slot")
			if m := slots[si]; m != nil && !strings.HasPrefix(ans, "rej") {
				for k, a := range hx.SplitComma(ans) {
					observe(i, m, k, "eip:"+chain, a)
				}
				if strings.HasPrefix(ans, "key=") && !m.dirty {
					m.last = ans
				}
			}
			if m := slots[si]; m != nil {
				m.warm = true
			}
		case "verifysign":
			si, _ := intArg(toks, "slot")
			if m := slots[si]; m != nil {
				m.warm = true
				sp, _ := hx.Arg(toks, "signers")
				if ans == "ok" && (sp == "nil" || sp == "-" || sp == "") {
					fail("cut_sender_authorised", "cut-accepted-without-signers", fmt.Sprintf("op %d", i))
				}
				if ans == "ok" && m.last != "" && !m.dirty && sp != "nil" {
					// accepted: the charged sender (FromAddr) must be among the recovered signers, and the distinct recovered
					// signers must hold at least the minimum power (ground truth: the implementation's own Senders() answer)
					distinct := map[string]bool{}
					for _, k := range hx.SplitComma(m.last) {
						distinct[strings.TrimPrefix(k, "key=")] = true
					}
					mn, _ := intArg(toks, "min")
					power, fromOK := 0, false
					for k := range distinct {
						ki, _ := strconv.Atoi(k)
						if ki < len(keyAddrs) && m.fields["FromAddr"] == "a:"+keyAddrs[ki] {
							fromOK = true
						}
					}
					for _, p := range hx.SplitComma(sp) {
						kv := strings.Split(p, ":")
						w, _ := strconv.Atoi(kv[1])
						if distinct[kv[0]] {
							power += w
						}
					}
					if !fromOK {
						fail("cut_sender_authorised", "cut-sender-not-a-signer", fmt.Sprintf("op %d: VerifySign accepts although FromAddr %s did not sign (signers %s)", i, m.fields["FromAddr"], m.last))
					} else if power < mn {
						fail("cut_sender_authorised", "cut-accepted-below-min-power", fmt.Sprintf("op %d: distinct signers %s hold %d < %d", i, m.last, power, mn))
					}
				}
			}
		case "hash":
			si, _ := intArg(toks, "slot")
			if m := slots[si]; m != nil {
				bindHash(i, "Hash()", "tx-hash-not-binding", ans, m.all(), m.dirty)
				m.warm = true // the hash cache is filled
			}
		case "prefixhash":
			si, _ := intArg(toks, "slot")
			if m := slots[si]; m != nil {
				// the RingCT message must bind payload and account signature (not the ring signature itself)
				c := m.content() + " " + strings.Join(m.sigs, ",")
				bindHash(i, "PrefixHash()", "prefix-hash-not-binding", ans, c, false)
			}
		case "storefrom":
			si, _ := intArg(toks, "src")
			di, _ := intArg(toks, "dst")
			src, dst := slots[si], slots[di]
			if src == nil || dst == nil || !strings.HasPrefix(ans, "hit") {
				continue
			}
			if src.all() != dst.all() {
				if src.dirty || dst.dirty {
					fail("cache_sound", "stale-sender-cache-after-inplace-write", fmt.Sprintf("op %d: cache copy between transactions whose content differs after an in-place write", i))
				} else {
					fail("cache_sound", "storefrom-hit-on-different-content", fmt.Sprintf("op %d: equal Hash() for %q and %q", i, src.all(), dst.all()))
				}
			}
			observe(i, src, 0, "eip:"+chain, strings.TrimPrefix(ans, "hit "))
			src.warm, dst.warm = true, true
			if src.dirty {
				dst.dirty = true
			}
		}
	}
	return fs
}

// ---- generator -------------------------------------------------------------------------------

type genKey struct {
	prv  *ecdsa.PrivateKey
	priv []byte
	addr common.Address
}

func newKeys(g *hx.Gen, n int) []genKey {
	var ks []genKey
	for len(ks) < n {
		b := make([]byte, 32)
		g.Rng.Read(b)
		p, err := crypto.ToECDSA(b)
		if err != nil {
			continue
		}
		ks = append(ks, genKey{p, b, crypto.PubkeyToAddress(p.PublicKey)})
	}
	return ks
}

func randBytes(g *hx.Gen, n int) []byte {
	b := make([]byte, n)
	g.Rng.Read(b)
	return b
}

func randBig(g *hx.Gen) *big.Int {
	switch g.Rng.Intn(5) {
	case 0:
		return big.NewInt(0)
	case 1:
		return big.NewInt(int64(g.Rng.Intn(200)))
	case 2:
		return new(big.Int).SetUint64(g.Rng.Uint64())
	case 3:
		return new(big.Int).SetBytes(randBytes(g, 1+g.Rng.Intn(16)))
	}
	return big.NewInt(1e11)
}

func randU64(g *hx.Gen) uint64 {
	switch g.Rng.Intn(4) {
	case 0:
		return uint64(g.Rng.Intn(3))
	case 1:
		return uint64(g.Rng.Intn(100000))
	case 2:
		return g.Rng.Uint64()
	}
	return 127 + uint64(g.Rng.Intn(3))
}

func randPayload(g *hx.Gen) []byte {
	switch g.Rng.Intn(6) {
	case 0:
		return nil
	case 1:
		return []byte{byte(g.Rng.Intn(256))}
	case 2:
		return randBytes(g, 56+g.Rng.Intn(40))
	}
	return randBytes(g, 1+g.Rng.Intn(40))
}

func randAddr(g *hx.Gen) *common.Address {
	a := common.BytesToAddress(randBytes(g, 20))
	return &a
}

var zeroRct = tokR(mustEnc(lktypes.RctSig{}))

func randUTXOFields(g *hx.Gen) map[string]string {
	var cf, cm lktypes.Key
	copy(cf[:], randBytes(g, 32))
	copy(cm[:], randBytes(g, 32))
	ins := []types.Input{&types.AccountInput{Nonce: randU64(g), Amount: randBig(g), CF: cf, Commit: cm}}
	var outs []types.Output
	for n := 1 + g.Rng.Intn(2); n > 0; n-- {
		if g.Rng.Intn(3) == 0 {
			var c lktypes.Key
			copy(c[:], randBytes(g, 32))
			outs = append(outs, &types.AccountOutput{To: *randAddr(g), Amount: randBig(g), Data: randPayload(g), Commit: c})
		} else {
			var ot lktypes.Key
			copy(ot[:], randBytes(g, 32))
			var rm [32]byte
			copy(rm[:], randBytes(g, 32))
			outs = append(outs, &types.UTXOOutput{OTAddr: ot, Amount: randBig(g), Remark: rm})
		}
	}
	var add []lktypes.PublicKey
	for n := g.Rng.Intn(3); n > 0; n-- {
		var k lktypes.PublicKey
		copy(k[:], randBytes(g, 32))
		add = append(add, k)
	}
	tok := common.EmptyAddress
	if g.Rng.Intn(2) == 0 {
		tok = *randAddr(g)
	}
	return map[string]string{
		"Inputs": tokR(mustEnc(ins)), "Outputs": tokR(mustEnc(outs)), "TokenID": tokA(&tok), "RKey": tokX(randBytes(g, 32)),
		"AddKeys": tokR(mustEnc(add)), "Fee": tokU(randBig(g)), "Extra": tokX(randPayload(g)), "RCTSig": zeroRct,
	}
}

func randFields(g *hx.Gen, kind string, keys []genKey) map[string]string {
	switch kind {
	case "tx":
		to := randAddr(g)
		if g.Rng.Intn(4) == 0 {
			to = nil
		}
		return map[string]string{"AccountNonce": tokU64(randU64(g)), "Price": tokU(randBig(g)), "GasLimit": tokU64(randU64(g)), "Recipient": tokA(to), "Amount": tokU(randBig(g)), "Payload": tokX(randPayload(g))}
	case "tok":
		return map[string]string{"TokenAddress": tokA(randAddr(g)), "AccountNonce": tokU64(randU64(g)), "Price": tokU(randBig(g)), "GasLimit": tokU64(randU64(g)), "Recipient": tokA(randAddr(g)), "Amount": tokU(randBig(g)), "Payload": tokX(randPayload(g))}
	case "cut":
		from := keys[g.Rng.Intn(len(keys))].addr
		return map[string]string{"FromAddr": tokA(&from), "Recipient": tokA(randAddr(g)), "AccountNonce": tokU64(randU64(g)), "Payload": tokX(randPayload(g))}
	}
	return randUTXOFields(g)
}

// a different value of the same shape for field f
func mutateField(g *hx.Gen, kind, f string, keys []genKey, cur string) string {
	for tries := 0; tries < 50; tries++ {
		var n map[string]string
		if kind == "utxo" {
			n = randUTXOFields(g)
		} else {
			n = randFields(g, kind, keys)
		}
		v := n[f]
		// small local edits are the interesting ones
		if strings.HasPrefix(cur, "u:") && g.Rng.Intn(2) == 0 {
			v = tokU(new(big.Int).Add(tokBig(cur), big.NewInt(1)))
		}
		if strings.HasPrefix(cur, "x:") && len(tokBytes(cur)) > 0 && g.Rng.Intn(2) == 0 {
			b := append([]byte{}, tokBytes(cur)...)
			b[g.Rng.Intn(len(b))] ^= 1 << uint(g.Rng.Intn(8))
			v = tokX(b)
		}
		if f == "RCTSig" {
			return cur
		}
		if v != cur {
			return v
		}
	}
	return cur
}

func fieldToks(kind string, fields map[string]string) string {
	var p []string
	for _, f := range kinds[kind].wire {
		p = append(p, "f."+f+"="+fields[f])
	}
	return strings.Join(p, " ")
}

func signerTok(p int64) string { return fmt.Sprintf("eip:%d", p) }

// items of the signed fields as the property intends them (all payload fields), by the real encoder
func signedItems(kind string, fields map[string]string) [][]byte {
	if kind == "cut" {
		var mi [][]byte
		for _, f := range kinds[kind].signed {
			mi = append(mi, itemOf(fields[f]))
		}
		return [][]byte{encodeList(mi)}
	}
	var items [][]byte
	for _, f := range kinds[kind].signed {
		items = append(items, itemOf(fields[f]))
	}
	return items
}

// the digest a signer verifies (verify=true) or sign() signs (verify=false)
func digestFor(kind string, fields map[string]string, signer string, verify bool) []byte {
	items := signedItems(kind, fields)
	zero := []byte{0x80}
	if strings.HasPrefix(signer, "eip:") {
		p, _ := new(big.Int).SetString(signer[4:], 10)
		items = append(items, mustEnc(p), zero, zero)
	} else if !verify {
		items = append(items, zero, zero, zero)
	}
	return crypto.Keccak256(encodeList(items))
}

func vFor(signer string, recid byte) *big.Int {
	if strings.HasPrefix(signer, "eip:") {
		p, _ := new(big.Int).SetString(signer[4:], 10)
		if p.Sign() != 0 {
			v := big.NewInt(int64(recid) + 35)
			return v.Add(v, new(big.Int).Mul(p, big.NewInt(2)))
		}
	}
	return big.NewInt(int64(recid) + 27)
}

type madeSig struct {
	sig    sigv
	recid  byte
	oracle string
}

// the signature the real API makes: (tx).Sign(signer, key) on a scratch object; declared under the digest sign() is meant to hash
func apiSig(kind string, fields map[string]string, prior []sigv, signer string, k int, key genKey) madeSig {
	s := &slot{kind: kind, fields: fields, sigs: prior}
	if kind != "cut" {
		s.sigs = []sigv{{new(big.Int), new(big.Int), new(big.Int)}}
	}
	if err := s.build(); err != nil {
		panic("harness: apiSig build: " + err.Error())
	}
	sg := parseSigner(signer)
	var g sigv
	var err error
	switch tx := s.obj.(type) {
	case *types.Transaction:
		err = tx.Sign(sg, key.prv)
		g.v, g.r, g.s = tx.RawSignatureValues()
	case *types.TokenTransaction:
		err = tx.Sign(sg, key.prv)
		g.v, g.r, g.s = tx.RawSignatureValues()
	case *types.UTXOTransaction:
		err = tx.Sign(sg, key.prv)
		g = sigv{tx.Sigs.V, tx.Sigs.R, tx.Sigs.S}
	case *types.ContractUpgradeTx:
		err = tx.Sign(sg, key.prv)
		if err == nil {
			l := tx.Signatures[len(tx.Signatures)-1]
			g = sigv{l.V, l.R, l.S}
		}
	}
	if err != nil {
		panic("harness: apiSig: " + err.Error())
	}
	// recovery id from V as SignatureValues encodes it
	rec := new(big.Int).Sub(g.v, vFor(signer, 0))
	digest := digestFor(kind, fields, signer, false)
	return madeSig{g, byte(rec.Int64()), fmt.Sprintf("oracle key=%d digest=%s r=%s s=%s recid=%d", k, hx.Hex(digest), hx.Hex(g.r.Bytes()), hx.Hex(g.s.Bytes()), rec.Int64())}
}

// sign a digest with a real key; the oracle line declares it to the model (and is re-checked by the executor with Ecrecover)
func makeSig(k int, key genKey, digest []byte, signer string) madeSig {
	sig, err := crypto.Sign(digest, key.prv)
	if err != nil {
		panic(err)
	}
	r, s := new(big.Int).SetBytes(sig[:32]), new(big.Int).SetBytes(sig[32:64])
	return madeSig{sigv{vFor(signer, sig[64]), r, s}, sig[64],
		fmt.Sprintf("oracle key=%d digest=%s r=%s s=%s recid=%d", k, hx.Hex(digest), hx.Hex(r.Bytes()), hx.Hex(s.Bytes()), sig[64])}
}

var chains = []int64{29153, 29153, 29153, 29154, 1, 5, 1 << 40, 0, 110}

func otherChain(g *hx.Gen, p int64) int64 {
	for {
		q := chains[g.Rng.Intn(len(chains))]
		if g.Rng.Intn(3) == 0 {
			q = p + int64(g.Rng.Intn(3)) - 1
		}
		if q != p && q >= 0 {
			return q
		}
	}
}

func bigHex(n *big.Int) string { return hx.Hex(n.Bytes()) }

// keep at most 20 recorded failures per class (each carries its whole case; the known API-level classes fire in
// thousands of cases); every failure is still counted in the input distribution
func prune(g *hx.Gen, from int) int {
	per := map[string]int{}
	for _, f := range g.Failures[:from] {
		per[f.Class]++
	}
	kept := g.Failures[:from]
	for _, f := range g.Failures[from:] {
		g.Count("monitor-failure:" + f.Class)
		if per[f.Class] < 20 {
			per[f.Class]++
			kept = append(kept, f)
		}
	}
	g.Failures = kept
	return len(kept)
}

func (P) Generate(g *hx.Gen) {
	setup()
	genCorpus(g)
	mark := prune(g, 0)
	nA := g.Pick(1500, 40000)
	for n := 0; n < nA; n++ {
		genSigned(g)
		mark = prune(g, mark)
	}
	nB := g.Pick(300, 8000)
	for n := 0; n < nB; n++ {
		genCut(g)
		mark = prune(g, mark)
	}
	genGrid(g)
	nD := g.Pick(150, 4000)
	for n := 0; n < nD; n++ {
		genGarbage(g)
		mark = prune(g, mark)
	}
	nO := g.Pick(40, 1500)
	for n := 0; n < nO; n++ {
		genOwn(g)
		mark = prune(g, mark)
	}
	genRing(g)
	mark = prune(g, mark)
	nM := g.Pick(250, 6000)
	for n := 0; n < nM; n++ {
		genMst(g)
		mark = prune(g, mark)
	}
	prune(g, mark)
}

func caseOp(chain int64, tags ...string) string {
	return hx.CaseOp(tags...) + fmt.Sprintf(" chain=%d", chain)
}

func keysOp(keys []genKey) string {
	var a []string
	for _, k := range keys {
		a = append(a, hx.Hex(k.addr[:]))
	}
	return "keys addrs=" + strings.Join(a, ",")
}

// the known finding's witness: a homestead-style (V=27/28) signature is accepted by every chain's signer
func genCorpus(g *hx.Gen) {
	keys := newKeys(g, 2)
	to := common.BytesToAddress([]byte{0xaa})
	fields := map[string]string{"AccountNonce": "u:7", "Price": "u:100000000000", "GasLimit": "u:21000", "Recipient": tokA(&to), "Amount": "u:1000", "Payload": "x:-"}
	m := makeSig(0, keys[0], digestFor("tx", fields, "home", true), "home")
	ops := []string{caseOp(29153, "corpus"), keysOp(keys), m.oracle,
		fmt.Sprintf("mk slot=0 kind=tx %s sigs=%s", fieldToks("tx", fields), m.sig),
		"sender slot=0 signer=eip:29153",
		fmt.Sprintf("mk slot=1 kind=tx %s sigs=%s", fieldToks("tx", fields), m.sig),
		"sender slot=1 signer=eip:29154"}
	g.Case("corpus unprotected V=27/28 under two chain parameters", ops, true)
}

func genSigned(g *hx.Gen) {
	keys := newKeys(g, 3)
	chain := chains[g.Rng.Intn(len(chains))]
	kind := []string{"tx", "tx", "tok", "utxo"}[g.Rng.Intn(4)]
	fields := randFields(g, kind, keys)
	k := g.Rng.Intn(len(keys))
	// how it is signed
	mode := []string{"api", "raw", "raw", "raw-home", "raw-front-as-home", "api-home"}[g.Rng.Intn(6)]
	signer := signerTok(chain)
	ops := []string{caseOp(chain), keysOp(keys)}
	g.Count("kind:" + kind)
	g.Count("signmode:" + mode)
	g.Count(fmt.Sprintf("chain:%d", chain))
	var sg sigv
	nontrivial := false
	switch mode {
	case "api", "api-home":
		if mode == "api-home" {
			signer = "home" // sign() appends (nil,0,0) although the homestead hash has no suffix: the result does not verify
		}
		m := apiSig(kind, fields, nil, signer, k, keys[k])
		sg = m.sig
		ops = append(ops, m.oracle,
			fmt.Sprintf("mk slot=0 kind=%s %s sigs=0:-:-", kind, fieldToks(kind, fields)),
			fmt.Sprintf("sign slot=0 signer=%s key=%d priv=%s", signer, k, hx.Hex(keys[k].priv)))
	case "raw":
		m := makeSig(k, keys[k], digestFor(kind, fields, signer, true), signer)
		sg = m.sig
		ops = append(ops, m.oracle, fmt.Sprintf("mk slot=0 kind=%s %s sigs=%s", kind, fieldToks(kind, fields), sg))
	default: // raw-home: the unprotected form, V = 27/28 over the hash without chain parameter
		m := makeSig(k, keys[k], digestFor(kind, fields, "home", true), "home")
		sg = m.sig
		ops = append(ops, m.oracle, fmt.Sprintf("mk slot=0 kind=%s %s sigs=%s", kind, fieldToks(kind, fields), sg))
	}
	ops = append(ops, "sender slot=0 signer="+signerTok(chain))
	if g.Rng.Intn(4) != 0 {
		ops = append(ops, "from slot=0", "hash slot=0")
	}
	if kind == "tx" || kind == "tok" {
		ops = append(ops, "sighash slot=0")
	} else {
		ops = append(ops, "prefixhash slot=0")
	}
	next := 1
	fresh := func(f map[string]string, s sigv) int {
		ops = append(ops, fmt.Sprintf("mk slot=%d kind=%s %s sigs=%s", next, kind, fieldToks(kind, f), s))
		next++
		return next - 1
	}
	negV := false // ser cannot encode a negative V: rlpHash then hashes nothing (API level only), so no hash is asked
	ask := func(sl int, chainToo bool) {
		ops = append(ops, fmt.Sprintf("sender slot=%d signer=%s", sl, signerTok(chain)))
		if g.Rng.Intn(2) == 0 && !negV {
			ops = append(ops, fmt.Sprintf("hash slot=%d", sl))
			if kind == "utxo" {
				ops = append(ops, fmt.Sprintf("prefixhash slot=%d", sl))
			}
		}
		if chainToo || g.Rng.Intn(4) == 0 {
			ops = append(ops, fmt.Sprintf("sender slot=%d signer=%s", sl, []string{"home", "front", signerTok(otherChain(g, chain))}[g.Rng.Intn(3)]))
		}
	}
	nSteps := 4 + g.Rng.Intn(g.Pick(8, 14))
	for step := 0; step < nSteps; step++ {
		switch r := g.Rng.Intn(16); {
		case r < 5: // single-field mutation on a fresh object
			wire := kinds[kind].signed
			f := wire[g.Rng.Intn(len(wire))]
			nf := copyMap(fields)
			nf[f] = mutateField(g, kind, f, keys, fields[f])
			ask(fresh(nf, sg), false)
			g.Count("mut:field:" + kind + "." + f)
			nontrivial = true
		case r == 5: // multi-field mutation
			nf := copyMap(fields)
			for _, f := range kinds[kind].signed {
				if g.Rng.Intn(2) == 0 {
					nf[f] = mutateField(g, kind, f, keys, fields[f])
				}
			}
			ask(fresh(nf, sg), false)
			g.Count("mut:multi")
			nontrivial = true
		case r == 6: // wrong chain parameter, all three signers
			sl := fresh(fields, sg)
			ops = append(ops, fmt.Sprintf("sender slot=%d signer=%s", sl, signerTok(otherChain(g, chain))))
			sl = fresh(fields, sg)
			ops = append(ops, fmt.Sprintf("sender slot=%d signer=home", sl))
			sl = fresh(fields, sg)
			ops = append(ops, fmt.Sprintf("sender slot=%d signer=front", sl))
			g.Count("mut:chain")
			nontrivial = true
		case r < 11: // signature encodings
			ns, what := mutateSig(g, sg, chain)
			if kind != "utxo" && ns.v.Sign() < 0 {
				continue // the wire cannot carry a negative V
			}
			sl := fresh(fields, ns)
			negV = ns.v.Sign() < 0
			ask(sl, what == "twin" || what == "v-other-chain")
			negV = false
			if what == "twin" {
				ops = append(ops, fmt.Sprintf("sender slot=%d signer=front", fresh(fields, ns)))
			}
			g.Count("mut:sig:" + what)
			nontrivial = true
		case r == 11: // warm by From, then a hash-identical twin served from the cache copy
			tw := fresh(fields, sg)
			ops = append(ops, "from slot=0", fmt.Sprintf("storefrom dst=%d src=0", tw), fmt.Sprintf("from slot=%d", tw),
				fmt.Sprintf("sender slot=%d signer=%s", tw, signerTok(otherChain(g, chain))))
			// and a non-identical one must miss
			nf := copyMap(fields)
			f := kinds[kind].signed[g.Rng.Intn(len(kinds[kind].signed))]
			nf[f] = mutateField(g, kind, f, keys, fields[f])
			ot := fresh(nf, sg)
			ops = append(ops, fmt.Sprintf("storefrom dst=%d src=0", ot), fmt.Sprintf("from slot=%d", ot))
			g.Count("cache:storefrom")
		case r == 12: // cache copy from a twin whose own signature is bad: StoreFrom(EmptyAddress)
			bad, _ := mutateSig(g, sg, chain)
			if kind != "utxo" && bad.v.Sign() < 0 {
				continue
			}
			if recoverFails(kind, fields, bad, chain) {
				continue // "Ecrecover failed" and "recovered an address nobody holds" are one answer class; StoreFrom tells them apart
			}
			a, b := fresh(fields, bad), fresh(fields, bad)
			ops = append(ops, fmt.Sprintf("storefrom dst=%d src=%d", b, a), fmt.Sprintf("from slot=%d", b))
			g.Count("cache:storefrom-bad")
		case r == 13: // written in place after use (API level: DecodeSER into a used object / exported fields)
			sl := fresh(fields, sg)
			f := kinds[kind].signed[g.Rng.Intn(len(kinds[kind].signed))]
			ops = append(ops, fmt.Sprintf("from slot=%d", sl), fmt.Sprintf("hash slot=%d", sl),
				fmt.Sprintf("set slot=%d inplace=1 f.%s=%s", sl, f, mutateField(g, kind, f, keys, fields[f])),
				fmt.Sprintf("from slot=%d", sl), fmt.Sprintf("sender slot=%d signer=home", sl), fmt.Sprintf("hash slot=%d", sl))
			g.Count("cache:inplace-write")
		case r == 14: // re-signed through the API by another key after use
			sl := fresh(fields, sg)
			k2 := (k + 1) % len(keys)
			m := apiSig(kind, fields, nil, signerTok(chain), k2, keys[k2])
			ops = append(ops, fmt.Sprintf("from slot=%d", sl), m.oracle,
				fmt.Sprintf("sign slot=%d signer=%s key=%d priv=%s", sl, signerTok(chain), k2, hx.Hex(keys[k2].priv)),
				fmt.Sprintf("from slot=%d", sl), fmt.Sprintf("hash slot=%d", sl))
			// the same bytes in a fresh object
			ops = append(ops, fmt.Sprintf("set slot=%d inplace=0", sl), fmt.Sprintf("from slot=%d", sl))
			g.Count("cache:resign")
		default: // cross-kind transplant: the same signature under another transaction kind
			ok := []string{"tx", "tok", "utxo"}[g.Rng.Intn(3)]
			if ok == kind {
				continue
			}
			of := randFields(g, ok, keys)
			ops = append(ops, fmt.Sprintf("mk slot=%d kind=%s %s sigs=%s", next, ok, fieldToks(ok, of), sg), fmt.Sprintf("sender slot=%d signer=%s", next, signerTok(chain)))
			next++
			g.Count("mut:cross-kind")
		}
	}
	g.Case(fmt.Sprintf("signed kind=%s mode=%s chain=%d", kind, mode, chain), ops, nontrivial)
}

// does From() fail inside Ecrecover (neither a range nor a chain-parameter rejection)?
func recoverFails(kind string, fields map[string]string, sg sigv, chain int64) bool {
	s := &slot{kind: kind, fields: fields, sigs: []sigv{sg}}
	if err := s.build(); err != nil {
		return true
	}
	old, oldp := types.GlobalSTDSigner, types.SignParam
	types.SignParam = big.NewInt(chain)
	types.GlobalSTDSigner = types.MakeSTDSigner(nil)
	_, err := s.obj.(types.Tx).From()
	types.GlobalSTDSigner, types.SignParam = old, oldp
	return err != nil && err != types.ErrInvalidSig && err != types.ErrInvalidSignParam
}

func copyMap(m map[string]string) map[string]string {
	n := map[string]string{}
	for k, v := range m {
		n[k] = v
	}
	return n
}

// boundary encodings of (v, r, s) relative to a real signature
func mutateSig(g *hx.Gen, sg sigv, chain int64) (sigv, string) {
	n := sigv{new(big.Int).Set(sg.v), new(big.Int).Set(sg.r), new(big.Int).Set(sg.s)}
	one := big.NewInt(1)
	bound := []*big.Int{big.NewInt(0), one, new(big.Int).Sub(curveN, one), curveN, new(big.Int).Add(curveN, one), halfN, new(big.Int).Add(halfN, one),
		new(big.Int).Lsh(one, 256), new(big.Int).Sub(new(big.Int).Lsh(one, 256), one)}
	flipV := func(v *big.Int) *big.Int {
		// 27<->28, 35+2p <-> 36+2p
		base := big.NewInt(27)
		if v.Cmp(big.NewInt(28)) > 0 {
			base = new(big.Int).Add(big.NewInt(35), new(big.Int).Mul(big.NewInt(chain), big.NewInt(2)))
		}
		if v.Cmp(base) == 0 {
			return new(big.Int).Add(base, one)
		}
		return new(big.Int).Set(base)
	}
	switch g.Rng.Intn(12) {
	case 0:
		n.r = bound[g.Rng.Intn(len(bound))]
		return n, "r-boundary"
	case 1:
		n.s = bound[g.Rng.Intn(len(bound))]
		return n, "s-boundary"
	case 2:
		n.s = new(big.Int).Sub(curveN, sg.s)
		n.v = flipV(sg.v)
		return n, "twin"
	case 3:
		n.s = new(big.Int).Sub(curveN, sg.s)
		return n, "high-s-same-v"
	case 4:
		n.v = flipV(sg.v)
		return n, "recid-flip"
	case 5:
		q := otherChain(g, chain)
		rec := new(big.Int).And(new(big.Int).Add(sg.v, one), one) // parity trick: keep the recovery id
		n.v = new(big.Int).Add(big.NewInt(35+2*q), rec)
		return n, "v-other-chain"
	case 6:
		n.v = []*big.Int{big.NewInt(0), one, big.NewInt(26), big.NewInt(29), big.NewInt(34), big.NewInt(35), big.NewInt(36), big.NewInt(255), big.NewInt(256)}[g.Rng.Intn(9)]
		return n, "v-small"
	case 7:
		n.v = new(big.Int).Add(sg.v, []*big.Int{big.NewInt(2), big.NewInt(-2), big.NewInt(256), new(big.Int).Lsh(one, 64), new(big.Int).Lsh(one, 63)}[g.Rng.Intn(5)])
		if n.v.Sign() < 0 {
			n.v = big.NewInt(0)
		}
		return n, "v-shifted"
	case 8:
		// 27/28 with the recovery id of a protected signature, and the reverse
		rec := new(big.Int).And(new(big.Int).Add(sg.v, one), one)
		if sg.v.Cmp(big.NewInt(28)) > 0 {
			n.v = new(big.Int).Add(big.NewInt(27), rec)
		} else {
			n.v = new(big.Int).Add(big.NewInt(35+2*chain), new(big.Int).Sub(sg.v, big.NewInt(27)))
		}
		return n, "v-protection-swapped"
	case 9:
		n.v = new(big.Int).Neg(sg.v)
		return n, "v-negative"
	case 10:
		n.r = new(big.Int).Xor(sg.r, new(big.Int).Lsh(one, uint(g.Rng.Intn(255))))
		return n, "r-bitflip"
	}
	n.s = new(big.Int).Xor(sg.s, new(big.Int).Lsh(one, uint(g.Rng.Intn(250))))
	return n, "s-bitflip"
}

// ContractUpgradeTx: several signatures over the main info, the sender must be among the signers
func genCut(g *hx.Gen) {
	keys := newKeys(g, 4)
	chain := chains[g.Rng.Intn(4)]
	fields := randFields(g, "cut", keys)
	signer := signerTok(chain)
	ops := []string{caseOp(chain), keysOp(keys)}
	nsig := 1 + g.Rng.Intn(3)
	var sigs []sigv
	perm := g.Rng.Perm(len(keys))
	api := g.Rng.Intn(3) == 0
	if api {
		ops = append(ops, fmt.Sprintf("mk slot=0 kind=cut %s sigs=-", fieldToks("cut", fields)))
	}
	for i := 0; i < nsig; i++ {
		k := perm[i]
		if api {
			m := apiSig("cut", fields, sigs, signer, k, keys[k])
			sigs = append(sigs, m.sig)
			ops = append(ops, m.oracle, fmt.Sprintf("sign slot=0 signer=%s key=%d priv=%s", signer, k, hx.Hex(keys[k].priv)))
			continue
		}
		sm := signer
		if g.Rng.Intn(6) == 0 {
			sm = "home"
		}
		m := makeSig(k, keys[k], digestFor("cut", fields, sm, true), sm)
		sigs = append(sigs, m.sig)
		ops = append(ops, m.oracle)
	}
	if !api {
		ops = append(ops, fmt.Sprintf("mk slot=0 kind=cut %s sigs=%s", fieldToks("cut", fields), sigsToken(sigs)))
	}
	signersInfo := func() string {
		var p []string
		for i := 0; i < len(keys); i++ {
			if g.Rng.Intn(3) != 0 {
				p = append(p, fmt.Sprintf("%d:%d", i, 1+g.Rng.Intn(3)))
			}
		}
		if len(p) == 0 {
			p = []string{"0:1"}
		}
		return fmt.Sprintf("signers=%s min=%d", strings.Join(p, ","), 1+g.Rng.Intn(5))
	}
	ops = append(ops, "senders slot=0", "verifysign slot=0 "+signersInfo(), "hash slot=0", "cutfrom slot=0")
	if g.Rng.Intn(3) == 0 {
		ops = append(ops, "verifysign slot=0 signers=nil min=1", "verifysign slot=0 signers=- min=0")
	}
	if g.Rng.Intn(2) == 0 {
		// the same through SignContractUpgradeTx / UpgradeContractTx
		var privs []string
		m := apiSig("cut", fields, nil, signer, perm[0], keys[perm[0]])
		ops = append(ops, m.oracle)
		for i := 0; i < nsig; i++ {
			mi := apiSig("cut", fields, nil, signer, perm[i], keys[perm[i]])
			ops = append(ops, mi.oracle)
			privs = append(privs, hx.Hex(keys[perm[i]].priv))
		}
		ops = append(ops, fmt.Sprintf("cutapi slot=90 %s privs=%s", fieldToks("cut", fields), strings.Join(privs, ",")), "senders slot=90", "verifysign slot=90 "+signersInfo(), "hash slot=90")
		g.Count("cut:SignContractUpgradeTx")
	}
	next := 1
	for step := 0; step < 3+g.Rng.Intn(5); step++ {
		switch g.Rng.Intn(6) {
		case 0, 1: // field mutation, fresh object
			f := kinds["cut"].signed[g.Rng.Intn(4)]
			nf := copyMap(fields)
			nf[f] = mutateField(g, "cut", f, keys, fields[f])
			ops = append(ops, fmt.Sprintf("mk slot=%d kind=cut %s sigs=%s", next, fieldToks("cut", nf), sigsToken(sigs)),
				fmt.Sprintf("senders slot=%d", next), fmt.Sprintf("verifysign slot=%d %s", next, signersInfo()), fmt.Sprintf("hash slot=%d", next))
			g.Count("mut:field:cut." + f)
		case 2: // one signature mutated
			ns := append([]sigv{}, sigs...)
			var what string
			i := g.Rng.Intn(len(ns))
			ns[i], what = mutateSig(g, ns[i], chain)
			if ns[i].v.Sign() < 0 {
				continue
			}
			ops = append(ops, fmt.Sprintf("mk slot=%d kind=cut %s sigs=%s", next, fieldToks("cut", fields), sigsToken(ns)),
				fmt.Sprintf("senders slot=%d", next), fmt.Sprintf("verifysign slot=%d %s", next, signersInfo()), fmt.Sprintf("hash slot=%d", next))
			g.Count("mut:sig:" + what)
		case 3: // duplicated / reordered signatures
			ns := append([]sigv{}, sigs...)
			ns = append(ns, sigs[g.Rng.Intn(len(sigs))])
			g.Rng.Shuffle(len(ns), func(a, b int) { ns[a], ns[b] = ns[b], ns[a] })
			ops = append(ops, fmt.Sprintf("mk slot=%d kind=cut %s sigs=%s", next, fieldToks("cut", fields), sigsToken(ns)),
				fmt.Sprintf("senders slot=%d", next), fmt.Sprintf("verifysign slot=%d %s", next, signersInfo()))
			g.Count("mut:cut-dup")
		case 4: // in place after use
			f := kinds["cut"].signed[g.Rng.Intn(4)]
			ops = append(ops, fmt.Sprintf("mk slot=%d kind=cut %s sigs=%s", next, fieldToks("cut", fields), sigsToken(sigs)), fmt.Sprintf("senders slot=%d", next),
				fmt.Sprintf("set slot=%d inplace=1 f.%s=%s", next, f, mutateField(g, "cut", f, keys, fields[f])),
				fmt.Sprintf("senders slot=%d", next), fmt.Sprintf("verifysign slot=%d %s", next, signersInfo()))
			g.Count("cache:inplace-write")
		default: // another chain's node verifies it
			ops = append(ops, "verifysign slot=0 "+signersInfo())
		}
		next++
	}
	g.Count("kind:cut")
	g.Case(fmt.Sprintf("cut nsig=%d chain=%d api=%v", nsig, chain, api), ops, true)
}

// direct calls: ValidateSignatureValues on the boundary grid, Protected / SignParam on V values
func genGrid(g *hx.Gen) {
	one := big.NewInt(1)
	bound := []*big.Int{big.NewInt(0), one, big.NewInt(2), new(big.Int).Sub(halfN, one), halfN, new(big.Int).Add(halfN, one), new(big.Int).Sub(curveN, one), curveN,
		new(big.Int).Add(curveN, one), new(big.Int).Sub(new(big.Int).Lsh(one, 256), one), new(big.Int).Lsh(one, 256)}
	ops := []string{caseOp(29153, "grid")}
	for _, r := range bound {
		for _, s := range bound {
			for _, v := range []int{0, 1, 2, 27, 255} {
				if v > 1 && g.Rng.Intn(3) != 0 {
					continue
				}
				for _, hs := range []bool{true, false} {
					ops = append(ops, fmt.Sprintf("vrs v=%d r=%s s=%s hs=%v", v, bigHex(r), bigHex(s), hs))
				}
			}
		}
	}
	g.Case("ValidateSignatureValues boundary grid", ops, true)
	ops = []string{caseOp(29153, "grid")}
	vs := []string{"0", "1", "26", "27", "28", "29", "34", "35", "36", "37", "58341", "58342", "58343", "255", "256", "-27", "-28", "-35", "-58341",
		"18446744073709551615", "18446744073709551616", "18446744073709551651", "-18446744073709551616", "36893488147419103232", "-36893488147419103267"}
	for _, v := range append(vs, "nil") {
		ops = append(ops, "vinfo v="+v)
	}
	for n := 0; n < g.Pick(60, 2000); n++ {
		v := new(big.Int).SetBytes(randBytes(g, 1+g.Rng.Intn(10)))
		if g.Rng.Intn(4) == 0 {
			v.Neg(v)
		}
		ops = append(ops, "vinfo v="+v.String())
	}
	g.Case("Protected / SignParam grid", ops, true)
}

// malformed stream: random signature values on valid fields
func genGarbage(g *hx.Gen) {
	keys := newKeys(g, 2)
	chain := chains[g.Rng.Intn(len(chains))]
	kind := []string{"tx", "tok", "utxo"}[g.Rng.Intn(3)]
	fields := randFields(g, kind, keys)
	ops := []string{caseOp(chain, "garbage"), keysOp(keys)}
	for n := 0; n < 6; n++ {
		v := new(big.Int).SetBytes(randBytes(g, 1+g.Rng.Intn(9)))
		switch g.Rng.Intn(3) {
		case 0:
			v = big.NewInt(27 + int64(g.Rng.Intn(2)))
		case 1:
			v = big.NewInt(35 + 2*chain + int64(g.Rng.Intn(2)))
		}
		sg := sigv{v, new(big.Int).SetBytes(randBytes(g, 1+g.Rng.Intn(33))), new(big.Int).SetBytes(randBytes(g, 1+g.Rng.Intn(33)))}
		if g.Rng.Intn(2) == 0 {
			sg.s.Rsh(sg.s, 2)
		}
		ops = append(ops, fmt.Sprintf("mk slot=%d kind=%s %s sigs=%s", n, kind, fieldToks(kind, fields), sg),
			fmt.Sprintf("sender slot=%d signer=%s", n, []string{signerTok(chain), "home", "front"}[g.Rng.Intn(3)]), fmt.Sprintf("from slot=%d", n))
	}
	g.Count("garbage:" + kind)
	g.Case("garbage signatures kind="+kind, ops, false)
}
