package appsim

import (
	"fmt"
	"github.com/lianxiangcloud/linkchain/libs/ser"
	"math/big"
	"sort"
	"strconv"
	"strings"

	cfg "github.com/lianxiangcloud/linkchain/config"
	"github.com/lianxiangcloud/linkchain/libs/common"
	"github.com/lianxiangcloud/linkchain/libs/crypto"
	lktypes "github.com/lianxiangcloud/linkchain/libs/cryptonote/types"
	dbm "github.com/lianxiangcloud/linkchain/libs/db"
	"github.com/lianxiangcloud/linkchain/types"
)

// ChainExec interprets the ledger op lines of the C05/C06/C07 harnesses against a real application stack.
// Amounts cross the boundary in units of 10^10 (the commitment unit), so that the model works with small integers.
type ChainExec struct {
	S       *Stack
	Accts   []*Account
	Wallets []*Wallet
	Txs     []types.Tx // by id (index)
	Built   []string   // kind of each tx
	LKC     common.Address
	Tok     common.Address
	coin    common.Address
	lastBlk *types.Block
	// AfterCommit, if set, is called with every block this stack committed; its result is appended to the answer
	AfterCommit func(b *types.Block) string
	// Extra stacks built with the same genesis (replicas), in the order of ReplicaOpts
	ReplicaOpts []Opts
	Replicas    []*Stack
	// Wrap, if set, decorates the databases of the main stack (crash injection)
	Wrap func(name string, db dbm.DB) dbm.DB
	// PartSize of stored part sets (0 = default)
	PartSize int
	// Created: the DISTINCT addresses the `create` ops aim at (whether or not they succeed), in order of first appearance
	Created []common.Address
	// Ext: the chain was built with the extended contract set (`chain ... code=2`): Mover, beneficiaries
	Ext bool
}

// ContractAddr is the address of the test contract present at genesis when `chain ... code=1`.
var ContractAddr = common.HexToAddress("0x00000000000000000000000000000000c0dec0de")

// TestContract (runtime code): c = first calldata byte; c == 0xff reverts; otherwise writes storage slots c, c+1, c+2
// (caller, block number, 7c) and emits LOG1 with topic c.
var TestContract = common.FromHex("60003560001a8060ff146025573381554381600101558060070281600201556000600" + "0a1005b60006000fd")

var Unit = big.NewInt(1e10)

// CallTransferGas is the value-proportional gas a call of a contract carrying `v` units must at least offer.
func CallTransferGas(v int64) uint64 {
	return types.CalNewAmountGas(units(v), types.EverContractLiankeFee)
}

// CallIntrinsicGas is the intrinsic gas of the one-byte call of the test contract.
func CallIntrinsicGas() uint64 {
	g, _ := types.IntrinsicGas([]byte{1}, false, cfg.EvmGasRate)
	return g
}

func units(n int64) *big.Int { return new(big.Int).Mul(big.NewInt(n), Unit) }

// ToUnits renders an amount in units of 10^10 (exact, or with a remainder marker).
func ToUnits(x *big.Int) string {
	q, r := new(big.Int).QuoRem(x, Unit, new(big.Int))
	if r.Sign() != 0 {
		return q.String() + "r" + r.String()
	}
	return q.String()
}

func argI(toks []string, k string, def int64) int64 {
	p := k + "="
	for _, t := range toks {
		if strings.HasPrefix(t, p) {
			v, err := strconv.ParseInt(t[len(p):], 10, 64)
			if err == nil {
				return v
			}
		}
	}
	return def
}

func argS(toks []string, k string) string {
	p := k + "="
	for _, t := range toks {
		if strings.HasPrefix(t, p) {
			return t[len(p):]
		}
	}
	return ""
}

// ErrClass maps the repo's admission / execution errors to a small enum.
func ErrClass(err error) string {
	if err == nil {
		return "ok"
	}
	s := err.Error()
	switch {
	case err == types.ErrNonceTooLow || strings.Contains(s, "nonce too low"):
		return "nonce-low"
	case err == types.ErrNonceTooHigh || strings.Contains(s, "nonce too high"):
		return "nonce-high"
	case err == types.ErrInsufficientFunds || strings.Contains(s, "insufficient"):
		return "funds"
	case err == types.ErrUtxoTxDoubleSpend || strings.Contains(s, "double spend"):
		return "double-spend"
	case err == types.ErrUtxoTxFeeTooLow || strings.Contains(s, "fee too low"):
		return "fee-low"
	case strings.Contains(s, "commit") || strings.Contains(s, "Commit"):
		return "commit"
	case strings.Contains(s, "ulletproof") || strings.Contains(s, "verify rct") || strings.Contains(s, "ingCT"):
		return "proof"
	case strings.Contains(s, "money invalid"):
		return "money"
	case strings.Contains(s, "key image") || strings.Contains(s, "KeyImage"):
		return "keyimage"
	case strings.Contains(s, "invalid sender") || strings.Contains(s, "signature"):
		return "sig"
	case strings.HasPrefix(s, "panic"):
		return "panic"
	}
	return "other:" + strings.ReplaceAll(s, " ", "_")
}

func (c *ChainExec) fee(gas uint64) *big.Int {
	return new(big.Int).Mul(new(big.Int).SetUint64(gas), big.NewInt(types.ParGasPrice))
}

func (c *ChainExec) addTx(kind string, tx types.Tx) int {
	c.Txs = append(c.Txs, tx)
	c.Built = append(c.Built, kind)
	return len(c.Txs) - 1
}

// gasPrice: the fixed price of the chain, or that price plus gpd=<delta in wei> (any other price must be refused).
func gasPrice(toks []string) *big.Int {
	return new(big.Int).Add(big.NewInt(types.ParGasPrice), big.NewInt(argI(toks, "gpd", 0)))
}

// rawTx is the wire layout of a plain transaction (types.txdata): NewTransaction overwrites the gas price with the fixed one,
// so a transaction with any other price has to be decoded from bytes (as a peer would send it).
type rawTx struct {
	AccountNonce uint64
	Price        *big.Int
	GasLimit     uint64
	Recipient    *common.Address `rlp:"nil"`
	Amount       *big.Int
	Payload      []byte
	V, R, S      *big.Int
}

func pricedTx(nonce uint64, to common.Address, amount *big.Int, gas uint64, price *big.Int, data []byte) (*types.Transaction, error) {
	if price.Cmp(big.NewInt(types.ParGasPrice)) == 0 {
		return types.NewTransaction(nonce, to, amount, gas, price, data), nil
	}
	raw := rawTx{AccountNonce: nonce, Price: price, GasLimit: gas, Recipient: &to, Amount: amount, Payload: data, V: new(big.Int), R: new(big.Int), S: new(big.Int)}
	bz, err := ser.EncodeToBytes(&raw)
	if err != nil {
		return nil, err
	}
	tx := new(types.Transaction)
	if err := ser.DecodeBytes(bz, tx); err != nil {
		return nil, err
	}
	return tx, nil
}

func (c *ChainExec) admit(kind string, tx types.Tx, err error) string {
	if err != nil {
		return "build=" + ErrClass(err)
	}
	id := c.addTx(kind, tx)
	return fmt.Sprintf("id=%d admit=%s", id, ErrClass(c.S.Admit(tx)))
}

// Exec runs one op.
// ExtraOps: extension point for further ops (consulted for op names this file does not know).
var ExtraOps = map[string]func(c *ChainExec, toks []string) string{}

func (c *ChainExec) Exec(op string) string {
	toks := strings.Fields(op)
	switch toks[0] {
	case "case":
		if c.S != nil {
			c.S.Close()
		}
		for _, r := range c.Replicas {
			r.Close()
		}
		*c = ChainExec{AfterCommit: c.AfterCommit, ReplicaOpts: c.ReplicaOpts, Wrap: c.Wrap, PartSize: c.PartSize}
		return "ok"
	case "chain":
		SeedCrypto(uint64(argI(toks, "seed", 1)))
		SetVerify(1, 1)
		c.LKC = common.EmptyAddress
		c.Tok = common.HexToAddress("0xc7c22a8e08d3b0643a55e7c087a416171b45922f")
		c.coin = common.HexToAddress("0xc01b")
		for i := 0; i < int(argI(toks, "accts", 3)); i++ {
			c.Accts = append(c.Accts, NewAccount(i))
		}
		for i := 0; i < int(argI(toks, "wallets", 2)); i++ {
			c.Wallets = append(c.Wallets, NewWallet(i))
		}
		o := Opts{IsTrie: argI(toks, "trie", 1) == 1, Accounts: c.Accts, Balance: units(argI(toks, "bal", 1000000000000)),
			Tokens: map[common.Address]*big.Int{c.Tok: units(argI(toks, "tbal", 1000000))}}
		if argI(toks, "code", 0) == 1 {
			o.Code = map[common.Address][]byte{ContractAddr: TestContract}
		}
		if argI(toks, "code", 0) == 2 { // the extended contract set: the test contract and the value-moving contract
			o.Code = map[common.Address][]byte{ContractAddr: TestContract, MoverAddr: MoverCode}
			c.Ext = true
		}
		o.Records = argI(toks, "rec", 0) == 1
		o.Wrap = c.Wrap
		o.PartSize = c.PartSize
		s, err := NewStack(o)
		if err != nil {
			return "err " + err.Error()
		}
		c.S = s
		for _, ro := range c.ReplicaOpts {
			ro.Accounts, ro.Balance, ro.Tokens, ro.Code = o.Accounts, o.Balance, o.Tokens, o.Code
			r, err := NewStack(ro)
			if err != nil {
				return "err replica " + err.Error()
			}
			c.Replicas = append(c.Replicas, r)
		}
		return "ok"
	}
	if c.S == nil {
		return "nochain"
	}
	switch toks[0] {
	case "xfer": // plain transfer between accounts
		from, to := c.Accts[argI(toks, "from", 0)], c.Accts[argI(toks, "to", 1)]
		amount := units(argI(toks, "amount", 1))
		gas := types.CalNewAmountGas(amount, types.EverLiankeFee)
		if g := argI(toks, "gas", -1); g >= 0 {
			gas = uint64(g)
		}
		tx, err := pricedTx(uint64(argI(toks, "nonce", 0)), to.Addr, amount, gas, gasPrice(toks), nil)
		if err == nil {
			err = tx.Sign(types.GlobalSTDSigner, from.Key)
		}
		return c.admit("xfer", tx, err)
	case "call": // call of the genesis test contract with one byte of calldata
		from := c.Accts[argI(toks, "from", 0)]
		tx, err := pricedTx(uint64(argI(toks, "nonce", 0)), ContractAddr, units(argI(toks, "value", 0)), uint64(argI(toks, "gas", 1000000)), gasPrice(toks),
			[]byte{byte(argI(toks, "c", 1))})
		if err == nil {
			err = tx.Sign(types.GlobalSTDSigner, from.Key)
		}
		return c.admit("call", tx, err)
	case "xfertok":
		from, to := c.Accts[argI(toks, "from", 0)], c.Accts[argI(toks, "to", 1)]
		amount := units(argI(toks, "amount", 1))
		gas := types.CalNewAmountGas(big.NewInt(0), types.EverLiankeFee)
		tx := types.NewTokenTransaction(c.Tok, uint64(argI(toks, "nonce", 0)), to.Addr, amount, gas, gasPrice(toks), nil)
		err := tx.Sign(types.GlobalSTDSigner, from.Key)
		return c.admit("xfertok", tx, err)
	case "ain": // account -> confidential
		from, w := c.Accts[argI(toks, "from", 0)], c.Wallets[argI(toks, "w", 0)]
		amount := units(argI(toks, "amount", 1))
		gas := types.CalNewAmountGas(amount, types.EverLiankeFee)
		fee := c.fee(gas)
		if f := argI(toks, "feeu", -1); f >= 0 {
			fee = units(f)
		}
		if rem := argI(toks, "rem", 0); rem != 0 {
			// an account INPUT that is not a whole number of commitment units: rem wei on top of the input and of the confidential
			// output (the fee stays exact, every commitment is built from floor(amount/unit)): the semantic check must refuse it
			amount = new(big.Int).Add(amount, big.NewInt(rem))
		}
		tx, err := BuildAin(from, uint64(argI(toks, "nonce", 0)), new(big.Int).Add(amount, fee), []types.DestEntry{w.Dest(amount)}, c.LKC)
		return c.admit("ain", tx, err)
	case "uu", "ua": // confidential -> confidential / account
		w := c.Wallets[argI(toks, "w", 0)]
		k := int(argI(toks, "in", 0))
		if k < 0 || k >= len(w.Outs) {
			return "noinput"
		}
		in := *w.Outs[k]
		// more=<i,j,…>: further inputs (indices into the wallet's outputs), possibly repeating one — a transaction that names the
		// same key image twice, adjacent or not; their amounts add to what the transaction may spend
		var extra []*OwnedOut
		if ms := argS(toks, "more"); ms != "" {
			for _, x := range strings.Split(ms, ",") {
				j, err := strconv.Atoi(x)
				if err != nil || j < 0 || j >= len(w.Outs) {
					return "noinput"
				}
				o := *w.Outs[j]
				extra = append(extra, &o)
				in.Amount = new(big.Int).Add(in.Amount, o.Amount)
			}
		}
		if cl := argI(toks, "claim", -1); cl >= 0 {
			in.Amount = units(cl) // the spender lies about the amount of the output it spends
		}
		ufee := c.fee(c.S.App.GetUTXOGas())
		var dests []types.DestEntry
		amount := units(argI(toks, "amount", 1))
		if hi := argI(toks, "hi", -1); hi >= 0 && toks[0] == "ua" {
			// an account-side amount beyond what the amount->scalar conversion supports (8 bytes of units): the spender
			// claims amount + 2^hi units on both sides of the balance equation
			big2 := new(big.Int).Mul(new(big.Int).Lsh(big.NewInt(1), uint(hi)), Unit)
			amount = new(big.Int).Add(amount, big2)
			in.Amount = new(big.Int).Add(in.Amount, big2)
		}
		if toks[0] == "uu" {
			change := new(big.Int).Sub(new(big.Int).Sub(in.Amount, amount), ufee)
			if f := argI(toks, "feeu", -1); f >= 0 {
				change = new(big.Int).Sub(new(big.Int).Sub(in.Amount, amount), units(f))
			}
			if change.Sign() < 0 {
				return "build=funds"
			}
			dests = append(dests, c.Wallets[argI(toks, "to", 1)].Dest(amount))
			if change.Sign() > 0 {
				dests = append(dests, w.Dest(change))
			}
		} else {
			if argI(toks, "all", 0) == 1 {
				// spend the whole input to the account: no confidential output at all (two rounds of the fee's fixed point)
				amount = new(big.Int).Sub(in.Amount, c.fee(types.CalNewAmountGas(in.Amount, types.EverLiankeFee)))
				if amount.Sign() > 0 {
					amount = new(big.Int).Sub(in.Amount, c.fee(types.CalNewAmountGas(amount, types.EverLiankeFee)))
				}
				if amount.Sign() <= 0 {
					return "build=funds"
				}
			}
			afee := c.fee(types.CalNewAmountGas(amount, types.EverLiankeFee))
			change := new(big.Int).Sub(new(big.Int).Sub(in.Amount, amount), afee)
			if change.Sign() < 0 {
				return "build=funds"
			}
			if rem := argI(toks, "rem", 0); rem != 0 {
				// an account output that is not a whole number of commitment units (the commitment covers amount/unit only)
				amount = new(big.Int).Add(amount, big.NewInt(rem))
			}
			dests = append(dests, &types.AccountDestEntry{To: c.Accts[argI(toks, "to", 0)].Addr, Amount: amount})
			if change.Sign() > 0 {
				// change goes back to the wallet: this makes the tx Uin -> (Aout, Uout) and adds the confidential fee
				change.Sub(change, ufee)
				if change.Sign() <= 0 {
					return "build=funds"
				}
				dests = append(dests, w.Dest(change))
			}
		}
		ins := []*OwnedOut{&in}
		if len(extra) > 0 {
			first := *w.Outs[k] // the first input keeps its own amount; `in` carries the sum for the balance of the outputs
			ins = append([]*OwnedOut{&first}, extra...)
		}
		tx, err := BuildUin(w, ins, dests, c.LKC, common.EmptyAddress)
		if err == nil {
			switch argS(toks, "tamper") {
			case "outpk":
				tx.RCTSig.OutPk[0].Mask[5] ^= 1
			case "pseudo":
				tx.RCTSig.P.PseudoOuts[0][5] ^= 1
			case "fee":
				tx.Fee = new(big.Int).Sub(tx.Fee, c.fee(1))
			case "proof":
				tx.RCTSig.P.Bulletproofs[0].T[3] ^= 1
			case "image":
				tx.Inputs[0].(*types.UTXOInput).KeyImage[7] ^= 1
			case "sig":
				tx.RCTSig.P.Ss[0].C[3] ^= 1
			}
		}
		return c.admit(toks[0], tx, err)
	case "create": // contract creation from a transaction (To = nil) with init code of a kind, with or without value
		from := c.Accts[argI(toks, "from", 0)]
		kind := argS(toks, "kind")
		code := InitCode(kind)
		if code == nil {
			return "bad-kind"
		}
		nonce := uint64(argI(toks, "nonce", 0))
		tx := types.NewContractCreation(nonce, units(argI(toks, "value", 0)), uint64(argI(toks, "gas", 1000000)), gasPrice(toks), code)
		err := tx.Sign(types.GlobalSTDSigner, from.Key)
		// the creation address is a function of (sender, nonce, init code): a second `create` with the same three aims at the SAME
		// address and must not be observed (and summed) twice
		if addr := crypto.CreateAddress(from.Addr, nonce, code); !containsAddr(c.Created, addr) {
			c.Created = append(c.Created, addr)
		}
		return c.admit("create", tx, err)
	case "mcall": // call of the value-moving contract: m=<Mover op> to=a<i>|b<k>|m|c<j> (account, beneficiary, Mover itself, created contract j); tok=1: a token transaction
		from := c.Accts[argI(toks, "from", 0)]
		target, ok := c.target(argS(toks, "to"))
		if !ok {
			return "bad-target"
		}
		dest := MoverAddr
		if j := argI(toks, "at", -1); j >= 0 { // call the Mover code a `create kind=ok` deployed
			if int(j) >= len(c.Created) {
				return "bad-target"
			}
			dest = c.Created[j]
		}
		data := MoverCallData(byte(argI(toks, "m", 0)), target)
		var tx types.Tx
		var err error
		if argI(toks, "tok", 0) == 1 {
			t := types.NewTokenTransaction(c.Tok, uint64(argI(toks, "nonce", 0)), dest, units(argI(toks, "value", 0)), uint64(argI(toks, "gas", 1000000)), gasPrice(toks), data)
			err = t.Sign(types.GlobalSTDSigner, from.Key)
			tx = t
		} else {
			t, e := pricedTx(uint64(argI(toks, "nonce", 0)), dest, units(argI(toks, "value", 0)), uint64(argI(toks, "gas", 1000000)), gasPrice(toks), data)
			if e == nil {
				e = t.Sign(types.GlobalSTDSigner, from.Key)
			}
			tx, err = t, e
		}
		return c.admit("mcall", tx, err)
	case "calltok": // token transaction to the genesis test contract (one byte of calldata): a contract call carrying TOKEN value
		from := c.Accts[argI(toks, "from", 0)]
		tx := types.NewTokenTransaction(c.Tok, uint64(argI(toks, "nonce", 0)), ContractAddr, units(argI(toks, "value", 0)), uint64(argI(toks, "gas", 1000000)), gasPrice(toks),
			[]byte{byte(argI(toks, "c", 1))})
		err := tx.Sign(types.GlobalSTDSigner, from.Key)
		return c.admit("calltok", tx, err)
	case "xferx": // plain transfer to an address that is not a genesis account: to=b<k>|m|c<j> (gas: the exact transfer gas unless gas= is given)
		from := c.Accts[argI(toks, "from", 0)]
		target, ok := c.target(argS(toks, "to"))
		if !ok {
			return "bad-target"
		}
		amount := units(argI(toks, "amount", 1))
		gas := types.CalNewAmountGas(amount, types.EverLiankeFee)
		if g := argI(toks, "gas", -1); g >= 0 {
			gas = uint64(g)
		}
		tx, err := pricedTx(uint64(argI(toks, "nonce", 0)), target, amount, gas, gasPrice(toks), nil)
		if err == nil {
			err = tx.Sign(types.GlobalSTDSigner, from.Key)
		}
		return c.admit("xferx", tx, err)
	case "uxbad": // confidential transactions of a shape the semantic check must refuse: shape=ainaout (account input with an account
		// output), aout2 (two account outputs), cout (an account output to a contract)
		var tx *types.UTXOTransaction
		var err error
		switch argS(toks, "shape") {
		case "ainaout":
			from, w := c.Accts[argI(toks, "from", 0)], c.Wallets[argI(toks, "w", 0)]
			amount := units(argI(toks, "amount", 1))
			fee := c.fee(types.CalNewAmountGas(new(big.Int).Mul(amount, big.NewInt(2)), types.EverLiankeFee))
			tx, err = BuildAin(from, uint64(argI(toks, "nonce", 0)), new(big.Int).Add(new(big.Int).Mul(amount, big.NewInt(2)), fee),
				[]types.DestEntry{w.Dest(amount), &types.AccountDestEntry{To: c.Accts[argI(toks, "to", 1)].Addr, Amount: amount}}, c.LKC)
		case "aout2", "cout":
			w := c.Wallets[argI(toks, "w", 0)]
			k := int(argI(toks, "in", 0))
			if k < 0 || k >= len(w.Outs) {
				return "noinput"
			}
			in := *w.Outs[k]
			amount := units(argI(toks, "amount", 1))
			var dests []types.DestEntry
			total := new(big.Int).Set(amount)
			if argS(toks, "shape") == "aout2" {
				dests = append(dests, &types.AccountDestEntry{To: c.Accts[0].Addr, Amount: amount}, &types.AccountDestEntry{To: c.Accts[1].Addr, Amount: amount})
				total.Add(total, amount)
			} else {
				dests = append(dests, &types.AccountDestEntry{To: ContractAddr, Amount: amount, Data: []byte{1}})
			}
			change := new(big.Int).Sub(in.Amount, total)
			change.Sub(change, c.fee(types.CalNewAmountGas(total, types.EverLiankeFee)))
			change.Sub(change, c.fee(c.S.App.GetUTXOGas()))
			if change.Sign() <= 0 {
				return "build=funds"
			}
			dests = append(dests, w.Dest(change))
			tx, err = BuildUin(w, []*OwnedOut{&in}, dests, c.LKC, c.Accts[0].Addr)
			if err == nil && argS(toks, "shape") == "cout" {
				err = tx.Sign(types.GlobalSTDSigner, c.Accts[0].Key)
			}
		default:
			return "bad-shape"
		}
		return c.admit("uxbad", tx, err)
	case "balx":
		return c.balancesX()
	case "recs": // the application's own audit log of block h, netted per observed bucket
		return c.recordsLine(uint64(argI(toks, "h", 0)))
	case "replay": // submit an earlier transaction object again
		id := int(argI(toks, "id", 0))
		if id < 0 || id >= len(c.Txs) {
			return "notx"
		}
		return "admit=" + ErrClass(c.S.Admit(c.Txs[id]))
	case "forceblock": // a block with exactly the given earlier txs, bypassing the mempool (what a Byzantine proposer can do)
		var txs types.Txs
		for _, s := range strings.Split(argS(toks, "ids"), ",") {
			id, err := strconv.Atoi(s)
			if err == nil && id >= 0 && id < len(c.Txs) {
				txs = append(txs, c.Txs[id])
			}
		}
		b, err := c.S.BlockOf(c.coin, txs)
		if err != nil {
			return "propose=" + ErrClass(err)
		}
		ans := c.finishBlock(b)
		if strings.HasPrefix(ans, "h=") {
			c.recheckPending()
		}
		return ans
	case "block":
		b, err := c.S.Propose(c.coin, int(argI(toks, "max", 1000)))
		if err != nil {
			return "propose=" + ErrClass(err)
		}
		return c.finishBlock(b)
	case "receipts":
		h := uint64(argI(toks, "h", 0))
		got := c.receiptLine(h)
		want := strings.TrimSpace(strings.TrimPrefix(op, "receipts"))
		if got == want {
			return "ok"
		}
		return "stale got:" + got
	case "bal":
		return c.balances()
	case "nonces":
		st := c.S.App.GetLatestStateDB()
		var ns []string
		for _, a := range c.Accts {
			ns = append(ns, fmt.Sprint(st.GetNonce(a.Addr)))
		}
		return "n=" + strings.Join(ns, ",")
	case "restart":
		dbs := c.S.DBs
		o := c.S.Opts
		c.S.Close()
		o.DBs = dbs
		s, err := NewStack(o)
		if err != nil {
			return "err " + err.Error()
		}
		c.S = s
		return fmt.Sprintf("ok h=%d", s.App.Height())
	}
	// ops added by other slices without editing this file (harness/appsim/<new file>.go: func init() { ExtraOps["name"] = … })
	if f, ok := ExtraOps[toks[0]]; ok {
		return f(c, toks)
	}
	return "bad-op"
}

// recheckPending does for the stand-in mempool what the real mempool's Update does after a block it did not build
// (mempool.recheckTxs / recheckUtxoTxs: C15's subject): pending transactions are run through the state check again, in order,
// against the fresh speculative state, and those a foreign block invalidated (stale nonce, drained balance, spent key image)
// are dropped.  Without it the next own proposal would contain them and PreRunBlock panics ("should not happen").
func (c *ChainExec) recheckPending() {
	if c.S.Simple == nil {
		return
	}
	var keep types.Txs
	for _, tx := range c.S.Simple.Txs {
		if err := c.S.App.CheckTx(tx, false); err == nil {
			keep = append(keep, tx)
		}
	}
	c.S.Simple.Txs = keep
}

func (c *ChainExec) finishBlock(b *types.Block) string {
	ok, err := c.S.Validate(b)
	if err != nil {
		return "validate=" + ErrClass(err)
	}
	if !ok {
		return "validate=false"
	}
	if err := c.S.Commit(b); err != nil {
		return "commit=" + ErrClass(err)
	}
	c.lastBlk = b
	var ids []string
	for _, tx := range b.Data.Txs {
		id := -1
		for i, t := range c.Txs {
			if t.Hash() == tx.Hash() {
				id = i
				break
			}
		}
		ids = append(ids, fmt.Sprint(id))
		if u, ok := tx.(*types.UTXOTransaction); ok {
			for _, in := range u.Inputs {
				if ui, ok := in.(*types.UTXOInput); ok {
					c.markSpent(ui.KeyImage)
				}
			}
			for _, w := range c.Wallets {
				w.Scan(u, c.S.GlobalIndexer(u.TokenID))
			}
		}
	}
	ans := fmt.Sprintf("h=%d txs=%s", b.Height, strings.Join(ids, ","))
	if c.AfterCommit != nil {
		ans += " " + c.AfterCommit(b)
	}
	return ans
}

// ReceiptOp renders the `receipts` op for a height from the store (gas used and status per tx).
func (c *ChainExec) ReceiptOp(h uint64) string { return "receipts " + c.receiptLine(h) }

func (c *ChainExec) receiptLine(h uint64) string {
	rs := c.S.BS.GetReceipts(h)
	var gas, st []string
	if rs != nil {
		for _, r := range *rs {
			gas = append(gas, fmt.Sprint(r.GasUsed))
			st = append(st, fmt.Sprint(r.Status))
		}
	}
	return fmt.Sprintf("h=%d gas=%s st=%s", h, strings.Join(gas, ","), strings.Join(st, ","))
}

func (c *ChainExec) markSpent(img lktypes.Key) {
	for _, w := range c.Wallets {
		for _, o := range w.Outs {
			if o.Spent {
				continue
			}
			src := o.Source()
			ephs, err := types.GenerateKeyImage(&w.Key, w.Idx, []*types.UTXOSourceEntry{src})
			if err == nil && len(ephs) == 1 && ephs[0].KeyImage == img {
				o.Spent = true
			}
		}
	}
}

// Supply sums every place native value can be: tracked accounts, foundation, zero address, coinbase, and the
// confidential pool as its owners see it.
func (c *ChainExec) Supply() (total *big.Int, pool *big.Int, tok *big.Int) {
	st := c.S.App.GetLatestStateDB()
	total, pool, tok = new(big.Int), new(big.Int), new(big.Int)
	addrs := []common.Address{cfg.ContractFoundationAddr, common.EmptyAddress, c.coin, ContractAddr}
	for _, a := range c.Accts {
		addrs = append(addrs, a.Addr)
	}
	for _, a := range addrs {
		total.Add(total, st.GetBalance(a))
		tok.Add(tok, st.GetTokenBalance(a, c.Tok))
	}
	for _, w := range c.Wallets {
		for _, o := range w.Outs {
			if !o.Spent && o.Token == c.LKC {
				pool.Add(pool, o.Amount)
			}
		}
	}
	total.Add(total, pool)
	return
}

func (c *ChainExec) balances() string {
	st := c.S.App.GetLatestStateDB()
	var as, ts, ps []string
	for _, a := range c.Accts {
		as = append(as, ToUnits(st.GetBalance(a.Addr)))
		ts = append(ts, ToUnits(st.GetTokenBalance(a.Addr, c.Tok)))
	}
	for _, w := range c.Wallets {
		var outs []string
		for _, o := range w.Outs {
			if !o.Spent && o.Token == c.LKC {
				outs = append(outs, ToUnits(o.Amount))
			}
		}
		sort.Strings(outs)
		ps = append(ps, strings.Join(outs, "+"))
	}
	total, pool, tok := c.Supply()
	return fmt.Sprintf("a=%s t=%s f=%s z=%s w=%s pool=%s supply=%s toksupply=%s", strings.Join(as, ","), strings.Join(ts, ","),
		ToUnits(st.GetBalance(cfg.ContractFoundationAddr)), ToUnits(new(big.Int).Add(st.GetBalance(common.EmptyAddress), st.GetBalance(ContractAddr))),
		strings.Join(ps, "|"), ToUnits(pool), ToUnits(total), ToUnits(tok))
}

// target resolves a<i> (account), b<k> (beneficiary), m (the Mover), c<j> (the address of the j-th `create`), t (the test contract).
func (c *ChainExec) target(s string) (common.Address, bool) {
	if s == "m" {
		return MoverAddr, true
	}
	if s == "t" {
		return ContractAddr, true
	}
	if len(s) < 2 {
		return common.Address{}, false
	}
	i, err := strconv.Atoi(s[1:])
	if err != nil || i < 0 {
		return common.Address{}, false
	}
	switch s[0] {
	case 'a':
		if i < len(c.Accts) {
			return c.Accts[i].Addr, true
		}
	case 'b':
		if i < len(BenAddrs) {
			return BenAddrs[i], true
		}
	case 'c':
		if i < len(c.Created) {
			return c.Created[i], true
		}
	}
	return common.Address{}, false
}

// extAddrs: the addresses observed in addition to the accounts: foundation, zero, coinbase, test contract, Mover,
// beneficiaries, every address a `create` op aimed at.
func (c *ChainExec) extAddrs() []common.Address {
	out := []common.Address{MoverAddr}
	out = append(out, BenAddrs...)
	return append(out, c.Created...)
}

// balancesX is `bal` with every further address a test contract can pay: m= the Mover (native,token), b= the beneficiaries
// (native/token each), c= every `create` target; supply and toksupply include them.
func (c *ChainExec) balancesX() string {
	st := c.S.App.GetLatestStateDB()
	var as, ts, ps, bs, cs []string
	for _, a := range c.Accts {
		as = append(as, ToUnits(st.GetBalance(a.Addr)))
		ts = append(ts, ToUnits(st.GetTokenBalance(a.Addr, c.Tok)))
	}
	for _, w := range c.Wallets {
		var outs []string
		for _, o := range w.Outs {
			if !o.Spent && o.Token == c.LKC {
				outs = append(outs, ToUnits(o.Amount))
			}
		}
		sort.Strings(outs)
		ps = append(ps, strings.Join(outs, "+"))
	}
	total, pool, tok := c.Supply()
	for _, a := range c.extAddrs() {
		total.Add(total, st.GetBalance(a))
		tok.Add(tok, st.GetTokenBalance(a, c.Tok))
	}
	for _, b := range BenAddrs {
		bs = append(bs, ToUnits(st.GetBalance(b))+"/"+ToUnits(st.GetTokenBalance(b, c.Tok)))
	}
	for _, a := range c.Created {
		cs = append(cs, ToUnits(st.GetBalance(a)))
	}
	ztok := new(big.Int).Add(st.GetTokenBalance(common.EmptyAddress, c.Tok), st.GetTokenBalance(ContractAddr, c.Tok))
	return fmt.Sprintf("a=%s t=%s f=%s z=%s zt=%s m=%s/%s b=%s c=%s w=%s pool=%s supply=%s toksupply=%s", strings.Join(as, ","), strings.Join(ts, ","),
		ToUnits(st.GetBalance(cfg.ContractFoundationAddr)), ToUnits(new(big.Int).Add(st.GetBalance(common.EmptyAddress), st.GetBalance(ContractAddr))), ToUnits(ztok),
		ToUnits(st.GetBalance(MoverAddr)), ToUnits(st.GetTokenBalance(MoverAddr, c.Tok)), strings.Join(bs, ","), strings.Join(cs, ","),
		strings.Join(ps, "|"), ToUnits(pool), ToUnits(total), ToUnits(tok))
}

// recordsLine nets the balance records the application stored for block h per observed bucket (native coin and the test
// token): a=accounts t=token of accounts f=foundation z=zero address + test contract zt=their token m=Mover b=beneficiaries
// c=created p=confidential pool (PrivateAddress side) mint=/burn= value from / to NoAddress, unk= records naming an address
// or a token that is not observed.  A fee record counts as native coin whatever token id it carries.
func (c *ChainExec) recordsLine(h uint64) string {
	bbr := c.S.BRS.Get(h)
	if bbr == nil {
		return "norecords"
	}
	type key struct {
		a   common.Address
		tok bool
	}
	net := map[key]*big.Int{}
	add := func(a common.Address, tok bool, v *big.Int) {
		k := key{a, tok}
		if net[k] == nil {
			net[k] = new(big.Int)
		}
		net[k].Add(net[k], v)
	}
	pool, mint, burn := new(big.Int), new(big.Int), new(big.Int)
	unk, n, feetok := 0, 0, 0
	known := map[common.Address]bool{cfg.ContractFoundationAddr: true, common.EmptyAddress: true, ContractAddr: true, c.coin: true}
	for _, a := range c.Accts {
		known[a.Addr] = true
	}
	for _, a := range c.extAddrs() {
		known[a] = true
	}
	for _, tr := range bbr.TxRecords {
		for _, r := range tr.Records {
			n++
			if r.Amount == nil {
				unk++
				continue
			}
			tok := r.TokenID == c.Tok
			if !tok && r.TokenID != c.LKC {
				unk++
				continue
			}
			if r.Type == types.TxFee && tok {
				// the fee of a token transaction is paid in the native coin; its record carries the token's id
				tok = false
				feetok++
			}
			side := func(a common.Address, typ uint32, v *big.Int) {
				switch typ {
				case types.AccountAddress:
					if !known[a] {
						unk++
					}
					add(a, tok, v)
				case types.PrivateAddress:
					if !tok {
						pool.Add(pool, v)
					}
				default:
					if v.Sign() < 0 {
						mint.Sub(mint, v)
					} else {
						burn.Add(burn, v)
					}
				}
			}
			side(r.From, r.FromAddressType, new(big.Int).Neg(r.Amount))
			side(r.To, r.ToAddressType, r.Amount)
		}
	}
	get := func(a common.Address, tok bool) *big.Int {
		if v := net[key{a, tok}]; v != nil {
			return v
		}
		return new(big.Int)
	}
	var as, ts, bs, cs []string
	for _, a := range c.Accts {
		as = append(as, ToUnits(get(a.Addr, false)))
		ts = append(ts, ToUnits(get(a.Addr, true)))
	}
	for _, b := range BenAddrs {
		bs = append(bs, ToUnits(get(b, false))+"/"+ToUnits(get(b, true)))
	}
	for _, a := range c.Created {
		cs = append(cs, ToUnits(get(a, false)))
	}
	z := new(big.Int).Add(get(common.EmptyAddress, false), get(ContractAddr, false))
	zt := new(big.Int).Add(get(common.EmptyAddress, true), get(ContractAddr, true))
	return fmt.Sprintf("a=%s t=%s f=%s z=%s zt=%s m=%s/%s b=%s c=%s p=%s mint=%s burn=%s unk=%d", strings.Join(as, ","), strings.Join(ts, ","),
		ToUnits(get(cfg.ContractFoundationAddr, false)), ToUnits(z), ToUnits(zt), ToUnits(get(MoverAddr, false)), ToUnits(get(MoverAddr, true)),
		strings.Join(bs, ","), strings.Join(cs, ","), ToUnits(pool), ToUnits(mint), ToUnits(burn), unk) + c.recNote(n, feetok)
}

// RecNotes, if true, appends to the `recs` answer the number of records and of fee records that carry a token id (not compared
// with the model by default: the record count depends on VM-internal bookkeeping).
var RecNotes = false

func (c *ChainExec) recNote(n, feetok int) string {
	if !RecNotes {
		return ""
	}
	return fmt.Sprintf(" n=%d feetok=%d", n, feetok)
}

func containsAddr(as []common.Address, a common.Address) bool {
	for _, x := range as {
		if x == a {
			return true
		}
	}
	return false
}
