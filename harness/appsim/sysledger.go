package appsim

// Ledger ops on the REAL system-contract genesis (added by the ledger slice, C06 / C07; add-only, registered through ExtraOps;
// nothing of sys.go is edited).
//
//   syschain <the arguments of `chain`> cands=<n> vp=<vote period>   the `chain` op, then the stack rebuilt with NewSysStack
//                                                                      (trie mode: the whole state must be walkable)
//   sblk cb=<candidate index | -1>     the next block from the mempool, proposed with a candidate's coinbase and a signed last
//                                      commit (the election's seed), validated and committed
//   sbal                               balances with the WHOLE-STATE supply: every account of the committed state + the pool
//   awards h=<h> cb=<wei,…> sup=<wei,…>  what block h paid the award payees (candidate coinbases, their supporters): `ok` when
//                                      the line carries exactly what the state shows (the model takes the amounts as given)
//   srecs h=<h>                        the block's balance records netted over accounts, foundation, payees, pledge, pool (wei)

import (
	"fmt"
	"math/big"
	"sort"
	"strings"
	"time"

	cfg "github.com/lianxiangcloud/linkchain/config"
	"github.com/lianxiangcloud/linkchain/libs/common"
	"github.com/lianxiangcloud/linkchain/types"
)

const sysChainID = "verif-chain"

// SupporterAddr is the supporter of candidate i registered by SysGenesis (the expression used there).
func SupporterAddr(i int) common.Address {
	return common.BytesToAddress([]byte{0x5b, 0x05, byte(i + 1)})
}

// AwardPayees: the addresses allocAward can pay on a chain with n candidates: candidate coinbases, then supporters.
func AwardPayees(n int) (cbs, sups []common.Address) {
	for i := 0; i < n; i++ {
		cbs = append(cbs, CandCoinbase(i))
		sups = append(sups, SupporterAddr(i))
	}
	return
}

// sysLedger is the per-chain memory of the ledger ops (payee balances before the last block).
type sysLedger struct {
	cands int
	prev  map[common.Address]*big.Int // payee balances before the block last committed
	prevH uint64
}

var sysLedgers = map[*ChainExec]*sysLedger{}

// WholeSupply sums the native coin and the test token over EVERY account of the committed state (trie mode) plus the
// confidential pool as its owners see it: ground truth that does not depend on knowing who can be paid.
func (c *ChainExec) WholeSupply() (native, tok *big.Int) {
	_, pool, _ := c.Supply()
	native, tok = new(big.Int).Set(pool), new(big.Int)
	for _, a := range c.S.App.GetLatestStateDB().RawDump().Accounts {
		if b, ok := new(big.Int).SetString(a.Balance, 10); ok {
			native.Add(native, b)
		}
		if t := a.Tokens[c.Tok]; t != nil {
			tok.Add(tok, t)
		}
	}
	return
}

func weiList(st interface {
	GetBalance(common.Address) *big.Int
}, as []common.Address) string {
	var out []string
	for _, a := range as {
		out = append(out, st.GetBalance(a).String())
	}
	return strings.Join(out, ",")
}

func sysLastCommit(s *Stack) *types.Commit {
	cur := s.App.Block()
	if cur.Height == 0 {
		return &types.Commit{}
	}
	id := types.BlockID{Hash: cur.Hash(), PartsHeader: types.PartSetHeader{Total: 1, Hash: cur.Hash().Bytes()[:8]}}
	pv := SysPV{Key: ValKey(0)}
	v := &types.Vote{ValidatorAddress: pv.GetAddress(), ValidatorIndex: 0, ValidatorSize: 1, Height: cur.Height, Round: int(cur.Height % 3),
		Timestamp: time.Unix(1600000000+int64(cur.Height), 0).UTC(), Type: types.VoteTypePrecommit, BlockID: id}
	pv.SignVote(sysChainID, v)
	return &types.Commit{BlockID: id, Precommits: []*types.Vote{v}}
}

// ExecLedger is ChainExec.Exec plus the `syschain` op (which must work before any chain exists, where ExtraOps are not consulted).
func (c *ChainExec) ExecLedger(op string) string {
	toks := strings.Fields(op)
	if len(toks) > 0 && toks[0] == "tokchain" {
		return c.tokChain(toks)
	}
	if len(toks) == 0 || toks[0] != "syschain" {
		if len(toks) > 0 && (toks[0] == "case" || toks[0] == "chain") {
			delete(sysLedgers, c)
			delete(tokLedgers, c)
		}
		return c.Exec(op)
	}
	rest := append([]string{"chain"}, toks[1:]...)
	if ans := c.Exec(strings.Join(rest, " ")); ans != "ok" {
		return ans
	}
	base := c.S.Opts
	base.IsTrie = true
	c.S.Close()
	so := SysOpts{Cands: int(argI(toks, "cands", 4)), VotePeriod: int(argI(toks, "vp", 1)), Vals: 1}
	s, err := NewSysStack(base, so)
	if err != nil {
		c.S = nil
		return "err " + strings.ReplaceAll(err.Error(), " ", "_")
	}
	c.S = s
	sysLedgers[c] = &sysLedger{cands: so.Cands}
	return "ok"
}

func init() {
	ExtraOps["sblk"] = func(c *ChainExec, toks []string) (ans string) {
		sl := sysLedgers[c]
		if sl == nil {
			return "nosys"
		}
		defer func() {
			if r := recover(); r != nil {
				ans = strings.ReplaceAll(fmt.Sprintf("propose=panic:%v", r), " ", "_")
				if len(ans) > 160 {
					ans = ans[:160]
				}
			}
		}()
		s := c.S
		s.UseCache()
		cb := c.coin
		if k := argI(toks, "cb", -1); k >= 0 {
			cb = CandCoinbase(int(k))
		}
		// payee balances before the block (for `awards`)
		st := s.App.GetLatestStateDB()
		sl.prev = map[common.Address]*big.Int{}
		cbs, sups := AwardPayees(sl.cands)
		for _, a := range append(cbs, sups...) {
			sl.prev[a] = new(big.Int).Set(st.GetBalance(a))
		}
		h := s.App.Height() + 1
		b := s.App.CreateBlock(h, int(argI(toks, "max", 1000)), types.DefaultConsensusParams().BlockSize.MaxGas, 1507737600+h)
		if b == nil {
			return "propose=nil"
		}
		b.Header.Coinbase = cb
		b.Header.ChainID = sysChainID
		b.LastCommit = sysLastCommit(s)
		b.Header.LastCommitHash = b.LastCommit.Hash()
		b.Header.EvidenceHash = b.Evidence.Hash()
		s.App.PreRunBlock(b)
		w, err := Rewire(b)
		if err != nil {
			return "propose=rewire"
		}
		sl.prevH = h
		return c.finishBlock(w)
	}
	ExtraOps["sbal"] = func(c *ChainExec, toks []string) string {
		sl := sysLedgers[c]
		if sl == nil {
			return "nosys"
		}
		st := c.S.App.GetLatestStateDB()
		var as, ts, ps []string
		for _, a := range c.Accts {
			as = append(as, ToUnits(st.GetBalance(a.Addr)))
			ts = append(ts, ToUnits(st.GetTokenBalance(a.Addr, c.Tok)))
		}
		pool := new(big.Int)
		for _, w := range c.Wallets {
			var outs []string
			for _, o := range w.Outs {
				if !o.Spent && o.Token == c.LKC {
					outs = append(outs, ToUnits(o.Amount))
					pool.Add(pool, o.Amount)
				}
			}
			sort.Strings(outs)
			ps = append(ps, strings.Join(outs, "+"))
		}
		cbs, sups := AwardPayees(sl.cands)
		native, tok := c.WholeSupply()
		// fw= foundation, cb= coinbases, sup= supporters, supply= whole state + pool: all in WEI (awards are not whole units)
		return fmt.Sprintf("a=%s t=%s fw=%s cb=%s sup=%s w=%s pool=%s supply=%s toksupply=%s", strings.Join(as, ","), strings.Join(ts, ","),
			st.GetBalance(cfg.ContractFoundationAddr), weiList(st, cbs), weiList(st, sups), strings.Join(ps, "|"), ToUnits(pool), native, ToUnits(tok))
	}
	ExtraOps["awards"] = func(c *ChainExec, toks []string) string {
		sl := sysLedgers[c]
		if sl == nil || sl.prev == nil {
			return "nosys"
		}
		// the op line carries what the dry run saw the block pay; it must be what this execution's state shows
		got := c.AwardsLine()
		if want := strings.TrimSpace(strings.TrimPrefix(strings.Join(toks, " "), "awards")); want == got {
			return "ok"
		}
		return "stale got:" + got
	}
	ExtraOps["srecs"] = func(c *ChainExec, toks []string) string {
		sl := sysLedgers[c]
		if sl == nil {
			return "nosys"
		}
		return c.sysRecordsLine(uint64(argI(toks, "h", 0)), sl.cands)
	}
}

// AwardsLine renders what the block last committed by `sblk` paid the award payees: h=<h> cb=<wei,…> sup=<wei,…>.
func (c *ChainExec) AwardsLine() string {
	sl := sysLedgers[c]
	if sl == nil || sl.prev == nil {
		return ""
	}
	st := c.S.App.GetLatestStateDB()
	cbs, sups := AwardPayees(sl.cands)
	d := func(as []common.Address) string {
		var out []string
		for _, a := range as {
			out = append(out, new(big.Int).Sub(st.GetBalance(a), sl.prev[a]).String())
		}
		return strings.Join(out, ",")
	}
	return fmt.Sprintf("h=%d cb=%s sup=%s", sl.prevH, d(cbs), d(sups))
}

// AwardsOp renders the `awards` op line of the block last committed (for the dry run).
func (c *ChainExec) AwardsOp() string { return "awards " + c.AwardsLine() }

// sysRecordsLine nets the balance records of block h, in wei: a= accounts t= their token f= foundation cb= coinbases sup= supporters
// pl= pledge contract p= confidential pool other= every other address (summed) unk= records of another token.
func (c *ChainExec) sysRecordsLine(h uint64, cands int) string {
	bbr := c.S.BRS.Get(h)
	if bbr == nil {
		return "norecords"
	}
	net, tnet := map[common.Address]*big.Int{}, map[common.Address]*big.Int{}
	add := func(m map[common.Address]*big.Int, a common.Address, v *big.Int) {
		if m[a] == nil {
			m[a] = new(big.Int)
		}
		m[a].Add(m[a], v)
	}
	pool, mint := new(big.Int), new(big.Int)
	unk := 0
	for _, tr := range bbr.TxRecords {
		for _, r := range tr.Records {
			if r.Amount == nil {
				continue
			}
			tok := r.TokenID == c.Tok
			if !tok && r.TokenID != c.LKC {
				unk++
				continue
			}
			if r.Type == types.TxFee {
				tok = false // the fee of a token transaction is paid in the native coin (its record carries the token's id)
			}
			side := func(a common.Address, typ uint32, v *big.Int) {
				switch typ {
				case types.AccountAddress:
					if tok {
						add(tnet, a, v)
					} else {
						add(net, a, v)
					}
				case types.PrivateAddress:
					if !tok {
						pool.Add(pool, v)
					}
				default:
					mint.Sub(mint, v)
				}
			}
			side(r.From, r.FromAddressType, new(big.Int).Neg(r.Amount))
			side(r.To, r.ToAddressType, r.Amount)
		}
	}
	take := func(m map[common.Address]*big.Int, a common.Address) *big.Int {
		v := m[a]
		delete(m, a)
		if v == nil {
			return new(big.Int)
		}
		return v
	}
	var as, ts, cs, ss []string
	for _, a := range c.Accts {
		as = append(as, take(net, a.Addr).String())
		ts = append(ts, take(tnet, a.Addr).String())
	}
	cbs, sups := AwardPayees(cands)
	for _, a := range cbs {
		cs = append(cs, take(net, a).String())
	}
	for _, a := range sups {
		ss = append(ss, take(net, a).String())
	}
	f, pl := take(net, cfg.ContractFoundationAddr), take(net, cfg.ContractPledgeAddr)
	other := new(big.Int)
	for _, v := range net {
		other.Add(other, v)
	}
	return fmt.Sprintf("a=%s t=%s f=%s cb=%s sup=%s pl=%s p=%s other=%s mint=%s unk=%d", strings.Join(as, ","), strings.Join(ts, ","), f,
		strings.Join(cs, ","), strings.Join(ss, ","), pl, pool, other, mint, unk)
}
