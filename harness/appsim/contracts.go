package appsim

import (
	"encoding/binary"
	"fmt"

	cfg "github.com/lianxiangcloud/linkchain/config"
	"github.com/lianxiangcloud/linkchain/libs/common"
	"github.com/lianxiangcloud/linkchain/types"
)

// A tiny EVM assembler (labels resolved to PUSH2 targets) for the test contracts of the ledger harnesses.
type asm struct {
	b      []byte
	labels map[string]int
	fix    map[int]string
}

func newAsm() *asm { return &asm{labels: map[string]int{}, fix: map[int]string{}} }

func (a *asm) op(bs ...byte) *asm { a.b = append(a.b, bs...); return a }
func (a *asm) push(bs ...byte) *asm {
	a.b = append(a.b, byte(0x5f+len(bs)))
	a.b = append(a.b, bs...)
	return a
}
func (a *asm) ref(l string) *asm {
	a.b = append(a.b, 0x61)
	a.fix[len(a.b)] = l
	a.b = append(a.b, 0, 0)
	return a
}
func (a *asm) jumpi(l string) *asm { return a.ref(l).op(0x57) }
func (a *asm) label(l string) *asm { a.labels[l] = len(a.b); return a.op(0x5b) }
func (a *asm) bytes() []byte {
	out := append([]byte{}, a.b...)
	for at, l := range a.fix {
		binary.BigEndian.PutUint16(out[at:], uint16(a.labels[l]))
	}
	return out
}

const (
	opSTOP, opDIV, opEQ, opBYTE                  = 0x00, 0x04, 0x14, 0x1a
	opADDRESS, opBALANCE, opCALLVALUE, opCDLOAD  = 0x30, 0x31, 0x34, 0x35
	opCODECOPY, opPOP, opGAS                     = 0x39, 0x50, 0x5a
	opDUP1, opDUP6, opSWAP1                      = 0x80, 0x85, 0x90
	opCALL, opRETURN, opREVERT, opINVALID, opSD  = 0xf1, 0xf3, 0xfd, 0xfe, 0xff
	opCALLTOKADDR, opTRANSFERTOKEN, opCALLTOKVAL = 0xe2, 0xe3, 0xe4
)

// Mover ops (first calldata byte); bytes 1..20 of the calldata are the target address.
const (
	MvKeep       = 0 // keep whatever was sent
	MvForward    = 1 // CALL target with the whole call value (revert if the inner call fails)
	MvSuicide    = 2 // SELFDESTRUCT in favour of target
	MvTransfer   = 3 // TRANSFERTOKEN(target, native coin, call value)
	MvTransferTk = 4 // TRANSFERTOKEN(target, the transaction's token, the token value sent)
	MvFwdRevert  = 5 // forward, then REVERT: nothing may move
	MvFwdInvalid = 6 // forward, then an invalid opcode: nothing may move, all gas is burnt
	MvHalf       = 7 // forward half of the call value, keep the rest
	MvSweep      = 8 // TRANSFERTOKEN(target, native coin, the contract's whole balance)
)

// MoverAddr is the address of the value-moving test contract present at genesis when `chain ... code=2`.
var MoverAddr = common.HexToAddress("0x00000000000000000000000000000000c0de0002")

// BenAddrs are two addresses no key is known for and that do not exist at genesis (new-account paths).
var BenAddrs = []common.Address{common.HexToAddress("0x0000000000000000000000000000000000be0001"), common.HexToAddress("0x0000000000000000000000000000000000be0002")}

// MoverCode is the runtime code of the value-moving test contract.
var MoverCode = moverCode()

func moverCode() []byte {
	a := newAsm()
	// [addr] := calldataload(1) / 2^96 ; [addr, op] := byte 0 of calldataload(0)
	a.push(1).op(opCDLOAD).push(1, 0, 0, 0, 0, 0, 0, 0, 0, 0, 0, 0, 0).op(opSWAP1, opDIV)
	a.push(0).op(opCDLOAD).push(0).op(opBYTE)
	for _, k := range []byte{MvForward, MvSuicide, MvTransfer, MvTransferTk, MvFwdRevert, MvFwdInvalid, MvHalf, MvSweep} {
		a.op(opDUP1).push(k).op(opEQ).jumpi(fmt.Sprintf("op%d", k))
	}
	a.op(opSTOP)
	call := func(half bool) {
		// stack [addr]: CALL(gas, addr, value, 0, 0, 0, 0)
		a.push(0).push(0).push(0).push(0).op(opCALLVALUE)
		if half {
			a.push(2).op(opSWAP1, opDIV)
		}
		a.op(opDUP6, opGAS, opCALL)
	}
	a.label("op1").op(opPOP)
	call(false)
	a.jumpi("ok").push(0).push(0).op(opREVERT)
	a.label("ok").op(opSTOP)
	a.label("op2").op(opPOP, opSD)
	a.label("op3").op(opPOP).push(0).op(opCALLVALUE, opTRANSFERTOKEN, opSTOP)
	a.label("op4").op(opPOP).op(opCALLTOKADDR, opCALLTOKVAL, opTRANSFERTOKEN, opSTOP)
	a.label("op5").op(opPOP)
	call(false)
	a.push(0).push(0).op(opREVERT)
	a.label("op6").op(opPOP)
	call(false)
	a.op(opINVALID)
	a.label("op7").op(opPOP)
	call(true)
	a.jumpi("ok").push(0).push(0).op(opREVERT)
	a.label("op8").op(opPOP).push(0).op(opADDRESS, opBALANCE, opTRANSFERTOKEN, opSTOP)
	return a.bytes()
}

// InitCode returns contract-creation code of a kind:
//
//	ok       returns the Mover runtime code
//	empty    returns no code (an account without code holding the endowment)
//	revert   REVERT(0,0)
//	invalid  an invalid opcode (all gas burnt)
//	big      returns MaxCodeSize+1 bytes (refused: code too large, all gas burnt)
//	max      returns exactly MaxCodeSize bytes (code deposit 200 gas per byte)
//	json     the bytes `{"a":1}`: not "contract data" for the gas rule (third-party JSON payload), yet executed as init code
func InitCode(kind string) []byte {
	ret := func(n int) []byte { // RETURN(0, n) of fresh memory
		return newAsm().push(byte(n>>8), byte(n)).push(0).op(opRETURN).bytes()
	}
	switch kind {
	case "ok":
		rt := MoverCode
		a := newAsm()
		a.push(byte(len(rt)>>8), byte(len(rt))).ref("rt").push(0).op(opCODECOPY)
		a.push(byte(len(rt)>>8), byte(len(rt))).push(0).op(opRETURN)
		a.labels["rt"] = len(a.b)
		return append(a.bytes(), rt...)
	case "empty":
		return newAsm().op(opSTOP).bytes()
	case "revert":
		return newAsm().push(0).push(0).op(opREVERT).bytes()
	case "invalid":
		return newAsm().op(opINVALID).bytes()
	case "big":
		return ret(cfg.MaxCodeSize + 1)
	case "max":
		return ret(cfg.MaxCodeSize)
	case "json":
		return []byte(`{"a":1}`)
	}
	return nil
}

// CreateIntrinsicGas is the intrinsic gas of a creation transaction with the init code of a kind.
func CreateIntrinsicGas(kind string) uint64 {
	g, _ := types.IntrinsicGas(InitCode(kind), true, cfg.EvmGasRate)
	return g
}

// CreateDepositGas is the code-deposit gas of the code a successful creation of a kind stores.
func CreateDepositGas(kind string) uint64 {
	switch kind {
	case "ok":
		return uint64(len(MoverCode)) * cfg.CreateDataGas
	case "max":
		return uint64(cfg.MaxCodeSize) * cfg.CreateDataGas
	}
	return 0
}

// PlainTransferGas is the exact gas limit a transfer of v units to an address without code must carry.
func PlainTransferGas(v int64) uint64 { return types.CalNewAmountGas(units(v), types.EverLiankeFee) }

// MoverCallData is the calldata of a Mover call.
func MoverCallData(op byte, target common.Address) []byte {
	return append([]byte{op}, target.Bytes()...)
}

// MoverIntrinsicGas is the intrinsic gas of a Mover call.
func MoverIntrinsicGas(op byte, target common.Address) uint64 {
	g, _ := types.IntrinsicGas(MoverCallData(op, target), false, cfg.EvmGasRate)
	return g
}

// DecimalsCode is the runtime code of a token contract stand-in: answers every call with the 32-byte word 18
// (`decimals()`), which makes its address usable as a confidential token (commitment unit 10^10).
var DecimalsCode = newAsm().push(18).push(0).op(0x52).push(32).push(0).op(opRETURN).bytes()
