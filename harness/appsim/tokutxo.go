package appsim

// TOKEN confidential transactions (added by the ledger slice, C06 / C07; add-only: a new file, ops through ExtraOps, the
// `tokchain` op through ExecLedger).
//
//   tokchain <the arguments of `chain`> tokdec=<d>   the `chain` op, then the stack rebuilt with a token CONTRACT at the test
//        token's address whose decimals() answers d: the node derives the token's commitment unit from it (application
//        GetUTXOChangeRate <- types.RegisterUTXORateGetter): unit = 10^(d-8) for 8 <= d <= 26, 1 below.  d = 8 / 14 / 18 / 26
//        give 1 / 1e6 / 1e10 (the native one) / 1e18.
//   tain from= w= amount=<token units> nonce= [rem=<base units>]          account -> token pool (fee in the native coin)
//   tuu  w= in= to= amount=<token units> payer=<account>                  pool -> pool (+ change); the payer signs and pays the fee, NO nonce
//   tua  w= in= to=<account> amount=<token units> payer= [all=1] [rem=] [lie=1]   pool -> account (+ change)
//        lie=1: the account output is written with the NATIVE unit (amount = units x 1e10) while the commitment holds `units`
//   tbal                                                                   token buckets
// Token wallets have keys of their own (the native wallets never own a token output: their index space is untouched) and
// learn their outputs by scanning the committed blocks from the block store.

import (
	"fmt"
	"math/big"
	"sort"
	"strings"

	"github.com/lianxiangcloud/linkchain/libs/common"
	"github.com/lianxiangcloud/linkchain/types"
)

// DecimalsCodeFor: runtime code answering every call with the 32-byte word d.
func DecimalsCodeFor(d int) []byte {
	return newAsm().push(byte(d)).push(0).op(0x52).push(32).push(0).op(opRETURN).bytes()
}

// TokenUnit is the commitment unit the node derives from decimals d (types.UTXOChangeRateFromUint8).
func TokenUnit(d int) *big.Int {
	e := 0
	if d >= 8 {
		e = d - 8
	}
	return new(big.Int).Exp(big.NewInt(10), big.NewInt(int64(e)), nil)
}

type tokLedger struct {
	dec     int
	unit    *big.Int
	wallets []*Wallet
	scanned uint64
}

var tokLedgers = map[*ChainExec]*tokLedger{}

func (c *ChainExec) tokChain(toks []string) string {
	rest := append([]string{"chain"}, toks[1:]...)
	if ans := c.Exec(strings.Join(rest, " ")); ans != "ok" {
		return ans
	}
	d := int(argI(toks, "tokdec", 18))
	o := c.S.Opts
	code := map[common.Address][]byte{}
	for a, b := range o.Code {
		code[a] = b
	}
	code[c.Tok] = DecimalsCodeFor(d)
	o.Code = code
	c.S.Close()
	s, err := NewStack(o)
	if err != nil {
		c.S = nil
		return "err " + strings.ReplaceAll(err.Error(), " ", "_")
	}
	c.S = s
	tl := &tokLedger{dec: d, unit: TokenUnit(d)}
	for i := range c.Wallets {
		tl.wallets = append(tl.wallets, NewWallet(1000+i))
	}
	tokLedgers[c] = tl
	return "ok"
}

// scan brings the token wallets up to the committed height.
func (c *ChainExec) tokScan(tl *tokLedger) {
	for h := tl.scanned + 1; h <= c.S.App.Height(); h++ {
		b := c.S.BS.LoadBlock(h)
		if b == nil {
			break
		}
		for _, tx := range b.Data.Txs {
			u, ok := tx.(*types.UTXOTransaction)
			if !ok || u.TokenID != c.Tok {
				continue
			}
			for _, in := range u.Inputs {
				if ui, ok := in.(*types.UTXOInput); ok {
					for _, w := range tl.wallets {
						for _, o := range w.Outs {
							if o.Spent {
								continue
							}
							ephs, err := types.GenerateKeyImage(&w.Key, w.Idx, []*types.UTXOSourceEntry{o.Source()})
							if err == nil && len(ephs) == 1 && ephs[0].KeyImage == ui.KeyImage {
								o.Spent = true
							}
						}
					}
				}
			}
			for _, w := range tl.wallets {
				w.Scan(u, c.S.GlobalIndexer(u.TokenID))
			}
		}
		tl.scanned = h
	}
}

func (c *ChainExec) tokAmount(tl *tokLedger, toks []string) *big.Int {
	return new(big.Int).Mul(big.NewInt(argI(toks, "amount", 1)), tl.unit)
}

func init() {
	ExtraOps["tain"] = func(c *ChainExec, toks []string) string {
		tl := tokLedgers[c]
		if tl == nil {
			return "notok"
		}
		from, w := c.Accts[argI(toks, "from", 0)], tl.wallets[argI(toks, "w", 0)]
		amount := c.tokAmount(tl, toks)
		amount.Add(amount, big.NewInt(argI(toks, "rem", 0)))
		fee := c.fee(uint64(types.MinGasLimit))
		if f := argI(toks, "feeu", -1); f >= 0 {
			fee = units(f)
		}
		src := &types.AccountSourceEntry{From: from.Addr, Nonce: uint64(argI(toks, "nonce", 0)), Amount: new(big.Int).Set(amount)}
		tx, _, err := types.NewAinTokenTransaction(src, []types.DestEntry{w.Dest(amount)}, c.Tok, fee, nil)
		if err == nil {
			err = tx.Sign(types.GlobalSTDSigner, from.Key)
		}
		return c.admit("tain", tx, err)
	}
	spend := func(c *ChainExec, toks []string) string {
		tl := tokLedgers[c]
		if tl == nil {
			return "notok"
		}
		c.tokScan(tl)
		w := tl.wallets[argI(toks, "w", 0)]
		k := int(argI(toks, "in", 0))
		if k < 0 || k >= len(w.Outs) {
			return "noinput"
		}
		in := *w.Outs[k]
		payer := c.Accts[argI(toks, "payer", 0)]
		amount := c.tokAmount(tl, toks)
		var dests []types.DestEntry
		gas := c.S.App.GetUTXOGas()
		if toks[0] == "tuu" {
			change := new(big.Int).Sub(in.Amount, amount)
			if change.Sign() < 0 {
				return "build=funds"
			}
			dests = append(dests, tl.wallets[argI(toks, "to", 1)].Dest(amount))
			if change.Sign() > 0 {
				dests = append(dests, w.Dest(change))
			}
		} else {
			if argI(toks, "all", 0) == 1 {
				amount = new(big.Int).Set(in.Amount)
			}
			change := new(big.Int).Sub(in.Amount, amount)
			if change.Sign() < 0 {
				return "build=funds"
			}
			gas = uint64(types.MinGasLimit)
			out := new(big.Int).Set(amount)
			if rem := argI(toks, "rem", 0); rem != 0 && argI(toks, "lie", 0) != 1 {
				// an account output that is not a whole number of the TOKEN's units; the change gives the remainder up so that the
				// builder's own sum check passes
				out.Add(out, big.NewInt(rem))
				change.Sub(change, big.NewInt(rem))
			}
			if argI(toks, "lie", 0) == 1 {
				// everything is written in the NATIVE unit, as a wallet that ignores the token's unit would: h hidden units are spent,
				// the account output says h x 1e10 base units, the commitments hold h (and the change's hidden units)
				scale := func(v *big.Int) *big.Int { return new(big.Int).Mul(new(big.Int).Div(v, tl.unit), Unit) }
				in.Amount, out, change = scale(in.Amount), scale(amount), scale(change)
			}
			dests = append(dests, &types.AccountDestEntry{To: c.Accts[argI(toks, "to", 0)].Addr, Amount: out})
			if change.Sign() > 0 {
				dests = append(dests, w.Dest(change))
				gas += c.S.App.GetUTXOGas()
			}
		}
		if argI(toks, "lie", 0) == 1 {
			// build with a rate getter that answers the native unit for every token (what a wallet that ignores the token's unit
			// does), then give the node its own getter back
			types.RegisterUTXORateGetter(types.NewUTXOChangeRateGetter(func(common.Address) (int64, error) { return types.UTXO_COMMITMENT_CHANGE_RATE, nil }))
		}
		srcs := []*types.UTXOSourceEntry{in.Source()}
		tx, ephs, mkeys, _, err := types.NewUinTokenTransaction(&w.Key, w.Idx, srcs, dests, c.Tok, common.EmptyAddress, c.fee(gas), nil)
		if err == nil {
			err = tx.Sign(types.GlobalSTDSigner, payer.Key)
		}
		if err == nil {
			err = types.UInTransWithRctSig(tx, srcs, ephs, dests, mkeys)
		}
		if argI(toks, "lie", 0) == 1 {
			// the NODE judges with its own getter (restored BEFORE admission: the lie is the builder's, not the node's)
			types.RegisterUTXORateGetter(types.NewUTXOChangeRateGetter(c.S.App.GetUTXOChangeRate))
		}
		return c.admit(toks[0], tx, err)
	}
	ExtraOps["tuu"] = spend
	ExtraOps["tua"] = spend
	ExtraOps["tbal"] = func(c *ChainExec, toks []string) string {
		tl := tokLedgers[c]
		if tl == nil {
			return "notok"
		}
		c.tokScan(tl)
		st := c.S.App.GetLatestStateDB()
		var ts, ps []string
		total := new(big.Int)
		for _, a := range c.Accts {
			b := st.GetTokenBalance(a.Addr, c.Tok)
			ts = append(ts, ToUnits(b))
			total.Add(total, b)
		}
		for _, a := range []common.Address{common.EmptyAddress, ContractAddr, MoverAddr, c.Tok} {
			total.Add(total, st.GetTokenBalance(a, c.Tok))
		}
		pool := new(big.Int)
		for _, w := range tl.wallets {
			var outs []string
			for _, o := range w.Outs {
				if !o.Spent {
					// what the owner decodes is hidden units x the unit the NODE reports; the supply below uses the unit the chain was
					// BUILT with (tokdec), which does not depend on the node's answer
					h := new(big.Int).Div(o.Amount, tl.unit)
					outs = append(outs, h.String())
					pool.Add(pool, h)
				}
			}
			sort.Strings(outs)
			ps = append(ps, strings.Join(outs, "+"))
		}
		total.Add(total, new(big.Int).Mul(pool, tl.unit))
		// t= account token balances and toksupply= in units of 10^10 base units (as `bal`); tw= / tpool= in the token's own unit
		return fmt.Sprintf("t=%s tw=%s tpool=%s unit=%s toksupply=%s", strings.Join(ts, ","), strings.Join(ps, "|"), pool, tl.unit, ToUnits(total))
	}
}
