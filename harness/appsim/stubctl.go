package appsim

/*
void lvstub_seed(unsigned long long seed);
void lvstub_set_verify(int rct, int bp);
*/
import "C"

// SeedCrypto makes the stub library's key generation deterministic (0 = system randomness).
func SeedCrypto(seed uint64) { C.lvstub_seed(C.ulonglong(seed)) }

// SetVerify overrides the ideal functionality's verdicts (1 = follow the tags, 0 = reject, -1 = internal error).
func SetVerify(rct, bp int) { C.lvstub_set_verify(C.int(rct), C.int(bp)) }
