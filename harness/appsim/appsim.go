// Package appsim builds the real application stack (state, block store, utxo store, LinkApplication) on in-memory
// databases through exported API only, and drives blocks through the proposer path (CreateBlock + PreRunBlock) and the
// validator path (CheckBlock + CommitBlock).  Shared by the C05/C06/C07/C13/C15 harnesses.
package appsim

import (
	"crypto/ecdsa"
	"crypto/sha256"
	"fmt"
	"math/big"
	"os"
	"sort"
	"sync"

	"github.com/lianxiangcloud/linkchain/app"
	"github.com/lianxiangcloud/linkchain/blockchain"
	cfg "github.com/lianxiangcloud/linkchain/config"
	"github.com/lianxiangcloud/linkchain/libs/common"
	"github.com/lianxiangcloud/linkchain/libs/crypto"
	lktypes "github.com/lianxiangcloud/linkchain/libs/cryptonote/types"
	dbm "github.com/lianxiangcloud/linkchain/libs/db"
	"github.com/lianxiangcloud/linkchain/libs/log"
	"github.com/lianxiangcloud/linkchain/libs/ser"
	"github.com/lianxiangcloud/linkchain/libs/txmgr"
	"github.com/lianxiangcloud/linkchain/metrics"
	"github.com/lianxiangcloud/linkchain/state"
	"github.com/lianxiangcloud/linkchain/types"
	"github.com/lianxiangcloud/linkchain/utxo"
	"github.com/lianxiangcloud/linkchain/vm/wasm"
)

var initOnce sync.Once

func globalInit() {
	initOnce.Do(func() {
		log.Root().SetHandler(log.DiscardHandler())
		metrics.PrometheusMetricInstance.Init(cfg.DefaultConfig(), crypto.GenPrivKeyEd25519FromSecret([]byte("metrics")).PubKey(), log.NewNopLogger())
		types.RegisterUTXOTxData()
	})
}

// Account is a funded genesis account with a deterministic secp256k1 key.
type Account struct {
	Key  *ecdsa.PrivateKey
	Addr common.Address
}

// NewAccount derives account i deterministically.
func NewAccount(i int) *Account {
	h := sha256.Sum256([]byte(fmt.Sprintf("lv-account-%d", i)))
	k, err := crypto.ToECDSA(h[:])
	if err != nil {
		panic(err)
	}
	return &Account{Key: k, Addr: crypto.PubkeyToAddress(k.PublicKey)}
}

// SimpleMempool is a minimal types.Mempool: a list reaped in order, with the key-image cache the app expects.
type SimpleMempool struct {
	mtx    sync.Mutex
	Txs    types.Txs
	Cache  map[common.Hash]types.Tx
	images map[lktypes.Key]bool
}

func NewSimpleMempool() *SimpleMempool {
	return &SimpleMempool{Cache: map[common.Hash]types.Tx{}, images: map[lktypes.Key]bool{}}
}
func (m *SimpleMempool) Reap(maxTxs int) types.Txs {
	if maxTxs < 0 || maxTxs > len(m.Txs) {
		maxTxs = len(m.Txs)
	}
	return append(types.Txs{}, m.Txs[:maxTxs]...)
}
func (m *SimpleMempool) Update(height uint64, txs types.Txs) error {
	in := map[common.Hash]bool{}
	for _, tx := range txs {
		in[tx.Hash()] = true
	}
	var rest types.Txs
	for _, tx := range m.Txs {
		if !in[tx.Hash()] {
			rest = append(rest, tx)
		}
	}
	m.Txs = rest
	return nil
}
func (m *SimpleMempool) GetTxFromCache(h common.Hash) types.Tx { return m.Cache[h] }
func (m *SimpleMempool) Lock()                                 {}
func (m *SimpleMempool) Unlock()                               {}
func (m *SimpleMempool) KeyImageExists(k lktypes.Key) bool {
	m.mtx.Lock()
	defer m.mtx.Unlock()
	return m.images[k]
}
func (m *SimpleMempool) KeyImagePush(k lktypes.Key) bool {
	m.mtx.Lock()
	defer m.mtx.Unlock()
	if m.images[k] {
		return false
	}
	m.images[k] = true
	return true
}
func (m *SimpleMempool) KeyImageRemoveKeys(ks []*lktypes.Key) {
	m.mtx.Lock()
	defer m.mtx.Unlock()
	for _, k := range ks {
		delete(m.images, *k)
	}
}
func (m *SimpleMempool) KeyImageReset() {
	m.mtx.Lock()
	defer m.mtx.Unlock()
	m.images = map[lktypes.Key]bool{}
}

// Opts configures a stack.
type Opts struct {
	IsTrie   bool
	Accounts []*Account
	Balance  *big.Int
	// Tokens: token address -> balance given to every account
	Tokens map[common.Address]*big.Int
	// Code: contracts present at genesis
	Code map[common.Address][]byte
	// Wrap, if set, decorates every database (C13 crash injection); name identifies the store
	Wrap func(name string, db dbm.DB) dbm.DB
	// DBs, if set, re-opens a stack on existing databases (restart)
	DBs map[string]dbm.DB
	// Mempool, if nil a SimpleMempool is used
	Mempool func(a *app.LinkApplication) types.Mempool
	// PartSize of the part sets blocks are stored with (0 = the default of the consensus parameters)
	PartSize int
	// Records switches the application's own audit log of balance movements on (types.SaveBalanceRecord + an open
	// BalanceRecordStore); off by default, as in a node started without the option
	Records bool
}

func (o Opts) partSize() int {
	if o.PartSize > 0 {
		return o.PartSize
	}
	return types.DefaultConsensusParams().BlockGossip.BlockPartSizeBytes
}

// Stack is one node's application stack.
type Stack struct {
	Opts    Opts
	DBs     map[string]dbm.DB
	BS      *blockchain.BlockStore
	Utxo    *utxo.UtxoStore
	Cross   *txmgr.Service
	BRS     *blockchain.BalanceRecordStore
	App     *app.LinkApplication
	Mem     types.Mempool
	Simple  *SimpleMempool
	Bus     *types.EventBus
	Genesis common.Hash
}

var dbNames = []string{"state", "block", "cross", "utxo", "utxoOutput", "utxoToken", "balanceRecord"}

func poceed(w *wasm.WASM, coinbase common.Address, amount *big.Int, logger log.Logger) error {
	return nil
}

// NewStack builds (or re-opens) a stack.
func NewStack(o Opts) (*Stack, error) {
	globalInit()
	s := &Stack{Opts: o, DBs: map[string]dbm.DB{}}
	fresh := o.DBs == nil
	for _, n := range dbNames {
		if fresh {
			var d dbm.DB = dbm.NewMemDB()
			if o.Wrap != nil {
				d = o.Wrap(n, d)
			}
			s.DBs[n] = d
		} else {
			s.DBs[n] = o.DBs[n]
		}
	}
	s.BS = blockchain.NewBlockStore(s.DBs["block"])
	s.Cross = txmgr.NewCrossState(s.DBs["cross"], s.BS)
	s.BS.SetCrossState(s.Cross)
	s.Utxo = utxo.NewUtxoStore(s.DBs["utxo"], s.DBs["utxoOutput"], s.DBs["utxoToken"])
	s.Utxo.SetLogger(log.NewNopLogger())
	s.BRS = blockchain.NewBalanceRecordStore(s.DBs["balanceRecord"], o.Records)
	types.SaveBalanceRecord = o.Records
	if fresh {
		st, err := state.New(common.EmptyHash, state.NewKeyValueDBWithCache(s.DBs["state"], 128, o.IsTrie, 0))
		if err != nil {
			return nil, err
		}
		for _, a := range o.Accounts {
			st.AddBalance(a.Addr, o.Balance)
			var toks []common.Address
			for t := range o.Tokens {
				toks = append(toks, t)
			}
			sort.Slice(toks, func(i, j int) bool { return toks[i].Hex() < toks[j].Hex() })
			for _, t := range toks {
				st.AddTokenBalance(a.Addr, t, o.Tokens[t])
			}
		}
		var cs []common.Address
		for c := range o.Code {
			cs = append(cs, c)
		}
		sort.Slice(cs, func(i, j int) bool { return cs[i].Hex() < cs[j].Hex() })
		for _, c := range cs {
			st.SetCode(c, o.Code[c])
		}
		stateHash := st.IntermediateRoot(false)
		root, err := st.Commit(false, 0)
		if err != nil {
			return nil, err
		}
		st.Database().TrieDB().Commit(root, false)
		block := &types.Block{
			Header: &types.Header{Height: 0, Time: 1507737600, GasLimit: types.DefaultConsensusParams().BlockSize.MaxGas, StateHash: stateHash},
			Data:   &types.Data{}, LastCommit: &types.Commit{},
		}
		parts := block.MakePartSet(o.partSize())
		s.BS.SaveBlock(block, parts, nil, nil, &types.TxsResult{TrieRoot: root, StateHash: stateHash})
		s.Genesis = block.Hash()
	}
	s.Bus = types.NewEventBus()
	s.Bus.SetLogger(log.NewNopLogger())
	s.Bus.Start()
	a, err := app.NewLinkApplication(s.DBs["state"], s.BS, s.Utxo, s.Cross, s.Bus, o.IsTrie, s.BRS, poceed, nil)
	if err != nil {
		return nil, err
	}
	s.App = a
	if os.Getenv("LVDEBUG") != "" {
		l := log.New()
		l.SetHandler(log.LvlFilterHandler(log.LvlWarn, log.StreamHandler(os.Stderr, log.TerminalFormat(false))))
		a.SetLogger(l)
	}
	if o.Mempool != nil {
		s.Mem = o.Mempool(a)
	} else {
		s.Simple = NewSimpleMempool()
		s.Mem = s.Simple
	}
	a.SetMempool(s.Mem)
	return s, nil
}

func (s *Stack) Close() { s.Bus.Stop() }

// Admit runs the two admission checks of the mempool on tx and, if both pass, queues it in the simple mempool.
func (s *Stack) Admit(tx types.Tx) error {
	if err := s.App.CheckTx(tx, true); err != nil {
		return err
	}
	if err := s.App.CheckTx(tx, false); err != nil {
		return err
	}
	if s.Simple != nil {
		s.Simple.Txs = append(s.Simple.Txs, tx)
		s.Simple.Cache[tx.Hash()] = tx
	}
	return nil
}

// Propose builds the next block from the mempool (proposer path): CreateBlock + PreRunBlock.
func (s *Stack) Propose(coinbase common.Address, maxTxs int) (b *types.Block, err error) {
	defer func() {
		if r := recover(); r != nil {
			err = fmt.Errorf("panic: %v", r)
		}
	}()
	h := s.App.Height() + 1
	b = s.App.CreateBlock(h, maxTxs, types.DefaultConsensusParams().BlockSize.MaxGas, 1507737600+h)
	if b == nil {
		return nil, fmt.Errorf("CreateBlock returned nil")
	}
	b.Header.Coinbase = coinbase
	b.Header.ChainID = "verif-chain"
	b.LastCommit = &types.Commit{}
	b.Header.LastCommitHash = b.LastCommit.Hash()
	b.Header.EvidenceHash = b.Evidence.Hash()
	s.App.PreRunBlock(b)
	return Rewire(b)
}

// Rewire returns the block as every node (the proposer included) sees it: decoded from its wire bytes.  The consensus
// state machine never keeps the object PreRunBlock worked on — it cuts it into parts and decodes the parts again — and that
// object carries a block hash cached (by a log call inside processBlock) before the execution results were written to its header.
func Rewire(b *types.Block) (*types.Block, error) {
	bz, err := ser.EncodeToBytes(b)
	if err != nil {
		return nil, err
	}
	var nb *types.Block
	if err := ser.DecodeBytes(bz, &nb); err != nil {
		return nil, err
	}
	return nb, nil
}

// BlockOf builds a block with exactly txs (bypassing the mempool), header filled by PreRunBlock of THIS stack.
func (s *Stack) BlockOf(coinbase common.Address, txs types.Txs) (b *types.Block, err error) {
	defer func() {
		if r := recover(); r != nil {
			err = fmt.Errorf("panic: %v", r)
		}
	}()
	cur := s.App.Block()
	h := cur.Height + 1
	last, _ := s.BS.LoadTxsResult(cur.Height)
	b = &types.Block{
		Header: &types.Header{Height: h, Time: 1507737600 + h, NumTxs: uint64(len(txs)), TotalTxs: cur.TotalTxs + uint64(len(txs)), ParentHash: cur.Hash(),
			StateHash: last.StateHash, ReceiptHash: last.ReceiptHash, GasLimit: types.DefaultConsensusParams().BlockSize.MaxGas, GasUsed: last.GasUsed,
			Coinbase: coinbase, ChainID: "verif-chain"},
		Data:       &types.Data{Txs: txs},
		LastCommit: &types.Commit{},
	}
	b.Header.DataHash = b.Data.Hash()
	b.Header.LastCommitHash = b.LastCommit.Hash()
	b.Header.EvidenceHash = b.Evidence.Hash()
	s.App.PreRunBlock(b)
	return Rewire(b)
}

// Validate runs the validator path check.
func (s *Stack) Validate(b *types.Block) (ok bool, err error) {
	defer func() {
		if r := recover(); r != nil {
			err = fmt.Errorf("panic: %v", r)
		}
	}()
	return s.App.CheckBlock(b), nil
}

// Commit commits a block that passed Validate on this stack.
func (s *Stack) Commit(b *types.Block) (err error) {
	defer func() {
		if r := recover(); r != nil {
			err = fmt.Errorf("panic: %v", r)
		}
	}()
	parts := b.MakePartSet(s.Opts.partSize())
	_, err = s.App.CommitBlock(b, parts, &types.Commit{BlockID: types.BlockID{Hash: b.Hash(), PartsHeader: parts.Header()}}, false)
	return err
}

// Result returns the stored execution result of a height.
func (s *Stack) Result(h uint64) *types.TxsResult {
	r, _ := s.BS.LoadTxsResult(h)
	return r
}
