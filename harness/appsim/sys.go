package appsim

// The REAL genesis of a linkchain node and the WASM side of the application (added by the C05 slice; add-only).
//
//   - SysGenesis deploys the eight WASM system contracts the way cmd/commands/init.go:deployOriginalContract +
//     initWasmContract do (state object with the embedded code of contract/contractcodes, then the contract's own `init`
//     through the tc-wasm engine), registers candidates through the contracts' own entry points (pledge.participate,
//     pledge.setElectorStatus, candidates.SetCandidate, coefficient.updateVotePeriod) with app.CallWasmContract — the
//     function the online genesis replays its contract data with — and deploys WASM test contracts of vm/wasm/wasm-run.
//   - NewSysStack is NewStack with that genesis and with the handles a node passes (node/node.go): app.SetPoceeds,
//     app.AllocAward, a connection manager (getAllCandidates calls it on every election).
//   - every stack owns its tc-wasm application cache (vm.AppCache is a process global keyed by contract ADDRESS; replicas of
//     one chain in one process would otherwise share what in a network is per node): UseCache swaps it in.
//   - ops for transactions that reach the WASM VM and the special-transaction lane, registered through ExtraOps.

import (
	"encoding/binary"
	"fmt"
	"math/big"
	"os"
	"path/filepath"
	"reflect"
	"sort"
	"strings"
	"sync"
	"unsafe"

	"github.com/lianxiangcloud/linkchain/app"
	"github.com/lianxiangcloud/linkchain/blockchain"
	cfg "github.com/lianxiangcloud/linkchain/config"
	cc "github.com/lianxiangcloud/linkchain/contract/contractcodes"
	"github.com/lianxiangcloud/linkchain/libs/common"
	"github.com/lianxiangcloud/linkchain/libs/crypto"
	dbm "github.com/lianxiangcloud/linkchain/libs/db"
	"github.com/lianxiangcloud/linkchain/libs/log"
	"github.com/lianxiangcloud/linkchain/libs/p2p"
	"github.com/lianxiangcloud/linkchain/libs/txmgr"
	"github.com/lianxiangcloud/linkchain/state"
	"github.com/lianxiangcloud/linkchain/types"
	"github.com/lianxiangcloud/linkchain/utxo"
	"github.com/lianxiangcloud/linkchain/vm/evm"
	"github.com/lianxiangcloud/linkchain/vm/wasm"
	"github.com/xunleichain/tc-wasm/vm"
)

// SysOpts configures the system-contract genesis.
type SysOpts struct {
	Cands      int      // candidates registered at genesis (each: pledge 5e6 coins, status win-out, SetCandidate with score 100+i)
	VotePeriod int      // coefficient.updateVotePeriod at genesis (0 = the contract's 1321)
	Wasm       []string // WASM test contracts of vm/wasm/wasm-run deployed at genesis (address WasmAddr(name))
	Vals       int      // validators whose signatures make a MultiSignAccountTx (SetLastChangedVals), keys ValKey(i)
}

// the accounts the committee contract's Init gives the rights to (contract/v1/committee/committee.cpp)
var (
	InnerBoss  = common.HexToAddress("0x0fd0eb798571a75ee2bd655bd9d26a30e49391ba") // validators, candidates, coefficient, blacklist
	PledgeBoss = common.HexToAddress("0x60d4d088ad5cd7f93024eedf8d58a1b226b65138") // pledge status
	WinAmount  = new(big.Int).Mul(big.NewInt(5000000), big.NewInt(1e18))
)

// CandKey is the consensus key of candidate i; CandCoinbase its coinbase.
func CandKey(i int) crypto.PrivKeyEd25519 {
	return crypto.GenPrivKeyEd25519FromSecret([]byte(fmt.Sprintf("lv-cand-%d", i)))
}
func CandCoinbase(i int) common.Address {
	return common.BytesToAddress([]byte{0xcb, 0x05, byte(i + 1)})
}

// ValKey is the consensus key of validator i of the set the special-transaction lane verifies against.
func ValKey(i int) crypto.PrivKeyEd25519 {
	return crypto.GenPrivKeyEd25519FromSecret([]byte(fmt.Sprintf("lv-sysval-%d", i)))
}

// SysPV signs with a fixed ed25519 key (types.PrivValidator as far as transactions and votes need it).
type SysPV struct {
	types.PrivValidator
	Key crypto.PrivKeyEd25519
}

func (p SysPV) GetAddress() crypto.Address { return p.Key.PubKey().Address() }
func (p SysPV) GetPubKey() crypto.PubKey   { return p.Key.PubKey() }
func (p SysPV) SignData(data []byte) ([]byte, error) {
	sig, err := p.Key.Sign(data)
	if err != nil {
		return nil, err
	}
	return sig.Bytes(), nil
}
func (p SysPV) SignVote(chainID string, v *types.Vote) error {
	sig, err := p.Key.Sign(v.SignBytes(chainID))
	v.Signature = sig
	return err
}

// SysContracts: the inner contracts in the order deployOriginalContract deploys them.
var SysContracts = []struct {
	Name string
	Addr common.Address
	Code func() string
}{
	{"candidates", cfg.ContractCandidatesAddr, func() string { return cc.CandidatesCodes }},
	{"coefficient", cfg.ContractCoefficientAddr, func() string { return cc.CoefficientCodes }},
	{"committee", cfg.ContractCommitteeAddr, func() string { return cc.CommitteeCodes }},
	{"foundation", cfg.ContractFoundationAddr, func() string { return cc.FoundationCodes }},
	{"pledge", cfg.ContractPledgeAddr, func() string { return cc.PledgeCodes }},
	{"consCommittee", cfg.ContractConsCommitteeAddr, func() string { return cc.ConsCommitteeCodes }},
	{"blacklist", cfg.ContractBlacklistAddr, func() string { return cc.BlacklistCode }},
	// the tree embeds no offline validators contract (ValidatorsCodes == ""): the online one, as `init --on_line` deploys
	{"validators", cfg.ContractValidatorsAddr, func() string { return cc.ValidatorsCodesOnline }},
}

// SysAddr resolves an inner contract by name.
func SysAddr(name string) (common.Address, bool) {
	for _, s := range SysContracts {
		if s.Name == name {
			return s.Addr, true
		}
	}
	return common.Address{}, false
}

func repoDir() string {
	if d := os.Getenv("VERIF_REPO"); d != "" {
		return d
	}
	return "/repo"
}

var wasmFiles sync.Map

// WasmCode reads a compiled contract of the repository: a name of vm/wasm/wasm-run (without .wasm), or a path relative to
// the repository root ending in .wasm (contract/v2/pledge/output.wasm).
func WasmCode(name string) []byte {
	if b, ok := wasmFiles.Load(name); ok {
		return b.([]byte)
	}
	p := filepath.Join(repoDir(), "vm", "wasm", "wasm-run", name+".wasm")
	if strings.HasSuffix(name, ".wasm") {
		p = filepath.Join(repoDir(), name)
	}
	b, err := os.ReadFile(p)
	if err != nil {
		return nil
	}
	wasmFiles.Store(name, b)
	return b
}

// WasmAddr is the genesis address of a WASM test contract.
func WasmAddr(name string) common.Address {
	return common.BytesToAddress(append([]byte{0x77, 0x61}, crypto.Keccak256([]byte(name))[:10]...))
}

// initWasmContract of cmd/commands/init.go (package main-adjacent, not importable without the node): the same statements.
func initWasmContract(st *state.StateDB, contractAddr common.Address, code []byte) error {
	st.CreateAccount(contractAddr)
	st.SetNonce(contractAddr, 1)
	st.SetCode(contractAddr, code)
	ic := vm.NewContract(common.EmptyAddress.Bytes(), contractAddr.Bytes(), big.NewInt(0), uint64(1000000000000000000))
	ic.SetCallCode(contractAddr.Bytes(), crypto.Keccak256Hash(code).Bytes(), code)
	ic.Input = []byte("init|{}")
	ic.CreateCall = true
	eng := vm.NewEngine(ic, ic.Gas, st, log.NewNopLogger())
	eng.SetTrace(false)
	a, err := eng.NewApp(ic.Address().String(), ic.Code, false)
	if err != nil {
		return fmt.Errorf("exec.NewApp fail: %s", err)
	}
	a.EntryFunc = vm.APPEntry
	ret, err := eng.Run(a, ic.Input)
	if err != nil {
		return fmt.Errorf("eng.Run fail: err=%s", err)
	}
	_, err = a.VM.VMemory().GetString(ret)
	return err
}

// SysGenesis writes the system-contract genesis into st.
func SysGenesis(st *state.StateDB, so SysOpts) error {
	for _, s := range SysContracts {
		if err := initWasmContract(st, s.Addr, common.Hex2Bytes(s.Code())); err != nil {
			return fmt.Errorf("deploy %s: %v", s.Name, err)
		}
	}
	hdr := &types.Header{Height: 0, Time: 1507737600, GasLimit: types.DefaultConsensusParams().BlockSize.MaxGas}
	w := wasm.NewWASM(wasm.NewWASMContext(hdr, nil, nil, cfg.WasmGasRate), st, evm.Config{EnablePreimageRecording: false})
	lg := log.NewNopLogger()
	call := func(sender, to common.Address, amount *big.Int, input string) error {
		if _, err := app.CallWasmContract(w, sender, to, amount, []byte(input), lg); err != nil {
			return fmt.Errorf("%s: %v", strings.SplitN(input, "|", 2)[0], err)
		}
		return nil
	}
	for i := 0; i < so.Cands; i++ {
		cb := CandCoinbase(i)
		// the pledge contract books the deposit it is told about; the coins are put there too (the online genesis moves the
		// old pledge account's balance in checkPledgeAccount)
		st.AddBalance(cfg.ContractPledgeAddr, WinAmount)
		if err := call(cb, cfg.ContractPledgeAddr, WinAmount, fmt.Sprintf(`participate|{"0":"%s","1":"%s","2":%d,"3":%d}`, cb.String(), WinAmount.String(), i, 90-10*(i%3))); err != nil {
			return err
		}
		// a supporter's deposit while the elector collects (status 3), different per candidate: the deposits the election ranks by differ
		if err := call(PledgeBoss, cfg.ContractPledgeAddr, big.NewInt(0), fmt.Sprintf(`setElectorStatus|{"0":"%s","1":3}`, cb.String())); err != nil {
			return err
		}
		dep := new(big.Int).Mul(big.NewInt(int64(10000*(1+(i*7)%5))), big.NewInt(1e18))
		sup := common.BytesToAddress([]byte{0x5b, 0x05, byte(i + 1)})
		st.AddBalance(cfg.ContractPledgeAddr, dep)
		if err := call(sup, cfg.ContractPledgeAddr, dep, fmt.Sprintf(`deposit|{"0":"%s","1":"%s","2":%d}`, cb.String(), dep.String(), 100+i)); err != nil {
			return err
		}
		if err := call(PledgeBoss, cfg.ContractPledgeAddr, big.NewInt(0), fmt.Sprintf(`setElectorStatus|{"0":"%s","1":4}`, cb.String())); err != nil {
			return err
		}
		if err := call(InnerBoss, cfg.ContractCandidatesAddr, big.NewInt(0), fmt.Sprintf(`SetCandidate|{"0":{"pub_key":"0x%s","coinbase":"%s","voting_power":%d,"score":%d,"punish_height":0}}`,
			common.Bytes2Hex(CandKey(i).PubKey().Bytes()), cb.String(), 10+i, 100+i)); err != nil {
			return err
		}
	}
	if so.VotePeriod > 0 {
		if err := call(InnerBoss, cfg.ContractCoefficientAddr, big.NewInt(0), fmt.Sprintf(`updateVotePeriod|{"0":%d}`, so.VotePeriod)); err != nil {
			return err
		}
	}
	for _, name := range so.Wasm {
		code := WasmCode(name)
		if code == nil {
			return fmt.Errorf("no wasm file %s", name)
		}
		a := WasmAddr(name)
		st.CreateAccount(a)
		st.SetNonce(a, 1)
		st.SetCode(a, code)
	}
	types.BlockBalanceRecordsInstance.Reset()
	return nil
}

// conManager: a connection manager whose only usable part is its logger — all LinkApplication.getAllCandidates needs
// (SetCandidate returns at once on a node that is neither peer nor validator).  Its fields are unexported and its
// constructor wants a switch with a discovery table; the logger is set through its address.
func conManager() *p2p.ConManager {
	cm := &p2p.ConManager{}
	f := reflect.ValueOf(cm).Elem().FieldByName("logger")
	reflect.NewAt(f.Type(), unsafe.Pointer(f.UnsafeAddr())).Elem().Set(reflect.ValueOf(log.NewNopLogger()))
	return cm
}

var stackCaches sync.Map // *Stack -> *sync.Map (the stack's tc-wasm application cache)

// UseCache makes the tc-wasm application cache of stack s the process's current one (call before every entry into s).
func (s *Stack) UseCache() {
	c, _ := stackCaches.LoadOrStore(s, new(sync.Map))
	vm.AppCache = c.(*sync.Map)
}

// DropCache forgets the application cache of s (what a restart of the node does).
func (s *Stack) DropCache() { stackCaches.Delete(s) }

// NewSysStack builds (or, with o.DBs, re-opens) a stack whose genesis carries the system contracts and whose application has
// the handles and the connection manager a node gives it.
func NewSysStack(o Opts, so SysOpts) (*Stack, error) {
	globalInit()
	s := &Stack{Opts: o, DBs: map[string]dbm.DB{}}
	fresh := o.DBs == nil
	for _, n := range dbNames {
		if fresh {
			var d dbm.DB = dbm.NewMemDB()
			if o.Wrap != nil {
				d = o.Wrap(n, d)
			}
			s.DBs[n] = d
		} else {
			s.DBs[n] = o.DBs[n]
		}
	}
	s.UseCache()
	s.BS = blockchain.NewBlockStore(s.DBs["block"])
	s.Cross = txmgr.NewCrossState(s.DBs["cross"], s.BS)
	s.BS.SetCrossState(s.Cross)
	s.Utxo = utxo.NewUtxoStore(s.DBs["utxo"], s.DBs["utxoOutput"], s.DBs["utxoToken"])
	s.Utxo.SetLogger(log.NewNopLogger())
	s.BRS = blockchain.NewBalanceRecordStore(s.DBs["balanceRecord"], o.Records)
	types.SaveBalanceRecord = o.Records
	if fresh {
		st, err := state.New(common.EmptyHash, state.NewKeyValueDBWithCache(s.DBs["state"], 128, o.IsTrie, 0))
		if err != nil {
			return nil, err
		}
		for _, a := range o.Accounts {
			st.AddBalance(a.Addr, o.Balance)
			var toks []common.Address
			for t := range o.Tokens {
				toks = append(toks, t)
			}
			sort.Slice(toks, func(i, j int) bool { return toks[i].Hex() < toks[j].Hex() })
			for _, t := range toks {
				st.AddTokenBalance(a.Addr, t, o.Tokens[t])
			}
		}
		var cs []common.Address
		for c := range o.Code {
			cs = append(cs, c)
		}
		sort.Slice(cs, func(i, j int) bool { return cs[i].Hex() < cs[j].Hex() })
		for _, c := range cs {
			st.SetCode(c, o.Code[c])
		}
		if err := SysGenesis(st, so); err != nil {
			return nil, err
		}
		stateHash := st.IntermediateRoot(false)
		root, err := st.Commit(false, 0)
		if err != nil {
			return nil, err
		}
		st.Database().TrieDB().Commit(root, false)
		block := &types.Block{
			Header: &types.Header{Height: 0, Time: 1507737600, GasLimit: types.DefaultConsensusParams().BlockSize.MaxGas, StateHash: stateHash},
			Data:   &types.Data{}, LastCommit: &types.Commit{},
		}
		parts := block.MakePartSet(o.partSize())
		s.BS.SaveBlock(block, parts, nil, nil, &types.TxsResult{TrieRoot: root, StateHash: stateHash})
		s.Genesis = block.Hash()
	}
	s.Bus = types.NewEventBus()
	s.Bus.SetLogger(log.NewNopLogger())
	s.Bus.Start()
	a, err := app.NewLinkApplication(s.DBs["state"], s.BS, s.Utxo, s.Cross, s.Bus, o.IsTrie, s.BRS, app.SetPoceeds, app.AllocAward)
	if err != nil {
		return nil, err
	}
	s.App = a
	a.SetConm(conManager())
	if so.Vals > 0 {
		var vals []*types.Validator
		for i := 0; i < so.Vals; i++ {
			pk := ValKey(i).PubKey()
			vals = append(vals, &types.Validator{Address: pk.Address(), PubKey: pk, VotingPower: 10})
		}
		a.SetLastChangedVals(0, vals)
	}
	if os.Getenv("LVDEBUG") != "" {
		l := log.New()
		l.SetHandler(log.LvlFilterHandler(log.LvlWarn, log.StreamHandler(os.Stderr, log.TerminalFormat(false))))
		a.SetLogger(l)
	}
	s.Simple = NewSimpleMempool()
	s.Mem = s.Simple
	a.SetMempool(s.Mem)
	return s, nil
}

// WasmCreateData is the payload of a creation transaction: the code, optionally preceded (after the magic) by "XLTC" + a
// two-byte big-endian length + the Init arguments (tc-wasm ParseInitArgsAndCode).
func WasmCreateData(code []byte, initArgs string) []byte {
	if initArgs == "" {
		return code
	}
	out := append([]byte{}, code[:4]...)
	out = append(out, []byte("XLTC")...)
	var l [2]byte
	binary.BigEndian.PutUint16(l[:], uint16(len(initArgs)))
	out = append(out, l[:]...)
	out = append(out, []byte(initArgs)...)
	return append(out, code...)
}

// wasmTarget resolves g:<name> (genesis test contract), s:<name> (inner contract), c<j> (j-th create target), a<i>, b<k>.
func (c *ChainExec) wasmTarget(s string) (common.Address, bool) {
	switch {
	case strings.HasPrefix(s, "g:"):
		return WasmAddr(s[2:]), true
	case strings.HasPrefix(s, "s:"):
		return SysAddr(s[2:])
	}
	return c.target(s)
}

// inputOf: in=<text without blanks> or inx=<hex>; `~` in in= stands for a blank.
func inputOf(toks []string) []byte {
	if x := argS(toks, "inx"); x != "" {
		return common.FromHex(x)
	}
	return []byte(strings.ReplaceAll(argS(toks, "in"), "~", " "))
}

func init() {
	// wcreate from= nonce= code=<wasm-run name | path.wasm> [args=<init args>] [value=] [gas=]: creation transaction carrying WASM code
	ExtraOps["wcreate"] = func(c *ChainExec, toks []string) string {
		from := c.Accts[argI(toks, "from", 0)]
		code := WasmCode(argS(toks, "code"))
		if code == nil {
			return "bad-code"
		}
		if n := int(argI(toks, "cut", 0)); n > 0 && n < len(code) { // a truncated module: the engine must refuse it the same way everywhere
			code = code[:len(code)-n]
		}
		data := WasmCreateData(code, strings.ReplaceAll(argS(toks, "args"), "~", " "))
		nonce := uint64(argI(toks, "nonce", 0))
		tx := types.NewContractCreation(nonce, units(argI(toks, "value", 0)), uint64(argI(toks, "gas", 20000000)), gasPrice(toks), data)
		err := tx.Sign(types.GlobalSTDSigner, from.Key)
		if addr := crypto.CreateAddress(from.Addr, nonce, code); !containsAddr(c.Created, addr) {
			c.Created = append(c.Created, addr)
		}
		return c.admit("wcreate", tx, err)
	}
	// wcall from= nonce= to=<g:name|s:name|c<j>> in=<method|{json}> [value=] [gas=] [tok=1]: call of a WASM contract
	ExtraOps["wcall"] = func(c *ChainExec, toks []string) string {
		from := c.Accts[argI(toks, "from", 0)]
		to, ok := c.wasmTarget(argS(toks, "to"))
		if !ok {
			return "bad-target"
		}
		nonce, gas := uint64(argI(toks, "nonce", 0)), uint64(argI(toks, "gas", 5000000))
		if argI(toks, "tok", 0) == 1 {
			tx := types.NewTokenTransaction(c.Tok, nonce, to, units(argI(toks, "value", 0)), gas, gasPrice(toks), inputOf(toks))
			err := tx.Sign(types.GlobalSTDSigner, from.Key)
			return c.admit("wcall", tx, err)
		}
		tx, err := pricedTx(nonce, to, units(argI(toks, "value", 0)), gas, gasPrice(toks), inputOf(toks))
		if err == nil {
			err = tx.Sign(types.GlobalSTDSigner, from.Key)
		}
		return c.admit("wcall", tx, err)
	}
	// msigx nonce= type=create|vals sigs=<k> signers=<account indices> min=<power>: MultiSignAccountTx signed by the first k validators;
	// its signers (type=create) are the accounts that may then sign contract upgrades
	ExtraOps["msigx"] = func(c *ChainExec, toks []string) string {
		typ := types.TxContractCreateType
		if argS(toks, "type") == "vals" {
			typ = types.TxUpdateValidatorsType
		}
		info := &types.MultiSignMainInfo{AccountNonce: uint64(argI(toks, "nonce", 0)), SupportTxType: typ,
			SignersInfo: types.SignersInfo{MinSignerPower: int32(argI(toks, "min", 20))}}
		for _, x := range strings.Split(argS(toks, "signers"), ",") {
			var i int
			if _, err := fmt.Sscan(x, &i); err == nil && i >= 0 && i < len(c.Accts) {
				info.Signers = append(info.Signers, &types.SignerEntry{Power: 10, Addr: c.Accts[i].Addr})
			}
		}
		tx := types.NewMultiSignAccountTx(info, nil)
		var err error
		for i := 0; i < int(argI(toks, "sigs", 3)) && err == nil; i++ {
			err = tx.Sign(SysPV{Key: ValKey(i)})
		}
		return c.admit("msigx", tx, err)
	}
	// upg from=<account> nonce= target=<inner contract> code=<wasm-run name | path.wasm | self> by=<account indices>: ContractUpgradeTx
	ExtraOps["upg"] = func(c *ChainExec, toks []string) string {
		from := c.Accts[argI(toks, "from", 0)]
		to, ok := SysAddr(argS(toks, "target"))
		if !ok {
			return "bad-target"
		}
		var code []byte
		if argS(toks, "code") == "self" {
			for _, s := range SysContracts {
				if s.Addr == to {
					code = common.Hex2Bytes(s.Code())
				}
			}
		} else {
			code = WasmCode(argS(toks, "code"))
		}
		if code == nil {
			return "bad-code"
		}
		tx := types.UpgradeContractTx(&types.ContractUpgradeMainInfo{FromAddr: from.Addr, Recipient: to, AccountNonce: uint64(argI(toks, "nonce", 0)), Payload: code}, nil)
		var err error
		for _, x := range strings.Split(argS(toks, "by"), ",") {
			var i int
			if _, e := fmt.Sscan(x, &i); e == nil && i >= 0 && i < len(c.Accts) && err == nil {
				err = tx.Sign(types.GlobalSTDSigner, c.Accts[i].Key)
			}
		}
		return c.admit("upg", tx, err)
	}
}

// FinishBlock validates and commits b on the main stack, scans it with the wallets and calls AfterCommit (what the `block` op
// does with the block it proposed), for harnesses that build their blocks themselves.
func (c *ChainExec) FinishBlock(b *types.Block) string { return c.finishBlock(b) }
