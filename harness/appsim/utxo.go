package appsim

import (
	"bytes"
	"crypto/sha256"
	"fmt"
	"math/big"

	"github.com/lianxiangcloud/linkchain/libs/common"
	lktypes "github.com/lianxiangcloud/linkchain/libs/cryptonote/types"
	"github.com/lianxiangcloud/linkchain/libs/cryptonote/xcrypto"
	"github.com/lianxiangcloud/linkchain/types"
)

// Wallet is a confidential-layer account (view + spend key pair) with the outputs it owns.
type Wallet struct {
	Key  lktypes.AccountKey
	Idx  map[lktypes.PublicKey]uint64
	Outs []*OwnedOut
}

// OwnedOut is an unspent (or spent) confidential output as its owner sees it.
type OwnedOut struct {
	Token    common.Address
	Global   uint64 // index in the chain's output sequence of that token
	OTAddr   lktypes.Key
	Commit   lktypes.Key
	RKey     lktypes.PublicKey
	OutIndex uint64
	Amount   *big.Int
	Mask     lktypes.Key
	Spent    bool
}

func NewWallet(i int) *Wallet {
	h1 := sha256.Sum256([]byte(fmt.Sprintf("lv-wallet-spend-%d", i)))
	h2 := sha256.Sum256([]byte(fmt.Sprintf("lv-wallet-view-%d", i)))
	var w Wallet
	ssec, spub := xcrypto.GenerateKeys(lktypes.SecretKey(h1))
	vsec, vpub := xcrypto.GenerateKeys(lktypes.SecretKey(h2))
	w.Key = lktypes.AccountKey{Addr: lktypes.AccountAddress{ViewPublicKey: vpub, SpendPublicKey: spub}, SpendSKey: ssec, ViewSKey: vsec}
	w.Idx = map[lktypes.PublicKey]uint64{spub: 0}
	return &w
}

func (w *Wallet) Dest(amount *big.Int) *types.UTXODestEntry {
	return &types.UTXODestEntry{Addr: w.Key.Addr, Amount: new(big.Int).Set(amount)}
}

// Scan looks at the confidential outputs of tx (committed at the given global start indices) and records those it owns.
// It uses the same derivations as the repo's wallet code (through the stub's real group arithmetic).
func (w *Wallet) Scan(tx *types.UTXOTransaction, globalOf func(otaddr lktypes.Key) (uint64, bool)) int {
	found := 0
	der, err := xcrypto.GenerateKeyDerivation(tx.RKey, w.Key.ViewSKey)
	if err != nil {
		return 0
	}
	n := 0
	for _, o := range tx.Outputs {
		uo, ok := o.(*types.UTXOOutput)
		if !ok {
			continue
		}
		k := n
		n++
		// the constructor derives one-time addresses with the index among the CONFIDENTIAL outputs only
		spend, err := xcrypto.DeriveSubaddressPublicKey(lktypes.PublicKey(uo.OTAddr), der, k)
		if err != nil {
			continue
		}
		if _, mine := w.Idx[spend]; !mine {
			continue
		}
		scalar, err := xcrypto.DerivationToScalar(der, k)
		if err != nil || k >= len(tx.RCTSig.EcdhInfo) {
			continue
		}
		ecdh := tx.RCTSig.EcdhInfo[k]
		if !xcrypto.EcdhDecode(&ecdh, lktypes.Key(scalar), false) {
			continue
		}
		rate, _ := types.GetUtxoCommitmentChangeRate(tx.TokenID)
		amount := new(big.Int).Mul(types.Hash2BigInt(ecdh.Amount), big.NewInt(rate))
		g, ok := globalOf(uo.OTAddr)
		if !ok {
			continue
		}
		w.Outs = append(w.Outs, &OwnedOut{Token: tx.TokenID, Global: g, OTAddr: uo.OTAddr, Commit: tx.RCTSig.OutPk[k].Mask, RKey: tx.RKey,
			OutIndex: uint64(k), Amount: amount, Mask: ecdh.Mask})
		found++
	}
	return found
}

// Unspent returns the wallet's unspent outputs of a token.
func (w *Wallet) Unspent(token common.Address) []*OwnedOut {
	var out []*OwnedOut
	for _, o := range w.Outs {
		if !o.Spent && o.Token == token {
			out = append(out, o)
		}
	}
	return out
}

func (o *OwnedOut) Source() *types.UTXOSourceEntry {
	return &types.UTXOSourceEntry{Ring: []types.UTXORingEntry{{Index: o.Global, OTAddr: o.OTAddr, Commit: o.Commit}}, RingIndex: 0, RKey: o.RKey,
		OutIndex: o.OutIndex, Amount: new(big.Int).Set(o.Amount), Mask: o.Mask}
}

// BuildAin builds and signs an account -> confidential transaction through the repo's own constructor.
func BuildAin(from *Account, nonce uint64, amount *big.Int, dests []types.DestEntry, token common.Address) (*types.UTXOTransaction, error) {
	src := &types.AccountSourceEntry{From: from.Addr, Nonce: nonce, Amount: new(big.Int).Set(amount)}
	tx, _, err := types.NewAinTransaction(src, dests, token, nil)
	if err != nil {
		return nil, err
	}
	if err := tx.Sign(types.GlobalSTDSigner, from.Key); err != nil {
		return nil, err
	}
	return tx, nil
}

// BuildUin builds a confidential-input transaction (to confidential and/or account outputs) through the repo's constructor.
func BuildUin(w *Wallet, ins []*OwnedOut, dests []types.DestEntry, token common.Address, refund common.Address) (*types.UTXOTransaction, error) {
	var srcs []*types.UTXOSourceEntry
	for _, o := range ins {
		srcs = append(srcs, o.Source())
	}
	tx, ephs, mkeys, _, err := types.NewUinTransaction(&w.Key, w.Idx, srcs, dests, token, refund, nil)
	if err != nil {
		return nil, err
	}
	if err := types.UInTransWithRctSig(tx, srcs, ephs, dests, mkeys); err != nil {
		return nil, err
	}
	return tx, nil
}

// GlobalIndexer resolves one-time addresses to their global output index of a token using the real utxo store.
func (s *Stack) GlobalIndexer(token common.Address) func(lktypes.Key) (uint64, bool) {
	return func(ot lktypes.Key) (uint64, bool) {
		max := s.Utxo.GetMaxUtxoOutputSeq(token)
		for i := int64(max); i >= 0; i-- {
			outs, err := s.Utxo.GetUtxoOutputs([]uint64{uint64(i)}, token)
			if err != nil || len(outs) != 1 {
				continue
			}
			if bytes.Equal(outs[0].OTAddr[:], ot[:]) {
				return uint64(i), true
			}
		}
		return 0, false
	}
}
