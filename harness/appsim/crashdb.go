package appsim

import (
	"sort"
	"strings"
	"sync"

	dbm "github.com/lianxiangcloud/linkchain/libs/db"
)

// CrashCtl counts durable writes across all wrapped databases of a stack and, from the KillAt-th write on, drops every
// write: everything after the crash point is lost, exactly what survives a process crash at that point (the process itself
// keeps running on its in-memory state until the harness discards it — a panic could not cross the goroutines SaveBlock starts).
type CrashCtl struct {
	mu     sync.Mutex
	N      int
	KillAt int
	Log    []string
	// Budget, if > 0, bounds the number of reads + writes: one more panics with "op-budget" (runaway-loop guard)
	Budget int
	ops    int
}

func (c *CrashCtl) spend() {
	if c.Budget == 0 {
		return
	}
	c.mu.Lock()
	c.ops++
	over := c.ops > c.Budget
	c.mu.Unlock()
	if over {
		panic("op-budget")
	}
}

// ResetBudget starts a new budget period.
func (c *CrashCtl) ResetBudget(n int) {
	c.mu.Lock()
	c.Budget, c.ops = n, 0
	c.mu.Unlock()
}

// hit reports whether the write may proceed.
func (c *CrashCtl) hit(name string) bool {
	c.spend()
	c.mu.Lock()
	defer c.mu.Unlock()
	c.N++
	if len(c.Log) < 4096 {
		c.Log = append(c.Log, name)
	}
	return c.KillAt == 0 || c.N < c.KillAt
}

// Dead reports whether the crash point has been passed.
func (c *CrashCtl) Dead() bool {
	c.mu.Lock()
	defer c.mu.Unlock()
	return c.KillAt != 0 && c.N >= c.KillAt
}

// keyClass abbreviates a database key to its record family: the printable prefix up to the first separator, or "bin".
func keyClass(k []byte) string {
	n := 0
	for n < len(k) && n < 12 && ((k[n] >= 'A' && k[n] <= 'Z') || (k[n] >= 'a' && k[n] <= 'z') || k[n] == '_') {
		n++
	}
	if n == 0 {
		return "bin"
	}
	return string(k[:n])
}

type crashDB struct {
	dbm.DB
	name string
	dir  string
	ctl  *CrashCtl
}

// WrapCrash decorates db; dir is what Dir() reports (the kv-mode undo log lives there).
func WrapCrash(name string, db dbm.DB, dir string, ctl *CrashCtl) dbm.DB {
	return &crashDB{DB: db, name: name, dir: dir, ctl: ctl}
}

func (d *crashDB) Dir() string { return d.dir }
func (d *crashDB) Get(k []byte) []byte {
	d.ctl.spend()
	return d.DB.Get(k)
}
func (d *crashDB) Load(k []byte) ([]byte, error) {
	d.ctl.spend()
	return d.DB.Load(k)
}
func (d *crashDB) Has(k []byte) bool {
	d.ctl.spend()
	return d.DB.Has(k)
}
func (d *crashDB) Set(k, v []byte) {
	if d.ctl.hit(d.name + ".Set:" + keyClass(k)) {
		d.DB.Set(k, v)
	}
}
func (d *crashDB) Put(k, v []byte) error {
	if d.ctl.hit(d.name + ".Put:" + keyClass(k)) {
		return d.DB.Put(k, v)
	}
	return nil
}
func (d *crashDB) SetSync(k, v []byte) {
	if d.ctl.hit(d.name + ".SetSync:" + keyClass(k)) {
		d.DB.SetSync(k, v)
	}
}
func (d *crashDB) Delete(k []byte) {
	if d.ctl.hit(d.name + ".Delete:" + keyClass(k)) {
		d.DB.Delete(k)
	}
}
func (d *crashDB) Del(k []byte) error {
	if d.ctl.hit(d.name + ".Del:" + keyClass(k)) {
		return d.DB.Del(k)
	}
	return nil
}
func (d *crashDB) DeleteSync(k []byte) {
	if d.ctl.hit(d.name + ".DeleteSync:" + keyClass(k)) {
		d.DB.DeleteSync(k)
	}
}
func (d *crashDB) NewBatch() dbm.Batch { return &crashBatch{Batch: d.DB.NewBatch(), d: d} }

type crashBatch struct {
	dbm.Batch
	d   *crashDB
	cls map[string]bool
}

func (b *crashBatch) note(k []byte) {
	if b.cls == nil {
		b.cls = map[string]bool{}
	}
	b.cls[keyClass(k)] = true
}
func (b *crashBatch) Set(k, v []byte) { b.note(k); b.Batch.Set(k, v) }
func (b *crashBatch) Delete(k []byte) { b.note(k); b.Batch.Delete(k) }
func (b *crashBatch) label() string {
	var cs []string
	for c := range b.cls {
		cs = append(cs, c)
	}
	sort.Strings(cs)
	return b.d.name + ".batch:" + strings.Join(cs, "+")
}

func (b *crashBatch) Write() {
	if b.d.ctl.hit(b.label()) {
		b.Batch.Write()
	}
}
func (b *crashBatch) WriteSync() {
	if b.d.ctl.hit(b.label()) {
		b.Batch.WriteSync()
	}
}
func (b *crashBatch) Commit() error {
	if b.d.ctl.hit(b.label()) {
		return b.Batch.Commit()
	}
	return nil
}
