package appsim

import (
	"sync"

	dbm "github.com/lianxiangcloud/linkchain/libs/db"
)

// CrashCtl counts durable writes across all wrapped databases of a stack and, from the KillAt-th write on, drops every
// write: everything after the crash point is lost, exactly what survives a process crash at that point (the process itself
// keeps running on its in-memory state until the harness discards it — a panic could not cross the goroutines SaveBlock starts).
type CrashCtl struct {
	mu     sync.Mutex
	N      int
	KillAt int
	Log    []string
}

// hit reports whether the write may proceed.
func (c *CrashCtl) hit(name string) bool {
	c.mu.Lock()
	defer c.mu.Unlock()
	c.N++
	if len(c.Log) < 4096 {
		c.Log = append(c.Log, name)
	}
	return c.KillAt == 0 || c.N < c.KillAt
}

// Dead reports whether the crash point has been passed.
func (c *CrashCtl) Dead() bool {
	c.mu.Lock()
	defer c.mu.Unlock()
	return c.KillAt != 0 && c.N >= c.KillAt
}

type crashDB struct {
	dbm.DB
	name string
	dir  string
	ctl  *CrashCtl
}

// WrapCrash decorates db; dir is what Dir() reports (the kv-mode undo log lives there).
func WrapCrash(name string, db dbm.DB, dir string, ctl *CrashCtl) dbm.DB {
	return &crashDB{DB: db, name: name, dir: dir, ctl: ctl}
}

func (d *crashDB) Dir() string { return d.dir }
func (d *crashDB) Set(k, v []byte) {
	if d.ctl.hit(d.name + ".Set") {
		d.DB.Set(k, v)
	}
}
func (d *crashDB) Put(k, v []byte) error {
	if d.ctl.hit(d.name + ".Put") {
		return d.DB.Put(k, v)
	}
	return nil
}
func (d *crashDB) SetSync(k, v []byte) {
	if d.ctl.hit(d.name + ".SetSync") {
		d.DB.SetSync(k, v)
	}
}
func (d *crashDB) Delete(k []byte) {
	if d.ctl.hit(d.name + ".Delete") {
		d.DB.Delete(k)
	}
}
func (d *crashDB) Del(k []byte) error {
	if d.ctl.hit(d.name + ".Del") {
		return d.DB.Del(k)
	}
	return nil
}
func (d *crashDB) DeleteSync(k []byte) {
	if d.ctl.hit(d.name + ".DeleteSync") {
		d.DB.DeleteSync(k)
	}
}
func (d *crashDB) NewBatch() dbm.Batch { return &crashBatch{Batch: d.DB.NewBatch(), d: d} }

type crashBatch struct {
	dbm.Batch
	d *crashDB
}

func (b *crashBatch) Write() {
	if b.d.ctl.hit(b.d.name + ".batch") {
		b.Batch.Write()
	}
}
func (b *crashBatch) WriteSync() {
	if b.d.ctl.hit(b.d.name + ".batch") {
		b.Batch.WriteSync()
	}
}
func (b *crashBatch) Commit() error {
	if b.d.ctl.hit(b.d.name + ".batch") {
		return b.Batch.Commit()
	}
	return nil
}
