package csim

import (
	"fmt"
	"math/rand"
	"strings"

	cs "github.com/lianxiangcloud/linkchain/consensus"
	cstypes "github.com/lianxiangcloud/linkchain/consensus/types"
	"github.com/lianxiangcloud/linkchain/types"
)

// SimParams fully determines one simulation (together with the code under test).
type SimParams struct {
	N       int
	Powers  []int64
	Byz     []bool
	Seed    int64
	Steps   int
	Heights int
	Prof    string // sync | async | lossy | byz | byzprop | late (async + votes held back until the receiver is two rounds further)
	// Mutate, if non-nil, is applied by a Byzantine proposer to the block it proposes (C02 corruption sweep);
	// it returns a label for the corruption.
	Mutate func(b *types.Block, k int) string
	// OnStep, if non-nil, is called after every scheduler action (C16 injections).
	OnStep    func(n *Net, step int, rng *rand.Rand)
	ValChange map[uint64][]int64
	// Trace records every step of every correct node (Net.Trace).  The schedule is drawn the same way, but block ids are
	// numbered when a proposal is made (not when a node first shows the block), so a traced simulation is a different,
	// equally deterministic, run from the untraced one with the same seed (the Byzantine actor picks among known ids)
	Trace bool
}

var Debug bool

// SimResult is what the monitors look at.
type SimResult struct {
	Net              *Net
	Steps            int
	MinHeight        uint64 // lowest committed height among correct live nodes
	MaxRound         int
	Locks            int // number of observed (node, height) pairs with a lock
	Dead             []string
	Killed           []int
	Delivered        int
	TimeoutsFired    int
	ByzMsgs          int
	Gossips          int
	Mutations        []string
	ProposerDisagree []string // C17 in-simulation monitor: nodes at the same (h, r) naming different proposers
}

func minCommitted(n *Net) uint64 {
	var m uint64 = 1 << 62
	for _, node := range n.Nodes {
		if node.Byz || node.Dead != "" || node.Killed {
			continue
		}
		if h := node.App.Height(); h < m {
			m = h
		}
	}
	if m == 1<<62 {
		return 0
	}
	return m
}

// Run executes one simulation under a seeded adversarial scheduler.
func Run(p SimParams) *SimResult {
	rng := rand.New(rand.NewSource(p.Seed))
	n := NewNet(Cfg{N: p.N, Powers: p.Powers, Byz: p.Byz, ValChange: p.ValChange, Trace: p.Trace})
	res := &SimResult{Net: n}
	honest := n.Honest()
	lockSeen := map[string]bool{}
	propSeen := map[string]string{}
	byzDone := map[string]bool{} // (byz, h, r, kind) already injected
	mutK := 0
	// profile "late": votes held back per node, released when the node is at least two rounds past the vote's round
	// (old-round polkas then complete while the node is locked in a later round)
	held := map[int][]*Msg{}
	wasHeld := map[string]bool{}

	if p.Prof == "lockscript" {
		// a directed prefix (script.go), then the asynchronous scheduler
		lockScript(n, rng, res)
		p.Prof = "async"
	}
	for step := 0; step < p.Steps; step++ {
		res.Steps = step + 1
		if minCommitted(n) >= uint64(p.Heights) {
			break
		}
		// ---- Byzantine injections
		if p.Prof == "byz" || p.Prof == "byzprop" {
			for bi, node := range n.Nodes {
				if !node.Byz {
					continue
				}
				ref := n.Nodes[honest[rng.Intn(len(honest))]]
				if ref.Dead != "" || ref.Killed {
					continue
				}
				rs := ref.CS.VerifRoundState()
				h, r := rs.Height, rs.Round
				// proposals when it is this validator's turn
				prop := rs.Validators.GetProposer()
				key := fmt.Sprintf("prop/%d/%d/%d", bi, h, r)
				if prop != nil && string(prop.Address) == string(node.PV.GetAddress()) && !byzDone[key] && rs.Step <= cstypes.RoundStepPropose {
					byzDone[key] = true
					base := n.HonestBlock(ref, bi)
					if base != nil {
						variants := 1
						if p.Prof == "byz" && rng.Intn(2) == 0 {
							variants = 2
						}
						for v := 0; v < variants; v++ {
							blk := n.HonestBlock(ref, bi)
							blk.Header.Time += uint64(v)
							if p.Mutate != nil {
								res.Mutations = append(res.Mutations, p.Mutate(blk, mutK))
								mutK++
							}
							msgs := n.ByzProposal(bi, h, r, blk, -1, types.BlockID{})
							for _, hi := range honest {
								if variants == 1 || (hi+v)%2 == 0 {
									n.Nodes[hi].Inbox = append(n.Nodes[hi].Inbox, msgs...)
								}
							}
							res.ByzMsgs += len(msgs)
						}
					}
				}
				// equivocating votes for the reference node's current round
				if rng.Intn(4) == 0 {
					for _, typ := range []byte{types.VoteTypePrevote, types.VoteTypePrecommit} {
						key := fmt.Sprintf("vote/%d/%d/%d/%d", bi, h, r, typ)
						if byzDone[key] || rng.Intn(2) == 0 {
							continue
						}
						byzDone[key] = true
						// candidate values: nil, every block id known so far, the reference node's proposal
						cands := []types.BlockID{{}}
						cands = append(cands, n.idList...)
						a := cands[rng.Intn(len(cands))]
						b := cands[rng.Intn(len(cands))]
						size := rs.Validators.Size()
						ma := n.ByzVote(bi, typ, h, r, a, size)
						mb := n.ByzVote(bi, typ, h, r, b, size)
						for _, hi := range honest {
							switch rng.Intn(3) {
							case 0:
								n.Nodes[hi].Inbox = append(n.Nodes[hi].Inbox, ma)
							case 1:
								n.Nodes[hi].Inbox = append(n.Nodes[hi].Inbox, mb)
							default:
								n.Nodes[hi].Inbox = append(n.Nodes[hi].Inbox, ma, mb)
							}
						}
						res.ByzMsgs += 2
					}
				}
			}
		}
		if p.Prof == "late" {
			for _, hi := range honest {
				node := n.Nodes[hi]
				if node.Dead != "" || len(held[hi]) == 0 {
					continue
				}
				rs := node.CS.VerifRoundState()
				var keep []*Msg
				for _, m := range held[hi] {
					vm := m.Payload.(*cs.VoteMessage)
					if vm.Vote.Height != rs.Height || rs.Round >= vm.Vote.Round+2 || rng.Intn(400) == 0 {
						node.Inbox = append(node.Inbox, m)
					} else {
						keep = append(keep, m)
					}
				}
				held[hi] = keep
			}
		}
		// ---- choose an action
		type action struct {
			node int
			msg  int // index in inbox, or -1
			to   int // index in timeouts, or -1
		}
		var msgActs, toActs []action
		for _, hi := range honest {
			node := n.Nodes[hi]
			if node.Dead != "" || node.Killed {
				continue
			}
			if p.Prof == "sync" {
				if len(node.Inbox) > 0 {
					msgActs = append(msgActs, action{hi, 0, -1})
				}
			} else {
				for mi := range node.Inbox {
					if mi < 8 || rng.Intn(4) == 0 {
						msgActs = append(msgActs, action{hi, mi, -1})
					}
				}
			}
			for ti := range node.Timeouts {
				toActs = append(toActs, action{hi, -1, ti})
			}
		}
		var acts []action
		eager := map[string]int{"sync": 0, "async": 200, "lossy": 120, "byz": 150, "byzprop": 200, "late": 60}[p.Prof]
		switch {
		case len(msgActs) > 0 && (len(toActs) == 0 || eager == 0 || rng.Intn(eager) != 0):
			acts = msgActs
		case len(toActs) > 0:
			// the network is idle (or the adversary fires a timeout early): prefer the earliest step kind in sync mode
			acts = toActs
			if p.Prof == "sync" || rng.Intn(3) != 0 {
				best := cstypes.RoundStepType(255)
				for _, a := range toActs {
					if st := n.Nodes[a.node].Timeouts[a.to].Step; st < best {
						best = st
					}
				}
				acts = nil
				for _, a := range toActs {
					if n.Nodes[a.node].Timeouts[a.to].Step == best {
						acts = append(acts, a)
					}
				}
			}
		}
		if len(acts) == 0 {
			// nothing enabled this step (all filtered out by chance or everything quiescent)
			quiet := true
			for _, hi := range honest {
				node := n.Nodes[hi]
				if node.Dead == "" && !node.Killed && (len(node.Inbox) > 0 || len(node.Timeouts) > 0) {
					quiet = false
				}
			}
			if quiet {
				added := 0
				if p.Prof != "sync" {
					for _, hi := range honest {
						added += n.Gossip(hi)
					}
					res.Gossips++
				}
				if added == 0 || res.Gossips > 200 {
					break
				}
			}
			continue
		}
		// network idle and only timeouts left: sometimes the gossip routines catch a node up instead
		if len(msgActs) == 0 && p.Prof != "sync" && rng.Intn(3) == 0 {
			n.Gossip(honest[rng.Intn(len(honest))])
			res.Gossips++
			continue
		}
		a := acts[rng.Intn(len(acts))]
		node := n.Nodes[a.node]
		if a.msg >= 0 {
			m := node.Inbox[a.msg]
			node.Inbox = append(node.Inbox[:a.msg:a.msg], node.Inbox[a.msg+1:]...)
			if p.Prof == "lossy" && m.From != a.node && rng.Intn(8) == 0 {
				continue // dropped
			}
			if p.Prof == "late" && m.From != a.node && !wasHeld[fmt.Sprintf("%d/%s", a.node, m.ID)] {
				if vm, ok := m.Payload.(*cs.VoteMessage); ok && vm.Vote.Type == types.VoteTypePrevote && rng.Intn(3) == 0 {
					wasHeld[fmt.Sprintf("%d/%s", a.node, m.ID)] = true
					held[a.node] = append(held[a.node], m)
					continue
				}
			}
			if (p.Prof == "lossy" || p.Prof == "byz") && rng.Intn(10) == 0 {
				node.Inbox = append(node.Inbox, m) // duplicated: will be delivered again later
			}
			out := n.Deliver(a.node, m)
			if Debug {
				fmt.Printf("deliver to=%d %s -> %s\n", a.node, n.Describe(m), out)
			}
			res.Delivered++
		} else {
			t := node.Timeouts[a.to]
			node.Timeouts = append(node.Timeouts[:a.to:a.to], node.Timeouts[a.to+1:]...)
			out := n.FireTimeout(a.node, t)
			if Debug {
				fmt.Printf("timeout to=%d (%d,%d,%d) -> %s\n", a.node, t.Height, t.Round, t.Step, out)
			}
			res.TimeoutsFired++
		}
		// ---- observations
		if node.Dead == "" {
			rs := node.CS.VerifRoundState()
			if rs.Round > res.MaxRound {
				res.MaxRound = rs.Round
			}
			if rs.LockedBlock != nil {
				k := fmt.Sprintf("%d/%d", a.node, rs.Height)
				if !lockSeen[k] {
					lockSeen[k] = true
					res.Locks++
				}
			}
			if rs.Step >= cstypes.RoundStepPropose && rs.Step <= cstypes.RoundStepPrecommitWait {
				if pr := rs.Validators.GetProposer(); pr != nil {
					k := fmt.Sprintf("%d/%d", rs.Height, rs.Round)
					who := fmt.Sprintf("%x", []byte(pr.Address))
					if prev, ok := propSeen[k]; ok && prev != who {
						res.ProposerDisagree = append(res.ProposerDisagree, fmt.Sprintf("h=%d r=%d: %s vs %s (node %d)", rs.Height, rs.Round, prev[:8], who[:8], a.node))
					} else if !ok {
						propSeen[k] = who
					}
				}
			}
		}
		if p.OnStep != nil {
			p.OnStep(n, step, rng)
		}
	}
	res.MinHeight = minCommitted(n)
	for _, node := range n.Nodes {
		if node.Dead != "" {
			res.Dead = append(res.Dead, fmt.Sprintf("%d@%s", node.Idx, node.Dead))
		}
		if node.Killed {
			res.Killed = append(res.Killed, node.Idx)
		}
	}
	n.Close()
	return res
}

// HistLines renders the merged history per height for the L-A monitor.
func (r *SimResult) HistLines(p SimParams) []string {
	byH := map[uint64][]string{}
	var hs []uint64
	for _, e := range r.Net.History {
		if _, ok := byH[e.H]; !ok {
			hs = append(hs, e.H)
		}
		k := map[string]string{"prevote": "p", "precommit": "c", "decide": "d"}[e.Kind]
		byH[e.H] = append(byH[e.H], fmt.Sprintf("%s.%d.%d.%d", k, e.Node, e.Round, e.Value))
	}
	var out []string
	for _, h := range hs {
		pw := p.Powers
		// validator powers in force at height h (changes take effect two heights after the committing block... the
		// simulation only changes powers, never membership, so indices are stable)
		for ch := uint64(1); ch < h; ch++ {
			if np, ok := p.ValChange[ch]; ok && ch+1 < h+0 {
				pw = np
			}
		}
		out = append(out, fmt.Sprintf("hist h=%d powers=%s byz=%s ev=%s", h, joinI64(pw), joinBool(p.Byz), strings.Join(byH[h], ";")))
	}
	return out
}

func joinI64(xs []int64) string {
	ss := make([]string, len(xs))
	for i, x := range xs {
		ss[i] = fmt.Sprint(x)
	}
	return strings.Join(ss, ",")
}

func joinBool(xs []bool) string {
	ss := make([]string, len(xs))
	for i, x := range xs {
		if x {
			ss[i] = "1"
		} else {
			ss[i] = "0"
		}
	}
	return strings.Join(ss, ",")
}

var _ = cs.VerifTimeout{}
