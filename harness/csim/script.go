package csim

import (
	"fmt"
	"math/rand"
	"time"

	"github.com/lianxiangcloud/linkchain/libs/crypto"

	cs "github.com/lianxiangcloud/linkchain/consensus"
	cstypes "github.com/lianxiangcloud/linkchain/consensus/types"
	"github.com/lianxiangcloud/linkchain/types"
)

// lockScript drives the first height of a 4-node, equal-power network through a directed adversarial schedule and then hands
// over to the random scheduler:
//   round 0: every node times out of Propose before the proposal arrives and prevotes nil; all but the victim see the
//            nil-polka and precommit nil; the victim sees none of the round-0 prevotes, only the nil precommits (-> round 1);
//   round 1: one node prevotes nil (propose timeout), three prevote the proposed block B; the victim sees the polka for B and
//            locks on it; the others see "+2/3 any" without a polka, time out of PrevoteWait and precommit nil (-> round 2);
//   round 2: the held-back round-0 prevotes reach the victim: a polka (for nil) at a round BELOW its locked round completes
//            while it is locked — the unlock rule `LockedRound < vote.Round <= cs.Round` must NOT fire.
// The schedule consists of legal deliveries only (reordering and delay); the victim is chosen by the seed.
//
// Variant B (every second seed): the victim is the validator that proposes round 3; it is kept in round 1 (locked on B) while
// the others go through rounds 2 and 3 prevoting nil, and then receives the round-3 nil prevotes: a polka of a round ABOVE its
// own completes while it is locked.  `addVote` must not unlock yet (`vote.Round <= cs.Round`): the node first enters round 3 as
// the proposer and re-proposes its locked block, and only `enterPrecommit` unlocks.
func lockScript(n *Net, rng *rand.Rand, res *SimResult) {
	if len(n.Nodes) != 4 {
		return
	}
	for _, node := range n.Nodes {
		if node.Byz {
			return
		}
	}
	victim := rng.Intn(4)
	variantB := rng.Intn(2) == 1
	if variantB {
		vs := n.Nodes[0].CS.VerifRoundState().Validators.Copy()
		vs.IncrementAccum(3)
		for i, v := range n.Vals {
			if string(v.Address) == string(vs.GetProposer().Address) {
				victim = i
			}
		}
	}
	fire := func(i int, step cstypes.RoundStepType) bool {
		node := n.Nodes[i]
		for ti, t := range node.Timeouts {
			if t.Step == step && t.Height == node.CS.VerifRoundState().Height && t.Round == node.CS.VerifRoundState().Round {
				node.Timeouts = append(node.Timeouts[:ti:ti], node.Timeouts[ti+1:]...)
				n.FireTimeout(i, t)
				res.TimeoutsFired++
				return true
			}
		}
		return false
	}
	// deliver hands node i, in inbox order, at most max messages satisfying pred
	deliver := func(i int, max int, pred func(m *Msg) bool) int {
		node := n.Nodes[i]
		k := 0
		for k < max {
			found := -1
			for mi, m := range node.Inbox {
				if pred(m) {
					found = mi
					break
				}
			}
			if found < 0 {
				break
			}
			m := node.Inbox[found]
			node.Inbox = append(node.Inbox[:found:found], node.Inbox[found+1:]...)
			n.Deliver(i, m)
			res.Delivered++
			k++
		}
		return k
	}
	vote := func(typ byte, round int, nilOnly, blockOnly bool) func(m *Msg) bool {
		return func(m *Msg) bool {
			vm, ok := m.Payload.(*cs.VoteMessage)
			if !ok || vm.Vote.Type != typ || vm.Vote.Round != round {
				return false
			}
			if nilOnly && !vm.Vote.BlockID.IsZero() {
				return false
			}
			if blockOnly && vm.Vote.BlockID.IsZero() {
				return false
			}
			return true
		}
	}
	propOf := func(round int) func(m *Msg) bool {
		return func(m *Msg) bool {
			switch p := m.Payload.(type) {
			case *cs.ProposalMessage:
				return p.Proposal.Round == round
			case *cs.BlockPartMessage:
				return p.Round == round
			}
			return false
		}
	}
	all := []int{0, 1, 2, 3}
	// while the nodes wait in NewHeight of the first height: a peer's precommit "for height 0".  There is no last commit to add it
	// to: it must be rejected as a height mismatch (fix 26762b7; before it the nil LastCommit vote set was dereferenced)
	if n.Nodes[0].CS.VerifRoundState().Height == 1 {
		j := rng.Intn(4)
		sv := &types.Vote{ValidatorAddress: n.Vals[j].Address, ValidatorIndex: j, ValidatorSize: 4, Height: 0, Round: 0,
			Timestamp: time.Unix(1600000000, 0).UTC(), Type: types.VoteTypePrecommit}
		sig, _ := crypto.GenPrivKeyEd25519FromSecret([]byte("lv-stray")).Sign(sv.SignBytes(n.Cfg.ChainID))
		sv.Signature = sig
		for _, i := range all {
			if i != j {
				n.Deliver(i, &Msg{ID: fmt.Sprintf("stray.%d", i), From: j, Payload: &cs.VoteMessage{Vote: sv}})
				res.Delivered++
			}
		}
	}
	// round 0
	for _, i := range all {
		fire(i, cstypes.RoundStepNewHeight)
	}
	for _, i := range all {
		fire(i, cstypes.RoundStepPropose)
	}
	for _, i := range all {
		// (variant B lets the victim see the round-0 polka: the round-1 proposal names it as its POL round and is
		// complete only for nodes that have those prevotes)
		if i != victim || variantB {
			deliver(i, 99, vote(types.VoteTypePrevote, 0, false, false))
		}
	}
	for _, i := range all {
		deliver(i, 99, vote(types.VoteTypePrecommit, 0, false, false))
	}
	// round 1
	odd := (victim + 1 + rng.Intn(3)) % 4 // the node that prevotes nil in round 1
	fire(odd, cstypes.RoundStepPropose)
	for _, i := range all {
		if i != odd {
			deliver(i, 99, propOf(1))
		}
	}
	deliver(victim, 99, vote(types.VoteTypePrevote, 1, false, true)) // the polka for B: lock
	for _, i := range all {
		if i == victim {
			continue
		}
		deliver(i, 1, vote(types.VoteTypePrevote, 1, true, false))  // the nil prevote first
		deliver(i, 2, vote(types.VoteTypePrevote, 1, false, true)) // +2/3 any, no polka
		fire(i, cstypes.RoundStepPrevoteWait)
	}
	if variantB {
		others := []int{}
		for _, i := range all {
			if i != victim {
				others = append(others, i)
				deliver(i, 99, vote(types.VoteTypePrecommit, 1, false, false)) // +2/3 nil: round 2
			}
		}
		for round := 2; round <= 3; round++ {
			for _, i := range others {
				fire(i, cstypes.RoundStepPropose) // nobody waits for a proposal: prevote nil
			}
			for _, i := range others {
				deliver(i, 99, vote(types.VoteTypePrevote, round, false, false)) // nil polka: precommit nil
			}
			if round == 2 {
				for _, i := range others {
					deliver(i, 99, vote(types.VoteTypePrecommit, round, false, false)) // +2/3 nil: round 3
				}
			}
		}
		// the victim, still in round 1 and locked, proposer of round 3, sees the round-3 polka
		deliver(victim, 99, vote(types.VoteTypePrevote, 3, false, false))
		return
	}
	for _, i := range all {
		deliver(i, 99, vote(types.VoteTypePrecommit, 1, false, false))
	}
	// round 2: the old polka completes at the locked victim
	deliver(victim, 99, vote(types.VoteTypePrevote, 0, false, false))
}
