package csim

// Step-level trace of the real state machines (C01 layer L-B tie): with Cfg.Trace set, every input a correct node's
// ConsensusState handles is recorded as (event description, canonical state line + outputs).  The event description
// carries, as input attributes, the verdicts of the real code's own functions that the node model takes as given
// (who signed a proposal, whether a vote's signature/size/address are acceptable, which block a part belongs to,
// ValidateBlock / CheckBlock of a block at this node, the block a proposer created in this step).

import (
	"bytes"
	"fmt"
	"strings"

	cs "github.com/lianxiangcloud/linkchain/consensus"
	cmn "github.com/lianxiangcloud/linkchain/libs/common"
	"github.com/lianxiangcloud/linkchain/libs/ser"
	"github.com/lianxiangcloud/linkchain/types"
)

// TraceEntry is one step of one node.
type TraceEntry struct {
	Ev  string // input event (op attributes)
	Ans string // state line + outputs after the step
}

type hdrReg struct {
	hdr   types.PartSetHeader
	value int
	block *types.Block // nil: the complete part set does not decode to a block with header, data and last commit
}

func hdrKey(h types.PartSetHeader) string { return fmt.Sprintf("%d/%x", h.Total, h.Hash) }

// registerBlock decodes the block of a complete part set the way addProposalBlockPart does and numbers its block id.
func (n *Net) registerParts(hdr types.PartSetHeader, parts []*types.Part) int {
	if r, ok := n.hdrs[hdrKey(hdr)]; ok {
		return r.value
	}
	if hdr.Total <= 0 || hdr.Total > 4096 {
		return 0
	}
	ps := types.NewPartSetFromHeader(hdr)
	for _, p := range parts {
		ps.AddPart(p)
	}
	if !ps.IsComplete() {
		return 0
	}
	var blk *types.Block
	var v int
	if _, err := ser.DecodeReader(ps.GetReader(), &blk, 22020096); err != nil || blk == nil || blk.Header == nil || blk.Data == nil || blk.LastCommit == nil {
		// addProposalBlockPart keeps the parts and drops the block: the header still needs a number (a label, no block has this id)
		blk = nil
		var fake cmn.Hash
		copy(fake[:], hdr.Hash)
		fake[0] ^= 0xff
		v = n.ValueOf(types.BlockID{Hash: fake, PartsHeader: hdr})
	} else {
		v = n.ValueOf(types.BlockID{Hash: blk.Hash(), PartsHeader: hdr})
	}
	if n.hdrs == nil {
		n.hdrs = map[string]*hdrReg{}
	}
	n.hdrs[hdrKey(hdr)] = &hdrReg{hdr, v, blk}
	n.hdrList = append(n.hdrList, n.hdrs[hdrKey(hdr)])
	return v
}

func (n *Net) hdrValue(hdr types.PartSetHeader) int {
	if r, ok := n.hdrs[hdrKey(hdr)]; ok {
		return r.value
	}
	return 0
}

// partOwner finds the registered part set the part's proof leads to.
func (n *Net) partOwner(p *types.Part) *hdrReg {
	if p == nil {
		return nil
	}
	for _, r := range n.hdrList {
		if p.Index >= 0 && p.Index < r.hdr.Total && p.Proof.Verify(p.Index, r.hdr.Total, p.Hash(), r.hdr.Hash) {
			return r
		}
	}
	return nil
}

// NodeLine = StateLine + the proposal part set (block of its header / parts present).
func (n *Net) NodeLine(node *Node) string {
	if node.Dead != "" {
		return "dead"
	}
	rs := node.CS.VerifRoundState()
	pbp := "-"
	if rs.ProposalBlockParts != nil {
		pbp = fmt.Sprintf("%d/%d", n.hdrValue(rs.ProposalBlockParts.Header()), rs.ProposalBlockParts.Count())
	}
	return n.StateLine(node) + " pbp=" + pbp
}

func b01(b bool) int {
	if b {
		return 1
	}
	return 0
}

// describeIn renders a message as the node model's input event, BEFORE the node handles it.
func (n *Net) describeIn(node *Node, m *Msg) string {
	switch p := m.Payload.(type) {
	case *cs.ProposalMessage:
		pr := p.Proposal
		by := -1
		sb := pr.SignBytes(n.Cfg.ChainID)
		for i, v := range n.Vals {
			if pr.Signature != nil && v.PubKey.VerifyBytes(sb, pr.Signature) {
				by = i
				break
			}
		}
		return fmt.Sprintf("proposal h=%d r=%d pol=%d v=%d tot=%d by=%d typ=%d", pr.Height, pr.Round, pr.POLRound, n.hdrValue(pr.BlockPartsHeader), pr.BlockPartsHeader.Total, by, pr.Type)
	case *cs.BlockPartMessage:
		pv, vok, cok, dec := 0, true, true, true
		idx := -1
		if p.Part != nil {
			idx = p.Part.Index
		}
		if r := n.partOwner(p.Part); r != nil {
			pv = r.value
			if _, rec := node.CS.VerifRecoverState(); r.block == nil || r.block.Recover != rec {
				// undecodable, or a recover counter other than the node's: addProposalBlockPart keeps the parts and drops the block
				dec = false
			} else {
				vok = cs.VerifValidateBlock(node.DB, node.CS.VerifStatus(), r.block) == nil
				calls := node.App.CheckCalls
				cok = node.App.CheckBlock(r.block)
				node.App.CheckCalls = calls
				// defaultDoPrevote / enterPrecommit / finalizeCommit: checkBlockEvidence && CheckBlock
				cok = cok && node.CS.VerifCheckBlockEvidence(r.block)
			}
		}
		return fmt.Sprintf("part h=%d r=%d pv=%d i=%d vok=%d cok=%d dec=%d", p.Height, p.Round, pv, idx, b01(vok), b01(cok), b01(dec))
	case *cs.VoteMessage:
		v := p.Vote
		ok := v.ValidatorIndex >= 0 && v.ValidatorIndex < len(n.Vals) && len(v.ValidatorAddress) > 0 &&
			bytes.Equal(v.ValidatorAddress, n.Vals[v.ValidatorIndex].Address) && v.ValidatorSize == len(n.Vals) &&
			v.Verify(n.Cfg.ChainID, n.Vals[v.ValidatorIndex].PubKey) == nil
		return fmt.Sprintf("vote t=%d h=%d r=%d idx=%d v=%d tot=%d src=%d ok=%d", v.Type, v.Height, v.Round, v.ValidatorIndex, n.ValueOf(v.BlockID), v.BlockID.PartsHeader.Total, m.From, b01(ok))
	}
	return fmt.Sprintf("other %T", m.Payload)
}

// traceOuts renders what the node produced in canonical form: own messages in queue order, timeouts in scheduling
// order, commits; also returns the block a proposal of this step is for (0: no proposal) and its part count.
func (n *Net) traceOuts(msgs []cs.ConsensusMessage, tos []Timeout, commits []string) (string, int, int) {
	var ms []string
	nv, nvt := 0, 0
	for i := 0; i < len(msgs); i++ {
		switch p := msgs[i].(type) {
		case *cs.ProposalMessage:
			pr := p.Proposal
			var parts []*types.Part
			j := i + 1
			for ; j < len(msgs); j++ {
				bp, ok := msgs[j].(*cs.BlockPartMessage)
				if !ok {
					break
				}
				parts = append(parts, bp.Part)
			}
			v := n.registerParts(pr.BlockPartsHeader, parts)
			nv, nvt = v, pr.BlockPartsHeader.Total
			ms = append(ms, fmt.Sprintf("prop(%d,%d,%d,%d)", pr.Height, pr.Round, pr.POLRound, v), fmt.Sprintf("parts(%d)", len(parts)))
			i = j - 1
		case *cs.BlockPartMessage:
			ms = append(ms, fmt.Sprintf("part(%d,%d,%d)", p.Height, p.Round, p.Part.Index))
		case *cs.VoteMessage:
			v := p.Vote
			ms = append(ms, fmt.Sprintf("vote(%d,%d,%d,%d)", v.Type, v.Height, v.Round, n.ValueOf(v.BlockID)))
		default:
			ms = append(ms, fmt.Sprintf("%T", msgs[i]))
		}
	}
	var ts []string
	for _, t := range tos {
		ts = append(ts, fmt.Sprintf("to(%d,%d,%d)", t.Height, t.Round, t.Step))
	}
	dash := func(xs []string) string {
		if len(xs) == 0 {
			return "-"
		}
		return strings.Join(xs, ";")
	}
	return "msgs=" + dash(ms) + " tos=" + dash(ts) + " commit=" + dash(commits), nv, nvt
}

func (n *Net) traceAdd(node *Node, ev, ans string) {
	if n.Trace == nil {
		n.Trace = map[int][]TraceEntry{}
	}
	n.Trace[node.Idx] = append(n.Trace[node.Idx], TraceEntry{ev, ans})
}

// traceInit records entry 0 of a node: its validator index, the powers, rotation state and height it starts from.
func (n *Net) traceInit(node *Node) {
	st := node.CS.VerifStatus()
	rs := node.CS.VerifRoundState()
	vs := rs.Validators
	var pw, ac []string
	prop := -1
	for i, v := range vs.Validators {
		pw = append(pw, fmt.Sprint(v.VotingPower))
		ac = append(ac, fmt.Sprint(v.Accum))
		if vs.Proposer != nil && bytes.Equal(vs.Proposer.Address, v.Address) {
			prop = i
		}
	}
	maxParts := 0
	if sz := st.ConsensusParams.BlockGossip.BlockPartSizeBytes; sz > 0 {
		maxParts = st.ConsensusParams.BlockSize.MaxBytes/sz + 1
	}
	ev := fmt.Sprintf("init me=%d powers=%s accums=%s prop=%d h=%d maxparts=%d", node.Idx, strings.Join(pw, ","), strings.Join(ac, ","), prop, rs.Height, maxParts)
	out, _, _ := n.traceOuts(nil, node.Timeouts, nil)
	n.traceAdd(node, ev, n.NodeLine(node)+" "+out)
}

// TraceLines renders the recorded steps of every correct node as `ns` ops (at most maxPerNode steps per node).
func (n *Net) TraceLines(maxPerNode int) []string {
	var out []string
	for i := range n.Nodes {
		for k, e := range n.Trace[i] {
			if maxPerNode > 0 && k >= maxPerNode {
				break
			}
			out = append(out, fmt.Sprintf("ns node=%d k=%d ev=%s", i, k, e.Ev))
		}
	}
	return out
}

// EvKind / transition of an entry, for the generator's distribution counters.
func (e TraceEntry) Kind() string { return strings.SplitN(e.Ev, " ", 2)[0] }

func ansField(ans, key string) string {
	for _, t := range strings.Fields(ans) {
		if strings.HasPrefix(t, key+"=") {
			return t[len(key)+1:]
		}
	}
	return "?"
}

// Transition renders "step->step" between the previous and this entry of the same node ("+h" / "+r" mark a new height / round).
func Transition(prev, cur TraceEntry) string {
	t := ansField(prev.Ans, "s") + "->" + ansField(cur.Ans, "s")
	if ansField(prev.Ans, "h") != ansField(cur.Ans, "h") {
		t += "+h"
	} else if ansField(prev.Ans, "r") != ansField(cur.Ans, "r") {
		t += "+r"
	}
	return t
}

// OldPrevoteWhileLocked: the entry is a prevote of a round not above the node's locked round, handled while the node is locked
// and already in a later round (the situation that separates `LockedRound < vote.Round` from weaker unlock rules).
func OldPrevoteWhileLocked(prev, cur TraceEntry) bool {
	if cur.Kind() != "vote" || ansField(cur.Ev, "t") != "1" || ansField(prev.Ans, "lb") == "0" || ansField(prev.Ans, "lb") == "?" {
		return false
	}
	var vr, lr, r int
	fmt.Sscan(ansField(cur.Ev, "r"), &vr)
	fmt.Sscan(ansField(prev.Ans, "lr"), &lr)
	fmt.Sscan(ansField(prev.Ans, "r"), &r)
	return ansField(cur.Ev, "h") == ansField(prev.Ans, "h") && vr <= lr && lr < r
}

// FutureTimeout: the entry is a timeout for a round above the node's round before the step.  The node theorems assume this
// never happens (WellTimed: the ticker fires only what the node scheduled); the generator counts it to show the assumption
// holds on every sampled schedule.
func FutureTimeout(prev, cur TraceEntry) bool {
	if cur.Kind() != "timeout" {
		return false
	}
	var tr, r int
	fmt.Sscan(ansField(cur.Ev, "r"), &tr)
	fmt.Sscan(ansField(prev.Ans, "r"), &r)
	return ansField(cur.Ev, "h") == ansField(prev.Ans, "h") && tr > r
}
