// Package csim steps real consensus.ConsensusState machines synchronously (no goroutines of the state
// machine, no timers, no network): a deterministic N-node simulation used by the C01/C02/C16/C17 harnesses.
// It needs the add-only hook file consensus/verif_hooks.go (build tag verif).
package csim

import (
	"bytes"
	"crypto/sha256"
	"fmt"
	"os/signal"
	"sort"
	"strings"
	"sync"
	"syscall"
	"time"

	cfg "github.com/lianxiangcloud/linkchain/config"
	cs "github.com/lianxiangcloud/linkchain/consensus"
	cstypes "github.com/lianxiangcloud/linkchain/consensus/types"
	cmn "github.com/lianxiangcloud/linkchain/libs/common"
	"github.com/lianxiangcloud/linkchain/libs/crypto"
	dbm "github.com/lianxiangcloud/linkchain/libs/db"
	"github.com/lianxiangcloud/linkchain/libs/log"
	"github.com/lianxiangcloud/linkchain/metrics"
	"github.com/lianxiangcloud/linkchain/types"
)

var initOnce sync.Once

func globalInit() {
	initOnce.Do(func() {
		// finalizeCommit calls cmn.Kill() (SIGTERM to the own process) when ApplyBlock fails: keep the harness alive,
		// the condition is detected synchronously (checkKilled)
		signal.Ignore(syscall.SIGTERM)
		log.Root().SetHandler(log.DiscardHandler())
		c := cfg.DefaultConfig()
		metrics.PrometheusMetricInstance.Init(c, crypto.GenPrivKeyEd25519FromSecret([]byte("metrics")).PubKey(), log.NewNopLogger())
	})
}

// ---- signer --------------------------------------------------------------------------------

// PV is a PrivValidator with a deterministic key and no double-sign protection (C04 covers FilePV).
type PV struct {
	Key crypto.PrivKeyEd25519
}

func NewPV(i int) *PV {
	return &PV{crypto.GenPrivKeyEd25519FromSecret([]byte(fmt.Sprintf("lv-validator-%d", i)))}
}
func (pv *PV) GetAddress() crypto.Address       { return pv.Key.PubKey().Address() }
func (pv *PV) GetPubKey() crypto.PubKey         { return pv.Key.PubKey() }
func (pv *PV) UpdatePrikey(priv crypto.PrivKey) {}
func (pv *PV) GetPrikey() crypto.PrivKey        { return pv.Key }
func (pv *PV) SignData(data []byte) ([]byte, error) {
	sig, err := pv.Key.Sign(data)
	if err != nil {
		return nil, err
	}
	return sig.Bytes(), nil
}
func (pv *PV) SignVote(chainID string, vote *types.Vote) error {
	sig, err := pv.Key.Sign(vote.SignBytes(chainID))
	if err != nil {
		return err
	}
	vote.Signature = sig
	return nil
}
func (pv *PV) SignVoteWithoutSave(chainID string, vote *types.Vote) error {
	return pv.SignVote(chainID, vote)
}
func (pv *PV) SignProposal(chainID string, p *types.Proposal) error {
	sig, err := pv.Key.Sign(p.SignBytes(chainID))
	if err != nil {
		return err
	}
	p.Signature = sig
	return nil
}
func (pv *PV) SignHeartbeat(chainID string, hb *types.Heartbeat) error {
	sig, err := pv.Key.Sign(hb.SignBytes(chainID))
	if err != nil {
		return err
	}
	hb.Signature = sig
	return nil
}

// ---- in-memory application -------------------------------------------------------------------

// MemApp is a deterministic in-memory BlockChainApp.  Application-level execution is trivially valid
// (no transactions); CheckBlock mirrors the header checks of app.LinkApplication.CheckBlock.
type MemApp struct {
	Blocks      []*types.Block
	Parts       []*types.PartSet
	SeenCommits []*types.Commit
	Vals        []*types.Validator
	// NextVals, if set for a height, is returned by CommitBlock of that height (validator change).
	NextVals    map[uint64][]*types.Validator
	CheckCalls  int
	CommitCalls int
	TimeBase    uint64
}

func (a *MemApp) Height() uint64 { return uint64(len(a.Blocks)) }
func (a *MemApp) LoadBlockMeta(h uint64) *types.BlockMeta {
	if h == 0 || h > a.Height() {
		return nil
	}
	return types.NewBlockMeta(a.Blocks[h-1], a.Parts[h-1])
}
func (a *MemApp) LoadBlock(h uint64) *types.Block {
	if h == 0 || h > a.Height() {
		return nil
	}
	return a.Blocks[h-1]
}
func (a *MemApp) LoadBlockPart(h uint64, index int) *types.Part {
	if h == 0 || h > a.Height() {
		return nil
	}
	return a.Parts[h-1].GetPart(index)
}
func (a *MemApp) LoadBlockCommit(h uint64) *types.Commit {
	if h == 0 || h >= a.Height() {
		return nil
	}
	return a.Blocks[h].LastCommit
}
func (a *MemApp) LoadSeenCommit(h uint64) *types.Commit {
	if h == 0 || h > a.Height() {
		return nil
	}
	return a.SeenCommits[h-1]
}
func (a *MemApp) GetValidators(h uint64) []*types.Validator        { return a.Vals }
func (a *MemApp) GetRecoverValidators(h uint64) []*types.Validator { return a.Vals }
func (a *MemApp) lastHash() cmn.Hash {
	if len(a.Blocks) == 0 {
		return cmn.EmptyHash
	}
	return a.Blocks[len(a.Blocks)-1].Hash()
}
func (a *MemApp) lastTotal() uint64 {
	if len(a.Blocks) == 0 {
		return 0
	}
	return a.Blocks[len(a.Blocks)-1].TotalTxs
}
func (a *MemApp) CreateBlock(height uint64, maxTxs int, gasLimit uint64, timeUnix uint64) *types.Block {
	b := types.MakeBlock(height, nil, nil)
	b.Header.Time = a.TimeBase + height // deterministic: the simulation must replay exactly
	b.ParentHash = a.lastHash()
	b.TotalTxs = a.lastTotal()
	b.Header.GasLimit = gasLimit
	b.DataHash = b.Data.Hash()
	return b
}
func (a *MemApp) PreRunBlock(block *types.Block) {}
func (a *MemApp) CheckBlock(block *types.Block) bool {
	a.CheckCalls++
	if block == nil || block.Header == nil || block.Data == nil {
		return false
	}
	if block.Height != a.Height()+1 {
		return false
	}
	if block.ParentHash != a.lastHash() {
		return false
	}
	if block.DataHash != block.Data.Hash() {
		return false
	}
	return true
}
func (a *MemApp) CommitBlock(block *types.Block, parts *types.PartSet, seen *types.Commit, fastsync bool) ([]*types.Validator, error) {
	a.CommitCalls++
	if block.Height != a.Height()+1 {
		return nil, fmt.Errorf("memapp: commit height %d, have %d", block.Height, a.Height())
	}
	a.Blocks = append(a.Blocks, block)
	a.Parts = append(a.Parts, parts)
	a.SeenCommits = append(a.SeenCommits, seen)
	if nv, ok := a.NextVals[block.Height]; ok {
		a.Vals = nv
		return nv, nil
	}
	return nil, nil
}
func (a *MemApp) SetLastChangedVals(height uint64, vals []*types.Validator) {}

// ---- network ---------------------------------------------------------------------------------

type Cfg struct {
	N        int
	Powers   []int64
	Byz      []bool
	ChainID  string
	PartSize int
	// ValChange: height -> new powers (0 removes), applied by every node's app when it commits that height
	ValChange map[uint64][]int64
	// Trace: record every step of every correct node (trace.go; C01 node-model tie)
	Trace bool
}

// Msg is one consensus message in flight.
type Msg struct {
	ID      string // "<sender>.<seq>"
	From    int
	Payload cs.ConsensusMessage
}

type Timeout = cs.VerifTimeout

type Node struct {
	Idx      int
	CS       *cs.ConsensusState
	Ticker   *cs.VerifTicker
	App      *MemApp
	PV       *PV
	DB       dbm.DB
	Bus      *types.EventBus
	Byz      bool
	Dead     string // non-empty: the consensus routine would have ended (panic site)
	Timeouts []Timeout
	Inbox    []*Msg
	seq      int
	Outbox   map[uint64][]*Msg // own messages by height (what the reactor would keep gossiping)
	Seen     map[string]bool   // ids of messages already handed to this node's state machine
	Killed   bool              // ApplyBlock failed after commit (cmn.Kill path)
	// what the last handled input produced (filled by collect; read by the trace)
	lastMsgs []cs.ConsensusMessage
	lastTos  []Timeout
}

// Event of the L-A history.
type Event struct {
	Kind  string // prevote | precommit | decide
	Node  int    // validator index (in address order)
	H     uint64
	Round int
	Value int // 0 = nil, k>0 = k-th distinct block id seen
}

type Net struct {
	Cfg     Cfg
	Nodes   []*Node
	PVs     []*PV // in validator-index (address) order
	Vals    []*types.Validator
	History []Event
	ids     map[string]int // block id -> value number
	// BadVotes: votes of correct nodes for a block on which the real validateBlock fails (C02 monitor)
	BadVotes []string
	idList   []types.BlockID
	Genesis  *types.GenesisDoc
	// step-level trace (Cfg.Trace): per correct node the handled inputs and resulting state lines; registry of the
	// part-set headers of the blocks proposed so far
	Trace   map[int][]TraceEntry
	hdrs    map[string]*hdrReg
	hdrList []*hdrReg
}

func (n *Net) ValueOf(id types.BlockID) int {
	if id.IsZero() {
		return 0
	}
	k := fmt.Sprintf("%x/%d/%x", id.Hash[:], id.PartsHeader.Total, id.PartsHeader.Hash)
	if v, ok := n.ids[k]; ok {
		return v
	}
	n.idList = append(n.idList, id)
	n.ids[k] = len(n.idList)
	return len(n.idList)
}

// BlockIDOf returns the block id of value number v (v>0).
func (n *Net) BlockIDOf(v int) (types.BlockID, bool) {
	if v <= 0 || v > len(n.idList) {
		return types.BlockID{}, false
	}
	return n.idList[v-1], true
}

func NewNet(c Cfg) *Net {
	globalInit()
	if c.ChainID == "" {
		c.ChainID = "verif-chain"
	}
	if c.PartSize == 0 {
		c.PartSize = 512
	}
	n := &Net{Cfg: c, ids: map[string]int{}}
	pvs := make([]*PV, c.N)
	for i := range pvs {
		pvs[i] = NewPV(i)
	}
	sort.Slice(pvs, func(i, j int) bool { return bytes.Compare(pvs[i].GetAddress(), pvs[j].GetAddress()) < 0 })
	n.PVs = pvs
	gen := &types.GenesisDoc{ChainID: c.ChainID, GenesisTime: "2019-01-01T00:00:00Z"}
	for i, pv := range pvs {
		h := sha256.Sum256(pv.GetAddress())
		var cb cmn.Address
		copy(cb[:], h[:20])
		gen.Validators = append(gen.Validators, types.GenesisValidator{PubKey: pv.GetPubKey(), Power: c.Powers[i], CoinBase: cb, Name: fmt.Sprintf("v%d", i)})
		n.Vals = append(n.Vals, &types.Validator{Address: pv.GetAddress(), PubKey: pv.GetPubKey(), CoinBase: cb, VotingPower: c.Powers[i]})
	}
	n.Genesis = gen
	for i := 0; i < c.N; i++ {
		node := &Node{Idx: i, PV: pvs[i], Byz: c.Byz[i]}
		n.Nodes = append(n.Nodes, node)
		if node.Byz {
			continue
		}
		n.startNode(node)
	}
	return n
}

func copyVals(vs []*types.Validator) []*types.Validator {
	out := make([]*types.Validator, len(vs))
	for i, v := range vs {
		out[i] = v.Copy()
	}
	return out
}

func (n *Net) startNode(node *Node) {
	c := n.Cfg
	db := dbm.NewMemDB()
	status, err := cs.CreateStatusFromGenesisDoc(db, n.Genesis)
	if err != nil {
		panic(err)
	}
	app := &MemApp{Vals: copyVals(n.Vals), TimeBase: 1600000000, NextVals: map[uint64][]*types.Validator{}}
	for h, pw := range c.ValChange {
		var nv []*types.Validator
		for i, p := range pw {
			if p > 0 {
				v := n.Vals[i].Copy()
				v.VotingPower = p
				nv = append(nv, v)
			}
		}
		app.NextVals[h] = nv
	}
	conf := cfg.DefaultConsensusConfig()
	conf.SkipTimeoutCommit = false
	evpool := cs.MockEvidencePool{}
	blockExec := cs.NewBlockExecutor(db, log.NewNopLogger(), evpool)
	state := cs.NewConsensusState(conf, status, blockExec, app, cs.MockMempool{}, evpool)
	state.SetLogger(log.NewNopLogger())
	state.SetPrivValidator(node.PV)
	bus := types.NewEventBus()
	bus.SetLogger(log.NewNopLogger())
	bus.Start()
	state.SetEventBus(bus)
	ticker := cs.NewVerifTicker()
	state.VerifPrepare(ticker)
	node.CS, node.Ticker, node.App, node.DB, node.Bus = state, ticker, app, db, bus
	// what OnStart does after starting the routines: schedule round 0
	node.Timeouts = append(node.Timeouts, Timeout{Height: state.VerifRoundState().Height, Round: 0, Step: cstypes.RoundStepNewHeight})
	if c.Trace {
		n.traceInit(node)
	}
}

// Close stops the event buses.
func (n *Net) Close() {
	for _, node := range n.Nodes {
		if node.Bus != nil {
			node.Bus.Stop()
		}
	}
}

// Honest returns the indices of the correct nodes.
func (n *Net) Honest() []int {
	var out []int
	for i, node := range n.Nodes {
		if !node.Byz {
			out = append(out, i)
		}
	}
	return out
}

// ---- stepping --------------------------------------------------------------------------------

// StateLine is the canonical observable of a node after an input.
func (n *Net) StateLine(node *Node) string {
	if node.Dead != "" {
		return "dead"
	}
	rs := node.CS.VerifRoundState()
	bid := func(b *types.Block, ps *types.PartSet) int {
		if b == nil {
			return 0
		}
		return n.ValueOf(types.BlockID{Hash: b.Hash(), PartsHeader: ps.Header()})
	}
	prop := 0
	if rs.Proposal != nil {
		prop = 1
	}
	return fmt.Sprintf("h=%d r=%d s=%d lr=%d lb=%d vr=%d vb=%d pb=%d prop=%d cr=%d", rs.Height, rs.Round, rs.Step, rs.LockedRound,
		bid(rs.LockedBlock, rs.LockedBlockParts), rs.ValidRound, bid(rs.ValidBlock, rs.ValidBlockParts), bid(rs.ProposalBlock, rs.ProposalBlockParts), prop, rs.CommitRound)
}

// collect gathers what the node produced while handling the last input: own messages (put into its own inbox
// and every peer's), scheduled timeouts, commits; returns a description of the outputs.
func (n *Net) collect(node *Node, pv interface{}, stack string) string {
	if pv != nil {
		node.Dead = SiteOf(stack)
		return "panic " + node.Dead
	}
	var outs []string
	node.lastMsgs, node.lastTos = nil, nil
	for _, m := range node.CS.VerifTakeInternal() {
		node.lastMsgs = append(node.lastMsgs, m)
		node.seq++
		msg := &Msg{ID: fmt.Sprintf("%d.%d", node.Idx, node.seq), From: node.Idx, Payload: m}
		outs = append(outs, n.Describe(msg))
		if node.Outbox == nil {
			node.Outbox = map[uint64][]*Msg{}
		}
		node.Outbox[MsgHeight(m)] = append(node.Outbox[MsgHeight(m)], msg)
		if vm, ok := m.(*cs.VoteMessage); ok {
			kind := "prevote"
			if vm.Vote.Type == types.VoteTypePrecommit {
				kind = "precommit"
			}
			n.History = append(n.History, Event{kind, node.Idx, vm.Vote.Height, vm.Vote.Round, n.ValueOf(vm.Vote.BlockID)})
			if !vm.Vote.BlockID.IsZero() {
				rs := node.CS.VerifRoundState()
				var blk *types.Block
				for _, b := range []*types.Block{rs.LockedBlock, rs.ProposalBlock, rs.ValidBlock} {
					if b != nil && b.HashesTo(vm.Vote.BlockID.Hash.Bytes()) {
						blk = b
						break
					}
				}
				if blk == nil {
					n.BadVotes = append(n.BadVotes, fmt.Sprintf("node %d %s h=%d r=%d for a block it does not hold", node.Idx, kind, vm.Vote.Height, vm.Vote.Round))
				} else if blk.Header.Recover != 0 {
					// independent of validateBlock (which relaxes its ValidatorsHash check for recover blocks): no node of the
					// simulation is ever in recover mode
					n.BadVotes = append(n.BadVotes, fmt.Sprintf("node %d %s h=%d r=%d for a recover block (Recover=%d) outside recover mode", node.Idx, kind, vm.Vote.Height, vm.Vote.Round, blk.Header.Recover))
				} else if why := InternallyInconsistent(blk); why != "" {
					// independent of Block.ValidateBasic (which validateBlock relies on): the header's own commitments recomputed here
					n.BadVotes = append(n.BadVotes, fmt.Sprintf("node %d %s h=%d r=%d for an internally inconsistent block: %s", node.Idx, kind, vm.Vote.Height, vm.Vote.Round, why))
				} else if err := cs.VerifValidateBlock(node.DB, node.CS.VerifStatus(), blk); err != nil {
					n.BadVotes = append(n.BadVotes, fmt.Sprintf("node %d %s h=%d r=%d for a block failing validateBlock: %.120s", node.Idx, kind, vm.Vote.Height, vm.Vote.Round, err.Error()))
				}
			}
		}
		for _, peer := range n.Nodes {
			if !peer.Byz {
				peer.Inbox = append(peer.Inbox, msg)
			}
		}
	}
	for _, t := range node.Ticker.Take() {
		node.lastTos = append(node.lastTos, t)
		node.Timeouts = append(node.Timeouts, t)
		outs = append(outs, fmt.Sprintf("to(%d,%d,%d)", t.Height, t.Round, t.Step))
	}
	return n.StateLine(node) + " out=" + strings.Join(outs, ";")
}

// InternallyInconsistent recomputes the commitments a header makes to the rest of its own block (clause "internal hash
// consistency" of C02) without calling Block.ValidateBasic: number of transactions, data hash, last-commit hash (at every
// height, the first included: the empty commit has a hash too), evidence hash.  "" = consistent.
func InternallyInconsistent(b *types.Block) string {
	if b == nil || b.Header == nil {
		return "no header"
	}
	if b.Data == nil {
		return "no data"
	}
	if b.NumTxs != uint64(len(b.Data.Txs)) {
		return fmt.Sprintf("NumTxs %d, %d transactions", b.NumTxs, len(b.Data.Txs))
	}
	if !bytes.Equal(b.DataHash.Bytes(), b.Data.Hash().Bytes()) {
		return "DataHash is not the hash of the data"
	}
	if b.LastCommit == nil {
		return "no last commit"
	}
	if !bytes.Equal(b.LastCommitHash.Bytes(), b.LastCommit.Hash().Bytes()) {
		return "LastCommitHash is not the hash of the last commit"
	}
	if !bytes.Equal(b.EvidenceHash.Bytes(), b.Evidence.Hash().Bytes()) {
		return "EvidenceHash is not the hash of the evidence"
	}
	return ""
}

// noteCommits records decide events for blocks the node's application committed since the last call.
func (n *Net) noteCommits(node *Node, before int) {
	for h := before; h < len(node.App.Blocks); h++ {
		b, ps, sc := node.App.Blocks[h], node.App.Parts[h], node.App.SeenCommits[h]
		n.History = append(n.History, Event{"decide", node.Idx, b.Height, sc.Round(), n.ValueOf(types.BlockID{Hash: b.Hash(), PartsHeader: ps.Header()})})
	}
}

// Deliver hands one message to a node's state machine (as receiveRoutine would after dequeuing it).
func (n *Net) Deliver(to int, m *Msg) string {
	node := n.Nodes[to]
	if node.Byz || node.Dead != "" {
		return "dead"
	}
	before := len(node.App.Blocks)
	if node.Seen == nil {
		node.Seen = map[string]bool{}
	}
	node.Seen[m.ID] = true
	peer := fmt.Sprintf("peer%d", m.From)
	if m.From == to {
		peer = ""
	}
	hBefore := node.CS.VerifRoundState().Height
	ev := ""
	if n.Cfg.Trace {
		ev = n.describeIn(node, m)
	}
	pv, st := node.CS.VerifHandleMsg(m.Payload, peer)
	n.noteCommits(node, before)
	n.checkKilled(node, before, hBefore)
	out := n.collect(node, pv, st)
	if n.Cfg.Trace {
		n.traceStep(node, ev, before, out)
	}
	return out
}

// traceStep records one handled input of a node.
func (n *Net) traceStep(node *Node, ev string, before int, out string) {
	if node.Dead != "" {
		n.traceAdd(node, ev+" nv=0 nvt=0", out)
		return
	}
	var commits []string
	for h := before; h < len(node.App.Blocks); h++ {
		b, ps, sc := node.App.Blocks[h], node.App.Parts[h], node.App.SeenCommits[h]
		commits = append(commits, fmt.Sprintf("commit(%d,%d,%d)", b.Height, sc.Round(), n.ValueOf(types.BlockID{Hash: b.Hash(), PartsHeader: ps.Header()})))
	}
	outs, nv, nvt := n.traceOuts(node.lastMsgs, node.lastTos, commits)
	n.traceAdd(node, fmt.Sprintf("%s nv=%d nvt=%d", ev, nv, nvt), n.NodeLine(node)+" "+outs)
}

// FireTimeout delivers a timeout to a node.
func (n *Net) FireTimeout(to int, t Timeout) string {
	node := n.Nodes[to]
	if node.Byz || node.Dead != "" {
		return "dead"
	}
	before := len(node.App.Blocks)
	hBefore := node.CS.VerifRoundState().Height
	pv, st := node.CS.VerifHandleTimeout(t)
	n.noteCommits(node, before)
	n.checkKilled(node, before, hBefore)
	out := n.collect(node, pv, st)
	if n.Cfg.Trace {
		n.traceStep(node, fmt.Sprintf("timeout h=%d r=%d st=%d", t.Height, t.Round, t.Step), before, out)
	}
	return out
}

// checkKilled: the application committed a block but the consensus height did not advance: ApplyBlock failed and
// the node called cmn.Kill() (SIGTERM to itself, intercepted as a no-op signal here is not possible; see KillGuard).
func (n *Net) checkKilled(node *Node, before int, hBefore uint64) {
	if len(node.App.Blocks) > before && node.CS.VerifRoundState().Height == hBefore {
		node.Killed = true
	}
}

// MsgHeight returns the height a message belongs to.
func MsgHeight(m cs.ConsensusMessage) uint64 {
	switch p := m.(type) {
	case *cs.ProposalMessage:
		return p.Proposal.Height
	case *cs.BlockPartMessage:
		return p.Height
	case *cs.VoteMessage:
		return p.Vote.Height
	}
	return 0
}

// Gossip hands node `to` what the reactor's gossip routines of its correct peers would send it: votes (of any
// validator, including Byzantine ones the peer has seen) it lacks, the current proposal and missing block parts,
// and for a lagging node the commit and the parts of the block its peers already committed.
func (n *Net) Gossip(to int) int {
	node := n.Nodes[to]
	if node.Byz || node.Dead != "" {
		return 0
	}
	rs := node.CS.VerifRoundState()
	h := rs.Height
	k := 0
	push := func(from int, key string, payload cs.ConsensusMessage) {
		id := fmt.Sprintf("g%d:%s", from, key)
		for _, q := range node.Inbox {
			if q.ID == id {
				return
			}
		}
		node.Inbox = append(node.Inbox, &Msg{ID: id, From: from, Payload: payload})
		k++
	}
	claimed := map[string]bool{}
	lacksVote := func(v *types.Vote) bool {
		var vs *types.VoteSet
		if v.Type == types.VoteTypePrevote {
			vs = rs.Votes.Prevotes(v.Round)
		} else {
			vs = rs.Votes.Precommits(v.Round)
		}
		if vs == nil {
			return true
		}
		if ba := vs.BitArrayByBlockID(v.BlockID); ba != nil && ba.GetIndex(v.ValidatorIndex) {
			return false
		}
		// a conflicting vote is only accepted for a block id some peer claimed a majority for
		return vs.GetByIndex(v.ValidatorIndex) == nil || claimed[fmt.Sprintf("%d/%d/%s", v.Round, v.Type, v.BlockID.Key())]
	}
	claim := func(from int, round int, typ byte, id types.BlockID) {
		// the reactor's queryMaj23Routine / VoteSetMaj23Message path: peers tell each other about majorities they see
		key := fmt.Sprintf("%d/%d/%s", round, typ, id.Key())
		if !claimed[key] {
			claimed[key] = true
			rs.Votes.SetPeerMaj23(round, typ, fmt.Sprintf("peer%d", from), id)
			if n.Cfg.Trace {
				// the claim changes the node's vote sets outside a handled message: it is a step of the trace
				node.lastMsgs, node.lastTos = nil, nil
				n.traceStep(node, fmt.Sprintf("maj23 r=%d t=%d src=%d v=%d tot=%d", round, typ, from, n.ValueOf(id), id.PartsHeader.Total), len(node.App.Blocks), "")
			}
		}
	}
	sendParts := func(from int, ps *types.PartSet) {
		if ps == nil || rs.ProposalBlockParts == nil || rs.ProposalBlock != nil || !rs.ProposalBlockParts.HasHeader(ps.Header()) {
			return
		}
		for i := 0; i < ps.Total(); i++ {
			if pt := ps.GetPart(i); pt != nil && rs.ProposalBlockParts.GetPart(i) == nil {
				push(from, fmt.Sprintf("part/%d/%x/%d", h, ps.Header().Hash, i), &cs.BlockPartMessage{Height: h, Round: rs.Round, Part: pt})
			}
		}
	}
	for _, peer := range n.Nodes {
		if peer.Byz || peer.Idx == to || peer.Dead != "" {
			continue
		}
		prs := peer.CS.VerifRoundState()
		switch {
		case prs.Height == h:
			for r := 0; r <= prs.Votes.Round()+1; r++ {
				for _, vs := range []*types.VoteSet{prs.Votes.Prevotes(r), prs.Votes.Precommits(r)} {
					if vs == nil {
						continue
					}
					if id, ok := vs.TwoThirdsMajority(); ok {
						claim(peer.Idx, r, vs.Type(), id)
					}
					for i := 0; i < vs.Size(); i++ {
						if v := vs.GetByIndex(i); v != nil && lacksVote(v) {
							push(peer.Idx, fmt.Sprintf("vote/%d/%d/%d/%d", h, v.Round, v.Type, i), &cs.VoteMessage{Vote: v})
						}
					}
				}
			}
			if prs.Proposal != nil && prs.Round == rs.Round && rs.Proposal == nil {
				push(peer.Idx, fmt.Sprintf("proposal/%d/%d", h, prs.Round), &cs.ProposalMessage{Proposal: prs.Proposal})
			}
			sendParts(peer.Idx, prs.ProposalBlockParts)
		case prs.Height > h && int(h) <= len(peer.App.SeenCommits):
			commit := peer.App.SeenCommits[h-1]
			claim(peer.Idx, commit.Round(), types.VoteTypePrecommit, commit.BlockID)
			for i, v := range commit.Precommits {
				if v != nil && lacksVote(v) {
					push(peer.Idx, fmt.Sprintf("vote/%d/%d/%d/%d", h, v.Round, v.Type, i), &cs.VoteMessage{Vote: v})
				}
			}
			sendParts(peer.Idx, peer.App.Parts[h-1])
		}
	}
	return k
}

// partHeaderOf finds the part-set header of the proposal `peer` made at (h, round), if any.
func partHeaderOf(peer *Node, h uint64, round int) types.PartSetHeader {
	for _, m := range peer.Outbox[h] {
		if pm, ok := m.Payload.(*cs.ProposalMessage); ok && pm.Proposal.Round == round {
			return pm.Proposal.BlockPartsHeader
		}
	}
	return types.PartSetHeader{Total: -1}
}

// Describe renders a message canonically (content only, no signatures or timestamps).
func (n *Net) Describe(m *Msg) string {
	switch p := m.Payload.(type) {
	case *cs.ProposalMessage:
		pr := p.Proposal
		return fmt.Sprintf("%s:proposal(h=%d,r=%d,pol=%d,parts=%d)", m.ID, pr.Height, pr.Round, pr.POLRound, pr.BlockPartsHeader.Total)
	case *cs.BlockPartMessage:
		return fmt.Sprintf("%s:part(h=%d,r=%d,i=%d)", m.ID, p.Height, p.Round, p.Part.Index)
	case *cs.VoteMessage:
		v := p.Vote
		return fmt.Sprintf("%s:vote(t=%d,h=%d,r=%d,val=%d,b=%d)", m.ID, v.Type, v.Height, v.Round, v.ValidatorIndex, n.ValueOf(v.BlockID))
	}
	return fmt.Sprintf("%s:%T", m.ID, m.Payload)
}

// SiteOf extracts the first repository frame (outside the hooks) from a stack trace.
func SiteOf(stack string) string {
	lines := strings.Split(stack, "\n")
	for _, l := range lines {
		if strings.Contains(l, "github.com/lianxiangcloud/linkchain/") && !strings.Contains(l, "verif") && !strings.HasPrefix(l, "\t") {
			fn := l[strings.LastIndex(l, "/")+1:]
			if k := strings.LastIndex(fn, "("); k > 0 {
				fn = fn[:k]
			}
			if strings.Contains(fn, "PanicSanity") || strings.Contains(fn, "PanicConsensus") || strings.Contains(fn, "PanicCrisis") {
				continue
			}
			return fn
		}
	}
	return "unknown"
}

// ---- Byzantine actor -------------------------------------------------------------------------

// ByzVote builds a correctly signed vote of Byzantine validator idx for an arbitrary block id.
func (n *Net) ByzVote(idx int, typ byte, h uint64, round int, id types.BlockID, size int) *Msg {
	node := n.Nodes[idx]
	v := &types.Vote{ValidatorAddress: node.PV.GetAddress(), ValidatorIndex: idx, ValidatorSize: size, Height: h, Round: round,
		Timestamp: time.Unix(1600000000, 0).UTC(), Type: typ, BlockID: id}
	node.PV.SignVote(n.Cfg.ChainID, v)
	node.seq++
	kind := "prevote"
	if typ == types.VoteTypePrecommit {
		kind = "precommit"
	}
	n.History = append(n.History, Event{kind, idx, h, round, n.ValueOf(id)})
	return &Msg{ID: fmt.Sprintf("%d.%d", idx, node.seq), From: idx, Payload: &cs.VoteMessage{Vote: v}}
}

// ByzProposal builds a proposal (signed by Byzantine validator idx) and the parts of `block`.
func (n *Net) ByzProposal(idx int, h uint64, round int, block *types.Block, polRound int, polID types.BlockID) []*Msg {
	node := n.Nodes[idx]
	parts := block.MakePartSet(n.byzPartSize(block))
	if n.Cfg.Trace {
		var pl []*types.Part
		for i := 0; i < parts.Total(); i++ {
			pl = append(pl, parts.GetPart(i))
		}
		n.registerParts(parts.Header(), pl)
	}
	p := types.NewProposal(h, round, parts.Header(), polRound, polID)
	p.Timestamp = time.Unix(1600000000, 0).UTC()
	node.PV.SignProposal(n.Cfg.ChainID, p)
	var out []*Msg
	node.seq++
	out = append(out, &Msg{ID: fmt.Sprintf("%d.%d", idx, node.seq), From: idx, Payload: &cs.ProposalMessage{Proposal: p}})
	for i := 0; i < parts.Total(); i++ {
		node.seq++
		out = append(out, &Msg{ID: fmt.Sprintf("%d.%d", idx, node.seq), From: idx, Payload: &cs.BlockPartMessage{Height: h, Round: round, Part: parts.GetPart(i)}})
	}
	return out
}

// byzPartSize picks the part size of a Byzantine proposal so that the NUMBER of parts is a function of the schedule only.
// The block carries the precommits of the last commit, whose timestamps are the wall clock of the correct signers
// (cs.signVote: time.Now()), and the length of an encoded timestamp varies by a few bytes from run to run: with a fixed
// part size a block near a multiple of it had 3 parts in one run and 4 in the next, the inbox lengths and with them the
// seeded scheduler's draws differed, and a `sim` op replayed in a fresh process did not reproduce the generator's run
// (C01 thorough, seed 1, case 214: a false alarm of the harness, DESIGN 10.4).  The number of parts is now 1 for a block
// without commit signatures and 1 + (signed precommits)/2 otherwise (at most 5), whatever the byte length.
func (n *Net) byzPartSize(block *types.Block) int {
	if n.Cfg.PartSize != 512 {
		return n.Cfg.PartSize
	}
	k := 1
	if block.LastCommit != nil {
		signed := 0
		for _, pc := range block.LastCommit.Precommits {
			if pc != nil {
				signed++
			}
		}
		if signed > 0 {
			k = 1 + signed/2
		}
	}
	if k > 5 {
		k = 5
	}
	whole := block.MakePartSet(1 << 30)
	l := len(whole.GetPart(0).Bytes)
	if l < 4*k {
		return n.Cfg.PartSize
	}
	return (l + k - 1) / k
}

// HonestBlock builds the block a correct proposer would build on top of `ref`'s chain at its current height,
// with the given coinbase owner (validator index) — used by the Byzantine proposer as a starting point.
func (n *Net) HonestBlock(ref *Node, proposer int) *types.Block {
	rs := ref.CS.VerifRoundState()
	st := ref.CS.VerifStatus()
	var commit *types.Commit
	if rs.Height == types.BlockHeightOne {
		commit = &types.Commit{}
	} else if rs.LastCommit != nil && rs.LastCommit.HasTwoThirdsMajority() {
		commit = rs.LastCommit.MakeCommit()
	} else {
		return nil
	}
	b := ref.App.CreateBlock(rs.Height, 0, st.ConsensusParams.BlockSize.MaxGas, 0)
	b.Header.Coinbase = n.Vals[proposer].CoinBase
	if rs.Height > types.BlockHeightOne && !st.LastRecover {
		lastRound := commit.FirstPrecommit().Round
		fvi := &types.FaultValidatorsEvidence{BlockHeight: rs.Height - 1, Round: lastRound}
		if lastRound == 0 {
			fvi.Proposer = rs.LastValidators.GetProposer().PubKey
		} else {
			fvi.FaultVal = rs.LastValidators.GetProposer().PubKey
			vs := rs.LastValidators.Copy()
			vs.IncrementAccum(lastRound)
			fvi.Proposer = vs.GetProposer().PubKey
		}
		b.AddEvidence([]types.Evidence{fvi})
	}
	b.ChainID = st.ChainID
	b.LastCommit = commit
	b.LastBlockID = st.LastBlockID
	b.LastCommitHash = b.LastCommit.Hash()
	b.EvidenceHash = b.Evidence.Hash()
	b.ConsensusHash = cmn.BytesToHash(st.ConsensusParams.Hash())
	b.ValidatorsHash = cmn.BytesToHash(st.Validators.Hash())
	return b
}
