package csim

import (
	"net"

	cs "github.com/lianxiangcloud/linkchain/consensus"
	cmn "github.com/lianxiangcloud/linkchain/libs/common"
	"github.com/lianxiangcloud/linkchain/libs/log"
	"github.com/lianxiangcloud/linkchain/libs/p2p"
	"github.com/lianxiangcloud/linkchain/types"
)

// FakePeer is a p2p.Peer that records what is sent to it.
type FakePeer struct {
	cmn.BaseService
	id      string
	kv      map[string]interface{}
	Sent    int
	Stopped int
}

func NewFakePeer(id string) *FakePeer {
	p := &FakePeer{id: id, kv: map[string]interface{}{}}
	p.BaseService = *cmn.NewBaseService(nil, "FakePeer", p)
	return p
}
func (p *FakePeer) ID() string                       { return p.id }
func (p *FakePeer) RemoteAddr() net.Addr             { return &net.TCPAddr{IP: net.IPv4(10, 0, 0, 1), Port: 1} }
func (p *FakePeer) NodeInfo() p2p.NodeInfo           { return p2p.NodeInfo{} }
func (p *FakePeer) IsOutbound() bool                 { return false }
func (p *FakePeer) Status() p2p.ConnectionStatus     { return p2p.ConnectionStatus{} }
func (p *FakePeer) Send(ch byte, b []byte) bool      { p.Sent++; return true }
func (p *FakePeer) TrySend(ch byte, b []byte) bool   { p.Sent++; return true }
func (p *FakePeer) Close() error                     { return nil }
func (p *FakePeer) Set(key string, data interface{}) { p.kv[key] = data }
func (p *FakePeer) Get(key string) interface{}       { return p.kv[key] }

// FakeSwitch is a p2p.P2PManager that counts peers stopped for error.
type FakeSwitch struct {
	cmn.BaseService
	Stopped []string
}

func NewFakeSwitch() *FakeSwitch {
	s := &FakeSwitch{}
	s.BaseService = *cmn.NewBaseService(nil, "FakeSwitch", s)
	return s
}
func (s *FakeSwitch) GetByID(peerID string) p2p.Peer { return nil }
func (s *FakeSwitch) StopPeerForError(peer p2p.Peer, reason interface{}) {
	s.Stopped = append(s.Stopped, peer.ID())
}
func (s *FakeSwitch) Reactor(name string) p2p.Reactor                   { return nil }
func (s *FakeSwitch) AddReactor(name string, r p2p.Reactor) p2p.Reactor { return r }
func (s *FakeSwitch) Broadcast(chID byte, b []byte) chan bool {
	c := make(chan bool)
	close(c)
	return c
}
func (s *FakeSwitch) BroadcastE(chID byte, peerID string, b []byte) chan bool {
	return s.Broadcast(chID, b)
}
func (s *FakeSwitch) Peers() p2p.IPeerSet               { return p2p.NewPeerSet() }
func (s *FakeSwitch) LocalNodeInfo() p2p.NodeInfo       { return p2p.NodeInfo{} }
func (s *FakeSwitch) NumPeers() (int, int, int)         { return 0, 0, 0 }
func (s *FakeSwitch) MarkBadNode(nodeInfo p2p.NodeInfo) {}
func (s *FakeSwitch) CloseAllConnection()               {}

// Reactor bundles a real ConsensusReactor in front of a node's state machine with one fake peer.
type Reactor struct {
	R      *cs.ConsensusReactor
	Switch *FakeSwitch
	Peer   *FakePeer
}

// AttachReactor puts a real ConsensusReactor in front of the node (started in fast-sync mode so that it does not
// start the state machine's goroutines, then switched to consensus mode through the hook).
func AttachReactor(node *Node, peerID string) *Reactor {
	sw := NewFakeSwitch()
	r := cs.NewConsensusReactor(node.CS, true, sw)
	r.SetLogger(log.NewNopLogger())
	if err := r.Start(); err != nil {
		panic(err)
	}
	r.VerifSetFastSync(false)
	peer := NewFakePeer(peerID)
	peer.Set(types.PeerStateKey, cs.NewPeerState(peer))
	return &Reactor{R: r, Switch: sw, Peer: peer}
}
