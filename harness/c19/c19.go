// Package c19: every storage backend of libs/db (memdb, goleveldb, bolt, badger and PrefixDB views of
// them) driven with the same op lines, against the Lean reference ordered map (correspondence) and
// against an independent Go reference map inside the monitors.
//
// One op line is executed on EVERY backend named in the `case` line; the answer line is
//
//	all:<answer>                         if every backend gave the same answer
//	mem:<a>|ldb:<a>|bolt:<a>|bdg:<a>     otherwise
//
// so cross-backend agreement is visible in the answer itself.
package c19

import (
	"bytes"
	"context"
	"encoding/json"
	"fmt"
	"os"
	osexec "os/exec"
	"path/filepath"
	"sort"
	"strconv"
	"strings"
	"time"

	dbm "github.com/lianxiangcloud/linkchain/libs/db"

	"lvharness/hx"
)

type P struct{}

func (P) Rule() string {
	return "one op sequence per case, executed on every backend that builds here (memdb, goleveldb, bolt, badger; opened through db.NewDB under the run directory) " +
		"either directly or through a PrefixDB view over a store pre-filled with neighbour keys (prefix-1, cpDecr(prefix), PrefixToEnd(prefix), fixed-width prefix+1, ...). " +
		"ops: set/setsync/put, del/delsync/delerr, get/load/has/exist, iter/riter with every bound combination (nil, empty, keys, neighbours), piter (NewIteratorWithPrefix), " +
		"iterprefix (IteratePrefix), batches (several alive at once; set/del/write/writesync/commit/reset/abandon, reused after Reset on every backend incl. badger), reopen (Close + NewDB on the same directory), " +
		"step-wise iterators (iopen/istep/iclose, up to two alive, interleaved with reads and with writes OUTSIDE their domains - the contract of types.go; batches are written and stores reopened only with no iterator alive), " +
		"leaf ops indomain/ipbounds/cpdecr/ptoend/ptrans (bounds observed through a spy DB that records what PrefixDB/IteratePrefix pass down), crashprobe (badger batch reuse in a child process). " +
		"keys: empty, nil, single bytes 00/ff, shared prefixes, 0xff tails, random binary; values NON-EMPTY (1..5000 bytes). " +
		"generator restrictions (excluded corners, not filtered in the comparison): bolt and badger refuse the empty key (bolt: Set dropped, Put error; badger: Set/Put dropped, Get/Has/Delete panic, Del error; batches drop such ops) - " +
		"empty/nil store keys run on memdb+goleveldb in the ordinary streams and on all four in cases tagged emptykey (tied to the model's Engine rules, equivalence monitors off); through a PrefixDB view the empty view-key runs on all four; " +
		"prefix views are built on a prefix slice with spare capacity (an adapter appending to it without copying aliases a batch's keys: class batch-keeps-only-last-key); no write inside the domain of a live iterator; " +
		"a batch written AGAIN without Reset only in cases tagged rewrite (what a batch holds after Write is adapter-specific: memBatch/goleveldb keep the ops, bolt/badger are empty; tied to the per-backend model, " +
		"the equivalence monitors are off there); if the crashprobe says badger batch reuse kills the process, badger batches are single-use so that the run can report it. " +
		"sharded stream (counts=4): iteration is per shard by design, answers compared as sorted multisets (duplicates visible). " +
		"non-trivial = at least one iterator over >= 2 live keys and (a delete of a live key or a written batch or a reopen); distinct = distinct op sequence"
}

// ---- executor ------------------------------------------------------------------------------

type inst struct {
	name    string
	typ     dbm.DBBackendType
	dir     string
	counts  uint64
	under   dbm.DB
	view    dbm.DB
	batches map[int]dbm.Batch
	iters   map[int]dbm.Iterator // step-wise iterators (iopen/istep/iclose)
}

type exec struct {
	insts   []*inst
	prefix  []byte
	hasPref bool
	sharded bool
}

var (
	caseSeq int
	current *exec // the executor whose stores are open (closed when the next case starts)
)

func (P) NewExec() hx.Executor { return &exec{} }

var backendTypes = map[string]dbm.DBBackendType{"mem": dbm.MemDBBackend, "ldb": dbm.GoLevelDBBackend, "bolt": dbm.BoltBackend, "bdg": dbm.BadgerBackend}

func bnd(s string) []byte {
	if s == "nil" {
		return nil
	}
	return hx.UnHex(s)
}

func showB(b []byte) string {
	if b == nil {
		return "nil"
	}
	return hx.Hex(b)
}

func (in *inst) closeIters() {
	for id, it := range in.iters {
		func() {
			defer func() { recover() }()
			it.Close()
		}()
		delete(in.iters, id)
	}
}

func (e *exec) closeAll() {
	for _, in := range e.insts {
		in.closeIters()
		func() {
			defer func() { recover() }()
			if in.under != nil {
				in.under.Close()
			}
		}()
		in.under, in.view = nil, nil
		if in.dir != "" {
			os.RemoveAll(in.dir)
		}
	}
	e.insts = nil
}

func (in *inst) open(e *exec) {
	in.under = dbm.NewDB("s", in.typ, in.dir, in.counts)
	in.view = in.under
	if e.hasPref {
		// the prefix slice gets spare capacity (as a slice cut from a larger buffer has): an adapter that appends to it
		// without copying would alias the keys of one batch
		pfx := make([]byte, len(e.prefix), len(e.prefix)+64)
		copy(pfx, e.prefix)
		in.view = dbm.NewPrefixDB(in.under, pfx)
	}
	in.batches = map[int]dbm.Batch{}
	in.iters = map[int]dbm.Iterator{}
}

func (e *exec) startCase(toks []string) string {
	quiet() // other packages' init functions may have re-installed the stdout handler
	if current != nil {
		current.closeAll()
	}
	e.closeAll()
	current = e
	caseSeq++
	bs, _ := hx.Arg(toks, "backends")
	ps, hasP := hx.Arg(toks, "prefix")
	e.hasPref = hasP && ps != "none"
	e.prefix = nil
	if e.hasPref {
		e.prefix = hx.UnHex(ps)
	}
	counts := uint64(1)
	if c, ok := hx.Arg(toks, "counts"); ok {
		n, _ := strconv.Atoi(c)
		counts = uint64(n)
	}
	e.sharded = counts > 1
	wd, _ := os.Getwd()
	for _, b := range hx.SplitComma(bs) {
		t, ok := backendTypes[b]
		if !ok {
			return "bad-op"
		}
		in := &inst{name: b, typ: t, counts: counts}
		if b != "mem" {
			in.dir = filepath.Join(wd, "c19db", fmt.Sprintf("%d-%d-%s", os.Getpid(), caseSeq, b))
			os.RemoveAll(in.dir)
			os.MkdirAll(in.dir, 0o755)
		}
		in.open(e)
		e.insts = append(e.insts, in)
	}
	return "ok"
}

const drainLimit = 100000

func drain(it dbm.Iterator, sorted bool) string {
	defer it.Close()
	type kv struct{ k, v []byte }
	var kvs []kv
	for ; it.Valid(); it.Next() {
		kvs = append(kvs, kv{append([]byte{}, it.Key()...), append([]byte{}, it.Value()...)})
		if len(kvs) > drainLimit {
			return "runaway"
		}
	}
	if sorted {
		// sharded stores iterate shard after shard (by design): compared as a sorted MULTISET (duplicates stay visible)
		sort.SliceStable(kvs, func(i, j int) bool { return bytes.Compare(kvs[i].k, kvs[j].k) < 0 })
	}
	if len(kvs) == 0 {
		return "kv=-"
	}
	ss := make([]string, len(kvs))
	for i, x := range kvs {
		ss[i] = hx.Hex(x.k) + ":" + showV(x.v)
	}
	return "kv=" + strings.Join(ss, ",")
}

func showV(v []byte) string {
	if v == nil {
		return "none"
	}
	return hx.Hex(v)
}

func found(v []byte) string {
	if v == nil {
		return "none"
	}
	return "v=" + hx.Hex(v)
}

// spy records the bounds handed down by IteratePrefix / PrefixDB
type spy struct {
	dbm.DB
	s, e []byte
	seen bool
}

func (s *spy) Iterator(a, b []byte) dbm.Iterator {
	s.s, s.e, s.seen = a, b, true
	return s.DB.Iterator(a, b)
}
func (s *spy) ReverseIterator(a, b []byte) dbm.Iterator {
	s.s, s.e, s.seen = a, b, true
	return s.DB.ReverseIterator(a, b)
}

func leaf(toks []string) (string, bool) {
	arg := func(k string) []byte { v, _ := hx.Arg(toks, k); return bnd(v) }
	switch toks[0] {
	case "indomain":
		r, _ := hx.Arg(toks, "rev")
		return fmt.Sprint(dbm.IsKeyInDomain(arg("k"), arg("s"), arg("e"), r == "1")), true
	case "ptoend":
		return showB(dbm.PrefixToEnd(arg("p"))), true
	case "ipbounds": // the bounds IteratePrefix hands to Iterator (cpIncr has no caller left since b779b6d)
		sp := &spy{DB: dbm.NewMemDB()}
		dbm.IteratePrefix(sp, arg("b")).Close()
		return "s=" + showB(sp.s) + " e=" + showB(sp.e), true
	case "cpdecr":
		sp := &spy{DB: dbm.NewMemDB()}
		dbm.NewPrefixDB(sp, arg("b")).ReverseIterator(nil, nil).Close()
		return "s=" + showB(sp.s) + " e=" + showB(sp.e), true
	case "ptrans":
		sp := &spy{DB: dbm.NewMemDB()}
		r, _ := hx.Arg(toks, "rev")
		pd := dbm.NewPrefixDB(sp, arg("p"))
		if r == "1" {
			pd.ReverseIterator(arg("s"), arg("e")).Close()
		} else {
			pd.Iterator(arg("s"), arg("e")).Close()
		}
		return "s=" + showB(sp.s) + " e=" + showB(sp.e), true
	}
	return "", false
}

func (e *exec) one(in *inst, toks []string) (ans string) {
	defer func() {
		if r := recover(); r != nil {
			ans = "panic"
		}
	}()
	// Every byte slice handed to a WRITE (Set/SetSync/Put/Delete/..., batch Set/Delete) is a caller-owned buffer that the
	// caller reuses: it is overwritten with 0xEE as soon as the call has returned (trie.Database.Cap reuses its key buffer).
	// A store or batch that keeps the caller's slice instead of its content shows 0xEE keys/values later.
	var lent [][]byte
	arg := func(k string) []byte {
		v, _ := hx.Arg(toks, k)
		b := bnd(v)
		if b != nil && scribbleOp(toks[0]) && !(k == "v" && toks[0] == "bset" && in.name == "mem" && !findingMemBatchValueAlias) {
			b = append(make([]byte, 0, len(b)+8), b...) // own backing array with spare capacity
			lent = append(lent, b)
		}
		return b
	}
	defer func() {
		for _, b := range lent {
			for i := range b {
				b[i] = 0xEE
			}
		}
	}()
	id := func() int { v, _ := hx.Arg(toks, "id"); n, _ := strconv.Atoi(v); return n }
	db := in.view
	op := toks[0]
	if strings.HasPrefix(op, "u") && op != "" && isUnder(op) {
		db = in.under
		op = op[1:]
	}
	switch op {
	case "set":
		db.Set(arg("k"), arg("v"))
		return "ok"
	case "setsync":
		db.SetSync(arg("k"), arg("v"))
		return "ok"
	case "put":
		if err := db.Put(arg("k"), arg("v")); err != nil {
			return "err"
		}
		return "ok"
	case "del":
		db.Delete(arg("k"))
		return "ok"
	case "delsync":
		db.DeleteSync(arg("k"))
		return "ok"
	case "delerr":
		if err := db.Del(arg("k")); err != nil {
			return "err"
		}
		return "ok"
	case "get":
		return found(db.Get(arg("k")))
	case "load":
		v, _ := db.Load(arg("k")) // the error value for a missing key is backend-specific (excluded)
		return found(v)
	case "has":
		return fmt.Sprint(db.Has(arg("k")))
	case "exist":
		ok, _ := db.Exist(arg("k"))
		return fmt.Sprint(ok)
	case "iter":
		return drain(db.Iterator(arg("s"), arg("e")), e.sharded)
	case "riter":
		return drain(db.ReverseIterator(arg("s"), arg("e")), e.sharded)
	case "piter":
		return drain(db.NewIteratorWithPrefix(arg("p")), e.sharded)
	case "iterprefix":
		return drain(dbm.IteratePrefix(db, arg("p")), e.sharded)
	case "bnew":
		in.batches[id()] = db.NewBatch()
		return "ok"
	case "bset", "bdel", "bwrite", "bwritesync", "bcommit", "breset":
		if in.batches[id()] == nil {
			return "nobatch"
		}
	}
	switch op {
	case "bset":
		in.batches[id()].Set(arg("k"), arg("v"))
		return "ok"
	case "bdel":
		in.batches[id()].Delete(arg("k"))
		return "ok"
	case "bwrite":
		in.batches[id()].Write()
		return "ok"
	case "bwritesync":
		in.batches[id()].WriteSync()
		return "ok"
	case "bcommit":
		if err := in.batches[id()].Commit(); err != nil {
			return "err"
		}
		return "ok"
	case "breset":
		in.batches[id()].Reset()
		return "ok"
	case "bdrop": // abandoned: never written, never looked at again
		delete(in.batches, id())
		return "ok"
	case "iopen": // a step-wise iterator: created here, advanced by istep, released by iclose
		if old := in.iters[id()]; old != nil {
			old.Close()
		}
		if r, _ := hx.Arg(toks, "rev"); r == "1" {
			in.iters[id()] = db.ReverseIterator(arg("s"), arg("e"))
		} else {
			in.iters[id()] = db.Iterator(arg("s"), arg("e"))
		}
		return "ok"
	case "istep": // Valid? then Key, Value, Next
		it := in.iters[id()]
		if it == nil {
			return "noiter"
		}
		if !it.Valid() {
			return "end"
		}
		a := hx.Hex(it.Key()) + ":" + showV(it.Value())
		it.Next()
		return a
	case "iseek": // Seek(k): the adapters restart the iterator at k (same end, same direction) and return Valid()
		it := in.iters[id()]
		if it == nil {
			return "noiter"
		}
		return fmt.Sprint(it.Seek(arg("k")))
	case "idomain":
		it := in.iters[id()]
		if it == nil {
			return "noiter"
		}
		a, b := it.Domain()
		return "s=" + showB(a) + " e=" + showB(b)
	case "ivalid":
		it := in.iters[id()]
		if it == nil {
			return "noiter"
		}
		return fmt.Sprint(it.Valid())
	case "ikey": // Key() WITHOUT asking Valid() first: must panic on an invalid iterator
		it := in.iters[id()]
		if it == nil {
			return "noiter"
		}
		return hx.Hex(it.Key())
	case "ivalue":
		it := in.iters[id()]
		if it == nil {
			return "noiter"
		}
		return showV(it.Value())
	case "inext": // Next() WITHOUT asking Valid() first
		it := in.iters[id()]
		if it == nil {
			return "noiter"
		}
		it.Next()
		return "ok"
	case "bsize":
		if in.batches[id()] == nil {
			return "nobatch"
		}
		return fmt.Sprint(in.batches[id()].ValueSize())
	case "memkeys": // MemDB only: Keys() (unordered in Go, sorted here) and Len()
		m, ok := in.under.(*dbm.MemDB)
		if !ok {
			return "n/a"
		}
		ks := m.Keys()
		sort.Slice(ks, func(i, j int) bool { return bytes.Compare(ks[i], ks[j]) < 0 })
		ss := make([]string, len(ks))
		for i, k := range ks {
			ss[i] = hx.Hex(k)
		}
		return fmt.Sprintf("len=%d keys=%s", m.Len(), strings.Join(ss, ","))
	case "dir":
		d := db.Dir()
		switch {
		case d == "":
			return "empty"
		case d == in.dir:
			return "match"
		}
		return "other"
	case "iclose":
		if it := in.iters[id()]; it != nil {
			it.Close()
			delete(in.iters, id())
		}
		return "ok"
	case "bigbatch": // n Sets into ONE batch; is anything of it visible BEFORE Write?  how much after?
		nstr, _ := hx.Arg(toks, "n")
		n, _ := strconv.Atoi(nstr)
		bt := db.NewBatch()
		val := bytes.Repeat([]byte{0x5a}, 64)
		tag, _ := hx.Arg(toks, "tag")
		key := func(i int) []byte { return []byte(fmt.Sprintf("big%s%08d", tag, i)) }
		for i := 0; i < n; i++ {
			bt.Set(key(i), val)
		}
		early := 0
		for _, i := range []int{0, n / 2, n - 1} {
			if db.Has(key(i)) {
				early++
			}
		}
		bt.Write()
		total := 0
		it := db.Iterator([]byte("big"+tag), []byte("big"+tag+"~"))
		for ; it.Valid(); it.Next() {
			total++
		}
		it.Close()
		return fmt.Sprintf("visible-before-write=%d/3 after=%d", early, total)
	case "xclose": // Close WITHOUT reopening: the following ops run on a closed store (child-process probes only)
		in.closeIters()
		in.view.Close()
		return "ok"
	case "xopen": // NewDB on the same directory, possibly with another shard count
		n := in.counts
		if c, ok := hx.Arg(toks, "counts"); ok {
			v, _ := strconv.Atoi(c)
			n = uint64(v)
		}
		in.counts = n
		in.open(e)
		return "ok"
	case "corrupt": // overwrite the head of every file of the (closed) store with garbage
		if in.dir == "" {
			return "n/a"
		}
		filepath.Walk(in.dir, func(p string, fi os.FileInfo, err error) error {
			if err == nil && fi.Mode().IsRegular() {
				if f, err := os.OpenFile(p, os.O_WRONLY, 0); err == nil {
					f.WriteAt(bytes.Repeat([]byte{0xA5}, 4096), 0)
					f.Close()
				}
			}
			return nil
		})
		return "ok"
	case "reopen":
		in.closeIters()
		in.view.Close()                 // through the view when there is one (prefixDB.Close closes the store)
		if in.typ != dbm.MemDBBackend { // Close of a MemDB is a no-op by contract; its content is the process memory
			in.open(e)
		} else {
			in.batches = map[int]dbm.Batch{}
		}
		return "ok"
	}
	return "bad-op"
}

// memBatch.Set kept the caller's value slice until Write (946c5f0 had made MemDB copy the value only when it is STORED);
// repaired by "fix: memBatch.Set copies the value too" (19bb487): the harness overwrites that buffer too (regression case).
const findingMemBatchValueAlias = true

func scribbleOp(op string) bool {
	switch op {
	case "set", "setsync", "put", "del", "delsync", "delerr", "uset", "udel", "bset", "bdel":
		return true
	}
	return false
}

func isUnder(op string) bool {
	switch op {
	case "uset", "udel", "uget", "uiter", "uriter":
		return true
	}
	return false
}

func (e *exec) Exec(op string) (ans string) {
	if tr := os.Getenv("C19_TRACE"); tr != "" { // child-process probes: leave a trail that survives a crash or a hang
		if f, err := os.OpenFile(tr, os.O_APPEND|os.O_CREATE|os.O_WRONLY, 0o644); err == nil {
			fmt.Fprintf(f, "> %s\n", op)
			f.Close()
		}
		defer func() {
			if f, err := os.OpenFile(tr, os.O_APPEND|os.O_CREATE|os.O_WRONLY, 0o644); err == nil {
				fmt.Fprintf(f, "< %s\n", ans)
				f.Close()
			}
		}()
	}
	toks := hx.Tokens(op)
	if len(toks) == 0 {
		return "bad-op"
	}
	if toks[0] == "case" {
		return e.startCase(toks)
	}
	if toks[0] == "crashprobe" {
		return crashProbe(toks)
	}
	if toks[0] == "childprobe" {
		return childProbe(toks)
	}
	if a, ok := leaf(toks); ok {
		return a
	}
	if len(e.insts) == 0 {
		return "dead"
	}
	only, hasOnly := hx.Arg(toks, "only")
	var names, answers []string
	same := true
	for _, in := range e.insts {
		if hasOnly && !strings.Contains(","+only+",", ","+in.name+",") {
			continue
		}
		a := e.one(in, toks)
		if len(answers) > 0 && a != answers[0] {
			same = false
		}
		names = append(names, in.name)
		answers = append(answers, a)
	}
	if len(answers) == 0 {
		return "all:skip"
	}
	if same {
		return "all:" + answers[0]
	}
	parts := make([]string, len(answers))
	for i := range answers {
		parts[i] = names[i] + ":" + answers[i]
	}
	return strings.Join(parts, "|")
}

// crashProbe runs a badger batch-reuse sequence in a CHILD process: before 201fd44 the panic happened in a goroutine
// spawned by badgerBatch.Write and could not be recovered in-process.  Answer: "survived <final iteration>" | "crashed".
func crashProbe(toks []string) string {
	mode, _ := hx.Arg(toks, "mode")
	seq := []string{"case backends=bdg prefix=none", "bnew id=0", "bset id=0 k=01 v=01"}
	switch mode {
	case "reset-write": // Reset, refill, Write
		seq = append(seq, "breset id=0", "bset id=0 k=02 v=02", "bwrite id=0")
	case "write-reset-write": // what libs/trie/database.go does after every Commit
		seq = append(seq, "bcommit id=0", "breset id=0", "bset id=0 k=02 v=02", "bcommit id=0")
	case "write-write": // no Reset in between: badger's batch is empty after Write (renew), so the delete below stays
		seq = append(seq, "bwrite id=0", "del k=01", "bset id=0 k=02 v=02", "bwrite id=0")
	default:
		return "bad-op"
	}
	seq = append(seq, "iter s=nil e=nil")
	wd, _ := os.Getwd()
	f := filepath.Join(wd, fmt.Sprintf("crashprobe-%d.txt", os.Getpid()))
	os.WriteFile(f, []byte(strings.Join(seq, "\n")+"\n"), 0o644)
	defer os.Remove(f)
	cmd := osexec.Command(os.Args[0], "C19", "replay", f)
	cmd.Dir = wd
	out, err := cmd.Output()
	if err != nil {
		return "crashed"
	}
	var res struct {
		Impl []string `json:"impl"`
	}
	if json.Unmarshal(out, &res) != nil || len(res.Impl) != len(seq) {
		return "crashed"
	}
	return "survived " + strings.TrimPrefix(res.Impl[len(res.Impl)-1], "all:")
}

// BadgerReuseSafe: does a reused badger batch survive?  (decides whether the generator may reuse badger batches
// in-process; on a tree without 201fd44 the harness itself would die)
func badgerReuseSafe() bool {
	return strings.HasPrefix(crashProbe([]string{"crashprobe", "mode=reset-write"}), "survived")
}

// childProbe runs a short op sequence on ONE backend in a child process with a time limit and answers with the child's
// answers to the probe ops (after the set-up ops), joined by ","; "crashed" / "hang" mark the op at which the child died or
// stopped.  Used for everything that may kill or block the process: operations on a closed store, double Close, opening a
// store whose files were overwritten, reopening a sharded store with another shard count.
func childProbe(toks []string) string {
	kind, _ := hx.Arg(toks, "kind")
	b, _ := hx.Arg(toks, "b")
	setup := []string{"case backends=" + b + " prefix=none", "set k=01 v=01", "xclose"}
	var probe []string
	switch kind {
	case "closed-reads":
		probe = []string{"get k=01", "load k=01", "exist k=01", "iter s=nil e=nil"}
	case "closed-writes":
		probe = []string{"put k=03 v=03", "delerr k=01", "bnew id=0", "bset id=0 k=04 v=04", "bcommit id=0", "set k=02 v=02"}
	case "closed-batch-write":
		probe = []string{"bnew id=0", "bset id=0 k=04 v=04", "bwrite id=0"}
	case "double-close-reopen":
		probe = []string{"xclose", "xopen", "iter s=nil e=nil"}
	case "corrupt-open":
		probe = []string{"corrupt", "xopen", "get k=01"}
	case "reshard": // written with 2 shards, reopened with 3: keys are routed by murmur3(key) % counts
		setup = []string{"case backends=" + b + " prefix=none counts=2", "set k=01 v=01", "set k=02 v=02", "set k=03 v=03", "set k=04 v=04", "xclose"}
		probe = []string{"xopen counts=3", "get k=01", "get k=02", "get k=03", "get k=04", "iter s=nil e=nil", "xclose", "xopen counts=2", "iter s=nil e=nil"}
	default:
		return "bad-op"
	}
	wd, _ := os.Getwd()
	base := filepath.Join(wd, fmt.Sprintf("childprobe-%d", os.Getpid()))
	os.WriteFile(base+".ops", []byte(strings.Join(append(setup, probe...), "\n")+"\n"), 0o644)
	os.Remove(base + ".trace")
	defer os.Remove(base + ".ops")
	defer os.Remove(base + ".trace")
	ctx, cancel := context.WithTimeout(context.Background(), 3*time.Second)
	defer cancel()
	cmd := osexec.CommandContext(ctx, os.Args[0], "C19", "replay", base+".ops")
	cmd.Dir = wd
	cmd.Env = append(os.Environ(), "C19_TRACE="+base+".trace")
	err := cmd.Run()
	hung := ctx.Err() != nil
	var answers []string
	if tr, e := os.ReadFile(base + ".trace"); e == nil {
		for _, l := range strings.Split(string(tr), "\n") {
			if strings.HasPrefix(l, "< ") {
				answers = append(answers, strings.TrimPrefix(strings.TrimPrefix(l, "< "), "all:"))
			}
		}
	}
	if len(answers) > len(setup) {
		answers = answers[len(setup):]
	} else {
		answers = nil
	}
	exit := "exit=ok"
	switch {
	case hung:
		exit = "exit=hang"
	case err != nil:
		exit = "exit=crashed" // e.g. a panic inside a goroutine spawned by Batch.Write: nobody can recover it
	}
	if kind == "closed-batch-write" {
		return exit // whether the last answer still reaches the trail before the process dies is a race
	}
	return strings.Join(append(answers, exit), ",")
}
