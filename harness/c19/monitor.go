package c19

// Monitors: the property itself, evaluated on the implementation's own answers.
//   ordered_map_equiv : every backend's answer equals the answer of an independent reference ordered map
//                       (Go map + sort, prefix views specified as "restrict to the prefix and strip it")
//   iter_order_bounds : every iterator stream is strictly monotone, inside its bounds, duplicate free
//   backends_agree    : all backends give the same answer to the same op
//   batch_atomic      : nothing of a batch is visible before its write, everything after (via the reference)
//   leaf_spec         : IsKeyInDomain / cpIncr / cpDecr / PrefixToEnd against their mathematical specification

import (
	"bytes"
	"fmt"
	"sort"
	"strings"

	"lvharness/hx"
)

type bop struct {
	del  bool
	k, v []byte
}

type refState struct {
	m       map[string][]byte
	batches map[int][]bop
	prefix  []byte
	hasPref bool
}

func (r *refState) full(k []byte, under bool) string {
	if under || !r.hasPref {
		return string(k)
	}
	return string(r.prefix) + string(k)
}

// reference iteration over the (view of the) store; forward: s <= k < e, reverse: e < k <= s (nil = unbounded)
func (r *refState) iter(s, e []byte, rev, under bool) [][2][]byte {
	var out [][2][]byte
	for fk, v := range r.m {
		k := []byte(fk)
		if !under && r.hasPref {
			if !bytes.HasPrefix(k, r.prefix) {
				continue
			}
			k = k[len(r.prefix):]
		}
		if !rev {
			if bytes.Compare(k, s) < 0 || (e != nil && bytes.Compare(k, e) >= 0) {
				continue
			}
		} else {
			if (s != nil && bytes.Compare(k, s) > 0) || (e != nil && bytes.Compare(k, e) <= 0) {
				continue
			}
		}
		out = append(out, [2][]byte{k, v})
	}
	sort.Slice(out, func(i, j int) bool {
		c := bytes.Compare(out[i][0], out[j][0])
		if rev {
			return c > 0
		}
		return c < 0
	})
	return out
}

func showKVs(kvs [][2][]byte) string {
	if len(kvs) == 0 {
		return "kv=-"
	}
	ss := make([]string, len(kvs))
	for i, x := range kvs {
		ss[i] = hx.Hex(x[0]) + ":" + hx.Hex(x[1])
	}
	return "kv=" + strings.Join(ss, ",")
}

func parseKVs(ans string) ([][2][]byte, bool) {
	if !strings.HasPrefix(ans, "kv=") {
		return nil, false
	}
	body := ans[3:]
	if body == "-" {
		return nil, true
	}
	var out [][2][]byte
	for _, p := range strings.Split(body, ",") {
		i := strings.Index(p, ":")
		if i < 0 {
			return nil, false
		}
		out = append(out, [2][]byte{hx.UnHex(p[:i]), hx.UnHex(p[i+1:])})
	}
	return out, true
}

// splitAnswers returns backend -> answer for one answer line
func splitAnswers(ans string, names []string) map[string]string {
	out := map[string]string{}
	if strings.HasPrefix(ans, "all:") {
		for _, n := range names {
			out[n] = ans[4:]
		}
		return out
	}
	for _, p := range strings.Split(ans, "|") {
		i := strings.Index(p, ":")
		if i > 0 {
			out[p[:i]] = p[i+1:]
		}
	}
	return out
}

func cpIncrSpec(b []byte) []byte { // big-endian +1 on a fixed width, nil on overflow
	r := append([]byte{}, b...)
	for i := len(r) - 1; i >= 0; i-- {
		r[i]++
		if r[i] != 0 {
			return r
		}
	}
	return nil
}

// ptoEndSpec: the least upper bound of the keys that start with p: p without its trailing ff bytes, plus one
func ptoEndSpec(p []byte) []byte {
	q := p
	for len(q) > 0 && q[len(q)-1] == 0xff {
		q = q[:len(q)-1]
	}
	if len(q) == 0 {
		return nil
	}
	return cpIncrSpec(q)
}

func cpDecrSpec(b []byte) []byte {
	r := append([]byte{}, b...)
	for i := len(r) - 1; i >= 0; i-- {
		r[i]--
		if r[i] != 0xff {
			return r
		}
	}
	return nil
}

func (P) Monitor(c *hx.CaseRun) []hx.Failure {
	var fs []hx.Failure
	seen := map[string]bool{}
	fail := func(mon, class, site, msg string) {
		if seen[mon+"/"+class] {
			return
		}
		seen[mon+"/"+class] = true
		fs = append(fs, hx.Failure{Monitor: mon, Class: class, Site: site, Msg: msg})
	}
	var names []string
	exists := map[int]bool{}
	iters := map[int][][2][]byte{} // step-wise iterators of the reference: the content as of creation
	type itMeta struct {
		s, e  []byte
		rev   bool
		under bool
	}
	itm := map[int]itMeta{}
	// KNOWN FINDING prefix-seek-no-effect: what a view iterator delivers if Seek does not move it (prefixIterator.Seek has a
	// value receiver).  An answer that differs from the reference but equals this prediction gets that class; anything else
	// keeps its generic class, so the finding hides no other violation.
	noeff := map[int][][2][]byte{}
	born := map[int]bool{}
	seeked := map[int]bool{}
	emptyRevSeek := map[int]bool{} // the last Seek of this (reverse) iterator used the empty non-nil key
	recorded := map[int]int{}      // ops recorded in a batch since bnew/breset (ValueSize laws)
	valBytes := map[int]int{}      // bytes of the values queued by Set since bnew/breset
	lastSize := map[string]int{}   // backend/id -> last ValueSize seen while recording
	var lastWritten []bop          // the ops of the batch written last (diagnosis of aliased keys)
	r := &refState{}
	sharded := false
	suffix := ""
	for i, op := range c.Ops {
		if i >= len(c.Impl) {
			break
		}
		ans := c.Impl[i]
		toks := hx.Tokens(op)
		if len(toks) == 0 {
			continue
		}
		arg := func(k string) []byte { v, _ := hx.Arg(toks, k); return bnd(v) }
		id := func() int { v, _ := hx.Arg(toks, "id"); n := 0; fmt.Sscan(v, &n); return n }
		name := toks[0]
		if name == "case" {
			bs, _ := hx.Arg(toks, "backends")
			names = hx.SplitComma(bs)
			ps, hasP := hx.Arg(toks, "prefix")
			r = &refState{m: map[string][]byte{}, batches: map[int][]bop{}}
			exists = map[int]bool{}
			iters = map[int][][2][]byte{}
			r.hasPref = hasP && ps != "none"
			if r.hasPref {
				r.prefix = hx.UnHex(ps)
			}
			if cs, ok := hx.Arg(toks, "counts"); ok && cs != "1" {
				sharded = true
				suffix = ":sharded"
			}
			continue
		}
		// ---- leaf functions against their specification
		if name == "childprobe" {
			kind, _ := hx.Arg(toks, "kind")
			b, _ := hx.Arg(toks, "b")
			parts := strings.Split(ans, ",")
			onDisk := b != "mem"
			switch kind {
			case "double-close-reopen": // a second Close is harmless and the content is still there after reopening
				if onDisk && !(len(parts) == 4 && parts[2] == "kv=01:01" && parts[3] == "exit=ok") {
					fail("durable_reopen", b+":double-close-reopen", "libs/db", fmt.Sprintf("`%s` -> %s, expected ok,ok,kv=01:01,exit=ok", op, ans))
				}
			case "reshard": // back on the original shard count everything is there again
				if onDisk && !strings.HasSuffix(ans, "kv=01:01,02:02,03:03,04:04,exit=ok") {
					fail("durable_reopen", b+":reshard-roundtrip", "libs/db/common.go:dbIndex", fmt.Sprintf("`%s` -> %s", op, clipS(ans, 200)))
				}
			case "corrupt-open": // an overwritten store either fails to open or still has its content: never a silent loss
				if onDisk && len(parts) >= 3 && parts[1] == "ok" && parts[2] != "v=01" && b != "ldb" { // goleveldb's RecoverFile fallback: an observation (durability under corruption is not this property)
					fail("durable_reopen", "open-after-corruption-loses-data-silently", "libs/db/go_level_db.go:NewGoLevelDB", fmt.Sprintf("`%s` -> %s: the store opened without an error and the committed key is gone", op, ans))
				}
			}
			continue
		}
		if name == "crashprobe" {
			mode, _ := hx.Arg(toks, "mode")
			want := map[string]string{"reset-write": "survived kv=02:02", "write-reset-write": "survived kv=01:01,02:02", "write-write": "survived kv=02:02"}[mode]
			if ans != want {
				fail("batch_reusable", "badger-batch-reuse-crash", "libs/db/badger_db.go:badgerBatch.Reset", fmt.Sprintf("a badger batch that was Reset or written and then used again: `%s` in a child process -> %s, expected %s", op, ans, want))
			}
			continue
		}
		switch name {
		case "indomain":
			k, s, e := arg("k"), arg("s"), arg("e")
			rv, _ := hx.Arg(toks, "rev")
			var want bool
			if rv == "1" {
				want = (s == nil || bytes.Compare(k, s) <= 0) && (e == nil || bytes.Compare(k, e) > 0)
			} else {
				want = bytes.Compare(k, s) >= 0 && (e == nil || bytes.Compare(k, e) < 0)
			}
			if ans != fmt.Sprint(want) {
				fail("leaf_spec", "IsKeyInDomain", "libs/db/util.go:IsKeyInDomain", fmt.Sprintf("%s -> %s, specification says %v", op, ans, want))
			}
			continue
		case "ipbounds":
			b := arg("b")
			want := "s=nil e=nil"
			if len(b) > 0 {
				want = "s=" + showB(b) + " e=" + showB(ptoEndSpec(b))
			}
			if ans != want {
				fail("leaf_spec", "IteratePrefix-bounds", "libs/db/prefix_db.go:IteratePrefix", fmt.Sprintf("%s -> %s, specification says %s", op, ans, want))
			}
			continue
		case "cpdecr":
			b := arg("b")
			want := "panic"
			if len(b) > 0 {
				want = "s=" + showB(ptoEndSpec(b)) + " e=" + showB(cpDecrSpec(b))
			}
			if ans != want && !(want == "panic" && strings.HasPrefix(ans, "panic")) {
				fail("leaf_spec", "cpDecr", "libs/db/util.go:cpDecr", fmt.Sprintf("%s -> %s, specification says %s", op, ans, want))
			}
			continue
		case "ptoend":
			// the least upper bound of the keys that start with p: p with trailing ff bytes removed, then +1
			want := showB(ptoEndSpec(arg("p")))
			if ans != want {
				fail("leaf_spec", "PrefixToEnd", "libs/db/types.go:PrefixToEnd", fmt.Sprintf("%s -> %s, specification says %s", op, ans, want))
			}
			continue
		case "ptrans":
			continue // tied to the model by the correspondence run (bound translation is an implementation detail)
		}
		if len(names) == 0 {
			continue
		}
		live := names
		if only, ok := hx.Arg(toks, "only"); ok {
			live = nil
			for _, n := range names {
				if strings.Contains(","+only+",", ","+n+",") {
					live = append(live, n)
				}
			}
		}
		got := splitAnswers(ans, live)
		under := isUnder(name)
		if under {
			name = name[1:]
		}
		switch name {
		case "bnew":
			exists[id()] = true
		}
		want := ""
		altWant := "" // prediction under the known finding prefix-seek-no-effect ("" = none)
		failK := func(n, mon, class, g, w, msg string) {
			site := "libs/db"
			if k := knownClass(n, name, under, toks, r, g, w); k != "" {
				class = k
				site = knownSites[k]
			}
			fail(mon, class, site, msg)
		}
		iterOp := false
		var ws, we []byte
		rev := false
		switch name {
		case "set", "setsync", "put":
			r.m[r.full(arg("k"), under)] = append([]byte{}, arg("v")...)
			want = "ok"
		case "del", "delsync", "delerr":
			delete(r.m, r.full(arg("k"), under))
			want = "ok"
		case "get", "load":
			if v, ok := r.m[r.full(arg("k"), under)]; ok {
				want = "v=" + hx.Hex(v)
			} else {
				want = "none"
			}
		case "has", "exist":
			_, ok := r.m[r.full(arg("k"), under)]
			want = fmt.Sprint(ok)
		case "iter":
			iterOp, ws, we = true, arg("s"), arg("e")
		case "riter":
			iterOp, ws, we, rev = true, arg("s"), arg("e"), true
		case "piter", "iterprefix":
			// specification of a prefix iteration: exactly the keys that start with p, ascending
			p := arg("p")
			var kvs [][2][]byte
			for _, x := range r.iter(nil, nil, false, under) {
				if bytes.HasPrefix(x[0], p) {
					kvs = append(kvs, x)
				}
			}
			want = showKVs(kvs)
			for _, n := range live {
				if g, ok := parseKVs(got[n]); ok {
					for _, x := range g {
						if !bytes.HasPrefix(x[0], p) {
							failK(n, "iter_order_bounds", n+":"+name+":outside-prefix"+suffix, "", "", fmt.Sprintf("`%s` on %s yields key %x", op, n, x[0]))
						}
					}
				}
			}
		case "iopen":
			rv, _ := hx.Arg(toks, "rev")
			iters[id()] = r.iter(arg("s"), arg("e"), rv == "1", under)
			itm[id()] = itMeta{arg("s"), arg("e"), rv == "1", under}
			noeff[id()] = iters[id()]
			born[id()] = len(iters[id()]) > 0
			seeked[id()] = false
			want = "ok"
		case "iseek":
			// ground truth (what all four adapters agree on): Seek(k) restarts the iterator at k, same end, same direction
			m, ok := itm[id()]
			if !ok {
				want = "noiter"
				break
			}
			kk, _ := hx.Arg(toks, "k")
			emptyRevSeek[id()] = m.rev && kk == "-"
			if r.hasPref && !m.under {
				seeked[id()] = true
				// the throw-away iterator: forward over the STORE from prefix+k to the UNPREFIXED view end
				from := append(append([]byte{}, r.prefix...), arg("k")...)
				any := false
				for fk := range r.m {
					if bytes.Compare([]byte(fk), from) >= 0 && (m.e == nil || bytes.Compare([]byte(fk), m.e) < 0) {
						any = true
					}
				}
				altWant = fmt.Sprint(born[id()] && any)
			} else {
				m.s = arg("k") // Domain() of a store iterator follows the seek; a view iterator keeps its own
			}
			itm[id()] = m
			iters[id()] = r.iter(arg("k"), m.e, m.rev, m.under)
			want = fmt.Sprint(len(iters[id()]) > 0)
		case "idomain":
			if m, ok := itm[id()]; ok {
				want = "s=" + showB(m.s) + " e=" + showB(m.e)
			} else {
				want = "noiter"
			}
		case "ivalid":
			if seeked[id()] {
				altWant = fmt.Sprint(len(noeff[id()]) > 0)
			}
			if it, ok := iters[id()]; ok {
				want = fmt.Sprint(len(it) > 0)
			} else {
				want = "noiter"
			}
		case "ikey", "ivalue":
			if seeked[id()] {
				switch ne := noeff[id()]; {
				case len(ne) == 0:
					altWant = "panic"
				case name == "ikey":
					altWant = hx.Hex(ne[0][0])
				default:
					altWant = hx.Hex(ne[0][1])
				}
			}
			it, ok := iters[id()]
			switch {
			case !ok:
				want = "noiter"
			case len(it) == 0:
				want = "panic" // "If Valid returns false, this method will panic"
			case name == "ikey":
				want = hx.Hex(it[0][0])
			default:
				want = hx.Hex(it[0][1])
			}
		case "inext":
			if ne := noeff[id()]; len(ne) > 0 {
				noeff[id()] = ne[1:]
			}
			it, ok := iters[id()]
			switch {
			case !ok:
				want = "noiter"
			case len(it) == 0:
				continue // the interface says both "will panic" and "no panic when returned to false": adapter-specific, model only
			default:
				iters[id()] = it[1:]
				want = "ok"
			}
		case "bigbatch": // atomic visibility: nothing before Write, everything after
			nstr, _ := hx.Arg(toks, "n")
			for _, n := range live {
				switch got[n] {
				case "visible-before-write=0/3 after=" + nstr:
				case "visible-before-write=2/3 after=" + nstr: // exactly the known deviation: an early part, everything after Write
					fail("batch_atomic", "big-batch-split", "libs/db/bolt_db.go:boltBatch.Set", fmt.Sprintf("`%s` on %s -> %s: a part of the batch was visible before Write", op, n, got[n]))
				default:
					fail("batch_atomic", n+":bigbatch", "libs/db", fmt.Sprintf("`%s` on %s -> %s: not everything of the batch arrived (or more than the known early part)", op, n, got[n]))
				}
			}
			continue
		case "memkeys":
			var ks []string
			for k := range r.m {
				ks = append(ks, k)
			}
			sort.Strings(ks)
			hs := make([]string, len(ks))
			for j, k := range ks {
				hs[j] = hx.Hex([]byte(k))
			}
			wantMem := fmt.Sprintf("len=%d keys=%s", len(ks), strings.Join(hs, ","))
			for _, n := range live {
				w := "n/a"
				if n == "mem" {
					w = wantMem
				}
				if got[n] != w {
					fail("ordered_map_equiv", n+":memkeys"+suffix, "libs/db/mem_db.go:Keys", fmt.Sprintf("`%s` on %s: got %s, reference says %s", op, n, clipS(got[n], 150), clipS(w, 150)))
				}
			}
			continue
		case "dir":
			for _, n := range live {
				w := "match"
				if n == "mem" || (r.hasPref && !under) {
					w = "empty"
				}
				if got[n] != w {
					fail("ordered_map_equiv", n+":dir", "libs/db", fmt.Sprintf("`%s` on %s: Dir() is %s, expected %s", op, n, got[n], w))
				}
			}
			continue
		case "bsize":
			// laws that hold for every sensible byte/op counter: 0 for a batch without recorded ops, never decreasing while recording
			for _, n := range live {
				if got[n] == "nobatch" {
					continue
				}
				var sz int
				fmt.Sscan(got[n], &sz)
				key := fmt.Sprintf("%s/%d", n, id())
				if recorded[id()] == 0 && sz != 0 {
					fail("batch_value_size", n+":valuesize-nonzero-empty", "libs/db", fmt.Sprintf("`%s` on %s: ValueSize() = %d for a batch with no recorded op", op, n, sz))
				}
				if prev, ok := lastSize[key]; ok && sz < prev {
					fail("batch_value_size", n+":valuesize-decreases", "libs/db", fmt.Sprintf("`%s` on %s: ValueSize() went from %d to %d while recording", op, n, prev, sz))
				}
				lastSize[key] = sz
			}
			continue
		case "istep":
			if seeked[id()] {
				if ne := noeff[id()]; len(ne) == 0 {
					altWant = "end"
				} else {
					altWant = hx.Hex(ne[0][0]) + ":" + hx.Hex(ne[0][1])
				}
			}
			if ne := noeff[id()]; len(ne) > 0 {
				noeff[id()] = ne[1:]
			}
			it, ok := iters[id()]
			switch {
			case !ok:
				want = "noiter"
			case len(it) == 0:
				want = "end"
			default:
				want = hx.Hex(it[0][0]) + ":" + hx.Hex(it[0][1])
				iters[id()] = it[1:]
			}
		case "iclose":
			delete(iters, id())
			want = "ok"
		case "bnew":
			r.batches[id()] = []bop{}
			recorded[id()], valBytes[id()] = 0, 0
			for _, n := range names {
				delete(lastSize, fmt.Sprintf("%s/%d", n, id()))
			}
			want = "ok"
		case "bset":
			r.batches[id()] = append(r.batches[id()], bop{false, arg("k"), append([]byte{}, arg("v")...)})
			recorded[id()]++
			valBytes[id()] += len(arg("v"))
			want = "ok"
		case "bdel":
			r.batches[id()] = append(r.batches[id()], bop{true, arg("k"), nil})
			recorded[id()]++
			want = "ok"
		case "bwrite", "bwritesync", "bcommit":
			lastWritten = r.batches[id()]
			for _, n := range names {
				delete(lastSize, fmt.Sprintf("%s/%d", n, id()))
			}
			recorded[id()] = 1 << 20 // what the batch still holds after Write is adapter-specific: no "empty" claim until Reset
			for _, o := range r.batches[id()] {
				if o.del {
					delete(r.m, r.full(o.k, false))
				} else {
					r.m[r.full(o.k, false)] = o.v
				}
			}
			want = "ok"
		case "breset":
			r.batches[id()] = nil
			recorded[id()], valBytes[id()] = 0, 0
			for _, n := range names {
				delete(lastSize, fmt.Sprintf("%s/%d", n, id()))
			}
			want = "ok"
		case "bdrop":
			delete(r.batches, id())
			delete(exists, id())
			want = "ok"
		case "reopen":
			r.batches = map[int][]bop{}
			iters = map[int][][2][]byte{}
			exists = map[int]bool{}
			want = "ok"
		default:
			continue
		}
		switch name {
		case "bset", "bdel", "bwrite", "bwritesync", "bcommit", "breset":
			if exists[id()] == false {
				want = "nobatch"
			}
		}
		if iterOp {
			wkv := r.iter(ws, we, rev, under)
			if sharded {
				sort.Slice(wkv, func(i, j int) bool { return bytes.Compare(wkv[i][0], wkv[j][0]) < 0 })
			}
			want = showKVs(wkv)
			for _, n := range live {
				g, ok := parseKVs(got[n])
				if !ok {
					continue
				}
				for j, x := range g {
					if j > 0 {
						cmp := bytes.Compare(g[j-1][0], x[0])
						if cmp == 0 {
							failK(n, "iter_order_bounds", n+":"+name+":duplicate"+suffix, "", "", fmt.Sprintf("`%s` on %s yields key %x twice", op, n, x[0]))
						} else if !sharded && ((!rev && cmp > 0) || (rev && cmp < 0)) {
							failK(n, "iter_order_bounds", n+":"+name+":order"+suffix, "", "", fmt.Sprintf("`%s` on %s: %x then %x", op, n, g[j-1][0], x[0]))
						}
					}
					k := x[0]
					inside := false
					if !rev {
						inside = bytes.Compare(k, ws) >= 0 && (we == nil || bytes.Compare(k, we) < 0)
					} else {
						inside = (ws == nil || bytes.Compare(k, ws) <= 0) && (we == nil || bytes.Compare(k, we) > 0)
					}
					if !inside {
						failK(n, "iter_order_bounds", n+":"+name+":bounds"+suffix, "", "", fmt.Sprintf("`%s` on %s yields key %x outside the bounds", op, n, k))
					}
				}
			}
		}
		var devs []string
		pending := false
		for _, b := range r.batches {
			if len(b) > 0 {
				pending = true
			}
		}
		if c.Tags["emptykey"] {
			continue // what bolt and badger do with the empty key is engine-specific (see Rule): tied to the per-engine model only
		}
		if c.Tags["rewrite"] {
			continue // a batch written again without Reset: what it still holds is adapter-specific (see Rule); structural checks only
		}
		for _, n := range live {
			if r.hasPref && len(r.prefix) == 0 && got[n] == "panic" {
				continue // malformed stream: a PrefixDB with the empty prefix (cpIncr's contract is len > 0)
			}
			if got[n] != want {
				mon, kind := "ordered_map_equiv", opKind(name)
				if pending && (kind == "lookup" || kind == "iter" || kind == "riter" || kind == "prefix-iter") {
					mon = "batch_atomic" // a batch is pending: nothing of it may be visible yet
				}
				if under {
					kind = "under-" + kind
				}
				devs = append(devs, n)
				if altWant != "" && got[n] == altWant {
					fail("seek_repositions", "prefix-seek-no-effect", "libs/db/prefix_db.go:prefixIterator.Seek", fmt.Sprintf("`%s` (op %d) on %s: got %s, the reference says %s: the iterator of the prefix view is where it was before Seek", op, i, n, clipS(got[n], 100), clipS(want, 100)))
					continue
				}
				if cls := scribbled(got[n], want); cls != "" { // 0xEE = the harness's overwrite of a buffer it had lent to a write
					site := "libs/db/mem_db.go:SetNoLockSync"
					if cls == "batch-keeps-caller-key" {
						site = "libs/db:Batch.Set/Delete"
					}
					fail("caller_buffers_copied", cls, site, fmt.Sprintf("`%s` (op %d) on %s: got %s, reference says %s: the store shows the bytes the caller wrote into ITS buffer after the call", op, i, n, clipS(got[n], 100), clipS(want, 100)))
					continue
				}
				if n == "bdg" && emptyRevSeek[id()] && opKind(name) != "lookup" && (strings.HasPrefix(name, "i")) {
					fail("seek_repositions", "badger-seek-empty-reverse", "libs/db/badger_db.go:badgerIterator.Seek", fmt.Sprintf("`%s` (op %d) on bdg after Seek with the empty key on a reverse iterator: got %s, reference says %s", op, i, clipS(got[n], 100), clipS(want, 100)))
					continue
				}
				if aliasedBatch(lastWritten, got[n], want) {
					fail("batch_atomic", "batch-keeps-only-last-key", "libs/db/prefix_db.go:prefixBatch.Set", fmt.Sprintf("`%s` (op %d) on %s after a written batch with several keys: only the key of the LAST recorded op arrived (got %s, reference says %s): the recorded keys alias one buffer", op, i, n, clipS(got[n], 120), clipS(want, 120)))
					continue
				}
				failK(n, mon, n+":"+kind+suffix, got[n], want, fmt.Sprintf("`%s` (op %d) on %s: got %s, reference ordered map says %s", op, i, n, clipS(got[n], 200), clipS(want, 200)))
			}
		}
		if !strings.HasPrefix(ans, "all:") {
			class := ""
			for _, n := range devs {
				k := knownClass(n, name, under, toks, r, got[n], want)
				if k == "" {
					class = ""
					break
				}
				class = k
			}
			if class == "" {
				class = "disagree:" + opKind(name) + suffix
			}
			fail("backends_agree", class, "libs/db", fmt.Sprintf("backends differ on `%s`: %s", op, clipS(ans, 300)))
		}
	}
	return fs
}

// knownClass: no recorded finding is open any more (all five were repaired in the repository); every failure
// keeps its generic class <backend>:<op kind>.
func knownClass(n, name string, under bool, toks []string, r *refState, got, want string) string {
	return ""
}

var knownSites = map[string]string{}

// aliasedBatch: the last written batch set >= 2 distinct keys, the reference lists them, and the implementation lists,
// of those keys, only the one of the batch's last op
func aliasedBatch(b []bop, got, want string) bool {
	keys := map[string]bool{}
	last := ""
	for _, o := range b {
		if !o.del {
			keys[string(o.k)] = true
		}
		last = string(o.k)
	}
	g, ok1 := parseKVs(got)
	w, ok2 := parseKVs(want)
	if len(keys) < 2 || !ok1 || !ok2 {
		return false
	}
	inGot, inWant := map[string]bool{}, 0
	for _, x := range g {
		inGot[string(x[0])] = true
	}
	for _, x := range w {
		if keys[string(x[0])] {
			inWant++
		}
	}
	if inWant < 2 {
		return false
	}
	n := 0
	for k := range keys {
		if inGot[k] {
			n++
		}
	}
	return n <= 1 && (n == 0 || inGot[last])
}

// scribbled: does the answer show the harness's 0xEE overwrite where the reference has real bytes?  keys -> the batch (or store)
// kept the caller's key slice; values -> it kept the value slice
func scribbled(got, want string) string {
	allEE := func(b []byte) bool {
		if len(b) == 0 {
			return false
		}
		for _, x := range b {
			if x != 0xEE {
				return false
			}
		}
		return true
	}
	if strings.HasPrefix(got, "v=") && got != want {
		if allEE(hx.UnHex(got[2:])) {
			return "memdb-keeps-caller-value"
		}
		return ""
	}
	g, ok1 := parseKVs(got)
	w, ok2 := parseKVs(want)
	if !ok1 || !ok2 {
		if i := strings.Index(got, ":"); i > 0 && !strings.Contains(got, "=") && got != want { // istep answer k:v
			k, v := hx.UnHex(got[:i]), hx.UnHex(got[i+1:])
			if allEE(k) && !strings.HasPrefix(want, got[:i]+":") {
				return "batch-keeps-caller-key"
			}
			if allEE(v) {
				return "memdb-keeps-caller-value"
			}
		}
		return ""
	}
	wk := map[string]string{}
	for _, x := range w {
		wk[string(x[0])] = string(x[1])
	}
	for _, x := range g {
		if _, ok := wk[string(x[0])]; !ok && allEE(x[0]) {
			return "batch-keeps-caller-key"
		}
	}
	for _, x := range g {
		if v, ok := wk[string(x[0])]; ok && v != string(x[1]) && allEE(x[1]) {
			return "memdb-keeps-caller-value"
		}
	}
	return ""
}

func clipS(s string, n int) string {
	if len(s) <= n {
		return s
	}
	return s[:n] + "..."
}

func opKind(name string) string {
	name = strings.TrimPrefix(name, "u")
	switch name {
	case "get", "load", "has", "exist":
		return "lookup"
	case "iter":
		return "iter"
	case "riter":
		return "riter"
	case "piter", "iterprefix":
		return "prefix-iter"
	case "set", "setsync", "put", "del", "delsync", "delerr":
		return "write"
	case "reopen":
		return "reopen"
	case "iopen", "istep", "iclose", "ivalid", "ikey", "ivalue", "inext":
		return "stepwise-iter"
	case "iseek", "idomain":
		return "seek"
	}
	if strings.HasPrefix(name, "b") {
		return "batch"
	}
	return name
}
