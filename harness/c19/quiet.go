package c19

import (
	"os"
	"syscall"

	"github.com/lianxiangcloud/linkchain/libs/log"
)

// The adapters log binary keys (bolt: "Get failed. KeyNotFound" on every miss) and badger logs to stderr;
// bin/check decodes the harness output as UTF-8, so the repo logger is discarded and fd 2 goes to /dev/null.
func init() { quiet() }

func quiet() {
	log.Root().SetHandler(log.DiscardHandler())
	if os.Getenv("C19_STDERR") != "" { // debugging: keep badger's log and Go's fatal messages
		return
	}
	if f, err := os.OpenFile(os.DevNull, os.O_WRONLY, 0); err == nil {
		syscall.Dup2(int(f.Fd()), 2)
	}
}
