package c19

import (
	"bytes"
	"fmt"
	"strings"

	"lvharness/hx"
)

type cg struct {
	g         *hx.Gen
	keys      [][]byte // key universe of the case (view keys)
	bounds    []string // iterator bound tokens
	ops       []string
	hasBdg    bool
	emptyOK   bool // the empty / nil key may be used
	live      map[string]bool
	nextB     int
	open      map[int]string // batch id -> "fresh" | "used" (written/reset at least once)
	pend      map[int]int    // ops in the batch
	bigIter   bool
	effect    bool
	noREmpty  bool              // no empty-but-non-nil reverse start bound (unused since afaf3d1)
	bdgOnce   bool              // badger batches single-use (only on a tree where reuse kills the process)
	view      bool              // the case runs through a PrefixDB view
	emptyVals bool              // empty and nil VALUES too (Set(k, nil) stores the empty value; the key exists afterwards)
	rewrite   bool              // written batches may be written again without Reset
	stepwise  bool              // step-wise iterators (iopen/istep/iclose) interleaved with reads and with writes OUTSIDE their domains
	itOpen    map[int][3]string // id -> s, e, rev
	nextIt    int
}

// inDomain: the interface's ranges (forward s <= k < e, reverse e < k <= s; nil = unbounded, nil start forward = empty)
func inDomain(k []byte, s, e string, rev bool) bool {
	sb, eb := bnd(s), bnd(e)
	if !rev {
		return bytes.Compare(k, sb) >= 0 && (eb == nil || bytes.Compare(k, eb) < 0)
	}
	return (sb == nil || bytes.Compare(k, sb) <= 0) && (eb == nil || bytes.Compare(k, eb) > 0)
}

// writable: the contract of types.go - no write within the domain of an existing iterator
func (c *cg) writable(k string) bool {
	kb := bnd(k)
	if kb == nil {
		kb = []byte{}
	}
	for _, d := range c.itOpen {
		// a Seek may move the start anywhere: the domain that must stay unwritten is everything up to the END bound
		if inDomain(kb, "nil", d[1], d[2] == "1") {
			return false
		}
	}
	return true
}

func (c *cg) keyOutside() string {
	for i := 0; i < 12; i++ {
		if k := c.key(); c.writable(k) {
			return k
		}
	}
	return ""
}

func (c *cg) closeIters() {
	for id := 0; id < c.nextIt; id++ {
		if _, ok := c.itOpen[id]; ok {
			c.emit(fmt.Sprintf("iclose id=%d", id))
			delete(c.itOpen, id)
		}
	}
}

func (c *cg) step() {
	g := c.g
	if c.stepwise {
		if len(c.itOpen) > 0 && c.rnd(100) < 45 {
			var ids []int
			for id := 0; id < c.nextIt; id++ {
				if _, ok := c.itOpen[id]; ok {
					ids = append(ids, id)
				}
			}
			id := ids[c.rnd(len(ids))]
			switch r := c.rnd(100); {
			case r < 12:
				c.emit(fmt.Sprintf("iclose id=%d", id))
				delete(c.itOpen, id)
				g.Count("op:iclose")
				return
			case r < 30:
				// Seek at every relation to the key set and to the iterator's own domain: before the first key, on a key,
				// between keys, after the last, outside [start, end), nil, on an exhausted iterator
				k := c.bound()
				c.emit(fmt.Sprintf("iseek id=%d k=%s", id, k))
				g.Count("op:iseek")
				g.Count("seek-key:" + boundKind(k))
				return
			case r < 36:
				c.emit(fmt.Sprintf("idomain id=%d", id))
				g.Count("op:idomain")
				return
			case r < 40:
				c.emit(fmt.Sprintf("ivalid id=%d", id))
				return
			case r < 46:
				c.emit(fmt.Sprintf("%s id=%d", []string{"ikey", "ivalue", "inext"}[c.rnd(3)], id))
				g.Count("op:ikey/ivalue/inext")
				return
			}
			{
				c.emit(fmt.Sprintf("istep id=%d", id))
				g.Count("op:istep")
			}
			return
		}
		if len(c.itOpen) < 2 && c.rnd(100) < 8 {
			id := c.nextIt
			c.nextIt++
			s, e, rev := c.bound(), c.bound(), fmt.Sprint(c.rnd(2))
			c.emit(fmt.Sprintf("iopen id=%d s=%s e=%s rev=%s", id, s, e, rev))
			c.itOpen[id] = [3]string{s, e, rev}
			g.Count("op:iopen")
			return
		}
	}
	c.step0()
}

func (c *cg) rnd(n int) int { return c.g.Rng.Intn(n) }

func (c *cg) val() string {
	if c.emptyVals && c.rnd(100) < 35 {
		c.g.Count("value-len:0")
		return []string{"-", "nil"}[c.rnd(2)]
	}
	r := c.rnd(100)
	n := 1 + c.rnd(4)
	switch {
	case r < 8:
		n = 33 + c.rnd(40) // above badger's ValueThreshold (value log)
	case r < 10:
		n = 200 + c.rnd(5000)
	}
	b := make([]byte, n)
	c.g.Rng.Read(b)
	if n > 8 { // long values: keep them compressible and recognisable
		for i := 8; i < n; i++ {
			b[i] = b[i%8]
		}
	}
	c.g.Count(fmt.Sprintf("value-len:%s", bucket(n)))
	return hx.Hex(b)
}

func bucket(n int) string {
	switch {
	case n <= 4:
		return "1-4"
	case n <= 32:
		return "5-32"
	case n <= 100:
		return "33-100"
	}
	return ">100"
}

func (c *cg) key() string {
	k := c.keys[c.rnd(len(c.keys))]
	if len(k) == 0 && c.rnd(2) == 0 {
		c.g.Count("key:nil")
		return "nil"
	}
	return hx.Hex(k)
}

func (c *cg) bound() string { return c.bounds[c.rnd(len(c.bounds))] }

// universe builds the key shapes: empty, 00, ff, shared prefixes, 0xff tails, binary
func universe(g *hx.Gen, emptyOK bool) [][]byte {
	var ks [][]byte
	add := func(b ...byte) { ks = append(ks, append([]byte{}, b...)) }
	base := byte(0x10 + g.Rng.Intn(0xd0))
	if emptyOK {
		add()
	}
	shapes := g.Rng.Perm(12)[:5+g.Rng.Intn(5)]
	for _, s := range shapes {
		switch s {
		case 0:
			add(0x00)
		case 1:
			add(0xff)
		case 2:
			add(base)
		case 3:
			add(base, 0x00)
		case 4:
			add(base, 0xff)
		case 5:
			add(base, 0xff, 0xff)
		case 6:
			add(base, base)
		case 7:
			add(base + 1)
		case 8:
			add(base-1, 0xff)
		case 9:
			add(0xff, 0xff)
		case 10:
			b := make([]byte, 1+g.Rng.Intn(6))
			g.Rng.Read(b)
			add(b...)
		case 11:
			add(base, 0x00, 0x00)
			add(0x00, 0x00)
		}
	}
	// distinct
	seen := map[string]bool{}
	var out [][]byte
	for _, k := range ks {
		if !seen[string(k)] {
			seen[string(k)] = true
			out = append(out, k)
		}
	}
	return out
}

func boundsOf(g *hx.Gen, keys [][]byte) []string {
	bs := []string{"nil", "nil", "-"}
	for _, k := range keys {
		bs = append(bs, hx.Hex(k))
		if len(k) > 0 {
			bs = append(bs, hx.Hex(append(append([]byte{}, k...), 0x00)))
			if inc := cpIncrSpec(k); inc != nil && g.Rng.Intn(2) == 0 {
				bs = append(bs, hx.Hex(inc))
			}
			if g.Rng.Intn(3) == 0 {
				bs = append(bs, hx.Hex(k[:len(k)-1]))
			}
		}
	}
	return bs
}

func (c *cg) emit(op string) { c.ops = append(c.ops, op) }

func (c *cg) step0() {
	g := c.g
	r := c.rnd(100)
	switch {
	case r < 22:
		k := c.keyOutside()
		if k == "" {
			c.emit(fmt.Sprintf("get k=%s", c.key()))
			return
		}
		op := []string{"set", "set", "setsync", "put"}[c.rnd(4)]
		c.emit(fmt.Sprintf("%s k=%s v=%s", op, k, c.val()))
		c.live[strings.Replace(k, "nil", "-", 1)] = true
		g.Count("op:" + op)
	case r < 32:
		k := c.keyOutside()
		if k == "" {
			c.emit(fmt.Sprintf("has k=%s", c.key()))
			return
		}
		op := []string{"del", "del", "delsync", "delerr"}[c.rnd(4)]
		c.emit(fmt.Sprintf("%s k=%s", op, k))
		kk := strings.Replace(k, "nil", "-", 1)
		if c.live[kk] {
			c.effect = true
			g.Count("delete-of-live-key")
		}
		delete(c.live, kk)
		g.Count("op:" + op)
	case r < 34:
		c.emit([]string{"memkeys", "dir"}[c.rnd(2)])
		g.Count("op:memkeys/dir")
	case r < 46:
		op := []string{"get", "get", "has", "load", "exist"}[c.rnd(5)]
		c.emit(fmt.Sprintf("%s k=%s", op, c.key()))
		g.Count("op:" + op)
	case r < 60:
		s, e := c.bound(), c.bound()
		c.emit(fmt.Sprintf("iter s=%s e=%s", s, e))
		g.Count("op:iter")
		g.Count("iter-bounds:" + boundKind(s) + "/" + boundKind(e))
		if len(c.live) >= 2 {
			c.bigIter = true
		}
	case r < 74:
		s, e := c.bound(), c.bound()
		for c.noREmpty && s == "-" {
			s = c.bound()
		}
		c.emit(fmt.Sprintf("riter s=%s e=%s", s, e))
		g.Count("op:riter")
		g.Count("riter-bounds:" + boundKind(s) + "/" + boundKind(e))
		if len(c.live) >= 2 {
			c.bigIter = true
		}
	case r < 79:
		p := c.bound()
		if p == "nil" && c.rnd(2) == 0 {
			p = "-"
		}
		op := []string{"piter", "iterprefix"}[c.rnd(2)]
		c.emit(fmt.Sprintf("%s p=%s", op, p))
		g.Count("op:" + op)
	case r < 97:
		c.batchStep()
	default:
		// no batch and no iterator survives a reopen
		c.closeIters()
		c.emit("reopen")
		c.open, c.pend = map[int]string{}, map[int]int{}
		c.effect = true
		g.Count("op:reopen")
	}
}

func boundKind(b string) string {
	if b == "nil" || b == "-" {
		return b
	}
	return "key"
}

func (c *cg) batchStep() {
	g := c.g
	var ids []int
	for id := 0; id < c.nextB; id++ {
		if _, ok := c.open[id]; ok {
			ids = append(ids, id)
		}
	}
	if len(ids) == 0 || (len(ids) < 3 && c.rnd(6) == 0) {
		id := c.nextB
		c.nextB++
		c.emit(fmt.Sprintf("bnew id=%d", id))
		c.open[id] = "fresh"
		c.pend[id] = 0
		g.Count("op:bnew")
		for n := c.rnd(5); n > 0; n-- { // fill it at once so that written batches carry several, possibly conflicting, ops
			if c.rnd(3) == 0 {
				c.emit(fmt.Sprintf("bdel id=%d k=%s", id, c.key()))
				g.Count("op:bdel")
			} else {
				c.emit(fmt.Sprintf("bset id=%d k=%s v=%s", id, c.key(), c.val()))
				g.Count("op:bset")
			}
			c.pend[id]++
		}
		return
	}
	id := ids[c.rnd(len(ids))]
	if c.rnd(100) < 8 {
		c.emit(fmt.Sprintf("bsize id=%d", id))
		g.Count("op:bsize")
		return
	}
	r := c.rnd(100)
	switch {
	case r < 45:
		k := c.key()
		c.emit(fmt.Sprintf("bset id=%d k=%s v=%s", id, k, c.val()))
		c.pend[id]++
		g.Count("op:bset")
	case r < 65:
		c.emit(fmt.Sprintf("bdel id=%d k=%s", id, c.key()))
		c.pend[id]++
		g.Count("op:bdel")
	case r < 88:
		if len(c.itOpen) > 0 {
			c.closeIters() // a batch may hold keys inside an open iterator's domain: release the iterators first
		}
		op := []string{"bwrite", "bwrite", "bwritesync", "bcommit"}[c.rnd(4)]
		c.emit(fmt.Sprintf("%s id=%d", op, id))
		g.Count("op:" + op)
		if c.pend[id] > 0 {
			c.effect = true
			g.Count("batch-written-nonempty")
			// recompute liveness lazily: treat all universe keys as possibly live
			for _, k := range c.keys {
				c.live[hx.Hex(k)] = true
			}
		}
		switch {
		case c.hasBdg && c.bdgOnce:
			c.emit(fmt.Sprintf("bdrop id=%d", id))
			delete(c.open, id)
		case c.rewrite && c.rnd(2) == 0:
			// no Reset: memBatch and goleveldb still hold the ops, bolt and badger are empty (model: batchAfterWrite)
			c.open[id] = "used"
			g.Count("batch-kept-after-write-without-reset")
		default:
			c.emit(fmt.Sprintf("breset id=%d", id))
			c.open[id] = "used"
			c.pend[id] = 0
			g.Count("batch-reused-after-write")
		}
	case r < 95:
		c.emit(fmt.Sprintf("breset id=%d", id))
		g.Count("op:breset")
		if c.pend[id] > 0 {
			g.Count("batch-reset-nonempty")
		}
		if c.hasBdg && c.bdgOnce {
			c.emit(fmt.Sprintf("bdrop id=%d", id))
			delete(c.open, id)
		} else {
			c.pend[id] = 0
		}
	default:
		c.emit(fmt.Sprintf("bdrop id=%d", id))
		if c.pend[id] > 0 {
			g.Count("batch-abandoned-nonempty")
		}
		delete(c.open, id)
		g.Count("op:bdrop")
	}
}

func prefixShapes(g *hx.Gen) []byte {
	base := byte(0x10 + g.Rng.Intn(0xd0))
	switch g.Rng.Intn(9) {
	case 0:
		return []byte{0xff}
	case 1:
		return []byte{0xff, 0xff}
	case 2:
		return []byte{0x00}
	case 3:
		return []byte{0x00, 0x00}
	case 4:
		return []byte{base, 0xff}
	case 5:
		return []byte{base, 0x00}
	case 6:
		return []byte{base}
	case 7:
		return []byte{base, base + 1, 0xff, 0xff}
	}
	b := make([]byte, 1+g.Rng.Intn(4))
	g.Rng.Read(b)
	return b
}

// neighbours of a prefix in the underlying store: just below, the prefix itself is reached through the
// empty view key, cpIncr(prefix) exactly (PrefixDB's skipOne), above, truncated prefix
func noise(g *hx.Gen, p []byte, emptyOK bool) [][]byte {
	var ks [][]byte
	if inc := cpIncrSpec(p); inc != nil {
		ks = append(ks, inc, append(append([]byte{}, inc...), 0x00))
	}
	if dec := cpDecrSpec(p); dec != nil {
		ks = append(ks, dec, append(append([]byte{}, dec...), 0xff), append(append([]byte{}, dec...), 0xff, 0xff))
	}
	if len(p) > 1 {
		ks = append(ks, p[:len(p)-1])
	}
	{ // the true least upper bound of the prefix (PrefixToEnd): differs from cpIncr when the prefix ends in ff
		q := p
		for len(q) > 0 && q[len(q)-1] == 0xff {
			q = q[:len(q)-1]
		}
		if len(q) > 0 {
			ks = append(ks, cpIncrSpec(q))
		}
	}
	ks = append(ks, []byte{0x00}, []byte{0xff, 0xff, 0xff})
	if emptyOK {
		ks = append(ks, []byte{})
	}
	var out [][]byte
	for _, k := range ks {
		if len(k) >= len(p) && string(k[:len(p)]) == string(p) {
			continue
		}
		if g.Rng.Intn(4) != 0 {
			out = append(out, k)
		}
	}
	return out
}

func (P) Generate(g *hx.Gen) {
	// ---- corpus: the literal examples of the interface documentation and the in-tree iterator tables
	g.Case("corpus basic", []string{"case backends=mem,ldb,bolt,bdg prefix=none",
		"set k=61 v=01", "set k=62 v=02", "set k=6162 v=03", "get k=61", "has k=63", "iter s=nil e=nil", "riter s=nil e=nil",
		"iter s=61 e=62", "riter s=62 e=61", "piter p=61", "iterprefix p=61", "del k=61", "iter s=nil e=nil", "reopen", "iter s=nil e=nil", "get k=61"}, true)
	g.Case("corpus prefix ff", []string{"case backends=mem,ldb,bolt,bdg prefix=ff",
		"uset k=fe v=01", "uset k=feff v=02", "set k=- v=03", "set k=ff v=04", "set k=00 v=05", "iter s=nil e=nil", "riter s=nil e=nil", "uiter s=nil e=nil",
		"riter s=ff e=nil", "riter s=nil e=00", "piter p=ff", "iterprefix p=ff"}, true)
	g.Case("corpus batch", []string{"case backends=mem,ldb,bolt,bdg prefix=none",
		"set k=01 v=aa", "bnew id=0", "bset id=0 k=02 v=bb", "bdel id=0 k=01", "bset id=0 k=01 v=cc", "bdel id=0 k=02", "bset id=0 k=03 v=dd",
		"get k=01", "get k=02", "iter s=nil e=nil", "bwrite id=0", "bdrop id=0", "get k=01", "get k=02", "get k=03", "iter s=nil e=nil"}, true)

	// ---- corpus: the witnesses of the five repaired findings (they must now give the reference answers)
	g.Case("corpus fixed cpincr-prefix-overrun (IteratePrefix)", []string{"case backends=mem,ldb,bolt,bdg prefix=none",
		"set k=66ff v=01", "set k=67 v=02", "iterprefix p=66ff", "piter p=66ff"}, false)
	g.Case("corpus fixed cpincr-prefix-overrun (PrefixDB.ReverseIterator)", []string{"case backends=mem,ldb,bolt,bdg prefix=66ff",
		"uset k=67 v=02", "set k=01 v=01", "riter s=nil e=nil", "riter s=01 e=nil", "iter s=nil e=nil"}, false)
	g.Case("corpus fixed ldb-load-exist-deleted-key", []string{"case backends=mem,ldb,bolt,bdg prefix=none",
		"set k=01 v=01", "del k=01", "exist k=01", "load k=01", "has k=01", "get k=01", "reopen", "exist k=01"}, false)
	g.Case("corpus fixed bdg-riter-empty-start", []string{"case backends=mem,ldb,bolt,bdg prefix=none",
		"set k=01 v=01", "riter s=- e=nil", "riter s=nil e=nil"}, false)
	g.Case("corpus fixed sharded-iter-duplicate", []string{"case backends=mem,ldb,bolt,bdg prefix=none counts=4",
		"set k=01 v=01", "set k=02 v=02", "set k=03 v=03", "set k=04 v=04", "iter s=nil e=nil", "iter s=02 e=03", "iter s=03 e=04", "iter s=04 e=05", "iter s=01 e=02"}, false)
	g.Case("corpus fixed badger-batch-reuse-crash (child process)", []string{"case backends=-", "crashprobe mode=reset-write", "crashprobe mode=write-reset-write", "crashprobe mode=write-write"}, false)
	bdgOnce := !badgerReuseSafe()
	if bdgOnce {
		g.Count("badger-batch-reuse-unsafe:single-use-batches")
	} else {
		g.Case("corpus fixed badger-batch-reuse (in process)", []string{"case backends=mem,ldb,bolt,bdg prefix=none",
			"bnew id=0", "bset id=0 k=01 v=01", "bcommit id=0", "breset id=0", "get k=01", "bset id=0 k=02 v=02", "bdel id=0 k=01", "get k=02", "bcommit id=0",
			"iter s=nil e=nil", "breset id=0", "bset id=0 k=03 v=03", "breset id=0", "bwrite id=0", "iter s=nil e=nil"}, true)
		g.Case("corpus batch written twice without reset", []string{"case backends=mem,ldb,bolt,bdg prefix=none tags=rewrite",
			"bnew id=0", "bset id=0 k=01 v=01", "bwrite id=0", "del k=01", "bwrite id=0", "get k=01", "bset id=0 k=02 v=02", "bwrite id=0", "iter s=nil e=nil"}, false)
	}

	g.Case("corpus prefix batch: every Set keeps its own key (prefix slice with spare capacity)", []string{"case backends=mem,ldb,bolt,bdg prefix=70",
		"bnew id=0", "bnew id=1", "bset id=0 k=01 v=01", "bset id=1 k=0a v=0a", "bset id=0 k=02 v=02", "bdel id=1 k=01", "bset id=0 k=03 v=03", "bset id=1 k=0b v=0b",
		"iter s=nil e=nil", "bwrite id=0", "iter s=nil e=nil", "uiter s=nil e=nil", "bwrite id=1", "iter s=nil e=nil", "breset id=0", "bset id=0 k=04 v=04", "bset id=0 k=05 v=05", "bcommit id=0", "iter s=nil e=nil"}, true)
	g.Case("corpus step-wise iterators under the contract (writes outside the domain only)", []string{"case backends=mem,ldb,bolt,bdg prefix=none",
		"set k=01 v=01", "set k=03 v=03", "set k=05 v=05", "set k=07 v=07", "iopen id=0 s=02 e=06 rev=0", "iopen id=1 s=06 e=02 rev=1", "istep id=0", "set k=07 v=77", "del k=01", "set k=0600 v=06",
		"istep id=1", "istep id=0", "get k=03", "istep id=0", "istep id=1", "istep id=1", "iter s=nil e=nil", "istep id=0", "iclose id=0", "iclose id=1", "istep id=0"}, true)
	g.Case("corpus empty key per engine", []string{"case backends=mem,ldb,bolt,bdg prefix=none tags=emptykey",
		"set k=01 v=01", "set k=- v=aa", "put k=- v=ab", "setsync k=nil v=ac", "get k=-", "load k=-", "has k=-", "exist k=-", "iter s=nil e=nil", "del k=-", "delerr k=-",
		"bnew id=0", "bset id=0 k=- v=bb", "bset id=0 k=02 v=02", "bdel id=0 k=-", "bwrite id=0", "iter s=nil e=nil", "riter s=nil e=nil", "get k=nil"}, true)

	// ---- child-process probes: closed stores, double Close, overwritten files, another shard count (pinned table in the model)
	{
		ops := []string{"case backends=-"}
		for _, k := range []string{"closed-reads", "closed-writes", "closed-batch-write", "double-close-reopen", "corrupt-open", "reshard"} {
			for _, b := range []string{"mem", "ldb", "bolt", "bdg"} {
				if g.Thorough() || !(k == "closed-writes" && b == "bdg") { // that one blocks until the 3 s limit: thorough tier only
					ops = append(ops, fmt.Sprintf("childprobe kind=%s b=%s", k, b))
				}
			}
		}
		g.Count("kind:childprobes")
		g.Case("child probes: closed store, double close, corrupt files, reshard", ops, true)
	}
	// ---- batches of a few thousand ops stay atomic on every backend; beyond bolt's 100000 ops / badger's transaction size the
	// adapters write a part by themselves BEFORE Write (known finding big-batch-split)
	g.Case("big batch below every limit", []string{"case backends=mem,ldb,bolt,bdg prefix=none", "bigbatch n=3000 tag=a", "bigbatch n=1 tag=b", "bigbatch n=0 tag=c"}, true)
	{ // KNOWN FINDING big-batch-split
		g.Case("big batch beyond badger's transaction size", []string{"case backends=mem,ldb,bdg prefix=none", "bigbatch n=40000 tag=a"}, true)
		g.Case("big batch beyond boltMaxBatchSize", []string{"case backends=mem,bolt prefix=none", "bigbatch n=100001 tag=a"}, true)
	}
	g.Case("corpus batch laws: same keys set and deleted in different orders, Write = WriteSync = Commit, empty batch, reuse", []string{"case backends=mem,ldb,bolt,bdg prefix=none",
		"bnew id=0", "bnew id=1", "bnew id=2", "bsize id=0",
		"bset id=0 k=01 v=0a", "bdel id=0 k=01", "bset id=0 k=02 v=0b", "bset id=0 k=02 v=0c", "bdel id=0 k=03", "bsize id=0",
		"bdel id=1 k=11", "bset id=1 k=11 v=1a", "bset id=1 k=12 v=1c", "bset id=1 k=12 v=1b", "bset id=1 k=13 v=1d", "bsize id=1",
		"bwrite id=2", "iter s=nil e=nil", "bwrite id=0", "iter s=nil e=nil", "bwritesync id=1", "iter s=nil e=nil",
		"breset id=0", "breset id=1", "bsize id=0", "bset id=0 k=11 v=2a", "bdel id=0 k=12", "bcommit id=0", "iter s=nil e=nil",
		"breset id=0", "bset id=0 k=21 v=3a", "bwritesync id=0", "breset id=0", "bdel id=0 k=21", "bset id=0 k=21 v=3b", "bdel id=0 k=21", "bcommit id=0", "riter s=nil e=nil", "memkeys", "dir"}, true)
	g.Case("corpus seek: before first, on a key, between, after last, outside the domain, nil, exhausted", []string{"case backends=mem,ldb,bolt,bdg prefix=none",
		"set k=02 v=02", "set k=04 v=04", "set k=06 v=06", "set k=08 v=08",
		"iopen id=0 s=03 e=07 rev=0", "idomain id=0", "iseek id=0 k=01", "idomain id=0", "istep id=0", "iseek id=0 k=04", "ikey id=0", "ivalue id=0", "istep id=0", "iseek id=0 k=05", "istep id=0",
		"iseek id=0 k=07", "ivalid id=0", "ikey id=0", "inext id=0", "iseek id=0 k=09", "istep id=0", "iseek id=0 k=nil", "istep id=0", "istep id=0", "istep id=0", "istep id=0", "istep id=0", "iseek id=0 k=06", "istep id=0", "istep id=0",
		"iopen id=1 s=07 e=03 rev=1", "iseek id=1 k=09", "idomain id=1", "istep id=1", "iseek id=1 k=06", "istep id=1", "iseek id=1 k=05", "istep id=1", "iseek id=1 k=03", "ivalid id=1", "iseek id=1 k=01", "ivalid id=1", "iseek id=1 k=nil", "istep id=1", "iseek id=1 k=0400", "istep id=1", "istep id=1", "istep id=1", "inext id=1", "ikey id=1",
		"iclose id=0", "iclose id=1"}, true)
	{ // KNOWN FINDING prefix-seek-no-effect
		g.Case("seek through a PrefixDB view", []string{"case backends=mem,ldb,bolt,bdg prefix=70", "set k=01 v=01", "set k=03 v=03", "set k=05 v=05",
			"iopen id=0 s=nil e=nil rev=0", "iseek id=0 k=03", "istep id=0", "iseek id=0 k=09", "ivalid id=0", "iclose id=0"}, true)
	}
	{ // regression case of 86092ca
		g.Case("badger reverse seek to the empty key", []string{"case backends=mem,ldb,bolt,bdg prefix=none", "set k=01 v=01", "set k=03 v=03",
			"iopen id=0 s=nil e=nil rev=1", "iseek id=0 k=-", "istep id=0", "iclose id=0"}, true)
	}

	// ---- (L) leaf functions
	nL := g.Pick(12, 60)
	for k := 0; k < nL; k++ {
		ops := []string{"case backends=-"}
		keys := universe(g, true)
		bs := boundsOf(g, keys)
		pick := func() string { return bs[g.Rng.Intn(len(bs))] }
		for i := 0; i < 60; i++ {
			switch g.Rng.Intn(5) {
			case 0:
				kk := pick()
				if kk == "nil" {
					kk = "-"
				}
				ops = append(ops, fmt.Sprintf("indomain k=%s s=%s e=%s rev=%d", kk, pick(), pick(), g.Rng.Intn(2)))
				g.Count("op:indomain")
			case 1:
				ops = append(ops, "ipbounds b="+leafBytes(g))
				g.Count("op:ipbounds")
			case 2:
				ops = append(ops, "cpdecr b="+leafBytes(g))
				g.Count("op:cpdecr")
			case 3:
				ops = append(ops, "ptoend p="+leafBytes(g))
				g.Count("op:ptoend")
			case 4:
				p := leafBytes(g)
				ops = append(ops, fmt.Sprintf("ptrans p=%s s=%s e=%s rev=%d", p, pick(), pick(), g.Rng.Intn(2)))
				g.Count("op:ptrans")
			}
		}
		g.Case("leaf", ops, true)
	}

	// ---- (A) the store itself, (B) PrefixDB views
	nAB := g.Pick(450, 1200)
	for k := 0; k < nAB; k++ {
		c := &cg{g: g, live: map[string]bool{}, open: map[int]string{}, pend: map[int]int{}, bdgOnce: bdgOnce, itOpen: map[int][3]string{}}
		c.stepwise = g.Rng.Intn(100) < 40
		if c.stepwise {
			g.Count("kind:stepwise-iterators")
		}
		view := g.Rng.Intn(100) < 45
		var header string
		var first string
		backs := "mem,ldb,bolt,bdg"
		switch r := g.Rng.Intn(100); {
		case r < 20 && !view:
			c.emptyOK = true
			backs = "mem,ldb"
			g.Count("backends:mem,ldb(empty-key)")
		case r < 40:
			backs = "mem,ldb,bolt"
			g.Count("backends:mem,ldb,bolt")
		default:
			g.Count("backends:all4")
		}
		if g.Thorough() && backs == "mem,ldb,bolt,bdg" && g.Rng.Intn(2) == 0 {
			// BadgerDB.Close never stops its badgerGc goroutine, so every badger store ever opened stays reachable
			// (about 6 MB resident each); the thorough tier keeps the number of badger stores near the quick tier's
			backs = "mem,ldb,bolt"
			g.Count("backends:mem,ldb,bolt(thorough-memory-cap)")
		}
		c.hasBdg = strings.Contains(backs, "bdg")
		tag := ""
		if g.Rng.Intn(100) < 10 && !(c.hasBdg && bdgOnce) {
			c.rewrite, tag = true, " tags=rewrite"
			g.Count("kind:rewrite(batch written again without reset)")
		}
		c.view = view
		if view {
			p := prefixShapes(g)
			c.emptyOK = true // the empty VIEW key is prefix itself in the store: legal everywhere
			c.keys = universe(g, true)
			first = fmt.Sprintf("case backends=%s prefix=%s%s", backs, hx.Hex(p), tag)
			header = fmt.Sprintf("view prefix=%s backends=%s", hx.Hex(p), backs)
			c.emit(first)
			for _, nk := range noise(g, p, backs == "mem,ldb") {
				c.emit(fmt.Sprintf("uset k=%s v=%s", hx.Hex(nk), c.val()))
			}
			g.Count("kind:prefix-view")
			g.Count("prefix-shape:" + shapeOf(p))
		} else {
			c.keys = universe(g, c.emptyOK)
			first = fmt.Sprintf("case backends=%s prefix=none%s", backs, tag)
			header = "store backends=" + backs
			c.emit(first)
			g.Count("kind:store")
		}
		c.bounds = boundsOf(g, c.keys)
		n := 25 + g.Rng.Intn(g.Pick(35, 60))
		for i := 0; i < n; i++ {
			c.step()
		}
		c.closeIters()
		if view {
			c.emit("uiter s=nil e=nil") // the view never touched its neighbours
		}
		c.emit("iter s=nil e=nil")
		c.emit("riter s=nil e=nil")
		g.Case(header, c.ops, c.bigIter && c.effect)
	}

	// ---- (E) the empty key on the engines that reject it (tag emptykey: per-engine behaviour, tied to the model's
	// Engine.stores / panicsOnRead / panicsOnDelete / putErr / delErr; the equivalence monitors are off)
	nE := g.Pick(25, 80)
	for k := 0; k < nE; k++ {
		c := &cg{g: g, live: map[string]bool{}, open: map[int]string{}, pend: map[int]int{}, hasBdg: true, bdgOnce: bdgOnce, emptyOK: true}
		c.keys = universe(g, true)
		c.keys = append(c.keys, []byte{}, []byte{}) // the empty key often
		c.bounds = boundsOf(g, c.keys)
		c.emit("case backends=mem,ldb,bolt,bdg prefix=none tags=emptykey")
		n := 25 + g.Rng.Intn(30)
		for i := 0; i < n; i++ {
			c.step()
		}
		c.emit("iter s=nil e=nil")
		g.Count("kind:emptykey")
		g.Case("empty key on all engines", c.ops, true)
	}

	// ---- (V) empty and nil values (excluded by the property text as backend-specific; on this tree all four adapters store
	// an empty value and report the key as present, so the stream runs with every monitor on)
	nV := g.Pick(20, 80)
	for k := 0; k < nV; k++ {
		c := &cg{g: g, live: map[string]bool{}, open: map[int]string{}, pend: map[int]int{}, hasBdg: true, bdgOnce: bdgOnce, emptyVals: true, itOpen: map[int][3]string{}}
		c.keys = universe(g, false)
		c.bounds = boundsOf(g, c.keys)
		c.stepwise = k%2 == 0
		if k%3 == 0 {
			c.view = true
			c.emit("case backends=mem,ldb,bolt,bdg prefix=7a")
		} else {
			c.emit("case backends=mem,ldb,bolt,bdg prefix=none")
		}
		n := 25 + g.Rng.Intn(30)
		for i := 0; i < n; i++ {
			c.step()
		}
		c.closeIters()
		c.emit("iter s=nil e=nil")
		g.Count("kind:empty-values")
		g.Case("empty and nil values", c.ops, true)
	}

	// ---- (W) bound sweep: every (start, end) pair over all boundary points of a fixed key set, both directions, every backend
	for _, pfx := range []string{"none", "70", "70ff"} {
		ops := []string{"case backends=mem,ldb,bolt,bdg prefix=" + pfx}
		for _, k := range []string{"02", "04", "0400", "06", "ff"} {
			ops = append(ops, fmt.Sprintf("set k=%s v=%s", k, k))
		}
		pts := []string{"nil", "-", "01", "02", "03", "04", "0400", "0401", "05", "06", "07", "ff", "ff00"}
		for _, s0 := range pts {
			for _, e0 := range pts {
				ops = append(ops, fmt.Sprintf("iter s=%s e=%s", s0, e0), fmt.Sprintf("riter s=%s e=%s", s0, e0))
			}
			ops = append(ops, "piter p="+s0)
			if s0 != "nil" {
				ops = append(ops, "iterprefix p="+s0)
			}
		}
		g.Count("kind:bound-sweep")
		g.Case("bound sweep prefix="+pfx, ops, true)
	}

	// ---- (S) sharded stores (counts=4): lookups exact, iteration as a sorted multiset
	nS := g.Pick(30, 40)
	for k := 0; k < nS; k++ {
		c := &cg{g: g, live: map[string]bool{}, open: map[int]string{}, pend: map[int]int{}, hasBdg: true, bdgOnce: bdgOnce}
		c.keys = universe(g, false)
		for i := 0; i < 6; i++ { // more keys so that every shard gets some and some shards stay empty in a range
			b := make([]byte, 1+g.Rng.Intn(3))
			g.Rng.Read(b)
			c.keys = append(c.keys, b)
		}
		c.bounds = boundsOf(g, c.keys)
		c.emit("case backends=mem,ldb,bolt,bdg prefix=none counts=4")
		n := 25 + g.Rng.Intn(30)
		for i := 0; i < n; i++ {
			c.step()
		}
		c.emit("iter s=nil e=nil")
		g.Count("kind:sharded")
		g.Case("sharded counts=4", c.ops, c.bigIter && c.effect)
	}

	// ---- (M) malformed stream: empty prefix views, inverted bounds, ops on missing keys / empty batches
	nM := g.Pick(12, 100)
	for k := 0; k < nM; k++ {
		c := &cg{g: g, live: map[string]bool{}, open: map[int]string{}, pend: map[int]int{}, hasBdg: true, bdgOnce: bdgOnce}
		c.keys = universe(g, false)
		c.bounds = boundsOf(g, c.keys)
		if k%2 == 0 {
			c.emit("case backends=mem,ldb prefix=-") // a PrefixDB with the empty prefix: cpIncr panics on nil end bounds
			c.hasBdg = false
			g.Count("kind:malformed-empty-prefix")
		} else {
			c.emit("case backends=mem,ldb,bolt,bdg prefix=none")
			c.emit("bnew id=0")
			c.emit("bwrite id=0") // empty batch
			c.emit("bdrop id=0")
			c.emit(fmt.Sprintf("del k=%s", c.key()))
			c.emit(fmt.Sprintf("iter s=%s e=%s", "ff", "00"))
			c.emit(fmt.Sprintf("riter s=%s e=%s", "00", "ff"))
			g.Count("kind:malformed-misc")
		}
		for i := 0; i < 20; i++ {
			c.step()
		}
		g.Case("malformed", c.ops, false)
	}
}

func leafBytes(g *hx.Gen) string {
	n := g.Rng.Intn(5)
	b := make([]byte, n)
	for i := range b {
		b[i] = []byte{0x00, 0xff, 0xff, 0x01, 0xfe, 0x7f, 0x80, byte(g.Rng.Intn(256))}[g.Rng.Intn(8)]
	}
	if n == 0 && g.Rng.Intn(2) == 0 {
		return "nil"
	}
	return hx.Hex(b)
}

func shapeOf(p []byte) string {
	allff, all00 := true, true
	for _, b := range p {
		if b != 0xff {
			allff = false
		}
		if b != 0 {
			all00 = false
		}
	}
	switch {
	case allff:
		return "all-ff"
	case all00:
		return "all-00"
	case p[len(p)-1] == 0xff:
		return "ff-tail"
	case p[len(p)-1] == 0:
		return "00-tail"
	}
	return "plain"
}
