package c03

// Coverage-guided widening of the C03 harness: entry points and branches that the first harness never reached.
//   verifyany    ValidatorSet.VerifyCommitAny (exported, no caller in the tree)            -> c03.go (shares the verify case)
//   cmore        Commit.FirstPrecommit / GetByIndex / Type / nil.Size
//   nilset       every nil-receiver branch of *VoteSet (a nil set reports nothing and panics on mutation)
//   votenil      VoteSet.AddVote(nil)
//   vsinfo       VoteSet.Height/Round/Type/ChainID/Size
//   getbyaddr    VoteSet.GetByAddress + ValidatorSet.HasAddress/GetByAddress
//   mstnew/mstsig/mstverify   MultiSignAccountTx.VerifySign (types/tx_type_mst.go): the SECOND ">2/3, each signer once" mechanism
//   reconstruct  consensus.NewConsensusState -> reconstructLastCommit (LastCommit rebuilt from the stored seen commit)

import (
	"crypto/sha512"
	"fmt"
	"strconv"
	"strings"

	"github.com/pkg/errors"

	cfg "github.com/lianxiangcloud/linkchain/config"
	"github.com/lianxiangcloud/linkchain/consensus"
	"github.com/lianxiangcloud/linkchain/libs/common"
	"github.com/lianxiangcloud/linkchain/libs/crypto"
	"github.com/lianxiangcloud/linkchain/types"

	"lvharness/hx"
)

// mockApp is the block store a restarted node reads its seen commit from.
type mockApp struct {
	h    uint64
	seen *types.Commit
}

func (a *mockApp) Height() uint64                                              { return a.h }
func (a *mockApp) LoadBlockMeta(height uint64) *types.BlockMeta                { return nil }
func (a *mockApp) LoadBlock(height uint64) *types.Block                        { return nil }
func (a *mockApp) LoadBlockPart(height uint64, index int) *types.Part          { return nil }
func (a *mockApp) LoadBlockCommit(height uint64) *types.Commit                 { return a.seen }
func (a *mockApp) LoadSeenCommit(height uint64) *types.Commit                  { return a.seen }
func (a *mockApp) GetValidators(height uint64) []*types.Validator              { return nil }
func (a *mockApp) GetRecoverValidators(height uint64) []*types.Validator       { return nil }
func (a *mockApp) CreateBlock(h uint64, m int, g uint64, t uint64) *types.Block { return nil }
func (a *mockApp) PreRunBlock(block *types.Block)                              {}
func (a *mockApp) CheckBlock(block *types.Block) bool                          { return true }
func (a *mockApp) CommitBlock(b *types.Block, p *types.PartSet, c *types.Commit, f bool) ([]*types.Validator, error) {
	return nil, nil
}
func (a *mockApp) SetLastChangedVals(height uint64, vals []*types.Validator) {}

func sumOf(vs *types.VoteSet) string {
	bs := vs.BitArrayString()
	if i := strings.LastIndex(bs, " = "); i >= 0 {
		f := strings.Fields(bs[:i])
		if len(f) > 0 {
			if j := strings.Index(f[len(f)-1], "/"); j >= 0 {
				return f[len(f)-1][:j]
			}
		}
	}
	return "?"
}

func mstSignBytes(m types.MultiSignMainInfo) []byte {
	bz, err := types.GenMultiSignBytes(m)
	if err != nil {
		panic("harness: GenMultiSignBytes: " + err.Error())
	}
	return bz
}

func tryPanics(f func()) (p bool) {
	defer func() {
		if recover() != nil {
			p = true
		}
	}()
	f()
	return false
}

func (e *exec) wideOp(toks []string) string {
	switch toks[0] {
	case "cmore":
		if !e.hasC {
			return "dead"
		}
		c := e.commit()
		first := "nil"
		_ = c.FirstPrecommit() // (second call below takes the cached branch)
		if fp := c.FirstPrecommit(); fp != nil {
			if id, ok := e.ids[fp]; ok {
				first = strconv.Itoa(id)
			} else {
				first = "synth"
			}
		}
		by := make([]*types.Vote, len(e.cslots))
		for i := range by {
			by[i] = c.GetByIndex(i)
		}
		return fmt.Sprintf("first=%s type=%d byidx=%s nilsize=%d", first, c.Type(), e.slots(by), (*types.Commit)(nil).Size())
	case "verifynil":
		if e.valset == nil {
			return "dead"
		}
		c, _ := hx.Arg(toks, "chain")
		b, _ := hx.Arg(toks, "bid")
		v := "ok"
		if err := e.valset.VerifyCommit(string(hx.UnHex(c)), parseBid(b).real(), 5, nil); err != nil {
			v = "err=other"
			if containsAny(err.Error(), "nil commit") {
				v = "err=nil"
			}
		}
		a := "ok"
		if tryPanics(func() {
			if err := e.valset.VerifyCommitAny(string(hx.UnHex(c)), parseBid(b).real(), 5, nil); err != nil {
				a = "err"
			}
		}) {
			a = "panic"
		}
		return fmt.Sprintf("verify=%s any=%s", v, a)
	case "nilset":
		var vs *types.VoteSet
		_, has := vs.TwoThirdsMajority()
		ba, bb, get := "nil", "nil", "nil"
		if vs.BitArray() != nil {
			ba = "set"
		}
		if vs.BitArrayByBlockID(types.BlockID{}) != nil {
			bb = "set"
		}
		if vs.GetByIndex(0) != nil || vs.GetByAddress([]byte{1}) != nil {
			get = "set"
		}
		add := tryPanics(func() { vs.AddVote(&types.Vote{}) })
		peer := tryPanics(func() { vs.SetPeerMaj23("p", types.BlockID{}) })
		return fmt.Sprintf("h=%d r=%d t=%d size=%d ba=%s bb=%s get=%s has23=%v iscommit=%v any=%v maj=%v addvote-panics=%v peer-panics=%v",
			vs.Height(), vs.Round(), vs.Type(), vs.Size(), ba, bb, get, vs.HasTwoThirdsMajority(), vs.IsCommit(), vs.HasTwoThirdsAny(), has, add, peer)
	case "votenil":
		if e.vs == nil {
			return "dead"
		}
		added, err := e.vs.AddVote(nil)
		cl := e.errClass(err)
		if errors.Cause(err) == types.ErrVoteNil {
			cl = "nil-vote"
		}
		return fmt.Sprintf("added=%v err=%s %s", added, cl, e.state())
	case "vsinfo":
		if e.vs == nil {
			return "dead"
		}
		return fmt.Sprintf("h=%d r=%d t=%d chain=%s size=%d", e.vs.Height(), e.vs.Round(), e.vs.Type(), hx.Hex([]byte(e.vs.ChainID())), e.vs.Size())
	case "getbyaddr":
		if e.vs == nil {
			return "dead"
		}
		a, _ := hx.Arg(toks, "addr")
		addr := hx.UnHex(a)
		has := e.valset.HasAddress(addr)
		idx, _ := e.valset.GetByAddress(addr)
		v := e.vs.GetByAddress(addr) // PanicSanity for an unknown address
		return fmt.Sprintf("has=%v idx=%d vote=%s", has, idx, e.slots([]*types.Vote{v}))
	case "mstnew":
		n, _ := hx.Arg(toks, "nonce")
		t, _ := hx.Arg(toks, "txtype")
		mp, _ := hx.Arg(toks, "minpower")
		sg, _ := hx.Arg(toks, "signers")
		nonce, _ := strconv.ParseUint(n, 10, 64)
		tt, _ := strconv.Atoi(t)
		minp, _ := strconv.Atoi(mp)
		e.mstMain = types.MultiSignMainInfo{AccountNonce: nonce, SupportTxType: types.SupportType(tt)}
		e.mstMain.MinSignerPower = int32(minp)
		for _, s := range hx.SplitComma(sg) {
			p := strings.Split(s, ":")
			pw, _ := strconv.Atoi(p[1])
			e.mstMain.Signers = append(e.mstMain.Signers, &types.SignerEntry{Power: int32(pw), Addr: common.BytesToAddress(hx.UnHex(p[0]))})
		}
		e.mstSigs, e.hasMst = nil, true
		return "ok"
	case "mstsig":
		if !e.hasMst {
			return "dead"
		}
		a, _ := hx.Arg(toks, "addr")
		sg, _ := hx.Arg(toks, "sig")
		p := strings.Split(sg, ":")
		n, _ := strconv.Atoi(p[1])
		var sig []byte
		switch p[0] {
		case "good":
			s, err := keyOf(n).Sign(mstSignBytes(e.mstMain))
			if err != nil {
				panic("harness: sign")
			}
			sig = s.Bytes()
		case "other": // the same key over the same request with another nonce
			m := e.mstMain
			m.AccountNonce++
			s, err := keyOf(n).Sign(mstSignBytes(m))
			if err != nil {
				panic("harness: sign")
			}
			sig = s.Bytes()
		case "bad":
			h := sha512.Sum512([]byte(fmt.Sprintf("bad-mst-signature-%d", n)))
			sig = crypto.SignatureEd25519FromBytes(h[:]).Bytes()
		case "malformed":
			sig = []byte{byte(n), 0xff, 0x01}
		default:
			panic("harness: bad mst sig token")
		}
		e.mstSigs = append(e.mstSigs, types.ValidatorSign{Addr: hx.UnHex(a), Signature: sig})
		return "ok"
	case "mstverify":
		if !e.hasMst {
			return "dead"
		}
		tx := types.NewMultiSignAccountTx(&e.mstMain, e.mstSigs)
		var vals *types.ValidatorSet
		if v, _ := hx.Arg(toks, "vals"); v != "nil" {
			vals = e.valset
		}
		err := tx.VerifySign(vals)
		if err == nil {
			return "ok"
		}
		m := err.Error()
		switch {
		case containsAny(m, "nil or size=0"):
			return "err=empty"
		case containsAny(m, "duplicate signature"):
			return "err=dup"
		case containsAny(m, "invalid validator"):
			return "err=unknown"
		case containsAny(m, "insufficient voting power"):
			return "err=power"
		}
		return "err=malformed"
	case "reconstruct":
		if e.valset == nil {
			return "dead"
		}
		hs, _ := hx.Arg(toks, "h")
		c, _ := hx.Arg(toks, "chain")
		h, _ := strconv.ParseUint(hs, 10, 64)
		app := &mockApp{h: h}
		if e.hasC {
			app.seen = e.commit()
		}
		st := consensus.NewStatus{ChainID: string(hx.UnHex(c)), LastBlockHeight: h, Validators: e.valset.Copy(), LastValidators: e.valset.Copy(),
			LastHeightValidatorsChanged: 1, ConsensusParams: *types.DefaultConsensusParams()}
		if e.hasC {
			st.LastBlockID = e.cbid.real()
		}
		cs := consensus.NewConsensusState(cfg.TestConsensusConfig(), st, nil, app, nil, nil)
		lc := cs.VerifRoundState().LastCommit
		if lc == nil {
			return "ok none"
		}
		maj := "none"
		if b, ok := lc.TwoThirdsMajority(); ok {
			maj = bidOfReal(b).tok()
		}
		votes := make([]*types.Vote, lc.Size())
		for i := range votes {
			votes[i] = lc.GetByIndex(i)
		}
		return fmt.Sprintf("ok maj23=%s h=%d r=%d sum=%s votes=%s", maj, lc.Height(), lc.Round(), sumOf(lc), e.slots(votes))
	}
	return "bad-op"
}
