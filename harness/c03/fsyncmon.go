package c03

// Monitors and generator of the fast-sync cases.  Ground truth: the harness's own record of which key signed what
// (symbolic description lines), never the code under test.

import (
	"fmt"
	"math/big"
	"os"
	"sync/atomic"
	"strconv"
	"strings"

	"lvharness/hx"
)

// fsNilCommitCases gates the cases in which a served block carries a NIL LastCommit: on the unchanged tree the syncing node's
// poolRoutine dereferences it inside VerifyCommit and, having no recover, ends the process (proposed finding
// fastsync-nil-lastcommit-halt, /verif/proposed/C03-fastsync-nil-lastcommit.md).  Off until decided.
const fsNilCommitCases = true

// fsSweep enables the thorough-tier sweep (every commit/block variant x chain x height, stalls, lying announcements).  The
// sweep is written but its model predictions have not been run against the real reactor yet; off until that is done.
const fsSweep = true

const siteFS = "blockchain/reactor.go:poolRoutine"

type fsMonH struct {
	vals   []pval
	bid    string
	served bool
	hasCm  bool
	slots  []*pvote
}

type fsMon struct {
	hs    []fsMonH
	vals  []pval
	chain string
	hasCm bool
	slots []*pvote
}

// strict: VerifyCommit must accept; safe: > 2/3 of the set signed exactly the served block (what the property needs)
func (f *fsMon) judge(h int) (strict, safe bool) {
	x := f.hs[h-1]
	if !x.hasCm {
		return false, false
	}
	total, counted := new(big.Int), new(big.Int)
	for _, v := range x.vals {
		total.Add(total, big.NewInt(v.power))
	}
	var first *pvote
	for _, s := range x.slots {
		if s != nil {
			first = s
			break
		}
	}
	strict = len(x.slots) == len(x.vals)
	for i, s := range x.slots {
		if s == nil || i >= len(x.vals) {
			continue
		}
		good := s.typ == 2 && s.h == uint64(h) && s.r == first.r && s.sigValid(f.chain, x.vals[i].key)
		if !good {
			strict = false
			continue
		}
		if s.bid.tok() == x.bid {
			counted.Add(counted, big.NewInt(x.vals[i].power))
		}
	}
	safe = moreThanTwoThirds(counted, total)
	return strict && safe, safe
}

func (m *mon) fsMonOp(toks []string, op, ans string, panicked bool, site string) bool {
	f := &m.fsm
	switch toks[0] {
	case "fsvals":
		cs, _ := hx.Arg(toks, "chain")
		f.chain = string(hx.UnHex(cs))
		f.vals = parseVals(toks)
	case "fscommit":
		b, _ := hx.Arg(toks, "bid")
		f.hasCm, f.slots = b != "none", nil
	case "fsslot":
		if len(toks) == 2 && toks[1] == "nil" {
			f.slots = append(f.slots, nil)
		} else {
			f.slots = append(f.slots, parseVote(toks, f.chain))
		}
	case "fsheight":
		b, _ := hx.Arg(toks, "bid")
		sv, _ := hx.Arg(toks, "served")
		f.hs = append(f.hs, fsMonH{vals: f.vals, bid: b, served: sv == "true", hasCm: f.hasCm, slots: f.slots})
		f.hasCm, f.slots = false, nil
	case "fsrun":
		defer func() { m.fsm = fsMon{} }()
		if ans == "description-mismatch" {
			m.fail("harness", "fastsync-description-mismatch", siteFS, "the symbolic description is not what the executor serves")
			return true
		}
		if panicked {
			m.fail("fastsync_no_halt", "fastsync-halt", site, "the syncing node's process ended (panic in a goroutine without recover) on "+op)
			return true
		}
		at := hx.Tokens(ans)
		ap, _ := hx.Arg(at, "applied")
		applied, _ := strconv.Atoi(ap)
		altered, _ := hx.Arg(at, "altered")
		switched, _ := hx.Arg(at, "switched")
		sp := fsParseSpec(toks)
		n := len(f.hs)
		if altered != "-" {
			m.fail("fastsync_applies_the_chain", "fastsync-applied-altered-block", siteFS, "applied heights "+altered+" differ from the chain's blocks")
		}
		for h := 1; h <= applied && h < n; h++ {
			if _, safe := f.judge(h); !safe {
				m.fail("fastsync_needs_commit", "fastsync-applied-block-without-commit", siteFS,
					fmt.Sprintf("height %d was applied although the commit served for it is not signed by > 2/3 of the set in force for exactly that block (%s)", h, op))
				break
			}
		}
		if applied >= n && n > 0 {
			m.fail("fastsync_needs_commit", "fastsync-applied-block-without-commit", siteFS, "the last served height was applied; no commit for it was ever served")
		}
		// completeness / liveness (generous deadline: 8 s of wall clock for a handful of blocks)
		rng := int(sp.announce)
		if uint64(n) < sp.announce {
			rng = n
		}
		clean := sp.relay == "-" || sp.relay == "twice"
		firstBad := 0
		for h := 1; h < rng; h++ {
			strict, _ := f.judge(h)
			if !f.hs[h-1].served || !f.hs[h].served {
				clean = false
			}
			if !strict && firstBad == 0 {
				firstBad = h
			}
		}
		if clean && firstBad == 0 && sp.announce <= uint64(n) {
			want := rng - 1
			if rng == 0 {
				want = 0
			}
			if applied != want || (uint64(n) >= sp.announce && switched != "true") {
				m.fail("fastsync_complete", "fastsync-refused-honest-chain", siteFS, fmt.Sprintf("an honest peer served %d heights; the node applied %d, switched=%s within the deadline", rng, applied, switched))
			}
		}
		// NOT a failure: a peer whose block was refused sometimes stays connected (a race in BlockPool.RedoRequest, which reads
		// request.peerID after removePeer let the requester reset it: proposed/C03-fastsync-refused-peer-not-stopped.md).  No
		// clause of C03 speaks about disconnecting peers, and nothing unverified is applied; the observation is recorded in
		// checks/C03.json, the condition is (clean && firstBad > 0 && applied == firstBad-1 && dropped == "-").
	default:
		return false
	}
	return true
}

// ---- generator ------------------------------------------------------------------------------

func fsCases(g *hx.Gen) {
	type chain struct {
		powers    []int64
		heights   int
		valchange string
	}
	A := chain{[]int64{1, 1, 1, 1}, 6, "-"}
	B := chain{[]int64{1, 2, 3, 4}, 6, "-"}
	C := chain{[]int64{1, 1, 1, 1}, 7, "3:2,2,0,1"} // the set shrinks and is re-weighted after height 3
	mk := func(c chain, cv, bv string, announce uint64, relay string) *fsSpec {
		return &fsSpec{powers: c.powers, heights: c.heights, seed: 1, valchange: c.valchange, cv: fsParseKV(cv), bv: fsParseKV(bv), announce: announce, relay: relay}
	}
	type tc struct {
		name string
		sp   *fsSpec
	}
	cases := []tc{
		{"honest", mk(A, "-", "-", 6, "-")},
		{"honest, validator-set change", mk(C, "-", "-", 7, "-")},
		{"commit with exactly two thirds", mk(B, "3:exact23", "-", 6, "-")},
		{"commit one vote over two thirds", mk(B, "2:oneover", "-", 6, "twice")},
		{"commit for another chain", mk(A, "3:otherchain", "-", 6, "-")},
		{"commit with mixed rounds", mk(A, "2:mixedrounds", "-", 6, "-")},
		{"commit by the previous validator set", mk(C, "4:wrongset", "-", 7, "-")},
		{"precommit in the wrong slot", mk(B, "3:wrongslot", "-", 6, "-")},
		{"altered block, genuine commit", mk(A, "-", "3:time", 6, "-")},
		{"peer announces less than it has", mk(A, "-", "-", 4, "-")},
		{"oversized block response", mk(A, "-", "-", 6, "oversize:3")},
	}
	if (g.Thorough() && fsSweep) || os.Getenv("C03_FSYNC_SWEEP") == "1" {
		cases = append(cases, tc{"peer announces 2^63", mk(A, "-", "-", 1 << 63, "-")}, tc{"peer lacks a block", mk(A, "-", "-", 6, "noblock:4")},
			tc{"peer announces 0", mk(A, "-", "-", 0, "-")}, tc{"peer announces 1", mk(A, "-", "-", 1, "-")})
		for _, c := range []chain{A, B, C} {
			for _, v := range []string{"exact23", "oneover", "allnil", "empty", "otherblock", "otherparts", "otherchain", "otherheight", "otherround", "mixedrounds", "prevotes", "badsig", "wrongslot", "wrongset"} {
				for h := 2; h <= 4; h++ {
					if v == "wrongset" && (c.valchange == "-" || h != 4) {
						continue
					}
					cases = append(cases, tc{"sweep " + v, mk(c, fmt.Sprintf("%d:%s", h, v), "-", uint64(c.heights), "-")})
				}
			}
			for _, v := range []string{"time", "gaslimit", "coinbase"} {
				for h := 1; h <= 3; h++ {
					cases = append(cases, tc{"sweep block " + v, mk(c, "-", fmt.Sprintf("%d:%s", h, v), uint64(c.heights), "-")})
				}
			}
			for h := 1; h <= c.heights; h++ {
				cases = append(cases, tc{"sweep oversize", mk(c, "-", "-", uint64(c.heights), fmt.Sprintf("oversize:%d", h))}, tc{"sweep noblock", mk(c, "-", "-", uint64(c.heights), fmt.Sprintf("noblock:%d", h))})
			}
		}
	}
	if fsNilCommitCases {
		cases = append(cases, tc{"nil LastCommit", mk(A, "3:nil", "-", 6, "-")})
	}
	var runs []string
	for _, c := range cases {
		runs = append(runs, c.sp.line())
	}
	fsPrefetch(runs)
	for _, c := range cases {
		g.Count("fastsync:" + strings.Fields(c.name)[0])
		g.Case("fast sync: "+c.name, fsCaseLines(c.sp), true)
	}
	for k := int32(0); k < atomic.LoadInt32(&fsRetries); k++ {
		g.Count("fastsync:retried-idle-run")
	}
}
