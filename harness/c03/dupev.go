package c03

// Duplicate-vote evidence (types/evidence.go DuplicateVoteEvidence.Verify): two votes are proof of equivocation only if they
// are votes of the SAME height, round and TYPE by the same validator (address and index) for DIFFERENT blocks, both correctly
// signed by the key the address belongs to.  Ops: `evvote slot=a|b <vote fields>` stores a vote, `dupev key=<j> kaddr=<hex>`
// runs the real Verify under the case's chain id with the public key of harness key j.

import (
	"fmt"
	"strings"

	"github.com/lianxiangcloud/linkchain/types"

	"lvharness/hx"
)

func (e *exec) dupevOp(toks []string) string {
	switch toks[0] {
	case "evvote":
		v := parseVote(toks, e.chain)
		slot, _ := hx.Arg(toks, "slot")
		if slot == "a" {
			e.evA = v
		} else {
			e.evB = v
		}
		return "ok"
	case "dupev":
		if e.evA == nil || e.evB == nil {
			return "novotes"
		}
		key := int(hx.ArgI(toks, "key", 0))
		ev := &types.DuplicateVoteEvidence{PubKey: keyOf(key).PubKey(), VoteA: e.evA.real(), VoteB: e.evB.real()}
		err := ev.Verify(e.chain, keyOf(key).PubKey())
		if err == nil {
			return "ok"
		}
		m := err.Error()
		switch {
		case strings.Contains(m, "H/R/S"):
			return "err=hrs"
		case strings.Contains(m, "addresses do not match"):
			return "err=addr"
		case strings.Contains(m, "indices do not match"):
			return "err=index"
		case strings.Contains(m, "BlockIDs are the same"):
			return "err=same-block"
		case strings.Contains(m, "SANITY"):
			return "err=pubkey"
		case strings.Contains(m, "verifying VoteA"):
			return "err=sigA"
		case strings.Contains(m, "verifying VoteB"):
			return "err=sigB"
		}
		return "err=other"
	}
	return "bad-op"
}

// dupevMonitor: evidence the implementation accepts must be a real equivocation as the harness's own ideal signature
// functionality sees it (independent of the model).
func dupevMonitor(c *hx.CaseRun) []hx.Failure {
	var fs []hx.Failure
	var a, b *pvote
	chain := ""
	for i, op := range c.Ops {
		toks := hx.Tokens(op)
		switch toks[0] {
		case "valset":
			ch, _ := hx.Arg(toks, "chain")
			chain = string(hx.UnHex(ch))
		case "evvote":
			v := parseVote(toks, chain)
			if s, _ := hx.Arg(toks, "slot"); s == "a" {
				a = v
			} else {
				b = v
			}
		case "dupev":
			if c.Impl[i] != "ok" || a == nil || b == nil {
				continue
			}
			key := int(hx.ArgI(toks, "key", 0))
			real := a.h == b.h && a.r == b.r && a.typ == b.typ && string(a.addr) == string(b.addr) && a.idx == b.idx && !a.bid.eq(b.bid) &&
				string(keyAddr(key)) == string(a.addr) && a.sigValid(chain, key) && b.sigValid(chain, key)
			if !real {
				fs = append(fs, hx.Failure{Monitor: "evidence_is_equivocation", Class: "non-equivocation-accepted-as-evidence", Site: "types/evidence.go:DuplicateVoteEvidence.Verify",
					Msg: fmt.Sprintf("accepted as duplicate-vote evidence although the two votes are not two validly signed votes of one validator for the same height/round/type and different blocks: %s", op)})
			}
		}
	}
	return fs
}

// dupevCases: a correct equivocation and every single-defect variant of it.
func dupevCases(g *hx.Gen) {
	kinds := []string{"ok", "same-block", "type", "round", "height", "addr", "index", "wrongkey", "sigA", "sigB", "signed-other-type", "signed-other-bid", "nil-vs-block"}
	n := g.Pick(400, 4000)
	for k := 0; k < n; k++ {
		nv := 1 + g.Rng.Intn(5)
		c := &ctx{g: g, h: uint64(1 + g.Rng.Intn(50)), r: g.Rng.Intn(4), typ: 1 + g.Rng.Intn(2), chain: "verif-chain"}
		pw := make([]int64, nv)
		for j := range pw {
			pw[j] = 1
		}
		c.vals = mkVals(g, nv, pw, 0)
		c.bids = []bidT{mkBid(g, fmt.Sprint("ev-a-", k)), mkBid(g, fmt.Sprint("ev-b-", k))}
		i := g.Rng.Intn(nv)
		a, b := c.good(i, c.bids[0]), c.good(i, c.bids[1])
		key := c.vals[i].key
		kind := kinds[g.Rng.Intn(len(kinds))]
		switch kind {
		case "same-block":
			b = c.good(i, c.bids[0])
		case "type":
			b.v.typ = 3 - b.v.typ // a prevote and a precommit of one round are no equivocation
		case "round":
			b.v.r++
		case "height":
			b.v.h++
		case "addr":
			b = c.defect(b, "addr-random")
		case "index":
			b.v.idx++
		case "wrongkey":
			key = c.vals[(i+1)%nv].key
			if nv == 1 {
				kind = "ok"
			}
		case "sigA":
			a = c.defect(a, "sig-bad")
		case "sigB":
			b = c.defect(b, []string{"sig-bad", "sig-nil", "sig-otherkey"}[g.Rng.Intn(3)])
		case "signed-other-type":
			b = c.defect(b, "tr-type")
		case "signed-other-bid":
			b = c.defect(b, "tr-bid")
		case "nil-vs-block":
			b = c.good(i, nilBid)
		}
		ops := []string{"case", valsetLine(c.chain, c.vals), a.line("evvote slot=a", 1), b.line("evvote slot=b", 2),
			fmt.Sprintf("dupev key=%d kaddr=%s", key, hx.Hex(keyAddr(key)))}
		if g.Rng.Intn(2) == 0 { // order of the two votes does not matter
			ops = append(ops, b.line("evvote slot=a", 3), a.line("evvote slot=b", 4), fmt.Sprintf("dupev key=%d kaddr=%s", key, hx.Hex(keyAddr(key))))
		}
		g.Count("dupev:" + kind)
		g.Case("dupev "+kind, ops, kind != "ok")
	}
}
