package c03

import (
	"bytes"
	"crypto/sha256"
	"fmt"
	"math"
	"sort"
	"strings"

	"lvharness/hx"
)

const poolSize = 24

var pool []int // key ids sorted by the address of their public key

func keyPool() []int {
	if pool == nil {
		for j := 0; j < poolSize; j++ {
			pool = append(pool, j)
		}
		sort.Slice(pool, func(a, b int) bool { return bytes.Compare(keyAddr(pool[a]), keyAddr(pool[b])) < 0 })
	}
	return pool
}

func hashOf(s string) []byte { h := sha256.Sum256([]byte(s)); return h[:] }

func mkBid(g *hx.Gen, tag string) bidT {
	ph := hashOf("parts-" + tag)
	switch g.Rng.Intn(3) {
	case 0:
		ph = ph[:4]
	case 1:
		ph = ph[:20]
	}
	return bidT{hashOf("block-" + tag), 1 + g.Rng.Intn(4), ph}
}

var nilBid = bidT{make([]byte, 32), 0, nil}

var chains = []string{"verif-chain", "linkchain", "c", "chain \"q\" \\ <x> & y", "tab\there", "line\nbreak\r", "\x01\x1f~", "{\"@chain_id\":\"x\"}"}

func genPowers(g *hx.Gen, n int, malformed bool) ([]int64, string) {
	kinds := []string{"equal", "equal1", "small", "small", "whale", "geometric", "withzero", "near62"}
	if malformed {
		kinds = []string{"negative", "overflow", "maxint"}
	}
	kind := kinds[g.Rng.Intn(len(kinds))]
	ps := make([]int64, n)
	for i := range ps {
		switch kind {
		case "equal":
			ps[i] = 10
		case "equal1":
			ps[i] = 1
		case "small":
			ps[i] = int64(1 + g.Rng.Intn(6))
		case "whale":
			ps[i] = int64(1 + g.Rng.Intn(3))
			if i == 0 {
				ps[i] = int64(3 + g.Rng.Intn(2*n+3))
			}
		case "geometric":
			ps[i] = int64(1) << uint(i%20)
		case "withzero":
			ps[i] = int64(g.Rng.Intn(3))
		case "near62":
			ps[i] = ((int64(1)<<62)-1)/int64(n) - int64(g.Rng.Intn(4))
		case "negative":
			ps[i] = int64(g.Rng.Intn(8) - 3)
		case "overflow":
			ps[i] = (int64(1) << 62) + int64(g.Rng.Intn(5))
		case "maxint":
			ps[i] = math.MaxInt64 - int64(g.Rng.Intn(3))
		}
	}
	if kind == "whale" {
		j := g.Rng.Intn(n)
		ps[0], ps[j] = ps[j], ps[0]
	}
	return ps, kind
}

// mkVals picks n validators (address order).  mismatch > 0: that many validators get an address that is not
// the address of their key (malformed set).
func mkVals(g *hx.Gen, n int, powers []int64, mismatch int) []pval {
	kp := keyPool()
	perm := g.Rng.Perm(poolSize)
	var vals []pval
	for i := 0; i < n; i++ {
		k := kp[perm[i]]
		v := pval{addr: keyAddr(k), kaddr: keyAddr(k), key: k}
		if i < mismatch {
			v.addr = keyAddr(kp[perm[poolSize-1-i]])
		}
		vals = append(vals, v)
	}
	sort.Slice(vals, func(a, b int) bool { return bytes.Compare(vals[a].addr, vals[b].addr) < 0 })
	for i := range vals {
		vals[i].power = powers[i]
	}
	return vals
}

func valsetLine(chain string, vals []pval) string {
	var as, kas, ks []string
	var ps []int64
	for _, v := range vals {
		as = append(as, hx.Hex(v.addr))
		kas = append(kas, hx.Hex(v.kaddr))
		ks = append(ks, fmt.Sprint(v.key))
		ps = append(ps, v.power)
	}
	j := func(x []string) string {
		if len(x) == 0 {
			return "-"
		}
		return strings.Join(x, ",")
	}
	return fmt.Sprintf("valset chain=%s addrs=%s kaddrs=%s keys=%s powers=%s", hx.Hex([]byte(chain)), j(as), j(kas), j(ks), hx.JoinInts(ps))
}

type vspec struct {
	v  pvote
	ov []string // s.* overrides
}

func (s vspec) line(op string, id int) string {
	v := s.v
	sig := "nil"
	switch v.sigKind {
	case "bad":
		sig = fmt.Sprintf("bad:%d", v.sigN)
	case "k":
		sig = fmt.Sprintf("k%d", v.sigN)
	}
	l := fmt.Sprintf("%s id=%d addr=%s idx=%d size=%d h=%d r=%d ts=%d,%d type=%d bid=%s sig=%s", op, id, hx.Hex(v.addr), v.idx, v.size, v.h, v.r,
		v.ts.sec, v.ts.nsec, v.typ, v.bid.tok(), sig)
	if len(s.ov) > 0 {
		l += " " + strings.Join(s.ov, " ")
	}
	return l
}

type ctx struct {
	g     *hx.Gen
	vals  []pval
	h     uint64
	r     int
	typ   int
	chain string
	bids  []bidT
}

func (c *ctx) ts() tsT {
	return tsT{1500000000 + int64(c.g.Rng.Intn(400000000)), int64(c.g.Rng.Intn(1000000000))}
}

// good: the correctly signed vote of validator i for block b
func (c *ctx) good(i int, b bidT) vspec {
	v := c.vals[i]
	return vspec{v: pvote{addr: v.addr, idx: i, size: len(c.vals), h: c.h, r: c.r, ts: c.ts(), typ: c.typ, bid: b, sigKind: "k", sigN: v.key}}
}

var defects = []string{"idx-neg", "idx-big", "idx-other", "addr-empty", "addr-other", "addr-random", "size", "height", "round", "type-flip", "type-garbage",
	"sig-bad", "sig-nil", "sig-otherkey", "tr-height", "tr-round", "tr-type", "tr-bid", "tr-ts", "tr-chain", "ts-submilli"}

// defect: a variant of a correctly signed vote with exactly one thing wrong (ts-submilli is NOT wrong: same canonical time)
func (c *ctx) defect(s vspec, kind string) vspec {
	g := c.g
	n := len(c.vals)
	other := func(i int) int {
		if n == 1 {
			return i
		}
		j := g.Rng.Intn(n - 1)
		if j >= i {
			j++
		}
		return j
	}
	v := s.v
	i := v.idx
	switch kind {
	case "idx-neg":
		v.idx = -1 - g.Rng.Intn(3)
	case "idx-big":
		v.idx = n + g.Rng.Intn(3)
	case "idx-other":
		v.idx = other(i)
	case "addr-empty":
		v.addr = nil
	case "addr-other":
		v.addr = c.vals[other(i)].addr
	case "addr-random":
		v.addr = hashOf(fmt.Sprint("addr", g.Rng.Int()))[:20]
	case "size":
		v.size += []int{-1, 1, 7}[g.Rng.Intn(3)]
	case "height":
		v.h += []uint64{1, ^uint64(0)}[g.Rng.Intn(2)] // +1 / -1
		s.ov = append(s.ov, fmt.Sprintf("s.h=%d", v.h))
	case "round":
		v.r += []int{1, -1}[g.Rng.Intn(2)]
		s.ov = append(s.ov, fmt.Sprintf("s.r=%d", v.r))
	case "type-flip":
		v.typ = 3 - v.typ
		s.ov = append(s.ov, fmt.Sprintf("s.type=%d", v.typ))
	case "type-garbage":
		v.typ = []int{0, 3, 255}[g.Rng.Intn(3)]
		s.ov = append(s.ov, fmt.Sprintf("s.type=%d", v.typ))
	case "sig-bad":
		v.sigKind, v.sigN = "bad", g.Rng.Intn(1000)
	case "sig-nil":
		v.sigKind = "nil"
	case "sig-otherkey":
		v.sigN = c.vals[other(i)].key
		if n == 1 {
			v.sigN = keyPool()[0]
			if v.sigN == c.vals[0].key {
				v.sigN = keyPool()[1]
			}
		}
	case "tr-height":
		s.ov = append(s.ov, fmt.Sprintf("s.h=%d", v.h+1))
	case "tr-round":
		s.ov = append(s.ov, fmt.Sprintf("s.r=%d", v.r+1))
	case "tr-type":
		s.ov = append(s.ov, fmt.Sprintf("s.type=%d", 3-v.typ))
	case "tr-bid":
		b := c.bids[g.Rng.Intn(len(c.bids))]
		if b.eq(v.bid) {
			b = bidT{v.bid.hash, v.bid.total + 1, v.bid.phash} // same hash, other part-set header
		}
		s.ov = append(s.ov, "s.bid="+b.tok())
	case "tr-ts":
		s.ov = append(s.ov, fmt.Sprintf("s.ts=%d,%d", v.ts.sec+1, v.ts.nsec))
	case "tr-chain":
		s.ov = append(s.ov, "s.chain="+hx.Hex([]byte(c.chain+"x")))
	case "ts-submilli":
		// signed at a time that differs below the millisecond: same canonical time, the signature is valid
		ns := v.ts.nsec/1000000*1000000 + int64(g.Rng.Intn(1000000))
		s.ov = append(s.ov, fmt.Sprintf("s.ts=%d,%d", v.ts.sec, ns))
	}
	// the corrections above for height/round/type sign the CHANGED field (the signature itself is right, the step is wrong)
	s.v = v
	return s
}

type item struct {
	line string // complete op line, or "" for a vote
	vs   vspec
}

func perms(n int) [][]int {
	if n == 0 {
		return [][]int{{}}
	}
	var out [][]int
	for _, p := range perms(n - 1) {
		for i := 0; i <= len(p); i++ {
			q := append(append(append([]int{}, p[:i]...), n-1), p[i:]...)
			out = append(out, q)
		}
	}
	return out
}

func (c *ctx) tail(ops []string, vsChain string) []string {
	ops = append(ops, "makecommit", "cinfo")
	for _, b := range c.bids[:2] {
		ops = append(ops, fmt.Sprintf("verify chain=%s bid=%s h=%d", hx.Hex([]byte(vsChain)), b.tok(), c.h))
	}
	b := c.bids[0]
	ops = append(ops, fmt.Sprintf("verify chain=%s bid=%s h=%d", hx.Hex([]byte(vsChain+"y")), b.tok(), c.h),
		fmt.Sprintf("verify chain=%s bid=%s h=%d", hx.Hex([]byte(vsChain)), b.tok(), c.h+1))
	return ops
}

func (P) Generate(g *hx.Gen) {
	maxN := g.Pick(8, 12)
	dupevCases(g)
	wideCases(g)
	fsCases(g)

	// ---- corpus: 4 equal validators, three precommits for B make the commit, two do not
	{
		c := &ctx{g: g, h: 5, r: 0, typ: 2, chain: "verif-chain"}
		c.vals = mkVals(g, 4, []int64{1, 1, 1, 1}, 0)
		c.bids = []bidT{mkBid(g, "corpus-1"), mkBid(g, "corpus-2")}
		ops := []string{"case", valsetLine(c.chain, c.vals), fmt.Sprintf("voteset chain=%s h=5 r=0 type=2", hx.Hex([]byte(c.chain)))}
		for i := 0; i < 3; i++ {
			ops = append(ops, c.good(i, c.bids[0]).line("vote", i+1))
		}
		ops = append(ops, c.good(3, c.bids[1]).line("vote", 4), c.good(0, c.bids[1]).line("vote", 5))
		g.Case("corpus quorum 3 of 4", c.tail(ops, c.chain), true)
	}

	// ---- (A) vote-set histories
	nA := g.Pick(3000, 40000)
	for k := 0; k < nA; k++ {
		n := 1 + g.Rng.Intn(maxN)
		malformed := g.Rng.Intn(12) == 0
		ps, kind := genPowers(g, n, malformed)
		mismatch := 0
		if g.Rng.Intn(15) == 0 {
			mismatch = 1
		}
		c := &ctx{g: g, h: uint64(1 + g.Rng.Intn(50)), r: g.Rng.Intn(4), typ: 1 + g.Rng.Intn(2), chain: chains[g.Rng.Intn(len(chains))]}
		if g.Rng.Intn(3) > 0 {
			c.typ = 2
		}
		c.vals = mkVals(g, n, ps, mismatch)
		tag := fmt.Sprint("A", k)
		c.bids = []bidT{mkBid(g, tag+"a"), mkBid(g, tag+"b"), nilBid}
		switch g.Rng.Intn(6) { // a block id that differs from the first only in the part-set header: its total, or only its hash
		case 0:
			c.bids[1] = bidT{c.bids[0].hash, c.bids[0].total + 1, c.bids[0].phash}
		case 1:
			c.bids[1] = bidT{c.bids[0].hash, c.bids[0].total, hashOf("other-parts-" + tag)}
			g.Count("bids-differ-in-parts-hash-only")
		}
		vsChain := c.chain
		if g.Rng.Intn(25) == 0 {
			vsChain = c.chain + "-other" // every vote is signed for another chain
		}
		ops := []string{"case", valsetLine(c.chain, c.vals), fmt.Sprintf("voteset chain=%s h=%d r=%d type=%d", hx.Hex([]byte(vsChain)), c.h, c.r, c.typ)}
		var items []item
		equiv, ndefect := false, 0
		forBid := make([]int64, 3) // power behind each candidate block id (by intent)
		var totalP int64
		split := g.Rng.Intn(5) == 0 // an undecided round
		for i := 0; i < n; i++ {
			var bs []bidT
			switch r := g.Rng.Intn(20); {
			case r < 12:
				bs = []bidT{c.bids[0]}
				if split && g.Rng.Intn(2) == 0 {
					bs = []bidT{c.bids[1]}
				}
			case r < 14:
				bs = []bidT{c.bids[1]}
			case r < 16:
				bs = []bidT{nilBid}
			case r < 19:
				bs = []bidT{c.bids[g.Rng.Intn(3)], c.bids[g.Rng.Intn(3)]}
				if g.Rng.Intn(3) == 0 {
					bs = append(bs, c.bids[g.Rng.Intn(3)])
				}
				equiv = equiv || !bs[0].eq(bs[1])
			}
			totalP += ps[i]
			for bi, b := range c.bids {
				for _, x := range bs {
					if x.eq(b) {
						forBid[bi] += ps[i]
						break
					}
				}
			}
			for _, b := range bs {
				s := c.good(i, b)
				items = append(items, item{vs: s})
				for g.Rng.Intn(6) == 0 {
					d := defects[g.Rng.Intn(len(defects))]
					g.Count("defect:" + d)
					items = append(items, item{vs: c.defect(s, d)})
					ndefect++
				}
				if g.Rng.Intn(8) == 0 { // exact re-delivery
					items = append(items, item{vs: s})
					g.Count("defect:duplicate")
				}
				if g.Rng.Intn(12) == 0 { // same slot, other time, correctly signed
					s2 := s
					s2.v.ts = c.ts()
					items = append(items, item{vs: s2})
					g.Count("defect:same-slot-other-time")
				}
			}
		}
		for p := 0; p < 3; p++ {
			if g.Rng.Intn(3) == 0 {
				peer := fmt.Sprintf("peer%d", g.Rng.Intn(2))
				items = append(items, item{line: fmt.Sprintf("peermaj23 peer=%s bid=%s", hx.Hex([]byte(peer)), c.bids[g.Rng.Intn(3)].tok())})
				g.Count("op:peermaj23")
			}
		}
		g.Rng.Shuffle(len(items), func(a, b int) { items[a], items[b] = items[b], items[a] })
		for id, it := range items {
			if it.line != "" {
				ops = append(ops, it.line)
			} else {
				ops = append(ops, it.vs.line("vote", id+1))
			}
		}
		ops = c.tail(ops, vsChain)
		g.Count("power-kind:" + kind)
		g.Count(fmt.Sprintf("size:%d", n))
		mayCross := false
		for _, p := range forBid {
			if !malformed && vsChain == c.chain && p*3 > totalP*2 {
				mayCross = true
			}
		}
		_ = ndefect
		cr := g.Case(fmt.Sprintf("history n=%d kind=%s votes=%d", n, kind, len(items)), ops, mayCross || equiv)
		crossed := false
		for _, a := range cr.Impl {
			if strings.Contains(a, "has23=true") {
				crossed = true
			}
		}
		if crossed {
			g.Count("history:crossed-quorum")
		}
		if equiv {
			g.Count("history:equivocation")
		}
		if crossed || equiv {
			g.Count("nontrivial:history")
		}
	}

	// ---- (A2) every arrival order of a small vote multiset (incl. an equivocation and a peer claim)
	nA2 := g.Pick(6, 60)
	for k := 0; k < nA2; k++ {
		n := 3 + g.Rng.Intn(2)
		ps, kind := genPowers(g, n, false)
		c := &ctx{g: g, h: 7, r: 1, typ: 2, chain: "verif-chain"}
		c.vals = mkVals(g, n, ps, 0)
		tag := fmt.Sprint("P", k)
		c.bids = []bidT{mkBid(g, tag+"a"), mkBid(g, tag+"b"), nilBid}
		var items []item
		for i := 0; i < n && len(items) < g.Pick(3, 4); i++ {
			items = append(items, item{vs: c.good(i, c.bids[0])})
		}
		items = append(items, item{vs: c.good(0, c.bids[1])}) // validator 0 equivocates
		if g.Rng.Intn(2) == 0 {
			items = append(items, item{line: fmt.Sprintf("peermaj23 peer=%s bid=%s", hx.Hex([]byte("p")), c.bids[1].tok())})
		} else {
			items = append(items, item{vs: c.good(n-1, c.bids[1])})
		}
		for _, p := range perms(len(items)) {
			ops := []string{"case", valsetLine(c.chain, c.vals), fmt.Sprintf("voteset chain=%s h=7 r=1 type=2", hx.Hex([]byte(c.chain)))}
			for _, j := range p {
				if items[j].line != "" {
					ops = append(ops, items[j].line)
				} else {
					ops = append(ops, items[j].vs.line("vote", j+1))
				}
			}
			g.Case(fmt.Sprintf("orders n=%d kind=%s", n, kind), c.tail(ops, c.chain), true)
		}
		g.Count("orders:multisets")
	}

	// ---- (B) hand-built commits
	nB := g.Pick(4000, 60000)
	slotKinds := []string{"nil", "nil", "other-block", "other-block", "nil-block", "height", "round", "type", "sig-bad", "sig-nil", "sig-otherkey",
		"tr-bid", "tr-chain", "tr-ts", "foreign-slot", "wrong-addr-fields"}
	for k := 0; k < nB; k++ {
		n := 1 + g.Rng.Intn(maxN)
		malformed := g.Rng.Intn(15) == 0
		ps, kind := genPowers(g, n, malformed)
		c := &ctx{g: g, h: uint64(1 + g.Rng.Intn(50)), r: g.Rng.Intn(4), typ: 2, chain: chains[g.Rng.Intn(len(chains))]}
		c.vals = mkVals(g, n, ps, 0)
		tag := fmt.Sprint("B", k)
		c.bids = []bidT{mkBid(g, tag+"a"), mkBid(g, tag+"b"), nilBid}
		if g.Rng.Intn(4) == 0 {
			c.bids[1] = bidT{c.bids[0].hash, c.bids[0].total, append(append([]byte{}, c.bids[0].phash...), 1)}
		}
		B := c.bids[0]
		// choose the validators that precommit B: aim at floor(2T/3) or floor(2T/3)+1 when possible
		var total int64
		for _, p := range ps {
			total += p
		}
		inS := make([]bool, n)
		mode := g.Rng.Intn(4) // 0: random, 1: just below/at the threshold, 2: just above, 3: everybody
		var sum int64
		for _, i := range g.Rng.Perm(n) {
			switch mode {
			case 0:
				inS[i] = g.Rng.Intn(4) > 0
			case 1:
				inS[i] = !malformed && (sum+ps[i])*3 <= total*2
			case 2:
				inS[i] = malformed || sum*3 <= total*2
			default:
				inS[i] = true
			}
			if inS[i] {
				sum += ps[i]
			}
		}
		defective := g.Rng.Intn(3) == 0
		ops := []string{"case", valsetLine(c.chain, c.vals), "cnew bid=" + B.tok()}
		size := n
		if g.Rng.Intn(30) == 0 {
			size = n + []int{-1, 1}[g.Rng.Intn(2)]
		}
		for i := 0; i < size; i++ {
			if i >= n {
				ops = append(ops, "cslot nil")
				continue
			}
			if inS[i] {
				ops = append(ops, c.good(i, B).line("cslot", i+1))
				continue
			}
			sk := "nil"
			if g.Rng.Intn(2) == 0 {
				sk = slotKinds[g.Rng.Intn(5)]
			}
			if defective && g.Rng.Intn(2) == 0 {
				sk = slotKinds[g.Rng.Intn(len(slotKinds))]
			}
			g.Count("slot:" + sk)
			s := c.good(i, B)
			switch sk {
			case "nil":
				ops = append(ops, "cslot nil")
				continue
			case "other-block":
				s = c.good(i, c.bids[1])
			case "nil-block":
				s = c.good(i, nilBid)
			case "height", "round", "sig-bad", "sig-nil", "sig-otherkey", "tr-bid", "tr-chain", "tr-ts":
				s = c.defect(s, sk)
			case "type":
				s = c.defect(s, "type-flip")
			case "foreign-slot": // another validator's correctly signed precommit for B, placed in this slot
				j := g.Rng.Intn(n)
				s = c.good(j, B)
			case "wrong-addr-fields": // unsigned fields are garbage; the signature is right (VerifyCommit does not read them)
				s.v.addr = hashOf("x")[:20]
				s.v.idx = -4
				s.v.size = 99
			}
			ops = append(ops, s.line("cslot", i+1))
		}
		ops = append(ops, "cinfo", fmt.Sprintf("verify chain=%s bid=%s h=%d", hx.Hex([]byte(c.chain)), B.tok(), c.h),
			fmt.Sprintf("verify chain=%s bid=%s h=%d", hx.Hex([]byte(c.chain)), c.bids[1].tok(), c.h))
		if g.Rng.Intn(3) == 0 {
			ops = append(ops, fmt.Sprintf("verify chain=%s bid=%s h=%d", hx.Hex([]byte(c.chain+"z")), B.tok(), c.h),
				fmt.Sprintf("verify chain=%s bid=%s h=%d", hx.Hex([]byte(c.chain)), B.tok(), c.h-1))
		}
		near := false
		if !malformed {
			var maxp int64
			for _, p := range ps {
				if p > maxp {
					maxp = p
				}
			}
			q := total*2/3 + 1
			near = sum >= q-maxp && sum < q+maxp
		}
		g.Count("power-kind:" + kind)
		g.Count(fmt.Sprintf("commit-mode:%d", mode))
		if near {
			g.Count("nontrivial:commit-near-threshold")
		}
		g.Case(fmt.Sprintf("commit n=%d kind=%s mode=%d", n, kind, mode), ops, near)
	}

	// ---- (C) sign-bytes: a base vote and one-field variations
	nC := g.Pick(300, 3000)
	for k := 0; k < nC; k++ {
		c := &ctx{g: g, h: uint64(g.Rng.Intn(1000)), r: g.Rng.Intn(10) - 2, typ: []int{1, 2, 2, 0, 77, 255}[g.Rng.Intn(6)], chain: chains[g.Rng.Intn(len(chains))]}
		if g.Rng.Intn(5) == 0 {
			c.h = ^uint64(0) - uint64(g.Rng.Intn(3))
		}
		c.vals = mkVals(g, 1, []int64{1}, 0)
		b := mkBid(g, fmt.Sprint("C", k))
		switch g.Rng.Intn(6) {
		case 0:
			b = nilBid
		case 1:
			b.phash = nil
		case 2:
			b.total = 0
		case 3:
			b.hash = make([]byte, 32)
		}
		c.bids = []bidT{b}
		base := c.good(0, b)
		switch g.Rng.Intn(6) {
		case 0:
			base.v.ts = tsT{-62135596800, 0} // time.Time{}
		case 1:
			base.v.ts = tsT{253402300799, 999999999}
		case 2:
			base.v.ts = tsT{int64(g.Rng.Intn(2000000000)) - 1000000000, int64(g.Rng.Intn(1000000000))}
		case 3:
			base.v.ts = tsT{951782400 + int64(g.Rng.Intn(3))*86400 - 1, 999000000} // around 2000-02-29
		}
		ch := hx.Hex([]byte(c.chain))
		ops := []string{"case", valsetLine(c.chain, c.vals), base.line("signbytes chain="+ch, 1)}
		vars := []func(v *pvote){
			func(v *pvote) { v.h++ }, func(v *pvote) { v.r++ }, func(v *pvote) { v.typ = (v.typ + 1) % 256 },
			func(v *pvote) { v.bid = bidT{hashOf("other"), v.bid.total, v.bid.phash} },
			func(v *pvote) { v.bid = bidT{v.bid.hash, v.bid.total + 1, v.bid.phash} },
			func(v *pvote) { v.bid = bidT{v.bid.hash, v.bid.total, append(append([]byte{}, v.bid.phash...), 7)} },
			func(v *pvote) { v.ts.sec++ }, func(v *pvote) { v.ts.nsec = (v.ts.nsec + 1000000) % 1000000000 },
			func(v *pvote) { v.ts.sec += 86400 * 365 }, func(v *pvote) { v.idx, v.size, v.addr = 3, 9, hashOf("q")[:20] },
		}
		for id, f := range vars {
			if g.Rng.Intn(2) == 0 {
				s := base
				f(&s.v)
				ops = append(ops, s.line("signbytes chain="+ch, id+2))
			}
		}
		ops = append(ops, base.line("signbytes chain="+hx.Hex([]byte(c.chain+"\"")), 20))
		g.Case("signbytes", ops, true)
	}

	// ---- (D) malformed sets and commits
	{
		c := &ctx{g: g, h: 3, r: 0, typ: 2, chain: "verif-chain"}
		c.vals = mkVals(g, 2, []int64{1, 1}, 0)
		c.bids = []bidT{mkBid(g, "D1"), mkBid(g, "D2"), nilBid}
		ch := hx.Hex([]byte(c.chain))
		vl := valsetLine(c.chain, c.vals)
		g.Case("empty validator set", []string{"case", valsetLine(c.chain, nil), "voteset chain=" + ch + " h=3 r=0 type=2", c.good(0, c.bids[0]).line("vote", 1),
			"peermaj23 peer=70 bid=" + c.bids[0].tok(), "makecommit", "cnew bid=" + c.bids[0].tok(), "cinfo", "verify chain=" + ch + " bid=" + c.bids[0].tok() + " h=0",
			"verify chain=" + ch + " bid=" + c.bids[0].tok() + " h=3"}, false)
		g.Case("height zero vote set", []string{"case", vl, "voteset chain=" + ch + " h=0 r=0 type=2", c.good(0, c.bids[0]).line("vote", 1), "makecommit"}, false)
		g.Case("prevote set cannot make a commit", []string{"case", vl, "voteset chain=" + ch + " h=3 r=0 type=1",
			func() string { c.typ = 1; defer func() { c.typ = 2 }(); return c.good(0, c.bids[0]).line("vote", 1) }(),
			func() string { c.typ = 1; defer func() { c.typ = 2 }(); return c.good(1, c.bids[0]).line("vote", 2) }(), "makecommit"}, false)
		g.Case("empty and all-nil commits", []string{"case", vl, "cnew bid=" + c.bids[0].tok(), "cinfo", "verify chain=" + ch + " bid=" + c.bids[0].tok() + " h=0",
			"cslot nil", "cslot nil", "cinfo", "verify chain=" + ch + " bid=" + c.bids[0].tok() + " h=0", "verify chain=" + ch + " bid=" + c.bids[0].tok() + " h=3",
			"cnew bid=" + nilBid.tok(), c.good(0, nilBid).line("cslot", 1), c.good(1, nilBid).line("cslot", 2), "cinfo", "verify chain=" + ch + " bid=" + nilBid.tok() + " h=3"}, false)
		g.Case("peer claims", []string{"case", vl, "voteset chain=" + ch + " h=3 r=0 type=2", "peermaj23 peer=70 bid=" + c.bids[0].tok(), "peermaj23 peer=70 bid=" + c.bids[0].tok(),
			"peermaj23 peer=70 bid=" + c.bids[1].tok(), "peermaj23 peer=71 bid=" + c.bids[1].tok(), c.good(0, c.bids[0]).line("vote", 1), c.good(0, c.bids[1]).line("vote", 2),
			c.good(1, c.bids[1]).line("vote", 3), "makecommit", "verify chain=" + ch + " bid=" + c.bids[1].tok() + " h=3"}, true)
	}
}
