package c03

// Monitors and generators of the widening (see wide.go).  Ground truth is the harness's own bookkeeping of what it
// signed with which key; it never consults the mechanism under test.

import (
	"bytes"
	"fmt"
	"math/big"
	"strconv"
	"strings"

	"lvharness/hx"
)

// vcaDuplicateSlots: the cases in which ONE validator's precommit sits in several slots of a commit handed to
// VerifyCommitAny.  Before fix ddc1c92 such a validator was counted once per slot (finding verifycommitany-double-count,
// repaired); the cases are on so that a revert of the fix fails the monitor verify_commit_any_sound with a failing input.
const vcaDuplicateSlots = true

type mstEntry struct {
	addr []byte
	kind string
	n    int
}

const siteVCA = "types/validator_set.go:VerifyCommitAny"
const siteMST = "types/tx_type_mst.go:VerifySign"
const siteRLC = "consensus/state.go:reconstructLastCommit"

func (m *mon) valIndex(addr []byte) int {
	for j, v := range m.vals {
		if bytes.Equal(v.addr, addr) {
			return j
		}
	}
	return -1
}

// distinct validators of the set with a correctly signed precommit for exactly (chain, h, common round, bid) anywhere in the commit
func (m *mon) distinctSigners(chain string, bid bidT, h uint64) *big.Int {
	var first *pvote
	for _, s := range m.cslots {
		if s != nil {
			first = s
			break
		}
	}
	seen := map[int]bool{}
	for _, s := range m.cslots {
		if s == nil {
			continue
		}
		j := m.valIndex(s.addr)
		if j < 0 || seen[j] {
			continue
		}
		if s.typ == 2 && s.h == h && s.r == first.r && s.bid.eq(bid) && s.sigValid(chain, m.vals[j].key) {
			seen[j] = true
		}
	}
	return m.powerOf(func(i int) bool { return seen[i] })
}

func (m *mon) wideMon(toks []string, op, ans string, panicked bool, site string) {
	switch toks[0] {
	case "verifyany":
		if !m.hasC {
			return
		}
		if panicked {
			m.fail("no_panic", "panic:"+site, site, "VerifyCommitAny panicked on "+op)
			return
		}
		if !m.small || ans != "ok" {
			return
		}
		c, _ := hx.Arg(toks, "chain")
		b, _ := hx.Arg(toks, "bid")
		hs, _ := hx.Arg(toks, "h")
		h, _ := strconv.ParseUint(hs, 10, 64)
		p := m.distinctSigners(string(hx.UnHex(c)), parseBid(b), h)
		if !moreThanTwoThirds(p, m.total) {
			m.fail("verify_commit_any_sound", "verifycommitany-double-count", siteVCA,
				fmt.Sprintf("VerifyCommitAny accepted, but the DISTINCT validators with a correctly signed precommit for this block hold %s of %s (%s)", p, m.total, op))
		}
	case "verifynil":
		// a nil commit must be refused, not accepted and not a crash (VerifyCommit is what fast sync calls on peer data);
		// VerifyCommitAny has no caller: its answer is compared with the model only
		if panicked || !strings.HasPrefix(ans, "verify=err=") {
			m.fail("nil_commit_refused", "nil-commit-not-refused", siteVC, "VerifyCommit(nil) answered "+ans)
		}
	case "cmore", "vsinfo":
		if panicked {
			m.fail("no_panic", "panic:"+site, site, "getter panicked on "+op)
		}
	case "nilset":
		if panicked || !strings.Contains(ans, "has23=false iscommit=false any=false maj=false addvote-panics=true peer-panics=true") {
			m.fail("nil_set_inert", "nil-voteset-reports-majority", "types/vote_set.go", "a nil vote set reported a majority or accepted a mutation: "+ans)
		}
	case "votenil":
		if !m.alive {
			return
		}
		if panicked {
			m.fail("no_panic", "panic:"+site, site, "AddVote(nil) panicked")
			return
		}
		if !strings.HasPrefix(ans, "added=false err=nil-vote ") || !sameState(m.prevState, stateOf(ans)) {
			m.fail("rejects_invalid", "nil-vote-changed-state", siteVS, "AddVote(nil) was not refused without effect: "+ans)
		}
		m.checkState(op, ans)
	case "getbyaddr":
		if !m.alive {
			return
		}
		a, _ := hx.Arg(toks, "addr")
		j := m.valIndex(hx.UnHex(a))
		if j < 0 {
			if !panicked {
				m.fail("get_by_address", "unknown-address-has-vote", "types/vote_set.go:GetByAddress", "GetByAddress answered for an address outside the set: "+ans)
			}
			return
		}
		if panicked {
			m.fail("no_panic", "panic:"+site, site, "GetByAddress panicked for a member: "+op)
			return
		}
		at := hx.Tokens(ans)
		idx, _ := hx.Arg(at, "idx")
		vote, _ := hx.Arg(at, "vote")
		want := "_"
		if vs, _ := hx.Arg(hx.Tokens(m.prevState), "votes"); vs != "" {
			if sl := hx.SplitComma(vs); j < len(sl) {
				want = sl[j]
			}
		}
		if idx != strconv.Itoa(j) || vote != want || !strings.HasPrefix(ans, "has=true ") {
			m.fail("get_by_address", "address-lookup-wrong-slot", "types/vote_set.go:GetByAddress", fmt.Sprintf("validator %d: %s, canonical vote is %s", j, ans, want))
		}
	case "mstnew":
		m.mst = nil
	case "mstsig":
		a, _ := hx.Arg(toks, "addr")
		sg, _ := hx.Arg(toks, "sig")
		p := strings.Split(sg, ":")
		n, _ := strconv.Atoi(p[1])
		m.mst = append(m.mst, mstEntry{hx.UnHex(a), p[0], n})
	case "mstverify":
		if panicked {
			m.fail("no_panic", "panic:"+site, site, "VerifySign panicked on "+op)
			return
		}
		if v, _ := hx.Arg(toks, "vals"); v == "nil" || len(m.vals) == 0 {
			if ans == "ok" {
				m.fail("mst_sound", "mst-accepted-without-validators", siteMST, "accepted without a validator set")
			}
			return
		}
		if !m.small {
			return
		}
		// distinct validators with a genuine signature over exactly this request, anywhere in the list
		seen := map[int]bool{}
		clean := true // no entry that aborts the scan (unknown address, undecodable signature, repeated good signer)
		for _, e := range m.mst {
			j := m.valIndex(e.addr)
			if j < 0 || e.kind == "malformed" || seen[j] { // (any further entry under an address that already signed aborts the scan)
				clean = false
				continue
			}
			if e.kind == "good" && e.n == m.vals[j].key {
				seen[j] = true
			}
		}
		p := m.powerOf(func(i int) bool { return seen[i] })
		enough := moreThanTwoThirds(p, m.total)
		if ans == "ok" && !enough {
			m.fail("mst_sound", "mst-accepted-without-two-thirds", siteMST,
				fmt.Sprintf("VerifySign accepted, but the distinct validators with a genuine signature hold %s of %s", p, m.total))
		}
		if ans != "ok" && enough && clean {
			m.fail("mst_complete", "mst-valid-rejected", siteMST, fmt.Sprintf("VerifySign answered %s with %s of %s genuinely signed", ans, p, m.total))
		}
	case "reconstruct":
		hs, _ := hx.Arg(toks, "h")
		c, _ := hx.Arg(toks, "chain")
		h, _ := strconv.ParseUint(hs, 10, 64)
		chain := string(hx.UnHex(c))
		if h == 0 {
			if ans != "ok none" {
				m.fail("reconstruct_last_commit", "last-commit-at-genesis", siteRLC, "a LastCommit was built at height 0: "+ans)
			}
			return
		}
		// ground truth: per block id, the validators (by the index written in the vote; the slot position is not read) with a
		// correctly signed precommit at (chain, h, common round); a validator that appears twice spoils the commit
		var first *pvote
		for _, s := range m.cslots {
			if s != nil {
				first = s
				break
			}
		}
		byBid := map[string]*big.Int{}
		clean := m.hasC
		used := map[int]bool{}
		for _, s := range m.cslots {
			if s == nil {
				continue
			}
			i := s.idx
			ok := i >= 0 && i < len(m.vals) && !used[i] && bytes.Equal(s.addr, m.vals[i].addr) && s.size == len(m.vals) && s.typ == 2 && s.h == h && s.r == first.r &&
				s.sigValid(chain, m.vals[i].key)
			if !ok {
				clean = false
				continue
			}
			used[i] = true
			k := s.bid.tok()
			if byBid[k] == nil {
				byBid[k] = new(big.Int)
			}
			byBid[k].Add(byBid[k], big.NewInt(m.vals[i].power))
		}
		if panicked {
			if m.small && clean {
				for k, p := range byBid {
					if moreThanTwoThirds(p, m.total) {
						m.fail("reconstruct_last_commit", "valid-seen-commit-refused", siteRLC, fmt.Sprintf("a clean seen commit with %s of %s for %s made the restart panic", p, m.total, k))
					}
				}
			}
			return
		}
		if !m.small {
			return
		}
		maj, _ := hx.Arg(hx.Tokens(ans), "maj23")
		p := byBid[maj]
		if !clean || p == nil || !moreThanTwoThirds(p, m.total) {
			m.fail("reconstruct_last_commit", "last-commit-without-two-thirds", siteRLC,
				fmt.Sprintf("LastCommit rebuilt with majority %s from a seen commit whose valid precommits for it hold %v of %s (clean=%v)", maj, p, m.total, clean))
		}
	}
}

// ---- generators ----------------------------------------------------------------------------

func edgePowers(g *hx.Gen, n int) ([]int64, string) {
	kinds := []string{"sum62-1", "sum62", "sum62+1", "neg-overflow", "mixed-sign-big", "one-max"}
	kind := kinds[g.Rng.Intn(len(kinds))]
	ps := make([]int64, n)
	two62 := int64(1) << 62
	switch kind {
	case "sum62-1", "sum62", "sum62+1":
		target := two62 - 1 + int64(map[string]int{"sum62-1": 0, "sum62": 1, "sum62+1": 2}[kind])
		base := target / int64(n)
		var s int64
		for i := range ps {
			ps[i] = base
			s += base
		}
		ps[g.Rng.Intn(n)] += target - s
	case "neg-overflow":
		for i := range ps {
			ps[i] = -two62 - int64(g.Rng.Intn(3))
		}
	case "mixed-sign-big":
		for i := range ps {
			ps[i] = (two62 + int64(g.Rng.Intn(3))) * int64(1-2*(i%2))
		}
	case "one-max":
		for i := range ps {
			ps[i] = int64(g.Rng.Intn(3))
		}
		ps[g.Rng.Intn(n)] = int64(^uint64(0) >> 1)
	}
	return ps, kind
}

// aimSubset picks validators whose power lands just below / just above two thirds (mode 1 / 2), everybody (3) or random (0)
func aimSubset(g *hx.Gen, ps []int64, mode int) []bool {
	n := len(ps)
	in := make([]bool, n)
	tot, sum := new(big.Int), new(big.Int)
	for _, p := range ps {
		tot.Add(tot, big.NewInt(p))
	}
	for _, i := range g.Rng.Perm(n) {
		with := new(big.Int).Add(sum, big.NewInt(ps[i]))
		switch mode {
		case 0:
			in[i] = g.Rng.Intn(3) > 0
		case 1:
			in[i] = !moreThanTwoThirds(with, tot)
		case 2:
			in[i] = !moreThanTwoThirds(sum, tot)
		default:
			in[i] = true
		}
		if in[i] {
			sum = with
		}
	}
	return in
}

func wideCases(g *hx.Gen) {
	maxN := g.Pick(8, 12)
	hexs := func(s string) string { return hx.Hex([]byte(s)) }

	// ---- (E1) VerifyCommitAny: looked up by the address written in the precommit
	for k := 0; k < g.Pick(500, 12000); k++ {
		n := 1 + g.Rng.Intn(maxN)
		ps, kind := genPowers(g, n, g.Rng.Intn(15) == 0)
		if g.Rng.Intn(8) == 0 {
			ps, kind = edgePowers(g, n)
		}
		c := &ctx{g: g, h: uint64(1 + g.Rng.Intn(50)), r: g.Rng.Intn(4), typ: 2, chain: chains[g.Rng.Intn(len(chains))]}
		c.vals = mkVals(g, n, ps, 0)
		tag := fmt.Sprint("E", k)
		c.bids = []bidT{mkBid(g, tag+"a"), mkBid(g, tag+"b"), nilBid}
		B := c.bids[0]
		in := aimSubset(g, ps, g.Rng.Intn(4))
		// where each signer's precommit is placed: own slot, or shuffled among the slots (VerifyCommitAny does not care)
		place := make([]int, n)
		for i := range place {
			place[i] = i
		}
		shuffled := g.Rng.Intn(3) == 0
		if shuffled {
			g.Rng.Shuffle(n, func(a, b int) { place[a], place[b] = place[b], place[a] })
		}
		slots := make([]string, n)
		for i := range slots {
			slots[i] = "cslot nil"
		}
		id := 1
		for i := 0; i < n; i++ {
			var s vspec
			switch {
			case in[i]:
				s = c.good(i, B)
			case g.Rng.Intn(3) == 0:
				s = c.good(i, c.bids[1+g.Rng.Intn(2)])
			case g.Rng.Intn(6) == 0:
				s = c.defect(c.good(i, B), []string{"sig-bad", "sig-otherkey", "tr-bid", "tr-chain", "height", "round", "type-flip"}[g.Rng.Intn(7)])
				g.Count("any-slot:defect")
			case g.Rng.Intn(6) == 0: // a correctly signed precommit of a key that is not in the set: skipped
				out := keyPool()[g.Rng.Intn(poolSize)]
				member := false
				for _, v := range c.vals {
					member = member || v.key == out
				}
				if member {
					continue
				}
				s = c.good(i, B)
				s.v.addr, s.v.sigN = keyAddr(out), out
				g.Count("any-slot:outsider")
			default:
				continue
			}
			slots[place[i]] = s.line("cslot", id)
			id++
			if vcaDuplicateSlots && in[i] && g.Rng.Intn(4) == 0 { // the same precommit once more, in a free slot
				for j := range slots {
					if slots[j] == "cslot nil" {
						slots[j] = s.line("cslot", id)
						id++
						g.Count("any-slot:duplicate")
						break
					}
				}
			}
		}
		ch := hexs(c.chain)
		ops := append([]string{"case", valsetLine(c.chain, c.vals), "cnew bid=" + B.tok()}, slots...)
		if g.Rng.Intn(25) == 0 { // one slot more than validators
			ops = append(ops, "cslot nil")
			g.Count("any:size-mismatch")
		}
		ops = append(ops, "cinfo", "cmore",
			fmt.Sprintf("verifyany chain=%s bid=%s h=%d", ch, B.tok(), c.h), fmt.Sprintf("verify chain=%s bid=%s h=%d", ch, B.tok(), c.h),
			fmt.Sprintf("verifyany chain=%s bid=%s h=%d", ch, c.bids[1].tok(), c.h))
		if g.Rng.Intn(3) == 0 {
			ops = append(ops, fmt.Sprintf("verifyany chain=%s bid=%s h=%d", hexs(c.chain+"z"), B.tok(), c.h), fmt.Sprintf("verifyany chain=%s bid=%s h=%d", ch, B.tok(), c.h+1))
		}
		if g.Rng.Intn(2) == 0 {
			ops = append(ops, fmt.Sprintf("reconstruct h=%d chain=%s", c.h, ch))
			g.Count("op:reconstruct")
		}
		g.Count("any-power-kind:" + kind)
		if shuffled {
			g.Count("any:shuffled")
		}
		g.Case(fmt.Sprintf("commit-any n=%d kind=%s", n, kind), ops, true)
	}

	// ---- (E2) commits whose precommits disagree on height / round / type, first slots nil
	for k := 0; k < g.Pick(150, 3000); k++ {
		n := 1 + g.Rng.Intn(6)
		ps, _ := genPowers(g, n, false)
		c := &ctx{g: g, h: uint64(1 + g.Rng.Intn(5)), r: g.Rng.Intn(3), typ: 2, chain: "verif-chain"}
		c.vals = mkVals(g, n, ps, 0)
		B := mkBid(g, fmt.Sprint("F", k))
		if g.Rng.Intn(8) == 0 {
			B = nilBid
		}
		c.bids = []bidT{B, mkBid(g, "F-other"), nilBid}
		ops := []string{"case", valsetLine(c.chain, c.vals), "cnew bid=" + B.tok()}
		lead := g.Rng.Intn(n + 1) // leading nil slots
		odd := g.Rng.Intn(n + 1)  // the slot that disagrees
		what := []string{"height", "round", "type-flip", "none"}[g.Rng.Intn(4)]
		for i := 0; i < n; i++ {
			if i < lead {
				ops = append(ops, "cslot nil")
				continue
			}
			s := c.good(i, B)
			if i == odd && what != "none" {
				s = c.defect(s, what)
			}
			ops = append(ops, s.line("cslot", i+1))
		}
		g.Count("commit-shape:" + what)
		ops = append(ops, "cinfo", "cmore", fmt.Sprintf("verify chain=%s bid=%s h=%d", hexs(c.chain), B.tok(), c.h),
			fmt.Sprintf("verifyany chain=%s bid=%s h=%d", hexs(c.chain), B.tok(), c.h), fmt.Sprintf("reconstruct h=%d chain=%s", c.h, hexs(c.chain)))
		g.Case("commit shapes "+what, ops, what != "none")
	}

	// ---- (E3) getters, nil vote, nil set, address lookups on a live vote set
	for k := 0; k < g.Pick(150, 3000); k++ {
		n := 1 + g.Rng.Intn(maxN)
		ps, _ := genPowers(g, n, false)
		c := &ctx{g: g, h: uint64(1 + g.Rng.Intn(50)), r: g.Rng.Intn(4), typ: 1 + g.Rng.Intn(2), chain: chains[g.Rng.Intn(len(chains))]}
		c.vals = mkVals(g, n, ps, 0)
		tag := fmt.Sprint("G", k)
		c.bids = []bidT{mkBid(g, tag+"a"), mkBid(g, tag+"b"), nilBid}
		ops := []string{"case", valsetLine(c.chain, c.vals), fmt.Sprintf("voteset chain=%s h=%d r=%d type=%d", hexs(c.chain), c.h, c.r, c.typ), "vsinfo", "votenil"}
		id := 1
		for _, i := range g.Rng.Perm(n) {
			if g.Rng.Intn(4) == 0 {
				continue
			}
			ops = append(ops, c.good(i, c.bids[g.Rng.Intn(2)]).line("vote", id))
			id++
			if g.Rng.Intn(3) == 0 {
				ops = append(ops, "votenil")
			}
			if g.Rng.Intn(3) == 0 {
				ops = append(ops, "getbyaddr addr="+hx.Hex(c.vals[g.Rng.Intn(n)].addr))
			}
		}
		for _, v := range c.vals {
			ops = append(ops, "getbyaddr addr="+hx.Hex(v.addr))
		}
		ops = append(ops, "getbyaddr addr="+hx.Hex(hashOf(tag)[:20]), "nilset")
		g.Case("getters n="+strconv.Itoa(n), c.tail(ops, c.chain), true)
	}

	// ---- (E4) MultiSignAccountTx.VerifySign: > 2/3 of the validators' power, each signer once
	for k := 0; k < g.Pick(700, 15000); k++ {
		n := 1 + g.Rng.Intn(maxN)
		ps, kind := genPowers(g, n, g.Rng.Intn(15) == 0)
		if g.Rng.Intn(8) == 0 {
			ps, kind = edgePowers(g, n)
		}
		c := &ctx{g: g, chain: "verif-chain"}
		c.vals = mkVals(g, n, ps, 0)
		in := aimSubset(g, ps, g.Rng.Intn(4))
		var sigs []string
		add := func(i int, sig string) { sigs = append(sigs, fmt.Sprintf("mstsig addr=%s sig=%s", hx.Hex(c.vals[i].addr), sig)) }
		for _, i := range g.Rng.Perm(n) {
			if !in[i] {
				switch g.Rng.Intn(8) {
				case 0:
					add(i, fmt.Sprintf("bad:%d", g.Rng.Intn(100)))
					g.Count("mst-entry:bad")
				case 1:
					add(i, fmt.Sprintf("other:%d", c.vals[i].key))
					g.Count("mst-entry:other-nonce")
				case 2:
					add(i, fmt.Sprintf("good:%d", c.vals[(i+1)%n].key)) // another validator's genuine signature under this address
					g.Count("mst-entry:foreign-key")
				}
				continue
			}
			if g.Rng.Intn(6) == 0 { // a useless entry first, then the genuine one: still counted once
				add(i, fmt.Sprintf("bad:%d", g.Rng.Intn(100)))
				g.Count("mst-entry:bad-then-good")
			}
			add(i, fmt.Sprintf("good:%d", c.vals[i].key))
			if g.Rng.Intn(8) == 0 { // the genuine signature twice
				add(i, fmt.Sprintf("good:%d", c.vals[i].key))
				g.Count("mst-entry:duplicate-good")
			}
		}
		if g.Rng.Intn(10) == 0 {
			sigs = append(sigs, fmt.Sprintf("mstsig addr=%s sig=good:%d", hx.Hex(hashOf(fmt.Sprint("out", k))[:20]), keyPool()[0]))
			g.Count("mst-entry:unknown-address")
		}
		if g.Rng.Intn(10) == 0 {
			sigs = append(sigs, fmt.Sprintf("mstsig addr=%s sig=malformed:%d", hx.Hex(c.vals[g.Rng.Intn(n)].addr), g.Rng.Intn(200)))
			g.Count("mst-entry:malformed")
		}
		if g.Rng.Intn(3) == 0 {
			g.Rng.Shuffle(len(sigs), func(a, b int) { sigs[a], sigs[b] = sigs[b], sigs[a] })
		}
		signers := "-"
		if g.Rng.Intn(2) == 0 {
			signers = fmt.Sprintf("%s:%d", hx.Hex(hashOf("s")[:20]), 1+g.Rng.Intn(5))
		}
		ops := []string{"case", valsetLine(c.chain, c.vals), fmt.Sprintf("mstnew nonce=%d txtype=%d minpower=%d signers=%s", g.Rng.Intn(1000), g.Rng.Intn(2), g.Rng.Intn(10), signers)}
		ops = append(ops, sigs...)
		ops = append(ops, "mstverify")
		if g.Rng.Intn(20) == 0 {
			ops = append(ops, "mstverify vals=nil")
		}
		g.Count("mst-power-kind:" + kind)
		g.Case(fmt.Sprintf("mst n=%d kind=%s sigs=%d", n, kind, len(sigs)), ops, true)
	}
	g.Case("mst without validators", []string{"case", valsetLine("c", nil), "mstnew nonce=1 txtype=0 minpower=1 signers=-", "mstverify", "mstverify vals=nil"}, false)

	// ---- (E5) restart: LastCommit rebuilt from the stored seen commit
	{
		c := &ctx{g: g, h: 9, r: 1, typ: 2, chain: "verif-chain"}
		c.vals = mkVals(g, 4, []int64{1, 1, 1, 1}, 0)
		B, B2 := mkBid(g, "R1"), mkBid(g, "R2")
		c.bids = []bidT{B, B2, nilBid}
		vl, ch := valsetLine(c.chain, c.vals), hexs(c.chain)
		g.Case("restart without a stored commit", []string{"case", vl, "reconstruct h=9 chain=" + ch, "reconstruct h=0 chain=" + ch}, true)
		g.Case("restart: 2 of 4 stored", []string{"case", vl, "cnew bid=" + B.tok(), c.good(0, B).line("cslot", 1), c.good(1, B).line("cslot", 2), "cslot nil", "cslot nil",
			"reconstruct h=9 chain=" + ch}, true)
		g.Case("restart: 3 of 4 stored", []string{"case", vl, "cnew bid=" + B.tok(), c.good(0, B).line("cslot", 1), c.good(1, B).line("cslot", 2), "cslot nil", c.good(3, B).line("cslot", 4),
			"reconstruct h=9 chain=" + ch, "reconstruct h=8 chain=" + ch, "reconstruct h=9 chain=" + hexs("other")}, true)
		g.Case("restart: stored commit is for another block than it claims", []string{"case", vl, "cnew bid=" + B.tok(), c.good(0, B2).line("cslot", 1), c.good(1, B2).line("cslot", 2),
			c.good(2, B2).line("cslot", 3), "cslot nil", "reconstruct h=9 chain=" + ch}, true)
		g.Case("nil commit", []string{"case", vl, "verifynil chain=" + ch + " bid=" + B.tok()}, true)
		g.Case("restart: empty and all-nil stored commits", []string{"case", vl, "cnew bid=" + B.tok(), "cmore", "reconstruct h=9 chain=" + ch, "cslot nil", "cslot nil", "cslot nil", "cslot nil",
			"reconstruct h=9 chain=" + ch}, true)
	}
}
