package c03

// Fast-sync cases: variants of the served chain, their symbolic description (for the Lean model and the monitors), the
// executor op `fsrun` (runs the real reactor in a CHILD process: poolRoutine has no recover, a panic there ends the process)
// and the generator.
//
// A case is:   case / per height h = 1..N:  fsvals (validator set in force at h)  fscommit bid=<id the commit is for>
//              fsslot … (the commit for h exactly as block h+1 carries it)  fsheight h= bid=<id of block h AS SERVED> served=<bool>
//              / fsrun <chain parameters> cv=<h:variant,…> bv=<h:variant,…> announce=<height> relay=<…>
// The description lines are answered "ok" by both sides; `fsrun` first checks that they ARE the description of what it is
// about to serve (same construction code), then runs.  Block ids are abstract tokens (votes carry wall-clock times, so the
// real hashes differ from process to process): equal real ids <-> equal tokens, in order of first appearance.

import (
	"bytes"
	"encoding/json"
	"sync"
	"sync/atomic"
	"fmt"
	"os"
	osexec "os/exec"
	"sort"
	"strconv"
	"strings"
	"time"

	"github.com/lianxiangcloud/linkchain/libs/crypto"
	"github.com/lianxiangcloud/linkchain/libs/ser"
	"github.com/lianxiangcloud/linkchain/types"

	"lvharness/hx"
)

const fsPartSize = 32 * 1024 // types.DefaultConsensusParams().BlockGossip.BlockPartSizeBytes (what poolRoutine cuts `first` into)

type fsSpec struct {
	powers    []int64
	heights   int
	seed      int64
	valchange string
	cv        map[int]string // commit for height h (carried by block h+1)
	bv        map[int]string // block h itself
	announce  uint64
	relay     string // "-" | "twice" | "oversize:<h>" | "noblock:<h>"
}

func fsParseKV(s string) map[int]string {
	m := map[int]string{}
	if s == "" || s == "-" {
		return m
	}
	for _, part := range strings.Split(s, ",") {
		kv := strings.SplitN(part, ":", 2)
		h, _ := strconv.Atoi(kv[0])
		m[h] = kv[1]
	}
	return m
}

func fsShowKV(m map[int]string) string {
	if len(m) == 0 {
		return "-"
	}
	var ks []int
	for k := range m {
		ks = append(ks, k)
	}
	sort.Ints(ks)
	var out []string
	for _, k := range ks {
		out = append(out, fmt.Sprintf("%d:%s", k, m[k]))
	}
	return strings.Join(out, ",")
}

func (sp *fsSpec) line() string {
	return fmt.Sprintf("fsrun powers=%s heights=%d seed=%d valchange=%s cv=%s bv=%s announce=%d relay=%s", hx.JoinInts(sp.powers), sp.heights, sp.seed,
		sp.valchange, fsShowKV(sp.cv), fsShowKV(sp.bv), sp.announce, sp.relay)
}

func fsParseSpec(toks []string) *fsSpec {
	get := func(k string) string { v, _ := hx.Arg(toks, k); return v }
	sp := &fsSpec{valchange: get("valchange"), cv: fsParseKV(get("cv")), bv: fsParseKV(get("bv")), relay: get("relay")}
	for _, x := range hx.SplitComma(get("powers")) {
		p, _ := strconv.ParseInt(x, 10, 64)
		sp.powers = append(sp.powers, p)
	}
	sp.heights, _ = strconv.Atoi(get("heights"))
	sp.seed, _ = strconv.ParseInt(get("seed"), 10, 64)
	sp.announce, _ = strconv.ParseUint(get("announce"), 10, 64)
	return sp
}

func fsCopyBlock(b *types.Block) *types.Block {
	bz, err := ser.EncodeToBytes(b)
	if err != nil {
		panic(err)
	}
	nb := new(types.Block)
	if err := ser.DecodeBytes(bz, nb); err != nil {
		panic(err)
	}
	return nb
}

func fsIDOf(b *types.Block) types.BlockID {
	return types.BlockID{Hash: b.Hash(), PartsHeader: b.MakePartSet(fsPartSize).Header()}
}

func fsKeyIndex(c *fsChain, addr []byte) int {
	for i, v := range c.net.Vals {
		if bytes.Equal(v.Address, addr) {
			return i
		}
	}
	return -1
}

// fsVote: a vote as served + how the harness knows it was signed
type fsVote struct {
	v       *types.Vote
	key     int    // signing key (genesis index), -1: garbage signature
	sChain  string // chain id it was signed under ("" = the chain's)
}

func (c *fsChain) sign(key int, chain string, v *types.Vote) {
	sig, err := c.net.PVs[key].Key.Sign(v.SignBytes(chain))
	if err != nil {
		panic(err)
	}
	v.Signature = sig
}

// fsCommitVariant builds the commit for height h that block h+1 will carry.
func fsCommitVariant(c *fsChain, h int, name string) (*types.Commit, []*fsVote, bool) {
	genuine := c.app.Blocks[h].LastCommit // block h+1 is Blocks[h]
	vals := c.valsAt[h]
	var total int64
	for _, v := range vals {
		total += v.VotingPower
	}
	cp := func(v *types.Vote) *types.Vote { w := *v; return &w }
	out := make([]*fsVote, len(genuine.Precommits))
	for i, v := range genuine.Precommits {
		if v != nil {
			out[i] = &fsVote{v: cp(v), key: fsKeyIndex(c, v.ValidatorAddress)}
		}
	}
	resign := func(f func(v *types.Vote), chain string) {
		for _, fv := range out {
			if fv != nil {
				f(fv.v)
				sc := chain
				if sc == "" {
					sc = c.chainID
				}
				c.sign(fv.key, sc, fv.v)
				fv.sChain = chain
			}
		}
	}
	keep := func(pred func(sum, p int64) bool) { // keep votes greedily (highest slot first) while pred allows, nil the rest
		var sum int64
		for i := len(out) - 1; i >= 0; i-- {
			fv := out[i]
			if fv == nil {
				continue
			}
			p := vals[i].VotingPower
			if pred(sum, p) {
				sum += p
			} else {
				out[i] = nil
			}
		}
	}
	bid := genuine.BlockID
	switch name {
	case "genuine":
	case "exact23": // as much as fits into two thirds (exactly 2/3 when the powers allow)
		keep(func(sum, p int64) bool { return (sum+p)*3 <= total*2 })
	case "oneover": // stop right after crossing two thirds
		keep(func(sum, p int64) bool { return sum*3 <= total*2 })
	case "allnil":
		for i := range out {
			out[i] = nil
		}
	case "empty":
		out = nil
	case "nil":
		return nil, nil, false
	case "otherblock":
		ob := bid
		ob.Hash[0] ^= 0xff
		resign(func(v *types.Vote) { v.BlockID = ob }, "")
	case "otherparts":
		ob := bid
		ob.PartsHeader.Total++
		resign(func(v *types.Vote) { v.BlockID = ob }, "")
	case "otherchain":
		resign(func(v *types.Vote) {}, "other-chain")
	case "otherheight":
		resign(func(v *types.Vote) { v.Height++ }, "")
	case "otherround":
		resign(func(v *types.Vote) { v.Round++ }, "")
	case "mixedrounds": // every second vote is a (correctly signed) precommit of the next round
		k := 0
		for _, fv := range out {
			if fv != nil {
				if k%2 == 1 {
					fv.v.Round++
					c.sign(fv.key, c.chainID, fv.v)
				}
				k++
			}
		}
	case "prevotes":
		resign(func(v *types.Vote) { v.Type = types.VoteTypePrevote }, "")
	case "badsig": // one garbage signature among enough good ones
		for _, fv := range out {
			if fv != nil {
				fv.v.Signature = crypto.SignatureEd25519FromBytes(bytes.Repeat([]byte{7}, 64))
				fv.key = -1
				break
			}
		}
	case "wrongslot":
		if len(out) >= 2 {
			out[0], out[1] = out[1], out[0]
		}
	case "wrongset": // signed by the validators of the PREVIOUS set (all of them, correctly, for this block)
		prev := c.valsAt[h-1]
		out = nil
		r := genuine.Round()
		for i, val := range prev {
			k := fsKeyIndex(c, val.Address)
			v := &types.Vote{ValidatorAddress: val.Address, ValidatorIndex: i, ValidatorSize: len(prev), Height: uint64(h), Round: r,
				Timestamp: time.Unix(1600000000, 0), Type: types.VoteTypePrecommit, BlockID: bid}
			c.sign(k, c.chainID, v)
			out = append(out, &fsVote{v: v, key: k})
		}
	default:
		panic("harness: unknown commit variant " + name)
	}
	cm := &types.Commit{BlockID: bid}
	for _, fv := range out {
		if fv == nil {
			cm.Precommits = append(cm.Precommits, nil)
		} else {
			cm.Precommits = append(cm.Precommits, fv.v)
		}
	}
	return cm, out, true
}

type fsServed struct {
	blocks  map[uint64]*types.Block
	commits map[int][]*fsVote // h -> commit for h as carried by served block h+1
	hasCm   map[int]bool
	cmBid   map[int]types.BlockID
}

func fsBuild(c *fsChain, sp *fsSpec) *fsServed {
	sv := &fsServed{blocks: map[uint64]*types.Block{}, commits: map[int][]*fsVote{}, hasCm: map[int]bool{}, cmBid: map[int]types.BlockID{}}
	for k := 1; k <= c.heights; k++ {
		b := fsCopyBlock(c.app.Blocks[k-1])
		if k >= 2 {
			name := sp.cv[k-1]
			if name == "" {
				name = "genuine"
			}
			cm, votes, has := fsCommitVariant(c, k-1, name)
			sv.commits[k-1], sv.hasCm[k-1] = votes, has
			if has {
				sv.cmBid[k-1] = cm.BlockID
			}
			if name != "genuine" {
				b.LastCommit = cm
			}
		}
		switch sp.bv[k] {
		case "", "genuine":
		case "time":
			b.Header.Time++
		case "gaslimit":
			b.Header.GasLimit++
		case "coinbase":
			b.Header.Coinbase[0] ^= 1
		default:
			panic("harness: unknown block variant " + sp.bv[k])
		}
		sv.blocks[uint64(k)] = b
	}
	if strings.HasPrefix(sp.relay, "noblock:") {
		h, _ := strconv.Atoi(sp.relay[len("noblock:"):])
		delete(sv.blocks, uint64(h))
	}
	return sv
}

// fsDescribe renders the symbolic description of what will be served.
func fsDescribe(c *fsChain, sp *fsSpec, sv *fsServed) []string {
	tokens := map[string]string{}
	tok := func(id types.BlockID) string {
		if id.IsZero() && len(id.PartsHeader.Hash) == 0 {
			return nilBid.tok()
		}
		k := id.Key()
		if t, ok := tokens[k]; ok {
			return t
		}
		t := bidT{hashOf(fmt.Sprintf("fs-block-%d", len(tokens))), 1, nil}.tok()
		tokens[k] = t
		return t
	}
	var lines []string
	id := 1
	for h := 1; h <= c.heights; h++ {
		vals := c.valsAt[h]
		var pv []pval
		for _, v := range vals {
			pv = append(pv, pval{addr: v.Address, kaddr: v.Address, key: fsKeyIndex(c, v.Address), power: v.VotingPower})
		}
		lines = append(lines, strings.Replace(valsetLine(c.chainID, pv), "valset ", "fsvals ", 1))
		b, served := sv.blocks[uint64(h)]
		bidTok := nilBid.tok()
		if served {
			bidTok = tok(fsIDOf(b))
		}
		if h < c.heights {
			if !sv.hasCm[h] {
				lines = append(lines, "fscommit bid=none")
			} else {
				lines = append(lines, "fscommit bid="+tok(sv.cmBid[h]))
				for _, fv := range sv.commits[h] {
					if fv == nil {
						lines = append(lines, "fsslot nil")
						continue
					}
					v := fv.v
					sig := fmt.Sprintf("k%d", fv.key)
					if fv.key < 0 {
						sig = "bad:7"
					}
					l := fmt.Sprintf("fsslot id=%d addr=%s idx=%d size=%d h=%d r=%d ts=0,0 type=%d bid=%s sig=%s", id, hx.Hex(v.ValidatorAddress), v.ValidatorIndex,
						v.ValidatorSize, v.Height, v.Round, v.Type, tok(v.BlockID), sig)
					if fv.sChain != "" {
						l += " s.chain=" + hx.Hex([]byte(fv.sChain))
					}
					lines = append(lines, l)
					id++
				}
			}
		}
		lines = append(lines, fmt.Sprintf("fsheight h=%d bid=%s served=%v last=%v", h, bidTok, served, h == c.heights))
	}
	return lines
}

// fsCaseLines: the whole case for a spec (generator side)
func fsCaseLines(sp *fsSpec) []string {
	c := fsGetChain(sp.powers, sp.heights, sp.seed, sp.valchange)
	lines := append([]string{"case"}, fsDescribe(c, sp, fsBuild(c, sp))...)
	return append(lines, sp.line())
}

func fsAnswer(r *fsResult) string {
	d := "-"
	if len(r.dropped) > 0 {
		d = strings.Join(r.dropped, ",")
	}
	return fmt.Sprintf("applied=%d altered=%s dropped=%s switched=%v", r.applied, hx.JoinInts(func() []int64 {
		var o []int64
		for _, h := range r.altered {
			o = append(o, int64(h))
		}
		return o
	}()), d, r.switched)
}

// fsExecInProc runs the real reactor in THIS process.
func fsExecInProc(sp *fsSpec) string {
	c := fsGetChain(sp.powers, sp.heights, sp.seed, sp.valchange)
	sv := fsBuild(c, sp)
	ps := &fsPeerSpec{id: "p0", announce: sp.announce, blocks: sv.blocks, oversize: map[uint64]bool{}}
	if sp.relay == "twice" {
		ps.twice = true
	}
	if strings.HasPrefix(sp.relay, "oversize:") {
		h, _ := strconv.Atoi(sp.relay[len("oversize:"):])
		ps.oversize[uint64(h)] = true
	}
	r := fsRun(c, []*fsPeerSpec{ps}, 2500*time.Millisecond, 10*time.Second)
	if sp.announce > uint64(sp.heights) {
		// A peer that announces more than it serves: the 60 requesters compete for the peer's 30 request slots, and a slot is
		// freed only by a BLOCK (a NoBlockResponse frees nothing), so which of the low heights get requested at all is up to the
		// scheduler.  How far the node gets is not a function of the case: it is not compared (safety fields still are).
		return strings.Replace(fsAnswer(r), fmt.Sprintf("applied=%d ", r.applied), "applied=* ", 1)
	}
	if d := os.Getenv("C03_FSYNC_DUMP"); d != "" && len(r.dropped) == 0 && !r.switched && sp.announce <= uint64(sp.heights) && !strings.HasPrefix(sp.relay, "noblock") {
		os.WriteFile(fmt.Sprintf("%s/stall-%d.txt", d, os.Getpid()), []byte(sp.line()+"\n"+fsAnswer(r)+"\n"+r.stacks), 0o644)
	}
	return fsAnswer(r)
}

// fsOp: executor side.  Description lines are recorded; fsrun checks them and runs the real thing in a child process.
func (e *exec) fsOp(toks []string, op string) (string, bool) {
	switch toks[0] {
	case "fsvals", "fscommit", "fsslot", "fsheight":
		e.fsLines = append(e.fsLines, op)
		return "ok", true
	case "fsrun":
		sp := fsParseSpec(toks)
		if os.Getenv("C03_FSYNC_INPROC") == "1" {
			return fsExecInProc(sp), true
		}
		if len(e.fsLines) == 0 {
			return "no-description", true // (a lone fsrun, e.g. left over by the shrinker: nothing to compare the run with)
		}
		c := fsGetChain(sp.powers, sp.heights, sp.seed, sp.valchange)
		want := fsDescribe(c, sp, fsBuild(c, sp))
		if strings.Join(want, "\n") != strings.Join(e.fsLines, "\n") {
			return "description-mismatch", true
		}
		e.fsLines = nil
		return fsChild(op), true
	}
	return "", false
}

var (
	fsCacheMu sync.Mutex
	fsCache   = map[string]chan string{}
)

// fsPrefetch starts the child processes of the given fsrun lines in parallel (at most 6 at a time); fsChild picks the
// answers up.  Used by the generator only: a replay runs its single case directly.
func fsPrefetch(lines []string) {
	sem := make(chan struct{}, 4)
	for _, l := range lines {
		l := l
		ch := make(chan string, 1)
		fsCacheMu.Lock()
		fsCache[l] = ch
		fsCacheMu.Unlock()
		go func() {
			sem <- struct{}{}
			ch <- fsChildRun(l)
			<-sem
		}()
	}
}

func fsChild(op string) string {
	fsCacheMu.Lock()
	ch, ok := fsCache[op]
	delete(fsCache, op)
	fsCacheMu.Unlock()
	if ok {
		return <-ch
	}
	return fsChildRun(op)
}

// fsRetries counts child runs that were repeated because the node sat idle with its peer still connected although the case
// gives it no reason to.  CAUSE (established from goroutine dumps): BlockPool.RedoRequest returns `request.peerID` AFTER
// removePeer has signalled the requester to reset, and the requester goroutine may already have cleared it: poolRoutine then
// looks up peer "" and never calls StopPeerForError - the refused peer leaves the pool but stays connected (proposed finding
// fastsync-refused-peer-not-stopped, /verif/proposed/C03-fastsync-refused-peer-not-stopped.md; about 1 refusal in 30).
// The repetition cannot turn a refusal into a pass: a repeated run is used only if it applied EXACTLY the same heights.
var fsRetries int32

func fsChildRun(op string) string {
	sp := fsParseSpec(hx.Tokens(op))
	expectStall := strings.HasPrefix(sp.relay, "noblock:") || sp.announce > uint64(sp.heights) || sp.announce < 2
	ans := fsChildOnce(op)
	applied := func(a string) string { v, _ := hx.Arg(hx.Tokens(a), "applied"); return v }
	for k := 0; k < 2 && !expectStall && strings.HasSuffix(ans, "dropped=- switched=false"); k++ {
		atomic.AddInt32(&fsRetries, 1)
		again := fsChildOnce(op)
		if applied(again) != applied(ans) || strings.HasPrefix(again, "panic") {
			break // not the same outcome: the first answer stands
		}
		ans = again
	}
	return ans
}

func fsChildOnce(op string) string {
	{
		dir, err := os.MkdirTemp(".", "fsync-")
		if err != nil {
			panic(err)
		}
		defer os.RemoveAll(dir)
		f := dir + "/ops.txt"
		os.WriteFile(f, []byte("case\n"+op+"\n"), 0o644)
		cmd := osexec.Command(os.Args[0], "C03", "replay", f)
		cmd.Env = append(os.Environ(), "C03_FSYNC_INPROC=1")
		var so, se bytes.Buffer
		cmd.Stdout, cmd.Stderr = &so, &se
		done := make(chan error, 1)
		if err := cmd.Start(); err != nil {
			panic(err)
		}
		go func() { done <- cmd.Wait() }()
		select {
		case <-done:
		case <-time.After(40 * time.Second):
			cmd.Process.Kill()
			return "panic timeout"
		}
		var out struct {
			Impl []string `json:"impl"`
		}
		if json.Unmarshal(so.Bytes(), &out) == nil && len(out.Impl) == 2 {
			return out.Impl[1]
		}
		// the child died: the fast-sync goroutine panicked (no recover in poolRoutine) - the node would be down
		return "panic " + hx.PanicSite(se.Bytes())
	}
}

