// Package c03: correspondence + monitors for "only >2/3 correctly signed power for that exact block makes a
// commit" against the real types.VoteSet, types.ValidatorSet.VerifyCommit, types.Commit and Vote.SignBytes.
package c03

import (
	"bytes"
	"crypto/sha512"
	"fmt"
	"strconv"
	"strings"
	"sync"
	"time"

	"github.com/pkg/errors"

	"github.com/lianxiangcloud/linkchain/libs/common"
	"github.com/lianxiangcloud/linkchain/libs/crypto"
	"github.com/lianxiangcloud/linkchain/libs/log"
	"github.com/lianxiangcloud/linkchain/types"

	"lvharness/hx"
)

type P struct{}

func (P) Rule() string {
	return "cases: (A) vote-set histories over 1..8 (thorough 12) validators with power kinds equal/small/whale/geometric/withzero/near-2^62 " +
		"(malformed: negative, overflowing), votes valid-for-B / for another block / nil block / duplicate / same slot other timestamp / " +
		"wrong index, address, size, height, round, type / bad, nil, foreign-key and transplanted signatures (other height, round, type, block, time, chain) / " +
		"peer-claimed majorities, in random (thorough: also exhaustive small) arrival orders, followed by MakeCommit + VerifyCommit; " +
		"(B) hand-built commits with per-slot defects and tallies aimed at floor(2T/3) and floor(2T/3)+1; (C) sign-bytes renderings; (D) malformed sets/commits. " +
		"non-trivial = the history crosses the quorum, or contains an equivocation, or the commit tally is within one validator of the threshold; distinct = distinct op sequence"
}

// ---- keys ----------------------------------------------------------------------------------

var (
	keyMu    sync.Mutex
	keyCache = map[int]crypto.PrivKeyEd25519{}
	logOnce  sync.Once
)

func keyOf(j int) crypto.PrivKeyEd25519 {
	keyMu.Lock()
	defer keyMu.Unlock()
	if k, ok := keyCache[j]; ok {
		return k
	}
	k := crypto.GenPrivKeyEd25519FromSecret([]byte(fmt.Sprintf("verif-c03-key-%d", j)))
	keyCache[j] = k
	return k
}

func keyAddr(j int) []byte { return keyOf(j).PubKey().Address() }

// ---- parsed ops (shared by the executor and the monitors) -----------------------------------

type bidT struct {
	hash  []byte // 32 bytes
	total int
	phash []byte
}

func (b bidT) tok() string { return fmt.Sprintf("%s/%d/%s", hx.Hex(b.hash), b.total, hx.Hex(b.phash)) }
func (b bidT) eq(o bidT) bool {
	return bytes.Equal(b.hash, o.hash) && b.total == o.total && bytes.Equal(b.phash, o.phash)
}
// real: an empty parts hash is passed as nil.  (A non-nil empty slice is Equals/Key-identical but is rendered
// differently by the canonical JSON -- `"parts":{}` instead of omitted -- so a signature over one does not verify
// for the other; the model has no nil/empty distinction, the harness never produces the non-nil empty form.)
func (b bidT) real() types.BlockID {
	var ph []byte
	if len(b.phash) > 0 {
		ph = append([]byte{}, b.phash...)
	}
	return types.BlockID{Hash: common.BytesToHash(b.hash), PartsHeader: types.PartSetHeader{Total: b.total, Hash: ph}}
}

func parseBid(s string) bidT {
	p := strings.Split(s, "/")
	if len(p) != 3 {
		panic("harness: bad bid " + s)
	}
	t, _ := strconv.Atoi(p[1])
	h := hx.UnHex(p[0])
	if len(h) != 32 {
		panic("harness: block hash must have 32 bytes")
	}
	return bidT{h, t, hx.UnHex(p[2])}
}

func bidOfReal(b types.BlockID) bidT {
	return bidT{append([]byte{}, b.Hash.Bytes()...), b.PartsHeader.Total, append([]byte{}, b.PartsHeader.Hash...)}
}

type tsT struct{ sec, nsec int64 }

func parseTs(s string) tsT {
	p := strings.Split(s, ",")
	a, _ := strconv.ParseInt(p[0], 10, 64)
	b, _ := strconv.ParseInt(p[1], 10, 64)
	return tsT{a, b}
}
func (t tsT) ms() int64 { return t.sec*1000 + t.nsec/1000000 }

// msgT is what a signature covers (CanonicalVote): the harness's own notion, independent of the code under test.
type msgT struct {
	chain   string
	h       uint64
	r       int
	typ     int
	bid     bidT
	ms      int64
	present bool
}

func (m msgT) eq(o msgT) bool {
	return m.chain == o.chain && m.h == o.h && m.r == o.r && m.typ == o.typ && m.bid.eq(o.bid) && m.ms == o.ms
}

type pvote struct {
	id            int
	addr          []byte
	idx, size     int
	h             uint64
	r             int
	ts            tsT
	typ           int
	bid           bidT
	sigKind       string // nil | bad | k
	sigN          int    // bad:<n> / k<j>
	signed        msgT   // for kind k: what was signed
	signedTs      tsT
	wasAdded      bool // monitor bookkeeping: the implementation answered added=true
}

func (v *pvote) msg(chain string) msgT {
	return msgT{chain: chain, h: v.h, r: v.r, typ: v.typ, bid: v.bid, ms: v.ts.ms(), present: true}
}

func parseVote(toks []string, caseChain string) *pvote {
	get := func(k string) string {
		s, ok := hx.Arg(toks, k)
		if !ok {
			panic("harness: vote field missing: " + k)
		}
		return s
	}
	v := &pvote{}
	v.id, _ = strconv.Atoi(get("id"))
	v.addr = hx.UnHex(get("addr"))
	v.idx, _ = strconv.Atoi(get("idx"))
	v.size, _ = strconv.Atoi(get("size"))
	v.h, _ = strconv.ParseUint(get("h"), 10, 64)
	v.r, _ = strconv.Atoi(get("r"))
	v.ts = parseTs(get("ts"))
	v.typ, _ = strconv.Atoi(get("type"))
	v.bid = parseBid(get("bid"))
	sg := get("sig")
	switch {
	case sg == "nil":
		v.sigKind = "nil"
	case strings.HasPrefix(sg, "bad:"):
		v.sigKind = "bad"
		v.sigN, _ = strconv.Atoi(sg[4:])
	case strings.HasPrefix(sg, "k"):
		v.sigKind = "k"
		v.sigN, _ = strconv.Atoi(sg[1:])
		m := v.msg(caseChain)
		v.signedTs = v.ts
		if s, ok := hx.Arg(toks, "s.chain"); ok {
			m.chain = string(hx.UnHex(s))
		}
		if s, ok := hx.Arg(toks, "s.h"); ok {
			m.h, _ = strconv.ParseUint(s, 10, 64)
		}
		if s, ok := hx.Arg(toks, "s.r"); ok {
			m.r, _ = strconv.Atoi(s)
		}
		if s, ok := hx.Arg(toks, "s.type"); ok {
			m.typ, _ = strconv.Atoi(s)
		}
		if s, ok := hx.Arg(toks, "s.bid"); ok {
			m.bid = parseBid(s)
		}
		if s, ok := hx.Arg(toks, "s.ts"); ok {
			v.signedTs = parseTs(s)
			m.ms = v.signedTs.ms()
		}
		v.signed = m
	default:
		panic("harness: bad sig token " + sg)
	}
	return v
}

// sigValid: the ideal signature functionality as the harness sees it: the signature was made by `key`
// over exactly this vote's canonical content under `chain`.
func (v *pvote) sigValid(chain string, key int) bool {
	return v.sigKind == "k" && v.sigN == key && v.signed.eq(v.msg(chain))
}

func (v *pvote) real() *types.Vote {
	rv := &types.Vote{ValidatorAddress: crypto.Address(append([]byte{}, v.addr...)), ValidatorIndex: v.idx, ValidatorSize: v.size,
		Height: v.h, Round: v.r, Timestamp: time.Unix(v.ts.sec, v.ts.nsec), Type: byte(v.typ), BlockID: v.bid.real()}
	switch v.sigKind {
	case "bad":
		h := sha512.Sum512([]byte(fmt.Sprintf("bad-signature-%d", v.sigN)))
		rv.Signature = crypto.SignatureEd25519FromBytes(h[:])
	case "k":
		sv := &types.Vote{Height: v.signed.h, Round: v.signed.r, Timestamp: time.Unix(v.signedTs.sec, v.signedTs.nsec), Type: byte(v.signed.typ), BlockID: v.signed.bid.real()}
		sig, err := keyOf(v.sigN).Sign(sv.SignBytes(v.signed.chain))
		if err != nil {
			panic("harness: sign: " + err.Error())
		}
		rv.Signature = sig
	}
	return rv
}

type pval struct {
	addr, kaddr []byte
	key         int
	power       int64
}

func parseVals(toks []string) []pval {
	as, _ := hx.Arg(toks, "addrs")
	kas, _ := hx.Arg(toks, "kaddrs")
	ks, _ := hx.Arg(toks, "keys")
	ps, _ := hx.Arg(toks, "powers")
	addrs, kaddrs, keys, powers := hx.SplitComma(as), hx.SplitComma(kas), hx.SplitComma(ks), hx.SplitComma(ps)
	var out []pval
	for i := range addrs {
		k, _ := strconv.Atoi(keys[i])
		p, _ := strconv.ParseInt(powers[i], 10, 64)
		out = append(out, pval{hx.UnHex(addrs[i]), hx.UnHex(kaddrs[i]), k, p})
	}
	return out
}

// ---- executor ------------------------------------------------------------------------------

type exec struct {
	chain  string
	valset *types.ValidatorSet
	vs     *types.VoteSet
	ids    map[*types.Vote]int
	bids   []bidT
	cbid   bidT
	cslots []*types.Vote
	hasC   bool
	evA    *pvote
	evB    *pvote
	// multi-sign transaction under construction (wide.go)
	mstMain types.MultiSignMainInfo
	mstSigs []types.ValidatorSign
	hasMst  bool
	fsLines []string // description lines of the fast-sync case under construction (fsyncops.go)
}

func (P) NewExec() hx.Executor {
	logOnce.Do(func() { log.Root().SetHandler(log.DiscardHandler()) })
	return &exec{ids: map[*types.Vote]int{}}
}

func bits(ba *common.BitArray, n int) string {
	if n == 0 {
		return "-"
	}
	var sb strings.Builder
	for i := 0; i < n; i++ {
		if ba.GetIndex(i) {
			sb.WriteByte('x')
		} else {
			sb.WriteByte('_')
		}
	}
	return sb.String()
}

func (e *exec) slots(vs []*types.Vote) string {
	if len(vs) == 0 {
		return "-"
	}
	out := make([]string, len(vs))
	for i, v := range vs {
		if v == nil {
			out[i] = "_"
		} else if id, ok := e.ids[v]; ok {
			out[i] = strconv.Itoa(id)
		} else {
			out[i] = "?"
		}
	}
	return strings.Join(out, ",")
}

func (e *exec) track(b bidT) {
	for _, x := range e.bids {
		if x.eq(b) {
			return
		}
	}
	e.bids = append(e.bids, b)
}

func (e *exec) state() string {
	vs := e.vs
	n := vs.Size()
	// VoteSet.sum is only observable through the "<bits> <sum>/<total> = <frac>" string
	sum := "?"
	bs := vs.BitArrayString()
	if i := strings.LastIndex(bs, " = "); i >= 0 {
		f := strings.Fields(bs[:i])
		if len(f) > 0 {
			if j := strings.Index(f[len(f)-1], "/"); j >= 0 {
				sum = f[len(f)-1][:j]
			}
		}
	}
	maj := "none"
	if b, ok := vs.TwoThirdsMajority(); ok {
		maj = bidOfReal(b).tok()
	}
	votes := make([]*types.Vote, n)
	for i := 0; i < n; i++ {
		votes[i] = vs.GetByIndex(i)
	}
	bb := "-"
	if len(e.bids) > 0 {
		var parts []string
		for _, b := range e.bids {
			ba := vs.BitArrayByBlockID(b.real())
			if ba == nil {
				parts = append(parts, "nil")
			} else {
				parts = append(parts, bits(ba, n))
			}
		}
		bb = strings.Join(parts, ";")
	}
	return fmt.Sprintf("sum=%s maj23=%s has23=%v any=%v all=%v iscommit=%v bits=%s votes=%s bb=%s", sum, maj, vs.HasTwoThirdsMajority(),
		vs.HasTwoThirdsAny(), vs.HasAll(), vs.IsCommit(), bits(vs.BitArray(), n), e.slots(votes), bb)
}

func (e *exec) errClass(err error) string {
	if err == nil {
		return "none"
	}
	if ce, ok := err.(*types.ErrVoteConflictingVotes); ok {
		a, b := "?", "?"
		if id, ok := e.ids[ce.VoteA]; ok {
			a = strconv.Itoa(id)
		}
		if id, ok := e.ids[ce.VoteB]; ok {
			b = strconv.Itoa(id)
		}
		return "conflict:" + a + ":" + b
	}
	switch errors.Cause(err) {
	case types.ErrVoteInvalidValidatorIndex:
		return "index"
	case types.ErrVoteInvalidValidatorAddress:
		return "address"
	case types.ErrVoteInvalidValidatorSize:
		return "size"
	case types.ErrVoteUnexpectedStep:
		return "step"
	case types.ErrVoteNonDeterministicSignature:
		return "nondet"
	case types.ErrVoteInvalidSignature:
		return "sig"
	}
	return "other"
}

func containsAny(s string, subs ...string) bool {
	for _, x := range subs {
		if strings.Contains(s, x) {
			return true
		}
	}
	return false
}

func (e *exec) commit() *types.Commit {
	return &types.Commit{BlockID: e.cbid.real(), Precommits: append([]*types.Vote{}, e.cslots...)}
}

func (e *exec) Exec(op string) string {
	toks := hx.Tokens(op)
	if ans, ok := e.fsOp(toks, op); ok {
		return ans
	}
	switch toks[0] {
	case "evvote", "dupev":
		return e.dupevOp(toks)
	case "case":
		*e = exec{ids: map[*types.Vote]int{}}
		return "ok"
	case "valset":
		c, _ := hx.Arg(toks, "chain")
		e.chain = string(hx.UnHex(c))
		e.vs = nil
		var vals []*types.Validator
		for _, pv := range parseVals(toks) {
			pk := keyOf(pv.key).PubKey()
			if !bytes.Equal(pk.Address(), pv.kaddr) {
				panic("harness: kaddr does not belong to the key")
			}
			var cb common.Address
			copy(cb[:], pv.kaddr)
			vals = append(vals, &types.Validator{Address: crypto.Address(pv.addr), PubKey: pk, CoinBase: cb, VotingPower: pv.power})
		}
		e.valset = types.NewValidatorSet(vals)
		for i, pv := range parseVals(toks) {
			if !bytes.Equal(e.valset.Validators[i].Address, pv.addr) {
				panic("harness: validators must be listed in address order")
			}
		}
		return fmt.Sprintf("n=%d total=%d", e.valset.Size(), e.valset.TotalVotingPower())
	case "voteset":
		if e.valset == nil {
			return "dead"
		}
		c, _ := hx.Arg(toks, "chain")
		hs, _ := hx.Arg(toks, "h")
		rs, _ := hx.Arg(toks, "r")
		ts, _ := hx.Arg(toks, "type")
		h, _ := strconv.ParseUint(hs, 10, 64)
		r, _ := strconv.Atoi(rs)
		t, _ := strconv.Atoi(ts)
		e.vs = nil
		e.bids = nil
		e.vs = types.NewVoteSet(string(hx.UnHex(c)), h, r, byte(t), e.valset)
		return e.state()
	case "vote":
		if e.vs == nil {
			return "dead"
		}
		pv := parseVote(toks, e.chain)
		rv := pv.real()
		e.ids[rv] = pv.id
		e.track(pv.bid)
		vs := e.vs
		e.vs = nil // stays dead if AddVote panics
		added, err := vs.AddVote(rv)
		e.vs = vs
		return fmt.Sprintf("added=%v err=%s %s", added, e.errClass(err), e.state())
	case "peermaj23":
		if e.vs == nil {
			return "dead"
		}
		p, _ := hx.Arg(toks, "peer")
		b, _ := hx.Arg(toks, "bid")
		bid := parseBid(b)
		e.track(bid)
		err := e.vs.SetPeerMaj23(string(hx.UnHex(p)), bid.real())
		return fmt.Sprintf("err=%v %s", err != nil, e.state())
	case "makecommit":
		if e.vs == nil {
			return "dead"
		}
		c := e.vs.MakeCommit()
		e.cbid, e.cslots, e.hasC = bidOfReal(c.BlockID), c.Precommits, true
		return fmt.Sprintf("bid=%s slots=%s", e.cbid.tok(), e.slots(c.Precommits))
	case "cnew":
		b, _ := hx.Arg(toks, "bid")
		e.cbid, e.cslots, e.hasC = parseBid(b), nil, true
		return "ok"
	case "cslot":
		if !e.hasC {
			return "dead"
		}
		if len(toks) == 2 && toks[1] == "nil" {
			e.cslots = append(e.cslots, nil)
			return "ok"
		}
		pv := parseVote(toks, e.chain)
		rv := pv.real()
		e.ids[rv] = pv.id
		e.cslots = append(e.cslots, rv)
		return "ok"
	case "cinfo":
		if !e.hasC {
			return "dead"
		}
		c := e.commit()
		basic := "ok"
		if err := e.commit().ValidateBasic(); err != nil {
			m := err.Error()
			switch {
			case containsAny(m, "nil block"):
				basic = "zero"
			case containsAny(m, "No precommits"):
				basic = "empty"
			case containsAny(m, "Expected precommit"):
				basic = "type"
			case containsAny(m, "height"):
				basic = "height"
			case containsAny(m, "round"):
				basic = "round"
			default:
				basic = "other"
			}
		}
		return fmt.Sprintf("height=%d round=%d size=%d iscommit=%v bits=%s basic=%s", c.Height(), c.Round(), c.Size(), c.IsCommit(),
			bits(e.commit().BitArray(), len(e.cslots)), basic)
	case "verify", "verifyany":
		if !e.hasC || e.valset == nil {
			return "dead"
		}
		c, _ := hx.Arg(toks, "chain")
		b, _ := hx.Arg(toks, "bid")
		hs, _ := hx.Arg(toks, "h")
		h, _ := strconv.ParseUint(hs, 10, 64)
		var err error
		if toks[0] == "verifyany" {
			err = e.valset.VerifyCommitAny(string(hx.UnHex(c)), parseBid(b).real(), h, e.commit())
		} else {
			err = e.valset.VerifyCommit(string(hx.UnHex(c)), parseBid(b).real(), h, e.commit())
		}
		if err == nil {
			return "ok"
		}
		m := err.Error()
		switch {
		case containsAny(m, "wrong set size"):
			return "err=size"
		case containsAny(m, "wrong height"):
			return "err=height"
		case containsAny(m, "wrong round"):
			return "err=round"
		case containsAny(m, "not precommit"):
			return "err=type"
		case containsAny(m, "invalid signature"):
			return "err=sig"
		case containsAny(m, "insufficient voting power"):
			return "err=power"
		}
		return "err=other"
	case "signbytes":
		c, _ := hx.Arg(toks, "chain")
		pv := parseVote(toks, e.chain)
		return hx.Hex(pv.real().SignBytes(string(hx.UnHex(c))))
	}
	return e.wideOp(toks)
}
