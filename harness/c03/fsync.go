package c03

// Fast sync, driven for real: a syncing node = the REAL blockchain.BlockchainReactor (fastSync = true, its poolRoutine and
// BlockPool goroutines running) over a fresh genesis status, a real BlockExecutor and csim's MemApp as the application/store;
// a fake switch; fake peers.  Every peer is served by a second REAL BlockchainReactor (not started) over a "peer store" that
// returns whatever block variant the case prescribes for a height and announces whatever height it likes: the requests the
// syncing node encodes reach that reactor's Receive, and the bcBlockResponse / bcNoBlockResponse / bcStatusResponse bytes it
// encodes travel back through the relay, which may also drop, repeat, pad or replay them.  The chain the peers serve comes
// from a csim simulation (real blocks, real commits, validator-set changes).

import (
	"bytes"
	"fmt"
	"net"
	"runtime"
	"sort"
	"strings"
	"sync"
	"time"

	"github.com/lianxiangcloud/linkchain/blockchain"
	cs "github.com/lianxiangcloud/linkchain/consensus"
	cmn "github.com/lianxiangcloud/linkchain/libs/common"
	dbm "github.com/lianxiangcloud/linkchain/libs/db"
	"github.com/lianxiangcloud/linkchain/libs/log"
	"github.com/lianxiangcloud/linkchain/libs/p2p"
	"github.com/lianxiangcloud/linkchain/types"

	"lvharness/csim"
)

// ---- the chain ------------------------------------------------------------------------------

type fsChain struct {
	key     string
	net     *csim.Net
	app     *csim.MemApp // an honest node's store after the simulation
	heights int
	chainID string
	// valsAt[h] (1-based): the validator set in force at height h (the set that signs the commit for h)
	valsAt [][]*types.Validator
	valCh  map[uint64][]int64
}

var (
	fsMu     sync.Mutex
	fsChains = map[string]*fsChain{}
)

func fsParseValChange(s string) map[uint64][]int64 {
	m := map[uint64][]int64{}
	if s == "" || s == "-" {
		return m
	}
	for _, part := range strings.Split(s, ";") {
		kv := strings.SplitN(part, ":", 2)
		var h uint64
		fmt.Sscanf(kv[0], "%d", &h)
		var ps []int64
		for _, x := range strings.Split(kv[1], ",") {
			var p int64
			fmt.Sscanf(x, "%d", &p)
			ps = append(ps, p)
		}
		m[h] = ps
	}
	return m
}

// fsGetChain runs (once per process and parameter set) a synchronous csim simulation to `heights` committed blocks.
func fsGetChain(powers []int64, heights int, seed int64, valchange string) *fsChain {
	key := fmt.Sprintf("%v/%d/%d/%s", powers, heights, seed, valchange)
	fsMu.Lock()
	defer fsMu.Unlock()
	if c, ok := fsChains[key]; ok {
		return c
	}
	n := len(powers)
	vc := fsParseValChange(valchange)
	res := csim.Run(csim.SimParams{N: n, Powers: powers, Byz: make([]bool, n), Seed: seed, Steps: 200000, Heights: heights, Prof: "sync", ValChange: vc})
	var app *csim.MemApp
	for _, node := range res.Net.Nodes {
		if node.App != nil && (app == nil || node.App.Height() > app.Height()) {
			app = node.App
		}
	}
	if app == nil || int(app.Height()) < heights {
		panic(fmt.Sprintf("harness: csim reached height %d of %d", app.Height(), heights))
	}
	c := &fsChain{key: key, net: res.Net, app: app, heights: heights, chainID: res.Net.Genesis.ChainID, valCh: vc}
	cur := res.Net.Vals
	c.valsAt = make([][]*types.Validator, heights+2)
	for h := 1; h <= heights+1; h++ {
		c.valsAt[h] = cur
		if pw, ok := vc[uint64(h)]; ok {
			var nv []*types.Validator
			for i, p := range pw {
				if p > 0 {
					v := res.Net.Vals[i].Copy()
					v.VotingPower = p
					nv = append(nv, v)
				}
			}
			if len(nv) > 0 {
				cur = nv
			}
		}
	}
	fsChains[key] = c
	return c
}

// ---- fakes ----------------------------------------------------------------------------------

type fsPeer struct {
	cmn.BaseService
	id   string
	kv   map[string]interface{}
	send func(ch byte, b []byte) bool
}

func newFsPeer(id string, send func(ch byte, b []byte) bool) *fsPeer {
	p := &fsPeer{id: id, kv: map[string]interface{}{}, send: send}
	p.BaseService = *cmn.NewBaseService(nil, "fsPeer", p)
	return p
}
func (p *fsPeer) ID() string                       { return p.id }
func (p *fsPeer) RemoteAddr() net.Addr             { return net0{} }
func (p *fsPeer) NodeInfo() p2p.NodeInfo           { return p2p.NodeInfo{} }
func (p *fsPeer) IsOutbound() bool                 { return true }
func (p *fsPeer) Status() p2p.ConnectionStatus     { return p2p.ConnectionStatus{} }
func (p *fsPeer) Send(ch byte, b []byte) bool      { return p.send(ch, b) }
func (p *fsPeer) TrySend(ch byte, b []byte) bool   { return p.send(ch, b) }
func (p *fsPeer) Close() error                     { return nil }
func (p *fsPeer) Set(key string, data interface{}) { p.kv[key] = data }
func (p *fsPeer) Get(key string) interface{}       { return p.kv[key] }

type net0 struct{}

func (net0) Network() string { return "tcp" }
func (net0) String() string  { return "10.0.0.1:1" }

type fsPeerSet struct {
	mu    sync.Mutex
	peers map[string]p2p.Peer
}

func (s *fsPeerSet) HasID(id string) bool { s.mu.Lock(); defer s.mu.Unlock(); _, ok := s.peers[id]; return ok }
func (s *fsPeerSet) HasIP(ip string) bool { return false }
func (s *fsPeerSet) GetByID(id string) p2p.Peer {
	s.mu.Lock()
	defer s.mu.Unlock()
	if p, ok := s.peers[id]; ok {
		return p
	}
	return nil // (a nil interface, as the real set returns)
}
func (s *fsPeerSet) GetByIP(ip string) p2p.Peer { return nil }
func (s *fsPeerSet) List() []p2p.Peer {
	s.mu.Lock()
	defer s.mu.Unlock()
	var out []p2p.Peer
	for _, p := range s.peers {
		out = append(out, p)
	}
	return out
}
func (s *fsPeerSet) Size() int { s.mu.Lock(); defer s.mu.Unlock(); return len(s.peers) }

type fsConR struct {
	p2p.BaseReactor
	mu       sync.Mutex
	switched bool
	status   cs.NewStatus
	synced   int
}

func (c *fsConR) SwitchToConsensus(st cs.NewStatus, n int) {
	c.mu.Lock()
	c.switched, c.status, c.synced = true, st, n
	c.mu.Unlock()
}
func (c *fsConR) SwitchToFastSync()                                     {}
func (c *fsConR) GetChannels() []*p2p.ChannelDescriptor                 { return nil }
func (c *fsConR) AddPeer(peer p2p.Peer)                                 {}
func (c *fsConR) RemovePeer(peer p2p.Peer, reason interface{})          {}
func (c *fsConR) Receive(chID byte, peer p2p.Peer, msgBytes []byte)     {}

type fsSwitch struct {
	cmn.BaseService
	set     *fsPeerSet
	conR    *fsConR
	bcR     *blockchain.BlockchainReactor
	mu      sync.Mutex
	dropped []string
	bcast   func(ch byte, b []byte)
}

func (s *fsSwitch) GetByID(peerID string) p2p.Peer { return s.set.GetByID(peerID) }
func (s *fsSwitch) StopPeerForError(peer p2p.Peer, reason interface{}) {
	// what Switch.stopAndRemovePeer does: remove from the set, tell every reactor
	s.set.mu.Lock()
	_, had := s.set.peers[peer.ID()]
	delete(s.set.peers, peer.ID())
	s.set.mu.Unlock()
	if had {
		s.mu.Lock()
		s.dropped = append(s.dropped, peer.ID())
		s.mu.Unlock()
		s.bcR.RemovePeer(peer, reason)
	}
}
func (s *fsSwitch) Reactor(name string) p2p.Reactor {
	if name == "CONSENSUS" {
		return s.conR
	}
	return nil
}
func (s *fsSwitch) AddReactor(name string, r p2p.Reactor) p2p.Reactor { return r }
func (s *fsSwitch) Broadcast(chID byte, b []byte) chan bool {
	s.bcast(chID, b)
	c := make(chan bool)
	close(c)
	return c
}
func (s *fsSwitch) BroadcastE(chID byte, peerID string, b []byte) chan bool { return s.Broadcast(chID, b) }
func (s *fsSwitch) Peers() p2p.IPeerSet                                     { return s.set }
func (s *fsSwitch) LocalNodeInfo() p2p.NodeInfo                             { return p2p.NodeInfo{} }
func (s *fsSwitch) NumPeers() (int, int, int)                               { return s.set.Size(), 0, 0 }
func (s *fsSwitch) MarkBadNode(nodeInfo p2p.NodeInfo)                       {}
func (s *fsSwitch) CloseAllConnection()                                     {}

// fsStore is what a serving peer's reactor reads: block variants and the announced height.
type fsStore struct {
	csim.MemApp
	announce uint64
	blocks   map[uint64]*types.Block
	cur      uint64 // height of the block request being answered (0: not a block request); one goroutine
}

func (a *fsStore) Height() uint64                  { return a.announce }
func (a *fsStore) LoadBlock(h uint64) *types.Block { a.cur = h; return a.blocks[h] }

// ---- one run --------------------------------------------------------------------------------

type fsPeerSpec struct {
	id       string
	announce uint64
	blocks   map[uint64]*types.Block // height -> what this peer serves (missing: "no block")
	// relay behaviour
	oversize   map[uint64]bool // pad the response for that height beyond maxMsgSize
	twice      bool            // every block response is delivered twice
	unsolicit  []uint64        // heights whose response bytes are replayed to the node although never requested
}

type fsResult struct {
	applied  uint64
	altered  []uint64 // applied heights whose block differs from the chain's
	seen     []*types.Commit
	dropped  []string
	switched bool
	swHeight uint64
	requests map[string]int
	stacks   string // all goroutines at the moment the run was declared stable (diagnostics)
}

func fsNewSyncNode(c *fsChain) (*csim.MemApp, cs.NewStatus, *cs.BlockExecutor) {
	db := dbm.NewMemDB()
	status, err := cs.CreateStatusFromGenesisDoc(db, c.net.Genesis)
	if err != nil {
		panic(err)
	}
	app := &csim.MemApp{TimeBase: 1600000000, NextVals: map[uint64][]*types.Validator{}}
	for _, v := range c.net.Vals {
		app.Vals = append(app.Vals, v.Copy())
	}
	for h, pw := range c.valCh {
		var nv []*types.Validator
		for i, p := range pw {
			if p > 0 {
				v := c.net.Vals[i].Copy()
				v.VotingPower = p
				nv = append(nv, v)
			}
		}
		app.NextVals[h] = nv
	}
	return app, status, cs.NewBlockExecutor(db, log.NewNopLogger(), cs.MockEvidencePool{})
}

// fsRun lets the real reactor sync from the given peers until it switches to consensus, or nothing has changed for
// `quiet`, or `deadline` passes.
func fsRun(c *fsChain, peers []*fsPeerSpec, quiet, deadline time.Duration) *fsResult {
	app, status, exec := fsNewSyncNode(c)
	set := &fsPeerSet{peers: map[string]p2p.Peer{}}
	conR := &fsConR{}
	conR.BaseReactor = *p2p.NewBaseReactor("CONSENSUS", conR)
	sw := &fsSwitch{set: set, conR: conR}
	sw.BaseService = *cmn.NewBaseService(nil, "fsSwitch", sw)
	bcR := blockchain.NewBlockchainReactor(status, exec, app, true, sw)
	bcR.SetLogger(log.NewNopLogger())
	sw.bcR = bcR
	res := &fsResult{requests: map[string]int{}}
	var mu sync.Mutex

	type tagged struct {
		h uint64 // the block height this message answers (0: status)
		b []byte
	}
	type link struct {
		toPeer chan []byte // node -> peer
		toNode chan tagged // peer -> node
	}
	links := map[string]*link{}
	nodeSide := map[string]*fsPeer{}
	done := make(chan struct{})
	for _, ps := range peers {
		ps := ps
		l := &link{toPeer: make(chan []byte, 4096), toNode: make(chan tagged, 4096)}
		links[ps.id] = l
		store := &fsStore{announce: ps.announce, blocks: ps.blocks}
		srvStatus := status
		srvStatus.LastBlockHeight = ps.announce
		srv := blockchain.NewBlockchainReactor(srvStatus, nil, store, false, sw)
		srv.SetLogger(log.NewNopLogger())
		// the syncing node as the serving reactor sees it
		back := newFsPeer("node", func(ch byte, b []byte) bool {
			select {
			case l.toNode <- tagged{store.cur, append([]byte{}, b...)}:
				return true
			default:
				return false
			}
		})
		// the peer as the syncing node sees it
		np := newFsPeer(ps.id, func(ch byte, b []byte) bool {
			mu.Lock()
			res.requests[ps.id]++
			mu.Unlock()
			select {
			case l.toPeer <- append([]byte{}, b...):
				return true
			default:
				return false
			}
		})
		nodeSide[ps.id] = np
		set.peers[ps.id] = np
		go func() { // the peer's receive loop
			for {
				select {
				case b := <-l.toPeer:
					func() {
						defer func() { recover() }()
						store.cur = 0
						srv.Receive(blockchain.BlockchainChannel, back, b)
					}()
				case <-done:
					return
				}
			}
		}()
		go func() { // the node's receive loop for this connection (the real MConnection recovers and stops the peer)
			delivered := map[uint64]bool{}
			var deferred []tagged
			lowerDone := func(h uint64) bool {
				for k := uint64(1); k < h; k++ {
					if !delivered[k] {
						return false
					}
				}
				return true
			}
			deliver := func(b []byte) {
				defer func() {
					if r := recover(); r != nil {
						sw.StopPeerForError(np, r)
					}
				}()
				if !set.HasID(ps.id) {
					return
				}
				bcR.Receive(blockchain.BlockchainChannel, np, b)
			}
			for {
				select {
				case m := <-l.toNode:
					// (an undecodable response gets the peer dropped at once; to keep the outcome a function of the case, the
					// relay holds it back until the responses for all lower heights have gone through)
					queue := append([]tagged{m}, deferred...)
					deferred = nil
					for _, m := range queue {
						b := m.b
						if m.h > 0 && ps.oversize[m.h] {
							if !lowerDone(m.h) {
								deferred = append(deferred, m)
								continue
							}
							b = append(append([]byte{}, b...), make([]byte, types.MaxBlockSizeBytes+16)...)
						}
						deliver(b)
						if m.h > 0 {
							delivered[m.h] = true
							if ps.twice {
								deliver(b)
							}
						}
					}
				case <-done:
					return
				}
			}
		}()
	}
	sw.bcast = func(ch byte, b []byte) {
		for id, l := range links {
			if set.HasID(id) {
				select {
				case l.toPeer <- append([]byte{}, b...):
				default:
				}
			}
		}
	}
	if err := bcR.Start(); err != nil {
		panic(err)
	}
	for _, ps := range peers {
		bcR.AddPeer(nodeSide[ps.id])
	}
	bcR.BroadcastStatusRequest() // every peer answers with its (claimed) height
	start := time.Now()
	lastSig, lastChange := "", time.Now()
	for {
		time.Sleep(20 * time.Millisecond)
		mu.Lock()
		nreq := 0
		for _, k := range res.requests {
			nreq += k
		}
		mu.Unlock()
		sw.mu.Lock()
		nd := len(sw.dropped)
		sw.mu.Unlock()
		sig := fmt.Sprintf("%d/%d/%d", app.Height(), nd, nreq)
		if sig != lastSig {
			lastSig, lastChange = sig, time.Now()
		}
		conR.mu.Lock()
		sw_ := conR.switched
		conR.mu.Unlock()
		idle := time.Since(lastChange)
		// stable: switched to consensus; or every peer is gone and nothing moved for a while; or nothing at all moved for `quiet`
		if sw_ || (set.Size() == 0 && idle > 400*time.Millisecond) || idle > quiet || time.Since(start) > deadline {
			break
		}
	}
	{
		buf := make([]byte, 1<<20)
		res.stacks = string(buf[:runtime.Stack(buf, true)])
	}
	close(done)
	bcR.Stop()
	res.applied = app.Height()
	for h := uint64(1); h <= res.applied; h++ {
		if int(h) > c.heights || !bytes.Equal(fsBlockBytes(app.Blocks[h-1]), fsBlockBytes(c.app.Blocks[h-1])) {
			res.altered = append(res.altered, h)
		}
	}
	res.seen = app.SeenCommits
	sw.mu.Lock()
	res.dropped = append([]string{}, sw.dropped...)
	sw.mu.Unlock()
	sort.Strings(res.dropped)
	conR.mu.Lock()
	res.switched, res.swHeight = conR.switched, conR.status.LastBlockHeight
	conR.mu.Unlock()
	return res
}

func fsBlockBytes(b *types.Block) []byte {
	ps := b.MakePartSet(1 << 20)
	var out []byte
	for i := 0; i < ps.Total(); i++ {
		out = append(out, ps.GetPart(i).Bytes...)
	}
	return out
}

