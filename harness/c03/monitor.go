package c03

// Property monitors, evaluated on the IMPLEMENTATION's answers only.  The monitor keeps its own recount of
// what the harness fed in (which votes are correctly signed by which validator for which block) and checks the
// implementation's verdicts against the property, never against the Lean model.

import (
	"bytes"
	"fmt"
	"math/big"
	"strconv"
	"strings"

	"lvharness/hx"
)

type mon struct {
	fs    []hx.Failure
	vals  []pval
	chain string
	small bool // all powers >= 0 and their sum < 2^62 (the property's quantifier)
	total *big.Int
	votes map[int]*pvote
	// vote set
	alive      bool
	vsChain    string
	vsH        uint64
	vsR, vsT   int
	valid      map[int][]*pvote
	maj        string
	prevState  string
	claimed    map[string]bool // block ids some peer claimed a majority for (accepted claims)
	mst        []mstEntry      // signatures of the multi-sign transaction under construction (wide.go)
	fsm        fsMon           // fast-sync case under construction (fsyncmon.go)
	// pending commit
	hasC   bool
	cbid   bidT
	cslots []*pvote
}

func (m *mon) fail(monitor, class, site, msg string) {
	m.fs = append(m.fs, hx.Failure{Monitor: monitor, Class: class, Site: site, Msg: msg})
}

func (m *mon) powerOf(pred func(i int) bool) *big.Int {
	s := new(big.Int)
	for i, v := range m.vals {
		if pred(i) {
			s.Add(s, big.NewInt(v.power))
		}
	}
	return s
}

func moreThanTwoThirds(p, total *big.Int) bool {
	return new(big.Int).Mul(p, big.NewInt(3)).Cmp(new(big.Int).Mul(total, big.NewInt(2))) > 0
}

func stateOf(ans string) string {
	if i := strings.Index(ans, "sum="); i >= 0 {
		return ans[i:]
	}
	return ans
}

// sameState: the observable tallies are unchanged; the per-block view may have gained entries for block ids
// mentioned for the first time (untracked "nil", or freshly tracked and empty after a peer claim).
func sameState(prev, cur string) bool {
	i, j := strings.Index(prev, " bb="), strings.Index(cur, " bb=")
	if i < 0 || j < 0 || prev[:i] != cur[:j] {
		return false
	}
	pb, cb := prev[i+4:], cur[j+4:]
	if pb == cb {
		return true
	}
	var pe []string
	if pb != "-" {
		pe = strings.Split(pb, ";")
	}
	ce := strings.Split(cb, ";")
	if len(ce) < len(pe) {
		return false
	}
	for k, e := range ce {
		empty := e == "nil" || strings.Trim(e, "_") == ""
		if k < len(pe) && e != pe[k] && !(pe[k] == "nil" && empty) {
			return false
		}
		if k >= len(pe) && !empty {
			return false
		}
	}
	return true
}

const siteVS = "types/vote_set.go:addVote"
const siteVC = "types/validator_set.go:VerifyCommit"

func (m *mon) voteValid(v *pvote) bool {
	n := len(m.vals)
	if v.idx < 0 || v.idx >= n {
		return false
	}
	val := m.vals[v.idx]
	return len(v.addr) > 0 && bytes.Equal(v.addr, val.addr) && bytes.Equal(val.kaddr, val.addr) && v.size == n &&
		v.h == m.vsH && v.r == m.vsR && v.typ == m.vsT && v.sigValid(m.vsChain, val.key)
}

func (m *mon) checkState(op, ans string) {
	toks := hx.Tokens(ans)
	maj, _ := hx.Arg(toks, "maj23")
	sumS, _ := hx.Arg(toks, "sum")
	has23, _ := hx.Arg(toks, "has23")
	anyS, _ := hx.Arg(toks, "any")
	if maj == "none" {
		maj = ""
	}
	if m.maj != "" && maj != m.maj {
		m.fail("maj23_stable", "maj23-changed", siteVS, fmt.Sprintf("two-thirds majority changed from %s to %q after %s", m.maj, maj, op))
	}
	if (maj != "") != (has23 == "true") {
		m.fail("maj23_stable", "has23-inconsistent", siteVS, "HasTwoThirdsMajority disagrees with TwoThirdsMajority after "+op)
	}
	if m.small {
		voted := m.powerOf(func(i int) bool { return len(m.valid[i]) > 0 })
		if sum, ok := new(big.Int).SetString(sumS, 10); !ok || sum.Cmp(voted) != 0 {
			m.fail("counted_once", "round-total-miscount", siteVS, fmt.Sprintf("sum=%s but the validators with a correctly signed vote hold %s (after %s)", sumS, voted, op))
		}
		if (anyS == "true") != moreThanTwoThirds(voted, m.total) {
			m.fail("two_thirds_any", "two-thirds-any-wrong", "types/vote_set.go:HasTwoThirdsAny", fmt.Sprintf("HasTwoThirdsAny=%s with %s of %s voted (after %s)", anyS, voted, m.total, op))
		}
		if maj != "" {
			p := m.powerOf(func(i int) bool {
				for _, v := range m.valid[i] {
					if v.bid.tok() == maj {
						return true
					}
				}
				return false
			})
			if !moreThanTwoThirds(p, m.total) {
				m.fail("maj23_has_two_thirds", "maj23-without-two-thirds", siteVS,
					fmt.Sprintf("majority reported for %s but correctly signed votes for it hold %s of %s (after %s)", maj, p, m.total, op))
			}
		} else {
			// completeness on the honest part: validators that voted for exactly one block id
			byBid := map[string]*big.Int{}
			for i := range m.vals {
				if len(m.valid[i]) == 0 {
					continue
				}
				one := true
				for _, v := range m.valid[i] {
					if !v.bid.eq(m.valid[i][0].bid) {
						one = false
					}
				}
				if one {
					k := m.valid[i][0].bid.tok()
					if byBid[k] == nil {
						byBid[k] = new(big.Int)
					}
					byBid[k].Add(byBid[k], big.NewInt(m.vals[i].power))
				}
			}
			for k, p := range byBid {
				if moreThanTwoThirds(p, m.total) {
					m.fail("maj23_complete", "quorum-not-reported", siteVS, fmt.Sprintf("non-equivocating validators with %s of %s voted for %s, no majority reported (after %s)", p, m.total, k, op))
				}
			}
		}
	}
	if maj != "" && m.maj == "" {
		m.maj = maj
	}
	m.prevState = stateOf(ans)
}

func (m *mon) onVote(op, ans string) {
	v := parseVote(hx.Tokens(op), m.chain)
	m.votes[v.id] = v
	toks := hx.Tokens(ans)
	added, _ := hx.Arg(toks, "added")
	errS, _ := hx.Arg(toks, "err")
	if !m.voteValid(v) {
		if added != "false" {
			m.fail("rejects_invalid", "invalid-vote-accepted", siteVS, "a vote with a wrong index/address/size/height/round/type/signature was added: "+op)
		} else if !sameState(m.prevState, stateOf(ans)) {
			m.fail("rejects_invalid", "rejected-vote-changed-state", siteVS, "a rejected vote changed the observable state: "+op)
		}
		if errS == "none" {
			// only an exact re-delivery may be answered (false, nil)
			dup := false
			if v.idx >= 0 && v.idx < len(m.vals) {
				for _, w := range m.valid[v.idx] {
					if w.bid.eq(v.bid) && w.sigKind == v.sigKind && w.sigN == v.sigN && (v.sigKind != "k" || w.signed.eq(v.signed)) {
						dup = true
					}
				}
			}
			if !dup {
				m.fail("rejects_invalid", "invalid-vote-no-error", siteVS, "an invalid vote was answered without an error: "+op)
			}
		}
		m.checkState(op, ans)
		return
	}
	prior := m.valid[v.idx]
	addedSame, otherBlock, redelivery, samePrior := false, false, false, false
	for _, w := range prior {
		if w.bid.eq(v.bid) {
			samePrior = true
			addedSame = addedSame || w.wasAdded
			redelivery = redelivery || w.signed.eq(v.signed)
		} else {
			otherBlock = true
		}
	}
	switch {
	case addedSame:
		if added != "false" {
			m.fail("counted_once", "duplicate-counted", siteVS, "a second vote of the same validator for the same block id was added: "+op)
		}
	case otherBlock:
		// (an exact re-delivery of a conflicting vote that was kept as the canonical vote of a decided block is a plain duplicate)
		// a conflicting vote for the decided block is kept as the validator's canonical vote although it is answered
		// added=false; later votes for the same slot and block are then duplicates / non-deterministic signatures
		ok := samePrior && added == "false" && ((redelivery && errS == "none") || errS == "nondet")
		if p := strings.Split(errS, ":"); len(p) == 3 && p[0] == "conflict" && p[2] == strconv.Itoa(v.id) {
			for _, w := range prior {
				if strconv.Itoa(w.id) == p[1] && !w.bid.eq(v.bid) {
					ok = true
				}
			}
		}
		if !ok {
			m.fail("conflicts_surface", "equivocation-not-surfaced", siteVS, fmt.Sprintf("equivocating vote answered err=%s: %s", errS, op))
		} else if added == "true" && !m.claimed[v.bid.tok()] {
			m.fail("conflicts_surface", "conflict-counted-without-claim", siteVS, "a conflicting vote was counted toward a block no peer claimed a majority for: "+op)
		}
	default:
		if added != "true" || errS != "none" {
			m.fail("accepts_valid", "valid-vote-rejected", siteVS, fmt.Sprintf("first correctly signed vote of a validator answered added=%s err=%s: %s", added, errS, op))
		}
	}
	v.wasAdded = added == "true"
	m.valid[v.idx] = append(m.valid[v.idx], v)
	m.checkState(op, ans)
}

func (m *mon) onVerify(op, ans string) {
	toks := hx.Tokens(op)
	c, _ := hx.Arg(toks, "chain")
	chain := string(hx.UnHex(c))
	b, _ := hx.Arg(toks, "bid")
	bid := parseBid(b)
	hs, _ := hx.Arg(toks, "h")
	h, _ := strconv.ParseUint(hs, 10, 64)
	if !m.small {
		return
	}
	n := len(m.vals)
	var first *pvote
	for _, s := range m.cslots {
		if s != nil {
			first = s
			break
		}
	}
	allGood := len(m.cslots) == n
	counted := new(big.Int)
	for i, s := range m.cslots {
		if s == nil || i >= n {
			continue
		}
		good := s.typ == 2 && s.h == h && s.r == first.r && s.sigValid(chain, m.vals[i].key)
		if !good {
			allGood = false
			continue
		}
		if s.bid.eq(bid) {
			counted.Add(counted, big.NewInt(m.vals[i].power))
		}
	}
	enough := moreThanTwoThirds(counted, m.total)
	if ans == "ok" && !(len(m.cslots) == n && enough) {
		m.fail("verify_commit_sound", "commit-accepted-without-two-thirds", siteVC,
			fmt.Sprintf("VerifyCommit accepted, but correctly signed precommits for exactly this block/height/round/chain hold %s of %s (%s)", counted, m.total, op))
	}
	if ans != "ok" && allGood && enough {
		m.fail("verify_commit_complete", "valid-commit-rejected", siteVC, fmt.Sprintf("VerifyCommit answered %s for a commit with %s of %s correctly signed (%s)", ans, counted, m.total, op))
	}
}

func (P) Monitor(c *hx.CaseRun) []hx.Failure {
	if fs := dupevMonitor(c); len(fs) > 0 {
		return fs
	}
	m := &mon{votes: map[int]*pvote{}, valid: map[int][]*pvote{}, claimed: map[string]bool{}, total: new(big.Int)}
	sb := map[string]msgT{} // signbytes answers -> canonical tuple
	for i, op := range c.Ops {
		ans := c.Impl[i]
		toks := hx.Tokens(op)
		if len(toks) == 0 || ans == "dead" {
			continue
		}
		panicked := strings.HasPrefix(ans, "panic")
		site := strings.TrimPrefix(ans, "panic ")
		switch toks[0] {
		case "valset":
			cs, _ := hx.Arg(toks, "chain")
			m.chain = string(hx.UnHex(cs))
			m.vals = parseVals(toks)
			m.total = new(big.Int)
			m.small = true
			for _, v := range m.vals {
				if v.power < 0 {
					m.small = false
				}
				m.total.Add(m.total, big.NewInt(v.power))
			}
			if m.total.Cmp(new(big.Int).Lsh(big.NewInt(1), 62)) >= 0 {
				m.small = false
			}
			m.alive = false
			if panicked {
				m.fail("no_panic", "panic:"+site, site, "panic on "+op)
			}
		case "voteset":
			cs, _ := hx.Arg(toks, "chain")
			hs, _ := hx.Arg(toks, "h")
			rs, _ := hx.Arg(toks, "r")
			ts, _ := hx.Arg(toks, "type")
			m.vsChain = string(hx.UnHex(cs))
			m.vsH, _ = strconv.ParseUint(hs, 10, 64)
			m.vsR, _ = strconv.Atoi(rs)
			m.vsT, _ = strconv.Atoi(ts)
			m.valid = map[int][]*pvote{}
			m.claimed = map[string]bool{}
			m.maj = ""
			m.alive = !panicked
			if panicked && m.vsH != 0 {
				m.fail("no_panic", "panic:"+site, site, "panic on "+op)
			}
			if !panicked {
				m.prevState = stateOf(ans)
			}
		case "vote":
			if panicked {
				m.fail("no_panic", "panic:"+site, site, "AddVote panicked on "+op)
				m.alive = false
				continue
			}
			if m.alive {
				m.onVote(op, ans)
			}
		case "peermaj23":
			if panicked {
				m.fail("no_panic", "panic:"+site, site, "SetPeerMaj23 panicked on "+op)
				continue
			}
			if m.alive {
				if !sameState(m.prevState, stateOf(ans)) {
					m.fail("peer_claim_inert", "peer-claim-changed-tally", "types/vote_set.go:SetPeerMaj23", "a peer's majority claim changed the observable tallies: "+op)
				}
				m.checkState(op, ans)
				if es, _ := hx.Arg(hx.Tokens(ans), "err"); es == "false" {
					b, _ := hx.Arg(toks, "bid")
					m.claimed[parseBid(b).tok()] = true
				}
			}
		case "makecommit":
			if !m.alive {
				continue
			}
			if panicked {
				if m.maj != "" && m.vsT == 2 {
					m.fail("no_panic", "panic:"+site, site, "MakeCommit panicked although a majority was reported")
				}
				continue
			}
			at := hx.Tokens(ans)
			bs, _ := hx.Arg(at, "bid")
			ss, _ := hx.Arg(at, "slots")
			if bs != m.maj {
				m.fail("make_commit", "commit-for-other-block", "types/vote_set.go:MakeCommit", fmt.Sprintf("MakeCommit is for %s, majority was %q", bs, m.maj))
			}
			m.cbid, m.hasC, m.cslots = parseBid(bs), true, nil
			for k, s := range hx.SplitComma(ss) {
				if s == "_" {
					m.cslots = append(m.cslots, nil)
					continue
				}
				id, _ := strconv.Atoi(s)
				v := m.votes[id]
				okv := false
				if v != nil {
					for _, w := range m.valid[k] {
						if w == v {
							okv = true
						}
					}
				}
				if !okv {
					m.fail("make_commit", "commit-contains-invalid-vote", "types/vote_set.go:MakeCommit", fmt.Sprintf("slot %d of the commit holds vote %s which is not a correctly signed vote of validator %d", k, s, k))
				}
				m.cslots = append(m.cslots, v)
			}
		case "cnew":
			b, _ := hx.Arg(toks, "bid")
			m.cbid, m.hasC, m.cslots = parseBid(b), true, nil
		case "cslot":
			if !m.hasC {
				continue
			}
			if len(toks) == 2 && toks[1] == "nil" {
				m.cslots = append(m.cslots, nil)
			} else {
				m.cslots = append(m.cslots, parseVote(toks, m.chain))
			}
		case "cinfo":
			if panicked {
				m.fail("no_panic", "panic:"+site, site, "Commit helper panicked")
			}
		case "verify":
			if !m.hasC {
				continue
			}
			if panicked {
				m.fail("no_panic", "panic:"+site, site, "VerifyCommit panicked on "+op)
				continue
			}
			m.onVerify(op, ans)
		case "signbytes":
			if panicked {
				m.fail("no_panic", "panic:"+site, site, "SignBytes panicked on "+op)
				continue
			}
			cs, _ := hx.Arg(toks, "chain")
			t := parseVote(toks, m.chain).msg(string(hx.UnHex(cs)))
			if prev, ok := sb[ans]; ok && !prev.eq(t) {
				m.fail("signbytes_binds", "signbytes-collision", "types/vote.go:SignBytes", "two votes that differ in chain/height/round/type/block id/time have the same sign-bytes: "+op)
			}
			sb[ans] = t
		default:
			if !m.fsMonOp(toks, op, ans, panicked, site) {
				m.wideMon(toks, op, ans, panicked, site)
			}
		}
	}
	return m.fs
}
