import Driver.Common
import LinkVerif.Model.SigHash
import LinkVerif.Model.MultiSign

namespace Driver.C08
open Go.Proto Model.SigHash Driver

/-- key index used for common.EmptyAddress (written by StoreFrom after a failed From()) -/
def zeroKey : Nat := 1000000

structure Slot where
  t : TxV
  caches : List (Cache Nat)       -- parallel to t.sigs
  hashCache : Option Bytes := none
deriving Inhabited

/-- a signature the harness made with a real key: digest, r, s, recovery id, key index -/
structure Known where
  digest : Bytes
  r : Int
  s : Int
  recid : Int
  key : Nat

structure St where
  chain : Nat := 29153
  slots : List (Nat × Slot) := []
  oracle : List Known := []
  keyAddrs : List Bytes := []
  mPowers : List Int := []
  mContents : List (Nat × Model.MultiSign.Content) := []
  mTxs : List (Nat × Model.MultiSign.Content × List Model.MultiSign.Entry) := []
  mHashes : List (Model.MultiSign.Content × List (Model.MultiSign.Who × Option (Nat × Option Model.MultiSign.Content) × Nat)) := []
  uDests : List (Nat × List (Nat × Nat × Nat)) := []      -- tx id ↦ (wallet, sub-address index, amount) per confidential output
  uImages : List (Nat × Nat × Nat) := []                  -- (tx, output, spend-key wallet) in order of first appearance

def keccakItems (items : List Bytes) : Bytes := Go.Keccak.keccak256L (rlpList items)

/-- `rlpHash` ignores the encoder's error: a negative big.Int (API level only) makes `ser` write nothing -/
def hashOf (t : TxV) (items : List Bytes) : Bytes :=
  if t.sigs.any (fun s => s.v < 0 || s.r < 0 || s.s < 0) then Go.Keccak.keccak256L [] else keccakItems items

/-- the ideal signature scheme made operational: a signature recovers its key on exactly its digest;
    so does its (r, N−s, 1−recid) twin -/
def recOracle (o : List Known) (d : Bytes) (r s v : Int) : Option Nat :=
  (o.find? fun k => k.digest == d && k.r == r &&
      ((k.s == s && k.recid == v) || (k.s == twinS s && k.recid == 1 - v))).map (·.key)

def getSlot (st : St) (i : Nat) : Option Slot := (st.slots.find? (·.1 == i)).map (·.2)
def putSlot (st : St) (i : Nat) (s : Slot) : St := { st with slots := (i, s) :: st.slots.filter (·.1 != i) }

def parseSigner (s : String) : Option Signer :=
  if s == "home" then some .home
  else if s == "front" then some .front
  else if s.startsWith "eip:" then ((s.drop 4).toString.toNat?).map .eip
  else none

def hexNat? (s : String) : Option Nat := (hexDecode? s).map bytesToNat

def parseSig (s : String) : Option Sig :=
  match s.splitOn ":" with
  | [v, r, x] => do
    let v ← v.toInt?
    let r ← hexNat? r
    let x ← hexNat? x
    some ⟨v, r, x⟩
  | _ => none

def parseSigs (toks : List String) : Option (Option (List Sig)) :=
  match arg? toks "sigs" with
  | none => some none
  | some s => ((splitComma s).mapM parseSig).map some

/-- `u:<decimal>` uint64 / big.Int, `x:<hex>` byte string or byte array, `a:<hex>|a:nil` *Address, `r:<hex>` a ser item as is -/
def parseVal (s : String) : Option Bytes :=
  if s.startsWith "u:" then ((s.drop 2).toString.toNat?).map encNat
  else if s.startsWith "x:" then (hexDecode? (s.drop 2).toString).map rlpStr
  else if s == "a:nil" then some [0x80]
  else if s.startsWith "a:" then (hexDecode? (s.drop 2).toString).map rlpStr
  else if s.startsWith "r:" then hexDecode? (s.drop 2).toString
  else none

def parseFields (toks : List String) : Option (List (String × Bytes)) :=
  (toks.filter (·.startsWith "f.")).mapM fun t =>
    match (t.drop 2).toString.splitOn "=" with
    | [n, v] => (parseVal v).map fun b => (n, b)
    | _ => none

def parseKind (s : String) : Option Kind :=
  match s with
  | "tx" => some .tx | "tok" => some .tok | "cut" => some .cut | "utxo" => some .utxo | _ => none

def showWho : Who Nat → String
  | .addr k => if k == zeroKey then "zero" else s!"key={k}"
  | .other => "other"

def showRes : Except Rej (Who Nat) → String
  | .ok w => showWho w
  | .error .sig => "rej:sig"
  | .error .param => "rej:param"

def coldCaches (sigs : List Sig) : List (Cache Nat) := sigs.map fun _ => none

/-- Hash() through the hash cache -/
def slotHash (sl : Slot) : Bytes × Slot :=
  match sl.hashCache with
  | some h => (h, sl)
  | none => let h := hashOf sl.t (hashItems sl.t); (h, { sl with hashCache := some h })

/-- Sender(signer) of a single-signature transaction through the sender cache -/
def slotSender (st : St) (sg : Signer) (sl : Slot) : Except Rej (Who Nat) × Slot :=
  let (res, c') := sender keccakItems (recOracle st.oracle) sg (sl.caches.headD none) sl.t (sig0 sl.t)
  (res, { sl with caches := [c'] })

/-- `senders()`: every signature through its own cache; the first failure aborts (caches written so far stay) -/
def slotSenders (st : St) (sg : Signer) (sl : Slot) : Except Rej (List (Who Nat)) × Slot :=
  let rec go (sigs : List Sig) (cs : List (Cache Nat)) (acc : List (Who Nat)) (done : List (Cache Nat)) :
      Except Rej (List (Who Nat)) × List (Cache Nat) :=
    match sigs, cs with
    | s :: sigs', c :: cs' =>
      match sender keccakItems (recOracle st.oracle) sg c sl.t s with
      | (.ok w, c') => go sigs' cs' (acc ++ [w]) (done ++ [c'])
      | (.error e, c') => (.error e, done ++ [c'] ++ cs')
    | _, _ => (.ok acc, done ++ cs)
  let (res, cs) := go sl.t.sigs sl.caches [] []
  (res, { sl with caches := cs })

/-- verifySenderSignature (types/tx_cross.go) for ContractUpgradeTx.VerifySign -/
def verifySender (st : St) (sl : Slot) (from_ : Bytes) (signers : List (Nat × Int)) (minPower : Int) : Bool × Slot :=
  if signers.isEmpty then (false, sl)
  else if sl.t.sigs.length > signers.length + 1 then (false, sl)
  else
    let rec go (sigs : List Sig) (cs : List (Cache Nat)) (done : List (Cache Nat)) (seen : List (Who Nat)) (total : Int) (matchFrom : Bool) :
        Bool × List (Cache Nat) :=
      match sigs, cs with
      | s :: sigs', c :: cs' =>
        match sender keccakItems (recOracle st.oracle) (.eip st.chain) c sl.t s with
        | (.error _, c') => go sigs' cs' (done ++ [c']) seen total matchFrom
        | (.ok w, c') =>
          if seen.contains w then go sigs' cs' (done ++ [c']) seen total matchFrom
          else
            let pw := match w with
              | .addr k => (signers.filter (·.1 == k)).foldl (fun a x => a + x.2) 0
              | .other => 0
            let total := total + pw
            let isFrom := match w with
              | .addr k => (st.keyAddrs[k]?).map (fun a => rlpStr a == from_) == some true
              | .other => false
            let matchFrom := matchFrom || isFrom
            if matchFrom && total ≥ minPower then (true, done ++ [c'] ++ cs')
            else go sigs' cs' (done ++ [c']) (w :: seen) total matchFrom
      | _, _ => (false, done ++ cs)
    let (ok, cs) := go sl.t.sigs sl.caches [] [] 0 false
    (ok, { sl with caches := cs })

def parseSigners (s : String) : Option (List (Nat × Int)) :=
  (splitComma s).mapM fun p =>
    match p.splitOn ":" with
    | [k, w] => do some ((← k.toNat?), (← w.toInt?))
    | _ => none

def showHex32 (n : Int) : String := natToHexPad n.toNat 64

namespace Mst
open Model.MultiSign

def parseEntry (s : String) : Option Entry :=
  match s.splitOn ":" with
  | [w, k] => do
    let who ← if w.startsWith "v" then ((w.drop 1).toString.toNat?).map Who.val
              else if w.startsWith "f" then ((w.drop 1).toString.toNat?).map Who.foreign else none
    let sig ← if k == "bad" then some SigKind.bad else if k == "unparse" then some .unparse else if k == "empty" then some .empty
      else if k.startsWith "ok" then
        match ((k.drop 2).toString).splitOn "@" with
        | [j, c] => do some (SigKind.ok (← j.toNat?) (← c.toNat?))
        | _ => none
      else none
    some ⟨who, sig⟩
  | _ => none

def parseContent (toks : List String) : Option Content := do
  let n ← argNat? toks "nonce"
  let t ← argInt? toks "type"
  let m ← argInt? toks "min"
  let sg ← (arg? toks "signers").bind fun s => (splitComma s).mapM fun p =>
    match p.splitOn ":" with
    | [a, w] => do some ((← hexDecode? a), (← w.toInt?))
    | _ => none
  some ⟨n, t, m, sg⟩

def showRes : Res → String
  | .ok => "ok" | .novals => "fail:novals" | .dup => "fail:dup" | .invalidValidator => "fail:invalid-validator"
  | .sigbytes => "fail:sigbytes" | .insufficient => "fail:insufficient"

/-- what the bytes of a signature entry depend on -/
def sigId (cs : List (Nat × Content)) : SigKind → Option (Nat × Option Content) × Nat
  | .ok j c => (some (j, (cs.find? (·.1 == c)).map (·.2)), 0)
  | .bad => (none, 1) | .unparse => (none, 2) | .empty => (none, 3)

end Mst

def stepMst (st : St) (toks : List String) : St × String :=
  open Model.MultiSign Mst in
  match toks with
  | "m.vals" :: _ =>
    match argInts? toks "powers" with
    | some ps => ({ st with mPowers := ps }, s!"ok total={totalPower ps}")
    | none => (st, "bad-op")
  | "m.content" :: _ =>
    match argNat? toks "cid", parseContent toks with
    | some c, some ct => ({ st with mContents := st.mContents.filter (·.1 != c) ++ [(c, ct)] }, "ok bytes=" ++ hexEncode (signBytes ct))
    | _, _ => (st, "bad-op")
  | "m.mk" :: _ =>
    match argNat? toks "slot", argNat? toks "cid", (arg? toks "sigs").bind (fun s => (splitComma s).mapM parseEntry) with
    | some i, some c, some es =>
      match st.mContents.find? (·.1 == c) with
      | some (_, ct) => ({ st with mTxs := (i, ct, es) :: st.mTxs.filter (·.1 != i) }, "ok")
      | none => (st, "bad-op")
    | _, _, _ => (st, "bad-op")
  | op :: _ =>
    match (argNat? toks "slot").bind (fun i => (st.mTxs.find? (·.1 == i)).map (fun x => (i, x.2))) with
    | none => (st, "no-slot")
    | some (i, ct, es) =>
      if op == "m.sign" then
        match argNat? toks "val" with
        | some v =>
          let cid := ((st.mContents.find? (·.2 == ct)).map (·.1)).getD 0
          let es' := es ++ [⟨.val v, .ok v cid⟩]
          ({ st with mTxs := (i, ct, es') :: st.mTxs.filter (·.1 != i) }, s!"ok n={es'.length}")
        | none => (st, "bad-op")
      else if op == "m.verify" then
        if arg? toks "vals" == some "nil" then (st, Mst.showRes Res.novals)
        else (st, Mst.showRes (verifySign st.mPowers st.mContents ct es))
      else if op == "m.info" then
        (st, s!"from=00000000000000000000000000000000006d7374 err=false to=false nonce={ct.nonce} type=mst token=0000000000000000000000000000000000000000")
      else if op == "m.hash" then
        let key := (ct, es.map fun e => (e.who, sigId st.mContents e.sig))
        match st.mHashes.findIdx? (· == key) with
        | some k => (st, s!"class={k}")
        | none => ({ st with mHashes := st.mHashes ++ [key] }, s!"class={st.mHashes.length}")
      else (st, "bad-op")
  | [] => (st, "bad-op")

/-- confidential outputs: the ideal functionality of the one-time-address scheme.  An output addressed to (wallet w,
    sub-address s) is recognised, decoded and spendable by exactly the holder of BOTH keys of w; the view key alone
    recognises it but derives a secret that does not open the one-time address. -/
def parseDest (s : String) : Option (Nat × Nat × Nat) :=
  match s.splitOn ":" with
  | [ws, a] =>
    match ws.splitOn "." with
    | [w, sub] => do some ((← w.toNat?), (← sub.toNat?), (← a.toNat?))
    | _ => none
  | _ => none

def stepOwn (st : St) (toks : List String) : St × String :=
  match toks with
  | "u.setup" :: _ => ({ st with uDests := [], uImages := [] }, "ok")
  | "u.ring" :: _ => (st, if arg? toks "field" == some "none" then "base=ok tampered=ok" else "base=ok tampered=rej")
  | "u.tx" :: _ =>
    match argNat? toks "id", (arg? toks "dests").bind (fun s => (splitComma s).mapM parseDest) with
    | some id, some ds =>
      ({ st with uDests := (id, ds) :: st.uDests.filter (·.1 != id) }, s!"ok outs={ds.length} distinct={ds.length} addkeys={ds.length}")
    | _, _ => (st, "bad-op")
  | op :: _ =>
    match (argNat? toks "tx").bind (fun id => (st.uDests.find? (·.1 == id)).map (fun x => (id, x.2))) with
    | none => (st, "no-tx")
    | some (id, ds) =>
      if op == "u.scan" then
        match argNat? toks "w" with
        | some w =>
          let found := (ds.zipIdx.filter (fun (d, _) => d.1 == w)).map fun (d, k) => s!"{k}:{d.2.1}:{d.2.2}"
          (st, if found.isEmpty then "-" else ",".intercalate found)
        | none => (st, "bad-op")
      else if op == "u.force" then
        match argNat? toks "w", (argNat? toks "out").bind (ds[·]?) with
        | some w, some d => (st, if d.1 == w then "opens=true" else "opens=false")
        | _, _ => (st, "bad-op")
      else if op == "u.image" then
        match argNat? toks "view", argNat? toks "spend", argNat? toks "out" with
        | some v, some sp, some k =>
          match ds[k]? with
          | none => (st, "bad-op")
          | some d =>
            if d.1 != v then (st, "err")
            else
              let key := (id, k, sp)
              let (st', c) := match st.uImages.findIdx? (· == key) with
                | some c => (st, c)
                | none => ({ st with uImages := st.uImages ++ [key] }, st.uImages.length)
              (st', s!"img={c} opens={decide (sp = d.1)}")
        | _, _, _ => (st, "bad-op")
      else (st, "bad-op")
  | [] => (st, "bad-op")

def step (st : St) (toks : List String) : St × String :=
  if (toks.headD "").startsWith "m." then stepMst st toks else
  if (toks.headD "").startsWith "u." then stepOwn st toks else
  match toks with
  | "case" :: _ => ({ chain := (argNat? toks "chain").getD 29153 }, "ok")
  | "keys" :: _ =>
    match argHexes? toks "addrs" with
    | some as => ({ st with keyAddrs := as }, "ok")
    | none => (st, "bad-op")
  | "oracle" :: _ =>
    match argNat? toks "key", argHex? toks "digest", (arg? toks "r").bind hexNat?, (arg? toks "s").bind hexNat?, argInt? toks "recid" with
    | some k, some d, some r, some s, some v => ({ st with oracle := st.oracle ++ [⟨d, r, s, v, k⟩] }, "ok")
    | _, _, _, _, _ => (st, "bad-op")
  | "vrs" :: _ =>
    match argInt? toks "v", (arg? toks "r").bind hexNat?, (arg? toks "s").bind hexNat?, arg? toks "hs" with
    | some v, some r, some s, some hs => (st, toString (Gen.SigFacts.validateSignatureValues v r s (hs == "true")))
    | _, _, _, _ => (st, "bad-op")
  | "vinfo" :: _ =>
    if arg? toks "v" == some "nil" then (st, "protected=true param=0") else   -- isProtectedV(nil), DeriveSignParam(nil)
    match argInt? toks "v" with
    | some v => (st, s!"protected={isProtectedV v} param={deriveSignParam v}")
    | none => (st, "bad-op")
  | "mk" :: _ =>
    match argNat? toks "slot", (arg? toks "kind").bind parseKind, parseFields toks, parseSigs toks with
    | some i, some k, some fs, some (some sigs) =>
      (putSlot st i { t := { kind := k, fields := fs, sigs := sigs }, caches := coldCaches sigs }, "ok")
    | _, _, _, _ => (st, "bad-op")
  | "set" :: _ =>
    match argNat? toks "slot", parseFields toks, parseSigs toks with
    | some i, some fs, some osigs =>
      match getSlot st i with
      | none => (st, "no-slot")
      | some sl =>
        let inplace := arg? toks "inplace" == some "1"
        let fields := sl.t.fields.map fun (n, b) => match fs.find? (·.1 == n) with | some (_, b') => (n, b') | none => (n, b)
        let sigs := osigs.getD sl.t.sigs
        let t' : TxV := { sl.t with fields := fields, sigs := sigs }
        let keep := inplace && !(sl.t.kind == .cut && osigs.isSome)
        let sl' : Slot := if keep then { sl with t := t' } else { t := t', caches := coldCaches sigs }
        (putSlot st i sl', "ok")
    | _, _, _ => (st, "bad-op")
  | "sign" :: _ =>
    match argNat? toks "slot", (arg? toks "signer").bind parseSigner, argNat? toks "key" with
    | some i, some sg, some k =>
      match getSlot st i with
      | none => (st, "no-slot")
      | some sl =>
        let d := keccakItems (signDigestItems sg sl.t)
        match st.oracle.find? (fun o => o.digest == d && o.key == k) with
        | none => (st, "no-oracle")
        | some o =>
          let sg' : Sig := ⟨signatureV sg o.recid, o.r, o.s⟩
          let sl' : Slot := match sl.t.kind with
            | .utxo => { sl with t := { sl.t with sigs := [sg'] } }                       -- in place, every cache kept
            | .cut => { t := { sl.t with sigs := sl.t.sigs ++ [sg'] }, caches := coldCaches (sl.t.sigs ++ [sg']) }
            | _ => { t := { sl.t with sigs := [sg'] }, caches := sl.caches }              -- data (with fromValue) copied, hash cache fresh
          (putSlot st i sl', s!"v={sg'.v} r={showHex32 sg'.r} s={showHex32 sg'.s}")
    | _, _, _ => (st, "bad-op")
  | "sender" :: _ =>
    match argNat? toks "slot", (arg? toks "signer").bind parseSigner with
    | some i, some sg =>
      match getSlot st i with
      | none => (st, "no-slot")
      | some sl =>
        let (res, sl') := slotSender st sg sl
        (putSlot st i sl', showRes res)
    | _, _ => (st, "bad-op")
  | "from" :: _ =>
    match argNat? toks "slot" with
    | some i =>
      match getSlot st i with
      | none => (st, "no-slot")
      | some sl =>
        let (res, sl') := slotSender st (.eip st.chain) sl
        (putSlot st i sl', showRes res)
    | none => (st, "bad-op")
  | "senders" :: _ =>
    match argNat? toks "slot" with
    | some i =>
      match getSlot st i with
      | none => (st, "no-slot")
      | some sl =>
        let (res, sl') := slotSenders st (.eip st.chain) sl
        let ans := match res with
          | .ok ws => if ws.isEmpty then "-" else if ws.contains .other then "other" else ",".intercalate (ws.map showWho)
          | .error .sig => "rej:sig"
          | .error .param => "rej:param"
        (putSlot st i sl', ans)
    | none => (st, "bad-op")
  | "cutfrom" :: _ =>
    match (argNat? toks "slot").bind (getSlot st) with
    | none => (st, "no-slot")
    | some sl =>
      let nonce := bytesToNat (match lookupField sl.t "AccountNonce" with | [x] => if x == 0x80 then [] else [x] | _ :: r => r | [] => [])
      (st, s!"from={hexEncode ((lookupField sl.t "FromAddr").drop 1)} err=false to={hexEncode ((lookupField sl.t "Recipient").drop 1)} nonce={nonce} type=cut")
  | "cutapi" :: _ =>
    match argNat? toks "slot", parseFields toks, (arg? toks "privs").map splitComma with
    | some i, some fs, some privs =>
      let t0 : TxV := { kind := .cut, fields := fs, sigs := [] }
      let d := keccakItems (signDigestItems (.eip st.chain) t0)
      -- one signature per key, in order: the oracle entries declared for this digest, matched by position among the keys' entries
      let cands := st.oracle.filter (fun o => o.digest == d)
      if cands.length < privs.length then (st, "no-oracle")
      else
        -- the generator declares the entries in signing order after one leading duplicate of the first
        let sigs := (cands.drop (cands.length - privs.length)).map fun o => (⟨signatureV (.eip st.chain) o.recid, o.r, o.s⟩ : Sig)
        let showSig := fun (g : Sig) => s!"{g.v}:{hexEncode (Model.SigHash.beBytes g.r.toNat)}:{hexEncode (Model.SigHash.beBytes g.s.toNat)}"
        (putSlot st i { t := { t0 with sigs := sigs }, caches := coldCaches sigs }, "ok sigs=" ++ ",".intercalate (sigs.map showSig))
    | _, _, _ => (st, "bad-op")
  | "verifysign" :: _ =>
    if arg? toks "signers" == some "nil" then
      (match (argNat? toks "slot").bind (getSlot st) with | none => (st, "no-slot") | some _ => (st, "fail")) else
    match argNat? toks "slot", (arg? toks "signers").bind parseSigners, argInt? toks "min" with
    | some i, some signers, some mn =>
      match getSlot st i with
      | none => (st, "no-slot")
      | some sl =>
        let (ok, sl') := verifySender st sl (lookupField sl.t "FromAddr") signers mn
        (putSlot st i sl', if ok then "ok" else "fail")
    | _, _, _ => (st, "bad-op")
  | "hash" :: _ =>
    match argNat? toks "slot" with
    | some i =>
      match getSlot st i with
      | none => (st, "no-slot")
      | some sl => let (h, sl') := slotHash sl; (putSlot st i sl', "h=" ++ hexEncode h)
    | none => (st, "bad-op")
  | "sighash" :: _ =>
    match argNat? toks "slot" with
    | some i =>
      match getSlot st i with
      | none => (st, "no-slot")
      | some sl => (st, "h=" ++ hexEncode (keccakItems (sigHashItems (.eip st.chain) sl.t)))
    | none => (st, "bad-op")
  | "prefixhash" :: _ =>
    match argNat? toks "slot" with
    | some i =>
      match getSlot st i with
      | none => (st, "no-slot")
      | some sl => (st, "h=" ++ hexEncode (hashOf sl.t (prefixItems sl.t)))
    | none => (st, "bad-op")
  | "storefrom" :: _ =>
    match argNat? toks "dst", argNat? toks "src" with
    | some j, some i =>
      match getSlot st i, getSlot st j with
      | some src, some dst =>
        let (hs, src) := slotHash src
        let st := putSlot st i src
        let (hd, dst) := slotHash dst
        if hs != hd then (putSlot st j dst, "miss")
        else
          let (res, src') := slotSender st (.eip st.chain) src
          let st := putSlot st i src'
          let a : Who Nat := match res with | .ok w => w | .error _ => .addr zeroKey
          -- i = j: the object that answered is the one written
          let dst := if i == j then { src' with hashCache := dst.hashCache } else dst
          (putSlot st j { dst with caches := [some (.eip st.chain, a)] }, "hit " ++ showRes res)
      | _, _ => (st, "no-slot")
    | _, _ => (st, "bad-op")
  | _ => (st, "bad-op")

def machine : Machine := { σ := St, init := {}, step := step }

end Driver.C08
