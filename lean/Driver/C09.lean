import Driver.Common
import LinkVerif.Model.StateDB
import LinkVerif.Gen.C09Facts

namespace Driver.C09
open Go.Proto Model.StateDB Driver

abbrev Content := List (Option (Nat × Nat × Int × List (Option Int) × List (Option Bytes) × Bytes))

abbrev TrieC := Addr → Option Account

/-- what the harness keeps per underlying database: block-store height, the trie content committed at each height, the
height the kv undo log belongs to (`kvh`, mode 3), the current content of the flat database (modes 2, 3) -/
structure DbInfo where
  height : Nat := 0
  kvh : Nat := 0
  tries : List (Nat × TrieC) := []
  cur : TrieC := fun _ => none

structure St where
  heap : Ref → TokMap := fun _ => emptyToks
  nextRef : Nat := 0
  states : List (Nat × State) := []      -- live handles, ascending
  classes : List Content := []
  mode : Nat := 0
  commits : List TrieC := []             -- trie content of every successful commit op, in order
  hdb : List (Nat × Nat) := []           -- handle -> database id
  dbs : List (Nat × DbInfo) := []
  nextDb : Nat := 0

def dbOf (s : St) (h : Nat) : Nat := ((s.hdb.find? (·.1 == h)).map (·.2)).getD 0
def dbInfo (s : St) (d : Nat) : DbInfo := ((s.dbs.find? (·.1 == d)).map (·.2)).getD {}
def setDb (s : St) (d : Nat) (i : DbInfo) : St := { s with dbs := (d, i) :: s.dbs.filter (·.1 != d) }
def trieAt (i : DbInfo) (k : Nat) : TrieC := ((i.tries.find? (·.1 == k)).map (·.2)).getD (fun _ => none)

/-- the model is instantiated from what the extractor sees in the tree NOW (T2): a repaired tree is compared with the repaired model -/
def cfg : Cfg := { cloneTokens := Gen.C09Facts.deepCopyClonesTokens, journalAbsent := !Gen.C09Facts.zeroInsertBeforeJournal }

def getH (s : St) (h : Nat) : Option State := (s.states.find? (·.1 == h)).map (·.2)

def insertH (l : List (Nat × State)) (h : Nat) (x : State) : List (Nat × State) :=
  match l with
  | [] => [(h, x)]
  | (k, y) :: rest => if h < k then (h, x) :: (k, y) :: rest else if h = k then (h, x) :: rest else (k, y) :: insertH rest h x

def ctxOf (s : St) (x : State) : Ctx := { heap := s.heap, nextRef := s.nextRef, st := x }
def putCtx (s : St) (h : Nat) (c : Ctx) : St := { s with heap := c.heap, nextRef := c.nextRef, states := insertH s.states h c.st }

def showLog (l : Log) : String := s!"{l.data}.{l.index}.{l.txIndex}"

def showAcct (heap : Ref → TokMap) (s : State) (a : Addr) : String :=
  match peek s a with
  | none => "-"
  | some o =>
    let m := tokMapOf heap o
    let tbs := ":".intercalate (tokU.map (fun t => toString ((m t).getD 0)))
    let tbl := (if o.balance > 0 then [s!"0={o.balance}"] else []) ++
      tokU.filterMap (fun t => match m t with
        | some v => if v > 0 then some s!"{t}={v}" else none
        | none => none)
    let tb := if tbl.isEmpty then "-" else "+".intercalate tbl
    let stor := ":".intercalate (keyU.map (fun k => hexEncode (getState o k)))
    let f := (if o.suicided then "S" else "") ++ (if o.isEmpty then "E" else "")
    let f := if f.isEmpty then "-" else f
    let cst := ":".intercalate (keyU.map (fun k => hexEncode (committed o k)))
    let x := if o.code.isEmpty then "-" else "I"
    s!"{o.nonce},{o.credits},{o.balance},{tbs},{tb},{hexEncode o.code},K,{o.code.length},{stor},{f},{cst},{x}"

def showState (heap : Ref → TokMap) (h : Nat) (s : State) : String :=
  let logs := "|".intercalate ([0, 1, 2].map (fun x => ",".intercalate ((s.logs x).map showLog)))
  let accts := "/".intercalate (addrU.map (showAcct heap s))
  let n := ([0, 1, 2].map (fun x => (s.logs x).length)).foldl (· + ·) 0
  let pre := "|".intercalate ([0, 1, 2].map (fun p => match s.preimages p with
    | none => "."
    | some v => hexEncode v))
  s!"h{h}[r={s.refund};L={logs};n={n};P={pre};{accts}]"

def dump (s : St) : String := " ".intercalate (s.states.map (fun (h, x) => showState s.heap h x))

def withDump (s : St) (res : String) : St × String := (s, res ++ " | " ++ dump s)

def classOf (s : St) (x : State) : St × String :=
  if s.mode ≠ 0 then (s, "class=na")
  else
    let c := rootContent x
    match s.classes.findIdx? (· == c) with
    | some k => (s, s!"class={k}")
    | none => ({ s with classes := s.classes ++ [c] }, s!"class={s.classes.length}")

/-- ops of the form `name h=H a=A …` that are plain mutators -/
def parseMut (toks : List String) : Option Op := do
  let name ← toks.head?
  match name with
  | "addbal" => some (.addBal (← argNat? toks "a") (← argInt? toks "v"))
  | "subbalx" => some (.subBal (← argNat? toks "a") (← argInt? toks "v"))
  | "setbal" => some (.setBal (← argNat? toks "a") (← argInt? toks "v"))
  | "addtok" => some (.addTok (← argNat? toks "a") (← argNat? toks "t") (← argInt? toks "v"))
  | "subtokx" => some (.subTok (← argNat? toks "a") (← argNat? toks "t") (← argInt? toks "v"))
  | "settok" => some (.setTok (← argNat? toks "a") (← argNat? toks "t") (← argInt? toks "v"))
  | "setnonce" => some (.setNonce (← argNat? toks "a") (← argNat? toks "n"))
  | "setcode" => some (.setCode (← argNat? toks "a") (← argHex? toks "code"))
  | "setstate" => some (.setState (← argNat? toks "a") (← argNat? toks "k") (← argHex? toks "v"))
  | "create" => some (.create (← argNat? toks "a"))
  | "addlog" => some (.addLog (← argNat? toks "d"))
  | "addrefund" => some (.addRefund (← argNat? toks "g"))
  | "prepare" => some (.prepare (← argNat? toks "x") (← argNat? toks "i"))
  | "setcredits" => some (.setCredits (← argNat? toks "a") (← argNat? toks "n"))
  | "addpreimage" => some (.addPreimage (← argNat? toks "p") (← argHex? toks "d"))
  | _ => none

def balOf (s : St) (x : State) (a : Addr) (t : Tok) : Int :=
  match peek x a with
  | none => 0
  | some o => tokenBalanceOf s.heap o t

def stepOn (s : St) (h : Nat) (x : State) (toks : List String) : St × String :=
  let c := ctxOf s x
  match toks.head? with
  | some "subbal" =>
    match argNat? toks "a", argInt? toks "v" with
    | some a, some v =>
      if balOf s x a 0 < v then withDump s "skip" else withDump (putCtx s h (applyOp cfg c (.subBal a v))) "ok"
    | _, _ => (s, "bad-op")
  | some "subtok" =>
    match argNat? toks "a", argNat? toks "t", argInt? toks "v" with
    | some a, some t, some v =>
      if balOf s x a t < v then withDump s "skip" else withDump (putCtx s h (applyOp cfg c (.subTok a t v))) "ok"
    | _, _, _ => (s, "bad-op")
  | some "suicide" =>
    match argNat? toks "a" with
    | some a =>
      let ret := (peek x a).isSome
      withDump (putCtx s h (applyOp cfg c (.suicide a))) s!"ret={ret}"
    | none => (s, "bad-op")
  | some "subrefund" =>
    match argNat? toks "g" with
    | some g =>
      let s' := putCtx s h (applyOp cfg c (.subRefund g))
      if g > x.refund then (s', "panic") else withDump s' "ok"
    | none => (s, "bad-op")
  | some "snap" =>
    let (c', id) := snapshot c
    withDump (putCtx s h c') s!"id={id}"
  | some "revert" =>
    match argNat? toks "id" with
    | some id =>
      match revertTo c id with
      | none => (s, "panic")
      | some c' => withDump (putCtx s h c') "ok"
    | none => (s, "bad-op")
  | some "copy" =>
    match argNat? toks "to" with
    | some n =>
      if (getH s n).isSome then (s, "bad-op")
      else
        let (c', y) := copy cfg c
        let s1 := putCtx s h c'
        withDump { s1 with states := insertH s1.states n y, hdb := (n, dbOf s1 h) :: s1.hdb } "ok"
    | none => (s, "bad-op")
  | some "root" =>
    match argNat? toks "del" with
    | some d =>
      let c' := finalise (d == 1) c
      let (s1, cl) := classOf (putCtx s h c') c'.st
      withDump s1 cl
    | none => (s, "bad-op")
  | some "commit" =>
    match argNat? toks "del" with
    | some d =>
      let c' := commit (d == 1) c
      let (s1, cl) := classOf (putCtx s h c') c'.st
      let di := dbInfo s1 (dbOf s1 h)
      let di' : DbInfo := { height := di.height + 1, kvh := if s1.mode == 3 then di.height + 1 else di.kvh,
                            tries := (di.height + 1, c'.st.trie) :: di.tries.filter (·.1 != di.height + 1), cur := c'.st.trie }
      withDump { setDb s1 (dbOf s1 h) di' with commits := s1.commits ++ [c'.st.trie] } cl
    | none => (s, "bad-op")
  | some "reset" =>
    match arg? toks "to" with
    | none => (s, "bad-op")
    | some to =>
      let di := dbInfo s (dbOf s h)
      let unknown := to != "bad" && to != "-" && (match to.toNat? with
        | none => true
        | some j => j ≥ s.commits.length)
      if unknown then (s, "bad-op")
      else if s.mode ≥ 2 then
        -- flat kv: OpenTrie ignores the root, the state reads the database as it is
        withDump (putCtx s h (ctxOf s (resetTo di.cur x))) "ok"
      else if to == "bad" then withDump s "err"
      else if to == "-" then withDump (putCtx s h (ctxOf s (resetTo (fun _ => none) x))) "ok"
      else
        match to.toNat? with
        | none => (s, "bad-op")
        | some j =>
          match s.commits[j]? with
          | none => (s, "bad-op")
          | some t => withDump (putCtx s h (ctxOf s (resetTo t x))) "ok"
  | some "reopen" =>
    let di := dbInfo s (dbOf s h)
    let t := if s.mode ≥ 2 then di.cur else trieAt di di.height
    withDump (putCtx s h (ctxOf s (openAt t))) "ok"
  | some "rollback" =>
    let d := dbOf s h
    let di := dbInfo s d
    -- CanRollBackOneBlock: height > 0 and (the undo log belongs to this height, or there is no undo-log file: every mode but 3)
    let can := decide (di.height > 0) && (if s.mode == 3 then di.kvh == di.height else true)
    let di1 : DbInfo := if can then { di with height := di.height - 1 } else di
    -- reopening at `height`: mode 3 replays the undo log when it belongs to height+1
    let di2 : DbInfo := if s.mode == 3 && di1.kvh == di1.height + 1 then { di1 with cur := trieAt di1 di1.height } else di1
    let t := if s.mode ≥ 2 then di2.cur else trieAt di2 di2.height
    let dbs := if s.mode == 3 then "same" else "na"
    withDump (putCtx (setDb s d di2) h (ctxOf s (openAt t))) s!"rolled={can} db={dbs}"
  | _ =>
    match parseMut toks with
    | some op => withDump (putCtx s h (applyOp cfg c op)) "ok"
    | none => (s, "bad-op")

def step (s : St) (toks : List String) : St × String :=
  match toks with
  | "case" :: _ =>
    let m := (argNat? toks "mode").getD 0
    ({ mode := m, states := [(0, State.empty)], hdb := [(0, 0)], nextDb := 1 }, "ok")
  | "new" :: _ =>
    match argNat? toks "h" with
    | some h => if (getH s h).isSome then (s, "bad-op") else withDump { s with states := insertH s.states h State.empty, hdb := (h, s.nextDb) :: s.hdb, nextDb := s.nextDb + 1 } "ok"
    | none => (s, "bad-op")
  | _ =>
    match argNat? toks "h" with
    | none => (s, "bad-op")
    | some h =>
      match getH s h with
      | none => (s, "bad-op")
      | some x => stepOn s h x toks

def machine : Machine := { σ := St, init := {}, step := step }

end Driver.C09
