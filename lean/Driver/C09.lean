import Driver.Common
import LinkVerif.Model.StateDB
import LinkVerif.Gen.C09Facts

namespace Driver.C09
open Go.Proto Model.StateDB Driver

abbrev Content := List (Option (Nat × Nat × Int × List (Option Int) × List (Option Bytes) × Bytes))

structure St where
  heap : Ref → TokMap := fun _ => emptyToks
  nextRef : Nat := 0
  states : List (Nat × State) := []      -- live handles, ascending
  classes : List Content := []
  mode : Nat := 0

/-- the model is instantiated from what the extractor sees in the tree NOW (T2): a repaired tree is compared with the repaired model -/
def cfg : Cfg := { cloneTokens := Gen.C09Facts.deepCopyClonesTokens, journalAbsent := !Gen.C09Facts.zeroInsertBeforeJournal }

def getH (s : St) (h : Nat) : Option State := (s.states.find? (·.1 == h)).map (·.2)

def insertH (l : List (Nat × State)) (h : Nat) (x : State) : List (Nat × State) :=
  match l with
  | [] => [(h, x)]
  | (k, y) :: rest => if h < k then (h, x) :: (k, y) :: rest else if h = k then (h, x) :: rest else (k, y) :: insertH rest h x

def ctxOf (s : St) (x : State) : Ctx := { heap := s.heap, nextRef := s.nextRef, st := x }
def putCtx (s : St) (h : Nat) (c : Ctx) : St := { s with heap := c.heap, nextRef := c.nextRef, states := insertH s.states h c.st }

def showLog (l : Log) : String := s!"{l.data}.{l.index}.{l.txIndex}"

def showAcct (heap : Ref → TokMap) (s : State) (a : Addr) : String :=
  match peek s a with
  | none => "-"
  | some o =>
    let m := tokMapOf heap o
    let tbs := ":".intercalate (tokU.map (fun t => toString ((m t).getD 0)))
    let tbl := (if o.balance > 0 then [s!"0={o.balance}"] else []) ++
      tokU.filterMap (fun t => match m t with
        | some v => if v > 0 then some s!"{t}={v}" else none
        | none => none)
    let tb := if tbl.isEmpty then "-" else "+".intercalate tbl
    let stor := ":".intercalate (keyU.map (fun k => hexEncode (getState o k)))
    let f := (if o.suicided then "S" else "") ++ (if o.isEmpty then "E" else "")
    let f := if f.isEmpty then "-" else f
    s!"{o.nonce},{o.credits},{o.balance},{tbs},{tb},{hexEncode o.code},K,{o.code.length},{stor},{f}"

def showState (heap : Ref → TokMap) (h : Nat) (s : State) : String :=
  let logs := "|".intercalate ([0, 1, 2].map (fun x => ",".intercalate ((s.logs x).map showLog)))
  let accts := "/".intercalate (addrU.map (showAcct heap s))
  s!"h{h}[r={s.refund};L={logs};{accts}]"

def dump (s : St) : String := " ".intercalate (s.states.map (fun (h, x) => showState s.heap h x))

def withDump (s : St) (res : String) : St × String := (s, res ++ " | " ++ dump s)

def classOf (s : St) (x : State) : St × String :=
  if s.mode ≠ 0 then (s, "class=na")
  else
    let c := rootContent x
    match s.classes.findIdx? (· == c) with
    | some k => (s, s!"class={k}")
    | none => ({ s with classes := s.classes ++ [c] }, s!"class={s.classes.length}")

/-- ops of the form `name h=H a=A …` that are plain mutators -/
def parseMut (toks : List String) : Option Op := do
  let name ← toks.head?
  match name with
  | "addbal" => some (.addBal (← argNat? toks "a") (← argInt? toks "v"))
  | "subbalx" => some (.subBal (← argNat? toks "a") (← argInt? toks "v"))
  | "setbal" => some (.setBal (← argNat? toks "a") (← argInt? toks "v"))
  | "addtok" => some (.addTok (← argNat? toks "a") (← argNat? toks "t") (← argInt? toks "v"))
  | "subtokx" => some (.subTok (← argNat? toks "a") (← argNat? toks "t") (← argInt? toks "v"))
  | "settok" => some (.setTok (← argNat? toks "a") (← argNat? toks "t") (← argInt? toks "v"))
  | "setnonce" => some (.setNonce (← argNat? toks "a") (← argNat? toks "n"))
  | "setcode" => some (.setCode (← argNat? toks "a") (← argHex? toks "code"))
  | "setstate" => some (.setState (← argNat? toks "a") (← argNat? toks "k") (← argHex? toks "v"))
  | "create" => some (.create (← argNat? toks "a"))
  | "addlog" => some (.addLog (← argNat? toks "d"))
  | "addrefund" => some (.addRefund (← argNat? toks "g"))
  | "prepare" => some (.prepare (← argNat? toks "x") (← argNat? toks "i"))
  | _ => none

def balOf (s : St) (x : State) (a : Addr) (t : Tok) : Int :=
  match peek x a with
  | none => 0
  | some o => tokenBalanceOf s.heap o t

def stepOn (s : St) (h : Nat) (x : State) (toks : List String) : St × String :=
  let c := ctxOf s x
  match toks.head? with
  | some "subbal" =>
    match argNat? toks "a", argInt? toks "v" with
    | some a, some v =>
      if balOf s x a 0 < v then withDump s "skip" else withDump (putCtx s h (applyOp cfg c (.subBal a v))) "ok"
    | _, _ => (s, "bad-op")
  | some "subtok" =>
    match argNat? toks "a", argNat? toks "t", argInt? toks "v" with
    | some a, some t, some v =>
      if balOf s x a t < v then withDump s "skip" else withDump (putCtx s h (applyOp cfg c (.subTok a t v))) "ok"
    | _, _, _ => (s, "bad-op")
  | some "suicide" =>
    match argNat? toks "a" with
    | some a =>
      let ret := (peek x a).isSome
      withDump (putCtx s h (applyOp cfg c (.suicide a))) s!"ret={ret}"
    | none => (s, "bad-op")
  | some "subrefund" =>
    match argNat? toks "g" with
    | some g =>
      let s' := putCtx s h (applyOp cfg c (.subRefund g))
      if g > x.refund then (s', "panic") else withDump s' "ok"
    | none => (s, "bad-op")
  | some "snap" =>
    let (c', id) := snapshot c
    withDump (putCtx s h c') s!"id={id}"
  | some "revert" =>
    match argNat? toks "id" with
    | some id =>
      match revertTo c id with
      | none => (s, "panic")
      | some c' => withDump (putCtx s h c') "ok"
    | none => (s, "bad-op")
  | some "copy" =>
    match argNat? toks "to" with
    | some n =>
      if (getH s n).isSome then (s, "bad-op")
      else
        let (c', y) := copy cfg c
        let s1 := putCtx s h c'
        withDump { s1 with states := insertH s1.states n y } "ok"
    | none => (s, "bad-op")
  | some "root" =>
    match argNat? toks "del" with
    | some d =>
      let c' := finalise (d == 1) c
      let (s1, cl) := classOf (putCtx s h c') c'.st
      withDump s1 cl
    | none => (s, "bad-op")
  | some "commit" =>
    match argNat? toks "del" with
    | some d =>
      let c' := commit (d == 1) c
      let (s1, cl) := classOf (putCtx s h c') c'.st
      withDump s1 cl
    | none => (s, "bad-op")
  | _ =>
    match parseMut toks with
    | some op => withDump (putCtx s h (applyOp cfg c op)) "ok"
    | none => (s, "bad-op")

def step (s : St) (toks : List String) : St × String :=
  match toks with
  | "case" :: _ =>
    let m := (argNat? toks "mode").getD 0
    ({ mode := m, states := [(0, State.empty)] }, "ok")
  | "new" :: _ =>
    match argNat? toks "h" with
    | some h => if (getH s h).isSome then (s, "bad-op") else withDump { s with states := insertH s.states h State.empty } "ok"
    | none => (s, "bad-op")
  | _ =>
    match argNat? toks "h" with
    | none => (s, "bad-op")
    | some h =>
      match getH s h with
      | none => (s, "bad-op")
      | some x => stepOn s h x toks

def machine : Machine := { σ := St, init := {}, step := step }

end Driver.C09
