import Driver.Common
import LinkVerif.Model.ValSet

namespace Driver.C17
open Go.Proto Model.ValSet Driver

/-- `none` = the implementation would have panicked; the case is over until the next `new` -/
structure St where
  vs : Option VS := none
  classes : List (List (Nat × Int)) := []

def showAddr (a : Nat) : String := natToHexPad a 40

def showVS (vs : VS) : String :=
  let prop := match getProposer vs with | some a => showAddr a | none => "nil"
  s!"prop={prop} addrs={",".intercalate (vs.vals.map (fun v => showAddr v.addr))} powers={showInts (vs.vals.map (·.power))} accums={showInts (vs.vals.map (·.accum))} total={totalPower vs.vals}"

def parseVals (toks : List String) : Option (List Val) := do
  let addrs ← argHexes? toks "addrs"
  let powers ← argInts? toks "powers"
  let accums := (argInts? toks "accums").getD (powers.map (fun _ => 0))
  if addrs.length ≠ powers.length || accums.length ≠ powers.length then none
  else
    some ((addrs.zip (powers.zip accums)).map (fun (a, p, c) => { addr := bytesToNat a, power := p, accum := c }))

/-- `n` single steps, counting how often each validator (by position) was the proposer -/
def runCount : Nat → VS → List Int → Option (VS × List Int)
  | 0, vs, cs => some (vs, cs)
  | n + 1, vs, cs =>
    match incr1 vs with
    | none => none
    | some vs' =>
      let p := getProposer vs'
      runCount n vs' ((vs'.vals.zip cs).map (fun (v, c) => if some v.addr = p then c + 1 else c))

def stepVS (s : Option VS) (toks : List String) : Option VS × String :=
  match toks with
  | "new" :: _ =>
    match parseVals toks with
    | none => (none, "bad-op")
    | some vals =>
      match newVS vals with
      | none => (none, "panic")
      | some vs => (some vs, showVS vs)
  | "raw" :: _ =>   -- a set given as is (already sorted by the harness), no rotation
    match parseVals toks with
    | none => (none, "bad-op")
    | some vals => let vs : VS := { vals := vals, proposer := none }; (some vs, showVS vs)
  | op :: _ =>
    match s with
    | none => (none, "dead")
    | some vs =>
      match op with
      | "copy" => (s, showVS vs)
      | "run" =>
        match argNat? toks "n" with
        | none => (s, "bad-op")
        | some n =>
          match runCount n vs (vs.vals.map (fun _ => 0)) with
          | none => (none, "panic")
          | some (vs', cs) => (some vs', s!"counts={showInts cs} " ++ showVS vs')
      | "incr" =>
        match argInt? toks "times" with
        | none => (s, "bad-op")
        | some t =>
          match incrBulk t vs with
          | none => (none, "panic")
          | some vs' => (some vs', showVS vs')
      | "add" | "update" =>
        match parseVals toks with
        | some [v] =>
          let (vs', ok) := if op == "add" then add vs v else update vs v
          (some vs', s!"ok={ok} " ++ showVS vs')
        | _ => (s, "bad-op")
      | "remove" =>
        match argHex? toks "addr" with
        | none => (s, "bad-op")
        | some a =>
          let (vs', ok) := remove vs (bytesToNat a)
          (some vs', s!"ok={ok} " ++ showVS vs')
      | "next" =>
        match parseVals toks with
        | none => (s, "bad-op")
        | some cands =>
          match nextValSet vs cands with
          | none => (none, "panic")
          | some vs' => (some vs', showVS vs')
      | "show" => (s, showVS vs)
      | _ => (s, "bad-op")
  | [] => (s, "bad-op")

def step (s : St) (toks : List String) : St × String :=
  match toks with
  | "case" :: _ => ({}, "ok")
  | ["hashclass"] =>
    match s.vs with
    | none => (s, "dead")
    | some vs =>
      let c := content vs
      match s.classes.findIdx? (· == c) with
      | some k => (s, s!"class={k}")
      | none => ({ s with classes := s.classes ++ [c] }, s!"class={s.classes.length}")
  | _ =>
    let (vs', ans) := stepVS s.vs toks
    ({ s with vs := vs' }, ans)

def machine : Machine := { σ := St, init := {}, step := step }

end Driver.C17
