import Driver.Common
import LinkVerif.Model.Conn
import LinkVerif.Model.ConnCfg

namespace Driver.C18
open Go.Proto Model.Conn Driver

/-! canonicalisation shared with harness/c18: byte-string specs `kind:seed:len` and the FNV-1a digest -/

def genR : Nat → UInt64 → List UInt8 → List UInt8
  | 0, _, acc => acc.reverse
  | n + 1, x, acc =>
    let x' := (x * 1103515245 + 12345) % 2147483648
    genR n x' (UInt8.ofNat ((x' / 65536).toNat % 256) :: acc)

def genZ (seed n : Nat) : List UInt8 := (List.range n).map (fun i => UInt8.ofNat (seed + (i % 13) * 17))

def genBytes (kind : String) (seed n : Nat) : List UInt8 :=
  if kind == "z" then genZ seed n else genR n (UInt64.ofNat (seed % 2147483648)) []

structure Spec where
  kind : String
  seed : Nat
  n : Nat

def parseSpecL : List String → Option Spec
  | [k, s, n] => do
    let s ← s.toNat?
    let n ← n.toNat?
    if k == "r" || k == "z" then some ⟨k, s, n⟩ else none
  | _ => none

def parseSpec (s : String) : Option Spec := parseSpecL (s.splitOn ":")

def Spec.bytes (s : Spec) : List UInt8 := genBytes s.kind s.seed s.n

def fnvAdd (h : UInt64) (bs : List UInt8) : UInt64 :=
  bs.foldl (fun h b => (h ^^^ b.toUInt64) * 1099511628211) h

def fnvOff : UInt64 := 14695981039346656037

def fnvU32 (h : UInt64) (n : Nat) : UInt64 := fnvAdd h (be32 n)

def fnvHex (h : UInt64) : String := natToHexPad h.toNat 16

def fnvOf (bs : List UInt8) : String := fnvHex (fnvAdd fnvOff bs)

/-- the frame constants come from the extractor (Gen.ConnFacts), so the model runs with the tree's values -/
def cfg : FrameCfg := genCfg

/-- the driver's codec: identity for what the model itself writes; for injected payloads the op line carries what the
real library decodes them to (the harness checks that claim against snappy), kept in `tbl` -/
def boxTag (idx : Nat) : Bytes := be32 idx ++ List.replicate 12 0xAA

/-- the driver's stand-in for a payload sealed for receive index `idx` (same length as the real one: plaintext + 16) -/
def sealM (idx : Nat) (plain : Bytes) : Bytes := plain ++ boxTag idx

def codec (tbl : List (Bytes × Option Bytes)) (ann : List (Bytes × Nat) := []) : Codec :=
  { enc := id, dec := fun p => match tbl.lookup p with | some r => r | none => some p,
    openBox := fun k p => if p.length ≥ 16 && p.drop (p.length - 16) == boxTag k then some (p.take (p.length - 16)) else none,
    -- snappy.DecodedLen: stated by the op line (`ann=`), else the length of what the payload is stated to decode to, else (the
    -- model's own identity-coded frames) the payload length
    announced := fun p => match ann.lookup p with
      | some a => a
      | none => match tbl.lookup p with
        | some (some b) => b.length
        | some none => 0
        | none => p.length }

structure St where
  live : Bool := false
  /-- reader of side a / side b -/
  ra : Reader := {}
  rb : Reader := {}
  tbl : List (Bytes × Option Bytes) := []
  ann : List (Bytes × Nat) := []
  /-- side a is the harness's hand-made peer: it has no SecretConnection to write or read with -/
  hand : Bool := false
  /-- the transport of side a / b refused a write: every later Write on it fails -/
  deadA : Bool := false
  deadB : Bool := false
  sw : Option SwitchState := none
  ever : List Nat := []

def errName : RErr → String
  | .eof => "eof" | .type => "type" | .length => "length" | .short => "short"
  | .decode => "decode" | .decrypt => "decrypt" | .chunklen => "chunklen"

def hex2 (b : UInt8) : String := natToHexPad b.toNat 2

/-- frames (header byte, chunk length) of the chunks that are written before the first one that does not fit -/
def framesOf (cd : Codec) : List Bytes → List String
  | [] => []
  | c :: cs => if (frameOf cfg cd c).length > cfg.frameCapacity then [] else s!"{hex2 cfg.leading}:{c.length}" :: framesOf cd cs

def stepStream (s : St) (toks : List String) : St × String :=
  match toks with
  | "sc" :: _ => ({ live := true }, "ok")
  | "scp" :: _ => ({ live := true, hand := true }, "ok")
  | "maxenc" :: _ =>
    match argNat? toks "n" with
    | some n => (s, s!"v={maxEncodedLen n}")
    | none => (s, "bad-op")
  | op :: _ =>
    if !s.live then (s, "dead") else
    let side := (arg? toks "side").getD "a"
    match op with
    | "seal" =>
      if !s.hand then (s, "dead") else
      match argNat? toks "idx", argNat? toks "lf", (arg? toks "d").bind parseSpec with
      | some idx, some lf, some sp =>
        let plain0 := be32 lf ++ sp.bytes
        let plain := match argNat? toks "short" with | some k => plain0.take k | none => plain0
        let sealed0 := sealM idx plain
        let sealed1 := if (arg? toks "flip").isSome then sealed0.take (sealed0.length - 1) ++ [0x00] else sealed0
        let sealed := sealed1.take (sealed1.length - (argNat? toks "cut").getD 0)
        let raw := (0xFE : UInt8) :: (be32 sealed.length ++ sealed)
        ({ s with rb := { s.rb with wire := s.rb.wire ++ raw } }, "ok")
      | _, _, _ => (s, "bad-op")
    | "wf" =>
      match (arg? toks "d").bind parseSpec, argNat? toks "k" with
      | some sp, some k =>
        if side == "a" && s.hand then (s, "dead") else
        if (side == "a" && s.deadA) || (side != "a" && s.deadB) then (s, "n=0 err=write") else
        let (w, n, ok) := writeUpTo cfg (codec s.tbl) k sp.bytes
        let s1 := if side == "a" then { s with rb := { s.rb with wire := s.rb.wire ++ w }, deadA := !ok || s.deadA }
                  else { s with ra := { s.ra with wire := s.ra.wire ++ w }, deadB := !ok || s.deadB }
        -- the transport stays armed: a write that passed leaves it with fewer frames to go; the harness re-arms per op
        (s1, s!"n={n} err={if ok then "none" else "write"}")
      | _, _ => (s, "dead")
    | "w" =>
      if side == "a" && s.hand then (s, "dead") else
      if (side == "a" && s.deadA) || (side != "a" && s.deadB) then
        (if (arg? toks "d").bind parseSpec |>.isSome then (s, "n=0 err=write frames=- fit=true") else (s, "dead")) else
      match (arg? toks "d").bind parseSpec with
      | none => (s, "dead")
      | some sp =>
        let data := sp.bytes
        let cd := codec s.tbl
        let cs := chunks cfg.dataMaxSize data
        let (w, n, ok) := write cfg cd data
        let fr := framesOf cd cs
        let frs := if fr.isEmpty then "-" else ",".intercalate fr
        -- the bound every written frame must respect, for ANY compressor within snappy's MaxEncodedLen
        let fit := cs.all (fun c => cfg.headerSize + maxEncodedLen c.length ≤ cfg.frameCapacity)
        let s' := if side == "a" then { s with rb := { s.rb with wire := s.rb.wire ++ w } }
                  else { s with ra := { s.ra with wire := s.ra.wire ++ w } }
        (s', s!"n={n} err={if ok then "none" else "write"} frames={frs} fit={fit}")
    | "r" =>
      match argNat? toks "n" with
      | none => (s, "bad-op")
      | some n =>
        if side == "a" && s.hand then (s, "dead") else
        let r := if side == "a" then s.ra else s.rb
        let big : Bool := decide (readAlloc cfg (codec s.tbl s.ann) r > 1048576)
        let (r', res) := read cfg (codec s.tbl s.ann) r n
        let s' := if side == "a" then { s with ra := r' } else { s with rb := r' }
        match res with
        | .ok b => (s', s!"n={b.length} err=none d={fnvOf b} big={big}")
        | .error e => (s', s!"n=0 err={errName e} d={fnvOf []} big={big}")
    | "inj" =>
      match argHex? toks "hdr", argNat? toks "len", argHex? toks "pay", arg? toks "dec" with
      | some [h], some l, some pay, some claim =>
        let dec : Option (Option Bytes) :=
          if claim == "err" then some none else (parseSpec claim).map (fun sp => some sp.bytes)
        match dec with
        | none => (s, "bad-op")
        | some d =>
          let raw := h :: (be32 l ++ pay)
          let tbl := if l ≤ pay.length then (pay.take l, d) :: s.tbl else s.tbl
          let ann := match argNat? toks "ann" with
            | some a => if l ≤ pay.length then (pay.take l, a) :: s.ann else s.ann
            | none => s.ann
          let s' := if side == "a" then { s with ra := { s.ra with wire := s.ra.wire ++ raw }, tbl := tbl, ann := ann }
                    else { s with rb := { s.rb with wire := s.rb.wire ++ raw }, tbl := tbl, ann := ann }
          (s', "ok")
      | _, _, _, _ => (s, "bad-op")
    | _ => (s, "bad-op")
  | [] => (s, "bad-op")

/-! ## mux -/

structure ChanCfg where
  id : Nat
  prio : Nat
  cap : Nat
  qcap : Nat

def parseChans (s : String) : Option (List ChanCfg) :=
  (splitComma s).mapM fun it =>
    match (it.splitOn ":").mapM String.toNat? with
    -- zero capacity = ChannelDescriptor.FillDefaults: defaultRecvMessageCapacity (the queue capacity is not modelled)
    | some [a, b, c, d] => some ⟨a, b, if c == 0 then Gen.ConnFacts.defaultRecvMessageCapacity else c, d⟩
    | _ => none

def ch8 (n : Nat) : Chan := UInt8.ofNat n

/-- re-tabulate a channel-indexed function over the known ids (keeps closures flat) -/
@[noinline] def lookupFn {α : Type} (tbl : List (Chan × α)) (dflt : α) : Chan → α :=
  fun x => (tbl.lookup x).getD dflt

/-- NB: callers write `lookupFn (tabList ids f) dflt` so that the table is an evaluated argument of a partial application
(a helper returning the closure would be compiled at full arity and rebuild the table at every lookup) -/
def tabList {α : Type} (ids : List Chan) (f : Chan → α) : List (Chan × α) := ids.map (fun c => (c, f c))

def anyPending (ids : List Chan) (s : Sender) : Bool :=
  ids.any (fun c => !(s.chans c).sending.isEmpty || !(s.chans c).queue.isEmpty)

/-- a pseudo-random schedule derived from the op line, run until every queue is empty -/
def runAll (ids : List Chan) : Nat → UInt64 → Sender → List Packet → List Packet
  | 0, _, _, acc => acc.reverse
  | fuel + 1, x, s, acc =>
    if !anyPending ids s then acc.reverse else
    let x' := (x * 6364136223846793005 + 1442695040888963407)
    let pick := ids.getD ((x' >>> 33).toNat % ids.length) 0
    match sendStep s pick with
    | (s', none) => runAll ids fuel x' s' acc
    | (s', some p) => runAll ids fuel x' { s' with chans := lookupFn (tabList ids s'.chans) {} } (p :: acc)

/-- `recvAll` packet by packet (same step function `recvPacket`), re-tabulating the receiver's buffers -/
def recvFold (ids : List Chan) (r : Receiver) (ps : List Packet) (acc : List (Chan × Bytes)) (panicAt : Option Nat := none) :
    List (Chan × Bytes) × Option MErr :=
  match ps with
  | [] => (acc.reverse, none)
  | p :: ps =>
    match recvPacket r p with
    | .error e => (acc.reverse, some e)
    | .ok (r', d) =>
      match d with
      | some x =>
        if panicAt == some acc.length then (acc.reverse, some .handlerPanic)   -- `recvAllH`, with re-tabulated buffers
        else recvFold ids { r' with recving := lookupFn (tabList ids r'.recving) [] } ps (x :: acc) panicAt
      | none => recvFold ids { r' with recving := lookupFn (tabList ids r'.recving) [] } ps acc panicAt

def delDigest (msgs : List Bytes) : String :=
  fnvHex (msgs.foldl (fun h m => fnvAdd (fnvU32 h m.length) m) fnvOff)

def merrName : MErr → String
  | .unknownch => "unknownch" | .capacity => "capacity" | .desync => "desync"
  | .pongTimeout => "pongtimeout" | .handlerPanic => "handlerpanic"

def stepMux (toks : List String) : String :=
  match (arg? toks "chans").bind parseChans, argNat? toks "maxpay", arg? toks "plan" with
  | some cs, some maxpay, some plan =>
    let ids := cs.map (fun c => ch8 c.id)
    let known : Chan → Bool := fun c => ids.contains c
    let items : Option (List (Nat × Spec)) := (splitComma plan).mapM fun it =>
      match it.splitOn ":" with
      | c :: rest => do let c ← c.toNat?; let sp ← parseSpecL rest; some (c, sp)
      | _ => none
    match items with
    | none => "bad-op"
    | some items =>
      if maxpay < 1 then "bad-op" else
      let s0 : Sender := { maxPay := maxpay, known := known, chans := fun _ => {} }
      let (s1, accs) := items.foldl (fun (acc : Sender × List (Nat × Bool)) it =>
        let (s', ok) := acc.1.send (ch8 it.1) it.2.bytes
        ({ s' with chans := lookupFn (tabList ids s'.chans) {} }, acc.2 ++ [(it.1, ok)])) (s0, [])
      let seed := (argNat? toks "seed").getD 0
      let total := items.foldl (fun a it => a + it.2.n + 2) 8
      let pkts := runAll ids (total * (ids.length + 1) * 4 + 64) (UInt64.ofNat seed) s1 []
      let r0 : Receiver := { known := known, cap := fun c => ((cs.find? (fun x => ch8 x.id == c)).map (·.cap)).getD 0, recving := fun _ => [] }
      let (dels, err) := recvFold ids r0 pkts []
      let er := match err with | none => "none" | some e => merrName e
      let per := cs.map fun c =>
        let msgs := delsOf dels (ch8 c.id)
        let mine := pkts.filter (fun p => p.ch == ch8 c.id)
        let f := if er == "none" then fnvHex (mine.foldl (fun h p => fnvAdd (fnvU32 h p.bytes.length) [p.eof]) fnvOff) else "-"
        let np := if er == "none" then mine.length else 0
        let acc : Int := if er == "none" then ((accs.filter (fun a => a.1 == c.id && a.2)).length : Nat) else -1
        s!" {c.id}:n={msgs.length},d={delDigest msgs},f={f},p={np},acc={acc}"
      s!"err={er}" ++ String.join per
  | _, _, _ => "bad-op"

def stepMraw (toks : List String) : String :=
  match (arg? toks "chans").bind parseChans, arg? toks "pk" with
  | some cs, some pk =>
    let all := cs ++ [⟨126, 1, 16, 4⟩]   -- the harness's sentinel channel is registered too
    let pkts : Option (List Packet) := (splitComma pk).mapM fun it =>
      match it.splitOn ":" with
      | c :: e :: o :: rest => do
        let c ← c.toNat?; let e ← e.toNat?; let sp ← parseSpecL rest
        some ⟨ch8 c, UInt8.ofNat e, sp.bytes, o == "1"⟩
      | _ => none
    match pkts with
    | none => "bad-op"
    | some pkts =>
      let r0 : Receiver := { known := fun c => all.any (fun x => ch8 x.id == c),
                             cap := fun c => ((all.find? (fun x => ch8 x.id == c)).map (·.cap)).getD 0, recving := fun _ => [] }
      let ids := all.map (fun c => ch8 c.id)
      let (dels, err) := recvFold ids r0 pkts [] (argNat? toks "panicat")
      let er := match err with | none => "none" | some e => merrName e
      let items := dels.map (fun d => s!"{d.1.toNat}:{d.2.length}:{fnvOf d.2}")
      s!"err={er} dels={if items.isEmpty then "-" else ",".intercalate items}"
  | _, _ => "bad-op"

def bits (bs : List Bool) : String := String.ofList (bs.map (fun b => if b then '1' else '0'))

/-- TrySend / CanSend against a stuck send routine: the first message is in `sending` (partly cut), the queue is empty -/
def stepMtry (toks : List String) : String :=
  match argNat? toks "qcap", argNat? toks "first", argNat? toks "n", argNat? toks "len", argNat? toks "seed" with
  | some q, some l0, some k, some l, some seed =>
    if q < 1 || l0 < 70000 || l < 1 then "bad-op" else
    let c : Chan := 1
    let m0 := genBytes "r" seed l0
    let s0 : Sender := { maxPay := 1024, known := fun x => x == c, chans := fun _ => {} }
    let (s1, _) := s0.trySend q c m0
    -- the send routine took m0 out of the queue and is blocked in the middle of it
    let s2 : Sender := { s1 with chans := lookupFn [(c, ({ queue := [], sending := m0.drop 1024 } : SChan))] {} }
    let step := fun (acc : Sender × List Bool × List Bool × List Bytes) (i : Nat) =>
      let (s, tr, cn, sent) := acc
      let m := genBytes "r" (seed + 1 + i) l
      let (s', ok) := s.trySend q c m
      let s'' : Sender := { s' with chans := lookupFn [(c, s'.chans c)] {} }
      (s'', tr ++ [ok], cn ++ [s''.canSend Gen.ConnFacts.defaultSendQueueCapacity c], if ok then sent ++ [m] else sent)
    let (s3, tr, cn, sent) := (List.range k).foldl step (s2, [], [], [m0])
    let e1 := (s3.trySend q c []).2
    let e2 := (s3.trySend q 99 [1]).2
    let e3 := s3.canSend Gen.ConnFacts.defaultSendQueueCapacity 99
    s!"err=none try={bits tr} can={bits cn} extra={e1}{e2}{e3} blocked=false n={sent.length} d={delDigest sent}"
  | _, _, _, _, _ => "bad-op"

def stepMping (toks : List String) : String :=
  match arg? toks "mode" with
  | some "answer" =>
    match pongVerdict true with
    | none => "sent=true errsA=0 errsB=0 ping=true pong=true delivered=1"
    | some e => s!"err={merrName e}"
  | some "silent" =>
    match pongVerdict false with
    | some e => s!"err={merrName e} errs=1 running=false"
    | none => "err=none errs=0 running=true"
  | _ => "bad-op"

/-! ## handshake scenarios: what the man in the middle does to the four messages, in the term model -/

def kA : Key := 1
def kB : Key := 2
def kM : Key := 3
def eA : Eph := 11
def eB : Eph := 12

def showRes (self : Key) (r : Option Key) : String :=
  match r with
  | none => "fail"
  | some k => if k == kA then "ok:A" else if k == kB then "ok:B" else if k == kM then "ok:M" else
    if k == self then "ok:self" else "ok:other"

/-- `toA`/`toB`: what reaches A / B as (eph, auth) given the honest messages of the other side -/
def stepHS (toks : List String) : String :=
  let scen := (arg? toks "scen").getD ""
  let dir := (arg? toks "dir").getD ""
  let msg := (arg? toks "msg").getD ""
  let hits (d : String) : Bool := dir == d || dir == "both"
  -- eph keys as delivered
  let ephToB : Option Eph :=
    if scen == "flip" && msg == "ephAB" then some 91        -- a changed key (or an undecodable one: same outcome)
    else if scen == "ephsub" && hits "AB" then some 92
    else if scen == "drop" && msg == "ephAB" then none
    else some eA
  let ephToA : Option Eph :=
    if scen == "flip" && msg == "ephBA" then some 93
    else if scen == "ephsub" && hits "BA" then some 94
    else if scen == "drop" && msg == "ephBA" then none
    else if scen == "reflect" then some eA
    else if scen == "replay" then some 95
    else if scen == "replayeph" then some 22
    else if scen == "mitmfull" then some 96
    else some eB
  let ra := respond kA eA ephToA
  let rb := respond kB eB ephToB
  let chalOfSession : Chal := mkChal eA eB
  let tamper (d : String) (m : Option AuthMsg) : Option AuthMsg :=
    match m with
    | none => none
    | some a =>
      if scen == "flip" && msg == "auth" ++ d then none
      else if scen == "drop" && (msg == "auth" ++ d) then none
      else if scen == "keysub" && hits d then some ⟨some kM, a.sig⟩
      else if scen == "sigonly" && hits d then some ⟨a.key, .good ⟨kM, chalOfSession⟩⟩
      else if scen == "sigsub" && hits d then some ⟨some kM, .good ⟨kM, chalOfSession⟩⟩
      else if scen == "wrongchal" && hits d then some ⟨some kM, .good ⟨kM, mkChal 97 98⟩⟩
      else if scen == "nilkey" && hits d then some ⟨none, a.sig⟩
      else if scen == "nilsig" && hits d then some ⟨a.key, .junk⟩
      else if scen == "wrongtype" && hits d then some ⟨some 77, .junk⟩
      else some a
  let authA := ra.map (·.2)
  let authB := rb.map (·.2)
  -- a party that never got a decodable eph key sends no auth message; the other side then gets nothing
  let authToB : Option AuthMsg :=
    if scen == "swap" then authB else tamper "AB" authA
  let authToA : Option AuthMsg :=
    if scen == "swap" then authA
    else if scen == "reflect" then authA
    else if scen == "replay" || scen == "replayeph" then some ⟨some kB, .good ⟨kB, mkChal 21 22⟩⟩   -- B's signature of an older session
    else if scen == "mitmfull" then (respond kM 96 (some eA)).map (·.2)
    -- `coalesce` alters no byte (only the segmentation): since fd59b35 the eph key is read with io.ReadFull, nothing is lost
    else tamper "BA" authB
  let resA := match ra with | none => none | some (c, _) => finish kA c authToA
  let resB := match rb with | none => none | some (c, _) => finish kB c authToB
  let noB := scen == "reflect" || scen == "replay" || scen == "replayeph" || scen == "mitmfull"
  s!"a={showRes kA resA} b={if noB then "-" else showRes kB resB}"

/-! ## switch admission -/

def keyOfName (n : String) : Option Key :=
  ["S", "A", "B", "C", "D", "E", "F"].findIdx? (· == n)

def nameOfKey (k : Nat) : String := ["S", "A", "B", "C", "D", "E", "F"].getD k "?"

def showPeers (s : SwitchState) : String :=
  let ns := (s.peers.map (fun p => nameOfKey p.id)).mergeSort (fun a b => a ≤ b)
  if ns.isEmpty then "-" else ",".intercalate ns

def admitErrName : AdmitErr → String
  | .handshake => "handshake" | .blacklisted => "blacklisted" | .invalid => "invalid" | .keyMismatch => "keymismatch"
  | .self => "self" | .duplicate => "duplicate" | .incompatible => "incompatible"

def stepSw (sw : Option SwitchState) (ever : List Nat) (toks : List String) : Option SwitchState × String :=
  match toks with
  | "swnew" :: _ => (some { self := 0 }, "ok")
  | op :: _ =>
    match sw with
    | none => (none, "dead")
    | some s =>
      match op with
      | "swblack" =>
        match (arg? toks "key").bind keyOfName with
        | some k => (some (s.step (.black k)), "ok")
        | none => (sw, "bad-op")
      | "swdrop" =>
        match (arg? toks "key").bind keyOfName with
        | some k => let s' := s.step (.drop k); (some s', s!"peers={showPeers s'}")
        | none => (sw, "bad-op")
      | "swsend" =>
        match (arg? toks "key").bind keyOfName, argNat? toks "ch", (arg? toks "d").bind parseSpec with
        | some k, some ch, some sp =>
          let inSet := s.peers.any (fun p => p.authKey == k)
          if !ever.contains k || ((arg? toks "stale").isNone && !inSet) then (sw, "ok=nopeer got=-")
          else
            -- peer.CanSend: a running peer and a channel some reactor registered (the queue is far from the default capacity)
            let can : Bool := inSet && [64, 65].contains ch
            if s.peerSend [64] [64, 65] k ch sp.n then (sw, s!"ok=true got={ch}:{fnvOf sp.bytes} can={can}")
            else (sw, s!"ok=false got=- can={can}")
        | _, _, _ => (sw, "bad-op")
      | "swrecv" =>
        match (arg? toks "key").bind keyOfName, argNat? toks "ch", (arg? toks "d").bind parseSpec with
        | some k, some ch, some sp =>
          match s.senderOf k with
          | none => (sw, "from=nopeer")
          | some i =>
            if [64, 65].contains ch && sp.n ≤ 4096 then (sw, s!"from={nameOfKey i} ch={ch} d={fnvOf sp.bytes} peers={showPeers s}")
            else let s' := s.step (.drop k); (some s', s!"from=none-peer-removed peers={showPeers s'}")
        | _, _, _ => (sw, "bad-op")
      | "swconn" =>
        match (arg? toks "auth").bind keyOfName, arg? toks "claim" with
        | some auth, some claim =>
          let ni : Option (Option NodeInfoM) :=
            if claim == "garbage" || claim == "silent" || claim == "stall" || (arg? toks "stall").isSome then some none
            else (keyOfName claim).map fun ck =>
              some { pubKey := ck, cacheId := ((arg? toks "cache").bind keyOfName).map idOf,
                     valid := (arg? toks "mon") != some "bad",
                     compatible := (arg? toks "net").isNone && (arg? toks "ver").isNone }
          match ni with
          | none => (sw, "bad-op")
          | some ni =>
            match admitPeer auth ni s with
            | .ok s' => (some s', s!"added=true why=none id={nameOfKey (s'.peers.getLast?.map (·.id)).get!} peers={showPeers s'}")
            | .error e => (sw, s!"added=false why={admitErrName e} id=- peers={showPeers s}")
        | _, _ => (sw, "bad-op")
      | _ => (sw, "bad-op")
  | [] => (sw, "bad-op")

def step (s : St) (toks : List String) : St × String :=
  match toks with
  | "case" :: _ => ({}, "ok")
  | "mux" :: _ => ({}, stepMux toks)
  | "mraw" :: _ => ({}, stepMraw toks)
  | "mtry" :: _ => ({}, stepMtry toks)
  | "mping" :: _ => ({}, stepMping toks)
  | "hs" :: _ => ({}, stepHS toks)
  | "swnew" :: _ | "swblack" :: _ | "swconn" :: _ | "swdrop" :: _ | "swsend" :: _ | "swrecv" :: _ =>
    let (sw', ans) := stepSw s.sw s.ever toks
    let ever := match toks with
      | "swnew" :: _ => []
      | "swconn" :: _ => if ans.startsWith "added=true" then ((arg? toks "auth").bind keyOfName).toList ++ s.ever else s.ever
      | _ => s.ever
    ({ s with sw := sw', ever := ever }, ans)
  | _ => stepStream s toks

def machine : Machine := { σ := St, init := {}, step := step }

end Driver.C18
