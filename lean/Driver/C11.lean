import Driver.Common
import LinkVerif.Model.Ser
import LinkVerif.Model.SerRoots

namespace Driver.C11
open Go.Proto Model.Rlp Model.Ser Driver

/-! descriptor / value syntax (see harness/c11/desc.go, val.go) -/

def parseNat (cs : List Char) : Option (Nat × List Char) :=
  let ds := cs.takeWhile Char.isDigit
  if ds.isEmpty then none else some (ds.foldl (fun a c => a * 10 + (c.toNat - 48)) 0, cs.dropWhile Char.isDigit)

def parseNats : Nat → List Char → Option (List Nat × List Char)
  | 0, _ => none
  | f + 1, cs =>
    match cs with
    | ')' :: r => some ([], r)
    | ',' :: r => parseNats f r
    | _ => match parseNat cs with
      | none => none
      | some (n, r) => match parseNats f r with
        | none => none
        | some (ns, r) => some (n :: ns, r)

mutual
  def parseTy : Nat → List Char → Option (Ty × List Char)
    | 0, _ => none
    | f + 1, cs =>
      match cs with
      | 'u' :: r => (parseNat r).map fun (n, r) => (.uint n, r)
      | 'i' :: r => (parseNat r).map fun (n, r) => (.int n, r)
      | 'b' :: r => some (.bool, r)
      | 'G' :: r => some (.bigptr, r)
      | 'g' :: r => some (.bigval, r)
      | 'Y' :: r => some (.bytes, r)
      | 'S' :: r => some (.string, r)
      | 'A' :: r => (parseNat r).map fun (n, r) => (.bytearr n, r)
      | 'T' :: r => some (.time, r)
      | 'M' :: r => some (.map20, r)
      | 'X' :: r => some (.unsupported, r)
      | '@' :: r => (parseNat r).map fun (n, r) => (.ref n, r)
      | 'L' :: '(' :: r => match parseTy f r with
        | some (t, ')' :: r) => some (.slice t, r)
        | _ => none
      | 'P' :: '(' :: r => match parseTy f r with
        | some (t, ')' :: r) => some (.ptr t, r)
        | _ => none
      | 'C' :: '(' :: r => match parseTy f r with
        | some (t, ')' :: r) => some (.cptr false t, r)
        | _ => none
      | 'D' :: '(' :: r => match parseTy f r with
        | some (t, ')' :: r) => some (.cptr true t, r)
        | _ => none
      | 'c' :: '(' :: r => match parseTy f r with
        | some (t, ')' :: r) => some (.cval false t, r)
        | _ => none
      | 'd' :: '(' :: r => match parseTy f r with
        | some (t, ')' :: r) => some (.cval true t, r)
        | _ => none
      | 'E' :: '(' :: r => match parseTy f r with
        | some (a, '|' :: r) => match parseTy f r with
          | some (b, ')' :: r) => some (.split a b, r)
          | _ => none
        | _ => none
      | 'R' :: r => match parseNat r with
        | some (n, '(' :: r) => match parseTy f r with
          | some (t, ')' :: r) => some (.arr n t, r)
          | _ => none
        | _ => none
      | 'Q' :: '(' :: r => (parseTys f r).map fun (ts, r) => (.struct ts, r)
      | 'I' :: '(' :: r => (parseNats (r.length + 1) r).map fun (ns, r) => (.iface ns, r)
      | _ => none
  def parseTys : Nat → List Char → Option (List Ty × List Char)
    | 0, _ => none
    | f + 1, cs =>
      match cs with
      | ')' :: r => some ([], r)
      | ',' :: r => parseTys f r
      | _ => match parseTy f cs with
        | none => none
        | some (t, r) => match parseTys f r with
          | none => none
          | some (ts, r) => some (t :: ts, r)
end

def parseTyStr (s : String) : Option Ty :=
  let cs := s.toList
  match parseTy (cs.length + 1) cs with
  | some (t, []) => some t
  | _ => none

def isHexChar (c : Char) : Bool := (hexDigit? c).isSome

def parseHexRun (cs : List Char) : Option (Bytes × List Char) :=
  let hs := cs.takeWhile isHexChar
  match hexDecodeAux hs [] with
  | some b => some (b, cs.dropWhile isHexChar)
  | none => none

def parseInt (cs : List Char) : Option (Int × List Char) :=
  match cs with
  | '-' :: r => (parseNat r).map fun (n, r) => (-(n : Int), r)
  | _ => (parseNat cs).map fun (n, r) => ((n : Int), r)

mutual
  def parseVal : Nat → List Char → Option (Val × List Char)
    | 0, _ => none
    | f + 1, cs =>
      match cs with
      | 'u' :: r => (parseNat r).map fun (n, r) => (.u n, r)
      | 'i' :: r => (parseInt r).map fun (z, r) => (.i z, r)
      | 't' :: r => some (.b true, r)
      | 'f' :: r => some (.b false, r)
      | 'n' :: r => some (.nil, r)
      | 'x' :: r => (parseHexRun r).map fun (b, r) => (.bytes b, r)
      | 'g' :: '-' :: r => (parseHexRun r).map fun (b, r) => (.big true (beVal b), r)
      | 'g' :: r => (parseHexRun r).map fun (b, r) => (.big false (beVal b), r)
      | 'T' :: r => match parseInt r with
        | some (sec, ':' :: r) => (parseInt r).map fun (ns, r) => (.time sec ns, r)
        | _ => none
      | 'p' :: '(' :: r => match parseVal f r with
        | some (v, ')' :: r) => some (.ptr v, r)
        | _ => none
      | 'l' :: '(' :: r => (parseVals f r).map fun (vs, r) => (.list vs, r)
      | 'j' :: r => match parseNat r with
        | some (k, '(' :: r) => match parseVal f r with
          | some (v, ')' :: r) => some (.iface k v, r)
          | _ => none
        | _ => none
      | 'm' :: '(' :: r => (parseKVs f r).map fun ((ks, vs), r) => (.map ks vs, r)
      | _ => none
  def parseVals : Nat → List Char → Option (List Val × List Char)
    | 0, _ => none
    | f + 1, cs =>
      match cs with
      | ')' :: r => some ([], r)
      | ',' :: r => parseVals f r
      | _ => match parseVal f cs with
        | none => none
        | some (v, r) => match parseVals f r with
          | none => none
          | some (vs, r) => some (v :: vs, r)
  def parseKVs : Nat → List Char → Option ((List Bytes × List Val) × List Char)
    | 0, _ => none
    | f + 1, cs =>
      match cs with
      | ')' :: r => some (([], []), r)
      | ',' :: r => parseKVs f r
      | _ => match parseHexRun cs with
        | some (k, ':' :: r) => match parseVal f r with
          | none => none
          | some (v, r) => match parseKVs f r with
            | none => none
            | some ((ks, vs), r) => some ((k :: ks, v :: vs), r)
        | _ => none
end

def parseValStr (s : String) : Option Val :=
  let cs := s.toList
  match parseVal (cs.length + 1) cs with
  | some (v, []) => some v
  | _ => none

def hexRaw (bs : Bytes) : String :=
  String.ofList (bs.foldr (fun b acc => hexChar (b.toNat / 16) :: hexChar (b.toNat % 16) :: acc) [])

mutual
  def showVal : Val → String
    | .u n => s!"u{n}"
    | .i z => s!"i{z}"
    | .b true => "t"
    | .b false => "f"
    | .bytes bs => "x" ++ hexRaw bs
    | .nil => "n"
    | .ptr v => "p(" ++ showVal v ++ ")"
    | .list vs => "l(" ++ showVals vs ++ ")"
    | .iface k v => s!"j{k}(" ++ showVal v ++ ")"
    | .map ks vs => "m(" ++ showKVs ks vs ++ ")"
    | .big neg n => (if neg ∧ n ≠ 0 then "g-" else "g") ++ hexRaw (natBytes n)
    | .time sec ns => s!"T{sec}:{ns}"
  def showVals : List Val → String
    | [] => ""
    | [v] => showVal v
    | v :: vs => showVal v ++ "," ++ showVals vs
  def showKVs : List Bytes → List Val → String
    | k :: ks, v :: vs => hexRaw k ++ ":" ++ showVal v ++ (if ks.isEmpty then "" else ",") ++ showKVs ks vs
    | _, _ => ""
end

mutual
  def showItem : Item → String
    | .str bs => "s" ++ hexRaw bs
    | .list is => "l(" ++ showItems is ++ ")"
  def showItems : List Item → String
    | [] => ""
    | [i] => showItem i
    | i :: is => showItem i ++ "," ++ showItems is
end

structure St where
  env : Env := {}
  encoded : Nat := 0     -- values of this case the encoder accepted (what `cenc` re-encodes concurrently)

def answerEnc (r : Except Err Bytes) : String :=
  match r with
  | .ok b => "b=" ++ hexEncode b
  | .error .panic => "panic"
  | .error .fuel => "fuel"
  | .error .unsupported => "unsupported"
  | .error _ => "err"

def step (s : St) (toks : List String) : St × String :=
  match toks with
  | "case" :: _ => ({}, "ok")
  | "reg" :: _ =>
    match argNat? toks "idx", argHex? toks "disfix", argNat? toks "ptr", argInt? toks "ty" with
    | some idx, some d, some p, some ty =>
      let e : RegEntry := { idx := idx, disfix := d, ptr := p == 1, ty := if ty < 0 then none else some ty.toNat }
      ({ s with env := { s.env with regs := s.env.regs ++ [e] } }, "ok")
    | _, _, _, _ => (s, "bad-op")
  | "def" :: _ =>
    match argNat? toks "id", (arg? toks "d").bind parseTyStr with
    | some id, some t => ({ s with env := { s.env with defs := (id, t) :: s.env.defs } }, "ok")
    | _, _ => (s, "bad-op")
  | "enc" :: _ =>
    match (arg? toks "ty").bind parseTyStr, argHex? toks "pre", (arg? toks "val").bind parseValStr with
    | some t, some pre, some v =>
      let r := encodeBytes s.env t pre v
      ({ s with encoded := s.encoded + (match r with | .ok _ => 1 | _ => 0) }, answerEnc r)
    | _, _, _ => (s, "bad-op")
  | "pin" :: _ => (s, Model.SerRoots.pinOf ((arg? toks "root").getD ""))   -- pinned descriptors of the roots covered by theorem
  | "cenc" :: _ => (s, s!"same n={s.encoded}")   -- encoding is a function of the value: concurrency cannot change it
  | "dec" :: _ =>
    match (arg? toks "ty").bind parseTyStr, argNat? toks "pre", argHex? toks "bytes" with
    | some t, some pre, some b =>
      -- via a reactor's decodeMsg: `max` is the size above which the message is refused before decoding
      if (match argNat? toks "max" with | some m => decide (b.length > m) | none => false) then (s, "err res=ok") else
      match decodeBytes s.env t (pre == 1) b with
      | .ok v => (s, "ok v=" ++ showVal v ++ " " ++ (match answerEnc (encodeBytes s.env t [] v) with
          | "panic" => "b2=panic"
          | a => if a.startsWith "b=" then "b2=" ++ (a.drop 2).toString else "b2=" ++ a) ++ " res=ok")
      | .error .panic => (s, "panic")
      | .error .fuel => (s, "fuel")
      | .error .unsupported => (s, "unsupported")
      | .error _ => (s, "err res=ok")
    | _, _, _ => (s, "bad-op")
  | "sstore" :: _ =>
    -- storage slots through the real StateDB: written as EncodeToBytes(TrimLeft(value, 0x00)), read back from a cold cache as the
    -- content of Split: the model of state_object.updateTrie / GetCommittedState (known finding: leading zeros are lost)
    match arg? toks "kv" with
    | some kv =>
      let slots : List (String × String) := (splitComma kv).filterMap fun p =>
        match p.splitOn ":" with
        | [k, v] => some (k, v)
        | _ => none
      let lastOf (k : String) : String := match (slots.reverse.find? (·.1 == k)) with | some (_, v) => v | none => ""
      let trimZ (v : String) : String :=
        match hexDecode? v with
        | some bs => hexRaw (bs.dropWhile (· == 0))
        | none => v
      let rec firstBad (i : Nat) (l : List (String × String)) : Option String :=
        match l with
        | [] => none
        | (k, _) :: r =>
          let want := lastOf k
          if trimZ want == want then firstBad (i + 1) r
          else some s!"differ slot={i} wrote={want} cold={trimZ want} warm={want}"
      (s, (firstBad 0 slots).getD "ok")
    | none => (s, "bad-op")
  | "sobj" :: _ =>
    -- the account bytes in the state trie = the encoding of the Account value (stateObject.EncodeSER encodes c.data)
    match (arg? toks "ty").bind parseTyStr, (arg? toks "val").bind parseValStr with
    | some t, some v => (s, answerEnc (encodeBytes s.env t [] v))
    | _, _ => (s, "bad-op")
  | "apitest" :: _ => (s, "ok")   -- API self-checks of the harness (no model side)
  | "regtest" :: _ => (s, "ok")   -- registry self-checks of the harness (no model side)
  | "sops" :: _ =>
    -- a program of public Stream calls on one stream: K(ind) U(int) o(Bool) B(ytes) L(ist) E(ListEnd) R(aw)
    match argHex? toks "bytes", arg? toks "lim", arg? toks "prog" with
    | some b, some ls, some prog =>
      let st0 : Option Stream :=
        if ls == "b" then some { rest := b }
        else if ls == "u" then some { rest := b, unlimited := true }
        else if ls.startsWith "l" then
          ((ls.drop 1).toString.toNat?).map fun n =>
            (if n == 0 then ({ rest := b, unlimited := true, kind := some Kind.list, size := 0 } : Stream)
             else if n ≤ b.length then { rest := b.take n, kind := some Kind.list, size := n }
             else { rest := b, phantom := n - b.length, kind := some Kind.list, size := n })
        else (ls.toNat?).map fun n =>
          (if n == 0 then ({ rest := b, unlimited := true } : Stream)
           else if n ≤ b.length then { rest := b.take n } else { rest := b, phantom := n - b.length })
      match st0 with
      | none => (s, "bad-op")
      | some st0 =>
        let showE (e : Err) : String := if e == Err.eol then "eol" else "e"
        let stepP (acc : Stream × List String) (c : Char) : Stream × List String :=
          let (st, out) := acc
          match c with
          | 'K' => match kindOf st with
            | ((_, _, some e), st) => (st, showE e :: out)
            | ((k, sz, none), st) => (st, s!"k{match k with | .byte => 0 | .string => 1 | .list => 2}:{sz}" :: out)
          | 'U' => match sUint 64 st with
            | (.error e, st) => (st, showE e :: out)
            | (.ok n, st) => (st, s!"u{n}" :: out)
          | 'o' => match sBool st with
            | (.error e, st) => (st, showE e :: out)
            | (.ok v, st) => (st, (if v then "t" else "f") :: out)
          | 'B' => match sBytes st with
            | (.error e, st) => (st, showE e :: out)
            | (.ok v, st) => (st, ("b" ++ hexRaw v) :: out)
          | 'L' => match sList st with
            | (.error e, st) => (st, showE e :: out)
            | (.ok n, st) => (st, s!"l{n}" :: out)
          | 'E' => match sListEnd st with
            | (some e, st) => (st, showE e :: out)
            | (none, st) => (st, "ok" :: out)
          | 'R' => match sRaw st with
            | (.error e, st) => (st, showE e :: out)
            | (.ok v, st) => (st, ("r" ++ hexRaw v) :: out)
          | _ => (st, "?" :: out)
        let (stF, out) := prog.toList.foldl stepP (st0, [])
        let res := if stF.alloc > 281474976710656 then "panic" else ",".intercalate out.reverse
        (s, res)
    | _, _, _ => (s, "bad-op")
  | "item" :: _ =>
    -- DecodeBytes into an empty interface{}: the generic decoder = layer 1 (`Model.Rlp.decExact`), then EncodeToBytes of it
    match argHex? toks "bytes" with
    | some b => match decExact b with
      | .ok i => (s, "ok t=" ++ showItem i ++ " b2=" ++ hexEncode (enc i))
      | .error _ => (s, "err")
    | none => (s, "bad-op")
  | "split" :: _ =>
    -- raw.go: Split, SplitString, SplitList, CountValues on the same bytes; x=agree: the Stream parser says the same
    match argHex? toks "bytes" with
    | some b =>
      let okS (r : Except Err (Bytes × Bytes)) : String := match r with | .ok _ => "ok" | .error _ => "err"
      let cv := match countValues (b.length + 1) b with | .ok n => toString n | .error _ => "err"
      let tail := s!" ss={okS (splitString b)} sl={okS (splitList b)} cv={cv} x=agree"
      match split b with
      | .ok (k, c, r) =>
        let kn := match k with | .byte => 0 | .string => 1 | .list => 2
        (s, s!"ok k={kn} c={hexEncode c} r={hexEncode r}" ++ tail)
      | .error _ => (s, "err" ++ tail)
    | none => (s, "bad-op")
  | "wenc" :: _ =>
    -- the io.Writer entry points on a writer that takes `cap` bytes and then fails
    match (arg? toks "ty").bind parseTyStr, argHex? toks "pre", (arg? toks "val").bind parseValStr, argNat? toks "cap" with
    | some t, some pre, some v, some cap =>
      match encodeBytes s.env t pre v with
      | .ok b => if b.length ≤ cap then (s, s!"ok n={b.length} pfx=ok") else (s, s!"err n={cap} pfx=ok")
      | .error .panic => (s, "panic")
      | .error .fuel => (s, "fuel")
      | .error .unsupported => (s, "unsupported")
      | .error _ => (s, "err n=0 pfx=ok")
    | _, _, _, _ => (s, "bad-op")
  | "rdec" :: _ =>
    -- the io.Reader entry points: lim=u (no input limit) or lim=<n> (DecodeReader[WithType] with that limit)
    match (arg? toks "ty").bind parseTyStr, argNat? toks "pre", argHex? toks "bytes", arg? toks "lim" with
    | some t, some pre, some b, some ls =>
      let lim : Option Limit := if ls == "u" then some Limit.none else (ls.toNat?).map Limit.some
      match lim with
      | none => (s, "bad-op")
      | some lim =>
        let (r, alloc) := decodeReader s.env t (pre == 1) lim b
        let res := if alloc > 67108864 + 64 * b.length then " res=alloc" else " res=ok"
        match r with
        | .ok v => (s, "ok v=" ++ showVal v ++ res)
        | .error .panic => (s, "panic")
        | .error .fuel => (s, "fuel")
        | .error .unsupported => (s, "unsupported")
        | .error _ => (s, "err" ++ res)
    | _, _, _, _ => (s, "bad-op")
  | _ => (s, "bad-op")

def machine : Machine := { σ := St, init := {}, step := step }

end Driver.C11
