import Driver.Common
import LinkVerif.Model.Ser
import LinkVerif.Model.SerRoots

namespace Driver.C11
open Go.Proto Model.Rlp Model.Ser Driver

/-! descriptor / value syntax (see harness/c11/desc.go, val.go) -/

def parseNat (cs : List Char) : Option (Nat × List Char) :=
  let ds := cs.takeWhile Char.isDigit
  if ds.isEmpty then none else some (ds.foldl (fun a c => a * 10 + (c.toNat - 48)) 0, cs.dropWhile Char.isDigit)

def parseNats : Nat → List Char → Option (List Nat × List Char)
  | 0, _ => none
  | f + 1, cs =>
    match cs with
    | ')' :: r => some ([], r)
    | ',' :: r => parseNats f r
    | _ => match parseNat cs with
      | none => none
      | some (n, r) => match parseNats f r with
        | none => none
        | some (ns, r) => some (n :: ns, r)

mutual
  def parseTy : Nat → List Char → Option (Ty × List Char)
    | 0, _ => none
    | f + 1, cs =>
      match cs with
      | 'u' :: r => (parseNat r).map fun (n, r) => (.uint n, r)
      | 'i' :: r => (parseNat r).map fun (n, r) => (.int n, r)
      | 'b' :: r => some (.bool, r)
      | 'G' :: r => some (.bigptr, r)
      | 'g' :: r => some (.bigval, r)
      | 'Y' :: r => some (.bytes, r)
      | 'S' :: r => some (.string, r)
      | 'A' :: r => (parseNat r).map fun (n, r) => (.bytearr n, r)
      | 'T' :: r => some (.time, r)
      | 'M' :: r => some (.map20, r)
      | 'X' :: r => some (.unsupported, r)
      | '@' :: r => (parseNat r).map fun (n, r) => (.ref n, r)
      | 'L' :: '(' :: r => match parseTy f r with
        | some (t, ')' :: r) => some (.slice t, r)
        | _ => none
      | 'P' :: '(' :: r => match parseTy f r with
        | some (t, ')' :: r) => some (.ptr t, r)
        | _ => none
      | 'C' :: '(' :: r => match parseTy f r with
        | some (t, ')' :: r) => some (.cptr false t, r)
        | _ => none
      | 'D' :: '(' :: r => match parseTy f r with
        | some (t, ')' :: r) => some (.cptr true t, r)
        | _ => none
      | 'c' :: '(' :: r => match parseTy f r with
        | some (t, ')' :: r) => some (.cval false t, r)
        | _ => none
      | 'd' :: '(' :: r => match parseTy f r with
        | some (t, ')' :: r) => some (.cval true t, r)
        | _ => none
      | 'E' :: '(' :: r => match parseTy f r with
        | some (a, '|' :: r) => match parseTy f r with
          | some (b, ')' :: r) => some (.split a b, r)
          | _ => none
        | _ => none
      | 'R' :: r => match parseNat r with
        | some (n, '(' :: r) => match parseTy f r with
          | some (t, ')' :: r) => some (.arr n t, r)
          | _ => none
        | _ => none
      | 'Q' :: '(' :: r => (parseTys f r).map fun (ts, r) => (.struct ts, r)
      | 'I' :: '(' :: r => (parseNats (r.length + 1) r).map fun (ns, r) => (.iface ns, r)
      | _ => none
  def parseTys : Nat → List Char → Option (List Ty × List Char)
    | 0, _ => none
    | f + 1, cs =>
      match cs with
      | ')' :: r => some ([], r)
      | ',' :: r => parseTys f r
      | _ => match parseTy f cs with
        | none => none
        | some (t, r) => match parseTys f r with
          | none => none
          | some (ts, r) => some (t :: ts, r)
end

def parseTyStr (s : String) : Option Ty :=
  let cs := s.toList
  match parseTy (cs.length + 1) cs with
  | some (t, []) => some t
  | _ => none

def isHexChar (c : Char) : Bool := (hexDigit? c).isSome

def parseHexRun (cs : List Char) : Option (Bytes × List Char) :=
  let hs := cs.takeWhile isHexChar
  match hexDecodeAux hs [] with
  | some b => some (b, cs.dropWhile isHexChar)
  | none => none

def parseInt (cs : List Char) : Option (Int × List Char) :=
  match cs with
  | '-' :: r => (parseNat r).map fun (n, r) => (-(n : Int), r)
  | _ => (parseNat cs).map fun (n, r) => ((n : Int), r)

mutual
  def parseVal : Nat → List Char → Option (Val × List Char)
    | 0, _ => none
    | f + 1, cs =>
      match cs with
      | 'u' :: r => (parseNat r).map fun (n, r) => (.u n, r)
      | 'i' :: r => (parseInt r).map fun (z, r) => (.i z, r)
      | 't' :: r => some (.b true, r)
      | 'f' :: r => some (.b false, r)
      | 'n' :: r => some (.nil, r)
      | 'x' :: r => (parseHexRun r).map fun (b, r) => (.bytes b, r)
      | 'g' :: '-' :: r => (parseHexRun r).map fun (b, r) => (.big true (beVal b), r)
      | 'g' :: r => (parseHexRun r).map fun (b, r) => (.big false (beVal b), r)
      | 'T' :: r => match parseInt r with
        | some (sec, ':' :: r) => (parseInt r).map fun (ns, r) => (.time sec ns, r)
        | _ => none
      | 'p' :: '(' :: r => match parseVal f r with
        | some (v, ')' :: r) => some (.ptr v, r)
        | _ => none
      | 'l' :: '(' :: r => (parseVals f r).map fun (vs, r) => (.list vs, r)
      | 'j' :: r => match parseNat r with
        | some (k, '(' :: r) => match parseVal f r with
          | some (v, ')' :: r) => some (.iface k v, r)
          | _ => none
        | _ => none
      | 'm' :: '(' :: r => (parseKVs f r).map fun ((ks, vs), r) => (.map ks vs, r)
      | _ => none
  def parseVals : Nat → List Char → Option (List Val × List Char)
    | 0, _ => none
    | f + 1, cs =>
      match cs with
      | ')' :: r => some ([], r)
      | ',' :: r => parseVals f r
      | _ => match parseVal f cs with
        | none => none
        | some (v, r) => match parseVals f r with
          | none => none
          | some (vs, r) => some (v :: vs, r)
  def parseKVs : Nat → List Char → Option ((List Bytes × List Val) × List Char)
    | 0, _ => none
    | f + 1, cs =>
      match cs with
      | ')' :: r => some (([], []), r)
      | ',' :: r => parseKVs f r
      | _ => match parseHexRun cs with
        | some (k, ':' :: r) => match parseVal f r with
          | none => none
          | some (v, r) => match parseKVs f r with
            | none => none
            | some ((ks, vs), r) => some ((k :: ks, v :: vs), r)
        | _ => none
end

def parseValStr (s : String) : Option Val :=
  let cs := s.toList
  match parseVal (cs.length + 1) cs with
  | some (v, []) => some v
  | _ => none

def hexRaw (bs : Bytes) : String :=
  String.ofList (bs.foldr (fun b acc => hexChar (b.toNat / 16) :: hexChar (b.toNat % 16) :: acc) [])

mutual
  def showVal : Val → String
    | .u n => s!"u{n}"
    | .i z => s!"i{z}"
    | .b true => "t"
    | .b false => "f"
    | .bytes bs => "x" ++ hexRaw bs
    | .nil => "n"
    | .ptr v => "p(" ++ showVal v ++ ")"
    | .list vs => "l(" ++ showVals vs ++ ")"
    | .iface k v => s!"j{k}(" ++ showVal v ++ ")"
    | .map ks vs => "m(" ++ showKVs ks vs ++ ")"
    | .big neg n => (if neg ∧ n ≠ 0 then "g-" else "g") ++ hexRaw (natBytes n)
    | .time sec ns => s!"T{sec}:{ns}"
  def showVals : List Val → String
    | [] => ""
    | [v] => showVal v
    | v :: vs => showVal v ++ "," ++ showVals vs
  def showKVs : List Bytes → List Val → String
    | k :: ks, v :: vs => hexRaw k ++ ":" ++ showVal v ++ (if ks.isEmpty then "" else ",") ++ showKVs ks vs
    | _, _ => ""
end

structure St where
  env : Env := {}
  encoded : Nat := 0     -- values of this case the encoder accepted (what `cenc` re-encodes concurrently)

def answerEnc (r : Except Err Bytes) : String :=
  match r with
  | .ok b => "b=" ++ hexEncode b
  | .error .panic => "panic"
  | .error .fuel => "fuel"
  | .error .unsupported => "unsupported"
  | .error _ => "err"

def step (s : St) (toks : List String) : St × String :=
  match toks with
  | "case" :: _ => ({}, "ok")
  | "reg" :: _ =>
    match argNat? toks "idx", argHex? toks "disfix", argNat? toks "ptr", argInt? toks "ty" with
    | some idx, some d, some p, some ty =>
      let e : RegEntry := { idx := idx, disfix := d, ptr := p == 1, ty := if ty < 0 then none else some ty.toNat }
      ({ s with env := { s.env with regs := s.env.regs ++ [e] } }, "ok")
    | _, _, _, _ => (s, "bad-op")
  | "def" :: _ =>
    match argNat? toks "id", (arg? toks "d").bind parseTyStr with
    | some id, some t => ({ s with env := { s.env with defs := (id, t) :: s.env.defs } }, "ok")
    | _, _ => (s, "bad-op")
  | "enc" :: _ =>
    match (arg? toks "ty").bind parseTyStr, argHex? toks "pre", (arg? toks "val").bind parseValStr with
    | some t, some pre, some v =>
      let r := encodeBytes s.env t pre v
      ({ s with encoded := s.encoded + (match r with | .ok _ => 1 | _ => 0) }, answerEnc r)
    | _, _, _ => (s, "bad-op")
  | "pin" :: _ => (s, Model.SerRoots.pinOf ((arg? toks "root").getD ""))   -- pinned descriptors of the roots covered by theorem
  | "cenc" :: _ => (s, s!"same n={s.encoded}")   -- encoding is a function of the value: concurrency cannot change it
  | "dec" :: _ =>
    match (arg? toks "ty").bind parseTyStr, argNat? toks "pre", argHex? toks "bytes" with
    | some t, some pre, some b =>
      match decodeBytes s.env t (pre == 1) b with
      | .ok v => (s, "ok v=" ++ showVal v ++ " " ++ (match answerEnc (encodeBytes s.env t [] v) with
          | "panic" => "b2=panic"
          | a => if a.startsWith "b=" then "b2=" ++ (a.drop 2).toString else "b2=" ++ a) ++ " res=ok")
      | .error .panic => (s, "panic")
      | .error .fuel => (s, "fuel")
      | .error .unsupported => (s, "unsupported")
      | .error _ => (s, "err res=ok")
    | _, _, _ => (s, "bad-op")
  | "rdec" :: _ =>
    -- the io.Reader entry points: lim=u (no input limit) or lim=<n> (DecodeReader[WithType] with that limit)
    match (arg? toks "ty").bind parseTyStr, argNat? toks "pre", argHex? toks "bytes", arg? toks "lim" with
    | some t, some pre, some b, some ls =>
      let lim : Option Limit := if ls == "u" then some Limit.none else (ls.toNat?).map Limit.some
      match lim with
      | none => (s, "bad-op")
      | some lim =>
        let (r, alloc) := decodeReader s.env t (pre == 1) lim b
        let res := if alloc > 67108864 + 64 * b.length then " res=alloc" else " res=ok"
        match r with
        | .ok v => (s, "ok v=" ++ showVal v ++ res)
        | .error .panic => (s, "panic")
        | .error .fuel => (s, "fuel")
        | .error .unsupported => (s, "unsupported")
        | .error _ => (s, "err" ++ res)
    | _, _, _, _ => (s, "bad-op")
  | _ => (s, "bad-op")

def machine : Machine := { σ := St, init := {}, step := step }

end Driver.C11
