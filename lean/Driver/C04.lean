import Driver.Common
import LinkVerif.Model.FilePV

namespace Driver.C04
open Go.Proto Model.FilePV Driver

structure DSt where
  s : St := St.init
  alive : Bool := false
  started : Bool := false
  table : List Bytes := []
  /-- which key the object, the shadow copy `pv.pv` and the key file hold: 0 = the key the file was generated with,
  k+1 = the key of `updatekey k`.  `UpdatePrikey` changes the object only; `saveSigned` writes the SHADOW (its key is the
  one loaded); `Reset` and `Save` write the OBJECT (with whatever key it has now); `LoadFilePV` sets both from the file. -/
  objKey : Nat := 0
  shadowKey : Nat := 0
  fileKey : Nat := 0

def idxOf (t : List Bytes) (b : Bytes) : String :=
  match t.findIdx? (· == b) with
  | some k => toString k
  | none => "unknown"

def showRec (t : List Bytes) (r : Rec) : String :=
  let sb := match r.sb with | some p => idxOf t p.bytes | none => "nil"
  let sg := match r.sig with | some g => idxOf t g.msg | none => "nil"
  s!"{r.hrs.h}/{r.hrs.r}/{r.hrs.s}/{sb}/{sg}"

def canonErr (s : String) : String :=
  String.ofList (s.toLower.toList.map (fun c => if c.isAlphanum then c else '-'))

def errName (code : Int) : String :=
  if code = conflictCode then "conflicting-data"
  else match Gen.FilePVCheck.errTexts[(code - 1).toNat]? with
    | some t => canonErr t
    | none => s!"code-{code}"

def showOutcome (d : DSt) (o : Outcome) : String :=
  match o with
  | .panicked => "panic"
  | .refused code => s!"err={errName code} disk={showRec d.table d.s.disk}"
  | .released sg ts post => s!"ok sig={idxOf d.table sg.msg} post={idxOf d.table post} ts={ts} disk={showRec d.table d.s.disk}"

def showBoth (d : DSt) : String := s!"mem={showRec d.table d.s.mem} disk={showRec d.table d.s.disk}"

def learn (d : DSt) (b : Bytes) : DSt :=
  if d.table.any (· == b) then d else { d with table := d.table ++ [b] }

def parsePayload (toks : List String) : Option Payload := do
  let sb ← argHex? toks "sb"
  let core ← argHex? toks "core"
  let ts ← arg? toks "ts"
  some { bytes := sb, core := core, ts := ts, ok := arg? toks "bad" != some "1" }

def parseReq (toks : List String) : Option Req := do
  let p ← parsePayload toks
  let h ← argInt? toks "h"
  let r ← argInt? toks "r"
  let s ← match toks.head? with
    | some "signprop" => some Gen.FilePVCheck.stepPropose
    | _ => (argInt? toks "type").map Gen.FilePVCheck.voteToStep
  some { hrs := ⟨h, r, s⟩, p := p, save := arg? toks "nosave" != some "1" }

def parseKill (toks : List String) : Option (String × Nat) :=
  match arg? toks "kill" with
  | none => none
  | some k => match k.splitOn ":" with
    | [name, n] => n.toNat?.map (fun n => (name, n))
    | _ => none

def stepCore (d : DSt) (toks : List String) : DSt × String :=
  match toks with
  | "case" :: _ => ({}, "ok")
  | "init" :: _ =>
    let d' : DSt := { d with s := St.init, alive := true, started := true }
    (d', showBoth d')
  | "durability" :: _ => (d, "atomic=true synced=true")
  | op :: _ =>
    if !d.started then (d, "bad-op no-init") else
    match op with
    | "show" => (d, if d.alive then showBoth d else s!"mem=none disk={showRec d.table d.s.disk}")
    | "crash" =>
      let d' := { d with s := Model.FilePV.step d.s .crash, alive := true }
      (d', showBoth d')
    | "signheartbeat" =>
      -- heartbeats keep no record; their sign-bytes are canonical JSON of another type (Props.C04.heartbeat_ne_vote …)
      (d, if d.alive then s!"ok first=brace valid=true clash=none sigclash=none {showBoth d}" else "dead")
    | "signdata" =>
      if !d.alive then (d, "dead") else
      match argHex? toks "d", arg? toks "fc" with
      | some dg, some fc =>
        -- caller-chosen bytes: SignData signs anything (an unrestricted oracle; Props.C04 open statement)
        let d := learn d dg
        (d, s!"ok first={fc} valid=true clash={idxOf d.table dg} sigclash={idxOf d.table dg} {showBoth d}")
      | _, _ => (d, s!"ok first=rlplist valid=true clash=none sigclash=none {showBoth d}")
    | "domains" => (d, "clash=none")
    | "reset" =>
      if !d.alive then (d, "dead") else
      let d' := { d with s := Model.FilePV.step d.s .reset }
      (d', showBoth d')
    | "updatekey" =>
      -- UpdatePrikey replaces the key of the OBJECT only; the shadow copy that is saved keeps the old key; the record stays
      if !d.alive then (d, "dead") else
      match argNat? toks "k" with
      | none => (d, "bad-op")
      | some k =>
        let fk := if d.fileKey = 0 then "old" else if d.fileKey = k + 1 then "new" else "other"
        ({ d with objKey := k + 1 }, s!"ok objkey=true filekey={fk} {showBoth d}")
    | "loadbad" =>
      if !d.alive then (d, "dead") else
      let r := d.s.disk
      let good := s!"{r.hrs.h}/{r.hrs.r}/{r.hrs.s}/{r.sb.isSome}/{r.sig.isSome}"
      -- the `badsig` variant renames the type tag of `last_signature`; a record without a signature has no such member
      -- (omitempty), so the file is intact and loads
      let badsig := if r.sig.isSome then "refused" else s!"loaded:{good}:same"
      (d, s!"good=loaded:{good}:same empty=refused truncated=refused cuttail=refused garbage=refused nokey=refused badsig={badsig} norecord=loaded:0/0/0/false/false:same dir=refused foreign=loaded:0/0/0/false/false:other")
    | "setrec" =>
      if !d.alive then (d, "dead") else
      match argInt? toks "lh", argInt? toks "lr", argInt? toks "ls" with
      | some lh, some lr, some ls =>
        let (d1, sb, sg) := match parsePayload toks with
          | some p => (learn d p.bytes, some p, if arg? toks "hassig" == some "0" then none else some (Sig.mk p.bytes))
          | none => (d, none, none)
        let rec' : Rec := { hrs := ⟨lh, lr, ls⟩, sb := sb, sig := sg }
        let d2 := { d1 with s := { d1.s with mem := rec', shadow := rec', disk := rec', temp := none, pc := .idle } }
        (d2, showBoth d2)
      | _, _, _ => (d, "bad-op")
    | "signvote" | "signprop" =>
      match parseReq toks with
      | none => (d, "bad-op")
      | some q =>
        let d := learn d q.p.bytes
        if !d.alive then (d, "dead") else
        match arg? toks "kill", arg? toks "fail" with
        | none, some spec =>
          -- write-error injection in a child process: "fsize:<n>" always cuts the record, "short:<k>" cuts it iff k > 0
          match spec.splitOn ":" with
          | ["nofile"] =>
            let s' := finishFailOpen 32 (Model.FilePV.step d.s (.req q))
            let d' := { d with s := s' }
            let ans := match s'.out.head? with
              | some (_, .panicked) => s!"failed disk={showRec d.table s'.disk}"
              | some (_, o) => showOutcome d' o
              | none => "bad-op no-outcome"
            ({ d' with s := Model.FilePV.step s' .crash }, ans)
          | [kind, ns] =>
            match ns.toNat? with
            | none => (d, "bad-op fail")
            | some n =>
              let fails := kind == "fsize" || (kind == "short" && n > 0)
              let s' := finishFail fails n 32 (Model.FilePV.step d.s (.req q))
              let d' := { d with s := s' }
              let ans := match s'.out.head? with
                | some (_, .panicked) => s!"failed disk={showRec d.table s'.disk}"
                | some (_, o) => showOutcome d' o
                | none => "bad-op no-outcome"
              ({ d' with s := Model.FilePV.step s' .crash }, ans)
          | _ => (d, "bad-op fail")
        | none, none =>
          let s' := call d.s q
          let d' := { d with s := s' }
          match s'.out.head? with
          | some (_, o) => (d', showOutcome d' o)
          | none => (d', "bad-op no-outcome")
        | some _, _ =>
          match parseKill toks with
          | none => (d, "bad-op kill")
          | some (name, n) =>
            let (s', killed) := finishKill name n 32 0 (Model.FilePV.step d.s (.req q))
            let d' := { d with s := s' }
            let ans := if killed then s!"killed disk={showRec d.table s'.disk}"
              else match s'.out.head? with
                | some (_, o) => showOutcome d' o
                | none => "bad-op no-outcome"
            -- the child process has ended either way: the next process starts from the key file
            ({ d' with s := Model.FilePV.step s' .crash }, ans)
    | _ => (d, "bad-op")
  | [] => (d, "bad-op")

/-- key bookkeeping around `stepCore` -/
def step (d : DSt) (toks : List String) : DSt × String :=
  let (d', ans) := stepCore d toks
  match toks with
  | "case" :: _ => (d', ans)
  | "init" :: _ => ({ d' with objKey := 0, shadowKey := 0, fileKey := 0 }, ans)
  | op :: _ =>
    if !d.started || !d.alive then (d', ans) else
    match op with
    | "crash" => ({ d' with objKey := d.fileKey, shadowKey := d.fileKey }, ans)
    | "reset" => ({ d' with fileKey := d.objKey }, ans)                                      -- Reset: pv.Save() of the object
    | "setrec" => ({ d' with fileKey := d.objKey, objKey := d.objKey, shadowKey := d.objKey }, ans)   -- harness: Save() of the object, then reload
    | "signvote" | "signprop" =>
      if (arg? toks "kill").isSome || (arg? toks "fail").isSome then
        -- the call ran in a child that loaded the file (shadow = file key) and the parent reloaded afterwards
        ({ d' with objKey := d.fileKey, shadowKey := d.fileKey }, ans)
      else if d'.s.persisted.length > d.s.persisted.length then
        ({ d' with fileKey := d.shadowKey }, ans)                                           -- saveSigned wrote the shadow copy
      else (d', ans)
    | _ => (d', ans)
  | [] => (d', ans)

def machine : Machine := { σ := DSt, init := {}, step := step }

end Driver.C04
