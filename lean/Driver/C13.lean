import Driver.Common
import LinkVerif.Model.Stores

namespace Driver.C13
open Go.Proto Model.Stores Driver

/-- chain-building ops are answered by a bookkeeping model only (ids, pending list, height): what the ledger does with
them is C06/C07's subject; here the generator only emits valid transactions -/
structure St where
  chain : Bool := false
  nextId : Nat := 0
  pending : List Nat := []
  height : Nat := 0
  pr : Option Model.Stores.St := none

def argN (toks : List String) (k : String) (d : Nat) : Nat := (argNat? toks k).getD d

def posOf (labels : List String) (p : String → Bool) : Nat :=
  match labels.findIdx? p with
  | some i => i + 1
  | none => 0

def parseSeq (s : String) : Seq :=
  let ls := s.splitOn ","
  { len := ls.length,
    txIndex := posOf ls (· == "cross.batch:Tx"),
    blockRec := posOf ls (·.startsWith "block.batch:"),
    desc := posOf ls (· == "block.Set:blockStore"),
    keyImages := posOf ls (·.startsWith "utxo.batch"),
    outputs := posOf ls (·.startsWith "utxoOutput.batch"),
    maxSeq := posOf ls (·.startsWith "utxo.Put:token_muos_") }

def bits (n : Nat) (f : Nat → Bool) : String :=
  String.ofList ((List.range n).map (fun i => if f (i + 1) then '1' else '0'))

def showLoaded (l : Loaded) (found : Nat → String) : String :=
  match l with
  | .missing => "-"
  | .panics => "P"
  | .found c => found c

def view (s : Model.Stores.St) : String :=
  let b := bits s.H (loadBlock s)
  let c := bits s.H (fun h => loadBlock s h || h == 1)
  let vals := ",".intercalate ((List.range (s.H + 1)).map (fun i => showLoaded (loadVals s (i + 1)) toString))
  let params := ",".intercalate ((List.range (s.H + 1)).map (fun i => showLoaded (loadParams s (i + 1)) (fun _ => "1")))
  s!"h={s.H} blocks={b} commits={c} seen={b} txs={b} vals={vals} params={params}"

def step (s : St) (toks : List String) : St × String :=
  match toks with
  | "case" :: _ => ({}, "ok")
  | "chain" :: _ => ({ s with chain := true }, "ok")
  | "pchain" :: _ => ({ s with pr := some {} }, "ok")
  | "grow" :: _ =>
    match s.pr with
    | none => (s, "nochain")
    | some p =>
      let chg := ((arg? toks "chg").getD "").toList
      let p' := chg.foldl (fun p c => commit p (c == '1')) p
      ({ s with pr := some p' }, s!"h={p'.H}")
  | "prune" :: _ =>
    match s.pr with
    | none => (s, "nochain")
    | some p => ({ s with pr := some (prune p (argN toks "k" 0)) }, "ok")
  | "view" :: _ =>
    match s.pr with
    | none => (s, "nochain")
    | some p => (s, view p)
  | "statuscrash" :: _ =>
    match s.pr with
    | none => (s, "nochain")
    | some p =>
      let k := argN toks "at" 1
      let p' := commit p (argN toks "chg" 0 == 1)
      let d := if statusAdvanced k then 1 else 0
      -- the restarting node reads the persisted status (old or new) and the records of the height after it
      let q := if statusAdvanced k then p' else p
      let vals := if statusAdvanced k && !nextRecords k then "-" else showLoaded (loadVals q (q.H + 1)) toString
      let params := if statusAdvanced k && !nextRecords k then "-" else showLoaded (loadParams q (q.H + 1)) (fun _ => "1")
      ({ s with pr := some p' }, s!"status=+{d} writes={statusWrites p'.H} vals={vals} params={params}")
  | op :: _ =>
    if !s.chain then (s, "nochain")
    else
      match op with
      | "xfer" | "xfertok" | "call" | "ain" | "uu" | "ua" =>
        ({ s with nextId := s.nextId + 1, pending := s.pending ++ [s.nextId] }, s!"id={s.nextId} admit=ok")
      | "block" =>
        ({ s with height := s.height + 1, pending := [] }, s!"h={s.height + 1} txs={",".intercalate (s.pending.map toString)}")
      | "crashblock" =>
        let k := argN toks "at" 0
        let q := parseSeq ((arg? toks "seq").getD "")
        let c : Content := { txs := argN toks "txs" 0, spends := argN toks "spends" 0, outs := argN toks "outs" 0 }
        let why := verdict q c k
        let res := if why.isEmpty then "consistent=true" else "consistent=false why=" ++ ";".intercalate why
        (s, s!"{res} h={s.height}+{heightAfter q k} k={k}/{q.len}")
      | _ => (s, "bad-op")
  | [] => (s, "bad-op")

def machine : Machine := { σ := St, init := {}, step := step }

end Driver.C13
