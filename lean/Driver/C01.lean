import Driver.Common
import LinkVerif.Model.Protocol
import LinkVerif.Model.Node
import LinkVerif.Model.Ticker

namespace Driver.C01
open Go.Proto Model.Protocol Driver

def parseEvent (s : String) : Option Event :=
  match s.splitOn "." with
  | [k, n, r, v] =>
    match n.toNat?, r.toNat?, v.toNat? with
    | some n, some r, some v =>
      let ov : Option Value := if v = 0 then none else some v
      if k == "p" then some (.prevote n r ov)
      else if k == "c" then some (.precommit n r ov)
      else if k == "d" then some (.decide n r v)
      else none
    | _, _, _ => none
  | _ => none

def showEvent : Event → String
  | .prevote n r v => s!"p.{n}.{r}.{v.getD 0}"
  | .precommit n r v => s!"c.{n}.{r}.{v.getD 0}"
  | .decide n r v => s!"d.{n}.{r}.{v}"

/-- index and rendering of the first event that breaks the discipline -/
def firstBad (c : Cfg) : List Event → List Event → Nat → Option String
  | _, [], _ => none
  | p, e :: rest, i => if eventOk c p e then firstBad c (p ++ [e]) rest (i + 1) else some s!"{showEvent e}@{i}"

def checkHist (toks : List String) : String :=
  match argInts? toks "powers", argInts? toks "byz", arg? toks "ev" with
  | some powers, some byz, some evs =>
    match (evs.splitOn ";").mapM parseEvent with
    | none => "bad-op"
    | some h =>
      let c : Cfg := { vals := List.range powers.length,
                       power := fun n => (powers.getD n 0).toNat,
                       byz := fun n => byz.getD n 0 == 1 }
      let d := disciplined c h
      let base := s!"byzbound={decide (byzBound c)} disciplined={d} agree={agree c h}"
      match firstBad c [] h 0 with
      | some f => base ++ " first=" ++ f
      | none => base
  | _, _, _ => "bad-op"

/-! ## step-level node model (`ns` ops): every handled input of every correct node, replayed through `Model.Node.step` -/

open Model.Node in
/-- per case: whether a `sim` op was seen, and per node the model state and the index of the next expected step -/
structure NS where
  sim : Bool
  nodes : List (Nat × (Model.Node.St × Nat))

def NS.init : NS := { sim := false, nodes := [] }

open Model.Node in
def renderOut (s : St) : String :=
  let dash (xs : List String) : String := if xs.isEmpty then "-" else ";".intercalate xs
  let msgs := s.out.flatMap (fun o => match o with
    | .proposal h r pol v => [s!"prop({h},{r},{pol},{v})", s!"parts({s.totalOf v})"]
    | .vote t h r v => [s!"vote({t},{h},{r},{v})"]
    | _ => [])
  let tos := s.out.filterMap (fun o => match o with | .timeout h r st => some s!"to({h},{r},{st})" | _ => none)
  let cms := s.out.filterMap (fun o => match o with | .commit h r v => some s!"commit({h},{r},{v})" | _ => none)
  s!"msgs={dash msgs} tos={dash tos} commit={dash cms}"

open Model.Node in
def renderSt (s : St) : String :=
  if s.dead then "panic" else
  let pbp := match s.pbp with | some ps => s!"{ps.v}/{ps.got.length}" | none => "-"
  s!"h={s.height} r={s.round} s={s.step} lr={s.lockedRound} lb={s.lockedValue} vr={s.validRound} vb={s.validValue} pb={s.pb} prop={if s.proposal.isSome then 1 else 0} cr={s.commitRound} pbp={pbp} {renderOut s}"

open Model.Node in
def parseIn (toks : List String) : Option In :=
  let nat (k : String) := argNat? toks k
  let int (k : String) := argInt? toks k
  let bool (k : String) := (argNat? toks k).map (· != 0)
  match arg? toks "ev" with
  | some "proposal" => do
      some (.proposal (← nat "h") (← nat "r") (← int "pol") (← nat "v") (← nat "tot") (← int "by") (← nat "typ"))
  | some "part" => do
      let idx ← int "i"
      -- a negative part index is rejected by AddPart like an index beyond the total
      let idx : Nat := if idx < 0 then 1000000000 else idx.toNat
      some (.part (← nat "h") (← nat "r") (← nat "pv") idx (← bool "vok") (← bool "cok") (← bool "dec"))
  | some "vote" => do
      some (.vote (← nat "t") (← nat "h") (← nat "r") (← nat "idx") (← nat "v") (← nat "tot") (← nat "src") (← bool "ok"))
  | some "timeout" => do some (.timeout (← nat "h") (← nat "r") (← nat "st"))
  | some "txs" => some .txs
  | some "maj23" => do some (.maj23 (← nat "r") (← nat "t") (← nat "src") (← nat "v") (← nat "tot"))
  | _ => none

open Model.Node in
def initOf (toks : List String) : Option St := do
  let me ← argNat? toks "me"
  let powers ← argInts? toks "powers"
  let accums ← argInts? toks "accums"
  let prop ← argInt? toks "prop"
  let h ← argNat? toks "h"
  let maxParts ← argNat? toks "maxparts"
  let vals : List Model.ValSet.Val := (List.range powers.length).map (fun i =>
    { addr := i, power := powers.getD i 0, accum := accums.getD i 0 })
  let vs : Model.ValSet.VS := { vals := vals, proposer := if prop < 0 then none else some prop.toNat }
  some (initSt me (powers.map Int.toNat) maxParts h vs)

open Model.Node in
def nsStep (st : NS) (toks : List String) : NS × String :=
  if !st.sim then (st, "nosim") else
  match argNat? toks "node", argNat? toks "k" with
  | some node, some k =>
    let cur := alookup st.nodes node
    let next := match cur with | some (_, nk) => nk | none => 0
    if k ≠ next then (st, "skip") else
    if arg? toks "ev" == some "init" then
      match initOf toks with
      | some s => ({ st with nodes := aset st.nodes node (s, 1) }, renderSt s)
      | none => (st, "bad-op")
    else
      match cur, parseIn toks with
      | some (s, _), some i =>
        let nv := (argNat? toks "nv").getD 0
        let nvt := (argNat? toks "nvt").getD 0
        let s' := step (learn { s with fresh := nv } nv nvt) i
        ({ st with nodes := aset st.nodes node (s', k + 1) }, renderSt s')
      | _, _ => (st, "bad-op")
  | _, _ => (st, "bad-op")

/-- `tick mode=burst|each seq=H.R.S,H.R.S,…`: the REAL timeout ticker against Model.Ticker.
burst: all schedules at once with one long duration — exactly the pending timeout fires; each: one schedule at a time with a
short duration — an accepted one fires, a stale one does not ("-") -/
def tickAns (toks : List String) : String :=
  let get (k : String) : String := (toks.filterMap (fun t => if t.startsWith (k ++ "=") then some ((t.drop (k.length + 1)).toString) else none)).headD ""
  let parse (x : String) : Option Model.Ticker.TI :=
    match x.splitOn "." with
    | [h, r, st] => match h.toNat?, r.toInt?, st.toNat? with
      | some h, some r, some st => some ⟨h, r, st⟩
      | _, _, _ => none
    | _ => none
  let seq := (get "seq").splitOn "," |>.filterMap parse
  let showTI (t : Model.Ticker.TI) : String := s!"{t.h}.{t.r}.{t.s}"
  if get "mode" == "burst" then
    if seq.isEmpty then "fired=-" else s!"fired={showTI (Model.Ticker.pending Model.Ticker.zero seq)}"
  else
    let rec go (ti : Model.Ticker.TI) : List Model.Ticker.TI → List String
      | [] => []
      | n :: ns => if Model.Ticker.stale ti n then "-" :: go ti ns else showTI n :: go n ns
    s!"fired={",".intercalate (go Model.Ticker.zero seq)}"

def step (s : NS) (toks : List String) : NS × String :=
  match toks with
  | "case" :: _ => (NS.init, "ok")
  | "sim" :: _ => ({ s with sim := true }, "ok")
  -- the claim itself: no correct node dies, is killed after a commit, or votes for an invalid block
  | "diag" :: _ => (s, "dead=0 killed=0 badvotes=0")
  | "hist" :: _ => (s, checkHist toks)
  | "ns" :: _ => nsStep s toks
  | "tick" :: _ => (s, tickAns toks)
  | _ => (s, "bad-op")

def machine : Machine := { σ := NS, init := NS.init, step := step }

end Driver.C01
