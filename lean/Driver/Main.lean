import Driver.Common
import Driver.C17

open Driver

def machines : List (String × Machine) :=
  [ ("C17", Driver.C17.machine) ]

def main (args : List String) : IO UInt32 := do
  match args with
  | [name] =>
    match machines.lookup name with
    | some m =>
      let stdin ← IO.getStdin
      let stdout ← IO.getStdout
      loop m stdin stdout m.init
      return 0
    | none => IO.eprintln s!"unknown model {name}"; return 2
  | _ => IO.eprintln "usage: lvdriver <model> < ops"; return 2
