import Driver.Common
import LinkVerif.Model.Trie
import LinkVerif.Model.TrieDecode
import LinkVerif.Go.Keccak

namespace Driver.C10
open Go.Proto Model.Trie Driver

/-- `node = none`: the implementation would have panicked; the case is dead until the next `new` -/
structure St where
  node : Option Node := none
  secure : Bool := false

def H : Bytes → Bytes := Go.Keccak.keccak256L

def keyOf (s : St) (k : Bytes) : Bytes := if s.secure then H k else k

def showRoot (n : Node) : String := s!"root={hexEncode (root H n)}"

def showKV (kvs : List (List Nib × Bytes)) : String :=
  let items := kvs.map (fun kv => hexEncode (hexToKeybytes kv.1) ++ ":" ++ hexEncode kv.2)
  s!"n={kvs.length} kv={if items.isEmpty then "-" else ",".intercalate items}"

def showList (xs : List Bytes) : String :=
  if xs.isEmpty then "-" else ",".intercalate (xs.map hexEncode)

def step (s : St) (toks : List String) : St × String :=
  match toks with
  | "case" :: _ => ({ node := some .nil }, "ok")
  | "new" :: _ => ({ node := some .nil, secure := arg? toks "kind" == some "secure" }, "ok")
  | "rawverify" :: _ =>
    -- stateless: VerifyProof(Keccak(nodes[0]), k, content-addressed db of arbitrary node bytes)
    match argHex? toks "k", argHexes? toks "nodes" with
    | some k, some nodes =>
      let want := match nodes with | n :: _ => H n | [] => H [0x80]
      match verifyExec H (dbOf H nodes) (nodes.length + 1) want (keybytesToHex k) with
      | .value v => (s, s!"res=value v={hexEncode v}")
      | .absent => (s, "res=absent")
      | .error => (s, "res=err")
      | .panic => (s, "panic")
      | .fuel => (s, "res=fuel")
    | _, _ => (s, "bad-op")
  | op :: _ =>
    match s.node with
    | none => (s, "dead")
    | some n =>
      match op with
      | "put" =>
        match argHex? toks "k", argHex? toks "v" with
        | some k, some v =>
          match update n (keyOf s k) v with
          | some n' => ({ s with node := some n' }, "ok")
          | none => ({ s with node := none }, "panic")
        | _, _ => (s, "bad-op")
      | "del" =>
        match argHex? toks "k" with
        | some k =>
          match delete n (keybytesToHex (keyOf s k)) with
          | some n' => ({ s with node := some n' }, "ok")
          | none => ({ s with node := none }, "panic")
        | none => (s, "bad-op")
      | "get" =>
        match argHex? toks "k" with
        | some k => (s, s!"v={hexEncode ((lookup n (keyOf s k)).getD [])}")
        | none => (s, "bad-op")
      | "hash" | "commit" | "reopen" => (s, showRoot n)
      | "cachelimit" | "cap" | "gc" => (s, "ok")
      | "iter" => (s, showKV (toMap n))
      | "prove" =>
        match argHex? toks "k" with
        | some k =>
          let key := keyOf s k
          let nodes := proofNodes H n (keybytesToHex key)
          -- an honest proof verifies to the content; the empty trie has no proof nodes and nothing verifies
          let res := if nodes.isEmpty then "res=err v=-" else
            match lookup n key with
            | some v => s!"res=ok v={hexEncode v}"
            | none => "res=absent v=-"
          (s, s!"nodes={showList nodes} {res}")
        | none => (s, "bad-op")
      | "tamper" =>
        -- content-addressed proof database with one node altered: the altered node is unreachable, so a needed node is missing
        (s, if n.isNil then "res=none" else "res=err")
      | _ => (s, "bad-op")
  | [] => (s, "bad-op")

def machine : Machine := { σ := St, init := {}, step := step }

end Driver.C10
