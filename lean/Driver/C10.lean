import Driver.Common
import LinkVerif.Model.Trie
import LinkVerif.Model.TrieDecode
import LinkVerif.Model.TrieIter
import LinkVerif.Go.Keccak

namespace Driver.C10
open Go.Proto Model.Trie Driver

/-- `node = none`: the implementation would have panicked; the case is dead until the next `new` -/
structure St where
  node : Option Node := none
  secure : Bool := false
  base : Option Node := none          -- `snap`: the trie the difference / union iterators compare with
  cache : List Bytes := []            -- secure trie: keys written since the last commit (secKeyCache)
  stored : List Bytes := []           -- secure trie: preimages committed to the node database

def H : Bytes → Bytes := Go.Keccak.keccak256L

def keyOf (s : St) (k : Bytes) : Bytes := if s.secure then H k else k

def showRoot (n : Node) : String := s!"root={hexEncode (root H n)}"

def showKV (kvs : List (List Nib × Bytes)) : String :=
  let items := kvs.map (fun kv => hexEncode (hexToKeybytes kv.1) ++ ":" ++ hexEncode kv.2)
  s!"n={kvs.length} kv={if items.isEmpty then "-" else ",".intercalate items}"

def showList (xs : List Bytes) : String :=
  if xs.isEmpty then "-" else ",".intercalate (xs.map hexEncode)

def step (s : St) (toks : List String) : St × String :=
  match toks with
  | "case" :: _ => ({ node := some .nil }, "ok")
  | "new" :: _ => ({ node := some .nil, secure := arg? toks "kind" == some "secure" }, "ok")
  | "rawverify" :: _ =>
    -- stateless: VerifyProof(Keccak(nodes[0]), k, content-addressed db of arbitrary node bytes)
    match argHex? toks "k", argHexes? toks "nodes" with
    | some k, some nodes =>
      let want := match nodes with | n :: _ => H n | [] => H [0x80]
      match verifyExec H (dbOf H nodes) (nodes.length + 1) want (keybytesToHex k) with
      | .value v => (s, s!"res=value v={hexEncode v}")
      | .absent => (s, "res=absent")
      | .error => (s, "res=err")
      | .panic => (s, "panic")
      | .fuel => (s, "res=fuel")
    | _, _ => (s, "bad-op")
  | op :: _ =>
    match s.node with
    | none => (s, "dead")
    | some n =>
      match op with
      | "put" =>
        match argHex? toks "k", argHex? toks "v" with
        | some k, some v =>
          match update n (keyOf s k) v with
          | some n' =>
            -- SecureTrie.TryUpdate records the preimage also when the value is empty (it deletes from the trie only)
            ({ s with node := some n', cache := if s.secure then k :: s.cache.filter (· != k) else s.cache }, "ok")
          | none => ({ s with node := none }, "panic")
        | _, _ => (s, "bad-op")
      | "del" =>
        match argHex? toks "k" with
        | some k =>
          match delete n (keybytesToHex (keyOf s k)) with
          | some n' => ({ s with node := some n', cache := s.cache.filter (· != k) }, "ok")
          | none => ({ s with node := none }, "panic")
        | none => (s, "bad-op")
      | "get" =>
        match argHex? toks "k" with
        | some k => (s, s!"v={hexEncode ((lookup n (keyOf s k)).getD [])}")
        | none => (s, "bad-op")
      | "openmissing" => (s, "err-missing-root")
      | "dbstat" => (s, "integrity=ok")
      | "hash" => (s, showRoot n)
      | "commit" | "reopen" =>
        let s' := { s with stored := s.cache ++ s.stored, cache := [] }
        if arg? toks "leaf" == some "1" then (s', s!"{showRoot n} leaves={leafStores H n}") else (s', showRoot n)
      | "lockprobe" => ({ s with stored := s.cache ++ s.stored, cache := [] }, "lock=free commit=err")
      | "diskfail" =>
        -- write failures injected into Database.Commit / Cap: nothing is lost, the final state is the committed trie on disk
        ({ s with stored := s.cache ++ s.stored, cache := [] }, s!"{showRoot n} bad=0")
      | "snap" => ({ s with base := some n, stored := s.cache ++ s.stored, cache := [] }, showRoot n)
      | "getkey" =>
        match argHex? toks "k" with
        -- an empty preimage reads as "unknown" on both sides (GetKey returns a zero-length slice)
        | some k => (s, if (s.cache.contains k || s.stored.contains k) && !k.isEmpty then s!"pre={hexEncode k}" else "pre=nil")
        | none => (s, "bad-op")
      | "copywrite" =>
        match argHex? toks "k", argHex? toks "v" with
        | some k, some v =>
          match update n (keyOf s k) v with
          | some c =>
            let known := (s.cache.contains k || s.stored.contains k) && !k.isEmpty
            (s, s!"orig={hexEncode ((lookup n (keyOf s k)).getD [])} copy={hexEncode ((lookup c (keyOf s k)).getD [])} " ++
              s!"rootorig={hexEncode (root H n)} rootcopy={hexEncode (root H c)} origpre={if known then hexEncode k else "nil"}")
          | none => ({ s with node := none }, "panic")
        | _, _ => (s, "bad-op")
      | "iterfrom" =>
        match argHex? toks "start" with
        | some st => (s, showKV (iterFrom n st))
        | none => (s, "bad-op")
      | "nodeiter" =>
        let w := nodeWalk H n
        let leaves := (w.filter (fun x => hasTerm x.1)).length
        let items := w.map (fun x => hexEncode (x.1.map (fun i => UInt8.ofNat i.val)) ++ ":" ++ hexEncode x.2.1 ++ ":" ++ hexEncode x.2.2)
        (s, s!"n={w.length} leaves={leaves} proofs={leaves}/{leaves} nodes={",".intercalate items}")
      | "diff" =>
        match s.base with
        | some a => (s, showKV (diffLeaves a n))
        | none => (s, "bad-op")
      | "union" =>
        match s.base with
        | some a => (s, showKV (unionLeaves a n))
        | none => (s, "bad-op")
      | "missing" =>
        -- every reachable node blob removed from the disk database in turn; `errs` = how many removals make the op fail
        match argHex? toks "k" with
        | some k =>
          let total := (hashedNodes H n).length
          let onPath := (proofNodes H n (keybytesToHex (keyOf s k))).length
          let s' := { s with stored := s.cache ++ s.stored, cache := [] }
          match arg? toks "op" with
          | some "iter" => (s', s!"nodes={total} errs={total} bad=0")
          | some "get" | some "put" | some "prove" => (s', s!"nodes={total} errs={if total == 0 then 0 else onPath} bad=0")
          | _ => (s', s!"nodes={total} bad=0")      -- del / seek / wrappers: which removals matter is not modelled
        | none => (s, "bad-op")
      | "cachelimit" | "cap" | "gc" => (s, "ok")
      | "iter" => (s, showKV (toMap n))
      | "prove" =>
        match argHex? toks "k" with
        | some k =>
          let key := keyOf s k
          let from_ := (argNat? toks "from").getD 0
          let full := proofNodes H n (keybytesToHex key)
          let nodes := full.drop from_
          -- an honest proof verifies to the content; the empty trie has no proof nodes and nothing verifies;
          -- Prove(fromLevel > 0) leaves out the first proof elements, so the root node is missing
          let res := if full.isEmpty || from_ > 0 then "res=err v=-" else
            match lookup n key with
            | some v => s!"res=ok v={hexEncode v}"
            | none => "res=absent v=-"
          (s, s!"nodes={showList nodes} {res}")
        | none => (s, "bad-op")
      | "tamper" =>
        -- content-addressed proof database with one node altered: the altered node is unreachable, so a needed node is missing
        (s, if n.isNil then "res=none" else "res=err")
      | _ => (s, "bad-op")
  | [] => (s, "bad-op")

def machine : Machine := { σ := St, init := {}, step := step }

end Driver.C10
