/-
Driver plumbing: a model is a step function over token lists; one answer line per op line.
Lines starting with `#` are comments (no answer).
-/
import LinkVerif.Go.Proto

namespace Driver
open Go.Proto

structure Machine where
  σ : Type
  init : σ
  step : σ → List String → σ × String

partial def loop (m : Machine) (h : IO.FS.Stream) (out : IO.FS.Stream) (s : m.σ) : IO Unit := do
  let line ← h.getLine
  if line.isEmpty then return ()
  let l := (line.dropEndWhile (fun c => c == '\n' || c == '\r')).toString
  if l.isEmpty || l.startsWith "#" then
    loop m h out s
  else
    let (s', ans) := m.step s (tokens l)
    out.putStrLn ans
    loop m h out s'

def natToHexPad (n : Nat) (digits : Nat) : String :=
  let rec go (k : Nat) (n : Nat) (acc : List Char) : List Char :=
    match k with
    | 0 => acc
    | k + 1 => go k (n / 16) (hexChar (n % 16) :: acc)
  String.ofList (go digits n [])

def bytesToNat (bs : List UInt8) : Nat := bs.foldl (fun acc b => acc * 256 + b.toNat) 0

end Driver
