import Driver.Common
import Driver.C01
import LinkVerif.Model.Protocol

namespace Driver.C02
open Go.Proto Model.Protocol Driver

def parseEvent (s : String) : Option Event :=
  match s.splitOn "." with
  | [k, n, r, v] =>
    match n.toNat?, r.toNat?, v.toNat? with
    | some n, some r, some v =>
      let ov : Option Value := if v = 0 then none else some v
      if k == "p" then some (.prevote n r ov)
      else if k == "c" then some (.precommit n r ov)
      else if k == "d" then some (.decide n r v)
      else none
    | _, _, _ => none
  | _ => none

def showEvent : Event → String
  | .prevote n r v => s!"p.{n}.{r}.{v.getD 0}"
  | .precommit n r v => s!"c.{n}.{r}.{v.getD 0}"
  | .decide n r v => s!"d.{n}.{r}.{v}"

/-- index and rendering of the first event that breaks the discipline -/
def firstBad (c : Cfg) : List Event → List Event → Nat → Option String
  | _, [], _ => none
  | p, e :: rest, i => if eventOk c p e then firstBad c (p ++ [e]) rest (i + 1) else some s!"{showEvent e}@{i}"

def checkHist (toks : List String) : String :=
  match argInts? toks "powers", argInts? toks "byz", arg? toks "ev" with
  | some powers, some byz, some evs =>
    match (evs.splitOn ";").mapM parseEvent with
    | none => "bad-op"
    | some h =>
      let c : Cfg := { vals := List.range powers.length,
                       power := fun n => (powers.getD n 0).toNat,
                       byz := fun n => byz.getD n 0 == 1 }
      let d := disciplined c h
      let base := s!"byzbound={decide (byzBound c)} disciplined={d} agree={agree c h}"
      match firstBad c [] h 0 with
      | some f => base ++ " first=" ++ f
      | none => base
  | _, _, _ => "bad-op"

/-- `ns` ops (step-level tie with the node model `Model.Node`) are answered by the C01 driver's code -/
def step (s : Driver.C01.NS) (toks : List String) : Driver.C01.NS × String :=
  match toks with
  | "case" :: _ => (Driver.C01.NS.init, "ok")
  | "sim" :: _ => ({ s with sim := true }, "ok")
  -- the claim itself: no correct node dies, is killed after a commit, or votes for an invalid block
  | "diag" :: _ => (s, "dead=0 killed=0 badvotes=0")
  | "hist" :: _ => (s, checkHist toks)
  | "ns" :: _ => Driver.C01.nsStep s toks
  | _ => (s, "bad-op")

def machine : Machine := { σ := Driver.C01.NS, init := Driver.C01.NS.init, step := step }

end Driver.C02
