import Driver.Common
import LinkVerif.Model.Evm

/-!
C20 driver: trace validation.  The harness runs a program on the real EVM with a Tracer and writes what the
tracer saw as op lines; the implementation re-executes on replay and answers `ok` when its trace still has that
line; the model answers `ok` when the line is a legal move of the metering skeleton over the extracted table.
-/
namespace Driver.C20
open Go.Proto Model.Evm Model.Evm.Trace Driver

def parseCode (toks : List String) : Option (Array Nat) :=
  (argHex? toks "code").map (fun bs => (bs.map (·.toNat)).toArray)

def step (s : TState) (toks : List String) : TState × String :=
  match toks with
  | "case" :: _ => ({}, "ok")
  | "run" :: _ =>
    match argNat? toks "gas" with
    | none => (s, "bad-op")
    | some g => ({ gas := g, create := (arg? toks "mode") == some "create" || (arg? toks "mode") == some "rtcreate" }, "ok")
  | "pre" :: _ =>
    match arg? toks "set", argNat? toks "addr", argNat? toks "gas", argHex? toks "in" with
    | some set, some a, some g, some inp => (s, Model.Evm.Pre.answer set a g inp)
    | _, _, _, _ => (s, "bad-op")
  | "opsseen" :: _ =>
    match argHex? toks "list" with
    | some l =>
      let seen := l.map (·.toNat)
      match Gen.EvmTable.rows.find? (fun r => r.valid && !seen.contains r.op) with
      | none => (s, "ok")
      | some r => (s, s!"bad:opcode-never-executed:{r.name}")
    | none => (s, "bad-op")
  | "upgrade" :: _ => (s, "err")     -- evm.Upgrade: "evm should not support upgrade"
  | "enter" :: _ =>
    if s.dead then (s, "ok") else
    match argNat? toks "d", argNat? toks "gas", parseCode toks with
    | some d, some g, some code =>
      let (s', a) := enter s d g code
      if a == "ok" then (s', a) else ({ s' with dead := true }, a)
    | _, _, _ => (s, "bad-op")
  | "s" :: _ =>
    if s.dead then (s, "ok") else
    match argNat? toks "d", argNat? toks "pc", argNat? toks "op", argNat? toks "gas", argNat? toks "cost",
          argNat? toks "st", argNat? toks "mem", argNat? toks "err" with
    | some d, some pc, some op, some gas, some cost, some st, some mem, some err =>
      let (s', a) := stepLine s d pc op gas cost st mem (err != 0)
      if a == "ok" then (s', a) else ({ s' with dead := true }, a)
    | _, _, _, _, _, _, _, _ => (s, "bad-op")
  | "fault" :: _ =>
    if s.dead then (s, "ok") else
    match argNat? toks "d", argNat? toks "pc" with
    | some d, some pc =>
      let (s', a) := faultLine s d pc
      if a == "ok" then (s', a) else ({ s' with dead := true }, a)
    | _, _ => (s, "bad-op")
  | "end" :: _ =>
    if s.dead then (s, "ok") else
    match argNat? toks "gasleft", arg? toks "status", argNat? toks "trunc" with
    | some g, some st, some tr => endLine (popTo s 1) g st (tr != 0)
    | _, _, _ => (s, "bad-op")
  | _ => (s, "bad-op")

def machine : Machine := { σ := TState, init := {}, step := step }

end Driver.C20
