import Driver.Common
import LinkVerif.Model.Merkle
import LinkVerif.Model.PartSet
import LinkVerif.Model.BlockId
import LinkVerif.Model.BlockApi

namespace Driver.C12
open Go.Proto Model.Merkle Model.PartSet Model.BlockId Model.BlockApi Driver

structure St where
  leaves : List Bytes := []
  prfs : List (List Bytes) := []
  src : Option (PS Bytes × List (Part Bytes)) := none
  ps : Option (PS Bytes) := none
  blocks : List (List String) := []   -- content keys of the block ops of this case (for pclass)
  custom : Option (PS Bytes) := none
  /-- reference block store: height ↦ (chunks, proofs, part-set root, block hash) -/
  store : Option (List (Nat × (List Bytes × List (List Bytes) × Bytes × Bytes))) := none

def showHexes (xs : List Bytes) : String :=
  if xs.isEmpty then "-" else ",".intercalate (xs.map hexEncode)

def showBits (bs : List Bool) : String :=
  if bs.isEmpty then "-" else String.ofList (bs.map (fun b => if b then '1' else '0'))

def zero32 : Bytes := List.replicate 32 0

/-- `common.BytesToHash` of a Merkle root: nil becomes the zero hash (roots are 32 bytes otherwise) -/
def toHash (b : Bytes) : Bytes := if b.isEmpty then zero32 else b

def errName : Err → String
  | .none => "none" | .unexpectedIndex => "index" | .invalidProof => "proof"

def showPS (ps : PS Bytes) : String :=
  s!"count={ps.count} complete={isComplete ps} bits={showBits (bits ps)}"

/-- "total:hash" -/
def parseHdr (s : String) : Option (Header Bytes) :=
  match s.splitOn ":" with
  | [t, h] => do
    let t ← t.toInt?
    let h ← hexDecode? h
    some ⟨t, h⟩
  | _ => none

/-- "hash:total:parthash" -/
def parseBlockID (s : String) : Option BlockIDv :=
  match s.splitOn ":" with
  | [h, t, p] => do
    let h ← hexDecode? h
    let t ← t.toInt?
    let p ← hexDecode? p
    some ⟨h, t, p⟩
  | _ => none

def fieldVal (toks : List String) (k : String) : Kind → Option FVal
  | .str => (argHex? toks k).map .str
  | .uint => (argNat? toks k).map .uint
  | .bytes => (argHex? toks k).map .bytes
  | .blockID => ((arg? toks k).bind parseBlockID).map .blockID

def markers : List String := ["dh=", "lch=", "eh="]

def step (s : St) (toks : List String) : St × String :=
  match toks with
  | "case" :: _ => ({}, "ok")
  -- ---- merkle
  | "root" :: _ =>
    match argHexes? toks "hashes" with
    | none => (s, "bad-op")
    | some hs => (s, s!"root={hexEncode (root h2K hs)}")
  | "tree" :: _ =>
    match argHexes? toks "hashes" with
    | none => (s, "bad-op")
    | some hs =>
      if hs.isEmpty then ({ s with leaves := [], prfs := [] }, "panic")
      else ({ s with leaves := hs, prfs := proofs h2K hs }, s!"root={hexEncode (root h2K hs)} n={hs.length} same=true")
  | "proof" :: _ =>
    match argNat? toks "i" with
    | none => (s, "bad-op")
    | some i =>
      match s.prfs[i]? with
      | none => (s, "bad-op")
      | some pr => (s, s!"aunts={showHexes pr}")
  | "verify" :: _ =>
    match argInt? toks "i", argInt? toks "total", argHex? toks "leaf", argHexes? toks "aunts", argHex? toks "root" with
    | some i, some t, some leaf, some aunts, some r => (s, s!"ok={verify h2K i t leaf aunts r}")
    | _, _, _, _, _ => (s, "bad-op")
  | "txsroot" :: _ =>
    match argHexes? toks "hashes" with
    | none => (s, "bad-op")
    | some hs => (s, s!"root={hexEncode (toHash (root h2K hs))}")
  | "commitroot" :: _ =>
    match argHexes? toks "hashes" with
    | none => (s, "bad-op")
    | some hs => (s, s!"root={hexEncode (toHash (root h2K hs))}")
  | "evroot" :: _ =>
    match argHexes? toks "hashes" with
    | none => (s, "bad-op")
    | some hs => (s, s!"root={hexEncode (root h2K hs)}")
  -- ---- part sets
  | "fromdata" :: _ =>
    match argHex? toks "data", argInt? toks "size" with
    | some data, some size =>
      match newFromData h2K keccak data size with
      | .error _ => ({ s with src := none }, "panic")
      | .ok ps =>
        let parts := partsOf h2K keccak (chunks size.toNat data)
        ({ s with src := some (ps, parts) }, s!"total={ps.total} hash={hexEncode ps.hash}")
    | _, _ => (s, "bad-op")
  | "srcpart" :: _ =>
    match s.src, argNat? toks "i" with
    | some (_, parts), some i =>
      match parts[i]? with
      | none => (s, "bad-op")
      | some p => (s, s!"index={p.index} bytes={hexEncode p.bytes} aunts={showHexes p.aunts}")
    | none, _ => (s, "dead")
    | _, none => (s, "bad-op")
  | ["srcassemble"] =>
    match s.src with
    | none => (s, "dead")
    | some (ps, _) =>
      match assemble ps with
      | .error _ => (s, "panic")
      | .ok b => (s, s!"bytes={hexEncode b}")
  | "fromheader" :: _ =>
    match argInt? toks "total", argHex? toks "hash" with
    | some t, some h =>
      match newFromHeader t h with
      | .error _ => ({ s with ps := none }, "panic")
      | .ok ps => ({ s with ps := some ps }, "ok")
    | _, _ => (s, "bad-op")
  | "addpart" :: _ =>
    match s.ps with
    | none => (s, "dead")
    | some ps =>
      match argInt? toks "index", argHex? toks "bytes", argHexes? toks "aunts" with
      | some i, some b, some aunts =>
        match addPart h2K keccak ps { index := i, bytes := b, aunts := aunts } with
        | .error _ => (s, "panic")
        | .ok (ps', added, e) => ({ s with ps := some ps' }, s!"added={added} err={errName e} " ++ showPS ps')
      | _, _, _ => (s, "bad-op")
  | ["assemble"] =>
    match s.ps with
    | none => (s, "dead")
    | some ps =>
      match assemble ps with
      | .error _ => (s, "panic")
      | .ok b => (s, s!"bytes={hexEncode b}")
  | ["header"] =>
    match s.ps with
    | none => (s, "dead")
    | some ps => (s, s!"total={ps.total} hash={hexEncode ps.hash}")
  | "hdreq" :: _ =>
    match (arg? toks "a").bind parseHdr, (arg? toks "b").bind parseHdr with
    | some a, some b => (s, s!"equals={a.equals b} zeroa={a.isZero}")
    | _, _ => (s, "bad-op")
  -- ---- block identity
  | "block" :: rest =>
    match hashedFields.mapM (fun (k, kind) => fieldVal toks k kind) with
    | none => (s, "bad-op")
    | some vals =>
      let h := headerHash vals
      let key := rest.filter (fun t => !(markers.any (fun m => t.startsWith m)))
      let (blocks, k) := match s.blocks.findIdx? (· == key) with
        | some k => (s.blocks, k)
        | none => (s.blocks ++ [key], s.blocks.length)
      let ntx := (splitComma ((arg? toks "txs").getD "-")).length
      let valid :=
        if (argNat? toks "NumTxs").getD 0 ≠ ntx then "numtxs"
        else if arg? toks "lch" == some "bad" then "lastcommithash"
        else if (argNat? toks "Height").getD 0 ≠ 1 &&
            commitValid (arg? toks "cbid" == some "zero") ((splitComma ((arg? toks "commit").getD "-")).map svoteOf) != "ok" then "commit"
        else if arg? toks "dh" == some "bad" then "datahash"
        else if arg? toks "eh" == some "bad" then "evidencehash"
        else "ok"
      ({ s with blocks := blocks }, s!"hash={hexEncode h} pclass={k} valid={valid} rt=true")
  -- ---- widened API
  | "hdrsweep" :: _ =>
    (s, "sweep=" ++ ",".intercalate (headerLeaves.map (fun l => s!"{leafName l}:{leafEffect l.1}")))
  | "copyhdr" :: _ => (s, s!"copy=deep head=true newblock=true newblockhash={hexEncode zero32}")
  | "blockapi" :: _ =>
    (s, "make=true same=true hashesto=true,false,false,false sizeok=true nil=true partial=true getters=true cachedstale=true")
  | "commitapi" :: _ =>
    let ids := splitComma ((arg? toks "ids").getD "-")
    let vs := ids.map svoteOf
    let first := match firstPrecommit vs with
      | none => "none"
      | some (none, _) => "empty"
      | some (some i, _) => toString i
    let byIdx := if ids.isEmpty then "-" else ",".intercalate (ids.map (fun _ => "1"))
    (s, s!"size={ids.length} iscommit={!ids.isEmpty} bits={showBits (vs.map Option.isSome)} height={commitHeight vs} round={commitRound vs} type=2 first={first} valid={commitValid (arg? toks "cbid" == some "zero") vs} byindex={byIdx} nilsize=0 nilhash={hexEncode zero32}")
  | "bideq" :: _ =>
    match (arg? toks "a").bind parseBlockID, (arg? toks "b").bind parseBlockID with
    | some a, some b =>
      let eq := a.hash == b.hash && a.total == b.total && a.phash == b.phash
      (s, s!"equals={eq} zeroa={a.hash == zero32 && a.total == 0} keyeq={eq}")
    | _, _ => (s, "bad-op")
  | "psq" :: _ =>
    match (arg? toks "hdr").bind parseHdr with
    | none => (s, "bad-op")
    | some h =>
      let which := (arg? toks "which").getD ""
      if which == "nil" then (s, "header=0:- hash=- count=0 total=0 hasheader=false hashesto=false")
      else
        let ps? := if which == "ps" then s.ps else if which == "src" then s.src.map (·.1) else if which == "custom" then s.custom else none
        match ps? with
        | none => (s, "dead")
        | some ps =>
          (s, s!"header={ps.total}:{hexEncode ps.hash} hash={hexEncode ps.hash} count={ps.count} total={ps.total} hasheader={ps.header.equals h} hashesto={decide (ps.hash = h.hash)}")
  | "fromchunks" :: _ =>
    match argHex? toks "data", argInts? toks "sizes" with
    | some data, some sizes =>
      let cs := (sizes.foldl (fun (acc : List Bytes × Bytes) n => (acc.1 ++ [acc.2.take n.toNat], acc.2.drop n.toNat)) ([], data)).1
      let parts := partsOf h2K keccak cs
      match addAll h2K keccak (emptyPS cs.length (root h2K (cs.map keccak))) parts with
      | .error _ => ({ s with custom := none }, "panic")
      | .ok ps => ({ s with custom := some ps }, s!"total={ps.total} hash={hexEncode ps.hash} complete={isComplete ps}")
    | _, _ => (s, "bad-op")
  | "readseq" :: _ =>
    let which := (arg? toks "which").getD ""
    let ps? := if which == "ps" then s.ps else if which == "src" then s.src.map (·.1) else if which == "custom" then s.custom else none
    match ps?, argInts? toks "sizes" with
    | some ps, some sizes =>
      if !isComplete ps || ps.parts.isEmpty then (s, "panic")
      else
        let parts := ps.parts.map (fun p => p.getD [])
        let (rs, data) := readSeq parts {} (sizes.map Int.toNat)
        let shown := if rs.isEmpty then "-" else ",".intercalate (rs.map (fun (n, e) => s!"{n}:{if e then "eof" else "ok"}"))
        (s, s!"reads={shown} data={hexEncode data}")
    | none, _ => (s, "dead")
    | _, none => (s, "bad-op")
  | "txidx" :: _ =>
    let ids := splitComma ((arg? toks "ids").getD "-")
    match ids.findIdx? (· == (arg? toks "find").getD "") with
    | some i => (s, s!"index={i}")
    | none => (s, "index=-1")
  | "txproof" :: _ =>
    match argHexes? toks "hashes", argNat? toks "i", argInt? toks "idx", argInt? toks "total", argHex? toks "leafhash", argHex? toks "root", argHex? toks "dh" with
    | some hs, some i, some idx, some total, some lh, some rt, some dh =>
      let aunts := (proofs h2K hs).getD i []
      (s, s!"valid={txProofValid dh rt idx total lh aunts} rooteq=true leaf={hexEncode lh}")
    | _, _, _, _, _, _, _ => (s, "bad-op")
  | "evapi" :: _ =>
    let a := (arg? toks "a").getD ""
    let b := (arg? toks "b").getD ""
    let list := splitComma ((arg? toks "list").getD "-")
    (s, s!"equal={a == b} has={list.contains a} height={if a.startsWith "f" then 7 + ((a.drop 1).toString.toNat?.getD 0) % 2 else 4} addrlen=20 hasheq={a == b}")
  | "maproot" :: _ =>
    match argHexes? toks "keys", argHexes? toks "vals" with
    | some ks, some vs =>
      let kvs := ks.zip vs
      (s, s!"root={hexEncode (mapRootG h2K kvHash kvs)} keys={showHexes ((sortByKey kvs).map (·.1))} same=true proofsok=true")
    | _, _ => (s, "bad-op")
  | ["bsnew"] => ({ s with store := some [] }, "height=0")
  | "bssave" :: _ =>
    match s.store, argHex? toks "data", argInt? toks "size", argNat? toks "Height", hashedFields.mapM (fun (k, kind) => fieldVal toks k kind) with
    | none, _, _, _, _ => (s, "dead")
    | some st, some data, some size, some h, some vals =>
      let cs := chunks size.toNat data
      let hs := cs.map keccak
      let rt := root h2K hs
      ({ s with store := some ((h, (cs, proofs h2K hs, rt, headerHash vals)) :: st) },
        s!"total={cs.length} hash={hexEncode rt} serok=true height={h}")
    | _, _, _, _, _ => (s, "bad-op")
  | "bspart" :: _ =>
    match s.store, argNat? toks "h", argInt? toks "i" with
    | none, _, _ => (s, "dead")
    | some st, some h, some i =>
      match st.lookup h with
      | none => (s, "nil")
      | some (cs, prs, _, _) =>
        if i < 0 then (s, "nil") else
        match cs[i.toNat]? with
        | none => (s, "nil")
        | some c => (s, s!"index={i} bytes={hexEncode c} aunts={showHexes (prs.getD i.toNat [])} own=true")
    | _, _, _ => (s, "bad-op")
  | "bsblock" :: _ =>
    match s.store, argNat? toks "h" with
    | none, _ => (s, "dead")
    | some st, some h =>
      match st.lookup h with
      | none => (s, "nil")
      | some (cs, _, rt, bh) => (s, s!"bytes={hexEncode cs.flatten} own=true blockhash={hexEncode bh} meta={cs.length}:{hexEncode rt} byhash=true")
    | _, _ => (s, "bad-op")
  | _ => (s, "bad-op")


def machine : Machine := { σ := St, init := {}, step := step }

end Driver.C12
