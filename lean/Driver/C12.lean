import Driver.Common
import LinkVerif.Model.Merkle
import LinkVerif.Model.PartSet
import LinkVerif.Model.BlockId

namespace Driver.C12
open Go.Proto Model.Merkle Model.PartSet Model.BlockId Driver

structure St where
  leaves : List Bytes := []
  prfs : List (List Bytes) := []
  src : Option (PS Bytes × List (Part Bytes)) := none
  ps : Option (PS Bytes) := none
  blocks : List (List String) := []   -- content keys of the block ops of this case (for pclass)

def showHexes (xs : List Bytes) : String :=
  if xs.isEmpty then "-" else ",".intercalate (xs.map hexEncode)

def showBits (bs : List Bool) : String :=
  if bs.isEmpty then "-" else String.ofList (bs.map (fun b => if b then '1' else '0'))

def zero32 : Bytes := List.replicate 32 0

/-- `common.BytesToHash` of a Merkle root: nil becomes the zero hash (roots are 32 bytes otherwise) -/
def toHash (b : Bytes) : Bytes := if b.isEmpty then zero32 else b

def errName : Err → String
  | .none => "none" | .unexpectedIndex => "index" | .invalidProof => "proof"

def showPS (ps : PS Bytes) : String :=
  s!"count={ps.count} complete={isComplete ps} bits={showBits (bits ps)}"

/-- "total:hash" -/
def parseHdr (s : String) : Option (Header Bytes) :=
  match s.splitOn ":" with
  | [t, h] => do
    let t ← t.toInt?
    let h ← hexDecode? h
    some ⟨t, h⟩
  | _ => none

/-- "hash:total:parthash" -/
def parseBlockID (s : String) : Option BlockIDv :=
  match s.splitOn ":" with
  | [h, t, p] => do
    let h ← hexDecode? h
    let t ← t.toInt?
    let p ← hexDecode? p
    some ⟨h, t, p⟩
  | _ => none

def fieldVal (toks : List String) (k : String) : Kind → Option FVal
  | .str => (argHex? toks k).map .str
  | .uint => (argNat? toks k).map .uint
  | .bytes => (argHex? toks k).map .bytes
  | .blockID => ((arg? toks k).bind parseBlockID).map .blockID

def markers : List String := ["dh=", "lch=", "eh="]

def step (s : St) (toks : List String) : St × String :=
  match toks with
  | "case" :: _ => ({}, "ok")
  -- ---- merkle
  | "root" :: _ =>
    match argHexes? toks "hashes" with
    | none => (s, "bad-op")
    | some hs => (s, s!"root={hexEncode (root h2K hs)}")
  | "tree" :: _ =>
    match argHexes? toks "hashes" with
    | none => (s, "bad-op")
    | some hs =>
      if hs.isEmpty then ({ s with leaves := [], prfs := [] }, "panic")
      else ({ s with leaves := hs, prfs := proofs h2K hs }, s!"root={hexEncode (root h2K hs)} n={hs.length} same=true")
  | "proof" :: _ =>
    match argNat? toks "i" with
    | none => (s, "bad-op")
    | some i =>
      match s.prfs[i]? with
      | none => (s, "bad-op")
      | some pr => (s, s!"aunts={showHexes pr}")
  | "verify" :: _ =>
    match argInt? toks "i", argInt? toks "total", argHex? toks "leaf", argHexes? toks "aunts", argHex? toks "root" with
    | some i, some t, some leaf, some aunts, some r => (s, s!"ok={verify h2K i t leaf aunts r}")
    | _, _, _, _, _ => (s, "bad-op")
  | "txsroot" :: _ =>
    match argHexes? toks "hashes" with
    | none => (s, "bad-op")
    | some hs => (s, s!"root={hexEncode (toHash (root h2K hs))}")
  | "commitroot" :: _ =>
    match argHexes? toks "hashes" with
    | none => (s, "bad-op")
    | some hs => (s, s!"root={hexEncode (toHash (root h2K hs))}")
  | "evroot" :: _ =>
    match argHexes? toks "hashes" with
    | none => (s, "bad-op")
    | some hs => (s, s!"root={hexEncode (root h2K hs)}")
  -- ---- part sets
  | "fromdata" :: _ =>
    match argHex? toks "data", argInt? toks "size" with
    | some data, some size =>
      match newFromData h2K keccak data size with
      | .error _ => ({ s with src := none }, "panic")
      | .ok ps =>
        let parts := partsOf h2K keccak (chunks size.toNat data)
        ({ s with src := some (ps, parts) }, s!"total={ps.total} hash={hexEncode ps.hash}")
    | _, _ => (s, "bad-op")
  | "srcpart" :: _ =>
    match s.src, argNat? toks "i" with
    | some (_, parts), some i =>
      match parts[i]? with
      | none => (s, "bad-op")
      | some p => (s, s!"index={p.index} bytes={hexEncode p.bytes} aunts={showHexes p.aunts}")
    | none, _ => (s, "dead")
    | _, none => (s, "bad-op")
  | ["srcassemble"] =>
    match s.src with
    | none => (s, "dead")
    | some (ps, _) =>
      match assemble ps with
      | .error _ => (s, "panic")
      | .ok b => (s, s!"bytes={hexEncode b}")
  | "fromheader" :: _ =>
    match argInt? toks "total", argHex? toks "hash" with
    | some t, some h =>
      match newFromHeader t h with
      | .error _ => ({ s with ps := none }, "panic")
      | .ok ps => ({ s with ps := some ps }, "ok")
    | _, _ => (s, "bad-op")
  | "addpart" :: _ =>
    match s.ps with
    | none => (s, "dead")
    | some ps =>
      match argInt? toks "index", argHex? toks "bytes", argHexes? toks "aunts" with
      | some i, some b, some aunts =>
        match addPart h2K keccak ps { index := i, bytes := b, aunts := aunts } with
        | .error _ => (s, "panic")
        | .ok (ps', added, e) => ({ s with ps := some ps' }, s!"added={added} err={errName e} " ++ showPS ps')
      | _, _, _ => (s, "bad-op")
  | ["assemble"] =>
    match s.ps with
    | none => (s, "dead")
    | some ps =>
      match assemble ps with
      | .error _ => (s, "panic")
      | .ok b => (s, s!"bytes={hexEncode b}")
  | ["header"] =>
    match s.ps with
    | none => (s, "dead")
    | some ps => (s, s!"total={ps.total} hash={hexEncode ps.hash}")
  | "hdreq" :: _ =>
    match (arg? toks "a").bind parseHdr, (arg? toks "b").bind parseHdr with
    | some a, some b => (s, s!"equals={a.equals b} zeroa={a.isZero}")
    | _, _ => (s, "bad-op")
  -- ---- block identity
  | "block" :: rest =>
    match hashedFields.mapM (fun (k, kind) => fieldVal toks k kind) with
    | none => (s, "bad-op")
    | some vals =>
      let h := headerHash vals
      let key := rest.filter (fun t => !(markers.any (fun m => t.startsWith m)))
      let (blocks, k) := match s.blocks.findIdx? (· == key) with
        | some k => (s.blocks, k)
        | none => (s.blocks ++ [key], s.blocks.length)
      let ntx := (splitComma ((arg? toks "txs").getD "-")).length
      let ncommit := (splitComma ((arg? toks "commit").getD "-")).length
      let valid :=
        if (argNat? toks "NumTxs").getD 0 ≠ ntx then "numtxs"
        else if arg? toks "lch" == some "bad" then "lastcommithash"
        else if (argNat? toks "Height").getD 0 ≠ 1 && (arg? toks "cbid" == some "zero" || ncommit == 0) then "commit"
        else if arg? toks "dh" == some "bad" then "datahash"
        else if arg? toks "eh" == some "bad" then "evidencehash"
        else "ok"
      ({ s with blocks := blocks }, s!"hash={hexEncode h} pclass={k} valid={valid} rt=true")
  | _ => (s, "bad-op")

def machine : Machine := { σ := St, init := {}, step := step }

end Driver.C12
