import Driver.Common
import LinkVerif.Model.Election
import LinkVerif.Model.StateHash
import LinkVerif.Go.Keccak

namespace Driver.C05
open Driver Go.Proto Model.Election

/-- `addr:score:deposit` -/
def parseCand (s : String) : Option Cand :=
  match s.splitOn ":" with
  | [a, sc, d] => do
    let addr ← hexDecode? a
    let score ← sc.toNat?
    let dep ← d.toNat?
    pure { addr := addr, score := score, deposit := dep }
  | _ => none

def parseCands (s : String) : Option (List Cand) :=
  if s == "-" || s.isEmpty then some [] else (s.splitOn ";").mapM parseCand

/-- `elect h= hash= rates=a,b,c cands=… floats=… out=…`: the model recomputes the election from its inputs -/
def electAnswer (toks : List String) : String :=
  match argHex? toks "hash", (arg? toks "rates").map splitComma, (arg? toks "cands").bind parseCands,
        (arg? toks "floats").map splitComma, arg? toks "out" with
  | some hash, some [a, b, c], some cands, some fl, some out =>
    match a.toNat?, b.toNat?, c.toNat?, fl.mapM String.toNat? with
    | some a, some b, some c, some floats =>
      let res := elect a b c hash floats cands
      let shown := if res.isEmpty then "-" else ",".intercalate (res.map (fun x => hexEncode (x.addr.take 4)))
      if shown == out then "ok" else s!"model-elects {shown}"
    | _, _, _, _ => "bad-elect"
  | _, _, _, _, _ => "bad-elect"

/-- `kvh mode= ops=u.<key>.<value>,d.<key>,…`: the real wrappedTrie.Hash against Model.StateHash.hashOf over the records
`keccak(key) ++ value` (a delete is the value "DD"); a second Hash() in a row is the hash of nothing -/
def kvhAnswer (toks : List String) : String :=
  let opss := (arg? toks "ops").getD ""
  let recs : List (List UInt8) := (opss.splitOn ",").filterMap (fun o =>
    match o.splitOn "." with
    | ["u", k, v] => do
      let kb ← hexDecode? k
      let vb ← if v.isEmpty then some [] else hexDecode? v
      pure (Go.Keccak.keccak256L kb ++ vb)
    | ["d", k] => do
      let kb ← hexDecode? k
      pure (Go.Keccak.keccak256L kb ++ "DD".toUTF8.toList)
    | _ => none)
  let h := Model.StateHash.hashOf Go.Keccak.keccak256L recs
  let h0 := Model.StateHash.hashOf Go.Keccak.keccak256L []
  s!"h={hexEncode h} n={recs.length} again={hexEncode (h0.take 8)}"

/-- the claim itself: every replica agrees after every block and a re-execution reproduces every digest
(the theorems of Props.C05 cover the order-freedom of the state hash, the worker-count independence of the pre-check and the
election as a function of the candidate set; replica agreement on the real application is what the harness compares) -/
def step (h : Nat) (toks : List String) : Nat × String :=
  match toks with
  | "case" :: _ => (0, "ok")
  | "block" :: _ => (h + 1, s!"h={h + 1} agree=true")
  | "sblock" :: _ => (h + 1, s!"h={h + 1} agree=true")
  | "rerun" :: _ => (h, s!"same=true blocks={h}")
  | "elect" :: _ => (h, electAnswer toks)
  | "kvh" :: _ => (h, kvhAnswer toks)
  | _ => (h, "ok")

def machine : Machine := { σ := Nat, init := 0, step := step }

end Driver.C05
