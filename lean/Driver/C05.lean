import Driver.Common

namespace Driver.C05
open Driver

/-- the claim itself: every replica agrees after every block and a re-execution reproduces every digest
(the theorems of Props.C05 cover the order-freedom of the state hash and the worker-count independence of the pre-check;
replica agreement on the real application is what the harness compares) -/
def step (h : Nat) (toks : List String) : Nat × String :=
  match toks with
  | "case" :: _ => (0, "ok")
  | "block" :: _ => (h + 1, s!"h={h + 1} agree=true")
  | "rerun" :: _ => (h, s!"same=true blocks={h}")
  | _ => (h, "ok")

def machine : Machine := { σ := Nat, init := 0, step := step }

end Driver.C05
