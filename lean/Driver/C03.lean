import Driver.Common
import LinkVerif.Model.Commit
import LinkVerif.Model.Mst

namespace Driver.C03
open Go.Proto Model.Vote Model.VoteSet Model.Commit Model.Mst Driver

structure St where
  chain : List UInt8 := []
  hasVals : Bool := false
  vals : List Val := []
  vs : Option VS := none
  /-- block ids mentioned by `vote`/`peermaj23` ops of this case, in order of first mention -/
  bids : List BlockID := []
  commit : Option Commit := none
  evA : Option Vote := none
  evB : Option Vote := none
  mst : Option (List (List UInt8 × MSig)) := none
  fs : List FsH := []
  fsCommit : Option Commit := none

def showBid (b : BlockID) : String := s!"{hexEncode b.hash}/{b.total}/{hexEncode b.phash}"

def parseBid? (s : String) : Option BlockID :=
  match s.splitOn "/" with
  | [h, t, p] => do
    let h ← hexDecode? h
    let t ← t.toInt?
    let p ← hexDecode? p
    some ⟨h, t, p⟩
  | _ => none

def parseTs? (s : String) : Option (Int × Nat) :=
  match s.splitOn "," with
  | [a, b] => do some (← a.toInt?, ← b.toNat?)
  | _ => none

def argBid? (toks : List String) (k : String) : Option BlockID := (arg? toks k).bind parseBid?

/-- the vote described by `id= addr= idx= size= h= r= ts= type= bid= sig=` (+ `s.*` overrides of what was signed) -/
def parseVote? (caseChain : List UInt8) (toks : List String) : Option Vote := do
  let id ← argNat? toks "id"
  let addr ← argHex? toks "addr"
  let idx ← argInt? toks "idx"
  let size ← argInt? toks "size"
  let h ← argNat? toks "h"
  let r ← argInt? toks "r"
  let (sec, nsec) ← (arg? toks "ts").bind parseTs?
  let ty ← argNat? toks "type"
  let bid ← argBid? toks "bid"
  let sigS ← arg? toks "sig"
  let v0 : Vote := { id := id, addr := addr, idx := idx, size := size, height := h, round := r, tsSec := sec, tsNsec := nsec,
                     type := ty, bid := bid, sig := .nil }
  let sig ←
    if sigS == "nil" then some Sig.nil
    else if sigS.startsWith "bad:" then (sigS.drop 4).toString.toNat?.map Sig.bad
    else if sigS.startsWith "k" then do
      let k ← (sigS.drop 1).toString.toNat?
      let m0 := msgOf caseChain v0
      let chain := (argHex? toks "s.chain").getD m0.chain
      let sh := (argNat? toks "s.h").getD m0.height
      let sr := (argInt? toks "s.r").getD m0.round
      let sty := (argNat? toks "s.type").getD m0.type
      let sbid := (argBid? toks "s.bid").getD m0.bid
      let sms := match (arg? toks "s.ts").bind parseTs? with
        | some (a, b) => a * 1000 + (b / 1000000 : Nat)
        | none => m0.tsMs
      some (Sig.signed k { chain := chain, height := sh, round := sr, type := sty, bid := sbid, tsMs := sms })
    else none
  some { v0 with sig := sig }

def showBits (bs : List Bool) : String :=
  if bs.isEmpty then "-" else String.ofList (bs.map (fun b => if b then 'x' else '_'))

def showSlots (vs : List (Option Vote)) : String :=
  if vs.isEmpty then "-" else ",".intercalate (vs.map (fun o => match o with | some v => toString v.id | none => "_"))

def showState (st : St) (s : VS) : String :=
  let maj := match twoThirdsMajority s with | some b => showBid b | none => "none"
  let bb := if st.bids.isEmpty then "-" else
    ";".intercalate (st.bids.map (fun b => match bitArrayByBlockID s b with | some bs => (if bs.isEmpty then "nil" else showBits bs) | none => "nil"))
  s!"sum={s.sum} maj23={maj} has23={hasTwoThirdsMajority s} any={hasTwoThirdsAny' s} all={hasAll' s} iscommit={Model.VoteSet.isCommit s} bits={showBits s.bits} votes={showSlots s.votes} bb={bb}"

def showErr : AddErr → String
  | .none => "none" | .index => "index" | .address => "address" | .size => "size" | .step => "step"
  | .nondet => "nondet" | .sig => "sig" | .conflict a b => s!"conflict:{a.id}:{b.id}"

def track (st : St) (b : BlockID) : St := if st.bids.contains b then st else { st with bids := st.bids ++ [b] }

def parseVals? (toks : List String) : Option (List Val) := do
  let addrs ← argHexes? toks "addrs"
  let kaddrs ← argHexes? toks "kaddrs"
  let keys ← argInts? toks "keys"
  let powers ← argInts? toks "powers"
  if addrs.length ≠ kaddrs.length || addrs.length ≠ keys.length || addrs.length ≠ powers.length then none
  else some ((addrs.zip (kaddrs.zip (keys.zip powers))).map (fun (a, ka, k, p) => { addr := a, kaddr := ka, key := k.toNat, power := p }))

def showVErr : VErr → String
  | .size => "size" | .height => "height" | .round => "round" | .type => "type" | .sig => "sig" | .power => "power"

def showBasic : BasicErr → String
  | .ok => "ok" | .zeroBlock => "zero" | .empty => "empty" | .type => "type" | .height => "height" | .round => "round"

def step (st : St) (toks : List String) : St × String :=
  match toks with
  | "case" :: _ => ({}, "ok")
  | "evvote" :: _ =>
    match parseVote? st.chain toks with
    | none => (st, "bad-op")
    | some v => (if arg? toks "slot" == some "a" then { st with evA := some v } else { st with evB := some v }, "ok")
  | "dupev" :: _ =>
    match st.evA, st.evB, argNat? toks "key", argHex? toks "kaddr" with
    | some a, some b, some key, some kaddr =>
      (st, match dupEvVerify symVerify st.chain key kaddr a b with
        | .ok => "ok" | .hrs => "err=hrs" | .addr => "err=addr" | .index => "err=index" | .sameBlock => "err=same-block"
        | .pubkey => "err=pubkey" | .sigA => "err=sigA" | .sigB => "err=sigB")
    | none, _, _, _ | _, none, _, _ => (st, "novotes")
    | _, _, _, _ => (st, "bad-op")
  | "valset" :: _ =>
    match parseVals? toks, argHex? toks "chain" with
    | some vals, some chain =>
      ({ st with chain := chain, vals := vals, hasVals := true, vs := none }, s!"n={vals.length} total={totalPower vals}")
    | _, _ => (st, "bad-op")
  | "voteset" :: _ =>
    if !st.hasVals then (st, "dead") else
    match argHex? toks "chain", argNat? toks "h", argInt? toks "r", argNat? toks "type" with
    | some chain, some h, some r, some ty =>
      match newVS chain h r ty st.vals with
      | none => ({ st with vs := none }, "panic")
      | some s => let st' := { st with vs := some s, bids := [] }; (st', showState st' s)
    | _, _, _, _ => (st, "bad-op")
  | "vote" :: _ =>
    match st.vs, parseVote? st.chain toks with
    | none, _ => (st, "dead")
    | _, none => (st, "bad-op")
    | some s, some v =>
      let st := track st v.bid
      match addVote symVerify s v with
      | none => ({ st with vs := none }, "panic")
      | some r => ({ st with vs := some r.st }, s!"added={r.added} err={showErr r.err} " ++ showState st r.st)
  | "peermaj23" :: _ =>
    match st.vs, argHex? toks "peer", argBid? toks "bid" with
    | none, _, _ => (st, "dead")
    | some s, some peer, some bid =>
      let st := track st bid
      let (s', err) := setPeerMaj23 s peer bid
      ({ st with vs := some s' }, s!"err={err} " ++ showState st s')
    | _, _, _ => (st, "bad-op")
  | "makecommit" :: _ =>
    match st.vs with
    | none => (st, "dead")
    | some s =>
      match makeCommit s with
      | none => (st, "panic")
      | some c => ({ st with commit := some c }, s!"bid={showBid c.bid} slots={showSlots c.precommits}")
  | "cnew" :: _ =>
    match argBid? toks "bid" with
    | some b => ({ st with commit := some { bid := b, precommits := [] } }, "ok")
    | none => (st, "bad-op")
  | "cslot" :: rest =>
    match st.commit with
    | none => (st, "dead")
    | some c =>
      if rest == ["nil"] then ({ st with commit := some { c with precommits := c.precommits ++ [none] } }, "ok")
      else match parseVote? st.chain toks with
        | some v => ({ st with commit := some { c with precommits := c.precommits ++ [some v] } }, "ok")
        | none => (st, "bad-op")
  | "cinfo" :: _ =>
    match st.commit with
    | none => (st, "dead")
    | some c =>
      (st, s!"height={Model.Commit.height c} round={Model.Commit.round c} size={Model.Commit.size c} iscommit={Model.Commit.isCommit c} bits={showBits (bitArray c)} basic={showBasic (validateBasic c)}")
  | "verify" :: _ =>
    if !st.hasVals then (st, "dead") else
    match st.commit, argHex? toks "chain", argBid? toks "bid", argNat? toks "h" with
    | none, _, _, _ => (st, "dead")
    | some c, some chain, some bid, some h =>
      match verifyCommit symVerify st.vals chain bid h c with
      | .ok _ => (st, "ok")
      | .error e => (st, "err=" ++ showVErr e)
    | _, _, _, _ => (st, "bad-op")
  | "verifyany" :: _ =>
    if !st.hasVals then (st, "dead") else
    match st.commit, argHex? toks "chain", argBid? toks "bid", argNat? toks "h" with
    | none, _, _, _ => (st, "dead")
    | some c, some chain, some bid, some h =>
      match verifyCommitAny symVerify st.vals chain bid h c with
      | .ok _ => (st, "ok")
      | .error e => (st, "err=" ++ showVErr e)
    | _, _, _, _ => (st, "bad-op")
  | "cmore" :: _ =>
    match st.commit with
    | none => (st, "dead")
    | some c =>
      let first := if c.precommits.isEmpty then "nil" else match firstSome c.precommits with | some v => toString v.id | none => "synth"
      (st, s!"first={first} type={typePrecommit} byidx={showSlots c.precommits} nilsize=0")
  | "nilset" :: _ =>
    (st, "h=0 r=-1 t=0 size=0 ba=nil bb=nil get=nil has23=false iscommit=false any=false maj=false addvote-panics=true peer-panics=true")
  | "votenil" :: _ =>
    match st.vs with
    | none => (st, "dead")
    | some s => (st, "added=false err=nil-vote " ++ showState st s)
  | "vsinfo" :: _ =>
    match st.vs with
    | none => (st, "dead")
    | some s => (st, s!"h={s.height} r={s.round} t={s.type} chain={hexEncode s.chain} size={s.vals.length}")
  | "getbyaddr" :: _ =>
    match st.vs, argHex? toks "addr" with
    | none, _ => (st, "dead")
    | some s, some a =>
      match s.vals.findIdx? (fun v => v.addr = a) with
      | none => (st, "panic")
      | some j => (st, s!"has=true idx={j} vote={showSlots [s.votes.getD j none]}")
    | _, _ => (st, "bad-op")
  | "mstnew" :: _ => ({ st with mst := some [] }, "ok")
  | "mstsig" :: _ =>
    match st.mst, argHex? toks "addr", arg? toks "sig" with
    | none, _, _ => (st, "dead")
    | some l, some a, some sg =>
      match sg.splitOn ":" with
      | [k, n] =>
        match n.toNat? with
        | some n =>
          let ms : Option MSig := if k == "good" then some (.good n) else if k == "other" then some (.other n)
            else if k == "bad" then some (.bad n) else if k == "malformed" then some (.malformed n) else none
          match ms with
          | some m => ({ st with mst := some (l ++ [(a, m)]) }, "ok")
          | none => (st, "bad-op")
        | none => (st, "bad-op")
      | _ => (st, "bad-op")
    | _, _, _ => (st, "bad-op")
  | "mstverify" :: _ =>
    match st.mst with
    | none => (st, "dead")
    | some l =>
      let vals := if arg? toks "vals" == some "nil" then none else some st.vals
      (st, match verifySign vals l with
        | .ok _ => "ok" | .error .empty => "err=empty" | .error .dup => "err=dup" | .error .unknown => "err=unknown"
        | .error .malformed => "err=malformed" | .error .power => "err=power")
  | "reconstruct" :: _ =>
    if !st.hasVals then (st, "dead") else
    match argNat? toks "h", argHex? toks "chain" with
    | some h, some chain =>
      match reconstruct symVerify chain h st.vals st.commit with
      | none => (st, "panic")
      | some none => (st, "ok none")
      | some (some s) =>
        let maj := match twoThirdsMajority s with | some b => showBid b | none => "none"
        (st, s!"ok maj23={maj} h={s.height} r={s.round} sum={s.sum} votes={showSlots s.votes}")
    | _, _ => (st, "bad-op")
  | "verifynil" :: _ =>
    -- `VerifyCommit(nil)` is refused (fix f5d5bad); `VerifyCommitAny(nil)` (no caller) still dereferences the nil commit
    if !st.hasVals then (st, "dead") else (st, "verify=err=nil any=panic")
  | "fsvals" :: _ =>
    match parseVals? toks, argHex? toks "chain" with
    | some vals, some chain => ({ st with chain := chain, vals := vals, hasVals := true }, "ok")
    | _, _ => (st, "bad-op")
  | "fscommit" :: _ =>
    if arg? toks "bid" == some "none" then ({ st with fsCommit := none }, "ok") else
    match argBid? toks "bid" with
    | some b => ({ st with fsCommit := some { bid := b, precommits := [] } }, "ok")
    | none => (st, "bad-op")
  | "fsslot" :: rest =>
    match st.fsCommit with
    | none => (st, "bad-op")
    | some c =>
      if rest == ["nil"] then ({ st with fsCommit := some { c with precommits := c.precommits ++ [none] } }, "ok")
      else match parseVote? st.chain toks with
        | some v => ({ st with fsCommit := some { c with precommits := c.precommits ++ [some v] } }, "ok")
        | none => (st, "bad-op")
  | "fsheight" :: _ =>
    match argBid? toks "bid", arg? toks "served" with
    | some b, some sv =>
      ({ st with fs := st.fs ++ [{ vals := st.vals, bid := b, avail := sv == "true", commit := st.fsCommit }], fsCommit := none }, "ok")
    | _, _ => (st, "bad-op")
  | "fsrun" :: _ =>
    if st.fs.isEmpty then (st, "no-description") else
    match argNat? toks "announce", arg? toks "relay" with
    | some a, some relay =>
      let n := st.fs.length
      let over : Option Nat := if relay.startsWith "oversize:" then (relay.drop 9).toString.toNat? else none
      let inRange := st.fs.take a
      let hs := (inRange.zip (List.range inRange.length)).map (fun (x, i) => if over == some (i + 1) then { x with avail := false } else x)
      let (applied, stop) := fsLoop symVerify st.chain (decide (a ≤ n)) 1 hs
      let overHit := match over with | some k => decide (1 ≤ k ∧ k ≤ min a n) | none => false
      let dropped := stop == FsStop.badCommit || overHit
      let appliedS := if a > n then "*" else toString applied   -- (a lying announcement: progress is scheduler-dependent, not compared)
      ({ st with fs := [] }, s!"applied={appliedS} altered=- dropped={if dropped then "p0" else "-"} switched={stop == FsStop.caughtUp && !dropped}")
    | _, _ => (st, "bad-op")
  | "signbytes" :: _ =>
    match argHex? toks "chain", parseVote? st.chain toks with
    | some chain, some v => (st, hexEncode (String.ofList (signBytes (msgOf chain v))).toUTF8.toList)
    | _, _ => (st, "bad-op")
  | _ => (st, "bad-op")

def machine : Machine := { σ := St, init := {}, step := step }

end Driver.C03
