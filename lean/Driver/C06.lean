import Driver.Common
import LinkVerif.Model.Ledger
import LinkVerif.Model.LedgerR
import LinkVerif.Model.LedgerX

namespace Driver.C06
open Go.Proto Model.Ledger Driver

def argI (toks : List String) (k : String) (d : Int) : Int := (argInt? toks k).getD d

def insertStr (x : String) : List String → List String
  | [] => [x]
  | y :: ys => if x ≤ y then x :: y :: ys else y :: insertStr x ys
def sortStr (xs : List String) : List String := xs.foldr insertStr []

def showList (xs : List Int) : String := ",".intercalate (xs.map toString)

def balLine (s : St) : String :=
  let ws := s.wallets.map (fun outs => "+".intercalate (sortStr ((outs.filter (!·.spent)).map (fun o => toString o.amount))))
  s!"a={showList s.bal} t={showList s.tok} f={s.found} z={s.zero} w={"|".intercalate ws} pool={pool s} supply={supply s} toksupply={tokSupply s}"

/-- register a built transaction and run admission -/
def submit (s : St) (t : TxRec) : St × String :=
  let id := s.txs.length
  let s := { s with txs := s.txs ++ [t] }
  let (cls, s') := admitTx s id t
  (s', s!"id={id} admit={cls}")

/-- any gas price other than the chain's fixed one is refused by the basic check -/
def pricedOf (toks : List String) : Option String :=
  if argI toks "gpd" 0 != 0 then some "other:illegal_gasLimit_or_gasPrice" else none

/-- `more=` names further inputs; the generator only emits lists that repeat an input (with `in=` or among themselves) -/
def repeatsInput (toks : List String) : Bool :=
  match arg? toks "more" with
  | none => false
  | some m =>
    let all := (argI toks "in" 0).toNat :: (m.splitOn ",").filterMap String.toNat?
    all.eraseDups.length < all.length

def brokenOf (toks : List String) : Option String :=
  -- the same key image twice in one transaction (adjacent or not) is refused by the semantic check
  if repeatsInput toks then some "keyimage" else
  -- an account output that is not a whole number of commitment units is refused by the semantic check
  if argI toks "rem" 0 != 0 then some "money" else
  match arg? toks "tamper" with
  | some "outpk" | some "pseudo" | some "fee" => some "commit"
  | some "proof" | some "image" | some "sig" => some "proof"
  | _ => none

/-- the outputs named by `more=` when the named inputs (with `in=`) are pairwise distinct and exist -/
def extraOuts (s : St) (toks : List String) : List Out :=
  match arg? toks "more" with
  | none => []
  | some m =>
    if repeatsInput toks then [] else
    let outs := s.wallets.getD (argI toks "w" 0).toNat []
    ((m.splitOn ",").filterMap String.toNat?).filterMap (fun j => outs[j]?)

def step (s : Option St) (toks : List String) : Option St × String :=
  match toks with
  | "case" :: _ => (none, "ok")
  | "chain" :: _ =>
    (some (init (argI toks "accts" 3).toNat (argI toks "wallets" 2).toNat (argI toks "bal" 1000000000000) (argI toks "tbal" 1000000)), "ok")
  | op :: _ =>
    match s with
    | none => (none, "nochain")
    | some s =>
      match op with
      | "xfer" =>
        let amount := argI toks "amount" 1
        let (s', a) := submit s { kind := .xfer, from_ := (argI toks "from" 0).toNat, to := (argI toks "to" 1).toNat, amount := amount,
                                  nonce := (argI toks "nonce" 0).toNat, gas := calGas amount, broken := pricedOf toks }
        (some s', a)
      | "call" =>
        -- a contract call moves no value: the sender pays the metered gas (an input: `used=`, from the dry run) and its nonce
        -- advances whether the call succeeds or reverts; recorded as a self-transfer of 0; `spends` keeps the receipt status
        let from_ := (argI toks "from" 0).toNat
        let (s', a) := submit s { kind := .xfer, from_ := from_, to := from_, amount := 0, nonce := (argI toks "nonce" 0).toNat,
                                  gas := argI toks "used" 1000000, spends := (argI toks "st" 1).toNat, broken := pricedOf toks }
        (some s', a)
      | "xfertok" =>
        let (s', a) := submit s { kind := .xfertok, from_ := (argI toks "from" 0).toNat, to := (argI toks "to" 1).toNat, amount := argI toks "amount" 1,
                                  nonce := (argI toks "nonce" 0).toNat, gas := calGas 0 }
        (some s', a)
      | "ain" =>
        let amount := argI toks "amount" 1
        -- feeu=<units>: an explicit fee; rem=<wei>: the account input (and the confidential output) carry a fraction of a commitment
        -- unit: the semantic check demands an input of at least one unit and a whole number of units
        let gas := if argI toks "feeu" (-1) ≥ 0 then argI toks "feeu" 0 / 10 else calGas amount
        let input := amount + feeOfGas gas
        -- the fee must be a whole number of gas prices (10 units): semantic check, after the input's unit test
        let broken := if argI toks "rem" 0 != 0 || input < 1 then some "money"
          else if argI toks "feeu" (-1) ≥ 0 && argI toks "feeu" 0 % 10 != 0 then some "other:fee_illegal" else none
        let t : TxRec := { kind := .ain, from_ := (argI toks "from" 0).toNat, to := (argI toks "w" 0).toNat, amount := amount,
                           nonce := (argI toks "nonce" 0).toNat, gas := gas, broken := broken }
        -- fee adequacy is the LAST state check (after nonce and funds); a refused transaction leaves the speculative state alone
        if broken.isNone && gas < calGas amount && (admitTx s s.txs.length t).1 == "ok" then
          (some { s with txs := s.txs ++ [t] }, s!"id={s.txs.length} admit=fee-low") else
        let (s', a) := submit s t
        (some s', a)
      | "uu" | "ua" =>
        let w := (argI toks "w" 0).toNat
        let k := (argI toks "in" 0).toNat
        -- every index named by `more=` must be an output the wallet holds, as `in=` must
        let moreOk := match arg? toks "more" with
          | none => true
          | some m => (m.splitOn ",").all (fun x => match x.toNat? with | some j => j < (s.wallets.getD w []).length | none => false)
        match (if moreOk then (s.wallets.getD w [])[k]? else none) with
        | none => (some s, "noinput")
        | some o =>
          -- further inputs named by `more=` (distinct outputs of the wallet: a repeated one is refused by the semantic check,
          -- `brokenOf`): their amounts add to what the transaction spends; every one of their key images is checked
          let extra := extraOuts s toks
          let declared := match argInt? toks "claim" with | some c => c | none => o.amount + (extra.map (·.amount)).sum
          let amount := argI toks "amount" 1
          let ufee := feeOfGas utxoGas
          let submit := fun (s : St) (t : TxRec) =>
            let clash := extra.any (fun e => s.spentImgs.contains e.id || s.poolImgs.contains e.id)
            -- a state verdict, not a property of the transaction: it is registered, refused now, and may be valid in another state
            if t.broken.isNone && clash then ({ s with txs := s.txs ++ [t] }, s!"id={s.txs.length} admit=double-spend") else
            let (s', a) := submit s t
            if (a.splitOn " admit=ok").length == 2 then ({ s' with poolImgs := s'.poolImgs ++ extra.map (·.id) }, a) else (s', a)
          -- an account-side amount of 2^64 units or more cannot be turned into a commitment scalar: the builder refuses
          if op == "ua" && argI toks "hi" (-1) ≥ 64 then (some s, "build=money") else
          let amount := if op == "ua" && argI toks "all" 0 == 1 then
              let a0 := declared - feeOfGas (calGas declared)
              if a0 > 0 then declared - feeOfGas (calGas a0) else a0
            else amount
          if op == "ua" && argI toks "all" 0 == 1 && amount ≤ 0 then (some s, "build=funds") else
          if op == "uu" then
            -- feeu=<units>: an explicit fee: a whole number of gas prices (semantic check), at least the confidential gas (last state check)
            let feeu := argI toks "feeu" (-1)
            let ufee := if feeu ≥ 0 then feeu else ufee
            let change := declared - amount - ufee
            if change < 0 then (some s, "build=funds") else
            let to := (argI toks "to" 1).toNat
            let outs := (to, amount) :: (if change > 0 then [(w, change)] else [])
            let broken := match brokenOf toks with
              | some c => some c
              | none => if feeu ≥ 0 && feeu % 10 != 0 then some "other:fee_illegal" else none
            let t : TxRec := { kind := .uin, spends := o.id, outs := outs, gas := ufee / 10, broken := broken }
            if broken.isNone && ufee / 10 < utxoGas && (admitTx s s.txs.length t).1 == "ok" &&
                !(extra.any (fun e => s.spentImgs.contains e.id || s.poolImgs.contains e.id)) then
              (some { s with txs := s.txs ++ [t] }, s!"id={s.txs.length} admit=fee-low") else
            let (s', a) := submit s t
            (some s', a)
          else
            let afee := feeOfGas (calGas amount)
            let change := declared - amount - afee
            if change < 0 then (some s, "build=funds") else
            let to := (argI toks "to" 0).toNat
            if change > 0 then
              let change := change - ufee
              if change ≤ 0 then (some s, "build=funds") else
              let (s', a) := submit s { kind := .uin, spends := o.id, outs := [(w, change)], aout := some (to, amount),
                                        gas := calGas amount + utxoGas, broken := brokenOf toks }
              (some s', a)
            else
              let (s', a) := submit s { kind := .uin, spends := o.id, outs := [], aout := some (to, amount), gas := calGas amount,
                                        broken := brokenOf toks }
              (some s', a)
      | "replay" =>
        let id := (argI toks "id" 0).toNat
        if argI toks "id" 0 < 0 then (some s, "notx") else
        match s.txs[id]? with
        | none => (some s, "notx")
        | some t => let (cls, s') := admitTx s id t; (some s', s!"admit={cls}")
      | "block" =>
        let ids := s.pending
        let s' := block s
        (some s', s!"h={s'.height} txs={",".intercalate (ids.map toString)}")
      | "forceblock" =>
        let ids := ((arg? toks "ids").getD "").splitOn "," |>.filterMap String.toNat? |>.filter (· < s.txs.length)
        let (s', r) := forceBlock s ids
        if r == "ok" then (some s', s!"h={s'.height} txs={",".intercalate (ids.map toString)}") else (some s', r)
      | "receipts" =>
        let h := (argI toks "h" 0).toNat
        let ids := s.blocks.getD (h - 1) []
        let recs := ids.filterMap (fun i => s.txs[i]?)
        let gas := ",".intercalate (recs.map (fun t => toString t.gas))
        let st := ",".intercalate (recs.map (fun t => if t.kind == .xfer && t.from_ == t.to && t.amount == 0 then toString t.spends else "1"))
        if arg? toks "gas" == some gas && arg? toks "st" == some st then (some s, "ok")
        else (some s, s!"stale got:h={h} gas={arg? toks "gas"} st={arg? toks "st"} model gas={gas} st={st}")
      | "restart" =>
        (some { s with pending := [], poolImgs := [], sbal := s.bal, stok := s.tok, snonce := s.nonce }, s!"ok h={s.height}")
      | "bal" => (some s, balLine s)
      | "nonces" => (some s, "n=" ++ ",".intercalate (s.nonce.map toString))
      | _ => (some s, "bad-op")
  | [] => (s, "bad-op")

/-! Receipt-accurate layer (Model.LedgerR): `forceblock` executes the block the way `Process` does — a value-underfunded
account transfer whose gas is funded stays in the block with a FAILED receipt (status 0, gas 0, nonce bumped, nothing
moves) — and the driver remembers the receipt statuses of every committed block for the `receipts` op.  All other ops are
the ones above (`block` commits what the mempool holds: such a block never contains a failing transaction). -/
structure DR where
  s : St
  sts : List (List Bool) := []     -- receipt statuses (true = 1) of block h at index h - 1
  /-- contract calls that carry value and succeed (dry-run status 1): (transaction id, sender, value).  The ledger model has no
  contract account: the value a successful call leaves with the contract is booked on the `z` bucket (zero address +
  contract), which the harness prints the same way -/
  vcalls : List (Nat × Nat × Int) := []
  /-- extended observation (Model.LedgerX) and the value movements of the contract transactions the dry run saw succeed, by
  transaction id; `ncreate`: number of `create` ops so far (each aims at one more observed address); `prev`: the state the
  last committed block started from (for `recs`) -/
  x : XS := {}
  effs : List (Nat × List Prim) := []
  ncreate : Nat := 0
  /-- (sender, nonce, kind) of the creation each created bucket belongs to: the creation address is a function of these three,
  a second `create` with the same three aims at the same address (same bucket) -/
  ckeys : List (Nat × Nat × String) := []
  prev : Option (St × XS) := none
  /-- calls addressed to a created instance: (transaction id, instance, gas limit, value, the call is a SELFDESTRUCT) -/
  dests : List (Nat × Nat × Int × Int × Bool) := []
  /-- instances a committed SELFDESTRUCT removed: their address has no code any more, so the basic check judges a transaction
  addressed to them by the plain-transfer rule (gas limit = exactly the transfer gas) BEFORE any state check -/
  dead : List Nat := []
  /-- account→confidential transactions whose fee does not cover the value-proportional gas of what they bring in as `CheckStoreState`
  computes it inside a block (the amount in wei, rounded UP to the fee step): a block holding one is execution-invalid -/
  feelow : List Nat := []
  /-- confidential transactions with several inputs: (transaction id, ids of the outputs spent besides the first).  Model.Ledger's
  transaction record carries ONE spent output; the further key images are checked, pooled, committed and marked here -/
  multi : List (Nat × List Nat) := []
  /-- real genesis: number of candidates (award payees: their coinbases, then their supporters: `x.yw`) -/
  sys : Option Nat := none

/-- book the value of the successful value-carrying calls among the transactions `ids` (with receipt statuses `sts`) -/
def bookCalls (vcalls : List (Nat × Nat × Int)) (ids : List Nat) (sts : List Bool) (s : St) : St :=
  (ids.zipIdx).foldl (fun acc (id, i) =>
    match vcalls.find? (fun c => c.1 == id) with
    | some (_, from_, v) =>
      if sts.getD i true then
        { acc with bal := addAt acc.bal from_ (-v), sbal := addAt acc.sbal from_ (-v), zero := acc.zero + v }
      else acc
    | none => acc) s

/-- a block committed through the strict path (`block`): every receipt has status 1 -/
def alignSts (sts : List (List Bool)) (s' : St) : List (List Bool) :=
  if s'.blocks.length > sts.length then sts ++ [List.replicate ((s'.blocks.getLast?.getD []).length) true] else sts


/-- book the movements of the successful contract transactions among `ids` (receipt statuses `sts`), then the end of the block -/
def bookEffs (effs : List (Nat × List Prim)) (ids : List Nat) (sts : List Bool) (sx : St × XS) : St × XS :=
  applyBlock sx ((ids.zipIdx).filterMap (fun (id, i) =>
    match effs.find? (fun c => c.1 == id) with
    | some (_, ps) => if sts.getD i true then some ps else none
    | none => none))

def intrinsicOf (kind : String) : Int :=
  match kind with
  | "ok" => 63908 | "empty" => 53004 | "revert" => 53212 | "invalid" => 53068 | "big" => 53344 | "max" => 53280 | "json" => 53476
  | _ => 0

/-- a<i> account, b<k> beneficiary, m the Mover, c<j> the address of the j-th `create` -/
def targetOf (t : String) : Option Bk :=
  if t == "m" then some (.x 0) else
  match t.toList with
  | 'a' :: r => (String.ofList r).toNat?.map Bk.acct
  | 'b' :: r => (String.ofList r).toNat?.map (fun k => Bk.x (1 + k))
  | 'c' :: r => (String.ofList r).toNat?.map (fun j => Bk.x (3 + j))
  | _ => none

def slash (a b : Int) : String := s!"{a}/{b}"

def balxLine (s : St) (x : XS) : String :=
  let ws := s.wallets.map (fun outs => "+".intercalate (sortStr ((outs.filter (!·.spent)).map (fun o => toString o.amount))))
  let b := ",".intercalate [slash (geti x.xb 1) (geti x.xt 2), slash (geti x.xb 2) (geti x.xt 3)]
  s!"a={showList s.bal} t={showList s.tok} f={s.found} z={s.zero} zt={geti x.xt 0} m={slash (geti x.xb 0) (geti x.xt 1)} b={b} c={showList (x.xb.drop 3)} w={"|".intercalate ws} pool={pool s} supply={nativeTotal s x} toksupply={tokenTotal s x}"

def diffList (now old : List Int) : List Int := now.zipIdx.map (fun (v, i) => v - geti old i)

/-- what the balance records of the last block must net to, per observed bucket: the change of the state, plus (for a
contract that destroyed itself in its own favour) what was destroyed -/
def recsLine (s : St) (x : XS) (s0 : St) (x0 : XS) : String :=
  let c := (diffList (x.xb.drop 3) (x0.xb.drop 3)).zipIdx.map (fun (v, j) => v + geti x.rx (3 + j))
  let b := ",".intercalate [slash (geti x.xb 1 - geti x0.xb 1) (geti x.xt 2 - geti x0.xt 2), slash (geti x.xb 2 - geti x0.xb 2) (geti x.xt 3 - geti x0.xt 3)]
  s!"a={showList (diffList s.bal s0.bal)} t={showList (diffList s.tok s0.tok)} f={s.found - s0.found} z={s.zero - s0.zero} zt={geti x.xt 0 - geti x0.xt 0} m={slash (geti x.xb 0 - geti x0.xb 0) (geti x.xt 1 - geti x0.xt 1)} b={b} c={showList c} p={pool s - pool s0} mint=0 burn=0 unk=0"

/-- the contract ops: the transaction is recorded as a self-transfer of 0 that pays the metered gas (as `call`); its value
movements are remembered and booked when a block commits it with status 1 -/
def contractOp (d : DR) (toks : List String) : Option (DR × String) :=
  let from_ := (argI toks "from" 0).toNat
  let v := argI toks "value" 0
  let rec_ (broken : Option String) (ps : List Prim) (d : DR) : DR × String :=
    let (s', a) := submit d.s { kind := .xfer, from_ := from_, to := from_, amount := 0, nonce := (argI toks "nonce" 0).toNat,
                                gas := argI toks "used" 1000000, spends := (argI toks "st" 1).toNat, broken := broken }
    let effs := if argI toks "st" 1 == 1 then d.effs ++ [(s'.txs.length - 1, ps)] else d.effs
    ({ d with s := s', effs := effs }, a)
  let illegal : Option String := some "other:illegal_gasLimit_or_gasPrice"
  match toks with
  | "create" :: _ =>
    let kind := (arg? toks "kind").getD ""
    if intrinsicOf kind == 0 then some (d, "bad-kind") else
    let gas := argI toks "gas" 1000000
    let key := (from_, (argI toks "nonce" 0).toNat, kind)
    let known := d.ckeys.findIdx? (· == key)
    let j := known.getD d.ncreate
    let d := if known.isSome then d else
      { d with ncreate := j + 1, ckeys := d.ckeys ++ [key], x := { d.x with xb := d.x.xb ++ [0], rx := d.x.rx ++ [0] } }
    let broken := if argI toks "gpd" 0 != 0 then illegal
      else if gas < intrinsicOf kind then illegal
      else if v > 0 && calGas v > gas then illegal
      else if kind == "json" && calGas v != gas then illegal
      else none
    some (rec_ broken [.move false (.acct from_) (.x (3 + j)) (some v)] d)
  | "mcall" :: _ =>
    match targetOf ((arg? toks "to").getD "") with
    | none => some (d, "bad-target")
    | some t =>
      let at_ := argI toks "at" (-1)
      if at_ ≥ 0 && at_.toNat ≥ d.ncreate then some (d, "bad-target") else
      let dst : Bk := if at_ ≥ 0 then .x (3 + at_.toNat) else .x 0
      let tok := argI toks "tok" 0 == 1
      let src : Bk := .acct from_
      let deadDst := at_ ≥ 0 && d.dead.contains at_.toNat && argI toks "gas" 1000000 != calGas v
      let d := if at_ ≥ 0 then { d with dests := d.dests ++ [(d.s.txs.length, at_.toNat, argI toks "gas" 1000000, v, argI toks "m" 0 == 2)] } else d
      let ps : List Prim :=
        match argI toks "m" 0 with
        | 1 | 3 => [.move false src dst (some v), .move false dst t (some v)]
        | 2 => if t == dst then [.move false src dst (some v), .burn dst, .kill dst] else [.move false src dst (some v), .move false dst t none, .kill dst]
        | 4 => [.move tok src dst (some v), .move tok dst t (some v)]
        | 7 => [.move false src dst (some v), .move false dst t (some (v / 2))]
        | 8 => [.move false src dst (some v), .move false dst t none]
        | _ => [.move tok src dst (some v)]
      some (rec_ (if deadDst then illegal else pricedOf toks) ps d)
  | "calltok" :: _ => some (rec_ (pricedOf toks) [.move true (.acct from_) .zero (some v)] d)
  | "xferx" :: _ =>
    match targetOf ((arg? toks "to").getD "") with
    | none => some (d, "bad-target")
    | some t =>
      let amount := argI toks "amount" 1
      let broken := if argI toks "gpd" 0 != 0 then illegal
        else if argI toks "gas" (-1) ≥ 0 && argI toks "gas" (-1) != calGas amount then illegal else none
      some (rec_ broken [.move false (.acct from_) t (some amount)] d)
  | "uxbad" :: _ =>
    let shape := (arg? toks "shape").getD ""
    let cls := match shape with
      | "ainaout" => "other:input_type_not_expect" | "aout2" => "other:account_output_too_more" | _ => "other:account_outputs_illegal"
    if shape != "ainaout" && shape != "aout2" && shape != "cout" then some (d, "bad-shape") else
    if shape != "ainaout" && ((d.s.wallets.getD (argI toks "w" 0).toNat [])[(argI toks "in" 0).toNat]?).isNone then some (d, "noinput") else
    let (s', a) := submit d.s { kind := .uin, spends := 0, outs := [], gas := 0, broken := some cls }
    some ({ d with s := s' }, a)
  | "replay" :: _ =>
    let id := argI toks "id" 0
    let es := match d.multi.find? (fun e => id ≥ 0 && e.1 == id.toNat) with | some (_, es) => es | none => []
    let firstFree := match d.s.txs[id.toNat]? with
      | some t => t.broken.isNone && !d.s.spentImgs.contains t.spends && !d.s.poolImgs.contains t.spends
      | none => false
    if firstFree && es.any (fun e => d.s.spentImgs.contains e || d.s.poolImgs.contains e) then some (d, "admit=double-spend") else
    match d.dests.find? (fun e => id ≥ 0 && e.1 == id.toNat) with
    | some (_, j, gas, v, _) =>
      if d.dead.contains j && gas != calGas v then some (d, "admit=other:illegal_gasLimit_or_gasPrice") else none
    | none => none
  | "balx" :: _ => some (d, balxLine d.s d.x)
  | "recs" :: _ =>
    match d.prev with
    | none => some (d, "norecords")
    | some (s0, x0) => some (d, recsLine d.s d.x s0 x0)
  | _ => none

/-- after a committed block: book the contract movements, remember where the block started -/
def commitX (d : DR) (before : St) (ids : List Nat) (sts : List Bool) (s' : St) : DR :=
  let x0 := { d.x with rx := d.x.rx.map (fun _ => 0), killed := [] }
  let extras := (ids.zipIdx.filter (fun (_, i) => sts.getD i true)).flatMap (fun (id, _) =>
    match d.multi.find? (fun e => e.1 == id) with | some (_, es) => es | none => [])
  let s' := extras.foldl (fun acc e => { acc with wallets := markSpent acc.wallets e,
                                                  spentImgs := if acc.spentImgs.contains e then acc.spentImgs else acc.spentImgs ++ [e] }) s'
  let (s'', x') := bookEffs d.effs ids sts (s', x0)
  -- a SELFDESTRUCT that the dry run saw succeed (it has movements booked) and that this block executed removes its instance
  let killed := (ids.zipIdx).filterMap (fun (id, i) =>
    match d.dests.find? (fun e => e.1 == id) with
    | some (_, j, _, _, true) => if sts.getD i true && (d.effs.find? (fun c => c.1 == id)).isSome then some j else none
    | _ => none)
  { d with s := s'', x := x', prev := some (before, x0), dead := d.dead ++ killed }

def stepR (d : Option DR) (toks : List String) : Option DR × String :=
  match d.bind (fun d => contractOp d toks) with
  | some (d', a) => (some d', a)
  | none =>
  match d, toks with
  | some d, "forceblock" :: _ =>
    let ids := ((arg? toks "ids").getD "").splitOn "," |>.filterMap String.toNat? |>.filter (· < d.s.txs.length)
    if ids.any (fun i => d.feelow.contains i) then (some d, "propose=panic") else
    -- every key image of every transaction of the block (the further inputs of multi-input spends included) must be neither
    -- committed nor seen earlier in the block
    let imgsOfTx := fun (i : Nat) => match d.s.txs[i]? with
      | some t => (if t.kind == .uin then [t.spends] else []) ++ (match d.multi.find? (fun e => e.1 == i) with | some (_, es) => es | none => [])
      | none => []
    let clash := (ids.foldl (fun (acc : Bool × List Nat) i =>
      let im := imgsOfTx i
      (acc.1 || im.any (fun x => acc.2.contains x || d.s.spentImgs.contains x) || im.eraseDups.length < im.length, acc.2 ++ im)) (false, [])).1
    if clash && ids.any (fun i => (d.multi.find? (fun e => e.1 == i)).isSome) then (some d, "propose=panic") else
    let (s', r, sts) := forceBlockR d.s ids
    if r == "ok" then
      -- the stand-in mempool rechecks what is still pending against the fresh speculative state (what mempool.Update does
      -- after a foreign block: C15): invalidated transactions are dropped
      let s0 := { s' with pending := [], poolImgs := [], spentImgs := s'.spentImgs ++ ((ids.zipIdx.filter (fun (_, i) => sts.getD i true)).flatMap (fun (id, _) =>
        match d.multi.find? (fun e => e.1 == id) with | some (_, es) => es | none => [])) }
      let spentNow := s'.spentImgs ++ ((ids.zipIdx.filter (fun (_, i) => sts.getD i true)).flatMap (fun (id, _) =>
        match d.multi.find? (fun e => e.1 == id) with | some (_, es) => es | none => []))
      let s'' := s'.pending.foldl (fun acc id => match acc.txs[id]? with
        | some t =>
          let es := match d.multi.find? (fun e => e.1 == id) with | some (_, es) => es | none => []
          if es.any (fun e => spentNow.contains e || acc.poolImgs.contains e) then acc else
          let r := (checkState acc id t)
          if r.1 == "ok" then { r.2 with poolImgs := r.2.poolImgs ++ es } else r.2
        | none => acc) s0
      (some (commitX { d with sts := d.sts ++ [sts] } d.s ids sts (bookCalls d.vcalls ids sts s'')), s!"h={s'.height} txs={",".intercalate (ids.map toString)}")
    else (some { d with s := s' }, r)
  | some d, "receipts" :: _ =>
    let s := d.s
    let h := (argI toks "h" 0).toNat
    let ids := s.blocks.getD (h - 1) []
    let recs := ids.filterMap (fun i => s.txs[i]?)
    let sts := d.sts.getD (h - 1) []
    let pairs := recs.zipIdx.map (fun (t, i) => (t, sts.getD i true))
    let gas := ",".intercalate (pairs.map (fun (t, ok) => if ok then toString t.gas else "0"))
    let st := ",".intercalate (pairs.map (fun (t, ok) =>
      if !ok then "0" else if t.kind == .xfer && t.from_ == t.to && t.amount == 0 then toString t.spends else "1"))
    if arg? toks "gas" == some gas && arg? toks "st" == some st then (some d, "ok")
    else (some d, s!"stale got:h={h} gas={arg? toks "gas"} st={arg? toks "st"} model gas={gas} st={st}")
  | _, _ =>
    let (s', a) := step (d.map (·.s)) toks
    match s' with
    | none => (none, a)
    | some s' =>
      let old := (d.map (·.s.blocks.length)).getD 0
      let vc0 := (d.map (·.vcalls)).getD []
      -- a value-carrying call that the dry run saw succeed is remembered by its transaction id
      let vc := match toks with
        | "call" :: _ =>
          if argI toks "value" 0 > 0 && argI toks "st" 1 == 1 && (a.splitOn " admit=").length == 2 then
            vc0 ++ [(s'.txs.length - 1, (argI toks "from" 0).toNat, argI toks "value" 0)]
          else vc0
        | "chain" :: _ => []
        | _ => vc0
      -- a block committed through the strict path: every receipt has status 1
      let s'' := if s'.blocks.length > old then bookCalls vc (s'.blocks.getLast?.getD []) [] s' else s'
      let d0 : DR := match toks with
        | "chain" :: _ => { s := s'' }
        | _ => (d.getD { s := s'' })
      -- in-block fee rule of an account→confidential transaction (CheckStoreState): needed = the transfer gas of (input − fee) in wei
      let fl := match toks with
        | "ain" :: _ =>
          let amount := argI toks "amount" 1
          let gas := if argI toks "feeu" (-1) ≥ 0 then argI toks "feeu" 0 / 10 else calGas amount
          let up : Int := if argI toks "rem" 0 > 0 then 1 else 0
          let needed : Int := if amount + up > 0 then calGas (amount + up) else 0
          if needed > gas && (a.splitOn " admit=").length == 2 then d0.feelow ++ [s'.txs.length - 1] else d0.feelow
        | "uu" :: _ =>
          -- a confidential spend whose explicit fee does not cover the confidential gas: execution-invalid inside a block
          if argI toks "feeu" (-1) ≥ 0 && argI toks "feeu" 0 / 10 < utxoGas && (a.splitOn " admit=").length == 2 then d0.feelow ++ [s'.txs.length - 1] else d0.feelow
        | _ => d0.feelow
      let mu := match toks, d with
        | "uu" :: _, some dd | "ua" :: _, some dd =>
          let es := (extraOuts dd.s toks).map (·.id)
          if !es.isEmpty && (a.splitOn " admit=").length == 2 then d0.multi ++ [(s'.txs.length - 1, es)] else d0.multi
        | _, _ => d0.multi
      let d1 : DR := { d0 with s := s'', sts := alignSts ((d.map (·.sts)).getD []) s', vcalls := vc, feelow := fl, multi := mu }
      let d2 := if s'.blocks.length > old then commitX d1 ((d.map (·.s)).getD s') (s'.blocks.getLast?.getD []) [] s'' else d1
      (some d2, a)

/-! Real genesis (`syschain`): the same ledger, plus the award payees in wei (Model.LedgerX `yw`, `fw`).  What a block paid
them travels in the `awards` op (from the dry run: the model does not execute the WASM foundation contract) and is booked as
`Prim.award` moves out of the foundation. -/

def wei (u : Int) : Int := u * unitWei

/-- the pledge contract's balance at the real genesis: per candidate i the 5·10^6 coin pledge and its supporter's deposit -/
def sysConst (cands : Nat) : Int :=
  ((List.range cands).map (fun i => ((5000000 : Int) + 10000 * (1 + ((i * 7) % 5 : Nat))) * 1000000000000000000)).sum

def intsOf (s : String) : List Int := (s.splitOn ",").filterMap String.toInt?

def sbalLine (s : St) (x : XS) (n : Nat) : String :=
  let ws := s.wallets.map (fun outs => "+".intercalate (sortStr ((outs.filter (!·.spent)).map (fun o => toString o.amount))))
  s!"a={showList s.bal} t={showList s.tok} fw={foundationWei s x} cb={showList (x.yw.take n)} sup={showList (x.yw.drop n)} w={"|".intercalate ws} pool={pool s} supply={nativeTotalWei s x + sysConst n} toksupply={tokenTotal s x}"

def srecsLine (s : St) (x : XS) (s0 : St) (x0 : XS) (n : Nat) : String :=
  let dy := diffList x.yw x0.yw
  let other := wei ((diffList x.xb x0.xb).sum + x.rx.sum + (s.zero - s0.zero))
  s!"a={showList ((diffList s.bal s0.bal).map wei)} t={showList ((diffList s.tok s0.tok).map wei)} f={foundationWei s x - foundationWei s0 x0} cb={showList (dy.take n)} sup={showList (dy.drop n)} pl=0 p={wei (pool s - pool s0)} other={other} mint=0 unk=0"

/-! TOKEN confidential transactions (`tokchain … tokdec=<d>`): the token's commitment unit is 10^(d−8) (1 below 8 decimals);
amounts of the ops are in units of the token; the account side of the model stays in 10^10 base units. -/

def unitOfDec (d : Int) : Int := if d < 8 then 1 else (10 : Int) ^ (d - 8).toNat

def tbalLine (s : St) (x : XS) : String :=
  let ws := x.tw.map (fun outs => "+".intercalate (sortStr ((outs.filter (!·.spent)).map (fun o => toString o.amount))))
  s!"t={showList s.tok} tw={"|".intercalate ws} tpool={tokPool x} unit={x.tunit} toksupply={tokenTotalX s x}"

def minGas : Int := 500000

def tokOp (d : DR) (toks : List String) : Option (DR × String) :=
  let x := d.x
  let rem := argI toks "rem" 0
  -- rem=<base units> on top of the amount: a whole number of the token's units simply adds to it
  let amount := argI toks "amount" 1 + (if rem % x.tunit == 0 && argI toks "lie" 0 != 1 && argI toks "all" 0 != 1 then rem / x.tunit else 0)
  match toks with
  | "tain" :: _ =>
    let from_ := (argI toks "from" 0).toNat
    let gas := if argI toks "feeu" (-1) ≥ 0 then argI toks "feeu" 0 / 10 else minGas
    -- a whole number of the TOKEN's units (the semantic check of the account input), then the state check (token funds)
    let broken := if rem % x.tunit != 0 then some "money"
      else if geti d.s.stok from_ < tok10 x amount then some "funds" else none
    let (s', a) := submit d.s { kind := .xfer, from_ := from_, to := from_, amount := 0, nonce := (argI toks "nonce" 0).toNat,
                                gas := gas, spends := 1, broken := broken }
    let ok := (a.splitOn " admit=ok").length == 2
    -- the state check reserves the tokens in the speculative state
    let s'' := if ok then { s' with stok := addAt s'.stok from_ (-(tok10 x amount)) } else s'
    let effs := if ok then d.effs ++ [(s'.txs.length - 1, [Prim.tokIn from_ (argI toks "w" 0).toNat amount])] else d.effs
    some ({ d with s := s'', effs := effs }, a)
  | op :: _ =>
    if op != "tuu" && op != "tua" then none else
    let w := (argI toks "w" 0).toNat
    match (x.tw.getD w [])[(argI toks "in" 0).toNat]? with
    | none => some (d, "noinput")
    | some o =>
      let payer := (argI toks "payer" 0).toNat
      let amount := if op == "tua" && argI toks "all" 0 == 1 then o.amount else amount
      let change := o.amount - amount
      if change < 0 then some (d, "build=funds") else
      let lie := argI toks "lie" 0 == 1 && x.tunit != 10000000000
      if op == "tua" && rem != 0 && !lie && change == 0 then some (d, "build=other:input_money_is_not_equal_to_output_money") else
      let to := (argI toks "to" (if op == "tuu" then 1 else 0)).toNat
      let outs : List (Nat × Int) := (if op == "tuu" then [(to, amount)] else []) ++ (if change > 0 then [(w, change)] else [])
      let gas : Int := if op == "tuu" then utxoGas else minGas + (if change > 0 then utxoGas else 0)
      -- an account output written in the NATIVE unit (lie): amount·10^10 base units must be at least one unit of the token and a
      -- whole number of them (semantic check), and then its commitment does not match (commitment equation)
      let broken : Option String :=
        if op == "tua" && lie then
          (if amount * 10000000000 < x.tunit || (amount * 10000000000) % x.tunit != 0 || amount * 10000000000 / x.tunit ≥ 18446744073709551616
            then some "money" else some "commit")
        else if op == "tua" && rem % x.tunit != 0 then some "money" else none
      let aout : Option (Nat × Int × Int) := if op == "tua" then some (to, amount, tok10 x amount) else none
      let (s', a) := submit d.s { kind := .uin, spends := o.id, outs := [], gas := gas, broken := broken }
      let ok := (a.splitOn " admit=ok").length == 2
      let effs := if ok then d.effs ++ [(s'.txs.length - 1, [Prim.tokSpend o.id outs aout, Prim.fee payer (feeOfGas gas)])] else d.effs
      some ({ d with s := s', effs := effs }, a)
  | [] => none

def stepS (d : Option DR) (toks : List String) : Option DR × String :=
  match toks with
  | "tokchain" :: rest =>
    match stepR d ("chain" :: rest) with
    | (some d', a) =>
      let n := (argI toks "wallets" 2).toNat
      (some { d' with x := { d'.x with tw := List.replicate n [], tnext := 0, tunit := unitOfDec (argI toks "tokdec" 18) } }, a)
    | r => r
  | "tbal" :: _ =>
    match d with
    | some d => if d.x.tw.isEmpty then (some d, "notok") else (some d, tbalLine d.s d.x)
    | none => (none, "nochain")
  | "tain" :: _ | "tuu" :: _ | "tua" :: _ =>
    match d with
    | some d0 => if d0.x.tw.isEmpty then (some d0, "notok") else
      match tokOp d0 toks with
      | some (d', a) => (some d', a)
      | none => (some d0, "bad-op")
    | none => (none, "nochain")
  | "syschain" :: rest =>
    match stepR d ("chain" :: rest) with
    | (some d', a) =>
      let n := (argI toks "cands" 4).toNat
      (some { d' with sys := some n, x := { d'.x with yw := List.replicate (2 * n) 0, fw := 0 } }, a)
    | r => r
  | "sblk" :: rest =>
    match d.bind (·.sys) with
    | none => (d, if d.isSome then "nosys" else "nochain")
    | some _ => stepR d ("block" :: rest)
  | "awards" :: _ =>
    match d, d.bind (·.sys) with
    | some d, some n =>
      let cb := intsOf ((arg? toks "cb").getD "")
      let sup := intsOf ((arg? toks "sup").getD "")
      let ps : List Prim := (cb.zipIdx.map (fun (w, k) => Prim.award k w)) ++ (sup.zipIdx.map (fun (w, k) => Prim.award (n + k) w))
      let (s', x') := applyPrims (d.s, d.x) ps
      (some { d with s := s', x := x' }, "ok")
    | _, _ => (d, if d.isSome then "nosys" else "nochain")
  | "sbal" :: _ =>
    match d, d.bind (·.sys) with
    | some d, some n => (some d, sbalLine d.s d.x n)
    | _, _ => (d, if d.isSome then "nosys" else "nochain")
  | "srecs" :: _ =>
    match d, d.bind (·.sys) with
    | some d, some n =>
      match d.prev with
      | none => (some d, "norecords")
      | some (s0, x0) => (some d, srecsLine d.s d.x s0 x0 n)
    | _, _ => (d, if d.isSome then "nosys" else "nochain")
  | _ => stepR d toks

def machine : Machine := { σ := Option DR, init := none, step := stepS }

end Driver.C06
