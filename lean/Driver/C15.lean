import Driver.Common
import LinkVerif.Model.Mempool

namespace Driver.C15
open Go.Proto Model.Ledger Model.Mempool Driver

structure D where
  p : Pool
  reg : List TxRec := []
  sink : Bool := false
  replica : Bool := false
  avail : Bool := false        -- EnableTxsAvailable was called
  notified : Bool := false     -- notifiedTxsAvailable
  rmfuture : Bool := false     -- config.RemoveFutureTx
  acctq : Nat := 1000          -- config.AccountQueue
  lifeTiny : Bool := false     -- config.Lifetime of a few ns: the eviction tick removes every queue
  dropAll : Bool := false      -- GoodTxDropTime = 0
  p2ptx : Bool := true         -- config.ReceiveP2pTx
  spec : List E := []          -- specGoodTxs
  mSpec : Nat := 0             -- speculative nonce of the multi-sign address
  mComm : Nat := 0             -- its committed nonce
  specSize : Nat := 100        -- config.SpecSize
  vals : Nat := 0              -- validators (power 1 each) whose signatures make a multi-sign tx
deriving Inhabited

def argI (toks : List String) (k : String) (d : Int) : Int := (argInt? toks k).getD d

def showI (xs : List Int) : String := ",".intercalate (xs.map toString)
def showN (xs : List Nat) : String := ",".intercalate (xs.map toString)
def showIds (xs : List Nat) : String := if xs.isEmpty then "-" else showN xs

def insertNat (x : Nat) : List Nat → List Nat
  | [] => [x]
  | y :: ys => if x ≤ y then x :: y :: ys else y :: insertNat x ys
def sortNat (xs : List Nat) : List Nat := xs.foldr insertNat []

def clsStr : Cls → String
  | .ok => "ok" | .nonceLow => "nonce-low" | .nonceHigh => "nonce-high" | .funds => "funds" | .feeLow => "fee-low"
  | .doubleSpend => "double-spend" | .dup => "dup" | .full => "full" | .oversized => "oversized" | .negative => "negative"

/-- class of a transaction altered after construction (what the basic check answers) -/
def brokenOf (toks : List String) : Option String :=
  match arg? toks "tamper" with
  | some "outpk" | some "pseudo" | some "fee" => some "commit"
  | some "proof" | some "sig" => some "proof"
  | _ => none

def clsOf (cls : Cls) (t : TxRec) : String :=
  if cls == .oversized then
    match t.broken with
    | some b => if b.startsWith "pad" then "oversized" else b
    | none => "oversized"
  else clsStr cls

def committedLine (p : Pool) : String := s!"cn={showN p.c.nonce} cb={showI p.c.bal} ct={showI p.c.tok}"

def dump (p : Pool) : String :=
  s!"g={showIds (p.good.map (·.id))} u={showIds (p.utxo.map (·.id))} q={showIds (sortNat (p.fut.map (·.id)))} qn={p.fut.length} sn={showN p.acc.nonce} sb={showI p.acc.bal} st={showI p.acc.tok}"

/-- account transactions are signed deterministically: equal content = equal hash = the same transaction -/
def sameAcct (a b : TxRec) : Bool :=
  (a.kind == .xfer || a.kind == .xfertok) && a.kind == b.kind && a.from_ == b.from_ && a.to == b.to && a.amount == b.amount &&
  a.nonce == b.nonce && a.gas == b.gas && a.broken == b.broken && a.spends == b.spends

def register (reg : List TxRec) (t : TxRec) : List TxRec × Nat :=
  match reg.findIdx? (sameAcct t) with
  | some i => (reg, i)
  | none => (reg ++ [t], reg.length)

def imgClass (reg : List TxRec) (t : TxRec) : Int :=
  if t.kind == .uin then
    match reg.findIdx? (fun x => x.kind == .uin && x.spends == t.spends) with
    | some i => i
    | none => -1
  else -1

/-- `AddTx` followed by the per-account cap that the promotion of the sender applies when the tx entered goodTxs -/
def admit (d : D) (e : E) : Cls × Pool :=
  let (cls, p') := addTx d.p e
  let entered := (p'.good.any (·.id == e.id)) && !(d.p.good.any (·.id == e.id))
  (cls, if d.rmfuture && entered then capAccount p' e.t.from_ d.acctq else p')

/-- IllegalGasLimitOrGasPrice / IntrinsicGas for a plain transaction: recipient without code (or none): gas must equal the
fee rule's gas and cover the intrinsic gas; recipient with code: gas covers the intrinsic gas and, for a value > 0, the
contract fee rule's gas -/
def calGasC (amountUnits : Int) : Int :=
  let g := 25000 * ((amountUnits + 99999999) / 100000000)
  if g < 500000 then 500000 else if g > 5000000000 then 5000000000 else g

def gasLegal (amount gas nz z : Int) (tocode create : Bool) : Bool :=
  let intr := (if create then 53000 else 21000) + 68 * nz + 4 * z
  if gas < intr then false
  else if tocode then (if amount > 0 then decide (calGasC amount ≤ gas) else true)
  -- no recipient and a payload that is not a JSON object (`IsContract`): a contract creation, any gas that covers the fee rule
  else if create && nz + z > 0 then (if amount > 0 then decide (calGas amount ≤ gas) else true)
  else gas == calGas amount

def submit (d : D) (toks : List String) (t : TxRec) : D × String :=
  let (reg, id) := register d.reg t
  let d := { d with reg := reg }
  let img := imgClass reg t
  if argI toks "sub" 1 == 0 then (d, s!"id={id} img={img} built")
  else
    let (cls, p') := admit d { id := id, t := (reg[id]?).getD t }
    ({ d with p := p' }, s!"id={id} img={img} add={clsOf cls ((reg[id]?).getD t)} {dump p'}")

def dedup (xs : List Nat) : List Nat := xs.foldl (fun acc x => if acc.contains x then acc else acc ++ [x]) []

/-- senders whose queue was touched by the promotion over all accounts (which ranges over a Go map) -/
def touched (before after : Pool) : List Nat :=
  let gAfter := after.good.map (·.id)
  let qAfter := after.fut.map (·.id)
  let a := (before.fut.filter (fun e => gAfter.contains e.id)).map (·.t.from_)
  let b := (before.fut.filter (fun e => !gAfter.contains e.id && !qAfter.contains e.id)).map (·.t.from_)
  let c := (after.fut.filter (fun e => e.t.nonce == getn after.acc.nonce e.t.from_)).map (·.t.from_)
  dedup (a ++ b ++ c)

def msigFrom : Nat := 999999
def isMsig (e : E) : Bool := e.t.from_ == msigFrom

def commitWith (d0 : D) (all : List E) : D × String :=
  let es := all.filter (fun e => !isMsig e)
  let ms := all.filter isMsig
  let d := if d0.dropAll then { d0 with p := dropTimedOut d0.p (all.map (·.id)),
                                        spec := d0.spec.filter (fun e => (all.map (·.id)).contains e.id) } else d0
  -- execution first (PreRunBlock), then the validator-side checks (proofs, multi-sign signatures)
  match specRun d.mComm (ms.map (·.t)) with
  | none => (d0, "propose=panic")
  | some mComm' =>
  if !execOk d.p.c es then (d0, "propose=panic") else
  if ms.any (fun e => e.t.broken.isSome) then (d0, "validate=false") else
  match forceEntries d.p es with
  | none => (d0, "validate=false")
  | some p1 =>
    let p2 := if d.rmfuture then capAll p1 d.acctq p1.cfg.accts else p1
    let rest := d.spec.filter (fun e => !(all.map (·.id)).contains e.id)
    let (kept, mSpec') := specRecheck mComm' rest
    let dropped := rest.filter (fun e => !(kept.map (·.id)).contains e.id)
    let p' := { p2 with cache := dropIds p2.cache dropped }
    if (touched d0.p p').length ≥ 2 then ({ d with p := p', sink := true }, "nondet")
    else ({ d with p := p', spec := kept, mSpec := mSpec', mComm := mComm' },
          s!"h={p'.c.height} txs={showIds (all.map (·.id))} {committedLine p'} {dump p'}")

def step (s : Option D) (toks : List String) : Option D × String :=
  match toks with
  | "case" :: _ => (none, "ok")
  | "pool" :: _ =>
    let cfg : Cfg := { size := (argI toks "size" 3000).toNat, future := (argI toks "future" 100000).toNat,
                       utxoSize := (argI toks "utxosize" 1000).toNat, maxReap := (argI toks "maxreap" 10000).toNat,
                       accts := (argI toks "accts" 3).toNat }
    let p := Model.Mempool.init cfg (argI toks "wallets" 2).toNat (argI toks "bal" 1000000000) (argI toks "tbal" 1000)
    (some { p := p, replica := argI toks "replica" 0 == 1, avail := argI toks "avail" 0 == 1, rmfuture := argI toks "rmfuture" 0 == 1,
            acctq := (argI toks "acctq" 1000).toNat, lifeTiny := argI toks "lifens" 0 > 0, dropAll := argI toks "droptime" (-1) == 0,
            p2ptx := argI toks "p2ptx" 1 == 1, specSize := (argI toks "specsize" 100).toNat, vals := (argI toks "vals" 0).toNat },
     "ok " ++ committedLine p)
  | op :: _ =>
    match s with
    | none => (none, "nopool")
    | some d =>
      if d.sink then (some d, "skip") else
      match op with
      | "xfer" =>
        let amount := argI toks "amount" 1
        let pad := argI toks "pad" 0
        let nz := argI toks "nz" 0
        let z := argI toks "z" 0
        let tocode := argI toks "tocode" 0 == 1
        let create := argI toks "create" 0 == 1
        let gas := match argInt? toks "gas" with | some g => if g ≥ 0 then g else calGas amount | none => calGas amount
        let broken := if pad > 0 then some s!"pad{pad}"
          else if !gasLegal amount gas nz z tocode create then some "other:illegal_gasLimit_or_gasPrice" else none
        -- data / recipient kind are part of the transaction's identity (spends is unused for account transfers)
        let extra := (nz.toNat * 100000 + z.toNat) * 4 + (if tocode then 2 else 0) + (if create then 1 else 0)
        let (d, a) := submit d toks { kind := .xfer, from_ := (argI toks "from" 0).toNat,
                                      to := if tocode || create then 1000 else (argI toks "to" 1).toNat, amount := amount,
                                      nonce := (argI toks "nonce" 0).toNat, gas := gas, spends := extra, broken := broken }
        (some d, a)
      | "xfertok" =>
        let (d, a) := submit d toks { kind := .xfertok, from_ := (argI toks "from" 0).toNat, to := (argI toks "to" 1).toNat,
                                      amount := argI toks "amount" 1, nonce := (argI toks "nonce" 0).toNat, gas := calGas 0 }
        (some d, a)
      | "ain" =>
        let amount := argI toks "amount" 1
        let gas := match argInt? toks "feeu" with | some f => if f ≥ 0 then f / 10 else calGas amount | none => calGas amount
        let (d, a) := submit d toks { kind := .ain, from_ := (argI toks "from" 0).toNat, to := (argI toks "w" 0).toNat, amount := amount,
                                      nonce := (argI toks "nonce" 0).toNat, gas := gas }
        (some d, a)
      | "uu" | "ua" =>
        let w := (argI toks "w" 0).toNat
        let k := (argI toks "in" 0).toNat
        if argI toks "in" 0 < 0 then (some d, "noinput") else
        match (d.p.c.wallets.getD w [])[k]? with
        | none => (some d, "noinput")
        | some o =>
          let amount := argI toks "amount" 1
          let ufee := feeOfGas utxoGas
          if op == "uu" then
            let change := o.amount - amount - ufee
            if change < 0 then (some d, "build=funds") else
            let to := (argI toks "to" 1).toNat
            let outs := (to, amount) :: (if change > 0 then [(w, change)] else [])
            let (d, a) := submit d toks { kind := .uin, spends := o.id, outs := outs, gas := utxoGas, broken := brokenOf toks }
            (some d, a)
          else
            let afee := feeOfGas (calGas amount)
            let change := o.amount - amount - afee
            if change < 0 then (some d, "build=funds") else
            let to := (argI toks "to" 0).toNat
            if change > 0 then
              let change := change - ufee
              if change ≤ 0 then (some d, "build=funds") else
              let (d, a) := submit d toks { kind := .uin, spends := o.id, outs := [(w, change)], aout := some (to, amount),
                                            gas := calGas amount + utxoGas, broken := brokenOf toks }
              (some d, a)
            else
              let (d, a) := submit d toks { kind := .uin, spends := o.id, outs := [], aout := some (to, amount), gas := calGas amount, broken := brokenOf toks }
              (some d, a)
      | "msig" =>
        let sigs := Nat.min (argI toks "sigs" d.vals).toNat d.vals
        let nonce := (argI toks "nonce" 0).toNat
        -- VerifySign: more than two thirds (integer division) of the total power 1·vals
        let t : TxRec := { kind := .xfer, from_ := msigFrom, to := (argI toks "variant" 0).toNat, amount := 0, nonce := nonce, gas := 0,
                           spends := sigs, broken := if sigs > d.vals * 2 / 3 then none else some "funds" }
        let (reg, id) := register d.reg t
        let d := { d with reg := reg }
        if argI toks "sub" 1 == 0 then (some d, s!"id={id} img=-1 built") else
        let e : E := { id := id, t := t }
        if d.p.cache.contains id then (some d, s!"id={id} img=-1 add=dup {dump d.p}")
        else if t.broken.isSome then (some d, s!"id={id} img=-1 add=funds {dump d.p}")
        else if nonce < d.mSpec then (some d, s!"id={id} img=-1 add=nonce-low {dump d.p}")
        else if nonce > d.mSpec then (some d, s!"id={id} img=-1 add=nonce-high {dump d.p}")
        else if d.spec.length < d.specSize then
          let p' := { d.p with cache := d.p.cache ++ [id] }
          (some { d with p := p', spec := d.spec ++ [e], mSpec := d.mSpec + 1 }, s!"id={id} img=-1 add=ok {dump p'}")
        else (some { d with mSpec := d.mSpec + 1 }, s!"id={id} img=-1 add=full {dump d.p}")   -- the state check already ran
      | "resub" =>
        let id := (argI toks "id" 0).toNat
        if argI toks "id" 0 < 0 then (some d, "notx") else
        match d.reg[id]? with
        | none => (some d, "notx")
        | some t =>
          let (cls, p') := admit d { id := id, t := t }
          (some { d with p := p' }, s!"add={clsOf cls t} {dump p'}")
      | "reap" =>
        let es := reapS d.p d.spec d.specSize (argI toks "max" 1000).toNat
        let ex := match execBlock d.p.c [] ((es.filter (fun e => !isMsig e)).map (·.t)), specRun d.mComm ((es.filter isMsig).map (·.t)) with
          | some _, some _ => "ok" | _, _ => "panic"
        (some d, s!"txs={showIds (es.map (·.id))} exec={ex} {committedLine d.p}")
      | "commit" =>
        let (d, a) := commitWith d (reapS d.p d.spec d.specSize (argI toks "max" 1000).toNat)
        (some d, a)
      | "force" =>
        let ids := ((arg? toks "ids").getD "").splitOn "," |>.filterMap String.toNat?
        let (d, a) := commitWith d (entries d.reg ids)
        (some d, a)
      | "conc" => (some { d with sink := true }, "conc viol=none")
      | "window" =>
        let id := (argI toks "id" 0).toNat
        if argI toks "id" 0 < 0 then (some d, "notx") else
        match d.reg[id]? with
        | none => (some d, "notx")
        | some t =>
          let e : E := { id := id, t := t }
          -- first half of AddTx, the verdicts of a block holding exactly this transaction inside the window, second half
          let pc := putC { p := d.p } e
          let ex := execOk pc.p.c [e]
          let during := if !ex then "propose-panic" else toString (verdict pc [e])
          let cold := if !ex || !d.replica then "-" else toString (verdictCold pc.p.c [e])
          let (cls, pc') := finishC pc e
          let entered := (pc'.p.good.any (·.id == id)) && !(d.p.good.any (·.id == id))
          let p' := if d.rmfuture && entered then capAccount pc'.p t.from_ d.acctq else pc'.p
          (some { d with p := p' }, s!"during={during} cold={cold} add={clsOf cls t} {dump p'}")
      | "evictwait" =>
        let p' := if d.rmfuture && d.lifeTiny then evictAll d.p else d.p
        (some { d with p := p' }, s!"evicted {dump p'}")
      | "recv" =>
        let id := (argI toks "id" 0).toNat
        match arg? toks "kind" with
        | some "garbage" | some "empty" => (some d, s!"queued=0 stopped=1 add=- {dump d.p}")
        | some "notify" | some "request" =>
          if id < d.reg.length then (some d, s!"queued=0 stopped=0 add=- {dump d.p}") else (some d, "notx")
        | _ =>
          match d.reg[id]? with
          | none => (some d, "notx")
          | some t =>
            if !d.p2ptx then (some d, s!"queued=0 stopped=0 add=- {dump d.p}") else
            let (cls, p') := admit d { id := id, t := t }
            (some { d with p := p' }, s!"queued=1 stopped=0 add={clsOf cls t} {dump p'}")
      | _ => (some d, "bad-op")
  | [] => (s, "bad-op")

/-- key-image index and TxsAvailable notification: appended to every answer that carries a pool dump.  The index of the
model IS the image list of utxoTxs (Props.C15 `Inv.imgs`), so `ki=ok`.  The notification fires at the first addition to a
lane after a commit (or the start), and at the end of an Update that leaves the pool non-empty. -/
def hasDump (ans : String) : Bool := (ans.splitOn " g=").length > 1

def stepW (s : Option D) (toks : List String) : Option D × String :=
  let (s', ans) := step s toks
  match s, s' with
  | some d, some d' =>
    if !hasDump ans then (s', ans) else
    let pend := fun (x : D) => (x.p.good ++ x.p.utxo ++ x.spec).map (·.id)
    let added := (pend d').any (fun i => !(pend d).contains i)
    let committed := ans.startsWith "h="
    let av := d'.avail && (if committed then !(pend d').isEmpty else (!d.notified && added))
    let notified := if committed then av else d.notified || av
    (some { d' with notified := notified },
     ans ++ s!" s={showIds (d'.spec.map (·.id))} mn={d'.mSpec},{d'.mComm} ki=ok av={if av then 1 else 0}")
  | _, _ => (s', ans)

def machine : Machine := { σ := Option D, init := none, step := stepW }

end Driver.C15
